import BoltonsVerif.C14.StrDelims
/-
C14 — property theorems for the model of the `boltons.strutils` encoders.

Vocabulary (definitions in `Model.lean` / `Proofs.lean`):
  `Str = List Char`; `NoNul args` = no argument contains U+0000;
  `shSplit`  = reference POSIX-sh word splitter, `none` when the shell would do anything
               other than split into literal words (unquoted character outside the inert set,
               `$`/backquote in double quotes, unterminated quote, NUL);
  `crtSplit v` = the MS C runtime `parse_cmdline` rules, `v` ∈ {documented, legacy, modern};
  `renderRange (lo, hi)` = `lo` if `lo = hi` else `lo-hi` (decimal); `renderRangeD rd` = the same with
               the range delimiter `rd`; `DelimOK d rd` = `d ≠ rd`, neither a digit nor a blank;
  `Canon rs`  = every run has `lo ≤ hi`, and each later run starts at least 2 above every
               earlier run's end (strictly increasing, not mergeable = maximal ranges);
  `Covers rs x` = `x` lies in one of the runs.
The gzip clause of the property is about zlib (external C code): it is covered by a
differential round-trip test in the harness, not by a theorem.
-/
namespace C14

/-! ### shell quoting -/

/-- translator obligation (re-proved against the table regenerated from the current source):
    every character `args2sh` leaves unquoted is one the reference lexer knows to be inert -/
theorem sh_table_sound (c : Char) (h : isSafeChar c = true) : shLiteral c = true :=
  safe_sub_literal c h

/-- `args2sh` / `escape_shell_args(style='sh')`: a POSIX shell splits the text into exactly the
    arguments, nothing expanded — for every list of NUL-free strings -/
theorem sh_roundtrip (args : List Str) (h : NoNul args) : shSplit (args2sh args) = some args :=
  sh_roundtrip_aux args h

example : NoNul ["a b".toList, [], "it's $HOME; `x` \\ \"q\" *~\n".toList, "é".toList] := by decide +kernel
example : shSplit "a 'b c'\"\\\"d\" e\\ f".toList = some ["a".toList, "b c\"d".toList, "e f".toList] := by decide +kernel
example : shSplit "a $b".toList = none := by decide +kernel
-- the NUL hypothesis is needed: no shell word can carry U+0000
example : shSplit (args2sh [[nul]]) = none := by decide +kernel

/-- `args2cmd` / `escape_shell_args(style='cmd')`: the MS C runtime rules (in each of the three
    historical variants of the `""` rule) split the text into exactly the arguments -/
theorem cmd_roundtrip (v : CrtVariant) (args : List Str) (h : NoNul args) :
    crtSplit v (args2cmd args) = args :=
  cmd_roundtrip_aux v args h

example : crtSplit .modern (args2cmd ["a\\\\\"b c\\".toList, [], "\"".toList]) =
    ["a\\\\\"b c\\".toList, [], "\"".toList] := by decide +kernel

/-- `escape_shell_args` dispatches to the two encoders (`style=None` = the empty style, on a
    non-win32 platform, means `sh`), so the round trips hold for it as well -/
theorem esa_sh_roundtrip (args : List Str) (h : NoNul args) :
    ∃ t, escapeShellArgs ['s', 'h'] args = some t ∧ escapeShellArgs [] args = some t ∧
      shSplit t = some args :=
  ⟨args2sh args, rfl, rfl, sh_roundtrip args h⟩

theorem esa_cmd_roundtrip (v : CrtVariant) (args : List Str) (h : NoNul args) :
    ∃ t, escapeShellArgs ['c', 'm', 'd'] args = some t ∧ crtSplit v t = args :=
  ⟨args2cmd args, rfl, cmd_roundtrip v args h⟩

/-- `style=None` (or any falsy style) on win32 means `cmd`: the text is then read back by the MS C
    runtime rules (the non-win32 case is `esa_sh_roundtrip`) -/
theorem esa_none_win32_roundtrip (v : CrtVariant) (args : List Str) (h : NoNul args) :
    ∃ t, escapeShellArgs [] args true = some t ∧ escapeShellArgs ['c', 'm', 'd'] args true = some t ∧
      crtSplit v t = args :=
  ⟨args2cmd args, rfl, rfl, cmd_roundtrip v args h⟩

/-- an explicit style never looks at the platform, and exactly the styles `sh`, `cmd` and the falsy
    one are accepted (anything else is ValueError) -/
theorem esa_platform_only_for_none (style : Str) (hs : style ≠ []) (args : List Str) (w : Bool) :
    escapeShellArgs style args w = escapeShellArgs style args false := by
  cases style with
  | nil => exact absurd rfl hs
  | cons c cs => simp [escapeShellArgs]

theorem esa_valueError_iff (style : Str) (args : List Str) (w : Bool) :
    escapeShellArgs style args w = none ↔ (style ≠ [] ∧ style ≠ ['s', 'h'] ∧ style ≠ ['c', 'm', 'd']) := by
  cases style with
  | nil => cases w <;> simp [escapeShellArgs]
  | cons c cs =>
    simp only [escapeShellArgs, List.isEmpty_cons, Bool.false_eq_true, if_false]
    split
    · simp_all
    · split <;> simp_all

example : escapeShellArgs [] ["a b".toList] true = some "\"a b\"".toList := by decide +kernel
example : escapeShellArgs [] ["a b".toList] false = some "'a b'".toList := by decide +kernel
example : escapeShellArgs "bogus".toList ["a".toList] true = none := by decide +kernel

/-- consequently both encoders are injective: different argument lists never produce the same text -/
theorem sh_injective (a b : List Str) (ha : NoNul a) (hb : NoNul b) (h : args2sh a = args2sh b) : a = b := by
  have h1 := sh_roundtrip a ha
  rw [h, sh_roundtrip b hb] at h1
  exact (Option.some.inj h1).symm

theorem cmd_injective (a b : List Str) (ha : NoNul a) (hb : NoNul b) (h : args2cmd a = args2cmd b) : a = b := by
  have h1 := cmd_roundtrip .modern a ha
  rw [h, cmd_roundtrip .modern b hb] at h1
  exact h1.symm

/-! ### acceptance: ANY text that reads back as the arguments is a correct quoting (round 3)

The statement constrains how the text is READ, not the text.  `shAccepts t args` (the reference POSIX
lexer reads `t` as exactly `args`, nothing expanded) and `crtAccepts t args` (the MS C runtime rules, all
three variants, read `t` as exactly `args`) are that clause for an arbitrary text `t`; the correspondence
check evaluates them on the text the implementation produced.  The theorems below: the model's own
quoting is accepted; acceptance determines the arguments; acceptance is compositional; a whole syntactic
class of quotings (pieces; any valid splice for an embedded single quote; any superset of the
"needs double quotes" predicate) is accepted. -/

theorem sh_accepts_iff (t : Str) (args : List Str) : shAccepts t args = true ↔ shSplit t = some args := by
  simp [shAccepts]

theorem crt_accepts_iff (t : Str) (args : List Str) :
    crtAccepts t args = true ↔ ∀ v, crtSplit v t = args := by
  simp only [crtAccepts, Bool.and_eq_true, beq_iff_eq]
  constructor
  · rintro ⟨⟨h1, h2⟩, h3⟩ v; cases v <;> assumption
  · intro h; exact ⟨⟨h _, h _⟩, h _⟩

/-- the text the model of `args2sh` writes is accepted -/
theorem sh_model_accepted (args : List Str) (h : NoNul args) : shAccepts (args2sh args) args = true :=
  (sh_accepts_iff _ _).2 (sh_roundtrip args h)

/-- the text the model of `args2cmd` writes is accepted -/
theorem cmd_model_accepted (args : List Str) (h : NoNul args) : crtAccepts (args2cmd args) args = true :=
  (crt_accepts_iff _ _).2 (fun v => cmd_roundtrip v args h)

/-- a text is a correct quoting of at most one argument list -/
theorem sh_accepts_unique (t : Str) (a b : List Str) (ha : shAccepts t a = true) (hb : shAccepts t b = true) :
    a = b := by
  rw [sh_accepts_iff] at ha hb
  rw [ha] at hb
  exact Option.some.inj hb

theorem crt_accepts_unique (t : Str) (a b : List Str) (ha : crtAccepts t a = true)
    (hb : crtAccepts t b = true) : a = b := by
  rw [crt_accepts_iff] at ha hb
  rw [← ha .modern, ← hb .modern]

/-- hence EVERY encoder whose output is accepted is injective - whatever text it chooses -/
theorem sh_accepted_encoder_injective (enc : List Str → Str)
    (h : ∀ args, NoNul args → shAccepts (enc args) args = true)
    (a b : List Str) (ha : NoNul a) (hb : NoNul b) (e : enc a = enc b) : a = b :=
  sh_accepts_unique (enc a) a b (h a ha) (e ▸ h b hb)

theorem crt_accepted_encoder_injective (enc : List Str → Str)
    (h : ∀ args, NoNul args → crtAccepts (enc args) args = true)
    (a b : List Str) (ha : NoNul a) (hb : NoNul b) (e : enc a = enc b) : a = b :=
  crt_accepts_unique (enc a) a b (h a ha) (e ▸ h b hb)

/-- acceptance is compositional: accepted texts joined by single blanks are accepted for the
    concatenated argument lists (so a quoting may be judged one argument at a time) -/
theorem sh_accepts_join (pas : List (Str × List Str)) (h : ∀ pa ∈ pas, shAccepts pa.1 pa.2 = true) :
    shAccepts (join [' '] (pas.map (·.1))) (pas.map (·.2)).flatten = true :=
  (sh_accepts_iff _ _).2 (shSplit_join pas (fun pa hpa => (sh_accepts_iff _ _).1 (h pa hpa)))

example : shAccepts (join [' '] ["'a b'".toList, "c\\ d e".toList]) ["a b".toList, "c d".toList, "e".toList] = true := by
  decide +kernel

/-- the piece grammar: a word written as a non-empty sequence of pieces - `'…'` (no `'`), `\c`
    (c not a newline), `"…"` (no `"` `\` `$` backquote), a non-empty bare run of inert characters - is
    read as the concatenation of the piece values; words separated by single blanks -/
theorem sh_pieces_sound (ws : List (List ShPiece)) (h : ∀ w ∈ ws, wordOk w = true) :
    shAccepts (join [' '] (ws.map wordRender)) (ws.map wordValue) = true :=
  (sh_accepts_iff _ _).2 (sh_pieces_sound_aux ws h)

example : wordOk [.sgl "a $b".toList, .esc '\'', .dbl "c'* d".toList, .bare "e=f".toList] = true := by
  decide +kernel
example : wordRender [.sgl "a $b".toList, .esc '\'', .dbl "c'* d".toList, .bare "e=f".toList] =
    "'a $b'\\'\"c'* d\"e=f".toList := by decide +kernel
example : wordValue [.sgl "a $b".toList, .esc '\'', .dbl "c'* d".toList, .bare "e=f".toList] =
    "a $b'c'* de=f".toList := by decide +kernel

/-- `args2sh` with ANY splice for an embedded single quote that has the shape
    `'` + pieces denoting one `'` + `'` (decidable side condition `spliceOk`), and ANY predicate `bare`
    that leaves only arguments made of inert characters unquoted, round-trips -/
theorem sh_roundtrip_with (bare : Str → Bool) (hb : ∀ a, bare a = true → ∀ c ∈ a, shLiteral c = true)
    (splice : Str) (ps : List ShPiece) (hs : spliceOk splice ps = true)
    (args : List Str) (h : NoNul args) :
    shAccepts (args2shWith bare splice args) args = true :=
  (sh_accepts_iff _ _).2 (sh_roundtrip_with_aux bare hb splice ps hs args h)

-- the splice of the code as it is (`'"'"'`), the backslash splice (`'\''`), and one that is refused
example : spliceOk "'\"'\"'".toList [.dbl [sq]] = true := by decide +kernel
example : spliceOk "'\\''".toList [.esc sq] = true := by decide +kernel
example : spliceOk "\\'".toList [] = false := by decide +kernel

/-- translator obligations (re-proved against the tables regenerated from the current source): the text the
    code splices in for an embedded single quote is a valid way of writing one (`spliceOk`, with the piece
    decomposition proposed by the translator), and the class of characters that make `args2cmd` wrap an
    argument in double quotes contains blank and tab -/
theorem sh_splice_table_sound : spliceOk sqSplice splicePieces = true := spliceTable_ok

theorem cmd_quote_table_sound (a : Str) (h : needQuote a = true) : cmdNeedQuote a = true :=
  cmdNeedQuote_of_needQuote a h

/-- the model's `args2sh` is the instance with the regenerated splice and the regenerated safe-character class -/
theorem args2sh_is_instance (args : List Str) : args2sh args = args2shWith allSafe sqSplice args := rfl

-- whatever the regenerated splice is, a quote inside an argument comes back as that quote
example : shSplit (args2sh ["it's".toList, "''".toList]) = some ["it's".toList, "''".toList] := by decide +kernel

/-- the same encoder with the backslash splice `'\''` (what `shlex.quote`-style code writes) is correct too -/
theorem sh_roundtrip_backslash_splice (args : List Str) (h : NoNul args) :
    shAccepts (args2shWith allSafe [sq, bsl, sq, sq] args) args = true :=
  sh_roundtrip_with allSafe allSafe_literal _ [.esc sq] (by decide +kernel) args h

example : args2shWith (fun _ => false) [sq, bsl, sq, sq] ["it's".toList, "x".toList] = "'it'\\''s' 'x'".toList := by
  decide +kernel

/-- `args2cmd` with ANY "wrap in double quotes" predicate that is true at least for empty arguments and
    arguments containing a blank or a tab round-trips, in every variant of the CRT rules -/
theorem cmd_roundtrip_anyquote (qp : Str → Bool) (hq : ∀ a, needQuote a = true → qp a = true)
    (args : List Str) (h : NoNul args) : crtAccepts (args2cmdQ qp args) args = true :=
  (crt_accepts_iff _ _).2 (fun v => cmd_roundtrip_anyquote_aux v qp hq args h)

/-- the model's `args2cmd` is the instance with the regenerated predicate -/
theorem args2cmd_is_instance (args : List Str) : args2cmd args = args2cmdQ cmdNeedQuote args :=
  args2cmd_eq_Q args

example : args2cmdQ (fun a => needQuote a || a.contains '&') ["x&y".toList, "tail\\".toList, "a&\\".toList] =
    "\"x&y\" tail\\ \"a&\\\\\"".toList := by decide +kernel
-- the hypothesis is needed: an unquoted blank splits the argument
example : crtSplit .modern (args2cmdQ (fun _ => false) ["a b".toList]) = ["a".toList, "b".toList] := by
  decide +kernel

/-- `escape_shell_args`: the style (and, for a falsy style, the platform) selects the reader, and the text
    is accepted by that reader -/
theorem esa_accepted (style : Str) (w : Bool) (args : List Str) (h : NoNul args) :
    match styleOf style w with
    | some .sh => ∃ t, escapeShellArgs style args w = some t ∧ shAccepts t args = true
    | some .cmd => ∃ t, escapeShellArgs style args w = some t ∧ crtAccepts t args = true
    | none => escapeShellArgs style args w = none := by
  simp only [styleOf, escapeShellArgs]
  generalize (if style.isEmpty = true then (if w = true then ['c', 'm', 'd'] else ['s', 'h']) else style) = st
  by_cases h1 : st = ['s', 'h']
  · simp only [h1, if_true]
    exact ⟨_, rfl, sh_model_accepted args h⟩
  · by_cases h2 : st = ['c', 'm', 'd']
    · subst h2
      simp only [if_true]
      exact ⟨_, by simp, cmd_model_accepted args h⟩
    · simp only [h1, h2, if_false]

/-! ### the documented MS C runtime rules hold for the reference parser `crt`

(the five rules quoted in the source comment of `args2cmd`; `crt v inArg inQuote pendingBackslashes cur rest`) -/

/-- "2n backslashes followed by a quotation mark produce n backslashes, and the quotation mark toggles
    quoting" (`cs` does not start with a second quotation mark while inside quotes: the `""` rule) -/
theorem crt_rule_2n_backslashes_quote (v : CrtVariant) (ia q : Bool) (n : Nat) (cur cs : Str)
    (hcs : q = false ∨ cs.head? ≠ some dq) :
    crt v ia q 0 cur (bs (2 * n) ++ dq :: cs) = crt v true (!q) 0 (cur ++ bs n) cs := by
  cases n with
  | zero => simpa [bs_zero] using crt_dq_even v ia q 0 cur cs (by omega) hcs
  | succ k =>
    rw [crt_bs_run _ _ _ _ _ _ _ (Or.inr (by omega)), crt_dq_even _ _ _ _ _ _ (by omega) hcs]
    congr 3; omega

/-- "2n+1 backslashes followed by a quotation mark produce n backslashes and a literal quotation mark" -/
theorem crt_rule_2n1_backslashes_quote (v : CrtVariant) (ia q : Bool) (n : Nat) (cur cs : Str) :
    crt v ia q 0 cur (bs (2 * n + 1) ++ dq :: cs) = crt v true q 0 (cur ++ bs n ++ [dq]) cs := by
  rw [crt_bs_run _ _ _ _ _ _ _ (Or.inr (by omega)), crt_dq_odd _ _ _ _ _ _ (by omega)]
  congr 4; omega

/-- "backslashes are interpreted literally, unless they immediately precede a quotation mark" -/
theorem crt_rule_backslashes_literal (v : CrtVariant) (ia q : Bool) (n : Nat) (cur : Str) (c : Char) (cs : Str)
    (h0 : c ≠ nul) (h1 : c ≠ bsl) (h2 : c ≠ dq) (h3 : isBlank c = false) (hn : 0 < n) :
    crt v ia q 0 cur (bs n ++ c :: cs) = crt v true q 0 (cur ++ bs n ++ [c]) cs := by
  rw [crt_bs_run _ _ _ _ _ _ _ (Or.inr hn), crt_plain _ _ _ _ _ _ _ h0 h1 h2 (Or.inl h3)]
  simp

/-- "arguments are delimited by white space" outside quotes, and a blank inside quotes is literal -/
theorem crt_rule_blank (v : CrtVariant) (n : Nat) (cur cs : Str) :
    crt v true false n cur (' ' :: cs) = (cur ++ bs n) :: crt v false false 0 [] cs ∧
    crt v true true n cur (' ' :: cs) = crt v true true 0 (cur ++ bs n ++ [' ']) cs :=
  ⟨crt_blank_end v n cur cs,
   crt_plain v true true n cur ' ' cs (by decide) (by decide) (by decide) (Or.inr ⟨rfl, rfl⟩)⟩

example : crtSplit .documented "a\\\\\\\"b \"c d\\\\\" e\\f".toList =
    ["a\\\"b".toList, "c d\\".toList, "e\\f".toList] := by decide +kernel


/-! ### integer ranges -/

/-- `parse_int_list(format_int_list(L))` is the sorted list of the distinct integers of `L`:
    strictly increasing, with exactly the members of `L` -/
theorem int_roundtrip (L : List Nat) :
    ∃ R, parseIntList (formatIntList L) = some R ∧ R.Pairwise (· < ·) ∧ ∀ x, x ∈ R ↔ x ∈ L := by
  have hs := runs_isort_spec L
  refine ⟨_, parse_format L, expand_sorted _ hs.1, fun x => ?_⟩
  rw [mem_expand, hs.2]

/-- `format_int_list` output is canonical: it is the rendering of maximal ranges covering exactly `L` -/
theorem format_canonical (L : List Nat) :
    ∃ rs, formatIntList L = join [','] (rs.map renderRange) ∧ Canon rs ∧ ∀ x, Covers rs x ↔ x ∈ L :=
  ⟨_, format_eq L, (runs_isort_spec L).1, (runs_isort_spec L).2⟩

/-- the same, against the directly written specification `sortDedup L` = the members of `L` among
    `0 .. max L`, in increasing order -/
theorem int_roundtrip_eq (L : List Nat) : parseIntList (formatIntList L) = some (sortDedup L) := by
  obtain ⟨R, hR, hs, hm⟩ := int_roundtrip L
  rw [hR, sorted_ext R (sortDedup L) hs (sortDedup_sorted L) (fun x => by rw [hm, mem_sortDedup])]

/-- the round trip also holds for `format_int_list(L, delim_space=True)` (`", "` separators) -/
theorem int_roundtrip_delim_space (L : List Nat) :
    parseIntList (formatIntList L true) = some (sortDedup L) := by
  rw [parse_format_space, ← parse_format, int_roundtrip_eq]

/-- canonical run lists are unique, hence `format_int_list(L)` is THE canonical range string of the
    set of `L`: any canonical run list covering exactly `L` renders to the same text -/
theorem format_canonical_unique (L : List Nat) (rs : List (Nat × Nat)) (hc : Canon rs)
    (hm : ∀ x, Covers rs x ↔ x ∈ L) : formatIntList L = join [','] (rs.map renderRange) := by
  obtain ⟨rs', h1, h2, h3⟩ := format_canonical L
  rw [h1, canon_unique rs' rs h2 hc (fun x => by rw [h3, hm])]

example : Canon [(1, 1), (3, 3), (5, 8), (10, 11), (15, 15)] := by
  refine ⟨by decide, ?_⟩; simp

/-- the text depends only on the set of integers (order and repetitions are irrelevant) -/
theorem format_members_only (L M : List Nat) (h : ∀ x, x ∈ L ↔ x ∈ M) :
    formatIntList L = formatIntList M := by
  obtain ⟨rs, h1, h2, h3⟩ := format_canonical M
  rw [h1]
  exact format_canonical_unique L rs h2 (fun x => by rw [h3, h])

/-- `format ∘ parse` is the identity on `format_int_list` output (it is a normal form) -/
theorem format_parse_format (L R : List Nat) (h : parseIntList (formatIntList L) = some R) :
    formatIntList R = formatIntList L := by
  obtain ⟨R', h1, -, h3⟩ := int_roundtrip L
  rw [h1] at h
  cases h
  exact format_members_only _ _ h3

/-- `parse_int_list` reads EVERY well-formed range string (any list of `n` / `lo-hi` tokens with
    `lo ≤ hi`, in any order, overlapping or not) as the sorted list of the integers it denotes
    (with repetitions where tokens overlap) -/
theorem parse_range_string (rs : List (Nat × Nat)) (h : ∀ r ∈ rs, r.1 ≤ r.2) :
    ∃ R, parseIntList (join [','] (rs.map renderRange)) = some R ∧ R.Pairwise (· ≤ ·) ∧
      ∀ x, x ∈ R ↔ Covers rs x :=
  ⟨_, parse_render rs h, isort_sorted _, fun x => by rw [mem_isort, mem_expand]⟩

example : parseIntList (join [','] ([(5, 8), (1, 1), (7, 9)].map renderRange)) =
    some [1, 5, 6, 7, 7, 8, 8, 9] := by decide +kernel

/-- `complement_int_list(s, a, e)` returns exactly the integers of the window `[a, e)` (clipped at 0,
    integers being non-negative) that are missing from `s`, as a canonical range string -/
theorem complement_exact (s : Str) (l : List Nat) (a e : Int) (h : parseIntList s = some l) :
    ∃ t R, complementIntList s a (some e) = some t ∧ parseIntList t = some R ∧ R.Pairwise (· < ·) ∧
      (∀ x : Nat, x ∈ R ↔ (a ≤ (x : Int) ∧ (x : Int) < e ∧ x ∉ l)) ∧
      ∃ rs, t = join [','] (rs.map renderRange) ∧ Canon rs := by
  obtain ⟨R, hR, hsorted, hmem⟩ := int_roundtrip
    ((List.range e.toNat).filter fun x => !l.contains x && !decide ((x : Int) < a))
  obtain ⟨rs, hrs, hc, -⟩ := format_canonical
    ((List.range e.toNat).filter fun x => !l.contains x && !decide ((x : Int) < a))
  refine ⟨_, R, by simp only [complementIntList, h], hR, hsorted, fun x => ?_, rs, hrs, hc⟩
  rw [hmem]
  simp only [List.mem_filter, List.mem_range, Bool.and_eq_true, Bool.not_eq_true',
    List.contains_eq_mem, decide_eq_false_iff_not]
  constructor
  · rintro ⟨h1, h2, h3⟩; exact ⟨by omega, by omega, by simpa using h2⟩
  · rintro ⟨h1, h2, h3⟩; exact ⟨by omega, by simpa using h3, by omega⟩

/-- with `range_end=None` the window ends just above the largest listed integer
    (and is empty when nothing is listed) -/
theorem complement_default_end (s : Str) (l : List Nat) (a : Int) (h : parseIntList s = some l) :
    complementIntList s a none =
      complementIntList s a (some (if l.isEmpty then a else (lmax l : Int) + 1)) := by
  simp [complementIntList, h]

/-- `int_ranges_from_int_list(s)` is the list of maximal ranges of the integers `s` denotes -/
theorem int_ranges_exact (s : Str) (l : List Nat) (h : parseIntList s = some l) :
    ∃ rs, intRanges s = some rs ∧ Canon rs ∧ ∀ x, Covers rs x ↔ x ∈ l :=
  ⟨_, intRanges_of_parse s l h, (runs_isort_spec l).1, (runs_isort_spec l).2⟩

/-! ### the same clauses for arbitrary delimiters

`format_int_list`, `parse_int_list`, `complement_int_list` and `int_ranges_from_int_list` take
`delim` / `range_delim` parameters.  For every pair of one-character delimiters `d`, `rd` with
`DelimOK d rd` (different characters, neither a decimal digit nor a blank) all clauses hold
as for the defaults `,` and `-`; `delim_space` is `sp`. -/

/-- round trip for every admissible delimiter pair, with or without `delim_space` -/
theorem int_roundtrip_delims (d rd : Char) (ok : DelimOK d rd) (L : List Nat) (sp : Bool) :
    parseIntList (formatIntList L sp d rd) d rd = some (sortDedup L) := by
  cases sp with
  | false => rw [parse_formatD d rd ok, expand_runs_eq]
  | true => rw [parse_format_spaceD d rd ok, expand_runs_eq]

example : DelimOK ';' ':' := by decide
example : DelimOK '/' '~' := by decide
example : ¬ DelimOK ',' ',' := by decide
example : ¬ DelimOK ' ' '-' := by decide
example : formatIntList [8, 1, 3, 5, 7, 6, 3, 10, 11, 15] true ';' ':' = "1; 3; 5:8; 10:11; 15".toList := by
  decide +kernel
-- the hypothesis is needed: with `delim = range_delim` a range token is cut in two
example : parseIntList (formatIntList [1, 2, 3] false ',' ',') ',' ',' = some [1, 3] := by decide +kernel

/-- canonical output for every delimiter pair (no hypothesis on the delimiters is needed for this) -/
theorem format_canonical_delims (d rd : Char) (L : List Nat) (sp : Bool) :
    ∃ rs, formatIntList L sp d rd = join (if sp then [d, ' '] else [d]) (rs.map (renderRangeD rd)) ∧
      Canon rs ∧ ∀ x, Covers rs x ↔ x ∈ L := by
  refine ⟨runs (isort L), ?_, (runs_isort_spec L).1, (runs_isort_spec L).2⟩
  cases sp with
  | false => exact format_eqD d rd L
  | true => exact format_eq_spaceD d rd L

/-- ... and it is THE canonical rendering: any canonical run list covering exactly `L` gives the same text -/
theorem format_canonical_unique_delims (d rd : Char) (L : List Nat) (sp : Bool) (rs : List (Nat × Nat))
    (hc : Canon rs) (hm : ∀ x, Covers rs x ↔ x ∈ L) :
    formatIntList L sp d rd = join (if sp then [d, ' '] else [d]) (rs.map (renderRangeD rd)) := by
  obtain ⟨rs', h1, h2, h3⟩ := format_canonical_delims d rd L sp
  rw [h1, canon_unique rs' rs h2 hc (fun x => by rw [h3, hm])]

/-- canonical output also with `delim_space=True` and the default delimiters (`", "` separators) -/
theorem format_canonical_delim_space (L : List Nat) :
    ∃ rs, formatIntList L true = join [',', ' '] (rs.map renderRange) ∧ Canon rs ∧ ∀ x, Covers rs x ↔ x ∈ L :=
  format_canonical_delims ',' '-' L true

/-- every well-formed range string, written with any admissible delimiters (with or without a
    blank after the delimiter), is read as the sorted list of the integers it denotes -/
theorem parse_range_string_delims (d rd : Char) (ok : DelimOK d rd) (sp : Bool) (rs : List (Nat × Nat))
    (h : ∀ r ∈ rs, r.1 ≤ r.2) :
    ∃ R, parseIntList (join (if sp then [d, ' '] else [d]) (rs.map (renderRangeD rd))) d rd = some R ∧
      R.Pairwise (· ≤ ·) ∧ ∀ x, x ∈ R ↔ Covers rs x := by
  refine ⟨isort (expand rs), ?_, isort_sorted _, fun x => by rw [mem_isort, mem_expand]⟩
  cases sp with
  | false => exact parse_renderD d rd ok rs h
  | true => exact parse_render_spaceD d rd ok rs h

/-- `parse` and `format` are mutually inverse on canonical range strings: a canonical string is read
    as the strictly increasing list of what it covers, and formatting that list gives the string back -/
theorem format_parse_canonical (d rd : Char) (ok : DelimOK d rd) (rs : List (Nat × Nat)) (hc : Canon rs) :
    ∃ R, parseIntList (join [d] (rs.map (renderRangeD rd))) d rd = some R ∧ R.Pairwise (· < ·) ∧
      (∀ x, x ∈ R ↔ Covers rs x) ∧ formatIntList R false d rd = join [d] (rs.map (renderRangeD rd)) := by
  refine ⟨expand rs, ?_, expand_sorted rs hc, mem_expand rs, ?_⟩
  · rw [parse_renderD d rd ok rs hc.1, isort_id _ (lt_imp_le_pairwise (expand_sorted rs hc))]
  · exact format_canonical_unique_delims d rd (expand rs) false rs hc (fun x => (mem_expand rs x).symm)

example : Canon [(0, 0), (2, 4), (9, 9)] := by refine ⟨by decide, ?_⟩; simp

/-- `complement_int_list(s, a, e, delim, range_delim)`: exactly the missing integers of the window,
    as a canonical range string in the same delimiters -/
theorem complement_exact_delims (d rd : Char) (ok : DelimOK d rd) (s : Str) (l : List Nat) (a e : Int)
    (h : parseIntList s d rd = some l) :
    ∃ t R, complementIntList s a (some e) d rd = some t ∧ parseIntList t d rd = some R ∧
      R.Pairwise (· < ·) ∧ (∀ x : Nat, x ∈ R ↔ (a ≤ (x : Int) ∧ (x : Int) < e ∧ x ∉ l)) ∧
      ∃ rs, t = join [d] (rs.map (renderRangeD rd)) ∧ Canon rs := by
  let M := (List.range e.toNat).filter fun x => !l.contains x && !decide ((x : Int) < a)
  refine ⟨formatIntList M false d rd, sortDedup M, by simp only [complementIntList, h, M],
    int_roundtrip_delims d rd ok M false, sortDedup_sorted M, fun x => ?_, runs (isort M),
    format_eqD d rd M, (runs_isort_spec M).1⟩
  rw [mem_sortDedup]
  simp only [M]
  simp only [List.mem_filter, List.mem_range, Bool.and_eq_true, Bool.not_eq_true',
    List.contains_eq_mem, decide_eq_false_iff_not]
  constructor
  · rintro ⟨h1, h2, h3⟩; exact ⟨by omega, by omega, by simpa using h2⟩
  · rintro ⟨h1, h2, h3⟩; exact ⟨by omega, by simpa using h3, by omega⟩

example : complementIntList "1;3;5:8".toList 2 (some 11) ';' ':' = some "2;4;9:10".toList := by decide +kernel

/-- `range_end=None` with any delimiters: the window ends just above the largest listed integer -/
theorem complement_default_end_delims (d rd : Char) (s : Str) (l : List Nat) (a : Int)
    (h : parseIntList s d rd = some l) :
    complementIntList s a none d rd =
      complementIntList s a (some (if l.isEmpty then a else (lmax l : Int) + 1)) d rd := by
  simp [complementIntList, h]

example : complementIntList "1;3;5:8".toList 0 none ';' ':' = some "0;2;4".toList := by decide +kernel

/-- complementing twice within the same window `[0, e)` gives back the listed integers below `e`
    (in canonical form): the complement really is "the missing integers" and nothing else -/
theorem complement_involution (s : Str) (l : List Nat) (e : Int) (h : parseIntList s = some l) :
    ∃ t t2 R, complementIntList s 0 (some e) = some t ∧ complementIntList t 0 (some e) = some t2 ∧
      parseIntList t2 = some R ∧ R.Pairwise (· < ·) ∧ ∀ x : Nat, x ∈ R ↔ ((x : Int) < e ∧ x ∈ l) := by
  obtain ⟨t, R1, h1, h2, -, h4, -⟩ := complement_exact s l 0 e h
  obtain ⟨t2, R2, g1, g2, g3, g4, -⟩ := complement_exact t R1 0 e h2
  refine ⟨t, t2, R2, h1, g1, g2, g3, fun x => ?_⟩
  rw [g4, h4]
  constructor
  · rintro ⟨-, hx, hn⟩
    refine ⟨hx, ?_⟩
    apply Classical.byContradiction
    intro hl; exact hn ⟨by omega, hx, hl⟩
  · rintro ⟨hx, hl⟩
    exact ⟨by omega, hx, fun hh => hh.2.2 hl⟩

example : complementIntList "0,2,4,9,12-14".toList 0 (some 16) = some "1,3,5-8,10-11,15".toList := by
  decide +kernel

/-- `int_ranges_from_int_list(s, delim, range_delim)`: the maximal ranges of what `s` denotes, whatever
    delimiters `s` is read with -/
theorem int_ranges_exact_delims (d rd : Char) (s : Str) (l : List Nat) (h : parseIntList s d rd = some l) :
    ∃ rs, intRanges s d rd = some rs ∧ Canon rs ∧ ∀ x, Covers rs x ↔ x ∈ l :=
  ⟨_, intRanges_of_parseD d rd s l h, (runs_isort_spec l).1, (runs_isort_spec l).2⟩

/-- on `format_int_list` output the tuple of ranges is exactly the run list the text renders -/
theorem int_ranges_of_format (d rd : Char) (ok : DelimOK d rd) (L : List Nat) (sp : Bool) :
    ∃ rs, intRanges (formatIntList L sp d rd) d rd = some rs ∧
      formatIntList L sp d rd = join (if sp then [d, ' '] else [d]) (rs.map (renderRangeD rd)) ∧
      Canon rs ∧ ∀ x, Covers rs x ↔ x ∈ L := by
  obtain ⟨rs, h1, h2, h3⟩ := int_ranges_exact_delims d rd _ _ (int_roundtrip_delims d rd ok L sp)
  refine ⟨rs, h1, ?_, h2, fun x => by rw [h3, mem_sortDedup]⟩
  exact format_canonical_unique_delims d rd L sp rs h2 (fun x => by rw [h3, mem_sortDedup])

example : intRanges "1; 3; 5:8".toList ';' ':' = some [(1, 1), (3, 3), (5, 8)] := by decide +kernel

/-! ### exactly when the integer-list readers raise ValueError (round 3)

(the statement is silent about malformed range strings; these theorems pin down the error behaviour of the
model, which the correspondence compares with the code's on every text over digits, the two delimiters and
blanks: `none` = ValueError) -/

/-- `int(x)` (on the model's alphabet) fails exactly on a blank-only / empty string or one with a non-digit inside -/
theorem int_literal_valueError_iff (s : Str) :
    pyInt? s = none ↔ (strip s = [] ∨ ∃ c ∈ strip s, isDigit c = false) := pyInt_eq_none_iff s

/-- a token fails exactly when it is a range token one of whose parts is not an integer, or a non-empty
    non-range token that is not an integer (the EMPTY token is skipped, not an error) -/
theorem parse_token_valueError_iff (rd : Char) (t : Str) :
    parseTok rd t = none ↔
      ((rd ∈ t ∧ ∃ p ∈ splitOn rd t, pyInt? p = none) ∨ (rd ∉ t ∧ t ≠ [] ∧ pyInt? t = none)) :=
  parseTok_eq_none_iff rd t

/-- `parse_int_list` raises exactly when some token of the stripped text fails; no other source of errors -/
theorem parse_valueError_iff (s : Str) (d rd : Char) :
    parseIntList s d rd = none ↔ ∃ t ∈ splitOn d (strip s), parseTok rd t = none :=
  parseIntList_eq_none_iff s d rd

/-- `complement_int_list` and `int_ranges_from_int_list` raise exactly when `parse_int_list` does
    (whatever the window) -/
theorem complement_valueError_iff (s : Str) (a : Int) (e : Option Int) (d rd : Char) :
    complementIntList s a e d rd = none ↔ parseIntList s d rd = none := complement_eq_none_iff s a e d rd

theorem int_ranges_valueError_iff (s : Str) (d rd : Char) :
    intRanges s d rd = none ↔ parseIntList s d rd = none := intRanges_eq_none_iff s d rd

example : parseIntList "1,,3".toList = some [1, 3] := by decide +kernel
example : parseIntList "1,x".toList = none := by decide +kernel
example : parseIntList "1-,3".toList = none := by decide +kernel
example : parseIntList " 1 , 2-4 \n".toList = some [1, 2, 3, 4] := by decide +kernel
example : parseIntList "1 2".toList = none := by decide +kernel
example : parseIntList "3-1-2".toList = some [1, 2, 3] := by decide +kernel

/-! ### multi-character delimiters (round 3)

`delim` / `range_delim` may be arbitrary non-empty strings (`'; '`, `' to '`, `'..'`).  `formatIntListS`,
`parseIntListS`, `complementIntListS`, `intRangesS` model the functions with string delimiters (`str.split`
with a string separator, `range_delim in x`); for one-character strings they coincide with the functions above
(`strdelims_extend_chars`).  The clauses hold for every pair with `DelimOKS d rd`: both non-empty, the first
character of `delim` is not a digit, not a space and does not occur in `range_delim`, the first character of
`range_delim` is not a digit - and not a space where `delim_space=True` is used (hypothesis `hsp`). -/

/-- round trip for every admissible pair of string delimiters, with or without `delim_space` -/
theorem int_roundtrip_strdelims (d rd : Str) (ok : DelimOKS d rd) (L : List Nat) (sp : Bool)
    (hsp : sp = true → rd.head? ≠ some ' ') :
    parseIntListS (formatIntListS L sp d rd) d rd = some (sortDedup L) :=
  parse_formatS d rd ok L sp hsp

example : DelimOKS "; ".toList " to ".toList := by decide
example : DelimOKS ",".toList "..".toList := by decide
example : ¬ DelimOKS "-x".toList "-".toList := by decide
example : ¬ DelimOKS "".toList "-".toList := by decide
example : formatIntListS [8, 1, 3, 5, 7, 6, 3, 10, 11, 15] false "; ".toList "..".toList =
    "1; 3; 5..8; 10..11; 15".toList := by decide +kernel
-- the hypothesis is needed: a delimiter whose first character occurs in the range delimiter cuts range tokens apart
example : ¬ DelimOKS "-".toList "->".toList := by decide
example : parseIntListS (formatIntListS [1, 2, 3, 7] false "-".toList "->".toList) "-".toList "->".toList = none := by
  decide +kernel

/-- canonical output for every pair of string delimiters (no hypothesis needed) -/
theorem format_canonical_strdelims (d rd : Str) (L : List Nat) (sp : Bool) :
    ∃ rs, formatIntListS L sp d rd = join (if sp then d ++ [' '] else d) (rs.map (renderRangeS rd)) ∧
      Canon rs ∧ ∀ x, Covers rs x ↔ x ∈ L :=
  ⟨runs (isort L), formatS_eq d rd L sp, (runs_isort_spec L).1, (runs_isort_spec L).2⟩

/-- ... and it is THE canonical rendering -/
theorem format_canonical_unique_strdelims (d rd : Str) (L : List Nat) (sp : Bool) (rs : List (Nat × Nat))
    (hc : Canon rs) (hm : ∀ x, Covers rs x ↔ x ∈ L) :
    formatIntListS L sp d rd = join (if sp then d ++ [' '] else d) (rs.map (renderRangeS rd)) := by
  obtain ⟨rs', h1, h2, h3⟩ := format_canonical_strdelims d rd L sp
  rw [h1, canon_unique rs' rs h2 hc (fun x => by rw [h3, hm])]

/-- every well-formed range string written with admissible string delimiters is read as the sorted list of
    the integers it denotes -/
theorem parse_range_string_strdelims (d rd : Str) (ok : DelimOKS d rd) (sp : Bool)
    (hsp : sp = true → rd.head? ≠ some ' ') (rs : List (Nat × Nat)) (h : ∀ r ∈ rs, r.1 ≤ r.2) :
    ∃ R, parseIntListS (join (if sp then d ++ [' '] else d) (rs.map (renderRangeS rd))) d rd = some R ∧
      R.Pairwise (· ≤ ·) ∧ ∀ x, x ∈ R ↔ Covers rs x :=
  ⟨isort (expand rs), parse_renderS d rd ok sp hsp rs h, isort_sorted _, fun x => by rw [mem_isort, mem_expand]⟩

/-- `complement_int_list` with string delimiters: exactly the missing integers of the window, canonical -/
theorem complement_exact_strdelims (d rd : Str) (ok : DelimOKS d rd) (s : Str) (l : List Nat) (a e : Int)
    (h : parseIntListS s d rd = some l) :
    ∃ t R, complementIntListS s a (some e) d rd = some t ∧ parseIntListS t d rd = some R ∧
      R.Pairwise (· < ·) ∧ (∀ x : Nat, x ∈ R ↔ (a ≤ (x : Int) ∧ (x : Int) < e ∧ x ∉ l)) ∧
      ∃ rs, t = join d (rs.map (renderRangeS rd)) ∧ Canon rs := by
  let M := (List.range e.toNat).filter fun x => !l.contains x && !decide ((x : Int) < a)
  refine ⟨formatIntListS M false d rd, sortDedup M, by simp only [complementIntListS, h, M],
    int_roundtrip_strdelims d rd ok M false (by simp), sortDedup_sorted M, fun x => ?_, runs (isort M),
    by simpa using formatS_eq d rd M false, (runs_isort_spec M).1⟩
  rw [mem_sortDedup]
  simp only [M]
  simp only [List.mem_filter, List.mem_range, Bool.and_eq_true, Bool.not_eq_true',
    List.contains_eq_mem, decide_eq_false_iff_not]
  constructor
  · rintro ⟨h1, h2, h3⟩; exact ⟨by omega, by omega, by simpa using h2⟩
  · rintro ⟨h1, h2, h3⟩; exact ⟨by omega, by simpa using h3, by omega⟩

example : complementIntListS "1; 3; 5 to 8".toList 2 (some 11) "; ".toList " to ".toList =
    some "2; 4; 9 to 10".toList := by decide +kernel

/-- `int_ranges_from_int_list` with string delimiters: the maximal ranges of what the text denotes -/
theorem int_ranges_exact_strdelims (d rd : Str) (s : Str) (l : List Nat) (h : parseIntListS s d rd = some l) :
    ∃ rs, intRangesS s d rd = some rs ∧ Canon rs ∧ ∀ x, Covers rs x ↔ x ∈ l := by
  have hd := intRanges_of_parseD ',' '-' (formatIntList l) (sortDedup l) (int_roundtrip_eq l)
  refine ⟨runs (isort l), ?_, (runs_isort_spec l).1, (runs_isort_spec l).2⟩
  have hfmt : formatIntList (sortDedup l) = formatIntList l :=
    format_members_only _ _ (fun x => mem_sortDedup l x)
  have hruns : runs (isort (sortDedup l)) = runs (isort l) := by
    have h1 := format_eq (sortDedup l)
    have h2 := format_eq l
    rw [hfmt] at h1
    exact canon_unique _ _ (runs_isort_spec _).1 (runs_isort_spec _).1
      (fun x => by rw [(runs_isort_spec _).2, (runs_isort_spec _).2, mem_sortDedup])
  simp only [intRangesS, h]
  simp only [intRanges, int_roundtrip_eq l, hfmt] at hd
  rw [← hruns]
  exact hd

/-- with one-character delimiters the string-delimiter functions ARE the functions of the earlier sections -/
theorem strdelims_extend_chars (d rd : Char) (L : List Nat) (sp : Bool) (s : Str) :
    formatIntListS L sp [d] [rd] = formatIntList L sp d rd ∧
    parseIntListS s [d] [rd] = parseIntList s d rd :=
  ⟨formatS_single d rd L sp, parseS_single d rd s⟩

/-- translator obligation: the default `delim` / `range_delim` of the integer-list functions (read from the
    signatures on every run) form an admissible pair, so every `_delims` theorem applies to the defaults
    whatever they are -/
theorem int_defaults_ok : DelimOK defaultDelim defaultRangeDelim := by decide +kernel

theorem int_roundtrip_defaults (L : List Nat) (sp : Bool) :
    parseIntList (formatIntList L sp defaultDelim defaultRangeDelim) defaultDelim defaultRangeDelim =
      some (sortDedup L) :=
  int_roundtrip_delims _ _ int_defaults_ok L sp

example : parseIntList (formatIntList [3, 1, 2, 9] false defaultDelim defaultRangeDelim) defaultDelim defaultRangeDelim =
    some [1, 2, 3, 9] := by decide +kernel

example : parseIntList "1,3,5-8,10-11,15".toList = some [1, 3, 5, 6, 7, 8, 10, 11, 15] := by decide +kernel
example : formatIntList [8, 1, 3, 5, 7, 6, 3, 10, 11, 15] = "1,3,5-8,10-11,15".toList := by decide +kernel

end C14
