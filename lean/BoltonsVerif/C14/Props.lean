import BoltonsVerif.C14.Proofs
/-
C14 — property theorems for the model of the `boltons.strutils` encoders.

Vocabulary (definitions in `Model.lean` / `Proofs.lean`):
  `Str = List Char`; `NoNul args` = no argument contains U+0000;
  `shSplit`  = reference POSIX-sh word splitter, `none` when the shell would do anything
               other than split into literal words (unquoted character outside the inert set,
               `$`/backquote in double quotes, unterminated quote, NUL);
  `crtSplit v` = the MS C runtime `parse_cmdline` rules, `v` ∈ {documented, legacy, modern};
  `renderRange (lo, hi)` = `lo` if `lo = hi` else `lo-hi` (decimal);
  `Canon rs`  = every run has `lo ≤ hi`, and each later run starts at least 2 above every
               earlier run's end (strictly increasing, not mergeable = maximal ranges);
  `Covers rs x` = `x` lies in one of the runs.
The gzip clause of the property is about zlib (external C code): it is covered by a
differential round-trip test in the harness, not by a theorem.
-/
namespace C14

/-! ### shell quoting -/

/-- translator obligation (re-proved against the table regenerated from the current source):
    every character `args2sh` leaves unquoted is one the reference lexer knows to be inert -/
theorem sh_table_sound (c : Char) (h : isSafeChar c = true) : shLiteral c = true :=
  safe_sub_literal c h

/-- `args2sh` / `escape_shell_args(style='sh')`: a POSIX shell splits the text into exactly the
    arguments, nothing expanded — for every list of NUL-free strings -/
theorem sh_roundtrip (args : List Str) (h : NoNul args) : shSplit (args2sh args) = some args :=
  sh_roundtrip_aux args h

example : NoNul ["a b".toList, [], "it's $HOME; `x` \\ \"q\" *~\n".toList, "é".toList] := by decide +kernel
example : shSplit "a 'b c'\"\\\"d\" e\\ f".toList = some ["a".toList, "b c\"d".toList, "e f".toList] := by decide +kernel
example : shSplit "a $b".toList = none := by decide +kernel

/-- `args2cmd` / `escape_shell_args(style='cmd')`: the MS C runtime rules (in each of the three
    historical variants of the `""` rule) split the text into exactly the arguments -/
theorem cmd_roundtrip (v : CrtVariant) (args : List Str) (h : NoNul args) :
    crtSplit v (args2cmd args) = args :=
  cmd_roundtrip_aux v args h

example : crtSplit .modern (args2cmd ["a\\\\\"b c\\".toList, [], "\"".toList]) =
    ["a\\\\\"b c\\".toList, [], "\"".toList] := by decide +kernel

/-! ### integer ranges -/

/-- `parse_int_list(format_int_list(L))` is the sorted list of the distinct integers of `L`:
    strictly increasing, with exactly the members of `L` -/
theorem int_roundtrip (L : List Nat) :
    ∃ R, parseIntList (formatIntList L) = some R ∧ R.Pairwise (· < ·) ∧ ∀ x, x ∈ R ↔ x ∈ L := by
  have hs := runs_isort_spec L
  refine ⟨_, parse_format L, expand_sorted _ hs.1, fun x => ?_⟩
  rw [mem_expand, hs.2]

/-- `format_int_list` output is canonical: it is the rendering of maximal ranges covering exactly `L` -/
theorem format_canonical (L : List Nat) :
    ∃ rs, formatIntList L = join [','] (rs.map renderRange) ∧ Canon rs ∧ ∀ x, Covers rs x ↔ x ∈ L :=
  ⟨_, format_eq L, (runs_isort_spec L).1, (runs_isort_spec L).2⟩

/-- `complement_int_list(s, a, e)` returns exactly the integers of the window `[a, e)` (clipped at 0,
    integers being non-negative) that are missing from `s`, as a canonical range string -/
theorem complement_exact (s : Str) (l : List Nat) (a e : Int) (h : parseIntList s = some l) :
    ∃ t R, complementIntList s a (some e) = some t ∧ parseIntList t = some R ∧ R.Pairwise (· < ·) ∧
      (∀ x : Nat, x ∈ R ↔ (a ≤ (x : Int) ∧ (x : Int) < e ∧ x ∉ l)) ∧
      ∃ rs, t = join [','] (rs.map renderRange) ∧ Canon rs := by
  obtain ⟨R, hR, hsorted, hmem⟩ := int_roundtrip
    ((List.range e.toNat).filter fun x => !l.contains x && !decide ((x : Int) < a))
  obtain ⟨rs, hrs, hc, -⟩ := format_canonical
    ((List.range e.toNat).filter fun x => !l.contains x && !decide ((x : Int) < a))
  refine ⟨_, R, by simp only [complementIntList, h], hR, hsorted, fun x => ?_, rs, hrs, hc⟩
  rw [hmem]
  simp only [List.mem_filter, List.mem_range, Bool.and_eq_true, Bool.not_eq_true',
    List.contains_eq_mem, decide_eq_false_iff_not]
  constructor
  · rintro ⟨h1, h2, h3⟩; exact ⟨by omega, by omega, by simpa using h2⟩
  · rintro ⟨h1, h2, h3⟩; exact ⟨by omega, by simpa using h3, by omega⟩

/-- with `range_end=None` the window ends just above the largest listed integer
    (and is empty when nothing is listed) -/
theorem complement_default_end (s : Str) (l : List Nat) (a : Int) (h : parseIntList s = some l) :
    complementIntList s a none =
      complementIntList s a (some (if l.isEmpty then a else (lmax l : Int) + 1)) := by
  simp [complementIntList, h]

/-- `int_ranges_from_int_list(s)` is the list of maximal ranges of the integers `s` denotes -/
theorem int_ranges_exact (s : Str) (l : List Nat) (h : parseIntList s = some l) :
    ∃ rs, intRanges s = some rs ∧ Canon rs ∧ ∀ x, Covers rs x ↔ x ∈ l :=
  ⟨_, intRanges_of_parse s l h, (runs_isort_spec l).1, (runs_isort_spec l).2⟩

example : parseIntList "1,3,5-8,10-11,15".toList = some [1, 3, 5, 6, 7, 8, 10, 11, 15] := by decide +kernel
example : formatIntList [8, 1, 3, 5, 7, 6, 3, 10, 11, 15] = "1,3,5-8,10-11,15".toList := by decide +kernel

end C14
