import BoltonsVerif.C14.Proofs
namespace C14
theorem sh_roundtrip (args : List Str) (h : NoNul args) : shSplit (args2sh args) = some args :=
  sh_roundtrip_aux args h
theorem cmd_roundtrip (v : CrtVariant) (args : List Str) (h : NoNul args) :
    crtSplit v (args2cmd args) = args := cmd_roundtrip_aux v args h
end C14
