import BoltonsVerif.C14.Accept
/-
C14 helper lemmas, round 3: exactly when the integer-list readers raise ValueError (`none` in the model).
-/
namespace C14

theorem mapM?_eq_none_iff {α β : Type} (f : α → Option β) (l : List α) :
    mapM? f l = none ↔ ∃ a ∈ l, f a = none := by
  induction l with
  | nil => simp [mapM?]
  | cons a as ih =>
    simp only [mapM?, List.mem_cons, exists_eq_or_imp]
    cases h1 : f a with
    | none => simp
    | some b =>
      cases h2 : mapM? f as with
      | none => simp [ih.mp h2]
      | some bs =>
        have : ¬ ∃ a ∈ as, f a = none := fun h => by rw [ih.mpr h] at h2; cases h2
        simp [this]

theorem mapM?_isSome_iff {α β : Type} (f : α → Option β) (l : List α) :
    (∃ r, mapM? f l = some r) ↔ ∀ a ∈ l, ∃ b, f a = some b := by
  constructor
  · rintro ⟨r, hr⟩ a ha
    cases h : f a with
    | some b => exact ⟨b, rfl⟩
    | none => rw [(mapM?_eq_none_iff f l).mpr ⟨a, ha, h⟩] at hr; cases hr
  · intro h
    cases hm : mapM? f l with
    | some r => exact ⟨r, rfl⟩
    | none =>
      obtain ⟨a, ha, hn⟩ := (mapM?_eq_none_iff f l).mp hm
      obtain ⟨b, hb⟩ := h a ha
      rw [hb] at hn; cases hn

theorem pyInt_eq_none_iff (s : Str) :
    pyInt? s = none ↔ (strip s = [] ∨ ∃ c ∈ strip s, isDigit c = false) := by
  simp only [pyInt?]
  cases hs : strip s with
  | nil => simp
  | cons c cs =>
    by_cases hall : (c :: cs).all isDigit = true
    · simp only [List.isEmpty_cons, Bool.not_false, Bool.true_and, hall, if_true]
      simp only [List.all_eq_true] at hall
      simp only [reduceCtorEq, false_iff, not_or, not_exists, not_and]
      exact ⟨by simp, fun x hx => by simp [hall x hx]⟩
    · simp only [List.isEmpty_cons, Bool.not_false, Bool.true_and, hall]
      simp only [Bool.false_eq_true, if_false, true_iff]
      refine Or.inr (Classical.byContradiction fun hno => hall ?_)
      simp only [List.all_eq_true]
      intro x hx
      cases hd : isDigit x with
      | true => rfl
      | false => exact absurd ⟨x, hx, hd⟩ hno

theorem parseTok_eq_none_iff (rd : Char) (t : Str) :
    parseTok rd t = none ↔
      ((rd ∈ t ∧ ∃ p ∈ splitOn rd t, pyInt? p = none) ∨ (rd ∉ t ∧ t ≠ [] ∧ pyInt? t = none)) := by
  simp only [parseTok]
  by_cases hc : rd ∈ t
  · have : t.contains rd = true := (contains_iff t rd).mpr hc
    simp only [this, if_true, hc, true_and, not_true_eq_false, false_and, or_false]
    cases hm : mapM? pyInt? (splitOn rd t) with
    | none => simpa using (mapM?_eq_none_iff _ _).mp hm
    | some r =>
      have : ¬ ∃ p ∈ splitOn rd t, pyInt? p = none := fun h => by
        rw [(mapM?_eq_none_iff _ _).mpr h] at hm; cases hm
      simp [this]
  · have : t.contains rd = false := by
      cases h : t.contains rd with
      | false => rfl
      | true => exact absurd ((contains_iff t rd).mp h) hc
    simp only [this, Bool.false_eq_true, if_false, hc, false_and, not_false_eq_true, true_and, false_or]
    cases t with
    | nil => simp
    | cons c cs =>
      simp only [List.isEmpty_cons, Bool.false_eq_true, if_false, ne_eq, reduceCtorEq, not_false_eq_true, true_and]
      cases pyInt? (c :: cs) <;> simp

theorem parseIntList_eq_none_iff (s : Str) (d rd : Char) :
    parseIntList s d rd = none ↔ ∃ t ∈ splitOn d (strip s), parseTok rd t = none := by
  simp only [parseIntList]
  cases hm : mapM? (parseTok rd) (splitOn d (strip s)) with
  | none => simpa using (mapM?_eq_none_iff _ _).mp hm
  | some r =>
    have : ¬ ∃ t ∈ splitOn d (strip s), parseTok rd t = none := fun h => by
      rw [(mapM?_eq_none_iff _ _).mpr h] at hm; cases hm
    simp [this]

theorem complement_eq_none_iff (s : Str) (a : Int) (e : Option Int) (d rd : Char) :
    complementIntList s a e d rd = none ↔ parseIntList s d rd = none := by
  simp only [complementIntList]
  cases parseIntList s d rd <;> simp

theorem intRanges_eq_none_iff (s : Str) (d rd : Char) :
    intRanges s d rd = none ↔ parseIntList s d rd = none := by
  cases h : parseIntList s d rd with
  | none => simp [intRanges, h]
  | some l => simp [intRanges_of_parseD d rd s l h]

end C14
