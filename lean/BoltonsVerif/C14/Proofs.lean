import BoltonsVerif.C14.Model
/-
C14 helper lemmas.
-/
namespace C14

/-! ## generated table ⊆ characters the reference sh lexer treats as literal -/

/-- decidable obligation on the generated table: it is small and every code point of every safe
    run is in the lexer's literal set -/
def tableOk : Bool :=
  decide ((Gen.shSafeRanges.map fun r => r.2 + 1 - r.1).sum ≤ 512) &&
  Gen.shSafeRanges.all fun r => (List.range' r.1 (r.2 + 1 - r.1)).all shLiteralNat

theorem tableOk_holds : tableOk = true := by decide +kernel

theorem safe_sub_literal_of (h : tableOk = true) (n : Nat) (hs : isSafeNat n = true) :
    shLiteralNat n = true := by
  simp only [tableOk, Bool.and_eq_true, List.all_eq_true] at h
  simp only [isSafeNat, List.any_eq_true, Bool.and_eq_true, decide_eq_true_eq] at hs
  obtain ⟨r, hr, h1, h2⟩ := hs
  exact h.2 r hr n (by simp [List.mem_range'_1]; omega)

theorem safe_sub_literal (c : Char) (hs : isSafeChar c = true) : shLiteral c = true :=
  safe_sub_literal_of tableOk_holds c.toNat hs

theorem literal_ne {c : Char} (h : shLiteral c = true) :
    c ≠ ' ' ∧ c ≠ '\t' ∧ c ≠ sq ∧ c ≠ dq ∧ c ≠ bsl := by
  refine ⟨?_, ?_, ?_, ?_, ?_⟩ <;> (intro e; subst e; revert h; decide)

end C14

namespace C14

/-! ## one-step lemmas of the sh lexer -/

theorem shLex_unq_lit (w : Bool) (cur : Str) (c : Char) (cs : Str) (h : shLiteral c = true) :
    shLex .unq w cur (c :: cs) = shLex .unq true (cur ++ [c]) cs := by
  obtain ⟨h1, h2, h3, h4, h5⟩ := literal_ne h
  rw [shLex.eq_def]; simp [h1, h2, h3, h4, h5, h]

theorem shLex_unq_sq (w : Bool) (cur cs : Str) :
    shLex .unq w cur (sq :: cs) = shLex .sgl true cur cs := by
  rw [shLex.eq_def]; simp [sq]

theorem shLex_unq_dq (w : Bool) (cur cs : Str) :
    shLex .unq w cur (dq :: cs) = shLex .dbl true cur cs := by
  rw [shLex.eq_def]; simp [sq, dq]

theorem shLex_unq_blank (cur cs : Str) :
    shLex .unq true cur (' ' :: cs) = (shLex .unq false [] cs).map (cur :: ·) := by
  rw [shLex.eq_def]; simp

theorem shLex_sgl_sq (w : Bool) (cur cs : Str) :
    shLex .sgl w cur (sq :: cs) = shLex .unq true cur cs := by
  rw [shLex.eq_def]; simp

theorem shLex_sgl_char (w : Bool) (cur : Str) (c : Char) (cs : Str) (h1 : c ≠ sq) (h2 : c ≠ nul) :
    shLex .sgl w cur (c :: cs) = shLex .sgl true (cur ++ [c]) cs := by
  rw [shLex.eq_def]; simp [h1, h2]

theorem shLex_dbl_sq (w : Bool) (cur cs : Str) :
    shLex .dbl w cur (sq :: cs) = shLex .dbl true (cur ++ [sq]) cs := by
  rw [shLex.eq_def]; simp [sq, dq, bsl, nul]

theorem shLex_dbl_dq (w : Bool) (cur cs : Str) :
    shLex .dbl w cur (dq :: cs) = shLex .unq true cur cs := by
  rw [shLex.eq_def]; simp

theorem shLex_literal_run (cs : Str) (hl : ∀ c ∈ cs, shLiteral c = true) (w : Bool) (cur tail : Str) :
    shLex .unq w cur (cs ++ tail) = shLex .unq (w || !cs.isEmpty) (cur ++ cs) tail := by
  induction cs generalizing w cur with
  | nil => simp
  | cons c cs ih =>
    have hc := hl c (by simp)
    rw [List.cons_append, shLex_unq_lit _ _ _ _ hc, ih (fun x hx => hl x (by simp [hx]))]
    simp

/-- no NUL anywhere in the argument list -/
def NoNul (args : List Str) : Prop := ∀ a ∈ args, ∀ c ∈ a, c ≠ nul

instance (args : List Str) : Decidable (NoNul args) := by unfold NoNul; infer_instance

theorem shLex_unq_end (cur : Str) : shLex .unq true cur [] = some [cur] := by
  simp [shLex]

end C14

namespace C14

/-! ## MS C runtime parser: step lemmas -/

theorem bs_succ (n : Nat) : bs (n + 1) = bsl :: bs n := by simp [bs, List.replicate_succ]
theorem bs_succ' (n : Nat) : bs (n + 1) = bs n ++ [bsl] := by simp [bs, List.replicate_succ']
theorem bs_zero : bs 0 = [] := rfl
theorem bs_add (m n : Nat) : bs (m + n) = bs m ++ bs n := by simp [bs, List.replicate_append_replicate]

theorem crt_nil (v : CrtVariant) (q : Bool) (n : Nat) (cur : Str) :
    crt v true q n cur [] = [cur ++ bs n] := by
  rw [crt.eq_def]; simp

theorem crt_nil_out (v : CrtVariant) (q : Bool) (n : Nat) (cur : Str) :
    crt v false q n cur [] = [] := by
  rw [crt.eq_def]; simp

theorem crt_bsl (v : CrtVariant) (ia q : Bool) (n : Nat) (cur cs : Str) :
    crt v ia q n cur (bsl :: cs) = crt v true q (n + 1) cur cs := by
  rw [crt.eq_def]; simp [bsl, nul, isBlank]

theorem crt_bs_run (v : CrtVariant) (ia q : Bool) (m n : Nat) (cur rest : Str) (h : ia = true ∨ 0 < n) :
    crt v ia q m cur (bs n ++ rest) = crt v true q (m + n) cur rest := by
  induction n generalizing ia m with
  | zero =>
    have : ia = true := by simpa using h
    subst this; simp [bs_zero]
  | succ n ih =>
    rw [bs_succ, List.cons_append, crt_bsl, ih true (m + 1) (Or.inl rfl)]
    congr 1; omega

theorem crt_dq_odd (v : CrtVariant) (ia q : Bool) (n : Nat) (cur cs : Str) (h : n % 2 = 1) :
    crt v ia q n cur (dq :: cs) = crt v true q 0 (cur ++ bs (n / 2) ++ [dq]) cs := by
  rw [crt.eq_def]; simp [dq, bsl, nul, isBlank, h]

/-- an even number of backslashes then a quote that is not followed by another quote: toggle -/
theorem crt_dq_even (v : CrtVariant) (ia q : Bool) (n : Nat) (cur cs : Str) (h : n % 2 = 0)
    (hcs : q = false ∨ cs.head? ≠ some dq) :
    crt v ia q n cur (dq :: cs) = crt v true (!q) 0 (cur ++ bs (n / 2)) cs := by
  rw [crt.eq_def]
  cases cs with
  | nil => simp [dq, bsl, nul, isBlank, h]
  | cons c2 cs' =>
    have : (q && decide (c2 = dq) && (v != CrtVariant.documented)) = false := by
      rcases hcs with h1 | h1
      · simp [h1]
      · have : c2 ≠ dq := by simpa using h1
        simp [this]
    simp [dq, bsl, nul, isBlank, h] at this ⊢
    intro a b c; simp_all

theorem crt_plain (v : CrtVariant) (ia q : Bool) (n : Nat) (cur : Str) (c : Char) (cs : Str)
    (h0 : c ≠ nul) (h1 : c ≠ bsl) (h2 : c ≠ dq) (h3 : isBlank c = false ∨ (ia = true ∧ q = true)) :
    crt v ia q n cur (c :: cs) = crt v true q 0 (cur ++ bs n ++ [c]) cs := by
  rw [crt.eq_def]
  rcases h3 with h3 | ⟨h3, h4⟩
  · simp [h0, h1, h2, h3]
  · subst h3; subst h4; simp [h0, h1, h2]

theorem crt_blank_end (v : CrtVariant) (n : Nat) (cur cs : Str) :
    crt v true false n cur (' ' :: cs) = (cur ++ bs n) :: crt v false false 0 [] cs := by
  rw [crt.eq_def]; simp [nul, bsl, dq, isBlank]

end C14

namespace C14

/-! ## args2cmd read back by the CRT parser -/

/-- what may follow an encoded argument: the end of the text or the separating space -/
def IsTail (t : Str) : Prop := t = [] ∨ ∃ more, t = ' ' :: more

theorem crt_finish (v : CrtVariant) (n : Nat) (cur t : Str) (ht : IsTail t) :
    crt v true false n cur t = (cur ++ bs n) :: crt v false false 0 [] (t.drop 1) := by
  rcases ht with rfl | ⟨more, rfl⟩
  · simp [crt_nil, crt_nil_out]
  · simp [crt_blank_end]

theorem IsTail.head_ne_dq {t : Str} (ht : IsTail t) : t.head? ≠ some dq := by
  rcases ht with rfl | ⟨more, rfl⟩ <;> simp [dq]

/-- the encoder's character loop, read by the parser.  `n` backslashes are pending in the
    encoder (`bs_buf`), none in the parser. -/
theorem crt_cmdGo (v : CrtVariant) (q : Bool) (cs : Str) (n : Nat) (cur : Str) (ia : Bool) (t : Str)
    (hq : q = false → ∀ c ∈ cs, isBlank c = false) (hn : ∀ c ∈ cs, c ≠ nul)
    (hia : ia = false → q = false ∧ (0 < n ∨ cs ≠ [])) (ht : IsTail t) :
    crt v ia q 0 cur (cmdGo q n cs ++ t) = (cur ++ bs n ++ cs) :: crt v false false 0 [] (t.drop 1) := by
  induction cs generalizing n cur ia with
  | nil =>
    have hian : ia = true ∨ 0 < n := by
      cases ia with
      | true => exact Or.inl rfl
      | false => have := (hia rfl).2; simp at this; exact Or.inr this
    simp only [cmdGo]
    cases q with
    | false =>
      simp only [Bool.false_eq_true, if_false, List.append_nil]
      rw [crt_bs_run _ _ _ _ _ _ _ hian, crt_finish _ _ _ _ ht]; simp
    | true =>
      simp only [if_true, List.append_assoc]
      rw [crt_bs_run _ _ _ _ _ _ _ hian, crt_bs_run _ _ _ _ _ _ _ (Or.inl rfl)]
      simp only [List.singleton_append]
      rw [crt_dq_even _ _ _ _ _ _ (by omega) (Or.inr ht.head_ne_dq)]
      have : (0 + n + n) / 2 = n := by omega
      rw [this]
      simp only [Bool.not_true]
      rw [crt_finish _ _ _ _ ht]; simp [bs_zero]
  | cons c cs ih =>
    have hn' : ∀ x ∈ cs, x ≠ nul := fun x hx => hn x (by simp [hx])
    have hq' : q = false → ∀ x ∈ cs, isBlank x = false := fun h x hx => hq h x (by simp [hx])
    have hc0 : c ≠ nul := hn c (by simp)
    by_cases h1 : c = bsl
    · subst h1
      simp only [cmdGo, if_true]
      rw [ih (n + 1) cur ia hq' hn' (fun h => ⟨(hia h).1, Or.inl (by omega)⟩)]
      simp [bs_succ']
    · by_cases h2 : c = dq
      · subst h2
        simp only [cmdGo, h1, if_false, if_true, List.append_assoc, List.cons_append]
        have : bs (n * 2) ++ bsl :: dq :: (cmdGo q 0 cs ++ t) = bs (n * 2 + 1) ++ dq :: (cmdGo q 0 cs ++ t) := by
          simp [bs_succ']
        rw [this, crt_bs_run _ _ _ _ _ _ _ (Or.inr (by omega)),
          crt_dq_odd _ _ _ _ _ _ (by omega)]
        have : (0 + (n * 2 + 1)) / 2 = n := by omega
        rw [this, ih 0 _ true hq' hn' (by simp)]
        simp [bs_zero]
      · simp only [cmdGo, h1, h2, if_false, List.append_assoc, List.cons_append]
        by_cases hian : ia = true ∨ 0 < n
        · rw [crt_bs_run _ _ _ _ _ _ _ hian]
          have hb : isBlank c = false ∨ (true = true ∧ q = true) := by
            cases q with
            | true => exact Or.inr ⟨rfl, rfl⟩
            | false => exact Or.inl (hq rfl c (by simp))
          rw [crt_plain _ _ _ _ _ _ _ hc0 h1 h2 hb, ih 0 _ true hq' hn' (by simp)]
          simp [bs_zero]
        · have hia0 : ia = false := by cases ia <;> simp_all
          have hn0 : n = 0 := by omega
          subst hia0; subst hn0
          have hqf := (hia rfl).1
          simp only [bs_zero, List.nil_append]
          rw [crt_plain _ _ _ _ _ _ _ hc0 h1 h2 (Or.inl (hq hqf c (by simp))), ih 0 _ true hq' hn' (by simp)]
          simp [bs_zero]

theorem contains_iff' (s : Str) (c : Char) : s.contains c = true ↔ c ∈ s := by
  simp

theorem needQuote_false {a : Str} (h : needQuote a = false) : a ≠ [] ∧ ∀ c ∈ a, isBlank c = false := by
  simp only [needQuote, Bool.or_eq_false_iff] at h
  obtain ⟨⟨h1, h2⟩, h3⟩ := h
  refine ⟨by simpa using h3, fun c hc => ?_⟩
  simp only [isBlank, Bool.or_eq_false_iff, decide_eq_false_iff_not]
  constructor
  · intro e; subst e; simp_all
  · intro e; subst e; simp_all

theorem crt_cmdArgQ (v : CrtVariant) (qp : Str → Bool) (hq : ∀ a, needQuote a = true → qp a = true)
    (a : Str) (hn : ∀ c ∈ a, c ≠ nul) (t : Str) (ht : IsTail t) :
    crt v false false 0 [] (cmdArgQ qp a ++ t) = a :: crt v false false 0 [] (t.drop 1) := by
  unfold cmdArgQ
  cases hqa : qp a with
  | true =>
    simp only [if_true, List.cons_append]
    rw [crt_dq_even _ _ _ _ _ _ (by omega) (Or.inl rfl)]
    show crt v true true 0 [] (cmdGo true 0 a ++ t) = _
    rw [crt_cmdGo v true a 0 [] true t (by simp) hn (by simp) ht]; simp [bs_zero]
  | false =>
    have hnq : needQuote a = false := by
      cases h : needQuote a with
      | false => rfl
      | true => rw [hq a h] at hqa; cases hqa
    obtain ⟨hne, hb⟩ := needQuote_false hnq
    simp only [Bool.false_eq_true, if_false]
    rw [crt_cmdGo v false a 0 [] false t (fun _ => hb) hn (fun _ => ⟨rfl, Or.inr hne⟩) ht]; simp [bs_zero]

/-- translator obligation on the regenerated class of quote-forcing characters: blank and tab are in it -/
def cmdTableOk : Bool := cmdQuoteChar ' ' && cmdQuoteChar '\t'

theorem cmdTableOk_holds : cmdTableOk = true := by decide +kernel

theorem cmdNeedQuote_of_needQuote (a : Str) (h : needQuote a = true) : cmdNeedQuote a = true := by
  have ht := cmdTableOk_holds
  simp only [cmdTableOk, Bool.and_eq_true] at ht
  simp only [needQuote, Bool.or_eq_true, contains_iff'] at h
  simp only [cmdNeedQuote, Bool.or_eq_true, List.any_eq_true]
  rcases h with (h | h) | h
  · exact Or.inr ⟨' ', h, ht.1⟩
  · exact Or.inr ⟨'\t', h, ht.2⟩
  · exact Or.inl h

theorem crt_cmdArg (v : CrtVariant) (a : Str) (hn : ∀ c ∈ a, c ≠ nul) (t : Str) (ht : IsTail t) :
    crt v false false 0 [] (cmdArg a ++ t) = a :: crt v false false 0 [] (t.drop 1) :=
  crt_cmdArgQ v cmdNeedQuote cmdNeedQuote_of_needQuote a hn t ht

theorem cmdGo_ne_nil (q : Bool) (cs : Str) (n : Nat) (h : 0 < n ∨ cs ≠ []) : cmdGo q n cs ≠ [] := by
  induction cs generalizing n with
  | nil =>
    have hn : 0 < n := by simpa using h
    obtain ⟨k, rfl⟩ : ∃ k, n = k + 1 := ⟨n - 1, by omega⟩
    simp [cmdGo, bs_succ]
  | cons c cs ih =>
    simp only [cmdGo]
    split
    · exact ih (n + 1) (Or.inl (by omega))
    · split <;> simp

theorem cmdArgQ_ne_nil (qp : Str → Bool) (hq : ∀ a, needQuote a = true → qp a = true) (a : Str) :
    cmdArgQ qp a ≠ [] := by
  unfold cmdArgQ
  split
  · simp
  · rename_i h
    have hnq : needQuote a = false := by
      cases h' : needQuote a with
      | false => rfl
      | true => exact absurd (hq a h') h
    exact cmdGo_ne_nil _ _ _ (Or.inr (needQuote_false hnq).1)

theorem cmdArg_ne_nil (a : Str) : cmdArg a ≠ [] := cmdArgQ_ne_nil cmdNeedQuote cmdNeedQuote_of_needQuote a

/-- the rest of an `args2cmd` text after its first argument -/
def cmdRest (as : List Str) : Str := (as.map fun a => ' ' :: cmdArg a).flatten

theorem cmdLoop_eq (res : Str) (h : res ≠ []) (as : List Str) : cmdLoop res as = res ++ cmdRest as := by
  induction as generalizing res with
  | nil => simp [cmdLoop, cmdRest]
  | cons a as ih =>
    have hr : res.isEmpty = false := by cases res <;> simp_all
    simp only [cmdLoop, hr, Bool.false_eq_true, if_false]
    rw [ih _ (by simp)]
    simp [cmdRest]

theorem args2cmd_eq (a : Str) (as : List Str) : args2cmd (a :: as) = cmdArg a ++ cmdRest as := by
  simp only [args2cmd, cmdLoop, List.isEmpty_nil, if_true, List.nil_append]
  exact cmdLoop_eq _ (cmdArg_ne_nil a) as

theorem cmdRest_tail (as : List Str) : IsTail (cmdRest as) := by
  cases as with
  | nil => exact Or.inl rfl
  | cons a as => exact Or.inr ⟨_, by simp [cmdRest]; rfl⟩

theorem crt_cmdRest (v : CrtVariant) (as : List Str) (hn : NoNul as) :
    crt v false false 0 [] ((cmdRest as).drop 1) = as := by
  induction as with
  | nil => simp [cmdRest, crt_nil_out]
  | cons a as ih =>
    have : (cmdRest (a :: as)).drop 1 = cmdArg a ++ cmdRest as := by simp [cmdRest]
    rw [this, crt_cmdArg v a (hn a (by simp)) _ (cmdRest_tail as), ih (fun b hb => hn b (by simp [hb]))]

theorem cmd_roundtrip_aux (v : CrtVariant) (args : List Str) (hn : NoNul args) :
    crtSplit v (args2cmd args) = args := by
  cases args with
  | nil => simp [crtSplit, args2cmd, cmdLoop, crt_nil_out]
  | cons a as =>
    rw [crtSplit, args2cmd_eq, crt_cmdArg v a (hn a (by simp)) _ (cmdRest_tail as),
      crt_cmdRest v as (fun b hb => hn b (by simp [hb]))]

end C14

namespace C14

/-! ## decimal -/
def dval (c : Char) : Nat := c.toNat - 48

theorem dval_digitChar : ∀ d, d < 10 → dval (digitChar d) = d := by decide
theorem isDigit_digitChar : ∀ d, d < 10 → isDigit (digitChar d) = true := by decide

def ofRev : Str → Nat
  | [] => 0
  | c :: cs => ofRev cs * 10 + dval c

theorem ofDigits_reverse (s : Str) : ofDigits s.reverse = ofRev s := by
  unfold ofDigits
  rw [List.foldl_reverse]
  induction s with
  | nil => rfl
  | cons c cs ih => simp [ofRev, ← ih, dval]

theorem ofRev_digitsRev (n : Nat) : ofRev (digitsRev n) = n := by
  induction n using Nat.strongRecOn with
  | _ n ih =>
    rw [digitsRev]
    split
    · simp [ofRev, dval_digitChar n (by omega)]
    · simp only [ofRev]
      rw [ih (n / 10) (by omega), dval_digitChar _ (by omega)]; omega

theorem ofDigits_toDigits (n : Nat) : ofDigits (toDigits n) = n := by
  rw [toDigits, ofDigits_reverse, ofRev_digitsRev]

theorem digitsRev_digits (n : Nat) : ∀ c ∈ digitsRev n, isDigit c = true := by
  induction n using Nat.strongRecOn with
  | _ n ih =>
    rw [digitsRev]
    split
    · simp [isDigit_digitChar n (by omega)]
    · intro c hc
      simp only [List.mem_cons] at hc
      rcases hc with rfl | hc
      · exact isDigit_digitChar _ (by omega)
      · exact ih (n / 10) (by omega) c hc

theorem digitsRev_ne_nil (n : Nat) : digitsRev n ≠ [] := by
  rw [digitsRev]; split <;> simp

theorem toDigits_digits (n : Nat) : ∀ c ∈ toDigits n, isDigit c = true := by
  intro c hc; exact digitsRev_digits n c (by simpa [toDigits] using hc)

theorem toDigits_ne_nil (n : Nat) : toDigits n ≠ [] := by
  simp [toDigits, digitsRev_ne_nil]

/-! ## strip / int() -/
theorem digit_not_ws {c : Char} (h : isDigit c = true) : isWs c = false := by
  simp only [isWs, Bool.or_eq_false_iff, decide_eq_false_iff_not]
  refine ⟨⟨?_, ?_⟩, ?_⟩ <;> (intro e; subst e; revert h; decide)

theorem digit_ne {c : Char} (h : isDigit c = true) : c ≠ ',' ∧ c ≠ '-' := by
  constructor <;> (intro e; subst e; revert h; decide)

theorem dropWhile_none (s : Str) (h : ∀ c ∈ s, isWs c = false) : s.dropWhile isWs = s := by
  cases s with
  | nil => rfl
  | cons c cs => simp [List.dropWhile, h c (by simp)]

theorem strip_id (s : Str) (h : ∀ c ∈ s, isWs c = false) : strip s = s := by
  unfold strip
  rw [dropWhile_none s h, dropWhile_none s.reverse (by simpa using h)]; simp

theorem pyInt_toDigits (n : Nat) : pyInt? (toDigits n) = some n := by
  unfold pyInt?
  have hs : strip (toDigits n) = toDigits n :=
    strip_id _ (fun c hc => digit_not_ws (toDigits_digits n c hc))
  have h1 : (toDigits n).isEmpty = false := by
    cases h : toDigits n with
    | nil => exact absurd h (toDigits_ne_nil n)
    | cons _ _ => rfl
  have h2 : (toDigits n).all isDigit = true := by
    simp only [List.all_eq_true]; exact toDigits_digits n
  simp [hs, h1, h2, ofDigits_toDigits]

/-! ## split / join -/
theorem splitOn_ne_nil (d : Char) (s : Str) : splitOn d s ≠ [] := by
  induction s with
  | nil => simp [splitOn]
  | cons c cs ih =>
    simp only [splitOn]
    split
    · simp
    · split <;> simp

theorem splitOn_none (d : Char) (t : Str) (h : d ∉ t) : splitOn d t = [t] := by
  induction t with
  | nil => rfl
  | cons c cs ih =>
    have hc : c ≠ d := fun e => h (by simp [e])
    have := ih (fun hm => h (by simp [hm]))
    simp [splitOn, hc, this]

theorem splitOn_append (d : Char) (t rest : Str) (h : d ∉ t) :
    splitOn d (t ++ d :: rest) = t :: splitOn d rest := by
  induction t with
  | nil => simp [splitOn]
  | cons c cs ih =>
    have hc : c ≠ d := fun e => h (by simp [e])
    have := ih (fun hm => h (by simp [hm]))
    simp [splitOn, hc, this]

theorem splitOn_join (d : Char) (toks : List Str) (hne : toks ≠ []) (h : ∀ t ∈ toks, d ∉ t) :
    splitOn d (join [d] toks) = toks := by
  induction toks with
  | nil => exact absurd rfl hne
  | cons a r ih =>
    cases r with
    | nil => simp [join, splitOn_none d a (h a (by simp))]
    | cons b r' =>
      simp only [join, List.append_assoc, List.singleton_append]
      rw [splitOn_append d a _ (h a (by simp)), ih (by simp) (fun t ht => h t (by simp [ht]))]

theorem contains_iff (s : Str) (c : Char) : s.contains c = true ↔ c ∈ s := by
  simp

end C14

namespace C14

/-! ## sorted() -/
theorem mem_insertSorted (x y : Nat) (l : List Nat) : y ∈ insertSorted x l ↔ y = x ∨ y ∈ l := by
  induction l with
  | nil => simp [insertSorted]
  | cons a as ih =>
    simp only [insertSorted]
    split
    · simp
    · simp [ih]; grind

theorem mem_isort (y : Nat) (l : List Nat) : y ∈ isort l ↔ y ∈ l := by
  induction l with
  | nil => simp [isort]
  | cons a as ih => simp [isort, mem_insertSorted, ih]

theorem insertSorted_sorted (x : Nat) (l : List Nat) (h : l.Pairwise (· ≤ ·)) :
    (insertSorted x l).Pairwise (· ≤ ·) := by
  induction l with
  | nil => simp [insertSorted]
  | cons a as ih =>
    simp only [insertSorted]
    have ⟨h1, h2⟩ := List.pairwise_cons.mp h
    split
    · rename_i hle
      refine List.pairwise_cons.mpr ⟨?_, h⟩
      intro y hy
      simp only [List.mem_cons] at hy
      rcases hy with rfl | hy
      · exact hle
      · exact Nat.le_trans hle (h1 y hy)
    · rename_i hle
      refine List.pairwise_cons.mpr ⟨?_, ih h2⟩
      intro y hy
      rcases (mem_insertSorted x y as).mp hy with rfl | hy
      · omega
      · exact h1 y hy

theorem isort_sorted (l : List Nat) : (isort l).Pairwise (· ≤ ·) := by
  induction l with
  | nil => simp [isort]
  | cons a as ih => exact insertSorted_sorted a _ ih

theorem insertSorted_of_le (x : Nat) (l : List Nat) (h : ∀ y ∈ l, x ≤ y) : insertSorted x l = x :: l := by
  cases l with
  | nil => rfl
  | cons a as => simp [insertSorted, h a (by simp)]

theorem isort_id (l : List Nat) (h : l.Pairwise (· ≤ ·)) : isort l = l := by
  induction l with
  | nil => rfl
  | cons a as ih =>
    have ⟨h1, h2⟩ := List.pairwise_cons.mp h
    rw [isort, ih h2, insertSorted_of_le a as h1]

theorem isort_eq_nil (l : List Nat) : isort l = [] ↔ l = [] := by
  constructor
  · intro h
    cases l with
    | nil => rfl
    | cons a as =>
      have : a ∈ isort (a :: as) := (mem_isort a _).mpr (by simp)
      rw [h] at this; simp at this
  · rintro rfl; rfl


/-! ## delimiters -/

/-- the delimiters for which the integer-list theorems are stated: `delim` and `range_delim` are two
    different characters, neither a decimal digit nor one of the blanks `str.strip()` / `int()` remove -/
structure DelimOK (d rd : Char) : Prop where
  ne : d ≠ rd
  d_nd : isDigit d = false
  r_nd : isDigit rd = false
  d_nws : isWs d = false
  r_nws : isWs rd = false

instance (d rd : Char) : Decidable (DelimOK d rd) :=
  if h : d ≠ rd ∧ isDigit d = false ∧ isDigit rd = false ∧ isWs d = false ∧ isWs rd = false
  then isTrue ⟨h.1, h.2.1, h.2.2.1, h.2.2.2.1, h.2.2.2.2⟩
  else isFalse fun ⟨a, b, c, e, f⟩ => h ⟨a, b, c, e, f⟩

theorem delimOK_default : DelimOK ',' '-' := by decide

/-! ## the range-collapsing loop, structurally -/

abbrev RState := List (Nat × Nat) × Option (Nat × Nat)

def rStep (st : RState) (x : Nat) : RState :=
  match st.2 with
  | none => (st.1, some (x, x))
  | some r =>
    if x = r.2 + 1 then (st.1, some (r.1, x))
    else if r.2 + 1 < x then (st.1 ++ [r], some (x, x))
    else st

def rFinish (st : RState) : List (Nat × Nat) :=
  match st.2 with
  | none => st.1
  | some r => st.1 ++ [r]

/-- the maximal runs of a sorted list -/
def runs (s : List Nat) : List (Nat × Nat) := rFinish (s.foldl rStep ([], none))

/-- `n` or `lo<rd>hi` -/
def renderRangeD (rd : Char) (r : Nat × Nat) : Str :=
  if r.1 = r.2 then toDigits r.1 else toDigits r.1 ++ rd :: toDigits r.2

/-- `n` or `lo-hi` -/
def renderRange (r : Nat × Nat) : Str := renderRangeD '-' r

theorem renderRange_eq : renderRange = renderRangeD '-' := rfl

def crOf : Option (Nat × Nat) → List Nat
  | none => []
  | some r => List.range' r.1 (r.2 + 1 - r.1)

/-- the Python loop state (output, contig_range) represents the structured state -/
def Rel (rd : Char) (st : List Str × List Nat) (rs : RState) : Prop :=
  st.1 = rs.1.map (renderRangeD rd) ∧ st.2 = crOf rs.2 ∧ ∀ r, rs.2 = some r → r.1 ≤ r.2

theorem foldl_min_le (a : Nat) (l : List Nat) (h : ∀ y ∈ l, a ≤ y) : l.foldl min a = a := by
  induction l with
  | nil => rfl
  | cons b bs ih =>
    have : min a b = a := Nat.min_eq_left (h b (by simp))
    simp only [List.foldl_cons, this]
    exact ih (fun y hy => h y (by simp [hy]))

theorem lmin_range' (lo k : Nat) : lmin (List.range' lo (k + 1)) = lo := by
  simp only [List.range'_succ, lmin]
  apply foldl_min_le
  intro y hy
  simp [List.mem_range'_1] at hy; omega

theorem foldl_max_range' (a lo k : Nat) (h : a ≤ lo) : (List.range' lo k).foldl max a = if k = 0 then a else lo + k - 1 := by
  induction k generalizing a lo with
  | zero => simp
  | succ k ih =>
    simp only [List.range'_succ, List.foldl_cons]
    rw [ih (max a lo) (lo + 1) (by omega)]
    split
    · subst_vars; simp; try omega
    · simp <;> omega

theorem lmax_range' (lo k : Nat) : lmax (List.range' lo (k + 1)) = lo + k := by
  simp only [List.range'_succ, lmax]
  rw [foldl_max_range' lo (lo + 1) k (by omega)]
  split
  · subst_vars; simp
  · omega

theorem getLastD_range' (lo k d : Nat) : (List.range' lo (k + 1)).getLastD d = lo + k := by
  simp [List.getLastD_eq_getLast?, List.getLast?_range']

theorem crOf_two (lo m : Nat) :
    crOf (some (lo, lo + m + 1)) = lo :: (lo + 1) :: List.range' (lo + 2) m := by
  simp only [crOf]
  have : lo + m + 1 + 1 - lo = m + 2 := by omega
  rw [this]; simp [List.range'_succ]

theorem range'_two (lo m : Nat) :
    lo :: (lo + 1) :: List.range' (lo + 2) m = List.range' lo (m + 1 + 1) := by
  simp [List.range'_succ]

theorem range'_ext (lo m : Nat) :
    lo :: (lo + 1) :: List.range' (lo + 2) m ++ [lo + m + 1 + 1] = crOf (some (lo, lo + m + 1 + 1)) := by
  have h := crOf_two lo (m + 1)
  have e : lo + (m + 1) + 1 = lo + m + 1 + 1 := by omega
  rw [e] at h
  rw [h, List.range'_concat]
  simp; omega

theorem fmtStep_rel (rd : Char) (st : List Str × List Nat) (rs : RState) (x : Nat) (h : Rel rd st rs) :
    Rel rd (fmtStep rd st x) (rStep rs x) := by
  obtain ⟨out, cr⟩ := st
  obtain ⟨cl, cur⟩ := rs
  obtain ⟨h1, h2, h3⟩ := h
  simp only at h1 h2 h3
  subst h1; subst h2
  cases cur with
  | none => simp [fmtStep, rStep, crOf, Rel]
  | some r =>
    obtain ⟨lo, hi⟩ := r
    have hle : lo ≤ hi := h3 _ rfl
    by_cases heq : lo = hi
    · subst heq
      have hcr : crOf (some (lo, lo)) = [lo] := by simp [crOf]
      simp only [fmtStep, rStep, hcr]
      split
      · subst_vars; refine ⟨rfl, ?_, by simp⟩
        have : lo + 1 + 1 - lo = 2 := by omega
        simp [crOf, this, List.range'_succ]
      · split
        · refine ⟨?_, ?_, ?_⟩ <;> simp [crOf, renderRangeD]
        · exact ⟨rfl, hcr.symm, by simp⟩
    · obtain ⟨m, rfl⟩ : ∃ m, hi = lo + m + 1 := ⟨hi - lo - 1, by omega⟩
      have hlast : (lo :: (lo + 1) :: List.range' (lo + 2) m).getLastD 0 = lo + m + 1 := by
        rw [range'_two, getLastD_range']; omega
      simp only [fmtStep, rStep, crOf_two]
      simp only [hlast]
      split
      · subst_vars; exact ⟨rfl, range'_ext lo m, by simp; omega⟩
      · split
        · refine ⟨?_, by simp [crOf], by simp⟩
          simp only [List.map_append, List.map_cons, List.map_nil, renderRangeD, fmtRange]
          rw [range'_two, lmin_range', lmax_range']
          have h1 : ¬ (lo = lo + m + 1) := by omega
          have h2 : lo + (m + 1) = lo + m + 1 := by omega
          simp [h1, h2]
        · exact ⟨rfl, (crOf_two lo m).symm, h3⟩


theorem foldl_rel (rd : Char) (s : List Nat) (st : List Str × List Nat) (rs : RState) (h : Rel rd st rs) :
    Rel rd (s.foldl (fmtStep rd) st) (s.foldl rStep rs) := by
  induction s generalizing st rs with
  | nil => exact h
  | cons x xs ih => exact ih _ _ (fmtStep_rel rd st rs x h)

theorem fmtFinish_rel (rd : Char) (st : List Str × List Nat) (rs : RState) (h : Rel rd st rs) :
    fmtFinish rd st = (rFinish rs).map (renderRangeD rd) := by
  obtain ⟨out, cr⟩ := st
  obtain ⟨cl, cur⟩ := rs
  obtain ⟨h1, h2, h3⟩ := h
  simp only at h1 h2 h3
  subst h1; subst h2
  cases cur with
  | none => simp [fmtFinish, rFinish, crOf]
  | some r =>
    obtain ⟨lo, hi⟩ := r
    have hle : lo ≤ hi := h3 _ rfl
    by_cases heq : lo = hi
    · subst heq
      simp [fmtFinish, rFinish, crOf, renderRangeD]
    · obtain ⟨m, rfl⟩ : ∃ m, hi = lo + m + 1 := ⟨hi - lo - 1, by omega⟩
      simp only [fmtFinish, rFinish, crOf_two, List.map_append, List.map_cons, List.map_nil, renderRangeD, fmtRange]
      rw [range'_two, lmin_range', lmax_range']
      have h1 : ¬ (lo = lo + m + 1) := by omega
      have h2 : lo + (m + 1) = lo + m + 1 := by omega
      simp [h1, h2]

theorem fmtTokens_eq (rd : Char) (l : List Nat) : fmtTokens rd l = (runs (isort l)).map (renderRangeD rd) := by
  unfold fmtTokens runs
  exact fmtFinish_rel rd _ _ (foldl_rel rd _ _ _ ⟨rfl, rfl, by simp⟩)

end C14

namespace C14

/-! ## what the collapsed runs are -/

/-- canonical = every run non-empty, runs increasing and separated by a gap (so none can be merged) -/
def Canon (rs : List (Nat × Nat)) : Prop :=
  (∀ r ∈ rs, r.1 ≤ r.2) ∧ rs.Pairwise (fun r s => r.2 + 2 ≤ s.1)

def Covers (rs : List (Nat × Nat)) (x : Nat) : Prop := ∃ r ∈ rs, r.1 ≤ x ∧ x ≤ r.2

def SInv (st : RState) : Prop := Canon (rFinish st) ∧ (st.2 = none → st.1 = [])

theorem canon_snoc (cl : List (Nat × Nat)) (r : Nat × Nat) :
    Canon (cl ++ [r]) ↔ Canon cl ∧ r.1 ≤ r.2 ∧ ∀ s ∈ cl, s.2 + 2 ≤ r.1 := by
  simp only [Canon, List.pairwise_append, List.mem_append, List.mem_singleton]
  constructor
  · rintro ⟨h1, h2, -, h4⟩
    exact ⟨⟨fun s hs => h1 s (Or.inl hs), h2⟩, h1 r (Or.inr rfl), fun s hs => h4 s hs r rfl⟩
  · rintro ⟨⟨h1, h2⟩, h3, h4⟩
    refine ⟨?_, h2, by simp, ?_⟩
    · rintro s (hs | rfl)
      · exact h1 s hs
      · exact h3
    · intro s hs t ht; subst ht; exact h4 s hs

theorem covers_snoc (cl : List (Nat × Nat)) (r : Nat × Nat) (y : Nat) :
    Covers (cl ++ [r]) y ↔ Covers cl y ∨ (r.1 ≤ y ∧ y ≤ r.2) := by
  simp only [Covers, List.mem_append, List.mem_singleton]
  constructor
  · rintro ⟨s, hs | rfl, h⟩
    · exact Or.inl ⟨s, hs, h⟩
    · exact Or.inr h
  · rintro (⟨s, hs, h⟩ | h)
    · exact ⟨s, Or.inl hs, h⟩
    · exact ⟨r, Or.inr rfl, h⟩

theorem rStep_inv (st : RState) (x : Nat) (hi : SInv st) (hx : ∀ r, st.2 = some r → r.2 ≤ x) :
    SInv (rStep st x) ∧ (∀ r, (rStep st x).2 = some r → r.2 = x) ∧
    (∀ y, Covers (rFinish (rStep st x)) y ↔ Covers (rFinish st) y ∨ y = x) := by
  obtain ⟨cl, cur⟩ := st
  cases cur with
  | none =>
    have hcl : cl = [] := hi.2 rfl
    subst hcl
    refine ⟨⟨?_, by simp [rStep]⟩, by simp [rStep], ?_⟩
    · simp [rStep, rFinish, Canon]
    · intro y; simp [rStep, rFinish, Covers]; omega
  | some r =>
    obtain ⟨lo, hi'⟩ := r
    have hle : hi' ≤ x := hx _ rfl
    have hc := hi.1
    simp only [rFinish] at hc
    rw [canon_snoc] at hc
    obtain ⟨hc1, hc2, hc3⟩ := hc
    simp only at hc2 hc3
    simp only [rStep]
    split
    · rename_i he
      refine ⟨⟨?_, by simp⟩, by simp, ?_⟩
      · simp only [rFinish]; rw [canon_snoc]; exact ⟨hc1, by simp; omega, hc3⟩
      · intro y; simp only [rFinish, covers_snoc]; subst he; grind
    · split
      · rename_i hne hlt
        refine ⟨⟨?_, by simp⟩, by simp, ?_⟩
        · simp only [rFinish]; rw [canon_snoc, canon_snoc]
          refine ⟨⟨hc1, hc2, hc3⟩, by simp, ?_⟩
          intro s hs
          simp only [List.mem_append, List.mem_singleton] at hs
          rcases hs with hs | rfl
          · have := hc3 s hs; simp; omega
          · simp; omega
        · intro y; simp only [rFinish, covers_snoc]; grind
      · rename_i hne hlt
        have : x = hi' := by omega
        subst this
        refine ⟨hi, by simp, ?_⟩
        intro y; simp only [rFinish, covers_snoc]; grind

theorem foldl_rStep_inv (s : List Nat) (st : RState) (hs : s.Pairwise (· ≤ ·)) (hi : SInv st)
    (hx : ∀ x ∈ s, ∀ r, st.2 = some r → r.2 ≤ x) :
    SInv (s.foldl rStep st) ∧
    ∀ y, Covers (rFinish (s.foldl rStep st)) y ↔ Covers (rFinish st) y ∨ y ∈ s := by
  induction s generalizing st with
  | nil => simp [hi]
  | cons x xs ih =>
    have ⟨h1, h2⟩ := List.pairwise_cons.mp hs
    obtain ⟨a, b, c⟩ := rStep_inv st x hi (hx x (by simp))
    have := ih (rStep st x) h2 a (fun z hz r hr => by rw [b r hr]; exact h1 z hz)
    refine ⟨this.1, fun y => ?_⟩
    rw [List.foldl_cons, this.2 y, c y]; simp [or_assoc]

theorem runs_spec (s : List Nat) (hs : s.Pairwise (· ≤ ·)) :
    Canon (runs s) ∧ ∀ y, Covers (runs s) y ↔ y ∈ s := by
  have := foldl_rStep_inv s ([], none) hs ⟨by simp [rFinish, Canon], by simp⟩ (by simp)
  refine ⟨this.1.1, fun y => ?_⟩
  rw [runs, this.2 y]; simp [rFinish, Covers]


/-! ## range strings read back -/

theorem toDigits_no (n : Nat) (d : Char) (hd : isDigit d = false) : d ∉ toDigits n := by
  intro h; have := toDigits_digits n d h; simp [hd] at this

/-- a non-digit character other than the range delimiter does not occur in a rendered range -/
theorem renderRangeD_no (rd d : Char) (hd : isDigit d = false) (hne : d ≠ rd) (r : Nat × Nat) :
    d ∉ renderRangeD rd r := by
  have h := fun n => toDigits_no n d hd
  unfold renderRangeD; split <;> simp [h, hne]

theorem renderRange_no_comma (r : Nat × Nat) : ',' ∉ renderRange r :=
  renderRangeD_no '-' ',' (by decide) (by decide) r

theorem renderRangeD_chars (rd : Char) (hr : isWs rd = false) (r : Nat × Nat) :
    ∀ c ∈ renderRangeD rd r, isWs c = false := by
  intro c hc
  have hd := fun n c (h : c ∈ toDigits n) => digit_not_ws (toDigits_digits n c h)
  unfold renderRangeD at hc
  split at hc
  · exact hd _ c hc
  · simp only [List.mem_append, List.mem_cons] at hc
    rcases hc with hc | rfl | hc
    · exact hd _ c hc
    · exact hr
    · exact hd _ c hc

theorem mapM?_map {α β γ : Type} (f : β → Option γ) (g : α → β) (h : α → γ) (l : List α)
    (hf : ∀ x ∈ l, f (g x) = some (h x)) : mapM? f (l.map g) = some (l.map h) := by
  induction l with
  | nil => rfl
  | cons a as ih =>
    simp [mapM?, hf a (by simp), ih (fun x hx => hf x (by simp [hx]))]

theorem parseTok_render (rd : Char) (hrd : isDigit rd = false) (r : Nat × Nat) (h : r.1 ≤ r.2) :
    parseTok rd (renderRangeD rd r) = some (rangeIncl r.1 r.2) := by
  obtain ⟨lo, hi⟩ := r
  simp only at h
  have hno := fun n => toDigits_no n rd hrd
  unfold renderRangeD
  split
  · rename_i he
    simp only at he; subst he
    have h1 : (toDigits lo).contains rd = false := by
      simpa using hno lo
    have h2 : (toDigits lo).isEmpty = false := by
      cases h : toDigits lo with
      | nil => exact absurd h (toDigits_ne_nil lo)
      | cons _ _ => rfl
    simp [parseTok, hno lo, h2, pyInt_toDigits, rangeIncl]
  · rename_i hne
    simp only at hne
    have h1 : (toDigits lo ++ rd :: toDigits hi).contains rd = true := by simp
    simp only [parseTok, h1, if_true]
    rw [splitOn_append rd _ _ (hno lo), splitOn_none rd _ (hno hi)]
    simp only [mapM?, pyInt_toDigits, lmin, lmax, List.foldl_cons, List.foldl_nil]
    rw [Nat.min_eq_left h, Nat.max_eq_right h]

theorem boundsTok_render (r : Nat × Nat) : boundsTok (renderRange r) = some r := by
  obtain ⟨lo, hi⟩ := r
  have hno := fun n => toDigits_no n '-' (by decide)
  unfold renderRange renderRangeD
  split
  · rename_i he
    simp only at he; subst he
    have h1 : (toDigits lo).contains '-' = false := by simpa using hno lo
    simp [boundsTok, hno lo, pyInt_toDigits]
  · have h1 : (toDigits lo ++ '-' :: toDigits hi).contains '-' = true := by simp
    simp only [boundsTok, h1, if_true]
    rw [splitOn_append '-' _ _ (hno lo), splitOn_none '-' _ (hno hi)]
    simp [pyInt_toDigits]

/-- the integers a list of runs denotes, in order -/
def expand (rs : List (Nat × Nat)) : List Nat := (rs.map fun r => rangeIncl r.1 r.2).flatten

theorem mem_expand (rs : List (Nat × Nat)) (x : Nat) : x ∈ expand rs ↔ Covers rs x := by
  simp only [expand, List.mem_flatten, List.mem_map, Covers, rangeIncl]
  constructor
  · rintro ⟨l, ⟨r, hr, rfl⟩, hx⟩
    refine ⟨r, hr, ?_⟩
    simp [List.mem_range'_1] at hx; omega
  · rintro ⟨r, hr, h1, h2⟩
    refine ⟨_, ⟨r, hr, rfl⟩, ?_⟩
    simp [List.mem_range'_1]; omega

theorem expand_sorted (rs : List (Nat × Nat)) (h : Canon rs) : (expand rs).Pairwise (· < ·) := by
  unfold expand
  rw [List.pairwise_flatten]
  constructor
  · intro l hl
    simp only [List.mem_map] at hl
    obtain ⟨r, -, rfl⟩ := hl
    exact List.pairwise_lt_range'
  · rw [List.pairwise_map]
    refine h.2.imp_of_mem ?_
    intro r s hr hs hrs x hx y hy
    simp [rangeIncl, List.mem_range'_1] at hx hy
    omega

theorem join_chars (sep : Str) (toks : List Str) (p : Char → Prop)
    (hs : ∀ c ∈ sep, p c) (ht : ∀ t ∈ toks, ∀ c ∈ t, p c) : ∀ c ∈ join sep toks, p c := by
  induction toks with
  | nil => simp [join]
  | cons a r ih =>
    cases r with
    | nil => simpa [join] using ht a (by simp)
    | cons b r' =>
      intro c hc
      simp only [join, List.mem_append] at hc
      rcases hc with (hc | hc) | hc
      · exact ht a (by simp) c hc
      · exact hs c hc
      · exact ih (fun t h => ht t (by simp [h])) c hc

theorem lt_imp_le_pairwise {l : List Nat} (h : l.Pairwise (· < ·)) : l.Pairwise (· ≤ ·) :=
  h.imp (fun h => Nat.le_of_lt h)

/-- parsing the rendering of any list of non-empty runs gives the sorted expansion -/
theorem parse_renderD (d rd : Char) (ok : DelimOK d rd) (rs : List (Nat × Nat)) (h : ∀ r ∈ rs, r.1 ≤ r.2) :
    parseIntList (join [d] (rs.map (renderRangeD rd))) d rd = some (isort (expand rs)) := by
  unfold parseIntList
  have hws : ∀ c ∈ join [d] (rs.map (renderRangeD rd)), isWs c = false := by
    apply join_chars
    · intro c hc; simp at hc; subst hc; exact ok.d_nws
    · intro t ht; simp only [List.mem_map] at ht; obtain ⟨r, -, rfl⟩ := ht; exact renderRangeD_chars rd ok.r_nws r
  rw [strip_id _ hws]
  cases rs with
  | nil => simp [join, splitOn, mapM?, parseTok, expand, isort]
  | cons r rs' =>
    rw [splitOn_join d _ (by simp) (by
      intro t ht; simp only [List.mem_map] at ht; obtain ⟨r, -, rfl⟩ := ht
      exact renderRangeD_no rd d ok.d_nd ok.ne r)]
    rw [mapM?_map (parseTok rd) (renderRangeD rd) (fun r => rangeIncl r.1 r.2) _
      (fun x hx => parseTok_render rd ok.r_nd x (h x hx))]
    rfl

theorem parse_render (rs : List (Nat × Nat)) (h : ∀ r ∈ rs, r.1 ≤ r.2) :
    parseIntList (join [','] (rs.map renderRange)) = some (isort (expand rs)) :=
  parse_renderD ',' '-' delimOK_default rs h

end C14

namespace C14

/-! ## assembling: format / parse / complement / ranges -/

theorem format_eqD (d rd : Char) (l : List Nat) :
    formatIntList l false d rd = join [d] ((runs (isort l)).map (renderRangeD rd)) := by
  simp [formatIntList, fmtTokens_eq]

theorem format_eq (l : List Nat) :
    formatIntList l = join [','] ((runs (isort l)).map renderRange) := format_eqD ',' '-' l

theorem runs_isort_spec (l : List Nat) :
    Canon (runs (isort l)) ∧ ∀ y, Covers (runs (isort l)) y ↔ y ∈ l := by
  have := runs_spec (isort l) (isort_sorted l)
  exact ⟨this.1, fun y => by rw [this.2 y, mem_isort]⟩

theorem parse_formatD (d rd : Char) (ok : DelimOK d rd) (l : List Nat) :
    parseIntList (formatIntList l false d rd) d rd = some (expand (runs (isort l))) := by
  have hc := (runs_isort_spec l).1
  rw [format_eqD, parse_renderD d rd ok _ hc.1, isort_id _ (lt_imp_le_pairwise (expand_sorted _ hc))]

theorem parse_format (l : List Nat) :
    parseIntList (formatIntList l) = some (expand (runs (isort l))) := parse_formatD ',' '-' delimOK_default l

theorem formatIntList_eq_nil (l : List Nat) (h : formatIntList l = []) : runs (isort l) = [] := by
  rw [format_eq] at h
  cases hr : runs (isort l) with
  | nil => rfl
  | cons r rs =>
    rw [hr] at h
    exfalso
    have hne : renderRange r ≠ [] := by
      unfold renderRange renderRangeD; split
      · exact toDigits_ne_nil _
      · simp
    cases rs with
    | nil => simp [join] at h; exact hne h
    | cons b r' => simp [join] at h

/-- whatever delimiters the text is read with, the ranges are the maximal runs of what was read -/
theorem intRanges_of_parseD (d rd : Char) (s : Str) (l : List Nat) (h : parseIntList s d rd = some l) :
    intRanges s d rd = some (runs (isort l)) := by
  unfold intRanges
  rw [h]
  simp only
  split
  · rename_i he
    rw [formatIntList_eq_nil l (by simpa using he)]
  · rename_i he
    rw [format_eq] at he ⊢
    have hne : (runs (isort l)).map renderRange ≠ [] := by
      intro hn; rw [hn] at he; simp [join] at he
    rw [splitOn_join ',' _ hne (by
      intro t ht; simp only [List.mem_map] at ht; obtain ⟨r, -, rfl⟩ := ht; exact renderRange_no_comma r)]
    rw [mapM?_map boundsTok renderRange id _ (fun x _ => boundsTok_render x)]
    simp

theorem intRanges_of_parse (s : Str) (l : List Nat) (h : parseIntList s = some l) :
    intRanges s = some (runs (isort l)) := intRanges_of_parseD ',' '-' s l h

end C14

namespace C14

/-! ## explicit specification of "sorted list of the distinct members" -/

/-- the sorted list of the distinct integers of `L`, written down directly -/
def sortDedup (L : List Nat) : List Nat := (List.range (lmax L + 1)).filter fun x => L.contains x

theorem foldl_max_ge (a : Nat) (l : List Nat) : a ≤ l.foldl max a ∧ ∀ y ∈ l, y ≤ l.foldl max a := by
  induction l generalizing a with
  | nil => simp
  | cons b bs ih =>
    simp only [List.foldl_cons]
    have := ih (max a b)
    refine ⟨by omega, fun y hy => ?_⟩
    simp only [List.mem_cons] at hy
    rcases hy with rfl | hy
    · omega
    · exact this.2 y hy

theorem le_lmax (L : List Nat) (x : Nat) (h : x ∈ L) : x ≤ lmax L := by
  cases L with
  | nil => simp at h
  | cons a as =>
    simp only [lmax]
    simp only [List.mem_cons] at h
    rcases h with rfl | h
    · exact (foldl_max_ge _ as).1
    · exact (foldl_max_ge a as).2 x h

theorem sortDedup_sorted (L : List Nat) : (sortDedup L).Pairwise (· < ·) :=
  List.Pairwise.filter _ List.pairwise_lt_range

theorem mem_sortDedup (L : List Nat) (x : Nat) : x ∈ sortDedup L ↔ x ∈ L := by
  simp only [sortDedup, List.mem_filter, List.mem_range, List.contains_eq_mem, decide_eq_true_eq]
  constructor
  · exact fun h => h.2
  · exact fun h => ⟨by have := le_lmax L x h; omega, h⟩

/-- strictly increasing lists with the same members are equal -/
theorem sorted_ext (A B : List Nat) (hA : A.Pairwise (· < ·)) (hB : B.Pairwise (· < ·))
    (h : ∀ x, x ∈ A ↔ x ∈ B) : A = B := by
  induction A generalizing B with
  | nil =>
    cases B with
    | nil => rfl
    | cons b bs => have := (h b).mpr (by simp); simp at this
  | cons a as ih =>
    cases B with
    | nil => have := (h a).mp (by simp); simp at this
    | cons b bs =>
      have ⟨ha1, ha2⟩ := List.pairwise_cons.mp hA
      have ⟨hb1, hb2⟩ := List.pairwise_cons.mp hB
      have hab : a = b := by
        have h1 := (h a).mp (by simp)
        have h2 := (h b).mpr (by simp)
        simp only [List.mem_cons] at h1 h2
        rcases h1 with h1 | h1
        · exact h1
        · rcases h2 with h2 | h2
          · exact h2.symm
          · have := hb1 a h1; have := ha1 b h2; omega
      subst hab
      congr 1
      apply ih bs ha2 hb2
      intro x
      have hx := h x
      simp only [List.mem_cons] at hx
      constructor
      · intro hxa
        have := ha1 x hxa
        rcases hx.mp (Or.inr hxa) with rfl | h'
        · omega
        · exact h'
      · intro hxb
        have := hb1 x hxb
        rcases hx.mpr (Or.inr hxb) with rfl | h'
        · omega
        · exact h'

/-- the expansion of the maximal runs of `sorted(L)` IS the sorted list of the distinct members of `L` -/
theorem expand_runs_eq (L : List Nat) : expand (runs (isort L)) = sortDedup L := by
  have hs := runs_isort_spec L
  exact sorted_ext _ _ (expand_sorted _ hs.1) (sortDedup_sorted L)
    (fun x => by rw [mem_expand, hs.2, mem_sortDedup])

/-! ## canonical run lists are unique -/

theorem covers_cons (r : Nat × Nat) (rs : List (Nat × Nat)) (x : Nat) :
    Covers (r :: rs) x ↔ (r.1 ≤ x ∧ x ≤ r.2) ∨ Covers rs x := by
  simp [Covers]

theorem canon_cons (r : Nat × Nat) (rs : List (Nat × Nat)) :
    Canon (r :: rs) ↔ r.1 ≤ r.2 ∧ (∀ s ∈ rs, r.2 + 2 ≤ s.1) ∧ Canon rs := by
  simp only [Canon, List.pairwise_cons, List.mem_cons, forall_eq_or_imp]
  constructor
  · rintro ⟨⟨h1, h2⟩, h3, h4⟩; exact ⟨h1, h3, h2, h4⟩
  · rintro ⟨h1, h3, h2, h4⟩; exact ⟨⟨h1, h2⟩, h3, h4⟩

theorem canon_unique (A B : List (Nat × Nat)) (hA : Canon A) (hB : Canon B)
    (h : ∀ x, Covers A x ↔ Covers B x) : A = B := by
  induction A generalizing B with
  | nil =>
    cases B with
    | nil => rfl
    | cons b bs =>
      have hb := ((canon_cons b bs).mp hB).1
      have := (h b.1).mpr ((covers_cons b bs b.1).mpr (Or.inl ⟨Nat.le_refl _, hb⟩))
      simp [Covers] at this
  | cons a as ih =>
    cases B with
    | nil =>
      have ha := ((canon_cons a as).mp hA).1
      have := (h a.1).mp ((covers_cons a as a.1).mpr (Or.inl ⟨Nat.le_refl _, ha⟩))
      simp [Covers] at this
    | cons b bs =>
      obtain ⟨ha1, ha2, ha3⟩ := (canon_cons a as).mp hA
      obtain ⟨hb1, hb2, hb3⟩ := (canon_cons b bs).mp hB
      obtain ⟨al, ah⟩ := a
      obtain ⟨bl, bh⟩ := b
      simp only at ha1 ha2 hb1 hb2
      -- every covered point is ≥ the head's low end
      have geA : ∀ x, Covers ((al, ah) :: as) x → al ≤ x := by
        intro x hx
        rcases (covers_cons _ _ _).mp hx with h1 | ⟨s, hs, h1, _⟩
        · exact h1.1
        · have := ha2 s hs; omega
      have geB : ∀ x, Covers ((bl, bh) :: bs) x → bl ≤ x := by
        intro x hx
        rcases (covers_cons _ _ _).mp hx with h1 | ⟨s, hs, h1, _⟩
        · exact h1.1
        · have := hb2 s hs; omega
      have hlo : al = bl := by
        have h1 := geB al ((h al).mp ((covers_cons _ _ _).mpr (Or.inl ⟨Nat.le_refl _, ha1⟩)))
        have h2 := geA bl ((h bl).mpr ((covers_cons _ _ _).mpr (Or.inl ⟨Nat.le_refl _, hb1⟩)))
        omega
      subst hlo
      -- a point just above the head's high end is not covered
      have gapA : ¬ Covers ((al, ah) :: as) (ah + 1) := by
        intro hx
        rcases (covers_cons _ _ _).mp hx with h1 | ⟨s, hs, h1, _⟩
        · simp at h1; omega
        · have := ha2 s hs; omega
      have gapB : ¬ Covers ((al, bh) :: bs) (bh + 1) := by
        intro hx
        rcases (covers_cons _ _ _).mp hx with h1 | ⟨s, hs, h1, _⟩
        · simp at h1; omega
        · have := hb2 s hs; omega
      have hhi : ah = bh := by
        rcases Nat.lt_trichotomy ah bh with hlt | heq | hgt
        · exact absurd ((h (ah + 1)).mpr ((covers_cons _ _ _).mpr (Or.inl ⟨by simp; omega, by simp; omega⟩))) gapA
        · exact heq
        · exact absurd ((h (bh + 1)).mp ((covers_cons _ _ _).mpr (Or.inl ⟨by simp; omega, by simp; omega⟩))) gapB
      subst hhi
      congr 1
      apply ih bs ha3 hb3
      intro x
      have hx := h x
      rw [covers_cons, covers_cons] at hx
      simp only at hx
      constructor
      · intro hc
        obtain ⟨s, hs, h1, h2⟩ := hc
        have := ha2 s hs
        rcases hx.mp (Or.inr ⟨s, hs, h1, h2⟩) with h' | h'
        · omega
        · exact h'
      · intro hc
        obtain ⟨s, hs, h1, h2⟩ := hc
        have := hb2 s hs
        rcases hx.mpr (Or.inr ⟨s, hs, h1, h2⟩) with h' | h'
        · omega
        · exact h'

end C14

namespace C14

/-! ## delim_space=True -/

/-- the pieces `s.split(delim)` sees when the separator was `delim + " "` -/
def spaceTail : List Str → List Str
  | [] => []
  | t :: ts => t :: ts.map (' ' :: ·)

theorem join_space (d : Char) (toks : List Str) : join [d, ' '] toks = join [d] (spaceTail toks) := by
  induction toks with
  | nil => rfl
  | cons a r ih =>
    cases r with
    | nil => rfl
    | cons b r' =>
      simp only [spaceTail, List.map_cons, join] at ih ⊢
      cases r' with
      | nil => simp [join]
      | cons c r'' =>
        simp only [join, List.map_cons] at ih ⊢
        simp only [List.append_assoc, List.cons_append, List.nil_append] at ih ⊢
        rw [ih]

theorem strip_cons_ws (c : Char) (s : Str) (hc : isWs c = true) (hs : ∀ x ∈ s, isWs x = false) (hne : s ≠ []) :
    strip (c :: s) = s := by
  unfold strip
  have h1 : (c :: s).dropWhile isWs = s := by
    simp only [List.dropWhile, hc]; exact dropWhile_none s hs
  rw [h1, dropWhile_none s.reverse (by simpa using hs)]; simp

theorem pyInt_space_toDigits (n : Nat) : pyInt? (' ' :: toDigits n) = some n := by
  have h := pyInt_toDigits n
  unfold pyInt? at h ⊢
  rw [strip_cons_ws ' ' _ (by decide) (fun c hc => digit_not_ws (toDigits_digits n c hc)) (toDigits_ne_nil n)]
  rw [strip_id _ (fun c hc => digit_not_ws (toDigits_digits n c hc))] at h
  exact h

theorem parseTok_space_render (rd : Char) (hrd : isDigit rd = false) (hsp : rd ≠ ' ') (r : Nat × Nat) (h : r.1 ≤ r.2) :
    parseTok rd (' ' :: renderRangeD rd r) = some (rangeIncl r.1 r.2) := by
  obtain ⟨lo, hi⟩ := r
  simp only at h
  have hno := fun n => toDigits_no n rd hrd
  have hsp' : ¬ (' ' = rd) := fun e => hsp e.symm
  unfold renderRangeD
  split
  · rename_i he
    simp only at he; subst he
    have h1 : (' ' :: toDigits lo).contains rd = false := by
      simp [hno lo, hsp]
    simp only [parseTok, h1]
    simp [pyInt_space_toDigits, rangeIncl]
  · have h1 : (' ' :: (toDigits lo ++ rd :: toDigits hi)).contains rd = true := by simp
    simp only [parseTok, h1, if_true]
    have : ' ' :: (toDigits lo ++ rd :: toDigits hi) = (' ' :: toDigits lo) ++ rd :: toDigits hi := by simp
    rw [this, splitOn_append rd _ _ (by simp [hno lo, hsp]), splitOn_none rd _ (hno hi)]
    simp only [mapM?, pyInt_toDigits, pyInt_space_toDigits, lmin, lmax, List.foldl_cons, List.foldl_nil]
    rw [Nat.min_eq_left h, Nat.max_eq_right h]

theorem ws_space : isWs ' ' = true := by decide

theorem mapM?_spaceTail (rd : Char) (hrd : isDigit rd = false) (hsp : rd ≠ ' ')
    (rs : List (Nat × Nat)) (h : ∀ r ∈ rs, r.1 ≤ r.2) :
    mapM? (parseTok rd) (spaceTail (rs.map (renderRangeD rd))) = some (rs.map fun r => rangeIncl r.1 r.2) := by
  cases rs with
  | nil => rfl
  | cons r rs' =>
    simp only [List.map_cons, spaceTail, mapM?, parseTok_render rd hrd r (h r (by simp))]
    rw [List.map_map]
    have := mapM?_map (parseTok rd) ((' ' :: ·) ∘ renderRangeD rd) (fun r => rangeIncl r.1 r.2) rs'
      (fun x hx => parseTok_space_render rd hrd hsp x (h x (by simp [hx])))
    rw [this]

/-- first and last character exist and are not blanks -/
def GoodEnds (s : Str) : Prop :=
  (∃ c, s.head? = some c ∧ isWs c = false) ∧ (∃ d, s.getLast? = some d ∧ isWs d = false)

theorem strip_goodEnds (s : Str) (h : GoodEnds s) : strip s = s := by
  obtain ⟨⟨c, hc, hcw⟩, ⟨d, hd, hdw⟩⟩ := h
  unfold strip
  have h1 : s.dropWhile isWs = s := by
    cases s with
    | nil => rfl
    | cons a as => simp at hc; subst hc; simp [List.dropWhile, hcw]
  rw [h1]
  have h2 : s.reverse.dropWhile isWs = s.reverse := by
    have : s.reverse.head? = some d := by rw [List.head?_reverse]; exact hd
    cases hr : s.reverse with
    | nil => rfl
    | cons a as => rw [hr] at this; simp at this; subst this; simp [List.dropWhile, hdw]
  rw [h2]; simp

theorem goodEnds_of_all (s : Str) (hne : s ≠ []) (h : ∀ c ∈ s, isWs c = false) : GoodEnds s := by
  constructor
  · cases s with
    | nil => exact absurd rfl hne
    | cons a as => exact ⟨a, rfl, h a (by simp)⟩
  · cases hl : s.getLast? with
    | none => simp at hl; exact absurd hl hne
    | some d => exact ⟨d, rfl, h d (List.mem_of_getLast? hl)⟩

theorem goodEnds_append (a m b : Str) (ha : GoodEnds a) (hb : GoodEnds b) : GoodEnds (a ++ m ++ b) := by
  obtain ⟨⟨c, hc, hcw⟩, _⟩ := ha
  obtain ⟨_, ⟨d, hd, hdw⟩⟩ := hb
  constructor
  · refine ⟨c, ?_, hcw⟩
    cases a with
    | nil => simp at hc
    | cons x xs => simpa using hc
  · refine ⟨d, ?_, hdw⟩
    cases hb' : b with
    | nil => rw [hb'] at hd; simp at hd
    | cons x xs =>
      rw [hb'] at hd
      simp [List.getLast?_append] at *
      simp [hd]

theorem goodEnds_join (sep : Str) (toks : List Str) (hne : toks ≠ []) (h : ∀ t ∈ toks, GoodEnds t) :
    GoodEnds (join sep toks) := by
  induction toks with
  | nil => exact absurd rfl hne
  | cons a r ih =>
    cases r with
    | nil => simpa [join] using h a (by simp)
    | cons b r' =>
      simp only [join]
      exact goodEnds_append _ _ _ (h a (by simp)) (ih (by simp) (fun t ht => h t (by simp [ht])))

theorem goodEnds_render (rd : Char) (hr : isWs rd = false) (r : Nat × Nat) : GoodEnds (renderRangeD rd r) := by
  apply goodEnds_of_all
  · unfold renderRangeD; split
    · exact toDigits_ne_nil _
    · simp
  · exact renderRangeD_chars rd hr r

theorem spaceTail_no_delim (d rd : Char) (ok : DelimOK d rd) (rs : List (Nat × Nat)) :
    ∀ t ∈ spaceTail (rs.map (renderRangeD rd)), d ∉ t := by
  have hds : d ≠ ' ' := by
    intro e; have := ok.d_nws; rw [e] at this; exact absurd this (by decide)
  intro t ht
  cases rs with
  | nil => simp [spaceTail] at ht
  | cons r rs' =>
    simp only [List.map_cons, spaceTail, List.mem_cons, List.mem_map] at ht
    rcases ht with rfl | ⟨t', ⟨r', -, rfl⟩, rfl⟩
    · exact renderRangeD_no rd d ok.d_nd ok.ne r
    · have := renderRangeD_no rd d ok.d_nd ok.ne r'
      simp [this, hds]

theorem parse_render_spaceD (d rd : Char) (ok : DelimOK d rd) (rs : List (Nat × Nat)) (h : ∀ r ∈ rs, r.1 ≤ r.2) :
    parseIntList (join [d, ' '] (rs.map (renderRangeD rd))) d rd = some (isort (expand rs)) := by
  have hrs : rd ≠ ' ' := by
    intro e; have := ok.r_nws; rw [e] at this; exact absurd this (by decide)
  unfold parseIntList
  cases rs with
  | nil => simp [join, strip, splitOn, mapM?, parseTok, expand, isort]
  | cons r rs' =>
    rw [strip_goodEnds _ (goodEnds_join _ _ (by simp) (by
      intro t ht; simp only [List.mem_map] at ht; obtain ⟨r, -, rfl⟩ := ht; exact goodEnds_render rd ok.r_nws r))]
    rw [join_space, splitOn_join d _ (by simp [spaceTail]) (spaceTail_no_delim d rd ok _),
      mapM?_spaceTail rd ok.r_nd hrs _ h]
    rfl

theorem format_eq_spaceD (d rd : Char) (l : List Nat) :
    formatIntList l true d rd = join [d, ' '] ((runs (isort l)).map (renderRangeD rd)) := by
  simp [formatIntList, fmtTokens_eq]

theorem parse_format_spaceD (d rd : Char) (ok : DelimOK d rd) (l : List Nat) :
    parseIntList (formatIntList l true d rd) d rd = some (expand (runs (isort l))) := by
  have hc := (runs_isort_spec l).1
  rw [format_eq_spaceD, parse_render_spaceD d rd ok _ hc.1, isort_id _ (lt_imp_le_pairwise (expand_sorted _ hc))]

theorem parse_format_space (l : List Nat) :
    parseIntList (formatIntList l true) = some (expand (runs (isort l))) :=
  parse_format_spaceD ',' '-' delimOK_default l

end C14
