import BoltonsVerif.C14.Driver
def main : IO Unit := BV.mainLoop C14.Driver.handle
