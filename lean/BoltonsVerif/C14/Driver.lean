import BoltonsVerif.Common
import BoltonsVerif.C14.Model
/-
C14 line protocol.  One line = one case.  Strings travel as hex of their UTF-8
encoding (`-` = empty string); a list of strings is printed `[h,h,...]`.

  sh   <hex>*                  args2sh(args)       -> `T<text> S<shSplit text>`
  cmd  <hex>*                  args2cmd(args)      -> `T<text> D<..> L<..> M<..>`  (crtSplit, 3 variants)
  esa  <hexstyle> <hex>*       escape_shell_args(args, style) (`-` = None)  -> `T<text>` | `ValueError`
  shlex <hex>                  shSplit(text)       -> `S<list>` | `Snone`
  crt  <hex>                   crtSplit(text)      -> `D<..> L<..> M<..>`
  fmt  <0|1> <n,n,..|->        format_int_list(L, delim_space) -> `T<text> P<parse text> R<int_ranges text>`
  parse <hex>                  parse_int_list(text) / int_ranges_from_int_list(text) -> `P<..> R<..>`
  compl <hex> <a> <e|N>        complement_int_list(text, a, e) -> `T<text>` | `ValueError`
  esaw <hexstyle> <hex>*       the same with sys.platform == 'win32'
  fmtd <0|1> <hexd> <hexrd> <n,n,..|->      format_int_list(L, d, rd, delim_space) -> as `fmt`, everything read with d / rd
  parsed <hexd> <hexrd> <hex>               parse_int_list / int_ranges_from_int_list with delimiters d / rd
  compld <hexd> <hexrd> <hex> <a> <e|N>     complement_int_list(text, a, e, d, rd)
                               (d, rd: one-character strings, else `bad-op`)
  fmts / parses / compls       as fmtd / parsed / compld with NON-EMPTY STRING delimiters (formatIntListS, parseIntListS,
                               complementIntListS, intRangesS); an empty delimiter -> `bad-op`
  table                        the generated safe-character ranges, printed back
  tables2                      the other generated facts (splice, its pieces, quote-forcing class, default delimiters), printed back
  -- acceptance of the text the IMPLEMENTATION produced (round 3; the correspondence proper):
  shv  <hextext> <hex>*        shAccepts(text, args)   -> `T<text> S<shSplit text> ok|REJECTED`
  cmdv <hextext> <hex>*        crtAccepts(text, args)  -> `T<text> D<..> L<..> M<..> ok|REJECTED`
  esav <0|1> <hexstyle> <hextext> <hex>*   the reader chosen by styleOf(style, win32) applied as above | `ValueError`
-/
namespace C14.Driver
open BV C14

def toStr (s : String) : Str := s.toList
def hexOf (s : Str) : String := stringToHex (String.ofList s)

def showList (l : List Str) : String := "[" ++ ",".intercalate (l.map hexOf) ++ "]"

def showOptList : Option (List Str) → String
  | none => "none"
  | some l => showList l

def showOptNats : Option (List Nat) → String
  | none => "ValueError"
  | some l => showNats l

def showOptRanges : Option (List (Nat × Nat)) → String
  | none => "ValueError"
  | some l => if l.isEmpty then "-" else ",".intercalate (l.map fun p => s!"{p.1}:{p.2}")

def args? (toks : List String) : Option (List Str) :=
  toks.foldr (fun t acc => match acc, hexToString? t with
    | some l, some s => some (toStr s :: l)
    | _, _ => none) (some [])

def char? (h : String) : Option Char :=
  match hexToString? h with
  | some s => match s.toList with
    | [c] => some c
    | _ => none
  | none => none

/-- a non-empty string -/
def str1? (h : String) : Option Str :=
  match hexToString? h with
  | some s => if s.toList.isEmpty then none else some s.toList
  | none => none

def esa (w : Bool) (st : String) (toks : List String) : String :=
  match hexToString? st, args? toks with
  | some st, some args =>
    match escapeShellArgs (toStr st) args w with
    | some t => s!"T{hexOf t}"
    | none => "ValueError"
  | _, _ => "bad-op"

def crtAll (t : Str) : String :=
  s!"D{showList (crtSplit .documented t)} L{showList (crtSplit .legacy t)} M{showList (crtSplit .modern t)}"

def verdict (b : Bool) : String := if b then "ok" else "REJECTED"

def shv (t : Str) (args : List Str) : String :=
  s!"T{hexOf t} S{showOptList (shSplit t)} {verdict (shAccepts t args)}"

def cmdv (t : Str) (args : List Str) : String :=
  s!"T{hexOf t} {crtAll t} {verdict (crtAccepts t args)}"

def handle (line : String) : String :=
  match words line with
  | "shv" :: ht :: toks =>
    match hexToString? ht, args? toks with
    | some t, some args => shv (toStr t) args
    | _, _ => "bad-op"
  | "cmdv" :: ht :: toks =>
    match hexToString? ht, args? toks with
    | some t, some args => cmdv (toStr t) args
    | _, _ => "bad-op"
  | "esav" :: w :: st :: ht :: toks =>
    match hexToString? st, hexToString? ht, args? toks with
    | some st, some t, some args =>
      if w = "0" ∨ w = "1" then
        match styleOf (toStr st) (w = "1") with
        | some .sh => shv (toStr t) args
        | some .cmd => cmdv (toStr t) args
        | none => "ValueError"
      else "bad-op"
    | _, _, _ => "bad-op"
  | "sh" :: toks =>
    match args? toks with
    | some args => let t := args2sh args; s!"T{hexOf t} S{showOptList (shSplit t)}"
    | none => "bad-op"
  | "cmd" :: toks =>
    match args? toks with
    | some args => let t := args2cmd args; s!"T{hexOf t} {crtAll t}"
    | none => "bad-op"
  | "esa" :: st :: toks => esa false st toks
  | "esaw" :: st :: toks => esa true st toks
  | ["fmts", sp, hd, hr, l] =>
    match natList? l, str1? hd, str1? hr with
    | some l, some d, some rd =>
      if sp = "0" ∨ sp = "1" then
        let t := formatIntListS l (sp = "1") d rd
        s!"T{hexOf t} P{showOptNats (parseIntListS t d rd)} R{showOptRanges (intRangesS t d rd)}"
      else "bad-op"
    | _, _, _ => "bad-op"
  | ["parses", hd, hr, h] =>
    match str1? hd, str1? hr, hexToString? h with
    | some d, some rd, some s =>
      s!"P{showOptNats (parseIntListS (toStr s) d rd)} R{showOptRanges (intRangesS (toStr s) d rd)}"
    | _, _, _ => "bad-op"
  | ["compls", hd, hr, h, a, e] =>
    match str1? hd, str1? hr, hexToString? h, a.toInt?, (if e = "N" then some none else e.toInt?.map some) with
    | some d, some rd, some s, some a, some e =>
      match complementIntListS (toStr s) a e d rd with
      | some t => s!"T{hexOf t}"
      | none => "ValueError"
    | _, _, _, _, _ => "bad-op"
  | ["fmtd", sp, hd, hr, l] =>
    match natList? l, char? hd, char? hr with
    | some l, some d, some rd =>
      if sp = "0" ∨ sp = "1" then
        let t := formatIntList l (sp = "1") d rd
        s!"T{hexOf t} P{showOptNats (parseIntList t d rd)} R{showOptRanges (intRanges t d rd)}"
      else "bad-op"
    | _, _, _ => "bad-op"
  | ["parsed", hd, hr, h] =>
    match char? hd, char? hr, hexToString? h with
    | some d, some rd, some s =>
      s!"P{showOptNats (parseIntList (toStr s) d rd)} R{showOptRanges (intRanges (toStr s) d rd)}"
    | _, _, _ => "bad-op"
  | ["compld", hd, hr, h, a, e] =>
    match char? hd, char? hr, hexToString? h, a.toInt?, (if e = "N" then some none else e.toInt?.map some) with
    | some d, some rd, some s, some a, some e =>
      match complementIntList (toStr s) a e d rd with
      | some t => s!"T{hexOf t}"
      | none => "ValueError"
    | _, _, _, _, _ => "bad-op"
  | ["shlex", h] =>
    match hexToString? h with
    | some s => s!"S{showOptList (shSplit (toStr s))}"
    | none => "bad-op"
  | ["crt", h] =>
    match hexToString? h with
    | some s => crtAll (toStr s)
    | none => "bad-op"
  | ["fmt", sp, l] =>
    match natList? l with
    | some l =>
      if sp = "0" ∨ sp = "1" then
        let t := formatIntList l (sp = "1") defaultDelim defaultRangeDelim
        s!"T{hexOf t} P{showOptNats (parseIntList t defaultDelim defaultRangeDelim)} R{showOptRanges (intRanges t defaultDelim defaultRangeDelim)}"
      else "bad-op"
    | none => "bad-op"
  | ["parse", h] =>
    match hexToString? h with
    | some s => s!"P{showOptNats (parseIntList (toStr s) defaultDelim defaultRangeDelim)} R{showOptRanges (intRanges (toStr s) defaultDelim defaultRangeDelim)}"
    | none => "bad-op"
  | ["compl", h, a, e] =>
    match hexToString? h, a.toInt?, (if e = "N" then some none else e.toInt?.map some) with
    | some s, some a, some e =>
      match complementIntList (toStr s) a e defaultDelim defaultRangeDelim with
      | some t => s!"T{hexOf t}"
      | none => "ValueError"
    | _, _, _ => "bad-op"
  | ["table"] => ",".intercalate (Gen.shSafeRanges.map fun p => s!"{p.1}:{p.2}")
  | ["tables2"] =>
    let rs := ",".intercalate (Gen.cmdQuoteRanges.map fun p => s!"{p.1}:{p.2}")
    s!"splice={hexOf sqSplice} pieces={",".intercalate (splicePieces.map fun p => hexOf p.render)} cmdquote={rs} delim={hexOf [defaultDelim]} rdelim={hexOf [defaultRangeDelim]}"
  | _ => "bad-op"

end C14.Driver
