/-
C20 — model of `boltons.cacheutils.ThresholdCounter` (Lossy Counting).

Transliteration of the Python class:
  * `_count_map` (an insertion-ordered dict `key -> [count, delta]`) is an
    association list `cm` with unique keys, in dict order;
  * `add`  = `TC.add`   (increment-or-insert, then compaction every `w` additions);
  * `update(iterable=None, **kwargs)` with an iterable of keys / a mapping
    `key -> count` / keyword counts - and a positional argument TOGETHER with
    keyword counts (`if kwargs: self.update(kwargs)` runs after the positional
    part, so the two contributions add up) - all reduce to repeated `add`
    (`Op.flatten`); `update(other_counter)` is `TC.absorb` (the other counter's
    `items()` taken as the mapping);
  * readers are the functions at the end.
`w` is `_thresh_count = int(1 / threshold)`; the constructor rejects thresholds
outside (0, 1), so `w ≥ 1` for every constructed counter.
Core Lean only.
-/
namespace C20

structure Entry (K : Type) where
  key : K
  cnt : Nat
  dlt : Nat
deriving Repr, DecidableEq

structure TC (K : Type) where
  total  : Nat
  w      : Nat
  bucket : Nat
  cm     : List (Entry K)
deriving Repr, DecidableEq

variable {K : Type} [DecidableEq K]

/-- `self._count_map[key][0] += 1`, `none` standing for the KeyError -/
def bump (k : K) : List (Entry K) → Option (List (Entry K))
  | [] => none
  | e :: es => if e.key = k then some ({ e with cnt := e.cnt + 1 } :: es)
               else (bump k es).map (e :: ·)

def TC.init (w : Nat) : TC K := ⟨0, w, 1, []⟩

/-- `ThresholdCounter(threshold)` for an exactly represented threshold `p/q` (a `Fraction`, a `Decimal`):
    the guard `0 < threshold < 1` (`none` = ValueError) and `_thresh_count = int(1 / threshold)`, which for
    exact rationals is `⌊q/p⌋`.  (For a `float` threshold the division is a rounded float division; the
    harness computes `w` for those.) -/
def TC.ofThreshold (p q : Nat) : Option (TC K) :=
  if 0 < p ∧ p < q then some (TC.init (q / p)) else none

/-- increment-or-insert: the `try: … += 1 / except KeyError: … = [1, bucket - 1]` statement -/
def upsert (k : K) (b : Nat) (cm : List (Entry K)) : List (Entry K) :=
  match bump k cm with
  | some cm' => cm'
  | none => cm ++ [⟨k, 1, b - 1⟩]

def TC.add (s : TC K) (k : K) : TC K :=
  if (s.total + 1) % s.w = 0 then
    ⟨s.total + 1, s.w, s.bucket + 1,
     (upsert k s.bucket s.cm).filter (fun e => e.cnt + e.dlt > s.bucket)⟩
  else ⟨s.total + 1, s.w, s.bucket, upsert k s.bucket s.cm⟩

def TC.addAll (s : TC K) (ks : List K) : TC K := ks.foldl TC.add s

/-- public mutators -/
inductive Op (K : Type) where
  | add (k : K)
  | updateKeys (ks : List K)             -- update(iterable of keys)
  | updateMap (kcs : List (K × Nat))     -- update(mapping) / update(**kwargs)
  | updateKeysKw (ks : List K) (kws : List (K × Nat))          -- update(iterable, **kwargs)
  | updateMapKw (kcs : List (K × Nat)) (kws : List (K × Nat))  -- update(mapping, **kwargs)
deriving Repr

/-- `for key, count in mapping.items(): for i in range(count): self.add(key)` as a list of additions -/
def expand (kcs : List (K × Nat)) : List K := kcs.flatMap fun kc => List.replicate kc.2 kc.1

/-- the additions an operation performs, in order (keyword counts after the positional argument) -/
def Op.flatten : Op K → List K
  | .add k => [k]
  | .updateKeys ks => ks
  | .updateMap kcs => expand kcs
  | .updateKeysKw ks kws => ks ++ expand kws
  | .updateMapKw kcs kws => expand kcs ++ expand kws

/-- what the statement calls the number of additions of `k` a mapping asks for: the sum of the counts
    given for `k` (specification side; no reference to `add`) -/
def wsum (k : K) (kcs : List (K × Nat)) : Nat := (kcs.map fun kc => if kc.1 = k then kc.2 else 0).sum

/-- additions of `k` demanded by one public operation (specification side) -/
def Op.weight (k : K) : Op K → Nat
  | .add k' => if k' = k then 1 else 0
  | .updateKeys ks => ks.count k
  | .updateMap kcs => wsum k kcs
  | .updateKeysKw ks kws => ks.count k + wsum k kws
  | .updateMapKw kcs kws => wsum k kcs + wsum k kws

def TC.step (s : TC K) (op : Op K) : TC K := s.addAll op.flatten

def TC.run (w : Nat) (ops : List (Op K)) : TC K := ops.foldl TC.step (TC.init w)

def stream (ops : List (Op K)) : List K := ops.flatMap Op.flatten

/-! readers -/

def lookup (k : K) : List (Entry K) → Option (Entry K)
  | [] => none
  | e :: es => if e.key = k then some e else lookup k es

def TC.get (s : TC K) (k : K) : Nat := match lookup k s.cm with
  | some e => e.cnt
  | none => 0

def TC.contains (s : TC K) (k : K) : Bool := (lookup k s.cm).isSome
def TC.len (s : TC K) : Nat := s.cm.length
def TC.keys (s : TC K) : List K := s.cm.map (·.key)
def TC.values (s : TC K) : List Nat := s.cm.map (·.cnt)
def TC.items (s : TC K) : List (K × Nat) := s.cm.map fun e => (e.key, e.cnt)
def TC.elements (s : TC K) : List K := s.cm.flatMap fun e => List.replicate e.cnt e.key
def TC.commonCount (s : TC K) : Nat := (s.cm.map (·.cnt)).sum
def TC.uncommonCount (s : TC K) : Nat := s.total - s.commonCount

/-- `get_commonality()`: `float(common) / total` as the exact ratio (numerator, denominator);
    `none` = the division by zero on a counter nothing was added to (behaviour outside the statement) -/
def TC.commonality (s : TC K) : Option (Nat × Nat) :=
  if s.total = 0 then none else some (s.commonCount, s.total)

/-- ghost: the counts the compaction inside `add k` throws away (0 when `add k` does not compact);
    never computed by the code - `get_uncommon_count()` is documented as their sum -/
def TC.culledBy (s : TC K) (k : K) : Nat :=
  if (s.total + 1) % s.w = 0 then
    (((upsert k s.bucket s.cm).filter (fun e => !(decide (e.cnt + e.dlt > s.bucket)))).map (·.cnt)).sum
  else 0

/-- ghost: everything culled while the additions `ks` are applied to `s` -/
def culled (s : TC K) : List K → Nat
  | [] => 0
  | k :: ks => s.culledBy k + culled (s.add k) ks

/-! ### calls that raise part-way

A caller may hand `add` / `update` something the counter cannot take: an unhashable key (`add([])`,
`update(['a', [], 'b'])`), a key whose `__hash__` raises, a mapping entry whose count is not an integer
(`range(count)` raises), or an iterable / `items()` that itself raises half-way.  The call then raises, and
what the statement calls "the additions" of that call are the ones performed BEFORE the exception.  An
argument is written as a list of `Option K`: `some k` = an addition of `k` the call asks for, `none` = the
point where the call raises.  (`add` stores the key before it counts it - fix `ba7c963` -, so the rejected
element itself leaves no trace.) -/

/-- the additions a call gets through: everything before the first element it cannot take -/
def goodPrefix : List (Option K) → List K
  | [] => []
  | none :: _ => []
  | some k :: xs => k :: goodPrefix xs

/-- does the call raise? -/
def hasBad : List (Option K) → Bool
  | [] => false
  | none :: _ => true
  | some _ :: xs => hasBad xs

/-- a mapping / keyword argument as a list of additions; `none` = an entry that makes the call raise
    (non-integer count, unhashable key with a positive count, `items()` raising at this point) -/
def expandX (ps : List (Option (K × Nat))) : List (Option K) :=
  ps.flatMap fun
    | none => [none]
    | some kc => List.replicate kc.2 (some kc.1)

/-- one `add` / `update` call as the caller experiences it: the new state and whether it raised -/
def TC.attempt (s : TC K) (xs : List (Option K)) : TC K × Bool := (s.addAll (goodPrefix xs), hasBad xs)

/-- a public call: one that returns (`ok`), or one that may raise part-way (`partly`) -/
inductive Call (K : Type) where
  | ok (op : Op K)
  | partly (xs : List (Option K))

/-- what a call amounts to for the statement: the operation made of the additions that took effect -/
def Call.effective : Call K → Op K
  | .ok op => op
  | .partly xs => .updateKeys (goodPrefix xs)

def TC.call (s : TC K) : Call K → TC K
  | .ok op => s.step op
  | .partly xs => (s.attempt xs).1

def TC.runCalls (w : Nat) (calls : List (Call K)) : TC K := calls.foldl TC.call (TC.init w)

/-- the behaviour BEFORE fix `ba7c963`: `add(unhashable)` bumped `total` and then raised (no compaction
    check, no dict change) - kept only to state what was wrong with it (`rejected_key_counted_breaks_statement`) -/
def TC.bumpOnly (s : TC K) : TC K := { s with total := s.total + 1 }

/-- `self.update(other)` with another ThresholdCounter: `other.items()` is the mapping
    (`other` may be `self`: `items()` returns a list, i.e. a snapshot) -/
def TC.absorb (s src : TC K) : TC K := s.step (.updateMap src.items)

/-- stable insertion into a list sorted by descending count (Python's
    `sorted(..., key=count, reverse=True)` is stable: equal counts keep dict order) -/
def insDesc (x : K × Nat) : List (K × Nat) → List (K × Nat)
  | [] => [x]
  | y :: ys => if y.2 ≤ x.2 then x :: y :: ys else y :: insDesc x ys

def sortDesc (l : List (K × Nat)) : List (K × Nat) := l.foldr insDesc []

/-- `most_common(n)`; `none` = argument omitted -/
def TC.mostCommon (s : TC K) (n : Option Int) : List (K × Nat) :=
  match n with
  | none => sortDesc s.items
  | some n => if n ≤ 0 then [] else (sortDesc s.items).take n.toNat

/-! canonical printing of `most_common` results (keys are numbers in the driver).  The statement asks for
    "sorted by descending count" only: the order among equal counts is free, and so is the choice among
    equal counts at the cut of `most_common(n)`.  Both sides of the correspondence print a result through
    `canon` / `canonTop`, so that exactly the free part is not compared. -/

/-- count descending, then key ascending -/
def canonLe (a b : Nat × Nat) : Bool := b.2 < a.2 || (a.2 == b.2 && a.1 ≤ b.1)

def insCanon (x : Nat × Nat) : List (Nat × Nat) → List (Nat × Nat)
  | [] => [x]
  | y :: ys => if canonLe x y then x :: y :: ys else y :: insCanon x ys

def canon (l : List (Nat × Nat)) : List (Nat × Nat) := l.foldr insCanon []

/-- a `most_common(n)` result: counts in descending order; the keys of the entries with the smallest
    returned count are not named (`none`): which of several equally frequent keys make the cut is free -/
def canonTop (r : List (Nat × Nat)) : List (Option Nat × Nat) :=
  match (canon r).getLast? with
  | none => []
  | some last => (canon r).map fun p => if last.2 < p.2 then (some p.1, p.2) else (none, p.2)

end C20
