import BoltonsVerif.C20.Proofs
/-
C20 helper lemmas for the space bound that DOES hold for Lossy Counting:
    tracked keys ≤ w · (log2(total / w + 1) + 1)          (w = floor(1/threshold))

Idea (Manku & Motwani, Thm 4.2, in a dyadic form that stays inside `Nat`):
  * the *age* of an entry is `bucket - dlt` (1 = entered in the current bucket);
  * an entry that survived the compactions since it entered has `cnt ≥ age`            (`Inv2.ent`);
  * the counts of the entries of age < t were all added during the last t-1 buckets
    (the current, partial one included), so they sum to less than (t-1)·w               (`Inv2.win`);
  * hence, by induction over m with the slack kept in the statement (`dyadic`),
    the number of entries of age < 2^(m+1) is at most (m+1)·w.
-/
namespace C20
variable {K : Type} [DecidableEq K]

/-- sum of the counts of the entries that entered in bucket `d+1` or later -/
def sumFrom (d : Nat) : List (Entry K) → Nat
  | [] => 0
  | e :: es => (if d ≤ e.dlt then e.cnt else 0) + sumFrom d es

/-- number / count-sum of the entries of age `< t` (age = `B - dlt`, written without subtraction) -/
def cntBelow (B t : Nat) : List (Entry K) → Nat
  | [] => 0
  | e :: es => (if B < t + e.dlt then 1 else 0) + cntBelow B t es

def sumBelow (B t : Nat) : List (Entry K) → Nat
  | [] => 0
  | e :: es => (if B < t + e.dlt then e.cnt else 0) + sumBelow B t es

theorem sumBelow_eq_sumFrom (B t : Nat) (cm : List (Entry K)) :
    sumBelow B t cm = sumFrom (B + 1 - t) cm := by
  induction cm with
  | nil => rfl
  | cons e es ih =>
    simp only [sumBelow, sumFrom, ih]
    by_cases h : B < t + e.dlt
    · have : B + 1 - t ≤ e.dlt := by omega
      simp [h, this]
    · have : ¬ (B + 1 - t ≤ e.dlt) := by omega
      simp [h, this]

theorem sumFrom_append (d : Nat) (xs ys : List (Entry K)) :
    sumFrom d (xs ++ ys) = sumFrom d xs + sumFrom d ys := by
  induction xs with
  | nil => simp [sumFrom]
  | cons a as ih => simp only [List.cons_append, sumFrom, ih]; omega

theorem sumFrom_bump (d : Nat) (k : K) (cm cm' : List (Entry K)) (h : bump k cm = some cm') :
    sumFrom d cm' ≤ sumFrom d cm + 1 := by
  induction cm generalizing cm' with
  | nil => simp [bump] at h
  | cons e es ih =>
    simp only [bump] at h
    split at h
    · cases h
      simp only [sumFrom]
      split <;> omega
    · cases hb : bump k es with
      | none => simp [hb] at h
      | some c =>
        simp [hb] at h; subst h
        have := ih c hb
        simp only [sumFrom]; omega

theorem sumFrom_upsert (d : Nat) (k : K) (b : Nat) (cm : List (Entry K)) :
    sumFrom d (upsert k b cm) ≤ sumFrom d cm + 1 := by
  unfold upsert
  cases hb : bump k cm with
  | some cm' => exact sumFrom_bump d k cm cm' hb
  | none =>
    simp only [sumFrom_append, sumFrom]
    split <;> omega

theorem sumFrom_filter_le (d : Nat) (p : Entry K → Bool) (cm : List (Entry K)) :
    sumFrom d (cm.filter p) ≤ sumFrom d cm := by
  induction cm with
  | nil => simp [sumFrom]
  | cons a as ih =>
    simp only [List.filter_cons]
    split
    · simp only [sumFrom]; omega
    · simp only [sumFrom]; omega

/-- no entry entered as late as bucket `d+1`: nothing to sum -/
theorem sumFrom_eq_zero (d : Nat) (cm : List (Entry K)) (h : ∀ e ∈ cm, e.dlt < d) :
    sumFrom d cm = 0 := by
  induction cm with
  | nil => rfl
  | cons a as ih =>
    have ha := h a (List.mem_cons_self ..)
    have := ih (fun e he => h e (List.mem_cons_of_mem _ he))
    have hn : ¬ d ≤ a.dlt := by omega
    simp [sumFrom, hn, this]

theorem forall_bump (P : Entry K → Prop) (k : K) (cm cm' : List (Entry K))
    (hP : ∀ e, P e → P { e with cnt := e.cnt + 1 }) (h : bump k cm = some cm')
    (hall : ∀ e ∈ cm, P e) : ∀ e ∈ cm', P e := by
  induction cm generalizing cm' with
  | nil => simp [bump] at h
  | cons a as ih =>
    simp only [bump] at h
    split at h
    · cases h
      intro e he
      rcases List.mem_cons.mp he with rfl | he
      · exact hP a (hall a (List.mem_cons_self ..))
      · exact hall e (List.mem_cons_of_mem _ he)
    · cases hb : bump k as with
      | none => simp [hb] at h
      | some c =>
        simp [hb] at h; subst h
        intro e he
        rcases List.mem_cons.mp he with rfl | he
        · exact hall _ (List.mem_cons_self ..)
        · exact ih c hb (fun e he => hall e (List.mem_cons_of_mem _ he)) e he

theorem forall_upsert (P : Entry K → Prop) (k : K) (b : Nat) (cm : List (Entry K))
    (hP : ∀ e, P e → P { e with cnt := e.cnt + 1 }) (hnew : P ⟨k, 1, b - 1⟩)
    (hall : ∀ e ∈ cm, P e) : ∀ e ∈ upsert k b cm, P e := by
  unfold upsert
  cases hb : bump k cm with
  | some cm' => exact forall_bump P k cm cm' hP hb hall
  | none =>
    intro e he
    rcases List.mem_append.mp he with he | he
    · exact hall e he
    · simp at he; subst he; exact hnew

/-- the second invariant: what the logarithmic space bound rests on -/
structure Inv2 (s : TC K) : Prop where
  wpos : 1 ≤ s.w
  bucket : s.bucket = s.total / s.w + 1
  /-- every entry has survived the compactions since it entered (`cnt ≥ age`) and entered no later
      than the current bucket -/
  ent : ∀ e ∈ s.cm, s.bucket ≤ e.cnt + e.dlt ∧ e.dlt + 1 ≤ s.bucket
  /-- the counts of the entries that entered after `d` completed buckets were added after the first
      `d * w` additions -/
  win : ∀ d, d < s.bucket → sumFrom d s.cm + d * s.w ≤ s.total

theorem inv2_init (w : Nat) (hw : 1 ≤ w) : Inv2 (TC.init w : TC K) := by
  refine ⟨hw, ?_, ?_, ?_⟩
  · simp [TC.init]
  · simp [TC.init]
  · intro d hd
    have : d = 0 := by simp [TC.init] at hd; omega
    subst this; simp [TC.init, sumFrom]

theorem inv2_add (s : TC K) (k : K) (h : Inv2 s) : Inv2 (s.add k) := by
  obtain ⟨hw, hb, hent, hwin⟩ := h
  have hb1 : 1 ≤ s.bucket := by rw [hb]; exact Nat.le_add_left 1 _
  have hent' : ∀ e ∈ upsert k s.bucket s.cm, s.bucket ≤ e.cnt + e.dlt ∧ e.dlt + 1 ≤ s.bucket := by
    apply forall_upsert (fun e => s.bucket ≤ e.cnt + e.dlt ∧ e.dlt + 1 ≤ s.bucket)
    · intro e he; simp only at he ⊢; omega
    · simp only; omega
    · exact hent
  have hwin' : ∀ d, d < s.bucket → sumFrom d (upsert k s.bucket s.cm) + d * s.w ≤ s.total + 1 := by
    intro d hd
    have h1 := sumFrom_upsert d k s.bucket s.cm
    have h2 := hwin d hd
    omega
  unfold TC.add
  by_cases hm : (s.total + 1) % s.w = 0
  · simp only [hm, if_true]
    refine ⟨hw, ?_, ?_, ?_⟩
    · show s.bucket + 1 = (s.total + 1) / s.w + 1
      rw [div_succ_of_mod hw hm, hb]
    · intro e he
      have hmem := List.mem_filter.mp he
      have h1 := hent' e hmem.1
      have h2 : e.cnt + e.dlt > s.bucket := by simpa using hmem.2
      show s.bucket + 1 ≤ e.cnt + e.dlt ∧ e.dlt + 1 ≤ s.bucket + 1
      omega
    · intro d hd
      show sumFrom d (List.filter _ (upsert k s.bucket s.cm)) + d * s.w ≤ s.total + 1
      have hf := sumFrom_filter_le d (fun e => decide (e.cnt + e.dlt > s.bucket)) (upsert k s.bucket s.cm)
      have hd' : d < s.bucket + 1 := hd
      by_cases hlt : d < s.bucket
      · have := hwin' d hlt; omega
      · have hde : d = s.bucket := by omega
        have hz : sumFrom d (upsert k s.bucket s.cm) = 0 := by
          apply sumFrom_eq_zero
          intro e he; have := hent' e he; omega
        -- bucket * w = total + 1 at a compaction point
        have hdiv : (s.total + 1) / s.w = s.bucket := by rw [div_succ_of_mod hw hm, hb]
        have hmul : s.w * ((s.total + 1) / s.w) = s.total + 1 :=
          Nat.mul_div_cancel' (Nat.dvd_of_mod_eq_zero hm)
        rw [hdiv, Nat.mul_comm] at hmul
        rw [hde] at hf hz ⊢
        rw [hmul]; omega
  · simp only [hm, if_false]
    refine ⟨hw, ?_, hent', hwin'⟩
    show s.bucket = (s.total + 1) / s.w + 1
    rw [div_succ_of_not_mod hw hm, hb]

theorem inv2_addAll (s : TC K) (ks : List K) (h : Inv2 s) : Inv2 (s.addAll ks) := by
  induction ks generalizing s with
  | nil => simpa [TC.addAll] using h
  | cons a as ih => simpa [TC.addAll] using ih (s.add a) (inv2_add s a h)

theorem inv2_reach (w : Nat) (hw : 1 ≤ w) (ks : List K) : Inv2 ((TC.init w : TC K).addAll ks) :=
  inv2_addAll _ ks (inv2_init w hw)

/-! the counting argument, for an arbitrary entry list with `cnt ≥ age ≥ 1` -/

/-- entries of age in `[t, t')` have `cnt ≥ t` each -/
theorem block_le (B t t' : Nat) (htt : t ≤ t') (cm : List (Entry K))
    (hent : ∀ e ∈ cm, B ≤ e.cnt + e.dlt) :
    t * cntBelow B t' cm + sumBelow B t cm ≤ t * cntBelow B t cm + sumBelow B t' cm := by
  induction cm with
  | nil => simp [cntBelow, sumBelow]
  | cons e es ih =>
    have he := hent e (List.mem_cons_self ..)
    have ih' := ih (fun x hx => hent x (List.mem_cons_of_mem _ hx))
    simp only [cntBelow, sumBelow, Nat.mul_add]
    by_cases h1 : B < t + e.dlt
    · have h2 : B < t' + e.dlt := by omega
      simp only [h1, h2, if_true, Nat.mul_one]; omega
    · by_cases h2 : B < t' + e.dlt
      · simp only [h1, h2, if_true, if_false, Nat.mul_one, Nat.mul_zero]; omega
      · simp only [h1, h2, if_false, Nat.mul_zero]; omega

theorem cntBelow_one (B : Nat) (cm : List (Entry K)) (hent : ∀ e ∈ cm, e.dlt + 1 ≤ B) :
    cntBelow B 1 cm = 0 ∧ sumBelow B 1 cm = 0 := by
  induction cm with
  | nil => simp [cntBelow, sumBelow]
  | cons e es ih =>
    have he := hent e (List.mem_cons_self ..)
    have ih' := ih (fun x hx => hent x (List.mem_cons_of_mem _ hx))
    have : ¬ B < 1 + e.dlt := by omega
    simp [cntBelow, sumBelow, this, ih']

theorem cntBelow_all (B t : Nat) (hB : B < t) (cm : List (Entry K)) : cntBelow B t cm = cm.length := by
  induction cm with
  | nil => rfl
  | cons e es ih =>
    have : B < t + e.dlt := by omega
    simp [cntBelow, this, ih]; omega

/-- the induction over dyadic age classes; `win t` is the window bound for the ages `< t` -/
theorem dyadic (B w : Nat) (cm : List (Entry K))
    (hent : ∀ e ∈ cm, B ≤ e.cnt + e.dlt ∧ e.dlt + 1 ≤ B)
    (hwin : ∀ t, 2 ≤ t → sumBelow B t cm + w ≤ t * w) (m : Nat) :
    2 ^ m * cntBelow B (2 ^ (m + 1)) cm + w * 2 ^ m
      ≤ sumBelow B (2 ^ (m + 1)) cm + w * (m * 2 ^ m + 1) := by
  induction m with
  | zero =>
    have h0 := cntBelow_one B cm (fun e he => (hent e he).2)
    have hb := block_le B 1 2 (by omega) cm (fun e he => (hent e he).1)
    simp only [Nat.pow_zero, Nat.zero_add, Nat.pow_one, Nat.one_mul, Nat.mul_one]
    rw [h0.1, h0.2] at hb
    omega
  | succ m ih =>
    have hpos : 1 ≤ 2 ^ m := Nat.one_le_two_pow
    have hb := block_le B (2 ^ (m + 1)) (2 ^ (m + 2)) (Nat.pow_le_pow_right (by omega) (by omega)) cm
      (fun e he => (hent e he).1)
    have hw := hwin (2 ^ (m + 1)) (by rw [Nat.pow_succ]; omega)
    -- everything in terms of P = 2^m and the products with it
    have e1 : (2 : Nat) ^ (m + 1) = 2 * 2 ^ m := by rw [Nat.pow_succ, Nat.mul_comm]
    have e2 : (2 : Nat) ^ (m + 1 + 1) = 2 * (2 * 2 ^ m) := by rw [Nat.pow_succ, e1, Nat.mul_comm]
    have e2' : (2 : Nat) ^ (m + 2) = 2 * (2 * 2 ^ m) := e2
    rw [e1] at ih hb hw
    rw [e2'] at hb
    rw [e1, e2]
    generalize (2 : Nat) ^ m = P at *
    generalize cntBelow B (2 * (2 * P)) cm = N1 at *
    generalize cntBelow B (2 * P) cm = N0 at *
    generalize sumBelow B (2 * (2 * P)) cm = T1 at *
    generalize sumBelow B (2 * P) cm = T0 at *
    -- ih : P * N0 + w * P ≤ T0 + w * (m * P + 1)
    -- hb : 2 * P * N1 + T0 ≤ 2 * P * N0 + T1
    -- hw : T0 + w ≤ 2 * P * w
    -- goal : 2 * P * N1 + w * (2 * P) ≤ T1 + w * ((m + 1) * (2 * P) + 1)
    have a1 : 2 * P * N1 = 2 * (P * N1) := Nat.mul_assoc ..
    have a2 : 2 * P * N0 = 2 * (P * N0) := Nat.mul_assoc ..
    have a3 : 2 * P * w = 2 * (w * P) := by rw [Nat.mul_assoc, Nat.mul_comm P w]
    have a4 : w * (2 * P) = 2 * (w * P) := by rw [Nat.mul_left_comm]
    have a5 : w * (m * P + 1) = w * (m * P) + w := by rw [Nat.mul_add, Nat.mul_one]
    have a6 : w * ((m + 1) * (2 * P) + 1) = 2 * (w * (m * P)) + 2 * (w * P) + w := by
      rw [Nat.mul_add, Nat.mul_one, Nat.add_mul, Nat.one_mul, Nat.mul_add, Nat.mul_left_comm m 2 P,
        Nat.mul_left_comm w 2 (m * P), Nat.mul_left_comm w 2 P]
    rw [a1, a2] at hb
    rw [a3] at hw
    rw [a5] at ih
    rw [a1, a4, a6]
    omega

/-- the number of entries is at most `w · (log2 B + 1)` -/
theorem length_le_log (B w : Nat) (cm : List (Entry K))
    (hent : ∀ e ∈ cm, B ≤ e.cnt + e.dlt ∧ e.dlt + 1 ≤ B)
    (hwin : ∀ t, 2 ≤ t → sumBelow B t cm + w ≤ t * w) :
    cm.length ≤ w * (B.log2 + 1) := by
  have hd := dyadic B w cm hent hwin B.log2
  have hlt : B < 2 ^ (B.log2 + 1) := Nat.lt_log2_self
  have hw := hwin (2 ^ (B.log2 + 1)) (by rw [Nat.pow_succ]; have := @Nat.one_le_two_pow B.log2; omega)
  rw [cntBelow_all B _ hlt] at hd
  have e1 : (2 : Nat) ^ (B.log2 + 1) = 2 * 2 ^ B.log2 := by rw [Nat.pow_succ, Nat.mul_comm]
  rw [e1] at hd hw
  generalize B.log2 = m at *
  have hpos : 0 < 2 ^ m := Nat.two_pow_pos m
  generalize (2 : Nat) ^ m = P at *
  generalize sumBelow B (2 * P) cm = T at *
  -- hd : P * len + w * P ≤ T + w * (m * P + 1);  hw : T + w ≤ 2 * P * w
  have a3 : 2 * P * w = 2 * (w * P) := by rw [Nat.mul_assoc, Nat.mul_comm P w]
  have a5 : w * (m * P + 1) = w * (m * P) + w := by rw [Nat.mul_add, Nat.mul_one]
  rw [a3] at hw
  rw [a5] at hd
  have h : P * cm.length ≤ P * (w * (m + 1)) := by
    have : P * (w * (m + 1)) = w * (m * P) + w * P := by
      rw [Nat.mul_add, Nat.mul_one, Nat.mul_add, Nat.mul_comm P (w * m), Nat.mul_assoc, Nat.mul_comm P w]
    rw [this]; omega
  exact Nat.le_of_mul_le_mul_left h hpos

/-- every state satisfying the second invariant tracks at most `w · (log2(total / w + 1) + 1)` keys -/
theorem len_le_log_of_inv2 (s : TC K) (h : Inv2 s) :
    s.cm.length ≤ s.w * ((s.total / s.w + 1).log2 + 1) := by
  obtain ⟨hw, hb, hent, hwin⟩ := h
  rw [← hb]
  apply length_le_log s.bucket s.w s.cm hent
  intro t ht
  rw [sumBelow_eq_sumFrom]
  have hb1 : 1 ≤ s.bucket := by rw [hb]; exact Nat.le_add_left 1 _
  have hd : s.bucket + 1 - t < s.bucket := by omega
  have h1 := hwin _ hd
  have h2 : s.total < s.bucket * s.w := by
    have : s.total / s.w < s.bucket := by omega
    exact (Nat.div_lt_iff_lt_mul (by omega)).mp this
  have h3 : s.bucket * s.w + s.w ≤ (s.bucket + 1 - t) * s.w + t * s.w := by
    rw [← Nat.add_mul, ← Nat.succ_mul]
    exact Nat.mul_le_mul_right _ (by omega)
  omega

/-! accounting of the culled counts -/

theorem sum_filter_split (p : Entry K → Bool) (cm : List (Entry K)) :
    ((cm.filter p).map (·.cnt)).sum + ((cm.filter (fun e => !(p e))).map (·.cnt)).sum
      = (cm.map (·.cnt)).sum := by
  induction cm with
  | nil => simp
  | cons a as ih =>
    simp only [List.filter_cons]
    cases hp : p a <;> simp [hp] <;> omega

theorem add_common (s : TC K) (k : K) :
    (s.add k).commonCount + s.culledBy k = s.commonCount + 1 := by
  have hs := sum_upsert k s.bucket s.cm
  unfold TC.add TC.culledBy TC.commonCount
  by_cases hm : (s.total + 1) % s.w = 0
  · simp only [hm, if_true]
    have := sum_filter_split (fun e => decide (e.cnt + e.dlt > s.bucket)) (upsert k s.bucket s.cm)
    omega
  · simp only [hm, if_false]; omega

theorem addAll_common (s : TC K) (ks : List K) :
    (s.addAll ks).commonCount + culled s ks = s.commonCount + ks.length := by
  induction ks generalizing s with
  | nil => simp [TC.addAll, culled]
  | cons a as ih =>
    have h1 := ih (s.add a)
    have h2 := add_common s a
    simp only [TC.addAll, List.foldl_cons, culled, List.length_cons] at h1 ⊢
    omega

/-! sums over a duplicate-free key universe `U` -/

theorem sum_map_ite (U : List K) (hU : U.Nodup) (a : K) (ha : a ∈ U) (c : Nat) (f : K → Nat)
    (hf : f a = 0) : (U.map (fun k => if k = a then c else f k)).sum = c + (U.map f).sum := by
  induction U with
  | nil => simp at ha
  | cons u us ih =>
    have hnd := List.nodup_cons.mp hU
    by_cases hua : u = a
    · subst hua
      have hrest : us.map (fun k => if k = u then c else f k) = us.map f := by
        apply List.map_congr_left
        intro k hk
        have : k ≠ u := fun h => hnd.1 (h ▸ hk)
        simp [this]
      simp only [List.map_cons, List.sum_cons, if_true, hrest, hf]; omega
    · have ha' : a ∈ us := by
        rcases List.mem_cons.mp ha with h | h
        · exact absurd h.symm hua
        · exact h
      have := ih hnd.2 ha'
      simp only [List.map_cons, List.sum_cons, hua, if_false, this]; omega

theorem sum_map_zero (U : List K) : (U.map (fun _ => 0)).sum = 0 := by
  induction U with
  | nil => rfl
  | cons u us ih => simp only [List.map_cons, List.sum_cons, ih]

theorem sum_map_add (U : List K) (f g : K → Nat) :
    (U.map (fun k => f k + g k)).sum = (U.map f).sum + (U.map g).sum := by
  induction U with
  | nil => simp
  | cons u us ih => simp only [List.map_cons, List.sum_cons, ih]; omega

theorem sum_map_sub (U : List K) (f g : K → Nat) (h : ∀ k, g k ≤ f k) :
    (U.map (fun k => f k - g k)).sum = (U.map f).sum - (U.map g).sum ∧ (U.map g).sum ≤ (U.map f).sum := by
  induction U with
  | nil => simp
  | cons u us ih =>
    have := h u
    simp only [List.map_cons, List.sum_cons, ih.1]; omega

/-- the true counts of all keys add up to the number of additions -/
theorem sum_count_eq_length (U : List K) (hU : U.Nodup) (ks : List K) (hks : ∀ k ∈ ks, k ∈ U) :
    (U.map (fun k => ks.count k)).sum = ks.length := by
  induction ks with
  | nil => simpa using sum_map_zero U
  | cons a as ih =>
    have ih' := ih (fun k hk => hks k (List.mem_cons_of_mem _ hk))
    have ha := hks a (List.mem_cons_self ..)
    have h1 := sum_map_ite U hU a ha 1 (fun _ => 0) rfl
    have hfun : (fun k => List.count k (a :: as)) = (fun k => as.count k + (if k = a then 1 else (fun _ => 0) k)) := by
      funext k
      rw [List.count_cons]
      by_cases h : k = a
      · subst h; simp
      · have : ¬ (a = k) := fun e => h e.symm
        simp [h, this]
    rw [hfun, sum_map_add, ih', h1, sum_map_zero]
    simp

theorem get_cons (e : Entry K) (es : List (Entry K)) (t w b : Nat) (k : K) :
    (⟨t, w, b, e :: es⟩ : TC K).get k = if k = e.key then e.cnt else (⟨t, w, b, es⟩ : TC K).get k := by
  unfold TC.get
  simp only [lookup]
  by_cases h : e.key = k
  · simp [h]
  · have : ¬ (k = e.key) := fun x => h x.symm
    simp [h, this]

/-- the reported counts of all keys add up to `get_common_count()` -/
theorem sum_get_eq_common (U : List K) (hU : U.Nodup) (t w b : Nat) (cm : List (Entry K))
    (hnd : (keysOf cm).Nodup) (hsub : ∀ k ∈ keysOf cm, k ∈ U) :
    (U.map (fun k => (⟨t, w, b, cm⟩ : TC K).get k)).sum = (cm.map (·.cnt)).sum := by
  induction cm with
  | nil => simpa [TC.get, lookup] using sum_map_zero U
  | cons e es ih =>
    simp only [keysOf, List.map_cons, List.nodup_cons] at hnd
    have ih' := ih hnd.2 (fun k hk => hsub k (by simp only [keysOf, List.map_cons]; exact List.mem_cons_of_mem _ hk))
    have he : e.key ∈ U := hsub e.key (by simp [keysOf])
    have h0 : (⟨t, w, b, es⟩ : TC K).get e.key = 0 := by
      unfold TC.get
      have : lookup e.key es = none := (lookup_none_iff e.key es).mpr hnd.1
      simp [this]
    have hfun : (fun k => (⟨t, w, b, e :: es⟩ : TC K).get k)
        = (fun k => if k = e.key then e.cnt else (⟨t, w, b, es⟩ : TC K).get k) := by
      funext k; exact get_cons e es t w b k
    rw [hfun, sum_map_ite U hU e.key he e.cnt _ h0, ih']
    simp

/-- `update(other counter)`: the additions asked for are the other counter's reported counts -/
theorem wsum_items (k : K) (cm : List (Entry K)) (hnd : (keysOf cm).Nodup) :
    wsum k (cm.map fun e => (e.key, e.cnt)) = match lookup k cm with
      | some e => e.cnt
      | none => 0 := by
  induction cm with
  | nil => simp [wsum, lookup]
  | cons e es ih =>
    simp only [keysOf, List.map_cons, List.nodup_cons] at hnd
    have ih' := ih hnd.2
    simp only [wsum, List.map_cons, List.sum_cons, lookup] at ih' ⊢
    by_cases h : e.key = k
    · have : lookup k es = none := by rw [lookup_none_iff, ← h]; exact hnd.1
      simp only [h, if_true, ih', this]; omega
    · simp only [h, if_false, ih']; omega

/-! canonical printing: `canon` depends on the multiset only -/

theorem insCanon_perm (x : Nat × Nat) (l : List (Nat × Nat)) : (insCanon x l).Perm (x :: l) := by
  induction l with
  | nil => simp [insCanon]
  | cons y ys ih =>
    simp only [insCanon]
    split
    · exact List.Perm.refl _
    · exact (List.Perm.cons y ih).trans (List.Perm.swap x y ys)

theorem canon_perm (l : List (Nat × Nat)) : (canon l).Perm l := by
  induction l with
  | nil => simp [canon]
  | cons x xs ih =>
    simp only [canon, List.foldr_cons] at ih ⊢
    exact (insCanon_perm x _).trans (List.Perm.cons x ih)

theorem canonLe_total (a b : Nat × Nat) : canonLe a b = true ∨ canonLe b a = true := by
  simp only [canonLe, Bool.or_eq_true, Bool.and_eq_true, decide_eq_true_eq, beq_iff_eq]; omega

theorem canonLe_trans (a b c : Nat × Nat) (h1 : canonLe a b = true) (h2 : canonLe b c = true) :
    canonLe a c = true := by
  simp only [canonLe, Bool.or_eq_true, Bool.and_eq_true, decide_eq_true_eq, beq_iff_eq] at *; omega

theorem canonLe_antisymm (a b : Nat × Nat) (h1 : canonLe a b = true) (h2 : canonLe b a = true) : a = b := by
  simp only [canonLe, Bool.or_eq_true, Bool.and_eq_true, decide_eq_true_eq, beq_iff_eq] at *
  apply Prod.ext <;> omega

theorem insCanon_sorted (x : Nat × Nat) (l : List (Nat × Nat))
    (h : l.Pairwise (fun a b => canonLe a b = true)) :
    (insCanon x l).Pairwise (fun a b => canonLe a b = true) := by
  induction l with
  | nil => simp [insCanon]
  | cons y ys ih =>
    simp only [List.pairwise_cons] at h
    simp only [insCanon]
    split
    · rename_i hle
      simp only [List.pairwise_cons]
      refine ⟨?_, h⟩
      intro b hb
      rcases List.mem_cons.mp hb with rfl | hb
      · exact hle
      · exact canonLe_trans _ _ _ hle (h.1 b hb)
    · rename_i hnle
      simp only [List.pairwise_cons]
      refine ⟨?_, ih h.2⟩
      intro b hb
      have := (insCanon_perm x ys).mem_iff.mp hb
      rcases List.mem_cons.mp this with rfl | hb'
      · rcases canonLe_total y b with h' | h'
        · exact h'
        · exact absurd h' hnle
      · exact h.1 b hb'

theorem canon_sorted (l : List (Nat × Nat)) : (canon l).Pairwise (fun a b => canonLe a b = true) := by
  induction l with
  | nil => simp [canon]
  | cons x xs ih =>
    simp only [canon, List.foldr_cons] at ih ⊢
    exact insCanon_sorted x _ ih

theorem canon_eq_of_perm (l₁ l₂ : List (Nat × Nat)) (h : l₁.Perm l₂) : canon l₁ = canon l₂ := by
  apply List.Perm.eq_of_pairwise (le := fun a b => canonLe a b = true)
  · intro a b _ _ h1 h2; exact canonLe_antisymm a b h1 h2
  · exact canon_sorted l₁
  · exact canon_sorted l₂
  · exact (canon_perm l₁).trans (h.trans (canon_perm l₂).symm)

end C20
