import BoltonsVerif.C20.Proofs
import BoltonsVerif.C20.SizeLog
/-
C20 — property theorems for the ThresholdCounter model (nothing but statements,
their short derivations from `Proofs.lean`, and non-vacuity examples).

`ks` is the stream of additions so far, in order; `ks.count k` is key `k`'s true
count.  Everything is stated for an arbitrary stream, hence for every prefix of
every history ("checked after every addition").  `w = floor(1/threshold) ≥ 1`.
-/
namespace C20
variable {K : Type} [DecidableEq K]

/-- the state reached from a fresh counter by the additions `ks` -/
abbrev reach (w : Nat) (ks : List K) : TC K := (TC.init w : TC K).addAll ks

/-- histories of public operations are streams of additions -/
theorem history_is_stream (w : Nat) (ops : List (Op K)) :
    TC.run w ops = reach w (stream ops) := run_eq_addAll w ops

/-- the true count of `k` in a history is the sum of what each public call asks for: 1 per `add(k)` /
    occurrence in an iterable, the given count per mapping entry and per keyword - a key given both in
    the positional mapping and as a keyword receives BOTH counts (`Op.weight`) -/
theorem true_count_of_history (ops : List (Op K)) (k : K) :
    (stream ops).count k = (ops.map (Op.weight k)).sum := stream_count ops k

/-- one `update(mapping, **kwargs)` call adds, for every key, the mapping's count plus the keyword's count -/
theorem update_mapping_and_keywords_add (kcs kws : List (K × Nat)) (k : K) :
    (Op.updateMapKw kcs kws).flatten.count k = wsum k kcs + wsum k kws := flatten_count _ k

/-- `update(other_counter)` raises `total` by the sum of the other counter's reported counts
    (also when `other` is the counter itself) -/
theorem absorb_total (s src : TC K) : (s.absorb src).total = s.total + src.commonCount := by
  unfold TC.absorb TC.step
  rw [addAll_total]
  simp only [Op.flatten, length_expand, TC.items, TC.commonCount, List.map_map]
  rfl

/-- `update(other counter)` continues the stream by additions in which every key occurs exactly as often
    as the other counter REPORTS it (so all theorems about `reach` apply to histories with such calls) -/
theorem absorb_is_stream (w : Nat) (hw : 1 ≤ w) (ks js : List K) :
    ∃ extra : List K, (reach w ks).absorb (reach w js) = reach w (ks ++ extra)
      ∧ ∀ k, extra.count k = (reach w js).get k := by
  refine ⟨expand (reach w js).items, ?_, ?_⟩
  · simp [TC.absorb, TC.step, Op.flatten, reach, addAll_append]
  · intro k
    rw [count_expand]
    exact wsum_items k _ (inv_reach w hw js).nodup

/-- the constructor on an exact threshold `p/q` in (0, 1): the bucket width is `⌊1/threshold⌋`
    (`w·p ≤ q < (w+1)·p`), at least 1 - the hypothesis `1 ≤ w` of every theorem below - and
    `2·w ≤ 2/threshold`; thresholds outside (0, 1) are rejected -/
theorem threshold_width (p q : Nat) :
    match (TC.ofThreshold p q : Option (TC K)) with
    | some s => 0 < p ∧ p < q ∧ s = TC.init (q / p) ∧ 1 ≤ s.w ∧ s.w * p ≤ q ∧ q < (s.w + 1) * p
    | none => p = 0 ∨ q ≤ p := by
  unfold TC.ofThreshold
  by_cases h : 0 < p ∧ p < q
  · rw [if_pos h]
    have h1 : 1 ≤ q / p := (Nat.le_div_iff_mul_le h.1).mpr (by omega)
    have h2 : q / p * p ≤ q := Nat.div_mul_le_self q p
    have h3 : q < (q / p + 1) * p := by
      have := Nat.lt_mul_div_succ q h.1
      rw [Nat.mul_comm]; exact this
    exact ⟨h.1, h.2, rfl, h1, h2, h3⟩
  · rw [if_neg h]
    show p = 0 ∨ q ≤ p
    omega

/-- `total` equals the number of additions -/
theorem total_eq_additions (w : Nat) (ks : List K) : (reach w ks).total = ks.length := by
  simp [reach, addAll_total, TC.init]

/-- no reported count exceeds the key's true count (absent keys report 0) -/
theorem count_le_true (w : Nat) (hw : 1 ≤ w) (ks : List K) (k : K) :
    (reach w ks).get k ≤ ks.count k := by
  have h := (inv_reach w hw ks).key k
  unfold TC.get
  cases hl : lookup k (reach w ks).cm with
  | none => simp
  | some e => simp only [reach, hl] at h ⊢; exact h.1

/-- a reported count falls short of the true count by at most `floor(total / w)` -/
theorem undercount_le (w : Nat) (hw : 1 ≤ w) (ks : List K) (k : K) :
    ks.count k - (reach w ks).get k ≤ (reach w ks).total / w := by
  have hi := inv_reach w hw ks
  have h := hi.key k
  have hb := hi.bucket
  have hww : (reach w ks).w = w := by simp [reach, addAll_w, TC.init]
  rw [hww] at hb
  unfold TC.get
  cases hl : lookup k (reach w ks).cm with
  | none => simp only [reach, hl] at h ⊢; omega
  | some e => simp only [reach, hl] at h ⊢; omega

/-- every key whose true count exceeds the slack is present -/
theorem heavy_keys_present (w : Nat) (hw : 1 ≤ w) (ks : List K) (k : K)
    (h : (reach w ks).total / w < ks.count k) : (reach w ks).contains k = true := by
  have hu := undercount_le w hw ks k
  unfold TC.contains
  unfold TC.get at hu
  cases hl : lookup k (reach w ks).cm with
  | none => simp only [hl] at hu; omega
  | some e => rfl

/-- `get_common_count() + get_uncommon_count() == total` -/
theorem common_plus_uncommon (w : Nat) (hw : 1 ≤ w) (ks : List K) :
    (reach w ks).commonCount + (reach w ks).uncommonCount = (reach w ks).total := by
  have h : ((reach w ks).cm.map (·.cnt)).sum ≤ (reach w ks).total := (inv_reach w hw ks).sum_le
  unfold TC.uncommonCount TC.commonCount
  omega

/-- `get_uncommon_count()` is exactly "the sum of counts for keys that were culled" (its docstring):
    the counts thrown away by all compactions so far (`culled`, a ghost the code never computes) -/
theorem uncommon_eq_culled (w : Nat) (ks : List K) :
    (reach w ks).uncommonCount = culled (TC.init w : TC K) ks := by
  have h := addAll_common (TC.init w : TC K) ks
  have ht := total_eq_additions w ks
  simp only [reach] at ht
  unfold TC.uncommonCount
  simp only [reach, ht]
  simp only [TC.commonCount, TC.init, List.map_nil, List.sum_nil, Nat.zero_add] at h ⊢
  omega

/-- … and, key by key, it is the sum of all under-counts: over any duplicate-free list `U` of keys that
    covers the stream, `get_uncommon_count() = Σ_{k ∈ U} (true count of k - reported count of k)` -/
theorem uncommon_eq_shortfalls (w : Nat) (hw : 1 ≤ w) (ks : List K) (U : List K) (hU : U.Nodup)
    (hks : ∀ k ∈ ks, k ∈ U) :
    (reach w ks).uncommonCount = (U.map fun k => ks.count k - (reach w ks).get k).sum := by
  have hi := inv_reach w hw ks
  have hsub : ∀ k ∈ keysOf (reach w ks).cm, k ∈ U := by
    intro k hk
    apply hks
    have h1 : lookup k (reach w ks).cm ≠ none := fun hn => (lookup_none_iff k _).mp hn hk
    have h2 := hi.key k
    cases hl : lookup k (reach w ks).cm with
    | none => exact absurd hl h1
    | some e =>
      simp only [reach, hl] at h2
      exact List.count_pos_iff.mp (by omega)
  have hg : (U.map fun k => (reach w ks).get k).sum = ((reach w ks).cm.map (·.cnt)).sum :=
    sum_get_eq_common U hU (reach w ks).total (reach w ks).w (reach w ks).bucket (reach w ks).cm
      hi.nodup hsub
  have hc := sum_count_eq_length U hU ks hks
  have hs := sum_map_sub U (fun k => ks.count k) (fun k => (reach w ks).get k) (count_le_true w hw ks)
  have ht := total_eq_additions w ks
  unfold TC.uncommonCount TC.commonCount
  rw [hs.1, hc, hg, ht]

/-- `get_commonality()` is defined exactly when something was added, and then is a ratio in [0, 1]
    whose complement is the uncommon share: `common / total` with `common ≤ total`,
    `total - common = get_uncommon_count()` -/
theorem commonality_spec (w : Nat) (hw : 1 ≤ w) (ks : List K) :
    match (reach w ks).commonality with
    | none => ks = []
    | some (c, t) => 0 < t ∧ c ≤ t ∧ t = ks.length ∧ c = (reach w ks).commonCount
        ∧ t - c = (reach w ks).uncommonCount := by
  have ht := total_eq_additions w ks
  have hc := common_plus_uncommon w hw ks
  unfold TC.commonality
  by_cases h0 : (reach w ks).total = 0
  · simp only [h0, if_true]
    rw [ht] at h0
    exact List.length_eq_zero_iff.mp h0
  · simp only [h0, if_false]
    and_intros <;> first | exact ht | rfl | trivial | omega

/-- no key is tracked twice -/
theorem keys_nodup (w : Nat) (hw : 1 ≤ w) (ks : List K) : (reach w ks).keys.Nodup :=
  (inv_reach w hw ks).nodup

/-- tracked keys have a positive count -/
theorem tracked_positive (w : Nat) (hw : 1 ≤ w) (ks : List K) (k : K)
    (h : (reach w ks).contains k = true) : 1 ≤ (reach w ks).get k := by
  have hk := (inv_reach w hw ks).key k
  unfold TC.contains at h
  unfold TC.get
  cases hl : lookup k (reach w ks).cm with
  | none => simp [hl] at h
  | some e => simp only [reach, hl] at hk ⊢; exact hk.2.2.2

/-! the views agree with the per-key counts (for every state, reachable or not) -/

theorem items_eq_zip (s : TC K) : s.items = s.keys.zip s.values := by
  unfold TC.items TC.keys TC.values
  induction s.cm with
  | nil => rfl
  | cons e es ih => simp [ih]

theorem len_eq_items_length (s : TC K) : s.len = s.items.length := by
  simp [TC.len, TC.items]

theorem get_eq_items_lookup (s : TC K) (k : K) :
    s.get k = ((s.items.find? (fun p => p.1 = k)).map (·.2)).getD 0 := by
  unfold TC.get TC.items
  induction s.cm with
  | nil => simp [lookup]
  | cons e es ih =>
    simp only [lookup, List.map_cons, List.find?_cons]
    by_cases h : e.key = k <;> simp [h, ih]

theorem elements_eq (s : TC K) :
    s.elements = s.items.flatMap (fun p => List.replicate p.2 p.1) := by
  simp [TC.elements, TC.items, List.flatMap_map]

/-- `most_common()` lists exactly the items … -/
theorem most_common_perm_items (s : TC K) : (s.mostCommon none).Perm s.items :=
  sortDesc_perm s.items

/-- … sorted by descending count -/
theorem most_common_sorted (s : TC K) (n : Option Int) :
    (s.mostCommon n).Pairwise (fun a b => b.2 ≤ a.2) := by
  unfold TC.mostCommon
  cases n with
  | none => exact sortDesc_sorted s.items
  | some n =>
    simp only
    split
    · exact List.Pairwise.nil
    · exact (sortDesc_sorted s.items).sublist (List.take_sublist _ _)

/-- what the correspondence compares of a `most_common()` result (`canon`: ties put in key order) does not
    depend on the order among equal counts: EVERY list with the pairs of `items()` prints like the model's
    answer - so an implementation is free in exactly what the statement leaves free -/
theorem most_common_canonical (s : TC Nat) (r : List (Nat × Nat)) (h : r.Perm s.items) :
    canon r = canon (s.mostCommon none) :=
  canon_eq_of_perm _ _ (h.trans (most_common_perm_items s).symm)

/-- … and the canonical form is itself a correct answer: the pairs of `items()` in descending count order -/
theorem canon_is_most_common (s : TC Nat) :
    (canon s.items).Perm s.items ∧ (canon s.items).Pairwise (fun a b => b.2 ≤ a.2) := by
  refine ⟨canon_perm _, (canon_sorted s.items).imp ?_⟩
  intro a b h
  simp only [canonLe, Bool.or_eq_true, Bool.and_eq_true, decide_eq_true_eq, beq_iff_eq] at h
  omega

/-- `most_common(n)` is the length-`n` prefix of `most_common()` -/
theorem most_common_take (s : TC K) (n : Int) (hn : 0 < n) :
    s.mostCommon (some n) = (s.mostCommon none).take n.toNat := by
  unfold TC.mostCommon
  have : ¬ n ≤ 0 := by omega
  simp [this]

/-! The size bound of the statement is FALSE for the algorithm the code implements
    (Lossy Counting keeps up to ≈ w·ln(total/w) keys).  Witness: threshold 1/24. -/

def sizeWitness : List Nat :=
  (List.range 6).flatMap (fun k => List.replicate 4 k) ++
  (List.range 8).flatMap (fun k => List.replicate 3 (6 + k)) ++
  (List.range 12).flatMap (fun k => List.replicate 2 (14 + k)) ++
  (List.range 23).map (fun k => 26 + k)

/-- tracked keys can exceed `2 / threshold` (here 49 > 2·24) -/
theorem size_bound_false : ∃ (w : Nat) (ks : List Nat), 1 ≤ w ∧ 2 * w < (reach w ks).len :=
  ⟨24, sizeWitness, by decide, by decide +kernel⟩

/-- the same in terms of the threshold `p/q = 1/24`: `len · p > 2 · q`, i.e. `len > 2/threshold` -/
theorem size_bound_false_threshold : ∃ (p q : Nat) (s : TC Nat) (ks : List Nat),
    TC.ofThreshold p q = some s ∧ 2 * q < (s.addAll ks).len * p :=
  ⟨1, 24, TC.init 24, sizeWitness, rfl, by decide +kernel⟩

/-- what does hold: never more tracked keys than additions, and the tracked
    counts never add up to more than the additions -/
theorem size_bound_partial (w : Nat) (hw : 1 ≤ w) (ks : List K) :
    (reach w ks).len ≤ ks.length ∧ (reach w ks).commonCount ≤ ks.length := by
  have hi := inv_reach w hw ks
  have ht := total_eq_additions w ks
  exact ⟨by simpa [TC.len, ht] using hi.len_le, by simpa [TC.commonCount, ht] using hi.sum_le⟩

/-- the space bound that DOES hold (Manku & Motwani's `(1/ε)·log(εN)`, here with `w = ⌊1/ε⌋ ≤ 1/ε` and the
    binary logarithm): after `N` additions at most `w · (⌊log2(⌊N/w⌋ + 1)⌋ + 1)` keys are tracked.
    Full clause of the statement ("never exceeds 2/threshold") is false: `size_bound_false`. -/
theorem size_bound_log (w : Nat) (hw : 1 ≤ w) (ks : List K) :
    (reach w ks).len ≤ w * ((ks.length / w + 1).log2 + 1) := by
  have h := len_le_log_of_inv2 _ (inv2_reach w hw ks)
  have hww : (reach w ks).w = w := by simp [reach, addAll_w, TC.init]
  have ht := total_eq_additions w ks
  simp only [reach] at hww ht
  rw [hww, ht] at h
  exact h

/-- … in particular the `2/threshold` clause does hold during the first three buckets
    (`N < 3·w` additions): it can only fail later -/
theorem size_bound_early (w : Nat) (hw : 1 ≤ w) (ks : List K) (hN : ks.length < 3 * w) :
    (reach w ks).len ≤ 2 * w := by
  have h := size_bound_log w hw ks
  have hq : ks.length / w < 3 := (Nat.div_lt_iff_lt_mul (by omega)).mpr hN
  have hl : (ks.length / w + 1).log2 ≤ 1 := by
    generalize ks.length / w = q at hq ⊢
    have h4 : q + 1 < 2 ^ 2 := by show q + 1 < 4; omega
    have := (Nat.log2_lt (by omega)).mpr h4
    omega
  calc (reach w ks).len ≤ w * ((ks.length / w + 1).log2 + 1) := h
    _ ≤ w * 2 := Nat.mul_le_mul_left _ (by omega)
    _ = 2 * w := Nat.mul_comm ..

/-! ### histories with calls that raise part-way (an unhashable key in the middle of an iterable, a
non-integer count, an `items()` that raises): the additions of such a call are the ones performed before the
exception, and the history is an ordinary history of those - so every theorem above applies to it -/

/-- a call that raises part-way is `update(the keys it got through)`: its additions are the ones performed
    before the exception, it raises iff the argument has an element the counter cannot take, and `total`
    grows by exactly the number of additions performed -/
theorem raising_call_is_prefix_update (s : TC K) (xs : List (Option K)) :
    (s.attempt xs).1 = s.step (.updateKeys (goodPrefix xs))
    ∧ ((s.attempt xs).2 = true ↔ none ∈ xs)
    ∧ (s.attempt xs).1.total = s.total + (goodPrefix xs).length := by
  refine ⟨rfl, ?_, by simp [TC.attempt, addAll_total]⟩
  induction xs with
  | nil => simp [TC.attempt, hasBad]
  | cons x xs ih =>
    cases x with
    | none => simp [TC.attempt, hasBad]
    | some k => simpa [TC.attempt, hasBad] using ih

/-- a rejected key leaves no trace: `add(unhashable)` (and an `update` whose FIRST element is rejected)
    raises with the counter - `total` included - exactly as it was -/
theorem rejected_add_leaves_no_trace (s : TC K) (xs : List (Option K)) :
    s.attempt (none :: xs) = (s, true) := by
  simp [TC.attempt, goodPrefix, hasBad, TC.addAll]

/-- a call without such an element is the ordinary `update(iterable)` and does not raise -/
theorem attempt_all_good (s : TC K) (ks : List K) :
    s.attempt (ks.map some) = (s.step (.updateKeys ks), false) := by
  have h1 : ∀ l : List K, goodPrefix (l.map some) = l := by
    intro l
    induction l with
    | nil => rfl
    | cons k l ih => simp [goodPrefix, ih]
  have h2 : ∀ l : List K, hasBad (l.map some) = false := by
    intro l
    induction l with
    | nil => rfl
    | cons k l ih => simp [hasBad, ih]
  simp [TC.attempt, h1, h2, TC.step, Op.flatten]

/-- a history in which some calls raised part-way IS the history of the operations that took effect -/
theorem raising_calls_are_history (w : Nat) (calls : List (Call K)) :
    TC.runCalls w calls = TC.run w (calls.map Call.effective) := by
  unfold TC.runCalls TC.run
  generalize (TC.init w : TC K) = s
  induction calls generalizing s with
  | nil => rfl
  | cons c cs ih =>
    simp only [List.foldl_cons, List.map_cons]
    rw [ih]
    cases c <;> rfl

/-- … hence, after any such history: `total` is the number of additions that took effect, no count exceeds
    the key's true count among THOSE, the shortfall is within `floor(total / w)`, and
    `get_common_count() + get_uncommon_count() == total` - earlier failed calls do not disturb the accounting -/
theorem accounting_after_raising_calls (w : Nat) (hw : 1 ≤ w) (calls : List (Call K)) (k : K) :
    let s := TC.runCalls w calls
    let done := stream (calls.map Call.effective)
    s.total = done.length ∧ s.get k ≤ done.count k ∧ done.count k - s.get k ≤ s.total / w
      ∧ s.commonCount + s.uncommonCount = s.total := by
  intro s done
  have hs : s = reach w done := by
    show TC.runCalls w calls = _
    rw [raising_calls_are_history, history_is_stream]
  rw [hs]
  exact ⟨total_eq_additions w done, count_le_true w hw done k, undercount_le w hw done k,
         common_plus_uncommon w hw done⟩

/-- why `add` must not count a key before it has stored it (the behaviour before fix `ba7c963`:
    `total += 1`, then the dict operation raises): with bucket width 2, one rejected key followed by ONE
    addition of key 0 reaches a compaction at `total = 2` that drops key 0 - one addition, true count 1,
    reported 0, slack `floor(1/2) = 0`; and `total` is 2 after 1 addition -/
theorem rejected_key_counted_breaks_statement :
    ∃ (s : TC Nat), s = ((TC.init 2 : TC Nat).bumpOnly).add 0
      ∧ s.total = 2 ∧ s.get 0 = 0 ∧ ¬ ([0].count 0 - s.get 0 ≤ [0].length / 2) :=
  ⟨_, rfl, by decide, by decide, by decide⟩

/-- `update(other.elements())` is `update(other)`: the elements are the mapping's additions in order -/
theorem update_elements_eq_absorb (s src : TC K) :
    s.step (.updateKeys src.elements) = s.absorb src := by
  simp only [TC.absorb, TC.step, Op.flatten, expand, TC.elements, TC.items, List.flatMap_map]

/-! non-vacuity: a concrete stream on which keys are evicted and under-counted -/
example : (reach 3 [0, 1, 1, 0, 2, 2, 0]).items = [(2, 2), (0, 1)] := by decide
example : ((reach 3 [0, 1, 1, 0, 2, 2, 0]).get 0, [0, 1, 1, 0, 2, 2, 0].count 0,
           (reach 3 [0, 1, 1, 0, 2, 2, 0]).total / 3) = (1, 3, 2) := by decide
example : (reach 24 sizeWitness).len = 49 := by decide +kernel
-- the logarithmic bound on the witness of `size_bound_false`: 49 ≤ 24 · (log2(95/24 + 1) + 1) = 72
example : 24 * ((sizeWitness.length / 24 + 1).log2 + 1) = 72 := by decide +kernel
-- … and it is attained: w = 1, one addition, one tracked key = 1 · (log2 2 + 1) - 1 … exactly w·1 for N < w
example : (reach 3 [0, 1]).len = 2 ∧ 3 * (([0, 1].length / 3 + 1).log2 + 1) = 3 := by decide
-- culled counts: the stream above loses 1 (key 1 twice... ) - total 7, common 3, uncommon 4 = culled
example : ((reach 3 [0, 1, 1, 0, 2, 2, 0]).uncommonCount, culled (TC.init 3 : TC Nat) [0, 1, 1, 0, 2, 2, 0],
           (reach 3 [0, 1, 1, 0, 2, 2, 0]).commonality) = (4, 4, some (3, 7)) := by decide
example : (reach 3 ([] : List Nat)).commonality = none := by decide
-- thresholds 3/10 and 0.34 = 17/50 have width 3 and 2; 1/1 and 0/5 are rejected
example : ((TC.ofThreshold 3 10 : Option (TC Nat)).map (·.w), (TC.ofThreshold 17 50 : Option (TC Nat)).map (·.w),
           (TC.ofThreshold 1 1 : Option (TC Nat)).map (·.w), (TC.ofThreshold 0 5 : Option (TC Nat)).map (·.w))
    = (some 3, some 2, none, none) := by decide
-- per-key shortfalls of that stream over U = [0, 1, 2, 3]: (3-1) + (2-0) + (2-2) + 0 = 4
example : ([0, 1, 2, 3].map fun k => [0, 1, 1, 0, 2, 2, 0].count k - (reach 3 [0, 1, 1, 0, 2, 2, 0]).get k)
    = [2, 2, 0, 0] := by decide
-- ties print in key order whatever order the answer had; the cut of most_common(2) names only the key above it
example : (canon [(5, 2), (1, 2), (7, 3)], canonTop [(7, 3), (5, 2)]) = ([(7, 3), (1, 2), (5, 2)], [(some 7, 3), (none, 2)]) := by
  decide
-- a key given positionally (3) and as a keyword (2) in ONE update call is counted 5 times
example : ((TC.run 9 [Op.updateMapKw [(0, 3), (1, 1)] [(0, 2)]]).get 0,
           (TC.run 9 [Op.updateMapKw [(0, 3), (1, 1)] [(0, 2)]]).total) = (5, 6) := by decide
-- self-update doubles the reported counts
example : (((TC.run 9 [Op.updateKeys [0, 0, 1]]).absorb (TC.run 9 [Op.updateKeys [0, 0, 1]])).items)
    = [(0, 4), (1, 2)] := by decide

-- update(['0', [], '1']) at width 2 after one addition of 0: the call raises, 0 was added once more, 1 never;
-- add([]) changes nothing; a bad keyword count after a good positional part: the positional part stays
example : ((TC.init 2 : TC Nat).add 0).attempt [some 0, none, some 1] = (reach 2 [0, 0], true) := by decide
example : (reach 2 [0]).attempt [none] = (reach 2 [0], true) := by decide
example : ((reach 9 [0]).attempt ([some 1] ++ expandX [some (0, 2), none, some (1, 5)])).1.items = [(0, 3), (1, 1)] := by decide
example : (TC.runCalls 2 [.ok (.add 0), .partly [none], .ok (.add 0), .partly [some 1, none, some 0]]).total = 3 := by decide
example : (reach 9 [0, 0, 1]).step (.updateKeys (reach 9 [0, 0, 1]).elements) = reach 9 [0, 0, 1, 0, 0, 1] := by decide

end C20
