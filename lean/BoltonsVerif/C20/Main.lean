import BoltonsVerif.C20.Driver
def main : IO Unit := BV.mainLoop C20.Driver.handle
