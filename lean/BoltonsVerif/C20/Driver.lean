import BoltonsVerif.Common
import BoltonsVerif.C20.Model
/-
C20 line protocol.  One line = one whole history over `ni` counters (all created
up front with the same threshold; counter 0 is current at the start):
    <w> <nk> <op> <op> ...            one counter   (`<w>` may be `<p>/<q>`: exact threshold, see `parseW?`)
    <w> <nk>x<ni> <op> <op> ...       ni counters
  a<k>                  add(k)                                   on the current counter
  u<k>,<k>,...          update(iterable of keys)                 (`u-` = empty)
  m<k>:<c>,...          update(mapping) / update(**kw)           (`m-` = empty)
  U<k>,..+<k>:<c>,..    update(iterable of keys, **kw)
  M<k>:<c>,..+<k>:<c>,..  update(mapping, **kw)
  t<j>                  update(counter j)   (j may be the current counter itself)
  n                     the current counter is replaced by a fresh one
  i<j>                  counter j becomes current                (no record)
  q<n>                  most_common(n) on the current counter    (no state change)
  e<j> / k<j>           update(counter j .elements()) / update(counter j .keys())   (j may be the current one)
  x                     add(a key the counter cannot take: unhashable / __hash__ raises)
  `!` as an element of `u`/`U` (an unhashable key, or the point where the iterable raises) or in place of a
  `<k>:<c>` entry of `m`/`M`/the keyword part (non-integer count, unhashable key, `items()` raising there):
  the call raises at that point; its record is `!raised ` followed by the dump (`TC.attempt`: the additions
  before the exception took effect, nothing after it - keyword counts are not reached when the positional
  part raises)
Output: one `;`-separated record per op except `i`.  After a mutator the record is
the full dump of every reader of EVERY counter (` | `-separated; so that an effect on
a counter that was not addressed shows); after `q<n>` it is the returned list.
`most_common` results are printed canonically (`canon`: ties in key order; `canonTop`: the keys with the
smallest returned count are printed as `*`) - the statement fixes the count order only.
`R<c>/<t>` in a dump is get_commonality() as an exact ratio, `R-` on a counter without additions (the
harness prints `R-` there whatever the code does: outside the statement).
-/
namespace C20.Driver
open BV C20

def showPairs (l : List (Nat × Nat)) : String :=
  if l.isEmpty then "-" else ",".intercalate (l.map fun p => s!"{p.1}:{p.2}")

def showTop (l : List (Option Nat × Nat)) : String :=
  if l.isEmpty then "-" else ",".intercalate (l.map fun p => match p.1 with
    | some k => s!"{k}:{p.2}"
    | none => s!"*:{p.2}")

def dump (nk : Nat) (s : TC Nat) : String :=
  let ks := List.range nk
  " ".intercalate [
    s!"T{s.total}", s!"I{showPairs s.items}", s!"K{showNats s.keys}", s!"V{showNats s.values}",
    s!"L{s.len}", s!"C{s.commonCount}", s!"U{s.uncommonCount}",
    s!"M{showPairs (canon (s.mostCommon none))}",
    s!"G{showNats (ks.map s.get)}",
    s!"H{showNats (ks.map fun k => if s.contains k then 1 else 0)}",
    s!"E{showNats s.elements}",
    match s.commonality with
    | some (c, t) => s!"R{c}/{t}"
    | none => "R-"]

def parsePairs? (s : String) : Option (List (Nat × Nat)) :=
  if s = "-" ∨ s = "" then some [] else
  (splitOnChar s ',').foldr (fun w acc =>
    match acc, splitOnChar w ':' with
    | some l, [a, b] => match a.toNat?, b.toNat? with
      | some x, some y => some ((x, y) :: l)
      | _, _ => none
    | _, _ => none) (some [])

/-- all counters and the index of the current one -/
structure St where
  cur : Nat
  insts : List (TC Nat)

def St.get (st : St) : Option (TC Nat) := st.insts[st.cur]?

def St.set (st : St) (s : TC Nat) : St := { st with insts := st.insts.set st.cur s }

def dumpAll (nk : Nat) (st : St) : String := " | ".intercalate (st.insts.map (dump nk))

/-- `<k>,<k>,!,<k>`: `!` = an element the call raises at -/
def natListX? (s : String) : Option (List (Option Nat)) :=
  if s = "-" ∨ s = "" then some [] else
  (splitOnChar s ',').foldr (fun w acc =>
    match acc with
    | none => none
    | some l => if w = "!" then some (none :: l) else w.toNat?.map fun n => some n :: l) (some [])

/-- `<k>:<c>,!,<k>:<c>`: `!` = an entry the call raises at -/
def parsePairsX? (s : String) : Option (List (Option (Nat × Nat))) :=
  if s = "-" ∨ s = "" then some [] else
  (splitOnChar s ',').foldr (fun w acc =>
    match acc with
    | none => none
    | some l => if w = "!" then some (none :: l) else
      match splitOnChar w ':' with
      | [a, b] => match a.toNat?, b.toNat? with
        | some x, some y => some (some (x, y) :: l)
        | _, _ => none
      | _ => none) (some [])

/-- a call that may raise part-way -/
def attempt (nk : Nat) (st : St) (xs : List (Option Nat)) : Option (St × Option String) :=
  st.get.map fun s =>
    let r := s.attempt xs
    let st' := st.set r.1
    (st', some ((if r.2 then "!raised " else "") ++ dumpAll nk st'))

def mutate (nk : Nat) (st : St) (f : TC Nat → TC Nat) : Option (St × Option String) :=
  st.get.map fun s => let st' := st.set (f s); (st', some (dumpAll nk st'))

def stepTok (w nk : Nat) (st : St) (tok : String) : Option (St × Option String) :=
  let rest := (tok.drop 1).toString
  match tok.front with
  | 'a' => rest.toNat?.bind fun k => mutate nk st (·.step (.add k))
  | 'x' => if rest = "" then attempt nk st [none] else none
  | 'u' => if rest.contains '!' then (natListX? rest).bind fun xs => attempt nk st xs
           else (natList? rest).bind fun ks => mutate nk st (·.step (.updateKeys ks))
  | 'm' => if rest.contains '!' then (parsePairsX? rest).bind fun ps => attempt nk st (expandX ps)
           else (parsePairs? rest).bind fun kcs => mutate nk st (·.step (.updateMap kcs))
  | 'U' => match splitOnChar rest '+' with
    | [a, b] =>
      if rest.contains '!' then
        match natListX? a, parsePairsX? b with
        | some xs, some ps => attempt nk st (xs ++ expandX ps)
        | _, _ => none
      else match natList? a, parsePairs? b with
      | some ks, some kws => mutate nk st (·.step (.updateKeysKw ks kws))
      | _, _ => none
    | _ => none
  | 'M' => match splitOnChar rest '+' with
    | [a, b] =>
      if rest.contains '!' then
        match parsePairsX? a, parsePairsX? b with
        | some ps, some qs => attempt nk st (expandX ps ++ expandX qs)
        | _, _ => none
      else match parsePairs? a, parsePairs? b with
      | some kcs, some kws => mutate nk st (·.step (.updateMapKw kcs kws))
      | _, _ => none
    | _ => none
  | 'e' => rest.toNat?.bind fun j => st.insts[j]?.bind fun src => mutate nk st (·.step (.updateKeys src.elements))
  | 'k' => rest.toNat?.bind fun j => st.insts[j]?.bind fun src => mutate nk st (·.step (.updateKeys src.keys))
  | 't' => rest.toNat?.bind fun j => st.insts[j]?.bind fun src => mutate nk st (·.absorb src)
  | 'n' => if rest = "" then mutate nk st (fun _ => TC.init w) else none
  | 'i' => rest.toNat?.bind fun j => if j < st.insts.length then some ({ st with cur := j }, none) else none
  | 'q' => rest.toInt?.bind fun n => st.get.map fun s => (st, some s!"Q{showTop (canonTop (s.mostCommon (some n)))}")
  | _ => none

def parseNk? (s : String) : Option (Nat × Nat) :=
  match splitOnChar s 'x' with
  | [a] => a.toNat?.map fun nk => (nk, 1)
  | [a, b] => match a.toNat?, b.toNat? with
    | some nk, some ni => if ni = 0 then none else some (nk, ni)
    | _, _ => none
  | _ => none

/-- first token: the bucket width `<w>` (float thresholds: computed by the harness) or an exact threshold
    `<p>/<q>` (Fraction / Decimal), from which the model's constructor derives the width -/
def parseW? (s : String) : Option Nat :=
  match splitOnChar s '/' with
  | [a] => a.toNat?
  | [a, b] => match a.toNat?, b.toNat? with
    | some p, some q => (TC.ofThreshold p q : Option (TC Nat)).map (·.w)
    | _, _ => none
  | _ => none

def handle (line : String) : String :=
  match words line with
  | w :: nk :: toks =>
    match parseW? w, parseNk? nk with
    | some w, some (nk, ni) =>
      if w = 0 then "bad-op" else
      let rec go (st : St) (toks : List String) (acc : List String) : Option (List String) :=
        match toks with
        | [] => some acc.reverse
        | t :: ts => match stepTok w nk st t with
          | some (st', some out) => go st' ts (out :: acc)
          | some (st', none) => go st' ts acc
          | none => none
      match go ⟨0, List.replicate ni (TC.init w)⟩ toks [] with
      | some outs => ";".intercalate outs
      | none => "bad-op"
    | _, _ => "bad-op"
  | _ => "bad-op"

end C20.Driver
