import BoltonsVerif.Common
import BoltonsVerif.C20.Model
/-
C20 line protocol.  One line = one whole history:
    <w> <nk> <op> <op> ...
  a<k>            add(k)
  u<k>,<k>,...    update(iterable of keys)      (`u-` = empty)
  m<k>:<c>,...    update(mapping)               (`m-` = empty)
  q<n>            most_common(n)  (no state change)
Output: one `;`-separated record per op.  After a mutator the record is the
full dump of every reader; after `q<n>` it is the returned list.
-/
namespace C20.Driver
open BV C20

def showPairs (l : List (Nat × Nat)) : String :=
  if l.isEmpty then "-" else ",".intercalate (l.map fun p => s!"{p.1}:{p.2}")

def dump (nk : Nat) (s : TC Nat) : String :=
  let ks := List.range nk
  " ".intercalate [
    s!"T{s.total}", s!"I{showPairs s.items}", s!"K{showNats s.keys}", s!"V{showNats s.values}",
    s!"L{s.len}", s!"C{s.commonCount}", s!"U{s.uncommonCount}",
    s!"M{showPairs (s.mostCommon none)}",
    s!"G{showNats (ks.map s.get)}",
    s!"H{showNats (ks.map fun k => if s.contains k then 1 else 0)}",
    s!"E{showNats s.elements}"]

def parsePairs? (s : String) : Option (List (Nat × Nat)) :=
  if s = "-" ∨ s = "" then some [] else
  (splitOnChar s ',').foldr (fun w acc =>
    match acc, splitOnChar w ':' with
    | some l, [a, b] => match a.toNat?, b.toNat? with
      | some x, some y => some ((x, y) :: l)
      | _, _ => none
    | _, _ => none) (some [])

def stepTok (nk : Nat) (s : TC Nat) (tok : String) : Option (TC Nat × String) :=
  let rest := (tok.drop 1).toString
  match tok.front with
  | 'a' => rest.toNat?.map fun k => let s' := s.step (.add k); (s', dump nk s')
  | 'u' => (natList? rest).map fun ks => let s' := s.step (.updateKeys ks); (s', dump nk s')
  | 'm' => (parsePairs? rest).map fun kcs => let s' := s.step (.updateMap kcs); (s', dump nk s')
  | 'q' => rest.toInt?.map fun n => (s, s!"Q{showPairs (s.mostCommon (some n))}")
  | _ => none

def handle (line : String) : String :=
  match words line with
  | w :: nk :: toks =>
    match w.toNat?, nk.toNat? with
    | some w, some nk =>
      if w = 0 then "bad-op" else
      let rec go (s : TC Nat) (toks : List String) (acc : List String) : Option (List String) :=
        match toks with
        | [] => some acc.reverse
        | t :: ts => match stepTok nk s t with
          | some (s', out) => go s' ts (out :: acc)
          | none => none
      match go (TC.init w) toks [] with
      | some outs => ";".intercalate outs
      | none => "bad-op"
    | _, _ => "bad-op"
  | _ => "bad-op"

end C20.Driver
