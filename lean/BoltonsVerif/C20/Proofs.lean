import BoltonsVerif.C20.Model
/-
C20 helper lemmas: the Lossy-Counting invariant and its preservation by `add`.
-/
namespace C20
variable {K : Type} [DecidableEq K]

def keysOf (cm : List (Entry K)) : List K := cm.map (·.key)

theorem lookup_none_iff (k : K) (cm : List (Entry K)) :
    lookup k cm = none ↔ k ∉ keysOf cm := by
  induction cm with
  | nil => simp [lookup, keysOf]
  | cons e es ih =>
    simp only [lookup, keysOf, List.map_cons, List.mem_cons, not_or] at *
    split <;> simp_all [eq_comm]

theorem lookup_some_key {k : K} {cm : List (Entry K)} {e : Entry K}
    (h : lookup k cm = some e) : e.key = k ∧ e ∈ cm := by
  induction cm with
  | nil => simp [lookup] at h
  | cons a as ih =>
    simp only [lookup] at h
    split at h
    · cases h; simp_all
    · have := ih h; simp_all

theorem bump_none_iff (k : K) (cm : List (Entry K)) :
    bump k cm = none ↔ lookup k cm = none := by
  induction cm with
  | nil => simp [bump, lookup]
  | cons e es ih =>
    simp only [bump, lookup]
    split <;> simp_all

theorem lookup_bump (k k' : K) (cm cm' : List (Entry K)) (h : bump k cm = some cm') :
    lookup k' cm' = if k' = k then (lookup k cm).map (fun e => { e with cnt := e.cnt + 1 })
                    else lookup k' cm := by
  induction cm generalizing cm' with
  | nil => simp [bump] at h
  | cons e es ih =>
    simp only [bump] at h
    split at h
    · cases h; grind [lookup]
    · cases hb : bump k es with
      | none => simp [hb] at h
      | some c =>
        simp [hb] at h; subst h
        have := ih c hb
        grind [lookup]

theorem keysOf_bump (k : K) (cm cm' : List (Entry K)) (h : bump k cm = some cm') :
    keysOf cm' = keysOf cm := by
  induction cm generalizing cm' with
  | nil => simp [bump] at h
  | cons e es ih =>
    simp only [bump] at h
    split at h
    · cases h; simp [keysOf]
    · cases hb : bump k es with
      | none => simp [hb] at h
      | some c =>
        simp [hb] at h; subst h
        have := ih c hb
        simp_all [keysOf]

theorem sum_bump (k : K) (cm cm' : List (Entry K)) (h : bump k cm = some cm') :
    (cm'.map (·.cnt)).sum = (cm.map (·.cnt)).sum + 1 := by
  induction cm generalizing cm' with
  | nil => simp [bump] at h
  | cons e es ih =>
    simp only [bump] at h
    split at h
    · cases h; simp; omega
    · cases hb : bump k es with
      | none => simp [hb] at h
      | some c =>
        simp [hb] at h; subst h
        have := ih c hb
        simp_all; omega

theorem lookup_append_single (k' : K) (cm : List (Entry K)) (e : Entry K) :
    lookup k' (cm ++ [e]) = match lookup k' cm with
      | some x => some x
      | none => if e.key = k' then some e else none := by
  induction cm with
  | nil => simp [lookup]
  | cons a as ih => simp only [List.cons_append, lookup]; split <;> simp_all

theorem lookup_filter (p : Entry K → Bool) (k' : K) (cm : List (Entry K))
    (hu : (keysOf cm).Nodup) :
    lookup k' (cm.filter p) = (lookup k' cm).filter p := by
  induction cm with
  | nil => simp [lookup, Option.filter]
  | cons a as ih =>
    simp only [keysOf, List.map_cons, List.nodup_cons] at hu
    have ih' := ih hu.2
    have hnone : a.key = k' → lookup k' as = none := by
      intro hk; rw [lookup_none_iff, ← hk]; exact hu.1
    by_cases hp : p a = true <;> by_cases hk : a.key = k' <;>
      simp [List.filter_cons, hp, hk, lookup, Option.filter, ih', hnone]

theorem keysOf_filter_sublist (p : Entry K → Bool) (cm : List (Entry K)) :
    (keysOf (cm.filter p)).Sublist (keysOf cm) := by
  unfold keysOf
  exact (List.filter_sublist).map _

theorem sum_filter_le (p : Entry K → Bool) (cm : List (Entry K)) :
    ((cm.filter p).map (·.cnt)).sum ≤ (cm.map (·.cnt)).sum := by
  induction cm with
  | nil => simp
  | cons a as ih =>
    simp only [List.filter_cons]
    split <;> simp <;> omega

/-- the invariant, relative to the true-count function `tr` of the additions so far -/
structure Inv (s : TC K) (tr : K → Nat) : Prop where
  wpos : 1 ≤ s.w
  bucket : s.bucket = s.total / s.w + 1
  nodup : (keysOf s.cm).Nodup
  sum_le : (s.cm.map (·.cnt)).sum ≤ s.total
  len_le : s.cm.length ≤ s.total
  key : ∀ k, match lookup k s.cm with
    | some e => e.cnt ≤ tr k ∧ tr k ≤ e.cnt + e.dlt ∧ e.dlt + 1 ≤ s.bucket ∧ 1 ≤ e.cnt
    | none => tr k + 1 ≤ s.bucket

theorem inv_init (w : Nat) (hw : 1 ≤ w) : Inv (TC.init w : TC K) (fun _ => 0) := by
  refine ⟨hw, ?_, ?_, ?_, ?_, ?_⟩ <;> simp [TC.init, keysOf, lookup]

theorem div_succ_of_mod {t w : Nat} (hw : 1 ≤ w) (h : (t + 1) % w = 0) :
    (t + 1) / w = t / w + 1 := by
  have h1 := Nat.div_add_mod (t + 1) w
  have h2 := Nat.div_add_mod t w
  have h3 := Nat.mod_lt t hw
  rw [h] at h1
  -- w * ((t+1)/w) = t + 1,  t = w * (t/w) + t % w with t % w < w
  have : w * ((t + 1) / w) = w * (t / w) + (t % w + 1) := by omega
  have hle : t % w + 1 ≤ w := by omega
  have hge : w ≤ t % w + 1 := by
    -- w divides t % w + 1 and it is positive
    have hd : w ∣ t % w + 1 := by
      have : w ∣ w * ((t + 1) / w) := Nat.dvd_mul_right _ _
      rw [‹w * ((t + 1) / w) = w * (t / w) + (t % w + 1)›] at this
      exact (Nat.dvd_add_right (Nat.dvd_mul_right _ _)).mp this
    exact Nat.le_of_dvd (by omega) hd
  have heq : t % w + 1 = w := by omega
  rw [heq] at this
  have : w * ((t + 1) / w) = w * (t / w + 1) := by rw [this, Nat.mul_add, Nat.mul_one]
  exact Nat.eq_of_mul_eq_mul_left (by omega) this

theorem div_succ_of_not_mod {t w : Nat} (hw : 1 ≤ w) (h : (t + 1) % w ≠ 0) :
    (t + 1) / w = t / w := by
  have h1 := Nat.div_add_mod (t + 1) w
  have h2 := Nat.div_add_mod t w
  have h3 := Nat.mod_lt t hw
  have h4 := Nat.mod_lt (t + 1) hw
  -- (t+1) % w = t % w + 1 in this case
  have : (t + 1) % w = t % w + 1 := by
    by_cases hlt : t % w + 1 < w
    · rw [Nat.add_mod];
      by_cases hw1 : w = 1
      · subst hw1; omega
      · have : 1 % w = 1 := Nat.mod_eq_of_lt (by omega)
        rw [this, Nat.mod_eq_of_lt hlt]
    · exfalso
      have heq : t % w + 1 = w := by omega
      apply h
      have : t + 1 = w * (t / w + 1) := by rw [Nat.mul_add, Nat.mul_one]; omega
      rw [this]; exact Nat.mul_mod_right _ _
  have : w * ((t + 1) / w) = w * (t / w) := by omega
  exact Nat.eq_of_mul_eq_mul_left (by omega) this

theorem lookup_upsert (k k' : K) (b : Nat) (cm : List (Entry K)) :
    lookup k' (upsert k b cm) =
      if k' = k then some (match lookup k cm with
                           | some e => { e with cnt := e.cnt + 1 }
                           | none => ⟨k, 1, b - 1⟩)
      else lookup k' cm := by
  unfold upsert
  cases hb : bump k cm with
  | some cm' =>
    have hsome : lookup k cm ≠ none := by
      intro hn; rw [← bump_none_iff] at hn; simp [hn] at hb
    simp only [lookup_bump k k' cm cm' hb]
    split
    · cases hl : lookup k cm with
      | none => exact absurd hl hsome
      | some e => simp
    · rfl
  | none =>
    have hnone : lookup k cm = none := (bump_none_iff k cm).mp hb
    simp only [lookup_append_single, hnone]
    by_cases hkk : k' = k
    · subst hkk; simp [hnone]
    · have : ¬ (k = k') := fun h => hkk h.symm
      simp only [hkk, if_false, this]
      cases lookup k' cm <;> rfl

theorem nodup_upsert (k : K) (b : Nat) (cm : List (Entry K)) (h : (keysOf cm).Nodup) :
    (keysOf (upsert k b cm)).Nodup := by
  unfold upsert
  cases hb : bump k cm with
  | some cm' => simp only; rw [keysOf_bump k cm cm' hb]; exact h
  | none =>
    have hnotin : k ∉ keysOf cm := (lookup_none_iff k cm).mp ((bump_none_iff k cm).mp hb)
    simp only [keysOf, List.map_append, List.map_cons, List.map_nil]
    rw [List.nodup_append]
    refine ⟨h, by simp, ?_⟩
    intro a ha b' hb'
    simp at hb'; subst hb'
    intro hab; subst hab; exact hnotin ha

theorem sum_upsert (k : K) (b : Nat) (cm : List (Entry K)) :
    ((upsert k b cm).map (·.cnt)).sum = (cm.map (·.cnt)).sum + 1 := by
  unfold upsert
  cases hb : bump k cm with
  | some cm' => exact sum_bump k cm cm' hb
  | none => simp

theorem length_upsert_le (k : K) (b : Nat) (cm : List (Entry K)) :
    (upsert k b cm).length ≤ cm.length + 1 := by
  unfold upsert
  cases hb : bump k cm with
  | some cm' =>
    have := congrArg List.length (keysOf_bump k cm cm' hb)
    simp [keysOf] at this; simp [this]
  | none => simp

/-- one addition preserves the invariant (true counts updated for the added key) -/
theorem inv_add (s : TC K) (tr : K → Nat) (k : K) (h : Inv s tr) :
    Inv (s.add k) (fun k' => if k' = k then tr k' + 1 else tr k') := by
  obtain ⟨hw, hb, hnd, hsum, hlen, hkey⟩ := h
  have hb1 : 1 ≤ s.bucket := by rw [hb]; exact Nat.le_add_left 1 _
  have hnd' := nodup_upsert k s.bucket s.cm hnd
  have hs := sum_upsert k s.bucket s.cm
  have hl := length_upsert_le k s.bucket s.cm
  have hkey' : ∀ k', match lookup k' (upsert k s.bucket s.cm) with
      | some e => e.cnt ≤ (if k' = k then tr k' + 1 else tr k') ∧
                  (if k' = k then tr k' + 1 else tr k') ≤ e.cnt + e.dlt ∧ e.dlt + 1 ≤ s.bucket ∧ 1 ≤ e.cnt
      | none => (if k' = k then tr k' + 1 else tr k') + 1 ≤ s.bucket := by
    intro k'
    have := hkey k'
    rw [lookup_upsert]
    by_cases hkk : k' = k
    · subst hkk
      simp only [if_true]
      cases hlk : lookup k' s.cm with
      | none => simp only [hlk] at this ⊢; omega
      | some e => simp only [hlk] at this ⊢; omega
    · simp only [hkk, if_false]; exact this
  unfold TC.add
  by_cases hm : (s.total + 1) % s.w = 0
  · simp only [hm, if_true]
    have hf1 := sum_filter_le (fun e => decide (e.cnt + e.dlt > s.bucket)) (upsert k s.bucket s.cm)
    have hf2 := List.length_filter_le (fun e => decide (e.cnt + e.dlt > s.bucket)) (upsert k s.bucket s.cm)
    refine ⟨hw, ?_, ?_, ?_, ?_, ?_⟩
    · show s.bucket + 1 = (s.total + 1) / s.w + 1
      rw [div_succ_of_mod hw hm, hb]
    · exact (keysOf_filter_sublist _ _).nodup hnd'
    · show (List.map (·.cnt) (List.filter _ (upsert k s.bucket s.cm))).sum ≤ s.total + 1
      omega
    · show (List.filter _ (upsert k s.bucket s.cm)).length ≤ s.total + 1
      omega
    · intro k'
      have := hkey' k'
      show match lookup k' (List.filter _ (upsert k s.bucket s.cm)) with
        | some e => _
        | none => _
      rw [lookup_filter _ _ _ hnd']
      cases hlk : lookup k' (upsert k s.bucket s.cm) with
      | none => simp only [hlk, Option.filter] at this ⊢; omega
      | some e =>
        simp only [hlk] at this
        by_cases hp : e.cnt + e.dlt > s.bucket
        · simp only [Option.filter, hp, decide_true, if_true]; omega
        · simp only [Option.filter, hp, decide_false]; simp; omega
  · simp only [hm, if_false]
    refine ⟨hw, ?_, hnd', ?_, ?_, hkey'⟩
    · show s.bucket = (s.total + 1) / s.w + 1
      rw [div_succ_of_not_mod hw hm, hb]
    · show (List.map (·.cnt) (upsert k s.bucket s.cm)).sum ≤ s.total + 1
      omega
    · show (upsert k s.bucket s.cm).length ≤ s.total + 1
      omega

theorem add_total (s : TC K) (k : K) : (s.add k).total = s.total + 1 := by
  unfold TC.add; split <;> rfl

theorem add_w (s : TC K) (k : K) : (s.add k).w = s.w := by
  unfold TC.add; split <;> rfl

/-- every reachable state satisfies the invariant w.r.t. the counts of the stream so far -/
theorem inv_addAll (s : TC K) (tr : K → Nat) (ks : List K) (h : Inv s tr) :
    Inv (s.addAll ks) (fun k => tr k + ks.count k) := by
  induction ks generalizing s tr with
  | nil => simpa [TC.addAll] using h
  | cons a as ih =>
    have h1 := inv_add s tr a h
    have h2 := ih (s.add a) _ h1
    have : (fun k => (if k = a then tr k + 1 else tr k) + List.count k as)
         = (fun k => tr k + List.count k (a :: as)) := by
      funext k
      by_cases hk : k = a
      · subst hk; simp; omega
      · have : ¬ (a = k) := fun h => hk h.symm
        simp [hk, List.count_cons, this]
    rw [this] at h2
    simpa [TC.addAll] using h2

theorem inv_reach (w : Nat) (hw : 1 ≤ w) (ks : List K) :
    Inv ((TC.init w : TC K).addAll ks) (fun k => ks.count k) := by
  have := inv_addAll (TC.init w : TC K) (fun _ => 0) ks (inv_init w hw)
  simpa using this

theorem addAll_total (s : TC K) (ks : List K) : (s.addAll ks).total = s.total + ks.length := by
  induction ks generalizing s with
  | nil => simp [TC.addAll]
  | cons a as ih =>
    have := ih (s.add a)
    simp only [TC.addAll, List.foldl_cons] at this ⊢
    rw [this, add_total]; simp; omega

theorem addAll_w (s : TC K) (ks : List K) : (s.addAll ks).w = s.w := by
  induction ks generalizing s with
  | nil => simp [TC.addAll]
  | cons a as ih =>
    have := ih (s.add a)
    simp only [TC.addAll, List.foldl_cons] at this ⊢
    rw [this, add_w]

theorem addAll_append (s : TC K) (xs ys : List K) :
    s.addAll (xs ++ ys) = (s.addAll xs).addAll ys := by
  simp [TC.addAll, List.foldl_append]

theorem run_eq_addAll (w : Nat) (ops : List (Op K)) :
    TC.run w ops = (TC.init w : TC K).addAll (stream ops) := by
  unfold TC.run stream
  generalize (TC.init w : TC K) = s
  induction ops generalizing s with
  | nil => simp [TC.addAll]
  | cons o os ih =>
    simp only [List.foldl_cons, List.flatMap_cons]
    rw [ih, addAll_append]; rfl

/-! bulk additions: what `update` adds is what the mapping / keyword counts ask for -/

theorem count_expand (k : K) (kcs : List (K × Nat)) : (expand kcs).count k = wsum k kcs := by
  induction kcs with
  | nil => simp [expand, wsum]
  | cons a as ih =>
    simp only [expand, wsum, List.flatMap_cons, List.count_append, List.map_cons, List.sum_cons] at ih ⊢
    rw [ih, List.count_replicate]
    by_cases h : a.1 = k <;> simp [h]

theorem length_expand (kcs : List (K × Nat)) : (expand kcs).length = (kcs.map (·.2)).sum := by
  induction kcs with
  | nil => simp [expand]
  | cons a as ih =>
    simp only [expand, List.flatMap_cons, List.length_append, List.length_replicate, List.map_cons,
      List.sum_cons] at ih ⊢
    rw [ih]

theorem flatten_count (op : Op K) (k : K) : op.flatten.count k = op.weight k := by
  cases op with
  | add k' => by_cases h : k' = k <;> simp [Op.flatten, Op.weight, h]
  | updateKeys ks => simp [Op.flatten, Op.weight]
  | updateMap kcs => simp [Op.flatten, Op.weight, count_expand]
  | updateKeysKw ks kws => simp [Op.flatten, Op.weight, count_expand, List.count_append]
  | updateMapKw kcs kws => simp [Op.flatten, Op.weight, count_expand, List.count_append]

theorem stream_count (ops : List (Op K)) (k : K) :
    (stream ops).count k = (ops.map (Op.weight k)).sum := by
  induction ops with
  | nil => simp [stream]
  | cons o os ih =>
    simp only [stream, List.flatMap_cons, List.count_append, List.map_cons, List.sum_cons] at ih ⊢
    rw [ih, flatten_count]

/-! sorting lemmas for `most_common` -/

theorem insDesc_perm (x : K × Nat) (l : List (K × Nat)) : (insDesc x l).Perm (x :: l) := by
  induction l with
  | nil => simp [insDesc]
  | cons y ys ih =>
    simp only [insDesc]
    split
    · exact List.Perm.refl _
    · exact (List.Perm.cons y ih).trans (List.Perm.swap x y ys)

theorem sortDesc_perm (l : List (K × Nat)) : (sortDesc l).Perm l := by
  induction l with
  | nil => simp [sortDesc]
  | cons x xs ih =>
    simp only [sortDesc, List.foldr_cons] at ih ⊢
    exact (insDesc_perm x _).trans (List.Perm.cons x ih)

def DescSorted (l : List (K × Nat)) : Prop := l.Pairwise (fun a b => b.2 ≤ a.2)

theorem insDesc_sorted (x : K × Nat) (l : List (K × Nat)) (h : DescSorted l) :
    DescSorted (insDesc x l) := by
  induction l with
  | nil => simp [insDesc, DescSorted]
  | cons y ys ih =>
    simp only [DescSorted, List.pairwise_cons] at h
    simp only [insDesc]
    split
    · rename_i hle
      simp only [DescSorted, List.pairwise_cons]
      refine ⟨?_, h⟩
      intro b hb
      rcases List.mem_cons.mp hb with rfl | hb
      · exact hle
      · exact Nat.le_trans (h.1 b hb) hle
    · rename_i hnle
      simp only [DescSorted, List.pairwise_cons]
      refine ⟨?_, ih h.2⟩
      intro b hb
      have := (insDesc_perm x ys).mem_iff.mp hb
      rcases List.mem_cons.mp this with rfl | hb'
      · omega
      · exact h.1 b hb'

theorem sortDesc_sorted (l : List (K × Nat)) : DescSorted (sortDesc l) := by
  induction l with
  | nil => simp [sortDesc, DescSorted]
  | cons x xs ih =>
    simp only [sortDesc, List.foldr_cons] at ih ⊢
    exact insDesc_sorted x _ ih

end C20
