import BoltonsVerif.PyRt
/-
PyRtC15 — runtime library of `harness/py2lean_c15.py`, the source translator for GENERATOR functions over an
ABSTRACT NUMBER CARRIER (round 3d; `boltons.iterutils.backoff_iter` / `backoff`; rules: notes/SRCTIE.md §2d).
Trusted like `PyRt.lean`; validated against CPython by `py2lean_c15.selftest` (the generated definitions at the
instance `α = Float`, bit for bit, and at an exact instance of fractions).

1. THE CARRIER.  Python floats are values of a type parameter `α` with exactly the operations the C15 hand model is
   polymorphic over: `<`, `≤` (decidable), `==` (`BEq`), `*`, `-`, unary `-`, the literals `0` and `1`.  NO laws are
   assumed.  `float(x)` of a carrier value is the identity (`PyRtC15.float`); the truth value of a carrier value is
   `!(x == 0)`.  At `α = Float` (Lean's `Float` = the C `double`) every one of these is the IEEE operation
   CPython performs.

2. `count` IS DYNAMICALLY TYPED (`None`, a string, an int): `CountV`.  Operations Python refuses raise `TypeError`.

3. GENERATORS.  A generator body is a computation `G α β := GSt → Res α β` (state: how many `next()` calls are still
   to be served, how many `random.random()` draws were made; writer: the values yielded).  `G.run n body` is what a
   caller observes who calls `next()` on a fresh generator `n` times: the values received and how it ended
   (`Stop`): still `suspended` at its `n`-th `yield` (or not started, `n = 0`), `returned` (StopIteration), `raised e`,
   or — not Python — `outOfFuel` (a `while` loop did not finish within the fuel; tie theorems exclude it).
   `random.random()` is the SCRIPTED DRAW LIST `rnd : Nat → α`: the `k`-th call returns `rnd k`.
-/

namespace PyRtC15

/-! ## 1. the carrier -/

section carrier
variable {α : Type}

/-- `float(x)` of a value that already is a float -/
@[reducible] def float (x : α) : α := x

/-- truth value of a number: `bool(x)` is `x != 0` (the translator writes `!(x == 0)` out) -/
@[reducible] def truthy [BEq α] [OfNat α 0] (x : α) : Bool := !(x == 0)

end carrier

/-! ## 2. the dynamically typed `count` -/

/-- `None`, a `str`, or an `int` -/
inductive CountV where
  | none
  | str (s : String)
  | int (k : Int)
deriving DecidableEq, Repr

namespace CountV

/-- `c is None` -/
def isNone : CountV → Bool
  | .none => true
  | _ => false

/-- `c == '<s>'` (never raises) -/
def eqStr (c : CountV) (s : String) : Bool :=
  match c with
  | .str t => t == s
  | _ => false

/-- `c == k` for an int `k` (never raises) -/
def eqInt (c : CountV) (k : Int) : Bool :=
  match c with
  | .int j => j == k
  | _ => false

/-- `c < k`: `TypeError` unless `c` is an int -/
def ltInt (c : CountV) (k : Int) : Except PyExc Bool :=
  match c with
  | .int j => .ok (decide (j < k))
  | _ => .error .TypeError

/-- `k < c` -/
def intLt (k : Int) (c : CountV) : Except PyExc Bool :=
  match c with
  | .int j => .ok (decide (k < j))
  | _ => .error .TypeError

/-- `c <= k` -/
def leInt (c : CountV) (k : Int) : Except PyExc Bool :=
  match c with
  | .int j => .ok (decide (j ≤ k))
  | _ => .error .TypeError

/-- `k <= c` -/
def intLe (k : Int) (c : CountV) : Except PyExc Bool :=
  match c with
  | .int j => .ok (decide (k ≤ j))
  | _ => .error .TypeError

/-- `c + k`: `TypeError` unless `c` is an int -/
def addInt (c : CountV) (k : Int) : Except PyExc CountV :=
  match c with
  | .int j => .ok (.int (j + k))
  | _ => .error .TypeError

/-- `c - k` -/
def subInt (c : CountV) (k : Int) : Except PyExc CountV :=
  match c with
  | .int j => .ok (.int (j - k))
  | _ => .error .TypeError

end CountV

/-! ## 3. generators -/

/-- how the observation of a generator ends -/
inductive Stop where
  /-- suspended at a `yield` (or not started): the caller stopped asking -/
  | suspended
  /-- the body returned: `StopIteration` -/
  | returned
  | raised (e : PyExc)
  /-- not Python: a `while` loop ran out of the fuel it was given -/
  | outOfFuel
deriving DecidableEq, Repr

/-- `left`: `next()` calls still to be served, the running one included (≥ 1 while the body runs);
    `draws`: calls of `random.random()` made so far -/
structure GSt where
  left : Nat
  draws : Nat
deriving DecidableEq, Repr

inductive Res (α β : Type) where
  /-- went on normally with value `v`, having yielded `out` -/
  | cont (out : List α) (v : β) (s : GSt)
  /-- the observation ended, `out` having been yielded -/
  | stop (out : List α) (h : Stop)

/-- the values yielded first are `o` -/
def Res.prepend {α β : Type} (o : List α) : Res α β → Res α β
  | .cont out v s => .cont (o ++ out) v s
  | .stop out h => .stop (o ++ out) h

abbrev G (α β : Type) := GSt → Res α β

namespace G
variable {α β γ : Type}

def pure (v : β) : G α β := fun s => .cont [] v s

def bind (m : G α β) (f : β → G α γ) : G α γ := fun s =>
  match m s with
  | .cont o v s1 => (f v s1).prepend o
  | .stop o h => .stop o h

/-- `raise E(...)` -/
def raise (e : PyExc) : G α β := fun _ => .stop [] (.raised e)

/-- `return` / falling off the end of a generator body -/
def ret : G α β := fun _ => .stop [] .returned

def outOfFuel : G α β := fun _ => .stop [] .outOfFuel

/-- an operation that may raise -/
def ofExcept (r : Except PyExc β) : G α β :=
  match r with
  | .ok v => pure v
  | .error e => raise e

/-- reading a local variable that some path leaves unbound: `UnboundLocalError` (`PyExc.Other`) -/
def unbox (x : Option β) : G α β :=
  match x with
  | some v => pure v
  | none => raise .Other

/-- `yield v`: the caller receives `v`; the body goes on only if the caller asks again -/
def yield_ (v : α) : G α Unit := fun s =>
  match s.left with
  | 0 => .stop [] .suspended
  | 1 => .stop [v] .suspended
  | k + 2 => .cont [v] () { s with left := k + 1 }

/-- `random.random()`: the next scripted draw -/
def draw (rnd : Nat → α) : G α α := fun s => .cont [] (rnd s.draws) { s with draws := s.draws + 1 }

/-- `n` calls of `next()` on a fresh generator with this body -/
def run (n : Nat) (body : G α Unit) : List α × Stop :=
  match n with
  | 0 => ([], .suspended)
  | k + 1 =>
    match body { left := k + 1, draws := 0 } with
    | .cont o _ _ => (o, .returned)
    | .stop o h => (o, h)

end G

/-- a FUNCTION body (no `yield`): its value (`G.pure v` in return position) or the exception it raises -/
def runFn {α β : Type} (body : G α β) : Except PyExc β :=
  match body { left := 0, draws := 0 } with
  | .cont _ v _ => .ok v
  | .stop _ (.raised e) => .error e
  | .stop _ .outOfFuel => .error .OutOfFuel
  | .stop _ _ => .error .Other

/-- `list(g)` of a generator given as its observation function `n ↦ G.run n body`, asked `fuel` times: the values
    if it returned by then (fewer than `fuel` values), its exception, else `OutOfFuel` -/
def listOf {α : Type} (fuel : Nat) (g : Nat → List α × Stop) : Except PyExc (List α) :=
  match g fuel with
  | (o, .returned) => .ok o
  | (_, .raised e) => .error e
  | (_, _) => .error .OutOfFuel

end PyRtC15
