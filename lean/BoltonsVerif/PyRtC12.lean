/-
PyRtC12 — runtime of the SOCKET MODE of the source translator (`harness/py2lean_c12.py`, notes/SRCTIE.md §1h / §2e):
the methods of `boltons.socketutils.BufferedSocket`, whose job is to call a wrapped socket and the clock.

* `bytes` / `bytearray` values are `Bytes = List Nat` (immutable values; a `bytearray` local is only ever referenced
  from its one local name, the translator checks it), with Python's slicing, `len`, `+`, `b''.join`, `find`.
* An exception is a VALUE `Exc`: the classes the translated code raises or tests (`socket.timeout`, the module's
  `Timeout(socket.timeout, Error)`, `ConnectionClosed`, `MessageTooLong`, `ValueError`) and three opaque families for
  whatever else the wrapped socket raises (another `OSError`, another `Exception`, a `BaseException` that is no
  `Exception`).  `outOfFuel` is not a Python exception: a `while` loop ran out of the fuel the caller passed
  (the tie theorems show it does not happen with the stated fuel); no handler catches it.
* Every call of the wrapped socket and of `time.time()` is a field of the record `Net W φ` over an abstract world `W`:
  it may change the world and returns a value or raises.  `φ` is the carrier of `float` values (timeouts, clock
  readings): the code only subtracts them, compares them with `0.0` and tests their truth value - three more fields.
* A statement list is a `Blk σ R = σ → Out R × σ`: it runs on a frame `σ` (object state, locals, world) and falls
  through, returns, breaks out of the enclosing loop or raises; the frame is the one at that point in every case.

Core Lean only; trusted like PyRt.lean.  `harness/py2lean_c12_selftest.py` compares the generated definitions with CPython
(the real methods running against a scripted fake socket and clock).
-/
namespace PyRtC12

abbrev Bytes := List Nat

inductive Exc where
  | sockTimeout              -- `socket.timeout` (= `TimeoutError`): raised by the wrapped socket, or by the code's deadline check
  | timeout                  -- `boltons.socketutils.Timeout(socket.timeout, Error)`
  | connectionClosed         -- `ConnectionClosed(Error)`
  | messageTooLong           -- `MessageTooLong(Error)`
  | valueError               -- `ValueError`
  | osError (tag : Nat)      -- any other `OSError` (opaque)
  | exception (tag : Nat)    -- any other `Exception` (opaque)
  | base (tag : Nat)         -- a `BaseException` that is not an `Exception` (KeyboardInterrupt, …)
  | outOfFuel                -- not a Python exception: loop fuel exhausted
deriving DecidableEq, Repr

/-- `except socket.timeout:` (also `TimeoutError`): the class itself and the module's `Timeout`, which derives from it -/
def Exc.isSockTimeout : Exc → Bool
  | .sockTimeout => true
  | .timeout => true
  | _ => false
/-- `except Timeout:` -/
def Exc.isTimeout : Exc → Bool
  | .timeout => true
  | _ => false
/-- `except ConnectionClosed:` -/
def Exc.isConnectionClosed : Exc → Bool
  | .connectionClosed => true
  | _ => false
/-- `except MessageTooLong:` -/
def Exc.isMessageTooLong : Exc → Bool
  | .messageTooLong => true
  | _ => false
/-- `except Exception:` -/
def Exc.isException : Exc → Bool
  | .base _ => false
  | .outOfFuel => false
  | _ => true

/-- the wrapped socket, the clock and the `float` operations the code uses -/
structure Net (W φ : Type) where
  /-- `self.sock.recv(n)` -/
  recv : Int → W → Except Exc Bytes × W
  /-- `self.sock.settimeout(t)` (`t` is `None` or a float) -/
  settimeout : Option φ → W → Except Exc Unit × W
  /-- `self.sock.send(data)` -/
  send : Bytes → W → Except Exc Int × W
  /-- `time.time()` -/
  time : W → Except Exc φ × W
  /-- `a - b` on floats -/
  fsub : φ → φ → φ
  /-- `a <= b` on floats -/
  fle : φ → φ → Bool
  /-- the literal `0.0` -/
  fzero : φ
  /-- truth value of a float (`x != 0.0`) -/
  ftruthy : φ → Bool

/-- truth value of `None` / a float (`if timeout:`) -/
def Net.truthyOpt {W φ : Type} (net : Net W φ) : Option φ → Bool
  | none => false
  | some x => net.ftruthy x

/-- a local of type `Option T` read where the flow analysis of the translator shows it is not `None` -/
def unwrap {α : Type} [Inhabited α] : Option α → α
  | some a => a
  | none => default

/-- `v if p is <sentinel> else p` for a parameter / local whose outer layer (`_UNSET` or `None`) is `none` -/
def orDefault {α : Type} (p : Option α) (d : α) : α :=
  match p with
  | none => d
  | some v => v

/-! ## bytes -/

/-- a slice bound as Python normalises it: negative counts from the end, then clamped to `[0, n]` -/
def normIdx (n : Nat) (i : Int) : Nat :=
  if i < 0 then (i + (n : Int)).toNat else min i.toNat n

/-- `b[:i]` -/
def sliceTo (b : Bytes) (i : Int) : Bytes := b.take (normIdx b.length i)
/-- `b[i:]` -/
def sliceFrom (b : Bytes) (i : Int) : Bytes := b.drop (normIdx b.length i)
/-- `b[i:j]` -/
def slice (b : Bytes) (i j : Int) : Bytes := (b.take (normIdx b.length j)).drop (normIdx b.length i)
/-- `len(b)` -/
def len (b : Bytes) : Int := (b.length : Int)
/-- `len(l)` of a list of byte strings -/
def lenL (l : List Bytes) : Int := (l.length : Int)
/-- `b''.join(l)` -/
def join (l : List Bytes) : Bytes := l.flatten
/-- truth value of a byte string -/
def truthy (b : Bytes) : Bool := !b.isEmpty

/-- first index `i` such that `d` is a prefix of `xs.drop i` -/
def findFrom (d : Bytes) : Bytes → Option Nat
  | [] => if d.isPrefixOf [] then some 0 else none
  | x :: xs => if d.isPrefixOf (x :: xs) then some 0 else (findFrom d xs).map (· + 1)

/-- `xs.find(d, start, stop)`: the lowest index in `xs[start:stop]` where `d` occurs, else `-1`.  CPython's
    `ADJUST_INDICES`: `stop` is normalised like a slice bound; a negative `start` counts from the end and is clamped to 0,
    but a `start` beyond the end is NOT clamped: nothing is found then, not even an empty `d`. -/
def find (xs d : Bytes) (start stop : Int) : Int :=
  let e := normIdx xs.length stop
  let s := if start < 0 then (start + (xs.length : Int)).toNat else start.toNat
  if s > e then -1
  else match findFrom d ((xs.take e).drop s) with
    | some o => ((o + s : Nat) : Int)
    | none => -1

/-! ## statements -/

/-- the frame a method body runs on: the object state, the locals, the world -/
structure Fr (S L W : Type) where
  self : S
  loc : L
  w : W

/-- how a statement list ends -/
inductive Out (R : Type) where
  | next                 -- falls through
  | ret (v : R)          -- `return v`
  | brk                  -- `break`
  | exc (e : Exc)        -- raises
deriving Repr

abbrev Blk (σ R : Type) := σ → Out R × σ

namespace Blk
variable {σ R α S L W : Type}

/-- `pass`, an empty statement list -/
def skip : Blk σ R := fun s => (.next, s)

/-- `A` then `B`: `B` runs only when `A` fell through -/
def seq (a b : Blk σ R) : Blk σ R := fun s =>
  match a s with
  | (.next, s1) => b s1
  | r => r

/-- assignments (to locals / attributes) of pure expressions; a tuple assignment evaluates every right-hand side on
    the frame before the statement -/
def assign (f : σ → σ) : Blk σ R := fun s => (.next, f s)

/-- `return e` -/
def ret (f : σ → R) : Blk σ R := fun s => (.ret (f s), s)

/-- `break` -/
def brk : Blk σ R := fun s => (.brk, s)

/-- `raise e` (also the bare `raise` inside a handler: `e` is then the handler's exception) -/
def raise (f : σ → Exc) : Blk σ R := fun s => (.exc (f s), s)

/-- `if c: A else: B` -/
def ite (c : σ → Bool) (a b : Blk σ R) : Blk σ R := fun s => if c s then a s else b s

/-- a call of an operation of the wrapped socket / the clock: it may change the world; its value is stored by `k` -/
def call (op : Fr S L W → W → Except Exc α × W) (k : Fr S L W → α → Fr S L W) : Blk (Fr S L W) R := fun s =>
  match op s s.w with
  | (.error e, w1) => (.exc e, { s with w := w1 })
  | (.ok v, w1) => (.next, k { s with w := w1 } v)

/-- a call of a translated method of the same object: it may change the object state and the world -/
def callm (m : Fr S L W → S → W → Except Exc α × S × W) (k : Fr S L W → α → Fr S L W) : Blk (Fr S L W) R := fun s =>
  match m s s.self s.w with
  | (.error e, st1, w1) => (.exc e, { s with self := st1, w := w1 })
  | (.ok v, st1, w1) => (.next, k { s with self := st1, w := w1 } v)

/-- `try: A except …: … [else: C]`.  `h e` is the body of the FIRST handler whose class matches `e` (`none`: no handler
    matches, the exception propagates).  The handler runs on the frame at the raising point; exceptions raised by a
    handler or by the `else` clause are not caught here; `return` / `break` inside `A` leave the statement. -/
def tryExcept (a : Blk σ R) (h : Exc → Option (Blk σ R)) (orelse : Blk σ R) : Blk σ R := fun s =>
  match a s with
  | (.exc e, s1) =>
    (match h e with
     | some hb => hb s1
     | none => (.exc e, s1))
  | (.next, s1) => orelse s1
  | r => r

/-- `while c: A else: B` with `fuel` iterations at most (`outOfFuel` beyond).  `break` leaves the loop without running
    `B`; the loop falls through to `B` when `c` is false. -/
def whileLoop (c : σ → Bool) (a orelse : Blk σ R) : Nat → Blk σ R
  | 0 => fun s => (.exc .outOfFuel, s)
  | fuel + 1 => fun s =>
    if c s then
      match a s with
      | (.next, s1) => whileLoop c a orelse fuel s1
      | (.brk, s1) => (.next, s1)
      | r => r
    else orelse s

end Blk

/-- what a method call leaves: the value (falling off the end = `return None`), the object state, the world -/
def finishMethod {S L W R : Type} [Inhabited R] (x : Out R × Fr S L W) : Except Exc R × S × W :=
  match x with
  | (.ret v, s) => (.ok v, s.self, s.w)
  | (.next, s) => (.ok default, s.self, s.w)
  | (.exc e, s) => (.error e, s.self, s.w)
  | (.brk, s) => (.error .outOfFuel, s.self, s.w)      -- not generated: `break` outside a loop is refused

/-- run a method body: frame from the object state, fresh locals and the world -/
def runMethod {S L W R : Type} [Inhabited R] (body : Blk (Fr S L W) R) (self : S) (loc : L) (w : W) :
    Except Exc R × S × W :=
  finishMethod (body ⟨self, loc, w⟩)

end PyRtC12
