/-
C03 — SOURCE TIE (round 3b).  C03 is anchored in the same methods as C02: every public method of `LRI` / `LRU` runs
`with self._lock:` around a body that reads and writes the cache.  `Src.cacheutils.LRI.*` / `LRU.*` are generated from
the current source text of those bodies on every run (`with self._lock:` is transparent to the translator: one method
call is ONE function of the object state at entry — the translator refuses anything a body could depend on besides its
arguments and that state).  This file makes the C02 source tie an obligation of the C03 check as well, and adds the
C03-flavoured statement:

  * `srcSys lru`: the system whose operation bodies are the GENERATED definitions, each a single atomic micro-step
    (`src_body_atomic`: the body's meaning is `C02.srcStep`, a function of the state at entry only — which is exactly the
    shape `C03.serializable` needs of a lock-protected body);
  * `src_serializable`: under EVERY schedule, a complete concurrent execution of translated public calls on the generated
    machine ends in the state of the sequential history in lock-acquisition order, which is the image of the
    pointer-level model's state (`C02.src_history_refines`), satisfies the simulation invariant and holds at most
    `max_size` items; every thread got the results of that sequential run.

The per-method theorems restate (`type_of%`) the ties of `C02/SrcTie.lean` under C03 names.
-/
import BoltonsVerif.C02.SrcTie
import BoltonsVerif.C03.Props

set_option linter.unusedSectionVars false
namespace C03

open Src.cacheutils PyHeap

/-! ### the per-method ties of C02, as obligations of C03 (statements: see `C02/SrcTie.lean`) -/

theorem src_init_ll_eq_model : type_of% @C02.src_init_ll_eq_model := @C02.src_init_ll_eq_model
theorem src_move_to_front_eq_model : type_of% @C02.src_move_to_front_eq_model := @C02.src_move_to_front_eq_model
theorem src_add_to_front_eq_model : type_of% @C02.src_add_to_front_eq_model := @C02.src_add_to_front_eq_model
theorem src_evict_last_eq_model : type_of% @C02.src_evict_last_eq_model := @C02.src_evict_last_eq_model
theorem src_remove_from_ll_eq_model : type_of% @C02.src_remove_from_ll_eq_model := @C02.src_remove_from_ll_eq_model
theorem src_setitem_eq_model : type_of% @C02.src_setitem_eq_model := @C02.src_setitem_eq_model
theorem src_getitem_eq_model : type_of% @C02.src_getitem_eq_model := @C02.src_getitem_eq_model
theorem src_lru_getitem_eq_model : type_of% @C02.src_lru_getitem_eq_model := @C02.src_lru_getitem_eq_model
theorem src_get_eq_model : type_of% @C02.src_get_eq_model := @C02.src_get_eq_model
theorem src_lru_get_eq_model : type_of% @C02.src_lru_get_eq_model := @C02.src_lru_get_eq_model
theorem src_setdefault_eq_model : type_of% @C02.src_setdefault_eq_model := @C02.src_setdefault_eq_model
theorem src_lru_setdefault_eq_model : type_of% @C02.src_lru_setdefault_eq_model := @C02.src_lru_setdefault_eq_model
theorem src_delitem_eq_model : type_of% @C02.src_delitem_eq_model := @C02.src_delitem_eq_model
theorem src_pop_eq_model : type_of% @C02.src_pop_eq_model := @C02.src_pop_eq_model
theorem src_popitem_eq_model : type_of% @C02.src_popitem_eq_model := @C02.src_popitem_eq_model
theorem src_clear_eq_model : type_of% @C02.src_clear_eq_model := @C02.src_clear_eq_model
theorem src_update_pairs_eq_model : type_of% @C02.src_update_pairs_eq_model := @C02.src_update_pairs_eq_model
theorem src_update_dict_eq_model : type_of% @C02.src_update_dict_eq_model := @C02.src_update_dict_eq_model
theorem src_step_simulates : type_of% @C02.src_step_simulates := @C02.src_step_simulates
theorem src_history_refines : type_of% @C02.src_history_refines := @C02.src_history_refines

/-! ### the generated bodies as atomic steps of the C03 system -/

variable {K V : Type} [DecidableEq K] [Inhabited K] [Inhabited V] [DecidableEq V]

/-- a translated public call (`C02.Op.tied`: the methods whose source is translated; keyword arguments are a dict) -/
abbrev TiedOp (K V : Type) [DecidableEq K] := { op : C02.Op K V // C02.Op.tied op }

/-- the body of a public method AS GENERATED FROM THE SOURCE: one micro-step that replaces the object state by the
    state the generated definition computes from the state at entry, then returns what it computed from that same
    state -/
def srcBody (lru : Bool) (o : TiedOp K V) : Prog (LRI.St K V) (C02.Out K V Unit) :=
  .step (fun st => (C02.srcStep lru st o.1).2) (fun st => .ret (C02.srcStep lru st o.1).1)

/-- the system of the generated bodies; every one of them is under `with self._lock:` (regenerated table
    `Generated/C03_CacheLocks.lean`, theorem `all_state_methods_protected`) -/
def srcSys (lru : Bool) : Sys (LRI.St K V) (TiedOp K V) (C02.Out K V Unit) :=
  { body := srcBody lru, protect := fun _ => true }

/-- ATOMICITY of the generated bodies: the sequential meaning of a body is the generated definition applied to the
    state at entry — it depends on nothing else (no other shared variable, no second read of the state), and it is
    well nested (it takes the lock once) -/
theorem src_body_atomic (lru : Bool) (o : TiedOp K V) (st : LRI.St K V) :
    runProg (srcBody lru o) st = ((C02.srcStep lru st o.1).2, (C02.srcStep lru st o.1).1) ∧ WN 0 (srcBody lru o) :=
  ⟨rfl, fun _ => rfl⟩

theorem src_serialState (lru : Bool) (st : LRI.St K V) (log : List (Tid × TiedOp K V)) :
    serialState (srcSys lru) st log = C02.srcRun lru st (log.map (·.2.1)) := by
  induction log generalizing st with
  | nil => rfl
  | cons e es ih =>
    simp only [serialState, List.foldl_cons, List.map_cons, C02.srcRun] at ih ⊢
    exact ih _

/-- SERIALIZABILITY OF THE GENERATED MACHINE: under every schedule, a complete concurrent execution of translated
    public calls on a fresh cache — the bodies being the definitions generated from the source — ends in the state of
    the sequential history in lock-acquisition order `log` (which respects every thread's program order); that state
    is the image of the pointer-level model's state after the same history, satisfies the simulation invariant
    (well-formed ring, dict / table / ring in step) and holds at most `max_size` items; every thread obtained the
    results of that sequential run; the lock is free. -/
theorem src_serializable (lru : Bool) (max : Nat) (hmax : 1 ≤ max) (om : Option (K → C02.OmRes V))
    (progs : List (List (TiedOp K V))) (sch : List Tid) (c : Cfg (LRI.St K V) (TiedOp K V) (C02.Out K V Unit))
    (hexec : (Cfg.init (C02.srcInit max om) progs).exec (srcSys lru) sch = some c) (hdone : c.complete = true) :
    ∃ log : List (Tid × TiedOp K V),
      (∀ i p, progs[i]? = some p → opsOf i log = p) ∧
      c.shared = C02.srcRun lru (C02.srcInit max om) (log.map (·.2.1)) ∧
      c.shared = C02.conc (C02.hrun (C02.HCache.initP lru max om) (log.map (·.2.1))) ∧
      C02.SrcInv (C02.hrun (C02.HCache.initP lru max om) (log.map (·.2.1))) ∧
      PyRt.Dict.len c.shared.d ≤ c.shared.max_size ∧
      (∀ i t, c.threads[i]? = some t → t.outs = serialOuts (srcSys lru) (C02.srcInit max om) i log) ∧
      c.owner = none := by
  obtain ⟨log, hprog, hsh, houts, hown⟩ :=
    serializable (srcSys lru) (C02.srcInit max om) progs (fun _ => rfl) (fun o => (src_body_atomic lru o (C02.srcInit max om)).2)
      sch c hexec hdone
  have hrun := src_serialState lru (C02.srcInit max om) log
  have htied : ∀ op ∈ log.map (·.2.1), C02.Op.tied op := by
    intro op hop
    obtain ⟨e, _, rfl⟩ := List.mem_map.1 hop
    exact e.2.2
  obtain ⟨h1, _, h3⟩ := C02.src_history_refines lru max hmax om _ htied
  have hsz := (C02.src_size_le_max lru max hmax om _ htied).1
  refine ⟨log, hprog, hsh.trans hrun, (hsh.trans hrun).trans h1, h3, ?_, houts, hown⟩
  rw [hsh, hrun]
  exact hsz

end C03
