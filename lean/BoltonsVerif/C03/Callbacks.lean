import BoltonsVerif.C03.Model
import BoltonsVerif.C02.Model
/-
C03 — "a single C-level call" is NOT one atomic step when it calls back into Python.

`dict.__eq__(cache, other)` walks the items of the cache and, per item, compares the stored value with the
other mapping's value (`PyObject_RichCompare`).  With values (or keys) whose `__eq__` / `__hash__` is written in
Python every such comparison runs bytecode, i.e. is a point where the interpreter may switch threads: the call is
a PROGRAM of one shared-state read per item (`eqBody`), not one step.  Likewise `update(E, **F)` is the positional
part followed by one `__setitem__` per keyword item; if only the positional part sits inside the lock region and
every keyword item takes the lock on its own (`splitUpdBody`), the call is a sequence of separately atomic pieces.

The dict is the C02 dict model (`C02.lookup` / `C02.dset` on an association list in insertion order).
Core Lean only.
-/
namespace C03.Callbacks
open C03

abbrev D := List (Nat × Nat)

/-- item-wise comparison, as `dict_equal` does it: entry `i` of the dict AS IT IS NOW is fetched and compared with
    `o`'s value for that key (one read of the shared state per item - the value's `__eq__` runs in between) -/
def eqItems (o : D) : Nat → Nat → Prog D Bool
  | 0, _ => .ret true
  | fuel + 1, i => .step id fun s =>
      match s[i]? with
      | none => .ret true
      | some p => if C02.lookup p.1 o = some p.2 then eqItems o fuel (i + 1) else .ret false

/-- `dict.__eq__(self, o)`: lengths first, then item by item -/
def eqBody (o : D) : Prog D Bool :=
  .step id fun s => if s.length = o.length then eqItems o s.length 0 else .ret false

/-- `update(pairs)`: the writes of one call (a single step here: the writer is always lock-protected below, so
    its own granularity is irrelevant) -/
def setAll (l : D) (s : D) : D := l.foldl (fun s p => C02.dset p.1 p.2 s) s

inductive Op where
  | eq (o : D)                  -- cache == o
  | upd (l : D)                 -- cache.update(l) / cache.update(**l), wholly inside one lock region
  | splitUpd (pos kw : D)       -- update(pos, **kw) with the keyword loop OUTSIDE the region: every keyword item is
                                -- stored by its own, separately locked, __setitem__

inductive Out where
  | none
  | bool (b : Bool)
deriving DecidableEq, Repr

def liftBool : Prog D Bool → Prog D Out
  | .ret b => .ret (.bool b)
  | .step f k => .step f fun s => liftBool (k s)
  | .acq p => .acq (liftBool p)
  | .rel p => .rel (liftBool p)

/-- the keyword items, each under its own acquisition of the lock -/
def kwEach : D → Prog D Out
  | [] => .ret .none
  | p :: rest => .acq (.step (C02.dset p.1 p.2) fun _ => .rel (kwEach rest))

def body : Op → Prog D Out
  | .eq o => liftBool (eqBody o)
  | .upd l => .step (setAll l) fun _ => .ret .none
  | .splitUpd pos kw => .acq (.step (setAll pos) fun _ => .rel (kwEach kw))

/-- the two defects: `__eq__` without the lock ("a single C-level call"), and `update(pos, **kw)` whose keyword
    loop was moved out of the lock region (the call as a whole is not protected, its pieces are) -/
def badSys : Sys D Op Out where
  body := body
  protect := fun o => match o with
    | .eq _ => false
    | .upd _ => true
    | .splitUpd _ _ => false

/-- the code as it is: every method body - the item-wise comparison, and the positional part FOLLOWED BY the keyword
    items of `update` - lies inside one lock region -/
def goodBody : Op → Prog D Out
  | .eq o => liftBool (eqBody o)
  | .upd l => .step (setAll l) fun _ => .ret .none
  | .splitUpd pos kw => .step (setAll pos) fun _ => .step (setAll kw) fun _ => .ret .none

def goodSys : Sys D Op Out where
  body := goodBody
  protect := fun _ => true

theorem eqItems_wn (o : D) : ∀ fuel i, WN 0 (liftBool (eqItems o fuel i))
  | 0, _ => by simp [eqItems, liftBool, WN]
  | fuel + 1, i => by
    simp only [eqItems, liftBool, WN]
    intro s
    split
    · simp [liftBool, WN]
    · split
      · exact eqItems_wn o fuel (i + 1)
      · simp [liftBool, WN]

theorem eqBody_wn (o : D) : WN 0 (liftBool (eqBody o)) := by
  simp only [eqBody, liftBool, WN]
  intro s
  split
  · exact eqItems_wn o _ _
  · simp [liftBool, WN]

theorem goodBody_wn : ∀ o, WN 0 (goodSys.body o)
  | .eq o => eqBody_wn o
  | .upd _ => by simp [goodSys, goodBody, WN]
  | .splitUpd _ _ => by simp [goodSys, goodBody, WN]

/-- sequentially the item-wise program is `C02.dictEq` whenever the keys of the dict are distinct - stated for the
    run of the body on a fixed dict: no state change, and the answer is computed from that one dict -/
theorem eqBody_run_state (o s : D) : (runProg (eqBody o) s).1 = s := by
  have h : ∀ fuel i, (runProg (eqItems o fuel i) s).1 = s := by
    intro fuel
    induction fuel with
    | zero => intro i; simp [eqItems, runProg]
    | succ n ih =>
      intro i
      simp only [eqItems, runProg, id]
      split
      · simp [runProg]
      · split
        · exact ih _
        · simp [runProg]
  simp only [eqBody, runProg, id]
  split
  · exact h _ _
  · simp [runProg]

theorem eqItems_run (o s : D) : ∀ fuel i, s.length ≤ i + fuel →
    (runProg (eqItems o fuel i) s).2 = (s.drop i).all (fun p => C02.lookup p.1 o == some p.2)
  | 0, i, h => by
    have : s.drop i = [] := List.drop_eq_nil_of_le (by omega)
    simp [eqItems, runProg, this]
  | fuel + 1, i, h => by
    simp only [eqItems, runProg, id]
    by_cases hi : i < s.length
    · have hd : s.drop i = s[i] :: s.drop (i + 1) := List.drop_eq_getElem_cons hi
      rw [List.getElem?_eq_getElem hi, hd]
      simp only [List.all_cons]
      by_cases hm : C02.lookup s[i].1 o = some s[i].2
      · simp only [hm, if_true, beq_self_eq_true, Bool.true_and]
        exact eqItems_run o s fuel (i + 1) (by omega)
      · simp [hm, runProg]
    · have : s.drop i = [] := List.drop_eq_nil_of_le (by omega)
      rw [List.getElem?_eq_none (by omega), this]
      simp [runProg]

/-- run atomically, the item-wise comparison IS the C02 model's `dict.__eq__` -/
theorem eqBody_run (o s : D) : (runProg (eqBody o) s).2 = C02.dictEq s o := by
  simp only [eqBody, runProg, id, C02.dictEq]
  by_cases hl : s.length = o.length
  · simp only [hl, if_true, beq_self_eq_true, Bool.true_and]
    rw [← hl, eqItems_run o s s.length 0 (by omega)]
    simp
  · simp [hl, runProg]

end C03.Callbacks
