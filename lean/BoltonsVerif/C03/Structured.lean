import BoltonsVerif.C03.Model
/-
C03 — structured lock usage.  The source takes the lock only through block-structured forms
(`with self._lock: BODY`, or `self._lock.acquire(); try: BODY finally: self._lock.release()`, or a call of
a helper that does one of these), and nested calls of other public methods (`get → self[key]`,
`__getitem__ → on_miss → self[key] = …`, `__ior__ → update → __setitem__`) are again such blocks.
`withLock p` is that block: acquire, run `p` to its result (a value or an exception — both are results
here, the `finally` / `__exit__` runs for either), release, deliver the result.

Proved here: every program built from micro-steps, sequencing and `withLock` is well nested
(`Structured.wn`), so the hypothesis `hwn` of `C03.serializable` is discharged by the *shape* of the code;
and the lock is transparent for the sequential meaning (`runProg_withLock`).  Core Lean only.
-/
namespace C03
variable {S A B : Type}

/-- sequencing: run `p`, feed its result to `k` -/
def Prog.bind : Prog S A → (A → Prog S B) → Prog S B
  | .ret a, k => k a
  | .step f c, k => .step f (fun s => (c s).bind k)
  | .acq p, k => .acq (p.bind k)
  | .rel p, k => .rel (p.bind k)

/-- `with self._lock: p`  ≡  `self._lock.acquire(); try: p finally: self._lock.release()` -/
def withLock (p : Prog S A) : Prog S A := .acq (p.bind fun a => .rel (.ret a))

theorem runProg_bind (p : Prog S A) (k : A → Prog S B) (s : S) :
    runProg (p.bind k) s = runProg (k (runProg p s).2) (runProg p s).1 := by
  induction p generalizing s with
  | ret a => simp [Prog.bind, runProg]
  | step f c ih => simp [Prog.bind, runProg, ih]
  | acq p ih => simp [Prog.bind, runProg, ih]
  | rel p ih => simp [Prog.bind, runProg, ih]

/-- sequentially the lock changes nothing -/
theorem runProg_withLock (p : Prog S A) (s : S) : runProg (withLock p) s = runProg p s := by
  simp [withLock, runProg, runProg_bind]

/-- `p` started with `n` acquisitions open ends every run with `m` open, never releasing below zero -/
def WNto : Nat → Nat → Prog S A → Prop
  | n, m, .ret _ => n = m
  | n, m, .step _ k => ∀ s, WNto n m (k s)
  | n, m, .acq p => WNto (n + 1) m p
  | n, m, .rel p => 1 ≤ n ∧ WNto (n - 1) m p

theorem wn_iff_wnto (n : Nat) (p : Prog S A) : WN n p ↔ WNto n 0 p := by
  induction p generalizing n with
  | ret a => simp [WN, WNto]
  | step f c ih => simp only [WN, WNto]; exact forall_congr' fun s => ih s n
  | acq p ih => simp only [WN, WNto]; exact ih (n + 1)
  | rel p ih => simp only [WN, WNto]; exact and_congr Iff.rfl (ih (n - 1))

theorem WNto.bind {n m l : Nat} {p : Prog S A} {k : A → Prog S B}
    (hp : WNto n m p) (hk : ∀ a, WNto m l (k a)) : WNto n l (p.bind k) := by
  induction p generalizing n with
  | ret a => simp only [WNto] at hp; subst hp; exact hk a
  | step f c ih => intro s; exact ih s (hp s)
  | acq p ih => exact ih hp
  | rel p ih => exact ⟨hp.1, ih hp.2⟩

/-- a block that is balanced inside stays balanced when wrapped in the lock -/
theorem WNto.withLock {n : Nat} {p : Prog S A} (hp : WNto (n + 1) (n + 1) p) : WNto n n (withLock p) := by
  show WNto (n + 1) n (p.bind fun a => .rel (.ret a))
  refine hp.bind fun a => ?_
  exact ⟨Nat.le_add_left 1 n, by simp [WNto]⟩

/-- balanced programs are balanced at every depth -/
theorem WNto.lift {n m : Nat} {p : Prog S A} (hp : WNto n m p) (d : Nat) : WNto (n + d) (m + d) p := by
  induction p generalizing n with
  | ret a => simp only [WNto] at hp ⊢; omega
  | step f c ih => intro s; exact ih s (hp s)
  | acq p ih =>
    have := ih (n := n + 1) hp
    simp only [WNto]; rwa [Nat.add_right_comm] at this
  | rel p ih =>
    obtain ⟨h1, h2⟩ := hp
    refine ⟨by omega, ?_⟩
    have := ih (n := n - 1) h2
    have e : n - 1 + d = n + d - 1 := by omega
    rwa [e] at this

/-- programs built the way the source builds them: micro-steps, results, sequencing, lock blocks -/
inductive Structured : Prog S A → Prop where
  | ret (a : A) : Structured (.ret a)
  | step (f : S → S) (k : S → Prog S A) : (∀ s, Structured (k s)) → Structured (.step f k)
  | locked (p : Prog S A) : Structured p → Structured (withLock p)
  | seq {C : Type} (p : Prog S C) (k : C → Prog S A) :
      (∀ n, WNto n n p) → (∀ a, Structured (k a)) → Structured (p.bind k)

theorem Structured.balanced {p : Prog S A} (h : Structured p) : ∀ n, WNto n n p := by
  induction h with
  | ret a => intro n; simp [WNto]
  | step f k _ ih => intro n s; exact ih s n
  | locked p _ ih => intro n; exact (ih (n + 1)).withLock
  | seq p k hp _ ih => intro n; exact (hp n).bind fun a => ih a n

/-- structured lock usage is well nested: the `hwn` hypothesis of `serializable` follows from the shape
    of the code -/
theorem Structured.wn {p : Prog S A} (h : Structured p) : WN 0 p :=
  (wn_iff_wnto 0 p).mpr (h.balanced 0)

end C03
