import BoltonsVerif.C03.Structured
import BoltonsVerif.C02.Model
/-
C03 — a concrete NON-atomic decomposition of the cache methods, following the statement order of
`LRI.__setitem__`:

    with self._lock:
        try: link = self._get_link_and_move_to_front_of_ll(key)         -- ring  (hit)
        except KeyError:
            if len(self) < self.max_size: self._set_key_and_add_to_front_of_ll(key, value)   -- ring
            else: evicted = self._set_key_and_evict_last_in_ll(key, value)                   -- ring
                  super().__delitem__(evicted)                                               -- dict delete
        else: link[VALUE] = value
        super().__setitem__(key, value)                                                      -- dict insert

i.e. three separate writes (ring, dict delete, dict insert); between them ring and dict disagree.  Every
other method is one write followed by the delivery of its result.  `microBody_meaning` shows that run
without interruption the decomposition means exactly the C02 step, so it is an instance of the `body`
the theorems quantify over — one whose intermediate states really are inconsistent.
-/
namespace C03
open C02
variable {K V : Type} [DecidableEq K] [DecidableEq V]

abbrev COut (K V : Type) := C02.Out K V (C02.Cache K V)

/-- does `c[k] = v` evict, and which key? (`none` also for the unreachable empty-ring branch) -/
def evictee (c : Cache K V) (k : K) : Option K :=
  match lookup k c.ring with
  | some _ => none
  | none => if c.d.length < c.max then none else match c.ring with
    | [] => none
    | e :: _ => some e.1

/-- the unreachable branch of `setitem` (evict from an empty ring) changes nothing at all -/
def degenerate (c : Cache K V) (k : K) : Bool :=
  match lookup k c.ring with
  | some _ => false
  | none => if c.d.length < c.max then false else c.ring.isEmpty

/-- the three writes of `__setitem__`, each as a function of the state it runs in and of the locals
    computed from the state `c0` seen when the operation started -/
def ringWrite (k : K) (v : V) (c : Cache K V) : Cache K V := { c with ring := (c.setitem k v).ring }
def dictDelete (c0 : Cache K V) (k : K) (c : Cache K V) : Cache K V :=
  match evictee c0 k with
  | some e => { c with d := eraseKey e c.d }
  | none => c
def dictInsert (c0 : Cache K V) (k : K) (v : V) (c : Cache K V) : Cache K V :=
  if degenerate c0 k then c else { c with d := dset k v c.d }

def setitemBody (k : K) (v : V) : Prog (Cache K V) (COut K V) :=
  .step (ringWrite k v) fun c0 =>
    .step (dictDelete c0 k) fun _ =>
      .step (dictInsert c0 k v) fun _ => .ret .none

/-- every other method: one write, then its result -/
def atomicBody (o : Op K V) : Prog (Cache K V) (COut K V) :=
  .step (fun c => (step c o).1) fun c0 => .ret (step c0 o).2

def microBody : Op K V → Prog (Cache K V) (COut K V)
  | .setitem k v => setitemBody k v
  | o => atomicBody o

theorem setitemBody_meaning (k : K) (v : V) (c : Cache K V) :
    runProg (setitemBody k v) c = (c.setitem k v, .none) := by
  simp only [setitemBody, runProg]
  congr 1
  obtain ⟨lru, max, om, d, ring, hit, miss, soft, omLog⟩ := c
  cases hl : lookup k ring with
  | some x => simp [dictInsert, dictDelete, ringWrite, evictee, degenerate, Cache.setitem, hl]
  | none =>
    by_cases hlt : d.length < max
    · simp [dictInsert, dictDelete, ringWrite, evictee, degenerate, Cache.setitem, hl, hlt]
    · cases ring with
      | nil => simp [dictInsert, dictDelete, ringWrite, evictee, degenerate, Cache.setitem, hl, hlt]
      | cons e rest => simp [dictInsert, dictDelete, ringWrite, evictee, degenerate, Cache.setitem, hl, hlt]

/-- run without interruption, the decomposition is the C02 step -/
theorem microBody_meaning (o : Op K V) (c : Cache K V) : runProg (microBody o) c = step c o := by
  cases o <;> first
    | (simp only [microBody]; rw [setitemBody_meaning]; rfl)
    | simp [microBody, atomicBody, runProg]

theorem microBody_wn (o : Op K V) : WN 0 (microBody (K := K) (V := V) o) := by
  cases o <;> simp [microBody, atomicBody, setitemBody, WN]

end C03
