import BoltonsVerif.C03.Proofs
import BoltonsVerif.C03.Micro
import BoltonsVerif.C03.Readers
import BoltonsVerif.C03.Callbacks
import BoltonsVerif.Generated.C03_CacheLocks
import BoltonsVerif.C02.Proofs
/-
C03 — property theorems: lock-protected operations are atomic under EVERY
interleaving of micro-steps (every schedule), whatever the decomposition of a
method body into micro-steps is.

`sys.body o` is any small-step program for operation `o`; the hypotheses are
exactly what the translator re-establishes from the current source on every run:
every state-touching public method of LRI/LRU runs under `with self._lock`
(`all_state_methods_protected`, regenerated table) and nested acquisitions are
re-entrant and well nested.
-/
namespace C03
variable {S Op Out : Type}

/-- Serializability.  Any complete execution under any schedule equals the
    sequential execution of the same operations in the order `log` in which they
    took the lock; `log` respects each thread's program order; every thread got
    exactly the results of that sequential run. -/
theorem serializable (sys : Sys S Op Out) (s0 : S) (progs : List (List Op))
    (hprot : ∀ o, sys.protect o = true) (hwn : ∀ o, WN 0 (sys.body o))
    (sch : List Tid) (c : Cfg S Op Out)
    (hexec : (Cfg.init s0 progs).exec sys sch = some c) (hdone : c.complete = true) :
    ∃ log : List (Tid × Op),
      (∀ i p, progs[i]? = some p → opsOf i log = p) ∧
      c.shared = serialState sys s0 log ∧
      (∀ i t, c.threads[i]? = some t → t.outs = serialOuts sys s0 i log) ∧
      c.owner = none := by
  have hinv := inv_exec sys s0 progs hprot hwn _ c sch (inv_init sys s0 progs) hexec
  obtain ⟨hlen, hprog, hst⟩ := hinv
  have hall : ∀ (j : Tid) (t : Thread S Op Out), c.threads[j]? = some t → t.todo = [] ∧ t.cur = none := by
    intro j t hj
    have hmem : t ∈ c.threads := List.mem_of_getElem? hj
    have := List.all_eq_true.mp hdone t hmem
    simp only [Thread.done, Bool.and_eq_true, List.isEmpty_iff, Option.isNone_iff_eq_none] at this
    exact this
  refine ⟨c.log, ?_, ?_⟩
  · intro i p hp
    have hi : i < c.threads.length := by
      rw [hlen]; exact lt_of_getElem?_some hp
    have ht : c.threads[i]? = some c.threads[i] := List.getElem?_eq_getElem hi
    have := hprog i _ ht
    rw [hp, (hall i _ ht).1] at this
    simp at this
    exact this.symm
  · rcases hst with ⟨hown, hidle, hsh⟩ | ⟨i0, t0, p0, _, _, _, ht0, hc0, _⟩
    · exact ⟨hsh, fun i t hi => (hidle i t hi).2, hown⟩
    · have := (hall i0 t0 ht0).2
      rw [hc0] at this; cases this

/-- Mutual exclusion: in every reachable configuration at most one thread is
    inside an operation. -/
theorem mutual_exclusion (sys : Sys S Op Out) (s0 : S) (progs : List (List Op))
    (hprot : ∀ o, sys.protect o = true) (hwn : ∀ o, WN 0 (sys.body o))
    (sch : List Tid) (c : Cfg S Op Out) (hexec : (Cfg.init s0 progs).exec sys sch = some c)
    (i j : Tid) (ti tj : Thread S Op Out)
    (hi : c.threads[i]? = some ti) (hj : c.threads[j]? = some tj)
    (hci : ti.cur ≠ none) (hcj : tj.cur ≠ none) : i = j := by
  have hinv := inv_exec sys s0 progs hprot hwn _ c sch (inv_init sys s0 progs) hexec
  rcases hinv.st with ⟨_, hidle, _⟩ | ⟨i0, t0, p0, _, _, _, ht0, hc0, _, _, _, _, hoth, _, _⟩
  · exact absurd (hidle i ti hi).1 hci
  · have h1 : i = i0 := Classical.byContradiction fun h => hci (hoth i ti h hi)
    have h2 : j = i0 := Classical.byContradiction fun h => hcj (hoth j tj h hj)
    rw [h1, h2]

/-- No deadlock (re-entrancy is safe): a reachable configuration that is not
    complete always has an enabled thread, so every maximal schedule completes. -/
theorem no_deadlock (sys : Sys S Op Out) (s0 : S) (progs : List (List Op))
    (hprot : ∀ o, sys.protect o = true) (hwn : ∀ o, WN 0 (sys.body o))
    (sch : List Tid) (c : Cfg S Op Out) (hexec : (Cfg.init s0 progs).exec sys sch = some c)
    (hnot : c.complete = false) : ∃ i, (c.step sys i).isSome = true := by
  have hinv := inv_exec sys s0 progs hprot hwn _ c sch (inv_init sys s0 progs) hexec
  rcases hinv.st with ⟨hown, hidle, _⟩ | ⟨i0, t0, p0, d0, o0, _, ht0, hc0, hh0, hown0, hwn0, _⟩
  · -- idle: some thread still has work and the lock is free
    have : ∃ t ∈ c.threads, Thread.done t = false := by
      simpa [Cfg.complete, List.all_eq_false] using hnot
    obtain ⟨t, hmem, hnd⟩ := this
    obtain ⟨i, hi⟩ := List.getElem?_of_mem hmem
    have hcur := (hidle i t hi).1
    refine ⟨i, ?_⟩
    unfold Cfg.step
    simp only [hi, hcur]
    cases htodo : t.todo with
    | nil => simp [Thread.done, htodo, hcur] at hnd
    | cons o rest => simp [hprot o, hown, tryAcquire]
  · -- busy: the holder can always move
    refine ⟨i0, ?_⟩
    unfold Cfg.step
    simp only [ht0, hc0]
    cases p0 with
    | ret out =>
      have hd0 : d0 = 0 := by simpa [WN] using hwn0
      subst hd0
      simp [hh0, hown0, release]
    | step f k => simp
    | acq p' => simp [hown0, tryAcquire]
    | rel p' =>
      simp only [WN] at hwn0
      have : ¬ (d0 + 1 ≤ 1) := by omega
      simp [hown0, release, this]

/-! The tie to the source: the translator regenerates `Generated.C03.methods` from the AST of
    `LRI`/`LRU` on every run (class, method, touches private state?, every such reference inside a lock
    region?, has a lock region?, how the lock is taken, number of cache operations invoked outside
    every lock region).  A lock region is recognised in any of its equivalent spellings:
    `with self._lock:`, `self._lock.acquire(); try: … finally: self._lock.release()`, a locking decorator,
    or a call of a private helper that is itself wholly locked. -/

/-- every public LRI/LRU method that touches ring/dict/lookup-table state does so only inside a lock region -/
theorem all_state_methods_protected :
    ∀ m ∈ Generated.C03.methods, m.touches = true → m.locked = true := by
  decide

/-- no public method is a *composite* of separately-atomic steps: outside its lock regions a method
    invokes no cache operation at all, or it consists of exactly one such invocation and nothing else
    that touches state (`__ne__` = one `self == other`; `__repr__` = one C-level `dict.__repr__`).
    A check-then-act such as `if key not in self: … ; return self[key]` is rejected here. -/
theorem public_methods_atomic :
    ∀ m ∈ Generated.C03.methods,
      m.outsideOps = 0 ∨ (m.outsideOps = 1 ∧ m.region = false ∧ m.touches = false) := by
  decide

/-! The same two facts recomputed INSIDE Lean from the raw references the translator emits
    (`Generated.C03.Method.refs`: what is referenced, is it state / an operation, is it under the lock, is it
    in a loop), so that the *judgement* "protected / atomic" is Lean's and Python only transcribes the AST. -/

def touchesR (m : Generated.C03.Method) : Bool := m.refs.any (·.touch)
def lockedR (m : Generated.C03.Method) : Bool :=
  m.region && !m.irregular && m.refs.all (fun r => !r.touch || r.underLock)
def outsideOpsR (m : Generated.C03.Method) : Nat :=
  (m.refs.filter (fun r => r.op && !r.underLock)).foldl (fun n r => n + (if r.inLoop then 2 else 1)) 0

theorem lock_discipline_from_refs :
    ∀ m ∈ Generated.C03.methods,
      (touchesR m = true → lockedR m = true) ∧
      (outsideOpsR m = 0 ∨ (outsideOpsR m = 1 ∧ m.region = false ∧ touchesR m = false)) := by
  decide

/-- the summary columns used above are what Lean computes from the references -/
theorem lock_table_summary_consistent :
    ∀ m ∈ Generated.C03.methods,
      m.touches = touchesR m ∧ m.locked = lockedR m ∧ m.outsideOps = outsideOpsR m := by
  decide

/-- every dict mutator is overridden by LRI (an inherited C-level mutator would bypass ring and lock) -/
theorem no_inherited_mutators : Generated.C03.inheritedMutators = [] := by
  decide

/-- ONE lock per cache for its whole life: `self._lock` is assigned in the constructor only (a lock
    re-created by `clear()` / `_init_ll()` would let a second thread in while the first still holds the
    old one), and it is the re-entrant kind (`__getitem__ → on_miss → self[key] = …` re-acquires). -/
theorem lock_created_once_reentrant :
    Generated.C03.lockAssignedIn ≠ [] ∧
    (∀ f ∈ Generated.C03.lockAssignedIn, f ∈ ["LRI.__init__", "LRU.__init__", "LRI.__new__", "LRU.__new__"]) ∧
    (∀ c ∈ Generated.C03.lockCtors, c = "RLock") := by
  decide

/-- the private ring / table helpers (which take no lock themselves) are never referenced outside a
    lock region by a public or self-locking method -/
theorem helpers_only_under_lock : Generated.C03.helperReachedUnlocked = [] := by
  decide

/-- the table is not empty and does contain state-touching methods (non-vacuity) -/
theorem lock_table_nonvacuous :
    6 ≤ (Generated.C03.methods.filter (fun m => m.touches)).length ∧
    4 ≤ Generated.C03.helpersNeedingLock.length := by
  decide

/-! ### The LRI/LRU instance

`body` is ANY decomposition of the cache methods into atomic micro-steps (the real
bytecode-level one included) whose sequential meaning is the C02 model's `step`.
Then every quiescent state reached by any number of threads under any schedule is
a state of a sequential C02 history, so it satisfies the whole C02 invariant: dict,
lookup table and ring in step (no dangling or duplicate link — the cache stays
usable), `len ≤ max_size`, `soft_miss_count ≤ miss_count`. -/

section CacheInstance
variable {K V : Type} [DecidableEq K] [DecidableEq V]

abbrev CacheOut (K V : Type) := C02.Out K V (C02.Cache K V)

def cacheSys (body : C02.Op K V → Prog (C02.Cache K V) (CacheOut K V)) :
    Sys (C02.Cache K V) (C02.Op K V) (CacheOut K V) := { body := body, protect := fun _ => true }

theorem serialState_eq_run (body : C02.Op K V → Prog (C02.Cache K V) (CacheOut K V))
    (hbody : ∀ o s, runProg (body o) s = C02.step s o) (s0 : C02.Cache K V) (log : List (Tid × C02.Op K V)) :
    serialState (cacheSys body) s0 log = C02.run s0 (log.map (·.2)) := by
  induction log generalizing s0 with
  | nil => simp [serialState, C02.run]
  | cons e es ih =>
    have h1 : serialState (cacheSys body) s0 (e :: es) =
        serialState (cacheSys body) (runProg (body e.2) s0).1 es := by simp [serialState, cacheSys]
    rw [h1, ih, hbody]; simp [C02.run]

theorem run_inv (s0 : C02.Cache K V) (h : C02.Inv s0) (ops : List (C02.Op K V)) : C02.Inv (C02.run s0 ops) := by
  induction ops generalizing s0 with
  | nil => simpa [C02.run] using h
  | cons o os ih =>
    have := ih (C02.step s0 o).1 (C02.step_inv h o)
    simpa [C02.run] using this

/-- every quiescent state of every concurrent execution is the state of a sequential
    history (in lock-acquisition order) and satisfies the C02 invariant: never more than
    `max_size` items, ring / lookup table / dict consistent -/
theorem cache_quiescent_state (body : C02.Op K V → Prog (C02.Cache K V) (CacheOut K V))
    (hbody : ∀ o s, runProg (body o) s = C02.step s o) (hwn : ∀ o, WN 0 (body o))
    (lru : Bool) (max : Nat) (hmax : 1 ≤ max) (om : Option (K → V))
    (progs : List (List (C02.Op K V))) (sch : List Tid) (c : Cfg (C02.Cache K V) (C02.Op K V) (CacheOut K V))
    (hexec : (Cfg.init (C02.Cache.init lru max om) progs).exec (cacheSys body) sch = some c)
    (hdone : c.complete = true) :
    ∃ log : List (Tid × C02.Op K V),
      (∀ i p, progs[i]? = some p → opsOf i log = p) ∧
      c.shared = C02.run (C02.Cache.init lru max om) (log.map (·.2)) ∧
      C02.Inv c.shared ∧ c.shared.d.length ≤ c.shared.max := by
  obtain ⟨log, hprog, hsh, _, _⟩ :=
    serializable (cacheSys body) (C02.Cache.init lru max om) progs (fun _ => rfl) hwn sch c hexec hdone
  have heq := serialState_eq_run body hbody (C02.Cache.init lru max om) log
  have hinv : C02.Inv c.shared := by
    rw [hsh, heq]; exact run_inv _ (C02.Inv.init lru max om hmax) _
  exact ⟨log, hprog, by rw [hsh, heq], hinv, hinv.cap⟩

/-- the same for the concrete three-write decomposition of `__setitem__` (`C03.microBody`, ring write /
    dict delete / dict insert as separate micro-steps): no hypothesis about the bodies is left -/
theorem cache_quiescent_state_micro
    (lru : Bool) (max : Nat) (hmax : 1 ≤ max) (om : Option (K → V))
    (progs : List (List (C02.Op K V))) (sch : List Tid) (c : Cfg (C02.Cache K V) (C02.Op K V) (CacheOut K V))
    (hexec : (Cfg.init (C02.Cache.init lru max om) progs).exec (cacheSys microBody) sch = some c)
    (hdone : c.complete = true) :
    ∃ log : List (Tid × C02.Op K V),
      (∀ i p, progs[i]? = some p → opsOf i log = p) ∧
      c.shared = C02.run (C02.Cache.init lru max om) (log.map (·.2)) ∧
      C02.Inv c.shared ∧ c.shared.d.length ≤ c.shared.max :=
  cache_quiescent_state microBody microBody_meaning microBody_wn lru max hmax om progs sch c hexec hdone

end CacheInstance

/-! ### Lock blocks are well nested by construction

The source takes the lock only in block-structured ways (`with self._lock:` / `acquire(); try … finally
release()` / a helper doing so; the translator records which — `Generated.C03.methods[·].form`), and a
nested call of another public method is again such a block.  For programs of that shape the hypothesis
`hwn` is a theorem (`Structured.wn`), so serializability needs the protection hypothesis only. -/

/-- serializability for structured bodies: no well-nestedness hypothesis -/
theorem serializable_structured (sys : Sys S Op Out) (s0 : S) (progs : List (List Op))
    (hprot : ∀ o, sys.protect o = true) (hstr : ∀ o, Structured (sys.body o))
    (sch : List Tid) (c : Cfg S Op Out)
    (hexec : (Cfg.init s0 progs).exec sys sch = some c) (hdone : c.complete = true) :
    ∃ log : List (Tid × Op),
      (∀ i p, progs[i]? = some p → opsOf i log = p) ∧
      c.shared = serialState sys s0 log ∧
      (∀ i t, c.threads[i]? = some t → t.outs = serialOuts sys s0 i log) ∧
      c.owner = none :=
  serializable sys s0 progs hprot (fun o => (hstr o).wn) sch c hexec hdone

/-- the lock does not change what a body computes when run alone: `with self._lock: p` means `p` -/
theorem lock_is_sequentially_transparent {A : Type} (p : Prog S A) (s : S) :
    runProg (withLock p) s = runProg p s := runProg_withLock p s

/-- a nested re-entrant block inside a block (`get → self[key]`, `__getitem__ → on_miss → self[key] = v`):
    any nesting depth is well nested -/
theorem nested_lock_blocks_wn {A : Type} (p : Prog S A) (hp : Structured p) (n : Nat) :
    WN 0 (Nat.rec p (fun _ q => withLock q) n) := by
  have : Structured (Nat.rec p (fun _ q => withLock q) n : Prog S A) := by
    induction n with
    | zero => exact hp
    | succ n ih => exact Structured.locked _ ih
  exact this.wn

/-- non-vacuity: `get` as the source writes it — a lock block whose body calls `self[key]`, itself a lock
    block around one read — is structured -/
example (f : S → Out) : Structured (withLock (withLock (.step id fun s => .ret (f s))) : Prog S Out) :=
  .locked _ (.locked _ (.step _ _ fun s => .ret (f s)))


/-! Necessity of the hypothesis: with an UNPROTECTED insert two threads can both
    see "not full" and both insert, exceeding the capacity. -/

/-- toy cache: list of keys, capacity 1; `set k` = read the size, then insert (evicting if it saw full) -/
def toyBody (k : Nat) : Prog (List Nat) Unit :=
  .step id fun seen =>
    if seen.length < 1 then .step (fun s => s ++ [k]) fun _ => .ret ()
    else .step (fun s => s.drop 1 ++ [k]) fun _ => .ret ()

def toyUnprotected : Sys (List Nat) Nat Unit := { body := toyBody, protect := fun _ => false }
def toyProtected : Sys (List Nat) Nat Unit := { body := toyBody, protect := fun _ => true }

theorem unprotected_breaks :
    ∃ sch : List Tid, ∃ c, (Cfg.init [] [[7], [8]]).exec toyUnprotected sch = some c ∧
      c.complete = true ∧ 1 < c.shared.length :=
  ⟨[0, 0, 1, 1, 0, 1, 0, 1], _, rfl, by decide, by decide⟩

/-! The known finding C03-readers inside the model.  `len` / `in` / iteration are inherited from dict and
    take no lock.  With the three-write `__setitem__` of `C03.microBody`, an unlocked `len` scheduled between
    the dict delete of the evicted key and the dict insert of the new one answers 1, although the cache holds
    2 items before and after the insert: the FULL statement (readers included) is false for the code as it
    is; `serializable` is the part that holds (locked operations), the harness compares exactly that part. -/

def readerSys : Sys (C02.Cache Nat Nat) (C02.Op Nat Nat) (COut Nat Nat) where
  body := microBody
  protect := fun o => match o with
    | .len => false | .contains _ => false | .items => false
    | _ => true

/-- LRU(max_size=2) holding keys 1 and 2 -/
def full2 : C02.Cache Nat Nat := ((C02.Cache.init true 2 none).setitem 1 0).setitem 2 0

def lenOf : COut Nat Nat → Option Nat
  | .nat n => some n
  | _ => none

theorem reader_sees_half_done_eviction :
    ∃ sch : List Tid, ∃ c,
      (Cfg.init full2 [[C02.Op.setitem 3 1], [C02.Op.len]]).exec readerSys sch = some c ∧
      c.complete = true ∧
      (c.threads[1]?.map fun t => t.outs.map lenOf) = some [some 1] ∧
      -- both sequential orders answer 2
      lenOf (C02.step full2 .len).2 = some 2 ∧
      lenOf (C02.step (C02.step full2 (.setitem 3 1)).1 .len).2 = some 2 :=
  ⟨[0, 0, 0, 1, 1, 1, 0, 0], _, rfl, by decide, by decide, by decide, by decide⟩

/-- and the state that reader saw breaks the C02 invariant (ring has 2 links, dict 1 item): only the lock
    keeps such states invisible to the other *locked* operations -/
theorem half_done_state_inconsistent :
    ∃ c, (Cfg.init full2 [[C02.Op.setitem 3 1]]).exec readerSys [0, 0, 0] = some c ∧
      c.shared.d.length = 1 ∧ c.shared.ring.length = 2 ∧ c.owner = some (0, 1) :=
  ⟨_, rfl, by decide, by decide, by decide⟩

/-- What DOES hold with unlocked readers around (the part of the statement the harness compares): for every
    schedule of any number of threads mixing locked operations with read-only unlocked ones,
    the final state is the sequential run of all operations in the order they started (readers being
    identities: the locked operations in lock-acquisition order), program order is respected, every thread
    that issues only locked operations gets exactly the sequential results, and the lock is free. -/
theorem serializable_with_readers (sys : Sys S Op Out) (s0 : S) (progs : List (List Op))
    (hro : ∀ o, sys.protect o = false → RO (sys.body o))
    (hwn : ∀ o, sys.protect o = true → WN 0 (sys.body o))
    (sch : List Tid) (c : Cfg S Op Out)
    (hexec : (Cfg.init s0 progs).exec sys sch = some c) (hdone : c.complete = true) :
    ∃ log : List (Tid × Op),
      (∀ i p, progs[i]? = some p → opsOf i log = p) ∧
      c.shared = serialState sys s0 log ∧
      (∀ i t, c.threads[i]? = some t → AllProt sys progs i → t.outs = serialOuts sys s0 i log) ∧
      c.owner = none := by
  have hinv := inv2_exec sys s0 progs hro hwn _ c sch (inv2_init sys s0 progs) hexec
  obtain ⟨hlen, hprog, hst⟩ := hinv
  have hall : ∀ (j : Tid) (t : Thread S Op Out), c.threads[j]? = some t → t.todo = [] ∧ t.cur = none := by
    intro j t hj
    have hmem : t ∈ c.threads := List.mem_of_getElem? hj
    have := List.all_eq_true.mp hdone t hmem
    simp only [Thread.done, Bool.and_eq_true, List.isEmpty_iff, Option.isNone_iff_eq_none] at this
    exact this
  refine ⟨c.log, ?_, ?_⟩
  · intro i p hp
    have hi : i < c.threads.length := by
      rw [hlen]; exact lt_of_getElem?_some hp
    have ht : c.threads[i]? = some c.threads[i] := List.getElem?_eq_getElem hi
    have := hprog i _ ht
    rw [hp, (hall i _ ht).1] at this
    simp at this
    exact this.symm
  · rcases hst with ⟨hown, _, houts, hsh⟩ | ⟨i0, t0, p0, _, _, _, _, ht0, hc0, _⟩
    · exact ⟨hsh, houts, hown⟩
    · have := (hall i0 t0 ht0).2
      rw [hc0] at this; cases this

/-- mutual exclusion survives the readers: two threads that are both inside an operation are never both
    inside a LOCKED one (at most one thread holds the lock; everybody else in progress is a reader) -/
theorem mutual_exclusion_with_readers (sys : Sys S Op Out) (s0 : S) (progs : List (List Op))
    (hro : ∀ o, sys.protect o = false → RO (sys.body o))
    (hwn : ∀ o, sys.protect o = true → WN 0 (sys.body o))
    (sch : List Tid) (c : Cfg S Op Out) (hexec : (Cfg.init s0 progs).exec sys sch = some c)
    (i j : Tid) (ti tj : Thread S Op Out)
    (hi : c.threads[i]? = some ti) (hj : c.threads[j]? = some tj)
    (hci : ti.holds = true ∧ ti.cur ≠ none) (hcj : tj.holds = true ∧ tj.cur ≠ none) : i = j := by
  have hinv := inv2_exec sys s0 progs hro hwn _ c sch (inv2_init sys s0 progs) hexec
  have key : ∀ (k : Tid) (tk : Thread S Op Out), NotHolder sys progs k tk →
      ¬ (tk.holds = true ∧ tk.cur ≠ none) := by
    intro k tk hnh ⟨hh, hc⟩
    rcases hnh with h | ⟨h, _⟩
    · exact hc h
    · rw [h] at hh; cases hh
  rcases hinv.st with ⟨_, hnh, _, _⟩ | ⟨i0, t0, p0, _, _, _, _, ht0, _, _, _, _, _, _, hoth, _, _⟩
  · exact absurd hci (key i ti (hnh i ti hi))
  · have h1 : i = i0 := Classical.byContradiction fun h => key i ti (hoth i ti h hi) hci
    have h2 : j = i0 := Classical.byContradiction fun h => key j tj (hoth j tj h hj) hcj
    rw [h1, h2]

/-- non-vacuity: the cache system with unlocked `len` / `in` / iteration and the three-write `__setitem__`
    satisfies both hypotheses -/
example : ∀ o, readerSys.protect o = false → RO (readerSys.body o) := by
  intro o h
  cases o <;> simp [readerSys] at h <;> simp [readerSys, microBody, atomicBody, RO, C02.step]
example : ∀ o, readerSys.protect o = true → WN 0 (readerSys.body o) := fun o _ => microBody_wn o

/-- the same programs, protected: the theorem applies (non-vacuity of `serializable`) -/
example : ∀ o, toyProtected.protect o = true := fun _ => rfl
example : ∀ o, WN 0 (toyProtected.body o) := by
  intro o s; simp only [toyBody]; split <;> intro _ <;> simp [WN]

/-! ### C-level dict calls that call back into Python, and the keyword form of `update`

`dict.__eq__` compares item by item and runs the values' (keys') Python-level `__eq__` in between: a program of one
shared-state read per item (`Callbacks.eqBody`), not one step.  `update(E, **F)` is the positional part followed by
the keyword items.  With every method body inside ONE lock region (the code as it is; re-established from the source
by `all_state_methods_protected` / `public_methods_atomic`: `super().__eq__` counts as a reference to the state, the
keyword loop's `setitem(k, F[k])` as a cache operation) the general theorem applies; the two ways of getting it wrong
that round 5 seeded are refuted by explicit schedules. -/

/-- `update(E, **kw)` IS `update(E followed by the keyword items)`: the keyword form adds no behaviour of its own to
    the atomic step the linearised run is compared with -/
theorem update_kw_is_concat {K V : Type} [DecidableEq K] [DecidableEq V] (c : C02.Cache K V) (l kw : List (K × V)) :
    C02.step c (.update (.pairs l) kw) = C02.step c (.update (.pairs (l ++ kw)) []) := by
  simp [C02.step, C02.Cache.update, C02.Cache.setAll, List.foldl_append]

/-- run atomically (which is what the lock guarantees), the item-wise comparison with its callbacks changes nothing
    and answers exactly the C02 model's `dict.__eq__` - the value the linearised run is compared with -/
theorem itemwise_eq_atomic_meaning (o s : Callbacks.D) :
    runProg (Callbacks.eqBody o) s = (s, C02.dictEq s o) :=
  Prod.ext (Callbacks.eqBody_run_state o s) (Callbacks.eqBody_run o s)

/-- comparisons and (keyword-form) updates, each wholly inside one lock region, are serializable under every schedule,
    however many Python-level callbacks (= pre-emption points) the comparison contains -/
theorem locked_callbacks_serializable (s0 : Callbacks.D) (progs : List (List Callbacks.Op))
    (sch : List Tid) (c : Cfg Callbacks.D Callbacks.Op Callbacks.Out)
    (hexec : (Cfg.init s0 progs).exec Callbacks.goodSys sch = some c) (hdone : c.complete = true) :
    ∃ log : List (Tid × Callbacks.Op),
      (∀ i p, progs[i]? = some p → opsOf i log = p) ∧
      c.shared = serialState Callbacks.goodSys s0 log ∧
      (∀ i t, c.threads[i]? = some t → t.outs = serialOuts Callbacks.goodSys s0 i log) ∧
      c.owner = none :=
  serializable Callbacks.goodSys s0 progs (fun _ => rfl) Callbacks.goodBody_wn sch c hexec hdone

/-- seeded C03-14 in the model: `__eq__` without the lock.  Cache {1: 0, 2: 0}, thread 0 `cache == {1: 0, 2: 5}`,
    thread 1 `cache.update({1: 5, 2: 5})` scheduled between the comparison of item 1 and of item 2: the comparison
    answers True although the cache equals the comparand neither before nor after the update -/
theorem unlocked_eq_sees_mixed_contents :
    ∃ sch : List Tid, ∃ c,
      (Cfg.init [(1, 0), (2, 0)] [[Callbacks.Op.eq [(1, 0), (2, 5)]], [Callbacks.Op.upd [(1, 5), (2, 5)]]]).exec
        Callbacks.badSys sch = some c ∧
      c.complete = true ∧
      (c.threads[0]?.map fun t => t.outs) = some [Callbacks.Out.bool true] ∧
      (runProg (Callbacks.body (.eq [(1, 0), (2, 5)])) [(1, 0), (2, 0)]).2 = .bool false ∧
      (runProg (Callbacks.body (.eq [(1, 0), (2, 5)])) (Callbacks.setAll [(1, 5), (2, 5)] [(1, 0), (2, 0)])).2
        = .bool false :=
  ⟨[0, 0, 0, 1, 1, 1, 0, 0], _, rfl, by decide, by decide, by decide, by decide⟩

/-- seeded C03-15 in the model: the keyword loop of `update` outside the lock region (each keyword item separately
    locked).  Empty cache, thread 0 `update(k1=1, k2=2)`, thread 1 `update({k1: 7, k2: 9})` scheduled between the two
    keyword items: the cache ends as {k1: 7, k2: 2}, the outcome of neither sequential order -/
theorem split_kw_update_not_serializable :
    ∃ sch : List Tid, ∃ c,
      (Cfg.init [] [[Callbacks.Op.splitUpd [] [(1, 1), (2, 2)]], [Callbacks.Op.upd [(1, 7), (2, 9)]]]).exec
        Callbacks.badSys sch = some c ∧
      c.complete = true ∧ c.owner = none ∧
      c.shared = [(1, 7), (2, 2)] ∧
      serialState Callbacks.badSys [] [(0, .splitUpd [] [(1, 1), (2, 2)]), (1, .upd [(1, 7), (2, 9)])] = [(1, 7), (2, 9)] ∧
      serialState Callbacks.badSys [] [(1, .upd [(1, 7), (2, 9)]), (0, .splitUpd [] [(1, 1), (2, 2)])] = [(1, 1), (2, 2)] :=
  ⟨[0, 0, 0, 0, 0, 0, 0, 1, 1, 1, 0, 0, 0, 0], _, rfl, by decide, by decide, by decide, by decide, by decide⟩

/-- non-vacuity of `locked_callbacks_serializable`: the same two programs on the code as it is, same schedule prefix:
    the comparison blocks the writer out and answers False -/
example : ∃ c, (Cfg.init [(1, 0), (2, 0)] [[Callbacks.Op.eq [(1, 0), (2, 5)]], [Callbacks.Op.upd [(1, 5), (2, 5)]]]).exec
      Callbacks.goodSys [0, 0, 0, 0, 0, 1, 1, 1] = some c ∧ c.complete = true ∧
      (c.threads[0]?.map fun t => t.outs) = some [Callbacks.Out.bool false] ∧ c.shared = [(1, 5), (2, 5)] :=
  ⟨_, rfl, by decide, by decide, by decide⟩

end C03
