import BoltonsVerif.C03.Proofs
/-
C03 — locked operations next to UNLOCKED READERS.

`len(cache)`, `key in cache`, `keys()` / iteration are inherited from dict and take no lock (known finding
C03-readers): such an operation is a program that only reads (`RO`: every micro-step leaves the shared
state alone, no lock is touched), run with `protect = false`.  Readers can observe the half-done state of a
locked operation (`Props.reader_sees_half_done_eviction`), so the full serializability statement is false
for them.  What still holds, for every schedule, thread count and program (`inv2_exec`, used by
`Props.serializable_with_readers`):

  * the final state is the sequential run of all operations in the order they started (readers are
    identities, so this is the run of the locked operations in lock-acquisition order);
  * every thread that issues only locked operations gets exactly the results of that sequential run, no
    matter how many readers other threads run in between;
  * mutual exclusion between the locked operations, no lock leak.
-/
namespace C03
variable {S Op Out : Type}

/-- a read-only body: never writes, never touches the lock -/
def RO : Prog S Out → Prop
  | .ret _ => True
  | .step f k => (∀ s, f s = s) ∧ ∀ s, RO (k s)
  | .acq _ => False
  | .rel _ => False

theorem runProg_RO (p : Prog S Out) (h : RO p) (s : S) : (runProg p s).1 = s := by
  induction p generalizing s with
  | ret o => rfl
  | step f k ih => simp only [runProg]; rw [ih _ (h.2 s), h.1]
  | acq p _ => exact absurd h (by simp [RO])
  | rel p _ => exact absurd h (by simp [RO])

theorem serialState_RO (sys : Sys S Op Out) (s : S) (rs : List (Tid × Op))
    (h : ∀ e ∈ rs, RO (sys.body e.2)) : serialState sys s rs = s := by
  induction rs generalizing s with
  | nil => rfl
  | cons e es ih =>
    have h1 : serialState sys s (e :: es) = serialState sys (runProg (sys.body e.2) s).1 es := by
      simp [serialState]
    rw [h1, runProg_RO _ (h e (by simp)), ih _ (fun e' he' => h e' (by simp [he']))]

theorem serialState_append (sys : Sys S Op Out) (s : S) (l r : List (Tid × Op)) :
    serialState sys s (l ++ r) = serialState sys (serialState sys s l) r := by
  simp [serialState, List.foldl_append]

theorem serialOuts_append (sys : Sys S Op Out) (s : S) (i : Tid) (l r : List (Tid × Op)) :
    serialOuts sys s i (l ++ r) = serialOuts sys s i l ++ serialOuts sys (serialState sys s l) i r := by
  induction l generalizing s with
  | nil => simp [serialOuts, serialState]
  | cons a as ih =>
    have hs : serialState sys s (a :: as) = serialState sys (runProg (sys.body a.2) s).1 as := by
      simp [serialState]
    simp only [List.cons_append, serialOuts]
    split
    · rw [ih, hs]; simp
    · rw [ih, hs]

theorem serialOuts_no_tid (sys : Sys S Op Out) (s : S) (i : Tid) (r : List (Tid × Op))
    (h : ∀ e ∈ r, e.1 ≠ i) : serialOuts sys s i r = [] := by
  induction r generalizing s with
  | nil => rfl
  | cons e es ih =>
    simp only [serialOuts]
    have : ¬ e.1 = i := h e (by simp)
    simp only [this, if_false]
    exact ih _ (fun e' he' => h e' (by simp [he']))

theorem mem_of_getElem?_setThread_ne {ts : List (Thread S Op Out)} {i j : Tid} {t tj : Thread S Op Out}
    (h : (setThread ts i t)[j]? = some tj) (hij : ¬ i = j) : ts[j]? = some tj := by
  rw [getElem?_setThread] at h; simpa [hij] using h

theorem eq_of_getElem?_setThread_self {ts : List (Thread S Op Out)} {i : Tid} {t tj : Thread S Op Out}
    (h : (setThread ts i t)[i]? = some tj) (hilt : i < ts.length) : tj = t := by
  rw [getElem?_setThread] at h; simp [hilt] at h; exact h.symm

/-- thread `j` issues locked operations only -/
def AllProt (sys : Sys S Op Out) (progs : List (List Op)) (j : Tid) : Prop :=
  ∀ p, progs[j]? = some p → ∀ o ∈ p, sys.protect o = true

/-- a thread that does not hold the lock is between operations or inside a reader -/
def NotHolder (sys : Sys S Op Out) (progs : List (List Op)) (j : Tid) (t : Thread S Op Out) : Prop :=
  t.cur = none ∨ (t.holds = false ∧ ¬ AllProt sys progs j ∧ ∃ p, t.cur = some p ∧ RO p)

def Idle2 (sys : Sys S Op Out) (s0 : S) (progs : List (List Op)) (c : Cfg S Op Out) : Prop :=
  c.owner = none ∧
  (∀ j t, c.threads[j]? = some t → NotHolder sys progs j t) ∧
  (∀ j t, c.threads[j]? = some t → AllProt sys progs j → t.outs = serialOuts sys s0 j c.log) ∧
  c.shared = serialState sys s0 c.log

def Busy2 (sys : Sys S Op Out) (s0 : S) (progs : List (List Op)) (c : Cfg S Op Out) : Prop :=
  ∃ (i : Tid) (t : Thread S Op Out) (p : Prog S Out) (d : Nat) (o : Op) (log' rs : List (Tid × Op)),
    c.threads[i]? = some t ∧ t.cur = some p ∧ t.holds = true ∧ c.owner = some (i, d + 1) ∧
    WN d p ∧ c.log = log' ++ [(i, o)] ++ rs ∧
    (∀ e ∈ rs, RO (sys.body e.2) ∧ ¬ AllProt sys progs e.1) ∧
    (∀ j tj, j ≠ i → c.threads[j]? = some tj → NotHolder sys progs j tj) ∧
    (∀ j tj, c.threads[j]? = some tj → AllProt sys progs j → tj.outs = serialOuts sys s0 j log') ∧
    runProg p c.shared = runProg (sys.body o) (serialState sys s0 log')

structure Inv2 (sys : Sys S Op Out) (s0 : S) (progs : List (List Op)) (c : Cfg S Op Out) : Prop where
  len : c.threads.length = progs.length
  prog : ∀ i t, c.threads[i]? = some t → progs[i]? = some (opsOf i c.log ++ t.todo)
  st : Idle2 sys s0 progs c ∨ Busy2 sys s0 progs c

theorem inv2_init (sys : Sys S Op Out) (s0 : S) (progs : List (List Op)) :
    Inv2 sys s0 progs (Cfg.init s0 progs) := by
  have h0 := inv_init sys s0 progs
  refine ⟨h0.len, h0.prog, Or.inl ⟨rfl, ?_, ?_, rfl⟩⟩
  · intro j t h
    simp only [Cfg.init, List.getElem?_map] at h
    cases hp : progs[j]? with
    | none => simp [hp] at h
    | some p => simp [hp] at h; subst h; exact Or.inl rfl
  · intro j t h _
    simp only [Cfg.init, List.getElem?_map] at h
    cases hp : progs[j]? with
    | none => simp [hp] at h
    | some p => simp [hp] at h; subst h; simp [serialOuts, Cfg.init]

/-- the program-order bookkeeping survives a step that neither starts an operation nor touches `todo` -/
theorem prog_keep {progs : List (List Op)} {c : Cfg S Op Out} {i : Tid} {t t' : Thread S Op Out}
    (hprog : ∀ j tj, c.threads[j]? = some tj → progs[j]? = some (opsOf j c.log ++ tj.todo))
    (hti : c.threads[i]? = some t) (htodo : t'.todo = t.todo) :
    ∀ j tj, (setThread c.threads i t')[j]? = some tj → progs[j]? = some (opsOf j c.log ++ tj.todo) := by
  intro j tj hj
  have hilt : i < c.threads.length := lt_of_getElem?_some hti
  by_cases hij : i = j
  · subst hij
    have := eq_of_getElem?_setThread_self hj hilt
    subst this; rw [htodo]; exact hprog i t hti
  · exact hprog j tj (mem_of_getElem?_setThread_ne hj hij)

/-- the operation a thread is about to start belongs to its program -/
theorem next_op_mem {progs : List (List Op)} {c : Cfg S Op Out} {i : Tid} {t : Thread S Op Out} {o : Op}
    {rest : List Op}
    (hprog : ∀ j tj, c.threads[j]? = some tj → progs[j]? = some (opsOf j c.log ++ tj.todo))
    (hti : c.threads[i]? = some t) (htodo : t.todo = o :: rest) :
    ∃ p, progs[i]? = some p ∧ o ∈ p := by
  refine ⟨_, hprog i t hti, ?_⟩
  rw [htodo]; simp

theorem inv2_step (sys : Sys S Op Out) (s0 : S) (progs : List (List Op))
    (hro : ∀ o, sys.protect o = false → RO (sys.body o))
    (hwn : ∀ o, sys.protect o = true → WN 0 (sys.body o))
    (c c' : Cfg S Op Out) (i : Tid) (h : Inv2 sys s0 progs c) (hs : c.step sys i = some c') :
    Inv2 sys s0 progs c' := by
  obtain ⟨hlen, hprog, hst⟩ := h
  unfold Cfg.step at hs
  cases hti : c.threads[i]? with
  | none => simp [hti] at hs
  | some t =>
    have hilt : i < c.threads.length := lt_of_getElem?_some hti
    simp only [hti] at hs
    cases hcur : t.cur with
    | none =>
      simp only [hcur] at hs
      cases htodo : t.todo with
      | nil => simp [htodo] at hs
      | cons o rest =>
        simp only [htodo] at hs
        obtain ⟨pi, hpi, hopi⟩ := next_op_mem hprog hti htodo
        -- program-order bookkeeping after appending (i, o) to the log
        have hprog' : ∀ (tnew : Thread S Op Out), tnew.todo = rest →
            ∀ j tj, (setThread c.threads i tnew)[j]? = some tj →
              progs[j]? = some (opsOf j (c.log ++ [(i, o)]) ++ tj.todo) := by
          intro tnew htn j tj hj
          by_cases hij : i = j
          · subst hij
            have := eq_of_getElem?_setThread_self hj hilt
            subst this
            have := hprog i t hti
            rw [htodo] at this
            simp [this, opsOf_snoc_self, htn]
          · have := hprog j tj (mem_of_getElem?_setThread_ne hj hij)
            rw [opsOf_snoc_ne j i c.log o (fun h => hij h)]
            exact this
        cases hpo : sys.protect o with
        | true =>
          simp only [hpo, if_true] at hs
          rcases hst with ⟨hown, hnh, houts, hsh⟩ | ⟨i0, t0, p0, d0, o0, log0, rs0, ht0, hc0, _, hown0, _, _, _, _, _, _⟩
          · simp only [hown, tryAcquire] at hs
            cases hs
            refine ⟨by simp [setThread, hlen], hprog' _ rfl, Or.inr ?_⟩
            refine ⟨i, { t with todo := rest, cur := some (sys.body o), holds := true }, sys.body o, 0, o, c.log, [],
              ?_, rfl, rfl, rfl, hwn o hpo, by simp, by simp, ?_, ?_, ?_⟩
            · rw [getElem?_setThread]; simp [hilt]
            · intro j tj hji hj
              exact hnh j tj (mem_of_getElem?_setThread_ne hj (fun h => hji h.symm))
            · intro j tj hj hap
              by_cases hij : i = j
              · subst hij
                have := eq_of_getElem?_setThread_self hj hilt
                subst this
                exact houts i t hti hap
              · exact houts j tj (mem_of_getElem?_setThread_ne hj hij) hap
            · simp [hsh]
          · have hne : i0 ≠ i := by
              intro heq; subst heq
              rw [hti] at ht0; cases ht0
              rw [hcur] at hc0; cases hc0
            simp only [hown0, tryAcquire, hne, if_false] at hs
            cases hs
        | false =>
          simp only [hpo] at hs
          cases hs
          have hroo : RO (sys.body o) := hro o hpo
          have hnap : ¬ AllProt sys progs i := fun hap => by
            have := hap pi hpi o hopi
            rw [hpo] at this; cases this
          have hnew : NotHolder sys progs i
              { t with todo := rest, cur := some (sys.body o), holds := false } :=
            Or.inr ⟨rfl, hnap, _, rfl, hroo⟩
          refine ⟨by simp [setThread, hlen], hprog' _ rfl, ?_⟩
          rcases hst with ⟨hown, hnh, houts, hsh⟩ | ⟨i0, t0, p0, d0, o0, log0, rs0, ht0, hc0, hh0, hown0, hwn0, hlog0, hrs0, hoth0, houts0, hrun0⟩
          · refine Or.inl ⟨hown, ?_, ?_, ?_⟩
            · intro j tj hj
              by_cases hij : i = j
              · subst hij
                have := eq_of_getElem?_setThread_self hj hilt
                subst this; exact hnew
              · exact hnh j tj (mem_of_getElem?_setThread_ne hj hij)
            · intro j tj hj hap
              have hij : ¬ i = j := fun h => hnap (h ▸ hap)
              have := houts j tj (mem_of_getElem?_setThread_ne hj hij) hap
              show tj.outs = serialOuts sys s0 j (c.log ++ [(i, o)])
              rw [serialOuts_snoc, this]; simp [hij]
            · show c.shared = serialState sys s0 (c.log ++ [(i, o)])
              rw [serialState_snoc, runProg_RO _ hroo, hsh]
          · have hne : ¬ i0 = i := by
              intro heq; subst heq
              rw [hti] at ht0; cases ht0
              rw [hcur] at hc0; cases hc0
            refine Or.inr ⟨i0, t0, p0, d0, o0, log0, rs0 ++ [(i, o)], ?_, hc0, hh0, hown0, hwn0, ?_, ?_, ?_, ?_, hrun0⟩
            · rw [getElem?_setThread]; simp [Ne.symm hne, ht0]
            · show c.log ++ [(i, o)] = log0 ++ [(i0, o0)] ++ (rs0 ++ [(i, o)])
              rw [hlog0]; simp
            · intro e he
              rcases List.mem_append.mp he with he | he
              · exact hrs0 e he
              · have : e = (i, o) := by simpa using he
                subst this; exact ⟨hroo, hnap⟩
            · intro j tj hji hj
              by_cases hij : i = j
              · subst hij
                have := eq_of_getElem?_setThread_self hj hilt
                subst this; exact hnew
              · exact hoth0 j tj hji (mem_of_getElem?_setThread_ne hj hij)
            · intro j tj hj hap
              have hij : ¬ i = j := fun h => hnap (h ▸ hap)
              exact houts0 j tj (mem_of_getElem?_setThread_ne hj hij) hap
    | some p =>
      simp only [hcur] at hs
      -- is thread i the lock holder?
      have hrole : (∃ pr, NotHolder sys progs i t ∧ pr = p) ∨
          (∃ t0 p0 d0 o0 log0 rs0, c.threads[i]? = some t0 ∧ t0.cur = some p0 ∧ t0.holds = true ∧
            c.owner = some (i, d0 + 1) ∧ WN d0 p0 ∧ c.log = log0 ++ [(i, o0)] ++ rs0 ∧
            (∀ e ∈ rs0, RO (sys.body e.2) ∧ ¬ AllProt sys progs e.1) ∧
            (∀ j tj, j ≠ i → c.threads[j]? = some tj → NotHolder sys progs j tj) ∧
            (∀ j tj, c.threads[j]? = some tj → AllProt sys progs j → tj.outs = serialOuts sys s0 j log0) ∧
            runProg p0 c.shared = runProg (sys.body o0) (serialState sys s0 log0)) := by
        rcases hst with ⟨_, hnh, _, _⟩ | ⟨i0, t0, p0, d0, o0, log0, rs0, ht0, hc0, hh0, hown0, hwn0, hlog0, hrs0, hoth0, houts0, hrun0⟩
        · exact Or.inl ⟨p, hnh i t hti, rfl⟩
        · by_cases heq : i0 = i
          · subst heq
            exact Or.inr ⟨t0, p0, d0, o0, log0, rs0, ht0, hc0, hh0, hown0, hwn0, hlog0, hrs0, hoth0, houts0, hrun0⟩
          · exact Or.inl ⟨p, hoth0 i t (fun h => heq h.symm) hti, rfl⟩
      rcases hrole with ⟨_, hnhi, _⟩ | ⟨t0, p0, d0, o0, log0, rs0, ht0, hc0, hh0, hown0, hwn0, hlog0, hrs0, hoth0, houts0, hrun0⟩
      · -- a reader in progress
        rcases hnhi with hnone | ⟨hholds, hnap, pr, hpr, hropr⟩
        · rw [hcur] at hnone; cases hnone
        rw [hcur] at hpr; cases hpr
        cases p with
        | acq p' => exact absurd hropr (by simp [RO])
        | rel p' => exact absurd hropr (by simp [RO])
        | ret out =>
          simp only [hholds] at hs
          cases hs
          have hnew : NotHolder sys progs i { t with cur := none, holds := false, outs := t.outs ++ [out] } :=
            Or.inl rfl
          refine ⟨by simp [setThread, hlen], prog_keep hprog hti rfl, ?_⟩
          rcases hst with ⟨hown, hnh, houts, hsh⟩ | ⟨i0, t0, p0, d0, o0, log0, rs0, ht0, hc0, hh0, hown0, hwn0, hlog0, hrs0, hoth0, houts0, hrun0⟩
          · refine Or.inl ⟨hown, ?_, ?_, hsh⟩
            · intro j tj hj
              by_cases hij : i = j
              · subst hij
                have := eq_of_getElem?_setThread_self hj hilt
                subst this; exact hnew
              · exact hnh j tj (mem_of_getElem?_setThread_ne hj hij)
            · intro j tj hj hap
              have hij : ¬ i = j := fun h => hnap (h ▸ hap)
              exact houts j tj (mem_of_getElem?_setThread_ne hj hij) hap
          · have hne : ¬ i0 = i := by
              intro heq; subst heq
              rw [hti] at ht0; cases ht0
              rw [hholds] at hh0; cases hh0
            refine Or.inr ⟨i0, t0, p0, d0, o0, log0, rs0, ?_, hc0, hh0, hown0, hwn0, hlog0, hrs0, ?_, ?_, hrun0⟩
            · rw [getElem?_setThread]; simp [Ne.symm hne, ht0]
            · intro j tj hji hj
              by_cases hij : i = j
              · subst hij
                have := eq_of_getElem?_setThread_self hj hilt
                subst this; exact hnew
              · exact hoth0 j tj hji (mem_of_getElem?_setThread_ne hj hij)
            · intro j tj hj hap
              have hij : ¬ i = j := fun h => hnap (h ▸ hap)
              exact houts0 j tj (mem_of_getElem?_setThread_ne hj hij) hap
        | step f k =>
          cases hs
          obtain ⟨hfid, hrok⟩ := hropr
          have hnew : NotHolder sys progs i { t with cur := some (k c.shared) } :=
            Or.inr ⟨hholds, hnap, _, rfl, hrok c.shared⟩
          refine ⟨by simp [setThread, hlen], prog_keep hprog hti rfl, ?_⟩
          rcases hst with ⟨hown, hnh, houts, hsh⟩ | ⟨i0, t0, p0, d0, o0, log0, rs0, ht0, hc0, hh0, hown0, hwn0, hlog0, hrs0, hoth0, houts0, hrun0⟩
          · refine Or.inl ⟨hown, ?_, ?_, ?_⟩
            · intro j tj hj
              by_cases hij : i = j
              · subst hij
                have := eq_of_getElem?_setThread_self hj hilt
                subst this; exact hnew
              · exact hnh j tj (mem_of_getElem?_setThread_ne hj hij)
            · intro j tj hj hap
              have hij : ¬ i = j := fun h => hnap (h ▸ hap)
              exact houts j tj (mem_of_getElem?_setThread_ne hj hij) hap
            · show f c.shared = serialState sys s0 c.log
              rw [hfid]; exact hsh
          · have hne : ¬ i0 = i := by
              intro heq; subst heq
              rw [hti] at ht0; cases ht0
              rw [hholds] at hh0; cases hh0
            refine Or.inr ⟨i0, t0, p0, d0, o0, log0, rs0, ?_, hc0, hh0, hown0, hwn0, hlog0, hrs0, ?_, ?_, ?_⟩
            · rw [getElem?_setThread]; simp [Ne.symm hne, ht0]
            · intro j tj hji hj
              by_cases hij : i = j
              · subst hij
                have := eq_of_getElem?_setThread_self hj hilt
                subst this; exact hnew
              · exact hoth0 j tj hji (mem_of_getElem?_setThread_ne hj hij)
            · intro j tj hj hap
              have hij : ¬ i = j := fun h => hnap (h ▸ hap)
              exact houts0 j tj (mem_of_getElem?_setThread_ne hj hij) hap
            · show runProg p0 (f c.shared) = _
              rw [hfid]; exact hrun0
      · -- the lock holder moves
        rw [hti] at ht0; cases ht0
        rw [hcur] at hc0; cases hc0
        have hrs_ro : ∀ e ∈ rs0, RO (sys.body e.2) := fun e he => (hrs0 e he).1
        have hrs_tid : ∀ j, AllProt sys progs j → ∀ e ∈ rs0, e.1 ≠ j :=
          fun j hap e he heq => (hrs0 e he).2 (heq ▸ hap)
        -- parts shared by the three "still busy" cases
        have hkeep_oth : ∀ (tnew : Thread S Op Out) j tj, j ≠ i →
            (setThread c.threads i tnew)[j]? = some tj → NotHolder sys progs j tj :=
          fun tnew j tj hji hj => hoth0 j tj hji (mem_of_getElem?_setThread_ne hj (fun h => hji h.symm))
        have hkeep_outs : ∀ (tnew : Thread S Op Out), tnew.outs = t.outs → ∀ j tj,
            (setThread c.threads i tnew)[j]? = some tj → AllProt sys progs j →
              tj.outs = serialOuts sys s0 j log0 := by
          intro tnew hto j tj hj hap
          by_cases hij : i = j
          · subst hij
            have := eq_of_getElem?_setThread_self hj hilt
            subst this; rw [hto]; exact houts0 i t hti hap
          · exact houts0 j tj (mem_of_getElem?_setThread_ne hj hij) hap
        cases p with
        | ret out =>
          simp only [hh0, if_true, hown0, release] at hs
          have hd0 : d0 = 0 := by simpa [WN] using hwn0
          subst hd0
          simp only [if_true, Nat.le_refl, Nat.zero_add] at hs
          cases hs
          have hr : (c.shared, out) = runProg (sys.body o0) (serialState sys s0 log0) := by
            simpa [runProg] using hrun0
          refine ⟨by simp [setThread, hlen], prog_keep hprog hti rfl, Or.inl ⟨rfl, ?_, ?_, ?_⟩⟩
          · intro j tj hj
            by_cases hij : i = j
            · subst hij
              have := eq_of_getElem?_setThread_self hj hilt
              subst this; exact Or.inl rfl
            · exact hoth0 j tj (fun h => hij h.symm) (mem_of_getElem?_setThread_ne hj hij)
          · intro j tj hj hap
            show tj.outs = serialOuts sys s0 j c.log
            rw [hlog0, serialOuts_append, serialOuts_no_tid _ _ _ rs0 (hrs_tid j hap), List.append_nil,
              serialOuts_snoc]
            by_cases hij : i = j
            · subst hij
              have := eq_of_getElem?_setThread_self hj hilt
              subst this
              simp only [if_true]
              rw [houts0 i t hti hap, ← hr]
            · have := houts0 j tj (mem_of_getElem?_setThread_ne hj hij) hap
              rw [this]; simp [hij]
          · show c.shared = serialState sys s0 c.log
            rw [hlog0, serialState_append, serialState_RO _ _ _ hrs_ro, serialState_snoc, ← hr]
        | step f k =>
          cases hs
          refine ⟨by simp [setThread, hlen], prog_keep hprog hti rfl, Or.inr ?_⟩
          refine ⟨i, { t with cur := some (k c.shared) }, k c.shared, d0, o0, log0, rs0, ?_, rfl, hh0, hown0, ?_,
            hlog0, hrs0, hkeep_oth _, hkeep_outs _ rfl, ?_⟩
          · rw [getElem?_setThread]; simp [hilt]
          · simp only [WN] at hwn0; exact hwn0 c.shared
          · simpa [runProg] using hrun0
        | acq p' =>
          simp only [hown0, tryAcquire, if_true] at hs
          cases hs
          refine ⟨by simp [setThread, hlen], prog_keep hprog hti rfl, Or.inr ?_⟩
          refine ⟨i, { t with cur := some p' }, p', d0 + 1, o0, log0, rs0, ?_, rfl, hh0, rfl, ?_,
            hlog0, hrs0, hkeep_oth _, hkeep_outs _ rfl, ?_⟩
          · rw [getElem?_setThread]; simp [hilt]
          · simpa [WN] using hwn0
          · simpa [runProg] using hrun0
        | rel p' =>
          simp only [WN] at hwn0
          obtain ⟨hd1, hwn1⟩ := hwn0
          have hnle : ¬ (d0 + 1 ≤ 1) := by omega
          simp only [hown0, release, if_true, hnle, if_false] at hs
          cases hs
          refine ⟨by simp [setThread, hlen], prog_keep hprog hti rfl, Or.inr ?_⟩
          refine ⟨i, { t with cur := some p' }, p', d0 - 1, o0, log0, rs0, ?_, rfl, hh0, ?_, hwn1,
            hlog0, hrs0, hkeep_oth _, hkeep_outs _ rfl, ?_⟩
          · rw [getElem?_setThread]; simp [hilt]
          · show some (i, d0 + 1 - 1) = some (i, d0 - 1 + 1)
            congr 2; omega
          · simpa [runProg] using hrun0

theorem inv2_exec (sys : Sys S Op Out) (s0 : S) (progs : List (List Op))
    (hro : ∀ o, sys.protect o = false → RO (sys.body o))
    (hwn : ∀ o, sys.protect o = true → WN 0 (sys.body o))
    (c c' : Cfg S Op Out) (sch : List Tid) (h : Inv2 sys s0 progs c) (hs : c.exec sys sch = some c') :
    Inv2 sys s0 progs c' := by
  induction sch generalizing c with
  | nil => simp [Cfg.exec] at hs; subst hs; exact h
  | cons i is ih =>
    simp only [Cfg.exec] at hs
    cases hst : c.step sys i with
    | none => simp [hst] at hs
    | some c1 =>
      simp only [hst] at hs
      exact ih c1 (inv2_step sys s0 progs hro hwn c c1 i h hst) hs

end C03
