import BoltonsVerif.Common
import BoltonsVerif.C02.Model
/-
C03 line protocol: the operations of a concurrent run, in the order in which they took the
lock (the linearisation `C03.serializable` promises), replayed ATOMICALLY on the C02 cache model.

    <lru:0|1> <max> <on_miss:0|1> <init pairs k.v,… | -> <op> <op> …
  s:k:v  c[k]=v      g:k  c[k]          G:k:d  c.get(k,d)     d:k  del c[k]
  p:k    c.pop(k)    P:k:d c.pop(k,d)   D:k:v  c.setdefault   u:pairs  c.update(pairs)
  I      c.popitem() c    c.clear()     C      c.copy()       e:pairs  c == {pairs}
  n:pairs c != {pairs}                  i:pairs c |= {pairs}
  U:pairs:kw  c.update(pairs, **kw)  (keyword form; `-` = no positional argument / no keywords)
  K      c.copy() observed through its items (dict order), class, max_size and eviction-order probe
on_miss is k ↦ 10k+7.  Output:  <result>,<result>,…|<final items sorted>|<eviction order probe>
-/
namespace C03.Driver
open BV C02

abbrev C := Cache Nat Nat

def parsePairs? (s : String) : Option (List (Nat × Nat)) :=
  if s = "-" ∨ s = "" then some [] else
  (splitOnChar s ',').foldr (fun w acc =>
    match acc, splitOnChar w '.' with
    | some l, [a, b] => match a.toNat?, b.toNat? with
      | some x, some y => some ((x, y) :: l)
      | _, _ => none
    | _, _ => none) (some [])

def insSorted (x : Nat × Nat) : List (Nat × Nat) → List (Nat × Nat)
  | [] => [x]
  | y :: ys => if x.1 < y.1 ∨ (x.1 = y.1 ∧ x.2 ≤ y.2) then x :: y :: ys else y :: insSorted x ys

def sortPairs (l : List (Nat × Nat)) : List (Nat × Nat) := l.foldr insSorted []

def insNat (x : Nat) : List Nat → List Nat
  | [] => [x]
  | y :: ys => if x ≤ y then x :: y :: ys else y :: insNat x ys

def showPairs (l : List (Nat × Nat)) : String :=
  if l.isEmpty then "-" else ",".intercalate (l.map fun p => s!"{p.1}.{p.2}")

def parseOp? (tok : String) : Option (Op Nat Nat) :=
  match splitOnChar tok ':' with
  | ["s", k, v] => do some (.setitem (← k.toNat?) (← v.toNat?))
  | ["g", k] => do some (.getitem (← k.toNat?))
  | ["G", k, d] => do some (.get (← k.toNat?) (← d.toNat?))
  | ["d", k] => do some (.delitem (← k.toNat?))
  | ["p", k] => do some (.pop (← k.toNat?) none)
  | ["P", k, d] => do some (.pop (← k.toNat?) (some (← d.toNat?)))
  | ["D", k, v] => do some (.setdefault (← k.toNat?) (← v.toNat?))
  | ["u", ps] => do some (.update (.pairs (← parsePairs? ps)) [])
  | ["U", ps, kw] => do some (.update (.pairs (← parsePairs? ps)) (← parsePairs? kw))
  | ["I"] => some .popitem
  | ["c"] => some .clear
  | ["C"] => some .copy
  | ["e", ps] => do some (.eq (.pairs (← parsePairs? ps)))
  | ["n", ps] => do some (.ne (.pairs (← parsePairs? ps)))
  | ["i", ps] => do some (.ior (.pairs (← parsePairs? ps)))
  | _ => none

def showOut : Out Nat Nat C → String
  | .none => "N"
  | .val v => s!"v{v}"
  | .keyError => "!KeyError"
  | .raised => "!ValueError"
  | .item k v => s!"p{k}.{v}"
  | .bool b => if b then "t" else "f"
  | .nat n => s!"n{n}"
  | .items l => s!"L{showPairs l}"
  | .cache c => s!"L{showPairs (sortPairs c.d)}"

/-- insert fresh keys one at a time and record which keys vanish (sorted), as the harness does -/
def probe (c : C) (n : Nat) : List String :=
  let rec go (c : C) (i : Nat) (fuel : Nat) (acc : List String) : List String :=
    match fuel with
    | 0 => acc.reverse
    | fuel + 1 =>
      let before := keys c.d
      let c' := (step c (.setitem (1000 + i) 0)).1
      let after := keys c'.d
      let gone := (before.filter fun k => !after.contains k).foldr insNat []
      go c' (i + 1) fuel (showNats gone "+" :: acc)
  go c 0 n []

def handle (line : String) : String :=
  match words line with
  | lru :: mx :: om :: init :: toks =>
    match mx.toNat?, parsePairs? init with
    | some mx, some init =>
      if mx = 0 then "bad-op" else
      let c0 : C := Cache.init (lru = "1") mx (if om = "1" then some (fun k => 10 * k + 7) else none)
      let c1 := init.foldl (fun c p => (step c (.setitem p.1 p.2)).1) c0
      let rec go (c : C) (toks : List String) (acc : List String) : Option (C × List String) :=
        match toks with
        | [] => some (c, acc.reverse)
        | t :: ts =>
          if t = "K" then       -- copy(), then items in dict order / class / capacity / eviction order of the copy
            match step c .copy with
            | (c', .cache cc) =>
              go c' ts (s!"K{showPairs cc.d}/{if cc.lru then "LRU" else "LRI"}/{cc.max}/{";".intercalate (probe cc (2 * cc.max + 2))}" :: acc)
            | _ => none
          else match parseOp? t with
          | some op => let r := step c op; go r.1 ts (showOut r.2 :: acc)
          | none => none
      match go c1 toks [] with
      | some (c, outs) =>
        (if outs.isEmpty then "-" else ",".intercalate outs) ++ "|" ++ showPairs (sortPairs c.d) ++ "|" ++
          ";".intercalate (probe c (2 * mx + 2))
      | none => "bad-op"
    | _, _ => "bad-op"
  | _ => "bad-op"

end C03.Driver
