import BoltonsVerif.Common
/- C03 driver: placeholder until the C02 model driver is wired in (the C03 correspondence replays the
   linearised operations on the C02 model). -/
namespace C03.Driver
def handle (_line : String) : String := "bad-op"
end C03.Driver
