import BoltonsVerif.C03.Driver
def main : IO Unit := BV.mainLoop C03.Driver.handle
