import BoltonsVerif.C03.Model
/-
C03 helper lemmas: the mutual-exclusion / linearisation invariant of the
interleaving semantics and its preservation by every micro-step.
-/
namespace C03
variable {S Op Out : Type}

/-! bookkeeping lemmas -/

theorem serialState_snoc (sys : Sys S Op Out) (s0 : S) (log : List (Tid × Op)) (e : Tid × Op) :
    serialState sys s0 (log ++ [e]) = (runProg (sys.body e.2) (serialState sys s0 log)).1 := by
  simp [serialState, List.foldl_append]

theorem serialOuts_snoc (sys : Sys S Op Out) (s0 : S) (i : Tid) (log : List (Tid × Op)) (e : Tid × Op) :
    serialOuts sys s0 i (log ++ [e]) =
      serialOuts sys s0 i log ++
        (if e.1 = i then [(runProg (sys.body e.2) (serialState sys s0 log)).2] else []) := by
  induction log generalizing s0 with
  | nil => simp [serialOuts, serialState]
  | cons a as ih =>
    simp only [List.cons_append, serialOuts]
    have hs : serialState sys s0 (a :: as) = serialState sys (runProg (sys.body a.2) s0).1 as := by
      simp [serialState]
    split
    · rw [ih, hs]; simp
    · rw [ih, hs]

theorem opsOf_snoc_self (i : Tid) (log : List (Tid × Op)) (o : Op) :
    opsOf i (log ++ [(i, o)]) = opsOf i log ++ [o] := by
  simp [opsOf, List.filter_append]

theorem opsOf_snoc_ne (i j : Tid) (log : List (Tid × Op)) (o : Op) (h : j ≠ i) :
    opsOf i (log ++ [(j, o)]) = opsOf i log := by
  simp [opsOf, List.filter_append, h]

theorem getElem?_setThread (ts : List (Thread S Op Out)) (i j : Tid) (t : Thread S Op Out) :
    (setThread ts i t)[j]? = if i = j then (if i < ts.length then some t else none) else ts[j]? := by
  unfold setThread
  by_cases h : i = j
  · subst h; simp [List.getElem?_set]
  · simp [List.getElem?_set, h]

theorem lt_of_getElem?_some {α : Type} {l : List α} {i : Nat} {a : α} (h : l[i]? = some a) :
    i < l.length := by
  rcases Nat.lt_or_ge i l.length with hlt | hge
  · exact hlt
  · rw [List.getElem?_eq_none hge] at h; cases h

/-! the invariant -/

def Idle (sys : Sys S Op Out) (s0 : S) (c : Cfg S Op Out) : Prop :=
  c.owner = none ∧
  (∀ j t, c.threads[j]? = some t → t.cur = none ∧ t.outs = serialOuts sys s0 j c.log) ∧
  c.shared = serialState sys s0 c.log

def Busy (sys : Sys S Op Out) (s0 : S) (c : Cfg S Op Out) : Prop :=
  ∃ (i : Tid) (t : Thread S Op Out) (p : Prog S Out) (d : Nat) (o : Op) (log' : List (Tid × Op)),
    c.threads[i]? = some t ∧ t.cur = some p ∧ t.holds = true ∧ c.owner = some (i, d + 1) ∧
    WN d p ∧ c.log = log' ++ [(i, o)] ∧
    (∀ j tj, j ≠ i → c.threads[j]? = some tj → tj.cur = none) ∧
    (∀ j tj, c.threads[j]? = some tj → tj.outs = serialOuts sys s0 j log') ∧
    runProg p c.shared = runProg (sys.body o) (serialState sys s0 log')

structure Inv (sys : Sys S Op Out) (s0 : S) (progs : List (List Op)) (c : Cfg S Op Out) : Prop where
  len : c.threads.length = progs.length
  prog : ∀ i t, c.threads[i]? = some t → progs[i]? = some (opsOf i c.log ++ t.todo)
  st : Idle sys s0 c ∨ Busy sys s0 c

theorem inv_init (sys : Sys S Op Out) (s0 : S) (progs : List (List Op)) :
    Inv sys s0 progs (Cfg.init s0 progs) := by
  refine ⟨by simp [Cfg.init], ?_, Or.inl ⟨rfl, ?_, rfl⟩⟩
  · intro i t h
    simp only [Cfg.init, List.getElem?_map] at h
    cases hp : progs[i]? with
    | none => simp [hp] at h
    | some p => simp [hp] at h; subst h; simp [opsOf, Cfg.init]
  · intro j t h
    simp only [Cfg.init, List.getElem?_map] at h
    cases hp : progs[j]? with
    | none => simp [hp] at h
    | some p => simp [hp] at h; subst h; simp [serialOuts, Cfg.init]

/-- every micro-step of every thread preserves the invariant, provided every
    operation is protected and its nested acquisitions are well nested -/
theorem inv_step (sys : Sys S Op Out) (s0 : S) (progs : List (List Op))
    (hprot : ∀ o, sys.protect o = true) (hwn : ∀ o, WN 0 (sys.body o))
    (c c' : Cfg S Op Out) (i : Tid) (h : Inv sys s0 progs c) (hs : c.step sys i = some c') :
    Inv sys s0 progs c' := by
  obtain ⟨hlen, hprog, hst⟩ := h
  unfold Cfg.step at hs
  cases hti : c.threads[i]? with
  | none => simp [hti] at hs
  | some t =>
    have hilt : i < c.threads.length := lt_of_getElem?_some hti
    simp only [hti] at hs
    cases hcur : t.cur with
    | none =>
      simp only [hcur] at hs
      cases htodo : t.todo with
      | nil => simp [htodo] at hs
      | cons o rest =>
        simp only [htodo, hprot o, if_true] at hs
        rcases hst with ⟨hown, hall, hsh⟩ | ⟨i0, t0, p0, d0, o0, log0, ht0, hc0, _, hown0, _, _, _, _, _⟩
        · -- idle: the thread takes the lock and starts `o`
          simp only [hown, tryAcquire] at hs
          cases hs
          refine ⟨by simp [setThread, hlen], ?_, Or.inr ?_⟩
          · intro j tj hj
            rw [getElem?_setThread] at hj
            by_cases hij : i = j
            · subst hij
              simp only [if_true, hilt] at hj
              cases hj
              have := hprog i t hti
              simp only [htodo] at this
              simp [this, opsOf_snoc_self]
            · simp only [hij, if_false] at hj
              have := hprog j tj hj
              rw [opsOf_snoc_ne j i c.log o (fun h => hij h)]
              exact this
          · refine ⟨i, { t with todo := rest, cur := some (sys.body o), holds := true }, sys.body o, 0, o, c.log, ?_, rfl, rfl, rfl, hwn o, rfl, ?_, ?_, ?_⟩
            · rw [getElem?_setThread]; simp [hilt]
            · intro j tj hji hj
              rw [getElem?_setThread] at hj
              have : ¬ i = j := fun h => hji h.symm
              simp only [this, if_false] at hj
              exact (hall j tj hj).1
            · intro j tj hj
              rw [getElem?_setThread] at hj
              by_cases hij : i = j
              · subst hij
                simp only [if_true, hilt] at hj
                cases hj
                exact (hall i t hti).2
              · simp only [hij, if_false] at hj
                exact (hall j tj hj).2
            · simp [hsh]
        · -- busy: somebody else holds the lock, so this thread is blocked
          have hne : i0 ≠ i := by
            intro heq; subst heq
            rw [hti] at ht0; cases ht0
            rw [hcur] at hc0; cases hc0
          simp only [hown0, tryAcquire, hne, if_false] at hs
          cases hs
    | some p =>
      simp only [hcur] at hs
      -- a thread with an operation in progress must be the holder
      rcases hst with ⟨_, hall, _⟩ | ⟨i0, t0, p0, d0, o0, log0, ht0, hc0, hh0, hown0, hwn0, hlog0, hoth0, houts0, hrun0⟩
      · have := (hall i t hti).1
        rw [hcur] at this; cases this
      · have hi0 : i0 = i := by
          by_cases heq : i0 = i
          · exact heq
          · have := hoth0 i t (fun h => heq h.symm) hti
            rw [hcur] at this; cases this
        subst hi0
        rw [hti] at ht0; cases ht0
        rw [hcur] at hc0; cases hc0
        cases p with
        | ret out =>
          simp only [hh0, if_true, hown0, release] at hs
          have hd0 : d0 = 0 := by simpa [WN] using hwn0
          subst hd0
          simp only [if_true, Nat.le_refl, Nat.zero_add] at hs
          cases hs
          have hr : (c.shared, out) = runProg (sys.body o0) (serialState sys s0 log0) := by
            simpa [runProg] using hrun0
          refine ⟨by simp [setThread, hlen], ?_, Or.inl ⟨rfl, ?_, ?_⟩⟩
          · intro j tj hj
            rw [getElem?_setThread] at hj
            by_cases hij : i0 = j
            · subst hij
              simp only [if_true, hilt] at hj
              cases hj
              exact hprog i0 t hti
            · simp only [hij, if_false] at hj
              exact hprog j tj hj
          · intro j tj hj
            rw [getElem?_setThread] at hj
            by_cases hij : i0 = j
            · subst hij
              simp only [if_true, hilt] at hj
              cases hj
              refine ⟨rfl, ?_⟩
              simp only [hlog0, serialOuts_snoc, if_true]
              rw [houts0 i0 t hti, ← hr]
            · simp only [hij, if_false] at hj
              refine ⟨hoth0 j tj (fun h => hij h.symm) hj, ?_⟩
              simp only [hlog0, serialOuts_snoc]
              rw [houts0 j tj hj]
              simp [hij]
          · simp only [hlog0, serialState_snoc]
            rw [← hr]
        | step f k =>
          cases hs
          refine ⟨by simp [setThread, hlen], ?_, Or.inr ?_⟩
          · intro j tj hj
            rw [getElem?_setThread] at hj
            by_cases hij : i0 = j
            · subst hij
              simp only [if_true, hilt] at hj
              cases hj
              exact hprog i0 t hti
            · simp only [hij, if_false] at hj
              exact hprog j tj hj
          · refine ⟨i0, { t with cur := some (k c.shared) }, k c.shared, d0, o0, log0, ?_, rfl, hh0, hown0, ?_, hlog0, ?_, ?_, ?_⟩
            · rw [getElem?_setThread]; simp [hilt]
            · simp only [WN] at hwn0; exact hwn0 c.shared
            · intro j tj hji hj
              rw [getElem?_setThread] at hj
              have : ¬ i0 = j := fun h => hji h.symm
              simp only [this, if_false] at hj
              exact hoth0 j tj hji hj
            · intro j tj hj
              rw [getElem?_setThread] at hj
              by_cases hij : i0 = j
              · subst hij
                simp only [if_true, hilt] at hj
                cases hj
                exact houts0 i0 t hti
              · simp only [hij, if_false] at hj
                exact houts0 j tj hj
            · simpa [runProg] using hrun0
        | acq p' =>
          simp only [hown0, tryAcquire, if_true] at hs
          cases hs
          refine ⟨by simp [setThread, hlen], ?_, Or.inr ?_⟩
          · intro j tj hj
            rw [getElem?_setThread] at hj
            by_cases hij : i0 = j
            · subst hij
              simp only [if_true, hilt] at hj
              cases hj
              exact hprog i0 t hti
            · simp only [hij, if_false] at hj
              exact hprog j tj hj
          · refine ⟨i0, { t with cur := some p' }, p', d0 + 1, o0, log0, ?_, rfl, hh0, rfl, ?_, hlog0, ?_, ?_, ?_⟩
            · rw [getElem?_setThread]; simp [hilt]
            · simpa [WN] using hwn0
            · intro j tj hji hj
              rw [getElem?_setThread] at hj
              have : ¬ i0 = j := fun h => hji h.symm
              simp only [this, if_false] at hj
              exact hoth0 j tj hji hj
            · intro j tj hj
              rw [getElem?_setThread] at hj
              by_cases hij : i0 = j
              · subst hij
                simp only [if_true, hilt] at hj
                cases hj
                exact houts0 i0 t hti
              · simp only [hij, if_false] at hj
                exact houts0 j tj hj
            · simpa [runProg] using hrun0
        | rel p' =>
          simp only [WN] at hwn0
          obtain ⟨hd1, hwn1⟩ := hwn0
          have hnle : ¬ (d0 + 1 ≤ 1) := by omega
          simp only [hown0, release, if_true, hnle, if_false] at hs
          cases hs
          refine ⟨by simp [setThread, hlen], ?_, Or.inr ?_⟩
          · intro j tj hj
            rw [getElem?_setThread] at hj
            by_cases hij : i0 = j
            · subst hij
              simp only [if_true, hilt] at hj
              cases hj
              exact hprog i0 t hti
            · simp only [hij, if_false] at hj
              exact hprog j tj hj
          · refine ⟨i0, { t with cur := some p' }, p', d0 - 1, o0, log0, ?_, rfl, hh0, ?_, hwn1, hlog0, ?_, ?_, ?_⟩
            · rw [getElem?_setThread]; simp [hilt]
            · show some (i0, d0 + 1 - 1) = some (i0, d0 - 1 + 1)
              congr 2; omega
            · intro j tj hji hj
              rw [getElem?_setThread] at hj
              have : ¬ i0 = j := fun h => hji h.symm
              simp only [this, if_false] at hj
              exact hoth0 j tj hji hj
            · intro j tj hj
              rw [getElem?_setThread] at hj
              by_cases hij : i0 = j
              · subst hij
                simp only [if_true, hilt] at hj
                cases hj
                exact houts0 i0 t hti
              · simp only [hij, if_false] at hj
                exact houts0 j tj hj
            · simpa [runProg] using hrun0

theorem inv_exec (sys : Sys S Op Out) (s0 : S) (progs : List (List Op))
    (hprot : ∀ o, sys.protect o = true) (hwn : ∀ o, WN 0 (sys.body o))
    (c c' : Cfg S Op Out) (sch : List Tid) (h : Inv sys s0 progs c) (hs : c.exec sys sch = some c') :
    Inv sys s0 progs c' := by
  induction sch generalizing c with
  | nil => simp [Cfg.exec] at hs; subst hs; exact h
  | cons i is ih =>
    simp only [Cfg.exec] at hs
    cases hst : c.step sys i with
    | none => simp [hst] at hs
    | some c1 =>
      simp only [hst] at hs
      exact ih c1 (inv_step sys s0 progs hprot hwn c c1 i h hst) hs

end C03
