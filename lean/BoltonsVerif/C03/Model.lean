/-
C03 — interleaving semantics of threads operating on one shared, lock-protected object.

Generic in the shared state `S`, the operations `Op` and their results `Out`.
An operation's body is a small-step program (`Prog`): every `step` is one
atomic shared-state access (CPython executes one bytecode / one C-level dict
call at a time under the GIL), whose continuation may depend on the state it
saw; `acq`/`rel` are nested acquisitions of the *same* re-entrant lock made
inside the body (e.g. `__getitem__` → `on_miss` → `self[key] = …`, or
`setdefault` → `self[key]`).  A *protected* operation runs its whole body
between an outermost acquire and the matching release (`with self._lock:`
around the method body); an unprotected one runs its steps with no lock.

`runProg` is the atomic (sequential) meaning of a body; `Cfg.step` lets any
thread that is not blocked take its next micro-step.  Core Lean only.
-/
namespace C03

inductive Prog (S Out : Type) where
  | ret  (o : Out)
  | step (f : S → S) (k : S → Prog S Out)   -- write `f`, continue with `k (state seen)`
  | acq  (p : Prog S Out)                   -- nested acquire of the same lock
  | rel  (p : Prog S Out)                   -- nested release

/-- sequential / atomic meaning of a body -/
def runProg {S Out : Type} : Prog S Out → S → S × Out
  | .ret o, s => (s, o)
  | .step f k, s => runProg (k s) (f s)
  | .acq p, s => runProg p s
  | .rel p, s => runProg p s

/-- well-nestedness of the re-entrant acquisitions inside a body, `n` currently open -/
def WN {S Out : Type} : Nat → Prog S Out → Prop
  | n, .ret _ => n = 0
  | n, .step _ k => ∀ s, WN n (k s)
  | n, .acq p => WN (n + 1) p
  | n, .rel p => 1 ≤ n ∧ WN (n - 1) p

structure Sys (S Op Out : Type) where
  body : Op → Prog S Out
  protect : Op → Bool          -- is the method body under `with self._lock`?

abbrev Tid := Nat

structure Thread (S Op Out : Type) where
  todo : List Op                       -- operations not yet started
  cur  : Option (Prog S Out) := none   -- remaining body of the operation in progress
  holds : Bool := false                -- the operation in progress took the outer lock
  outs : List Out := []                -- results of the completed operations, in order

structure Cfg (S Op Out : Type) where
  shared : S
  owner : Option (Tid × Nat)           -- re-entrant lock: owner and depth
  threads : List (Thread S Op Out)
  log : List (Tid × Op)                -- ghost: operations in the order they started

variable {S Op Out : Type}

def setThread (ts : List (Thread S Op Out)) (i : Tid) (t : Thread S Op Out) : List (Thread S Op Out) :=
  ts.set i t

/-- can thread `i` take the lock now? returns the new owner field -/
def tryAcquire (owner : Option (Tid × Nat)) (i : Tid) : Option (Option (Tid × Nat)) :=
  match owner with
  | none => some (some (i, 1))
  | some (j, d) => if j = i then some (some (i, d + 1)) else none

def release (owner : Option (Tid × Nat)) (i : Tid) : Option (Option (Tid × Nat)) :=
  match owner with
  | some (j, d) => if j = i then (if d ≤ 1 then some none else some (some (i, d - 1))) else none
  | none => none

/-- one micro-step of thread `i`; `none` = thread `i` is blocked / finished / does not exist -/
def Cfg.step (sys : Sys S Op Out) (c : Cfg S Op Out) (i : Tid) : Option (Cfg S Op Out) :=
  match c.threads[i]? with
  | none => none
  | some t =>
    match t.cur with
    | none =>
      match t.todo with
      | [] => none
      | o :: rest =>
        if sys.protect o then
          match tryAcquire c.owner i with
          | none => none                                   -- blocked on the lock
          | some ow => some { c with owner := ow, log := c.log ++ [(i, o)],
                                     threads := setThread c.threads i
                                       { t with todo := rest, cur := some (sys.body o), holds := true } }
        else
          some { c with log := c.log ++ [(i, o)],
                        threads := setThread c.threads i
                          { t with todo := rest, cur := some (sys.body o), holds := false } }
    | some (.ret out) =>
      if t.holds then
        match release c.owner i with
        | none => none
        | some ow => some { c with owner := ow,
                                   threads := setThread c.threads i
                                     { t with cur := none, holds := false, outs := t.outs ++ [out] } }
      else
        some { c with threads := setThread c.threads i
                        { t with cur := none, holds := false, outs := t.outs ++ [out] } }
    | some (.step f k) =>
      some { c with shared := f c.shared,
                    threads := setThread c.threads i { t with cur := some (k c.shared) } }
    | some (.acq p) =>
      match tryAcquire c.owner i with
      | none => none
      | some ow => some { c with owner := ow, threads := setThread c.threads i { t with cur := some p } }
    | some (.rel p) =>
      match release c.owner i with
      | none => none
      | some ow => some { c with owner := ow, threads := setThread c.threads i { t with cur := some p } }

/-- run a schedule (list of thread choices); `none` if some choice was not enabled -/
def Cfg.exec (sys : Sys S Op Out) (c : Cfg S Op Out) : List Tid → Option (Cfg S Op Out)
  | [] => some c
  | i :: is => match c.step sys i with
    | none => none
    | some c' => c'.exec sys is

def Cfg.init (s0 : S) (progs : List (List Op)) : Cfg S Op Out :=
  { shared := s0, owner := none, log := [],
    threads := progs.map fun p => { todo := p } }

def Thread.done (t : Thread S Op Out) : Bool := t.todo.isEmpty && t.cur.isNone

def Cfg.complete (c : Cfg S Op Out) : Bool := c.threads.all Thread.done

/-! the sequential reference -/

/-- state after running the logged operations one after the other, atomically -/
def serialState (sys : Sys S Op Out) (s0 : S) (log : List (Tid × Op)) : S :=
  log.foldl (fun s e => (runProg (sys.body e.2) s).1) s0

/-- results thread `i` obtains in that serial run, in order -/
def serialOuts (sys : Sys S Op Out) (s0 : S) (i : Tid) : List (Tid × Op) → List Out
  | [] => []
  | e :: es =>
    let r := runProg (sys.body e.2) s0
    if e.1 = i then r.2 :: serialOuts sys r.1 i es else serialOuts sys r.1 i es

/-- the operations of thread `i` in a log -/
def opsOf (i : Tid) (log : List (Tid × Op)) : List Op :=
  (log.filter (fun e => e.1 = i)).map (·.2)

end C03
