import BoltonsVerif.C09.Model
/-
C09 helper lemmas: split_iter (after the fixes) refines the item-wise `str.split`.
-/
namespace C09
variable {α : Type}

/-- splits still allowed after `cnt` of them -/
def rem (ms : Option Nat) (cnt : Nat) : Option Nat := ms.map (fun m => m - cnt)

/-- ... taking into account that `sep_func` may already have been replaced -/
def bud (ms : Option Nat) (cnt : Nat) (frozen : Bool) : Option Nat :=
  if frozen then some 0 else rem ms cnt

theorem limitReached_eq (ms : Option Nat) (cnt : Nat) :
    limitReached ms cnt = (rem ms cnt == some 0) := by
  cases ms with
  | none => simp [limitReached, rem]
  | some m =>
    simp only [limitReached, rem, Option.map_some]
    rw [Bool.eq_iff_iff]
    simp
    omega

theorem rem_succ (ms : Option Nat) (cnt : Nat) : (rem ms cnt).map Nat.pred = rem ms (cnt + 1) := by
  cases ms with
  | none => simp [rem]
  | some m => simp [rem]; omega

theorem rem_zero (ms : Option Nat) : rem ms 0 = ms := by
  cases ms <;> simp [rem]

/-- `cur` is the part of the first group collected so far -/
def consHead (cur : List α) : List (List α) → List (List α)
  | [] => [cur]
  | g :: gs => (cur ++ g) :: gs

theorem consHead_consHead (cur c : List α) (l : List (List α)) :
    consHead cur (consHead c l) = consHead (cur ++ c) l := by
  cases l <;> simp [consHead]

theorem pySplitSep_cons (p : α → Bool) (ms : Option Nat) (x : α) (xs : List α) :
    pySplitSep p ms (x :: xs) =
      if p x && ms != some 0 then [] :: pySplitSep p (ms.map Nat.pred) xs
      else consHead [x] (pySplitSep p ms xs) := by
  rw [pySplitSep]
  cases pySplitSep p ms xs <;> simp [consHead]

theorem pySplitSep_ne_nil (p : α → Bool) : ∀ (ms : Option Nat) (xs : List α), pySplitSep p ms xs ≠ [] := by
  intro ms xs
  induction xs generalizing ms with
  | nil => simp [pySplitSep]
  | cons x xs ih =>
    rw [pySplitSep_cons]
    split
    · simp
    · cases h : pySplitSep p ms xs <;> simp [consHead]

theorem consHead_nil_of_ne {l : List (List α)} (h : l ≠ []) : consHead [] l = l := by
  cases l with
  | nil => exact absurd rfl h
  | cons g gs => simp [consHead]

theorem splitLoop_sep (p : α → Bool) (ms : Option Nat) :
    ∀ (xs cur : List α) (cnt : Nat) (frozen : Bool),
      splitLoop p false ms xs cur cnt frozen = consHead cur (pySplitSep p (bud ms cnt frozen) xs) := by
  intro xs
  induction xs with
  | nil => intro cur cnt frozen; simp [splitLoop, pySplitSep, consHead]
  | cons s rest ih =>
    intro cur cnt frozen
    have hfz : freeze false ms cur cnt frozen = (bud ms cnt frozen == some 0) := by
      unfold freeze bud
      rw [limitReached_eq]
      cases frozen <;> simp
    unfold splitLoop
    rw [hfz, pySplitSep_cons]
    by_cases hb : bud ms cnt frozen = some 0
    · -- no split left: everything is appended
      simp only [hb, beq_self_eq_true, Bool.not_true, Bool.false_and, Bool.false_eq_true, ↓reduceIte]
      rw [ih]
      have : bud ms cnt true = some 0 := by simp [bud]
      rw [this]
      simp [consHead_consHead]
    · have hb' : (bud ms cnt frozen == some 0) = false := by simpa using hb
      have hfr : frozen = false := by
        cases frozen with
        | false => rfl
        | true => simp [bud] at hb
      subst hfr
      have hbr : ∀ c, bud ms c false = rem ms c := by simp [bud]
      rw [hbr] at hb hb' ⊢
      simp only [hb', Bool.not_false, Bool.true_and]
      have hne : (rem ms cnt != some 0) = true := by simp [bne, hb']
      by_cases hp : p s = true
      · simp only [hp, ↓reduceIte, Bool.false_and, Bool.false_eq_true, hne, Bool.and_self]
        rw [ih, hbr, consHead_nil_of_ne (pySplitSep_ne_nil _ _ _), rem_succ]
        simp [consHead]
      · have hp' : p s = false := by simpa using hp
        simp only [hp', Bool.false_eq_true, ↓reduceIte, Bool.false_and]
        rw [ih, hbr, consHead_consHead]

/-! ### grouping mode (`sep is None`) -/

theorem length_dropWhile_le (q : α → Bool) (xs : List α) : (xs.dropWhile q).length ≤ xs.length := by
  induction xs with
  | nil => simp
  | cons x xs ih => rw [List.dropWhile_cons]; split <;> simp <;> omega

/-- one round of `split_whitespace` consumes at least one item -/
theorem ws_rest_lt (p : α → Bool) (xs : List α) (h : (xs.dropWhile p).isEmpty = false) :
    ((xs.dropWhile p).dropWhile (notp p)).length < xs.length := by
  have h1 := length_dropWhile_le p xs
  cases hd : xs.dropWhile p with
  | nil => simp [hd] at h
  | cons y ys =>
    have hy : p y = false := by
      have := List.head_dropWhile_not p (l := xs) (by simp [hd])
      simpa [hd] using this
    rw [List.dropWhile_cons]
    have h2 := length_dropWhile_le (notp p) ys
    simp only [notp, hy, Bool.not_false, ↓reduceIte]
    rw [hd] at h1
    simp at h1
    omega

theorem wsLoop_step (p : α → Bool) (fuel : Nat) (b : Option Nat) (xs : List α) :
    pySplitWsLoop p (fuel + 1) b xs =
      if (xs.dropWhile p).isEmpty then []
      else if b == some 0 then [xs.dropWhile p]
      else (xs.dropWhile p).takeWhile (notp p) ::
        pySplitWsLoop p fuel (b.map Nat.pred) ((xs.dropWhile p).dropWhile (notp p)) := by
  rw [pySplitWsLoop]

theorem wsLoop_succ (p : α → Bool) : ∀ (fuel : Nat) (b : Option Nat) (xs : List α), xs.length ≤ fuel →
    pySplitWsLoop p (fuel + 1) b xs = pySplitWsLoop p fuel b xs := by
  intro fuel
  induction fuel with
  | zero =>
    intro b xs h
    have : xs = [] := List.length_eq_zero_iff.mp (by omega)
    simp [pySplitWsLoop, this]
  | succ n ih =>
    intro b xs h
    rw [wsLoop_step p (n + 1) b xs, wsLoop_step p n b xs]
    by_cases he : (xs.dropWhile p).isEmpty = true
    · simp [he]
    · have he' : (xs.dropWhile p).isEmpty = false := by simpa using he
      have := ws_rest_lt p xs he'
      rw [ih _ _ (by omega)]

theorem wsLoop_add (p : α → Bool) (n fuel : Nat) (b : Option Nat) (xs : List α) (h : xs.length ≤ fuel) :
    pySplitWsLoop p (fuel + n) b xs = pySplitWsLoop p fuel b xs := by
  induction n with
  | zero => rfl
  | succ n ih => rw [← Nat.add_assoc, wsLoop_succ p _ _ _ (by omega), ih]

theorem wsLoop_eq (p : α → Bool) (fuel : Nat) (b : Option Nat) (xs : List α) (h : xs.length ≤ fuel) :
    pySplitWsLoop p fuel b xs = pySplitWs p b xs := by
  have := wsLoop_add p (fuel - xs.length) xs.length b xs (Nat.le_refl _)
  rw [show xs.length + (fuel - xs.length) = fuel by omega] at this
  exact this

/-- the defining equation of `str.split(None, maxsplit)` item-wise, without fuel -/
theorem pySplitWs_eq (p : α → Bool) (b : Option Nat) (xs : List α) :
    pySplitWs p b xs =
      if (xs.dropWhile p).isEmpty then []
      else if b == some 0 then [xs.dropWhile p]
      else (xs.dropWhile p).takeWhile (notp p) ::
        pySplitWs p (b.map Nat.pred) ((xs.dropWhile p).dropWhile (notp p)) := by
  cases hx : xs with
  | nil => simp [pySplitWs, pySplitWsLoop]
  | cons y ys =>
    rw [← hx]
    have hl : xs.length = ys.length + 1 := by simp [hx]
    conv => lhs; unfold pySplitWs; rw [hl, wsLoop_step]
    by_cases he : (xs.dropWhile p).isEmpty = true
    · simp [he]
    · have he' : (xs.dropWhile p).isEmpty = false := by simpa using he
      have := ws_rest_lt p xs he'
      rw [wsLoop_eq p _ _ _ (by omega)]

theorem pySplitWs_nil (p : α → Bool) (b : Option Nat) : pySplitWs p b ([] : List α) = [] := by
  simp [pySplitWs, pySplitWsLoop]

theorem pySplitWs_skip (p : α → Bool) (b : Option Nat) (s : α) (rest : List α) (hp : p s = true) :
    pySplitWs p b (s :: rest) = pySplitWs p b rest := by
  rw [pySplitWs_eq p b (s :: rest), pySplitWs_eq p b rest]
  simp [List.dropWhile_cons, hp]

theorem pySplitWs_last (p : α → Bool) (s : α) (rest : List α) (hp : p s = false) :
    pySplitWs p (some 0) (s :: rest) = [s :: rest] := by
  rw [pySplitWs_eq]
  simp [List.dropWhile_cons, hp]

theorem pySplitWs_word (p : α → Bool) (b : Option Nat) (s : α) (rest : List α) (hp : p s = false)
    (hb : b ≠ some 0) :
    pySplitWs p b (s :: rest) =
      (s :: rest.takeWhile (notp p)) :: pySplitWs p (b.map Nat.pred) (rest.dropWhile (notp p)) := by
  rw [pySplitWs_eq]
  have : (b == some 0) = false := by simpa using hb
  simp [List.dropWhile_cons, List.takeWhile_cons, hp, this, notp]

theorem splitLoop_ws (p : α → Bool) (ms : Option Nat) :
    ∀ (xs : List α),
      (∀ cnt, splitLoop p true ms xs [] cnt false = pySplitWs p (rem ms cnt) xs) ∧
      (∀ cur cnt frozen, cur ≠ [] →
        splitLoop p true ms xs cur cnt frozen =
          if bud ms cnt frozen = some 0 then [cur ++ xs]
          else (cur ++ xs.takeWhile (notp p)) ::
            pySplitWs p (rem ms (cnt + 1)) (xs.dropWhile (notp p))) := by
  intro xs
  induction xs with
  | nil =>
    refine ⟨?_, ?_⟩
    · intro cnt; simp [splitLoop, pySplitWs_nil]
    · intro cur cnt frozen hc
      have : cur.isEmpty = false := by cases cur <;> simp_all
      simp [splitLoop, pySplitWs_nil, this]
  | cons s rest ih =>
    obtain ⟨ih1, ih2⟩ := ih
    refine ⟨?_, ?_⟩
    · intro cnt
      have hfz : freeze true ms ([] : List α) cnt false = false := by simp [freeze]
      rw [splitLoop, hfz]
      by_cases hp : p s = true
      · simp only [hp, Bool.not_false, Bool.and_self, ↓reduceIte, List.isEmpty_nil]
        rw [ih1, pySplitWs_skip p _ s rest hp]
      · have hp' : p s = false := by simpa using hp
        simp only [hp', Bool.and_false, Bool.false_eq_true, ↓reduceIte, List.nil_append]
        rw [ih2 [s] cnt false (by simp)]
        have hbr : bud ms cnt false = rem ms cnt := by simp [bud]
        rw [hbr]
        by_cases hb : rem ms cnt = some 0
        · simp [hb, pySplitWs_last p s rest hp']
        · simp only [hb, ↓reduceIte]
          rw [pySplitWs_word p _ s rest hp' hb, rem_succ]
          simp
    · intro cur cnt frozen hc
      have hce : cur.isEmpty = false := by cases cur <;> simp_all
      have hfz : freeze true ms cur cnt frozen = (bud ms cnt frozen == some 0) := by
        unfold freeze bud
        rw [limitReached_eq, hce]
        cases frozen <;> simp
      rw [splitLoop, hfz]
      by_cases hb : bud ms cnt frozen = some 0
      · simp only [hb, beq_self_eq_true, Bool.not_true, Bool.false_and, Bool.false_eq_true, ↓reduceIte]
        rw [ih2 _ _ _ (by simp)]
        simp [bud]
      · have hb' : (bud ms cnt frozen == some 0) = false := by simpa using hb
        have hfr : frozen = false := by
          cases frozen with
          | false => rfl
          | true => simp [bud] at hb
        subst hfr
        simp only [hb', Bool.not_false, Bool.true_and, hb, ↓reduceIte, hce, Bool.and_false,
          Bool.false_eq_true]
        by_cases hp : p s = true
        · simp only [hp, ↓reduceIte]
          rw [ih1]
          simp [List.takeWhile_cons, List.dropWhile_cons, notp, hp, pySplitWs_skip p _ s rest hp]
        · have hp' : p s = false := by simpa using hp
          simp only [hp', Bool.false_eq_true, ↓reduceIte]
          rw [ih2 _ _ _ (by simp)]
          simp [hb, List.takeWhile_cons, List.dropWhile_cons, notp, hp']

/-- `split` is the item-wise `str.split` -/
theorem split_eq (p : α → Bool) (grouping : Bool) (maxsplit : Option Int) (src : List α) :
    split p grouping maxsplit src = pySplit p grouping (maxsplit.map Int.toNat) src := by
  unfold split pySplit
  cases grouping with
  | false =>
    rw [splitLoop_sep]
    simp only [bud, Bool.false_eq_true, ↓reduceIte, rem_zero]
    exact consHead_nil_of_ne (pySplitSep_ne_nil _ _ _)
  | true =>
    rw [(splitLoop_ws p _ src).1 0, rem_zero]
    rfl

end C09
