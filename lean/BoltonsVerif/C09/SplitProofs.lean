import BoltonsVerif.C09.Model
/-
C09 helper lemmas: split_iter (after the fixes) refines the item-wise `str.split`.
-/
namespace C09
variable {α : Type}

/-- splits still allowed after `cnt` of them -/
def rem (ms : Option Nat) (cnt : Nat) : Option Nat := ms.map (fun m => m - cnt)

/-- ... taking into account that `sep_func` may already have been replaced -/
def bud (ms : Option Nat) (cnt : Nat) (frozen : Bool) : Option Nat :=
  if frozen then some 0 else rem ms cnt

theorem limitReached_eq (ms : Option Nat) (cnt : Nat) :
    limitReached ms cnt = (rem ms cnt == some 0) := by
  cases ms with
  | none => simp [limitReached, rem]
  | some m =>
    simp only [limitReached, rem, Option.map_some]
    rw [Bool.eq_iff_iff]
    simp
    omega

theorem rem_succ (ms : Option Nat) (cnt : Nat) : (rem ms cnt).map Nat.pred = rem ms (cnt + 1) := by
  cases ms with
  | none => simp [rem]
  | some m => simp [rem]; omega

theorem rem_zero (ms : Option Nat) : rem ms 0 = ms := by
  cases ms <;> simp [rem]

/-- `cur` is the part of the first group collected so far -/
def consHead (cur : List α) : List (List α) → List (List α)
  | [] => [cur]
  | g :: gs => (cur ++ g) :: gs

theorem consHead_consHead (cur c : List α) (l : List (List α)) :
    consHead cur (consHead c l) = consHead (cur ++ c) l := by
  cases l <;> simp [consHead]

theorem pySplitSep_cons (p : α → Bool) (ms : Option Nat) (x : α) (xs : List α) :
    pySplitSep p ms (x :: xs) =
      if p x && ms != some 0 then [] :: pySplitSep p (ms.map Nat.pred) xs
      else consHead [x] (pySplitSep p ms xs) := by
  rw [pySplitSep]
  cases pySplitSep p ms xs <;> simp [consHead]

theorem pySplitSep_ne_nil (p : α → Bool) : ∀ (ms : Option Nat) (xs : List α), pySplitSep p ms xs ≠ [] := by
  intro ms xs
  induction xs generalizing ms with
  | nil => simp [pySplitSep]
  | cons x xs ih =>
    rw [pySplitSep_cons]
    split
    · simp
    · cases h : pySplitSep p ms xs <;> simp [consHead]

theorem consHead_nil_of_ne {l : List (List α)} (h : l ≠ []) : consHead [] l = l := by
  cases l with
  | nil => exact absurd rfl h
  | cons g gs => simp [consHead]

theorem splitLoop_sep (p : α → Bool) (ms : Option Nat) :
    ∀ (xs cur : List α) (cnt : Nat) (frozen : Bool),
      splitLoop p false ms xs cur cnt frozen = consHead cur (pySplitSep p (bud ms cnt frozen) xs) := by
  intro xs
  induction xs with
  | nil => intro cur cnt frozen; simp [splitLoop, pySplitSep, consHead]
  | cons s rest ih =>
    intro cur cnt frozen
    have hfz : freeze false ms cur cnt frozen = (bud ms cnt frozen == some 0) := by
      unfold freeze bud
      rw [limitReached_eq]
      cases frozen <;> simp
    unfold splitLoop
    rw [hfz, pySplitSep_cons]
    by_cases hb : bud ms cnt frozen = some 0
    · -- no split left: everything is appended
      simp only [hb, beq_self_eq_true, Bool.not_true, Bool.false_and, Bool.false_eq_true, ↓reduceIte]
      rw [ih]
      have : bud ms cnt true = some 0 := by simp [bud]
      rw [this]
      simp [consHead_consHead]
    · have hb' : (bud ms cnt frozen == some 0) = false := by simpa using hb
      have hfr : frozen = false := by
        cases frozen with
        | false => rfl
        | true => simp [bud] at hb
      subst hfr
      have hbr : ∀ c, bud ms c false = rem ms c := by simp [bud]
      rw [hbr] at hb hb' ⊢
      simp only [hb', Bool.not_false, Bool.true_and]
      have hne : (rem ms cnt != some 0) = true := by simp [bne, hb']
      by_cases hp : p s = true
      · simp only [hp, ↓reduceIte, Bool.false_and, Bool.false_eq_true, hne, Bool.and_self]
        rw [ih, hbr, consHead_nil_of_ne (pySplitSep_ne_nil _ _ _), rem_succ]
        simp [consHead]
      · have hp' : p s = false := by simpa using hp
        simp only [hp', Bool.false_eq_true, ↓reduceIte, Bool.false_and]
        rw [ih, hbr, consHead_consHead]

/-! ### grouping mode (`sep is None`) -/

theorem length_dropWhile_le (q : α → Bool) (xs : List α) : (xs.dropWhile q).length ≤ xs.length := by
  induction xs with
  | nil => simp
  | cons x xs ih => rw [List.dropWhile_cons]; split <;> simp <;> omega

/-- one round of `split_whitespace` consumes at least one item -/
theorem ws_rest_lt (p : α → Bool) (xs : List α) (h : (xs.dropWhile p).isEmpty = false) :
    ((xs.dropWhile p).dropWhile (notp p)).length < xs.length := by
  have h1 := length_dropWhile_le p xs
  cases hd : xs.dropWhile p with
  | nil => simp [hd] at h
  | cons y ys =>
    have hy : p y = false := by
      have := List.head_dropWhile_not p (l := xs) (by simp [hd])
      simpa [hd] using this
    rw [List.dropWhile_cons]
    have h2 := length_dropWhile_le (notp p) ys
    simp only [notp, hy, Bool.not_false, ↓reduceIte]
    rw [hd] at h1
    simp at h1
    omega

theorem wsLoop_step (p : α → Bool) (fuel : Nat) (b : Option Nat) (xs : List α) :
    pySplitWsLoop p (fuel + 1) b xs =
      if (xs.dropWhile p).isEmpty then []
      else if b == some 0 then [xs.dropWhile p]
      else (xs.dropWhile p).takeWhile (notp p) ::
        pySplitWsLoop p fuel (b.map Nat.pred) ((xs.dropWhile p).dropWhile (notp p)) := by
  rw [pySplitWsLoop]

theorem wsLoop_succ (p : α → Bool) : ∀ (fuel : Nat) (b : Option Nat) (xs : List α), xs.length ≤ fuel →
    pySplitWsLoop p (fuel + 1) b xs = pySplitWsLoop p fuel b xs := by
  intro fuel
  induction fuel with
  | zero =>
    intro b xs h
    have : xs = [] := List.length_eq_zero_iff.mp (by omega)
    simp [pySplitWsLoop, this]
  | succ n ih =>
    intro b xs h
    rw [wsLoop_step p (n + 1) b xs, wsLoop_step p n b xs]
    by_cases he : (xs.dropWhile p).isEmpty = true
    · simp [he]
    · have he' : (xs.dropWhile p).isEmpty = false := by simpa using he
      have := ws_rest_lt p xs he'
      rw [ih _ _ (by omega)]

theorem wsLoop_add (p : α → Bool) (n fuel : Nat) (b : Option Nat) (xs : List α) (h : xs.length ≤ fuel) :
    pySplitWsLoop p (fuel + n) b xs = pySplitWsLoop p fuel b xs := by
  induction n with
  | zero => rfl
  | succ n ih => rw [← Nat.add_assoc, wsLoop_succ p _ _ _ (by omega), ih]

theorem wsLoop_eq (p : α → Bool) (fuel : Nat) (b : Option Nat) (xs : List α) (h : xs.length ≤ fuel) :
    pySplitWsLoop p fuel b xs = pySplitWs p b xs := by
  have := wsLoop_add p (fuel - xs.length) xs.length b xs (Nat.le_refl _)
  rw [show xs.length + (fuel - xs.length) = fuel by omega] at this
  exact this

/-- the defining equation of `str.split(None, maxsplit)` item-wise, without fuel -/
theorem pySplitWs_eq (p : α → Bool) (b : Option Nat) (xs : List α) :
    pySplitWs p b xs =
      if (xs.dropWhile p).isEmpty then []
      else if b == some 0 then [xs.dropWhile p]
      else (xs.dropWhile p).takeWhile (notp p) ::
        pySplitWs p (b.map Nat.pred) ((xs.dropWhile p).dropWhile (notp p)) := by
  cases hx : xs with
  | nil => simp [pySplitWs, pySplitWsLoop]
  | cons y ys =>
    rw [← hx]
    have hl : xs.length = ys.length + 1 := by simp [hx]
    conv => lhs; unfold pySplitWs; rw [hl, wsLoop_step]
    by_cases he : (xs.dropWhile p).isEmpty = true
    · simp [he]
    · have he' : (xs.dropWhile p).isEmpty = false := by simpa using he
      have := ws_rest_lt p xs he'
      rw [wsLoop_eq p _ _ _ (by omega)]

theorem pySplitWs_nil (p : α → Bool) (b : Option Nat) : pySplitWs p b ([] : List α) = [] := by
  simp [pySplitWs, pySplitWsLoop]

theorem pySplitWs_skip (p : α → Bool) (b : Option Nat) (s : α) (rest : List α) (hp : p s = true) :
    pySplitWs p b (s :: rest) = pySplitWs p b rest := by
  rw [pySplitWs_eq p b (s :: rest), pySplitWs_eq p b rest]
  simp [List.dropWhile_cons, hp]

theorem pySplitWs_last (p : α → Bool) (s : α) (rest : List α) (hp : p s = false) :
    pySplitWs p (some 0) (s :: rest) = [s :: rest] := by
  rw [pySplitWs_eq]
  simp [List.dropWhile_cons, hp]

theorem pySplitWs_word (p : α → Bool) (b : Option Nat) (s : α) (rest : List α) (hp : p s = false)
    (hb : b ≠ some 0) :
    pySplitWs p b (s :: rest) =
      (s :: rest.takeWhile (notp p)) :: pySplitWs p (b.map Nat.pred) (rest.dropWhile (notp p)) := by
  rw [pySplitWs_eq]
  have : (b == some 0) = false := by simpa using hb
  simp [List.dropWhile_cons, List.takeWhile_cons, hp, this, notp]

theorem splitLoop_ws (p : α → Bool) (ms : Option Nat) :
    ∀ (xs : List α),
      (∀ cnt, splitLoop p true ms xs [] cnt false = pySplitWs p (rem ms cnt) xs) ∧
      (∀ cur cnt frozen, cur ≠ [] →
        splitLoop p true ms xs cur cnt frozen =
          if bud ms cnt frozen = some 0 then [cur ++ xs]
          else (cur ++ xs.takeWhile (notp p)) ::
            pySplitWs p (rem ms (cnt + 1)) (xs.dropWhile (notp p))) := by
  intro xs
  induction xs with
  | nil =>
    refine ⟨?_, ?_⟩
    · intro cnt; simp [splitLoop, pySplitWs_nil]
    · intro cur cnt frozen hc
      have : cur.isEmpty = false := by cases cur <;> simp_all
      simp [splitLoop, pySplitWs_nil, this]
  | cons s rest ih =>
    obtain ⟨ih1, ih2⟩ := ih
    refine ⟨?_, ?_⟩
    · intro cnt
      have hfz : freeze true ms ([] : List α) cnt false = false := by simp [freeze]
      rw [splitLoop, hfz]
      by_cases hp : p s = true
      · simp only [hp, Bool.not_false, Bool.and_self, ↓reduceIte, List.isEmpty_nil]
        rw [ih1, pySplitWs_skip p _ s rest hp]
      · have hp' : p s = false := by simpa using hp
        simp only [hp', Bool.and_false, Bool.false_eq_true, ↓reduceIte, List.nil_append]
        rw [ih2 [s] cnt false (by simp)]
        have hbr : bud ms cnt false = rem ms cnt := by simp [bud]
        rw [hbr]
        by_cases hb : rem ms cnt = some 0
        · simp [hb, pySplitWs_last p s rest hp']
        · simp only [hb, ↓reduceIte]
          rw [pySplitWs_word p _ s rest hp' hb, rem_succ]
          simp
    · intro cur cnt frozen hc
      have hce : cur.isEmpty = false := by cases cur <;> simp_all
      have hfz : freeze true ms cur cnt frozen = (bud ms cnt frozen == some 0) := by
        unfold freeze bud
        rw [limitReached_eq, hce]
        cases frozen <;> simp
      rw [splitLoop, hfz]
      by_cases hb : bud ms cnt frozen = some 0
      · simp only [hb, beq_self_eq_true, Bool.not_true, Bool.false_and, Bool.false_eq_true, ↓reduceIte]
        rw [ih2 _ _ _ (by simp)]
        simp [bud]
      · have hb' : (bud ms cnt frozen == some 0) = false := by simpa using hb
        have hfr : frozen = false := by
          cases frozen with
          | false => rfl
          | true => simp [bud] at hb
        subst hfr
        simp only [hb', Bool.not_false, Bool.true_and, hb, ↓reduceIte, hce, Bool.and_false,
          Bool.false_eq_true]
        by_cases hp : p s = true
        · simp only [hp, ↓reduceIte]
          rw [ih1]
          simp [List.takeWhile_cons, List.dropWhile_cons, notp, hp, pySplitWs_skip p _ s rest hp]
        · have hp' : p s = false := by simpa using hp
          simp only [hp', Bool.false_eq_true, ↓reduceIte]
          rw [ih2 _ _ _ (by simp)]
          simp [hb, List.takeWhile_cons, List.dropWhile_cons, notp, hp']

/-- `split` is the item-wise `str.split` -/
theorem split_eq (p : α → Bool) (grouping : Bool) (maxsplit : Option Int) (src : List α) :
    split p grouping maxsplit src = pySplit p grouping (maxsplit.map Int.toNat) src := by
  unfold split pySplit
  cases grouping with
  | false =>
    rw [splitLoop_sep]
    simp only [bud, Bool.false_eq_true, ↓reduceIte, rem_zero]
    exact consHead_nil_of_ne (pySplitSep_ne_nil _ _ _)
  | true =>
    rw [(splitLoop_ws p _ src).1 0, rem_zero]
    rfl

/-! ### what the item-wise `str.split` delivers (sanity of the specification itself) -/

theorem consHead_length {c : List α} {l : List (List α)} (h : l ≠ []) : (consHead c l).length = l.length := by
  cases l with
  | nil => exact absurd rfl h
  | cons g gs => simp [consHead]

theorem pySplitSep_none_pieces (p : α → Bool) (src : List α) :
    (∀ g ∈ pySplitSep p none src, ∀ x ∈ g, p x = false) ∧
    (pySplitSep p none src).length = src.countP p + 1 := by
  induction src with
  | nil => simp [pySplitSep]
  | cons x xs ih =>
    rw [pySplitSep_cons]
    by_cases hp : p x = true
    · have : (none : Option Nat) != some 0 := by decide
      simp only [hp, this, Bool.and_self, ↓reduceIte, Option.map_none, List.mem_cons, List.length_cons,
        List.countP_cons]
      refine ⟨?_, by omega⟩
      intro g hg
      rcases hg with rfl | hg
      · simp
      · exact ih.1 g hg
    · have hp' : p x = false := by simpa using hp
      simp only [hp', Bool.false_and, Bool.false_eq_true, ↓reduceIte, List.countP_cons]
      have hne := pySplitSep_ne_nil p none xs
      cases hr : pySplitSep p none xs with
      | nil => exact absurd hr hne
      | cons g gs =>
        rw [hr] at ih
        refine ⟨?_, by simpa [consHead] using ih.2⟩
        intro g' hg'
        simp only [consHead, List.mem_cons] at hg'
        rcases hg' with rfl | hg'
        · intro y hy
          simp only [List.cons_append, List.nil_append, List.mem_cons] at hy
          rcases hy with rfl | hy
          · exact hp'
          · exact ih.1 g (by simp) y hy
        · exact ih.1 g' (by simp [hg'])

theorem intercalate_cons_cons (sep a b : List α) (l : List (List α)) :
    sep.intercalate (a :: b :: l) = a ++ sep ++ sep.intercalate (b :: l) := by
  simp [List.intercalate]

theorem pySplitSep_join [DecidableEq α] (s : α) (ms : Option Nat) (src : List α) :
    [s].intercalate (pySplitSep (fun x => decide (x = s)) ms src) = src := by
  induction src generalizing ms with
  | nil => simp [pySplitSep, List.intercalate]
  | cons x xs ih =>
    rw [pySplitSep_cons]
    split
    · rename_i h
      simp only [Bool.and_eq_true, decide_eq_true_eq] at h
      have hne := pySplitSep_ne_nil (fun x => decide (x = s)) (ms.map Nat.pred) xs
      have := ih (ms.map Nat.pred)
      cases hr : pySplitSep (fun x => decide (x = s)) (ms.map Nat.pred) xs with
      | nil => exact absurd hr hne
      | cons g gs =>
        rw [hr] at this
        rw [intercalate_cons_cons, this, h.1]
        simp
    · have hne := pySplitSep_ne_nil (fun x => decide (x = s)) ms xs
      have := ih ms
      cases hr : pySplitSep (fun x => decide (x = s)) ms xs with
      | nil => exact absurd hr hne
      | cons g gs =>
        rw [hr] at this
        cases gs with
        | nil =>
          simp only [List.intercalate, List.intersperse_single, List.flatten_cons, List.flatten_nil,
            List.append_nil] at this
          simp [consHead, List.intercalate, this]
        | cons b l =>
          rw [intercalate_cons_cons] at this
          simp only [consHead]
          rw [intercalate_cons_cons]
          simp only [List.cons_append, List.nil_append] at this ⊢
          rw [this]

theorem pySplitSep_length_le (p : α → Bool) (m : Nat) (src : List α) :
    (pySplitSep p (some m) src).length ≤ m + 1 := by
  induction src generalizing m with
  | nil => simp [pySplitSep]
  | cons x xs ih =>
    rw [pySplitSep_cons]
    split
    · rename_i h
      simp only [Bool.and_eq_true, bne_iff_ne, ne_eq, Option.some.injEq] at h
      have := ih (m - 1)
      simp only [Option.map_some, List.length_cons, Nat.pred_eq_sub_one]
      omega
    · rw [consHead_length (pySplitSep_ne_nil _ _ _)]
      exact ih m

theorem wsLoop_length_le (p : α → Bool) : ∀ (fuel m : Nat) (xs : List α),
    (pySplitWsLoop p fuel (some m) xs).length ≤ m + 1 := by
  intro fuel
  induction fuel with
  | zero => intro m xs; simp [pySplitWsLoop]
  | succ n ih =>
    intro m xs
    rw [wsLoop_step]
    split
    · simp
    · split
      · simp
      · rename_i h
        simp only [beq_iff_eq, Option.some.injEq] at h
        have := ih (m - 1) ((xs.dropWhile p).dropWhile (notp p))
        simp only [Option.map_some, List.length_cons, Nat.pred_eq_sub_one]
        omega

theorem pySplit_length_le (p : α → Bool) (grouping : Bool) (m : Nat) (src : List α) :
    (pySplit p grouping ((some (m : Int)).map Int.toNat) src).length ≤ m + 1 := by
  simp only [Option.map_some, Int.toNat_natCast, pySplit]
  cases grouping with
  | false => exact pySplitSep_length_le p m src
  | true => exact wsLoop_length_le p _ m src

theorem filter_notp_dropWhile (p : α → Bool) (xs : List α) :
    (xs.dropWhile p).filter (notp p) = xs.filter (notp p) := by
  induction xs with
  | nil => rfl
  | cons x xs ih =>
    by_cases hp : p x = true
    · rw [List.dropWhile_cons_of_pos hp, ih]; simp [notp, hp]
    · rw [List.dropWhile_cons_of_neg hp]

theorem filter_takeWhile_self (q : α → Bool) (xs : List α) : (xs.takeWhile q).filter q = xs.takeWhile q := by
  induction xs with
  | nil => rfl
  | cons x xs ih =>
    rw [List.takeWhile_cons]
    split
    · rename_i h; simp [h, ih]
    · rfl

theorem mem_takeWhile_sat (q : α → Bool) (xs : List α) : ∀ x ∈ xs.takeWhile q, q x = true := by
  induction xs with
  | nil => simp
  | cons a xs ih =>
    rw [List.takeWhile_cons]
    split
    · rename_i h
      intro x hx
      simp only [List.mem_cons] at hx
      rcases hx with rfl | hx
      · exact h
      · exact ih x hx
    · simp

theorem wsLoop_none_pieces (p : α → Bool) : ∀ (fuel : Nat) (xs : List α), xs.length ≤ fuel →
    (∀ g ∈ pySplitWsLoop p fuel none xs, g ≠ [] ∧ ∀ x ∈ g, p x = false) ∧
    (pySplitWsLoop p fuel none xs).flatten = xs.filter (notp p) := by
  intro fuel
  induction fuel with
  | zero =>
    intro xs h
    have : xs = [] := List.length_eq_zero_iff.mp (by omega)
    simp [pySplitWsLoop, this]
  | succ n ih =>
    intro xs h
    rw [wsLoop_step]
    by_cases he : (xs.dropWhile p).isEmpty = true
    · simp only [he, ↓reduceIte, List.not_mem_nil, false_imp_iff, implies_true, List.flatten_nil, true_and]
      rw [← filter_notp_dropWhile]
      have : xs.dropWhile p = [] := by simpa using he
      rw [this]; rfl
    · have he' : (xs.dropWhile p).isEmpty = false := by simpa using he
      have hlt := ws_rest_lt p xs he'
      have hb : ((none : Option Nat) == some 0) = false := by decide
      simp only [he', Bool.false_eq_true, ↓reduceIte, hb, Option.map_none]
      obtain ⟨ih1, ih2⟩ := ih ((xs.dropWhile p).dropWhile (notp p)) (by omega)
      refine ⟨?_, ?_⟩
      · intro g hg
        simp only [List.mem_cons] at hg
        rcases hg with rfl | hg
        · refine ⟨?_, ?_⟩
          · cases hd : xs.dropWhile p with
            | nil => simp [hd] at he'
            | cons y ys =>
              have hy : p y = false := by
                have := List.head_dropWhile_not p (l := xs) (by simp [hd])
                simpa [hd] using this
              simp [List.takeWhile_cons, notp, hy]
          · intro x hx
            have := mem_takeWhile_sat (notp p) _ x hx
            simpa [notp] using this
        · exact ih1 g hg
      · rw [List.flatten_cons, ih2, ← filter_notp_dropWhile p xs]
        conv => rhs; rw [← List.takeWhile_append_dropWhile (p := notp p) (l := xs.dropWhile p)]
        rw [List.filter_append, filter_takeWhile_self]

theorem pySplitWs_none_pieces (p : α → Bool) (src : List α) :
    (∀ g ∈ pySplit p true ((none : Option Int).map Int.toNat) src, g ≠ [] ∧ ∀ x ∈ g, p x = false) ∧
    (pySplit p true ((none : Option Int).map Int.toNat) src).flatten = src.filter (fun x => !p x) := by
  simp only [Option.map_none, pySplit, ↓reduceIte, pySplitWs]
  exact wsLoop_none_pieces p src.length src (Nat.le_refl _)

end C09
