import BoltonsVerif.C09.BucketProofs
/-
C09 helper lemmas: redundant reports exactly the keys seen more than once.
-/
namespace C09
variable {α : Type} {β : Type} {κ : Type} [DecidableEq κ]

/-- the items of `l` whose key is `k`, in order -/
def occ (f : α → κ) (k : κ) (l : List α) : List α := l.filter (fun x => decide (f x = k))

/-- what `redundant_groups[k]` holds: every item when `groups`, else the first two -/
def expect (groups : Bool) (l : List α) : List α := if groups then l else l.take 2

theorem lookup_append_single (k k0 : κ) (v : β) (l : List (κ × β)) :
    lookup k (l ++ [(k0, v)]) = (lookup k l).or (if k0 = k then some v else none) := by
  induction l with
  | nil => simp [lookup]
  | cons e es ih =>
    obtain ⟨k', v'⟩ := e
    simp only [List.cons_append, lookup]
    split <;> simp_all

theorem lookup_appendAt (k k0 : κ) (v : β) (l : List (κ × List β)) :
    lookup k (appendAt k0 v l) = if k = k0 then (lookup k0 l).map (· ++ [v]) else lookup k l := by
  induction l with
  | nil => simp [appendAt, lookup]
  | cons e es ih =>
    obtain ⟨k', vs⟩ := e
    simp only [appendAt]
    split
    · rename_i h; subst h
      simp only [lookup]
      split <;> simp_all [eq_comm]
    · rename_i h
      simp only [lookup, ih]
      split <;> split <;> simp_all [eq_comm]

theorem keysOf_appendAt (k0 : κ) (v : β) (l : List (κ × List β)) :
    keysOf (appendAt k0 v l) = keysOf l := by
  induction l with
  | nil => simp [appendAt]
  | cons e es ih =>
    obtain ⟨k', vs⟩ := e
    simp only [appendAt]
    split
    · simp [keysOf]
    · simp only [keysOf, List.map_cons] at ih ⊢; rw [ih]

theorem occ_snoc (f : α → κ) (k : κ) (pre : List α) (i : α) :
    occ f k (pre ++ [i]) = occ f k pre ++ (if f i = k then [i] else []) := by
  unfold occ
  rw [List.filter_append]
  by_cases h : f i = k <;> simp [h]

def InvS (f : α → κ) (pre : List α) (seen : List (κ × α)) : Prop :=
  ∀ k, lookup k seen = (occ f k pre).head?

def InvR (f : α → κ) (groups : Bool) (pre : List α) (rg : List (κ × List α)) : Prop :=
  (keysOf rg).Nodup ∧
  ∀ k, lookup k rg = if 2 ≤ (occ f k pre).length then some (expect groups (occ f k pre)) else none

theorem redLoop_inv (f : α → κ) (groups : Bool) :
    ∀ (src pre : List α) (seen : List (κ × α)) (rg : List (κ × List α)),
      InvS f pre seen → InvR f groups pre rg → InvR f groups (pre ++ src) (redLoop f groups src seen rg) := by
  intro src
  induction src with
  | nil => intro pre seen rg _ hr; simpa [redLoop] using hr
  | cons i src ih =>
    intro pre seen rg hs hr
    have happ : pre ++ i :: src = (pre ++ [i]) ++ src := by simp
    rw [happ, redLoop]
    have hs0 := hs (f i)
    have hr0 := hr.2 (f i)
    cases hl : lookup (f i) seen with
    | none =>
      -- first item with this key
      simp only
      rw [hl] at hs0
      have hocc : occ f (f i) pre = [] := by
        cases h : occ f (f i) pre with
        | nil => rfl
        | cons a as => rw [h] at hs0; simp at hs0
      apply ih
      · intro k
        rw [lookup_append_single, occ_snoc, hs k]
        by_cases hk : f i = k
        · subst hk; simp [hocc]
        · simp only [hk, ↓reduceIte, List.append_nil]
          cases (occ f k pre).head? <;> simp
      · refine ⟨hr.1, ?_⟩
        intro k
        rw [occ_snoc, hr.2 k]
        by_cases hk : f i = k
        · subst hk; simp [hocc]
        · simp [hk]
    | some first =>
      simp only
      rw [hl] at hs0
      obtain ⟨tl, hocc⟩ : ∃ tl, occ f (f i) pre = first :: tl := by
        cases h : occ f (f i) pre with
        | nil => rw [h] at hs0; simp at hs0
        | cons a as => rw [h] at hs0; simp at hs0; exact ⟨as, by rw [hs0]⟩
      have hsnext : InvS f (pre ++ [i]) seen := by
        intro k
        rw [occ_snoc, hs k]
        by_cases hk : f i = k
        · subst hk; simp [hocc]
        · simp [hk]
      by_cases hsome : (lookup (f i) rg).isSome = true
      · simp only [hsome, ↓reduceIte]
        have hlen : 2 ≤ (occ f (f i) pre).length := by
          by_cases h : 2 ≤ (occ f (f i) pre).length
          · exact h
          · rw [if_neg h] at hr0; rw [hr0] at hsome; simp at hsome
        rw [if_pos hlen] at hr0
        cases groups with
        | true =>
          simp only [↓reduceIte]
          apply ih _ _ _ hsnext
          refine ⟨by rw [keysOf_appendAt]; exact hr.1, ?_⟩
          intro k
          rw [lookup_appendAt, occ_snoc]
          by_cases hk : k = f i
          · subst hk
            simp only [↓reduceIte, hr0, Option.map_some, List.length_append, List.length_cons,
              List.length_nil]
            have : 2 ≤ (occ f (f i) pre).length + (0 + 1) := by omega
            simp [this, expect]
          · have : ¬ f i = k := fun e => hk e.symm
            simp only [hk, ↓reduceIte, this, List.append_nil]
            exact hr.2 k
        | false =>
          simp only [Bool.false_eq_true, ↓reduceIte]
          apply ih _ _ _ hsnext
          refine ⟨hr.1, ?_⟩
          intro k
          rw [occ_snoc]
          by_cases hk : f i = k
          · subst hk
            simp only [↓reduceIte, List.length_append, List.length_cons, List.length_nil]
            have : 2 ≤ (occ f (f i) pre).length + (0 + 1) := by omega
            rw [if_pos this, hr0]
            simp only [expect, Bool.false_eq_true, ↓reduceIte]
            rw [List.take_append_of_le_length hlen]
          · simp only [hk, ↓reduceIte, List.append_nil]
            exact hr.2 k
      · have hnone : lookup (f i) rg = none := by
          cases h : lookup (f i) rg with
          | none => rfl
          | some v => rw [h] at hsome; simp at hsome
        simp only [hnone, Option.isSome_none, Bool.false_eq_true, ↓reduceIte]
        have hlen : ¬ 2 ≤ (occ f (f i) pre).length := by
          intro h; rw [if_pos h] at hr0; rw [hr0] at hnone; simp at hnone
        have htl : tl = [] := by
          rw [hocc] at hlen
          cases tl with
          | nil => rfl
          | cons a as => simp at hlen
        subst htl
        apply ih _ _ _ hsnext
        refine ⟨?_, ?_⟩
        · have hnk : f i ∉ keysOf rg := (lookup_eq_none_iff _ _).mp hnone
          simp only [keysOf, List.map_append, List.map_cons, List.map_nil]
          rw [List.nodup_append]
          refine ⟨hr.1, by simp, ?_⟩
          intro a ha b hb
          simp at hb; subst hb
          exact fun e => hnk (e ▸ ha)
        · intro k
          rw [lookup_append_single, occ_snoc, hr.2 k]
          by_cases hk : f i = k
          · subst hk
            simp [hocc, expect]
          · simp only [hk, ↓reduceIte, List.append_nil]
            split <;> simp

theorem redLoop_ok (f : α → κ) (groups : Bool) (src : List α) :
    InvR f groups src (redLoop f groups src [] []) := by
  have := redLoop_inv f groups src [] [] [] (by intro k; simp [lookup, occ])
    ⟨by simp [keysOf], by intro k; simp [lookup, occ]⟩
  simpa using this

end C09
