import BoltonsVerif.C09.BucketProofs
import BoltonsVerif.C09.UniqueProofs
/-
C09 helper lemmas: redundant reports exactly the keys seen more than once.
-/
namespace C09
variable {α : Type} {β : Type} {κ : Type} [DecidableEq κ]

/-- the items of `l` whose key is `k`, in order -/
def occ (f : α → κ) (k : κ) (l : List α) : List α := l.filter (fun x => decide (f x = k))

/-- what `redundant_groups[k]` holds: every item when `groups`, else the first two -/
def expect (groups : Bool) (l : List α) : List α := if groups then l else l.take 2

theorem lookup_append_single (k k0 : κ) (v : β) (l : List (κ × β)) :
    lookup k (l ++ [(k0, v)]) = (lookup k l).or (if k0 = k then some v else none) := by
  induction l with
  | nil => simp [lookup]
  | cons e es ih =>
    obtain ⟨k', v'⟩ := e
    simp only [List.cons_append, lookup]
    split <;> simp_all

theorem lookup_appendAt (k k0 : κ) (v : β) (l : List (κ × List β)) :
    lookup k (appendAt k0 v l) = if k = k0 then (lookup k0 l).map (· ++ [v]) else lookup k l := by
  induction l with
  | nil => simp [appendAt, lookup]
  | cons e es ih =>
    obtain ⟨k', vs⟩ := e
    simp only [appendAt]
    split
    · rename_i h; subst h
      simp only [lookup]
      split <;> simp_all [eq_comm]
    · rename_i h
      simp only [lookup, ih]
      split <;> split <;> simp_all [eq_comm]

theorem keysOf_appendAt (k0 : κ) (v : β) (l : List (κ × List β)) :
    keysOf (appendAt k0 v l) = keysOf l := by
  induction l with
  | nil => simp [appendAt]
  | cons e es ih =>
    obtain ⟨k', vs⟩ := e
    simp only [appendAt]
    split
    · simp [keysOf]
    · simp only [keysOf, List.map_cons] at ih ⊢; rw [ih]

theorem occ_snoc (f : α → κ) (k : κ) (pre : List α) (i : α) :
    occ f k (pre ++ [i]) = occ f k pre ++ (if f i = k then [i] else []) := by
  unfold occ
  rw [List.filter_append]
  by_cases h : f i = k <;> simp [h]

def InvS (f : α → κ) (pre : List α) (seen : List (κ × α)) : Prop :=
  ∀ k, lookup k seen = (occ f k pre).head?

def InvR (f : α → κ) (groups : Bool) (pre : List α) (rg : List (κ × List α)) : Prop :=
  (keysOf rg).Nodup ∧
  ∀ k, lookup k rg = if 2 ≤ (occ f k pre).length then some (expect groups (occ f k pre)) else none

theorem redLoop_inv (f : α → κ) (groups : Bool) :
    ∀ (src pre : List α) (seen : List (κ × α)) (rg : List (κ × List α)),
      InvS f pre seen → InvR f groups pre rg → InvR f groups (pre ++ src) (redLoop f groups src seen rg) := by
  intro src
  induction src with
  | nil => intro pre seen rg _ hr; simpa [redLoop] using hr
  | cons i src ih =>
    intro pre seen rg hs hr
    have happ : pre ++ i :: src = (pre ++ [i]) ++ src := by simp
    rw [happ, redLoop]
    have hs0 := hs (f i)
    have hr0 := hr.2 (f i)
    cases hl : lookup (f i) seen with
    | none =>
      -- first item with this key
      simp only
      rw [hl] at hs0
      have hocc : occ f (f i) pre = [] := by
        cases h : occ f (f i) pre with
        | nil => rfl
        | cons a as => rw [h] at hs0; simp at hs0
      apply ih
      · intro k
        rw [lookup_append_single, occ_snoc, hs k]
        by_cases hk : f i = k
        · subst hk; simp [hocc]
        · simp only [hk, ↓reduceIte, List.append_nil]
          cases (occ f k pre).head? <;> simp
      · refine ⟨hr.1, ?_⟩
        intro k
        rw [occ_snoc, hr.2 k]
        by_cases hk : f i = k
        · subst hk; simp [hocc]
        · simp [hk]
    | some first =>
      simp only
      rw [hl] at hs0
      obtain ⟨tl, hocc⟩ : ∃ tl, occ f (f i) pre = first :: tl := by
        cases h : occ f (f i) pre with
        | nil => rw [h] at hs0; simp at hs0
        | cons a as => rw [h] at hs0; simp at hs0; exact ⟨as, by rw [hs0]⟩
      have hsnext : InvS f (pre ++ [i]) seen := by
        intro k
        rw [occ_snoc, hs k]
        by_cases hk : f i = k
        · subst hk; simp [hocc]
        · simp [hk]
      by_cases hsome : (lookup (f i) rg).isSome = true
      · simp only [hsome, ↓reduceIte]
        have hlen : 2 ≤ (occ f (f i) pre).length := by
          by_cases h : 2 ≤ (occ f (f i) pre).length
          · exact h
          · rw [if_neg h] at hr0; rw [hr0] at hsome; simp at hsome
        rw [if_pos hlen] at hr0
        cases groups with
        | true =>
          simp only [↓reduceIte]
          apply ih _ _ _ hsnext
          refine ⟨by rw [keysOf_appendAt]; exact hr.1, ?_⟩
          intro k
          rw [lookup_appendAt, occ_snoc]
          by_cases hk : k = f i
          · subst hk
            simp only [↓reduceIte, hr0, Option.map_some, List.length_append, List.length_cons,
              List.length_nil]
            have : 2 ≤ (occ f (f i) pre).length + (0 + 1) := by omega
            simp [this, expect]
          · have : ¬ f i = k := fun e => hk e.symm
            simp only [hk, ↓reduceIte, this, List.append_nil]
            exact hr.2 k
        | false =>
          simp only [Bool.false_eq_true, ↓reduceIte]
          apply ih _ _ _ hsnext
          refine ⟨hr.1, ?_⟩
          intro k
          rw [occ_snoc]
          by_cases hk : f i = k
          · subst hk
            simp only [↓reduceIte, List.length_append, List.length_cons, List.length_nil]
            have : 2 ≤ (occ f (f i) pre).length + (0 + 1) := by omega
            rw [if_pos this, hr0]
            simp only [expect, Bool.false_eq_true, ↓reduceIte]
            rw [List.take_append_of_le_length hlen]
          · simp only [hk, ↓reduceIte, List.append_nil]
            exact hr.2 k
      · have hnone : lookup (f i) rg = none := by
          cases h : lookup (f i) rg with
          | none => rfl
          | some v => rw [h] at hsome; simp at hsome
        simp only [hnone, Option.isSome_none, Bool.false_eq_true, ↓reduceIte]
        have hlen : ¬ 2 ≤ (occ f (f i) pre).length := by
          intro h; rw [if_pos h] at hr0; rw [hr0] at hnone; simp at hnone
        have htl : tl = [] := by
          rw [hocc] at hlen
          cases tl with
          | nil => rfl
          | cons a as => simp at hlen
        subst htl
        apply ih _ _ _ hsnext
        refine ⟨?_, ?_⟩
        · have hnk : f i ∉ keysOf rg := (lookup_eq_none_iff _ _).mp hnone
          simp only [keysOf, List.map_append, List.map_cons, List.map_nil]
          rw [List.nodup_append]
          refine ⟨hr.1, by simp, ?_⟩
          intro a ha b hb
          simp at hb; subst hb
          exact fun e => hnk (e ▸ ha)
        · intro k
          rw [lookup_append_single, occ_snoc, hr.2 k]
          by_cases hk : f i = k
          · subst hk
            simp [hocc, expect]
          · simp only [hk, ↓reduceIte, List.append_nil]
            split <;> simp

theorem redLoop_ok (f : α → κ) (groups : Bool) (src : List α) :
    InvR f groups src (redLoop f groups src [] []) := by
  have := redLoop_inv f groups src [] [] [] (by intro k; simp [lookup, occ])
    ⟨by simp [keysOf], by intro k; simp [lookup, occ]⟩
  simpa using this

theorem mem_keysOf_iff_lookup (k : κ) (l : List (κ × β)) : k ∈ keysOf l ↔ lookup k l ≠ none := by
  rw [Ne, lookup_eq_none_iff]; simp

theorem occ_length_eq_countP (f : α → κ) (k : κ) (l : List α) :
    (occ f k l).length = l.countP (fun x => decide (f x = k)) := by
  simp [occ, List.countP_eq_length_filter]

/-- every entry of `redundant_groups` is `expect groups (occ k src)` with at least two occurrences -/
theorem redLoop_entry (f : α → κ) (groups : Bool) (src : List α) :
    ∀ e ∈ redLoop f groups src [] [], e.2 = expect groups (occ f e.1 src) ∧ 2 ≤ (occ f e.1 src).length := by
  intro e he
  obtain ⟨k, g⟩ := e
  have inv := redLoop_ok f groups src
  have hl := lookup_of_mem_nodup inv.1 he
  rw [inv.2 k] at hl
  by_cases h : 2 ≤ (occ f k src).length
  · simp only [h, ↓reduceIte, Option.some.injEq] at hl
    exact ⟨hl.symm, h⟩
  · simp [h] at hl

theorem redLoop_keys_iff (f : α → κ) (groups : Bool) (src : List α) (k : κ) :
    k ∈ keysOf (redLoop f groups src [] []) ↔ 2 ≤ src.countP (fun x => decide (f x = k)) := by
  have inv := redLoop_ok f groups src
  rw [mem_keysOf_iff_lookup, inv.2 k, occ_length_eq_countP]
  split <;> simp_all

theorem filterMap_map_keys (f : α → κ) (h : κ × List α → Option α) (l : List (κ × List α))
    (hl : ∀ e ∈ l, ∃ y, h e = some y ∧ f y = e.1) : (l.filterMap h).map f = keysOf l := by
  induction l with
  | nil => simp [keysOf]
  | cons e es ih =>
    obtain ⟨y, hy, hfy⟩ := hl e (by simp)
    rw [List.filterMap_cons_some hy]
    simp only [List.map_cons, keysOf, hfy]
    congr 1
    exact ih (fun e' he' => hl e' (by simp [he']))

theorem occ_mem_key (f : α → κ) (k : κ) (l : List α) : ∀ y ∈ occ f k l, f y = k := by
  intro y hy
  simp only [occ, List.mem_filter, decide_eq_true_eq] at hy
  exact hy.2

theorem redundant_entry_second (f : α → κ) (src : List α) :
    ∀ e ∈ redLoop f false src [] [], ∃ y, e.2[1]? = some y ∧ f y = e.1 ∧ (occ f e.1 src)[1]? = some y := by
  intro e he
  obtain ⟨h1, h2⟩ := redLoop_entry f false src e he
  have hlt : 1 < (occ f e.1 src).length := by omega
  refine ⟨(occ f e.1 src)[1], ?_, ?_, ?_⟩
  · rw [h1]
    simp only [expect, Bool.false_eq_true, ↓reduceIte]
    rw [List.getElem?_take]
    simp [hlt]
  · exact occ_mem_key f e.1 src _ (List.getElem_mem hlt)
  · simp [hlt]

theorem redundant_map_keys (f : α → κ) (src : List α) :
    (redundant f src).map f = keysOf (redLoop f false src [] []) := by
  unfold redundant
  apply filterMap_map_keys
  intro e he
  obtain ⟨y, h1, h2, _⟩ := redundant_entry_second f src e he
  exact ⟨y, h1, h2⟩

theorem redundant_keys_iff (f : α → κ) (src : List α) (k : κ) :
    k ∈ (redundant f src).map f ↔ 2 ≤ src.countP (fun x => decide (f x = k)) := by
  rw [redundant_map_keys]
  exact redLoop_keys_iff f false src k

theorem redundant_nodup (f : α → κ) (src : List α) : ((redundant f src).map f).Nodup := by
  rw [redundant_map_keys]
  exact (redLoop_ok f false src).1

theorem redundant_second (f : α → κ) (src : List α) :
    ∀ y ∈ redundant f src, (src.filter (fun x => decide (f x = f y)))[1]? = some y := by
  intro y hy
  unfold redundant at hy
  rw [List.mem_filterMap] at hy
  obtain ⟨e, he, hy⟩ := hy
  obtain ⟨y', h1, h2, h3⟩ := redundant_entry_second f src e he
  rw [h1] at hy
  cases hy
  rw [h2]
  exact h3

theorem redundantGroups_spec (f : α → κ) (src : List α) :
    (∀ g ∈ redundantGroups f src, ∃ k, g = src.filter (fun x => decide (f x = k)) ∧ 2 ≤ g.length) ∧
    (∀ k, 2 ≤ src.countP (fun x => decide (f x = k)) →
      src.filter (fun x => decide (f x = k)) ∈ redundantGroups f src) := by
  refine ⟨?_, ?_⟩
  · intro g hg
    unfold redundantGroups at hg
    rw [List.mem_map] at hg
    obtain ⟨e, he, rfl⟩ := hg
    obtain ⟨h1, h2⟩ := redLoop_entry f true src e he
    refine ⟨e.1, ?_, ?_⟩
    · rw [h1]; simp [expect, occ]
    · rw [h1]; simpa [expect] using h2
  · intro k hk
    have inv := redLoop_ok f true src
    have hl := inv.2 k
    rw [occ_length_eq_countP] at hl
    simp only [hk, ↓reduceIte, expect] at hl
    have := lookup_some_mem hl
    unfold redundantGroups
    rw [List.mem_map]
    exact ⟨_, this, rfl⟩

/-! ### order of the report: by the position of each key's second occurrence -/

theorem mem_unique_id (l : List κ) (k : κ) : k ∈ unique id l ↔ k ∈ l := by
  constructor
  · intro h
    exact (uniqueLoop_sublist id l []).subset h
  · intro h
    rcases uniqueLoop_covers id l [] k h with h' | h'
    · simp at h'
    · simpa [unique] using h'

theorem uniqueLoop_snoc (l : List κ) (k : κ) : ∀ seen : List κ,
    uniqueLoop id (l ++ [k]) seen = uniqueLoop id l seen ++ (if k ∈ seen ∨ k ∈ l then [] else [k]) := by
  induction l with
  | nil => intro seen; simp [uniqueLoop]
  | cons a as ih =>
    intro seen
    simp only [List.cons_append, uniqueLoop, id_eq]
    by_cases ha : a ∈ seen
    · simp only [ha, ↓reduceIte, ih, List.mem_cons]
      by_cases hk : k = a
      · subst hk; simp [ha]
      · simp [hk]
    · simp only [ha, ↓reduceIte, ih, List.mem_cons, List.cons_append]
      congr 2
      by_cases hk : k = a
      · subst hk; simp
      · simp [hk, or_assoc]

theorem unique_id_snoc (l : List κ) (k : κ) :
    unique id (l ++ [k]) = if k ∈ l then unique id l else unique id l ++ [k] := by
  unfold unique
  rw [uniqueLoop_snoc]
  by_cases h : k ∈ l <;> simp [h]

theorem laterKeys_snoc (f : α → κ) (i : α) : ∀ (pre : List α) (seen : List κ),
    laterKeys f seen (pre ++ [i]) =
      laterKeys f seen pre ++ (if f i ∈ seen ∨ f i ∈ pre.map f then [f i] else []) := by
  intro pre
  induction pre with
  | nil => intro seen; simp [laterKeys]
  | cons a as ih =>
    intro seen
    simp only [List.cons_append, laterKeys]
    by_cases ha : f a ∈ seen
    · simp only [ha, ↓reduceIte, ih, List.map_cons, List.mem_cons, List.cons_append]
      congr 2
      by_cases hk : f i = f a
      · simp [hk, ha]
      · simp [hk]
    · simp only [ha, ↓reduceIte, ih, List.map_cons, List.mem_cons]
      congr 1
      by_cases hk : f i = f a
      · simp [hk]
      · simp [hk, or_assoc]

theorem mem_map_iff_occ (f : α → κ) (k : κ) (pre : List α) : k ∈ pre.map f ↔ occ f k pre ≠ [] := by
  constructor
  · intro h
    obtain ⟨x, hx, rfl⟩ := List.mem_map.mp h
    exact List.ne_nil_of_mem (a := x) (by simp [occ, hx])
  · intro h
    obtain ⟨x, hx⟩ := List.exists_mem_of_ne_nil _ h
    simp only [occ, List.mem_filter, decide_eq_true_eq] at hx
    exact List.mem_map.mpr ⟨x, hx.1, hx.2⟩

theorem redLoop_order (f : α → κ) (groups : Bool) :
    ∀ (src pre : List α) (seen : List (κ × α)) (rg : List (κ × List α)),
      InvS f pre seen → keysOf rg = unique id (laterKeys f [] pre) →
      keysOf (redLoop f groups src seen rg) = unique id (laterKeys f [] (pre ++ src)) := by
  intro src
  induction src with
  | nil => intro pre seen rg _ hr; simpa [redLoop] using hr
  | cons i src ih =>
    intro pre seen rg hs hr
    have happ : pre ++ i :: src = (pre ++ [i]) ++ src := by simp
    rw [happ, redLoop]
    have hs0 := hs (f i)
    cases hl : lookup (f i) seen with
    | none =>
      simp only
      rw [hl] at hs0
      have hocc : occ f (f i) pre = [] := by
        cases h : occ f (f i) pre with
        | nil => rfl
        | cons a as => rw [h] at hs0; simp at hs0
      have hnm : f i ∉ pre.map f := by rw [mem_map_iff_occ]; simp [hocc]
      apply ih
      · intro k
        rw [lookup_append_single, occ_snoc, hs k]
        by_cases hk : f i = k
        · subst hk; simp [hocc]
        · simp only [hk, ↓reduceIte, List.append_nil]
          cases (occ f k pre).head? <;> simp
      · rw [laterKeys_snoc]
        simp [hnm, hr]
    | some first =>
      simp only
      rw [hl] at hs0
      have hne : occ f (f i) pre ≠ [] := by
        intro h; rw [h] at hs0; simp at hs0
      have hm : f i ∈ pre.map f := (mem_map_iff_occ f (f i) pre).mpr hne
      have hsnext : InvS f (pre ++ [i]) seen := by
        intro k
        rw [occ_snoc, hs k]
        by_cases hk : f i = k
        · subst hk
          cases h : occ f (f i) pre with
          | nil => exact absurd h hne
          | cons a as => simp
        · simp [hk]
      have hlk : laterKeys f [] (pre ++ [i]) = laterKeys f [] pre ++ [f i] := by
        rw [laterKeys_snoc]; simp [hm]
      by_cases hsome : (lookup (f i) rg).isSome = true
      · have hin : f i ∈ laterKeys f [] pre := by
          rw [← mem_unique_id, ← hr, mem_keysOf_iff_lookup]
          intro h; rw [h] at hsome; simp at hsome
        simp only [hsome, ↓reduceIte]
        have hk2 : unique id (laterKeys f [] (pre ++ [i])) = unique id (laterKeys f [] pre) := by
          rw [hlk, unique_id_snoc]; simp [hin]
        cases groups with
        | true =>
          simp only [↓reduceIte]
          apply ih _ _ _ hsnext
          rw [keysOf_appendAt, hk2, hr]
        | false =>
          simp only [Bool.false_eq_true, ↓reduceIte]
          apply ih _ _ _ hsnext
          rw [hk2, hr]
      · have hnone : lookup (f i) rg = none := by
          cases h : lookup (f i) rg with
          | none => rfl
          | some v => rw [h] at hsome; simp at hsome
        have hnin : f i ∉ laterKeys f [] pre := by
          rw [← mem_unique_id, ← hr, mem_keysOf_iff_lookup]
          simp [hnone]
        simp only [hnone, Option.isSome_none, Bool.false_eq_true, ↓reduceIte]
        apply ih _ _ _ hsnext
        rw [hlk, unique_id_snoc, if_neg hnin, ← hr]
        simp [keysOf]

theorem redundant_keys_order (f : α → κ) (groups : Bool) (src : List α) :
    keysOf (redLoop f groups src [] []) = unique id (laterKeys f [] src) := by
  have := redLoop_order f groups src [] [] [] (by intro k; simp [lookup, occ])
    (by simp [keysOf, laterKeys, unique, uniqueLoop])
  simpa using this

/-- `redundant(groups=True)` is completely determined: the keys seen more than once in the order of
    their second occurrence, each with all its items -/
theorem redundantGroups_eq_map (f : α → κ) (src : List α) :
    redundantGroups f src =
      (unique id (laterKeys f [] src)).map (fun k => src.filter (fun x => decide (f x = k))) := by
  rw [← redundant_keys_order f true src]
  unfold redundantGroups keysOf
  rw [List.map_map]
  apply List.map_congr_left
  intro e he
  have := (redLoop_entry f true src e he).1
  simpa [expect, occ] using this

theorem redundant_map_order (f : α → κ) (src : List α) :
    (redundant f src).map f = unique id (laterKeys f [] src) := by
  rw [redundant_map_keys, redundant_keys_order]

end C09
