import BoltonsVerif.C09.Model
/-
C09 helper lemmas: chunked / chunked_iter.
-/
namespace C09
variable {α : Type}

theorem take_isEmpty_iff {size : Nat} (hs : 0 < size) (src : List α) :
    (src.take size).isEmpty = true ↔ src = [] := by
  cases src with
  | nil => simp
  | cons x xs =>
    cases size with
    | zero => omega
    | succ n => simp

theorem chunkLoop_flatten_none (size : Nat) (hs : 0 < size) :
    ∀ (fuel : Nat) (src : List α), src.length ≤ fuel →
      (chunkLoop size none fuel src).flatten = src := by
  intro fuel
  induction fuel with
  | zero => intro src h; have : src = [] := List.length_eq_zero_iff.mp (by omega); simp [chunkLoop, this]
  | succ n ih =>
    intro src h
    unfold chunkLoop
    by_cases he : (src.take size).isEmpty = true
    · have := (take_isEmpty_iff hs src).mp he
      simp [this]
    · simp only [he]
      have hne : src ≠ [] := fun h => he ((take_isEmpty_iff hs src).mpr h)
      have hl : 0 < src.length := List.length_pos_iff.mpr hne
      have : (src.drop size).length ≤ n := by simp; omega
      simp [padTo, ih _ this]

theorem chunkLoop_nil (size : Nat) (fill : Option α) (fuel : Nat) :
    chunkLoop size fill fuel ([] : List α) = [] := by
  cases fuel <;> simp [chunkLoop]

/-- every chunk holds between 1 and `size` items (no fill) -/
theorem chunkLoop_len_none (size : Nat) (hs : 0 < size) :
    ∀ (fuel : Nat) (src : List α), ∀ c ∈ chunkLoop size none fuel src, 1 ≤ c.length ∧ c.length ≤ size := by
  intro fuel
  induction fuel with
  | zero => intro src c hc; simp [chunkLoop] at hc
  | succ n ih =>
    intro src c hc
    unfold chunkLoop at hc
    by_cases he : (src.take size).isEmpty = true
    · simp [he] at hc
    · simp only [he] at hc
      have hne : src ≠ [] := fun h => he ((take_isEmpty_iff hs src).mpr h)
      have hl : 0 < src.length := List.length_pos_iff.mpr hne
      simp only [Bool.false_eq_true, ↓reduceIte, List.mem_cons] at hc
      rcases hc with rfl | hc
      · simp [padTo]; omega
      · exact ih _ c hc

/-- every chunk but the last holds exactly `size` items (no fill) -/
theorem chunkLoop_dropLast_none (size : Nat) (hs : 0 < size) :
    ∀ (fuel : Nat) (src : List α), ∀ c ∈ (chunkLoop size none fuel src).dropLast, c.length = size := by
  intro fuel
  induction fuel with
  | zero => intro src c hc; simp [chunkLoop] at hc
  | succ n ih =>
    intro src c hc
    unfold chunkLoop at hc
    by_cases he : (src.take size).isEmpty = true
    · simp [he] at hc
    · simp only [he, Bool.false_eq_true, ↓reduceIte] at hc
      cases hr : chunkLoop size none n (src.drop size) with
      | nil => simp [hr] at hc
      | cons d ds =>
        rw [hr, List.dropLast_cons_cons] at hc
        simp only [List.mem_cons] at hc
        rcases hc with rfl | hc
        · -- the rest is non-empty, so `src` has more than `size` items
          have : src.drop size ≠ [] := by
            intro h; rw [h, chunkLoop_nil] at hr; cases hr
          have : 0 < (src.drop size).length := List.length_pos_iff.mpr this
          simp at this
          simp [padTo]; omega
        · have := ih (src.drop size) c
          rw [hr] at this
          exact this hc

/-- with a fill value every chunk holds exactly `size` items -/
theorem chunkLoop_len_fill (size : Nat) (f : α) :
    ∀ (fuel : Nat) (src : List α), ∀ c ∈ chunkLoop size (some f) fuel src, c.length = size := by
  intro fuel
  induction fuel with
  | zero => intro src c hc; simp [chunkLoop] at hc
  | succ n ih =>
    intro src c hc
    unfold chunkLoop at hc
    by_cases he : (src.take size).isEmpty = true
    · simp [he] at hc
    · simp only [he, Bool.false_eq_true, ↓reduceIte, List.mem_cons] at hc
      rcases hc with rfl | hc
      · simp [padTo]; omega
      · exact ih _ c hc

/-- with a fill value the chunks concatenate to the input followed by fewer than `size` fills -/
theorem chunkLoop_flatten_fill (size : Nat) (hs : 0 < size) (f : α) :
    ∀ (fuel : Nat) (src : List α), src.length ≤ fuel →
      ∃ k, k < size ∧ (chunkLoop size (some f) fuel src).flatten = src ++ List.replicate k f := by
  intro fuel
  induction fuel with
  | zero =>
    intro src h
    have : src = [] := List.length_eq_zero_iff.mp (by omega)
    exact ⟨0, hs, by simp [chunkLoop, this]⟩
  | succ n ih =>
    intro src h
    unfold chunkLoop
    by_cases he : (src.take size).isEmpty = true
    · have := (take_isEmpty_iff hs src).mp he
      exact ⟨0, hs, by simp [this]⟩
    · simp only [he, Bool.false_eq_true, ↓reduceIte]
      have hne : src ≠ [] := fun h => he ((take_isEmpty_iff hs src).mpr h)
      have hl : 0 < src.length := List.length_pos_iff.mpr hne
      by_cases hlt : src.length < size
      · refine ⟨size - src.length, by omega, ?_⟩
        have h1 : src.take size = src := List.take_of_length_le (by omega)
        have h2 : src.drop size = [] := List.drop_of_length_le (by omega)
        simp [padTo, h1, h2, chunkLoop_nil]
      · have hd : (src.drop size).length ≤ n := by simp; omega
        obtain ⟨k, hk, hf⟩ := ih _ hd
        refine ⟨k, hk, ?_⟩
        have : size - (src.take size).length = 0 := by simp; omega
        simp only [padTo, this, List.replicate_zero, List.append_nil, List.flatten_cons, hf]
        rw [← List.append_assoc, List.take_append_drop]

/-- taking the first `c` chunks keeps a prefix of the concatenation -/
theorem flatten_take_prefix (l : List (List α)) (c : Nat) : (l.take c).flatten <+: l.flatten := by
  refine ⟨(l.drop c).flatten, ?_⟩
  rw [← List.flatten_append, List.take_append_drop]

theorem chunked_none_ok {size : Int} (hs : 0 < size) (fill : Option α) (src : List α) :
    chunked size none fill src = .ok (chunkLoop size.toNat fill src.length src) := by
  have h : ¬ size ≤ 0 := by omega
  simp only [chunked, chunkedIter, h, ↓reduceIte]

end C09
