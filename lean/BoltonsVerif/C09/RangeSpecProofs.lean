import BoltonsVerif.C09.RangeProofs
/-
C09 helper lemmas: chunk_ranges — every range but the last is exactly `chunk_size` long and ends
before the stop (no redundant range), and the laws determine the output (uniqueness).
-/
namespace C09

theorem dropLast_cons_ne' {β : Type} {a : β} {l : List β} (h : l ≠ []) :
    (a :: l).dropLast = a :: l.dropLast := by
  cases l with
  | nil => exact absurd rfl h
  | cons b l => rfl

theorem crLoop_full (stop cs step : Nat) (h1 : 1 ≤ step) (h2 : step ≤ cs) :
    ∀ (fuel i : Nat), i < stop → stop - i ≤ fuel →
      ∀ r ∈ (crLoop stop cs step fuel i).dropLast, r.2 = r.1 + cs ∧ r.2 < stop := by
  intro fuel
  induction fuel with
  | zero => intro i hi hf; omega
  | succ n ih =>
    intro i hi hf
    rw [crLoop_step _ _ _ _ _ hi]
    by_cases hend : stop ≤ i + cs
    · simp [hend]
    · have hm : min (i + cs) stop = i + cs := by omega
      simp only [hend, ↓reduceIte, hm]
      have hi' : i + step < stop := by omega
      have inv := crLoop_inv stop cs step h1 h2 n (i + step) hi' (by omega)
      have hne : crLoop stop cs step n (i + step) ≠ [] := by
        intro h0
        have := inv.head
        simp [h0] at this
      rw [dropLast_cons_ne' hne]
      intro r hr
      simp only [List.mem_cons] at hr
      rcases hr with rfl | hr
      · simp; omega
      · exact ih (i + step) hi' (by omega) r hr

/-- the laws of the property statement (plus "no range is redundant"), as a predicate on a list of ranges -/
structure CrLaws (stop cs ov off : Nat) (out : List (Nat × Nat)) : Prop where
  ne : out ≠ []
  head : out.head?.map (·.1) = some off
  chain : ∀ ab ∈ out.zip out.tail, ab.2.1 + ov = ab.1.2
  full : ∀ r ∈ out.dropLast, r.2 = r.1 + cs ∧ r.2 < stop
  last : out.getLast?.map (·.2) = some stop
  lastlen : ∀ r, out.getLast? = some r → r.1 < r.2 ∧ r.2 ≤ r.1 + cs

theorem crLoop_unique (stop cs ov : Nat) (hov : ov < cs) :
    ∀ (out : List (Nat × Nat)) (off fuel : Nat), CrLaws stop cs ov off out → stop - off ≤ fuel →
      out = crLoop stop cs (cs - ov) fuel off := by
  intro out
  induction out with
  | nil => intro off fuel h; exact absurd rfl h.ne
  | cons r rest ih =>
    intro off fuel h hf
    have hr1 : r.1 = off := by have := h.head; simpa using this
    cases rest with
    | nil =>
      have hr2 : r.2 = stop := by have := h.last; simpa using this
      have hl := h.lastlen r (by simp)
      have hlt : off < stop := by omega
      obtain ⟨f, rfl⟩ : ∃ f, fuel = f + 1 := ⟨fuel - 1, by omega⟩
      rw [crLoop_step _ _ _ _ _ hlt]
      have hend : stop ≤ off + cs := by omega
      have hm : min (off + cs) stop = stop := by omega
      simp only [hend, ↓reduceIte, hm]
      congr 1
      exact Prod.ext hr1 hr2
    | cons r2 rest' =>
      have hfull := h.full r (by simp)
      have hch := h.chain (r, r2) (by simp)
      simp only at hch
      have hlt : off < stop := by omega
      obtain ⟨f, rfl⟩ : ∃ f, fuel = f + 1 := ⟨fuel - 1, by omega⟩
      rw [crLoop_step _ _ _ _ _ hlt]
      have hend : ¬ stop ≤ off + cs := by omega
      have hm : min (off + cs) stop = off + cs := by omega
      simp only [hend, ↓reduceIte, hm]
      have hlaws : CrLaws stop cs ov (off + (cs - ov)) (r2 :: rest') := {
        ne := by simp
        head := by simp; omega
        chain := fun ab hab => h.chain ab (by
          simp only [List.tail_cons, List.zip_cons_cons, List.mem_cons] at hab ⊢
          exact Or.inr hab)
        full := fun x hx => h.full x (by
          rw [dropLast_cons_ne' (by simp)]
          exact List.mem_cons_of_mem _ hx)
        last := by have := h.last; rwa [List.getLast?_cons_cons] at this
        lastlen := fun x hx => h.lastlen x (by rw [List.getLast?_cons_cons]; exact hx) }
      rw [← ih (off + (cs - ov)) f hlaws (by omega)]
      congr 1
      exact Prod.ext hr1 (by simp; omega)

theorem chunkRangesNat_full (size cs off ov : Nat) (align : Bool) (hsz : 0 < size) (hov : ov < cs) :
    (∀ r ∈ (chunkRangesNat size cs off ov align).dropLast, r.2 < off + size) ∧
    (∀ r ∈ (if align then (chunkRangesNat size cs off ov align).tail
            else chunkRangesNat size cs off ov align).dropLast, r.2 = r.1 + cs) ∧
    (align = true → (chunkRangesNat size cs off ov align).head? =
        some (off, min (off + (cs - off % (cs - ov))) (off + size))) := by
  unfold chunkRangesNat
  cases align with
  | false =>
    simp only [Bool.false_and, Bool.false_eq_true, ↓reduceIte]
    have := crLoop_full (off + size) cs (cs - ov) (by omega) (by omega) size off (by omega) (by omega)
    exact ⟨fun r hr => (this r hr).2, fun r hr => (this r hr).1, by simp⟩
  | true =>
    have hc := align_cond cs off ov hov
    have hmod : off % (cs - ov) < cs - ov := Nat.mod_lt _ (by omega)
    simp only [Bool.true_and, hc, ne_eq, not_false_eq_true, decide_true, ↓reduceIte]
    generalize hicl : cs - off % (cs - ov) = icl
    have hicl1 : ov < icl := by omega
    by_cases hend : off + size ≤ off + icl
    · simp [hend]
    · simp only [hend, ↓reduceIte, List.tail_cons, List.head?_cons, implies_true, and_true]
      have hm : min (off + icl) (off + size) = off + icl := by omega
      have hfull := crLoop_full (off + size) cs (cs - ov) (by omega) (by omega) size (off + icl - ov)
        (by omega) (by omega)
      have inv := crLoop_inv (off + size) cs (cs - ov) (by omega) (by omega) size (off + icl - ov)
        (by omega) (by omega)
      have hne : crLoop (off + size) cs (cs - ov) size (off + icl - ov) ≠ [] := by
        intro h0
        have := inv.head
        simp [h0] at this
      refine ⟨?_, fun r hr => (hfull r hr).1⟩
      rw [dropLast_cons_ne' hne]
      intro r hr
      simp only [List.mem_cons] at hr
      rcases hr with rfl | hr
      · simp only [hm]; omega
      · exact (hfull r hr).2

/-- the only multiple of `step` in `(off, off + step]` is `off - off % step + step` -/
theorem next_multiple_unique (step off s2 : Nat) (hstep : 0 < step) (hmod : s2 % step = 0)
    (h1 : off < s2) (h2 : s2 ≤ off + step) : s2 = off + step - off % step := by
  obtain ⟨k, hk⟩ := Nat.dvd_of_mod_eq_zero hmod
  have hq := Nat.div_add_mod off step
  have hm : off % step < step := Nat.mod_lt _ hstep
  generalize off / step = q at hq
  generalize off % step = m at hq hm ⊢
  have hk1 : q < k := by
    apply Classical.byContradiction
    intro hn
    have : step * k ≤ step * q := Nat.mul_le_mul_left _ (by omega)
    omega
  have hk2 : k < q + 2 := by
    apply Classical.byContradiction
    intro hn
    have : step * (q + 2) ≤ step * k := Nat.mul_le_mul_left _ (by omega)
    rw [Nat.mul_add] at this
    omega
  have : k = q + 1 := by omega
  subst this
  rw [Nat.mul_add] at hk
  omega

/-- with `align=True` too the laws determine the output, once "on aligned boundaries" is read as: the first
    range is cut at the first boundary (`first.2 ≤ off + (cs - off % step)`), every later range starts on a
    multiple of the step, the second one on the first multiple after `off` -/
theorem chunkRangesNat_unique_aligned (size cs off ov : Nat) (hov : ov < cs) (out : List (Nat × Nat))
    (hne : out ≠ [])
    (hhead : out.head?.map (·.1) = some off)
    (hchain : ∀ ab ∈ out.zip out.tail, ab.2.1 + ov = ab.1.2)
    (haligned : ∀ r ∈ out.tail, r.1 % (cs - ov) = 0)
    (hsecond : ∀ r, out.tail.head? = some r → off < r.1 ∧ r.1 ≤ off + (cs - ov))
    (hfirst : ∀ r, out.head? = some r → r.2 ≤ off + (cs - off % (cs - ov)) ∧ (out.tail ≠ [] → r.2 < off + size))
    (hfull : ∀ r ∈ out.tail.dropLast, r.2 = r.1 + cs ∧ r.2 < off + size)
    (hlast : out.getLast?.map (·.2) = some (off + size))
    (hlastlen : ∀ r, out.getLast? = some r → r.1 < r.2 ∧ r.2 ≤ r.1 + cs) :
    out = chunkRangesNat size cs off ov true := by
  have hc := align_cond cs off ov hov
  have hmodlt : off % (cs - ov) < cs - ov := Nat.mod_lt _ (by omega)
  unfold chunkRangesNat
  simp only [Bool.true_and, hc, ne_eq, not_false_eq_true, decide_true, ↓reduceIte]
  cases out with
  | nil => exact absurd rfl hne
  | cons r rest =>
    have hr1 : r.1 = off := by simpa using hhead
    have hf := hfirst r (by simp)
    cases rest with
    | nil =>
      have hr2 : r.2 = off + size := by simpa using hlast
      have hend : off + size ≤ off + (cs - off % (cs - ov)) := by omega
      have hm : min (off + (cs - off % (cs - ov))) (off + size) = off + size := by omega
      simp only [hend, ↓reduceIte, hm]
      congr 1
      exact Prod.ext hr1 hr2
    | cons r2 rest' =>
      have hch := hchain (r, r2) (by simp)
      simp only at hch
      have hal := haligned r2 (by simp)
      have hsec := hsecond r2 (by simp)
      have hlt := hf.2 (by simp)
      have hs2 := next_multiple_unique (cs - ov) off r2.1 (by omega) hal hsec.1 hsec.2
      have hend : ¬ off + size ≤ off + (cs - off % (cs - ov)) := by omega
      have hm : min (off + (cs - off % (cs - ov))) (off + size) = off + (cs - off % (cs - ov)) := by omega
      simp only [hend, ↓reduceIte, hm]
      have hlaws : CrLaws (off + size) cs ov (off + (cs - off % (cs - ov)) - ov) (r2 :: rest') := {
        ne := by simp
        head := by simp; omega
        chain := fun ab hab => hchain ab (by
          simp only [List.tail_cons, List.zip_cons_cons, List.mem_cons] at hab ⊢
          exact Or.inr hab)
        full := fun x hx => hfull x (by simpa using hx)
        last := by rwa [List.getLast?_cons_cons] at hlast
        lastlen := fun x hx => hlastlen x (by rw [List.getLast?_cons_cons]; exact hx) }
      rw [← crLoop_unique (off + size) cs ov hov (r2 :: rest') _ size hlaws (by omega)]
      congr 1
      exact Prod.ext hr1 (by simp; omega)

end C09
