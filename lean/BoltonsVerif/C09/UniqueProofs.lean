import BoltonsVerif.C09.Model
/-
C09 helper lemmas: unique_iter keeps exactly the first occurrence of each key, in order.
-/
namespace C09
variable {α : Type} {κ : Type} [DecidableEq κ]

theorem uniqueLoop_sublist (f : α → κ) : ∀ (xs : List α) (seen : List κ),
    (uniqueLoop f xs seen).Sublist xs := by
  intro xs
  induction xs with
  | nil => intro seen; simp [uniqueLoop]
  | cons x xs ih =>
    intro seen
    rw [uniqueLoop]
    split
    · exact (ih seen).cons x
    · exact (ih _).cons_cons x

theorem uniqueLoop_not_seen (f : α → κ) : ∀ (xs : List α) (seen : List κ),
    ∀ y ∈ uniqueLoop f xs seen, f y ∉ seen := by
  intro xs
  induction xs with
  | nil => intro seen y hy; simp [uniqueLoop] at hy
  | cons x xs ih =>
    intro seen y hy
    rw [uniqueLoop] at hy
    split at hy
    · exact ih seen y hy
    · rename_i hx
      simp only [List.mem_cons] at hy
      rcases hy with rfl | hy
      · exact hx
      · have := ih _ y hy
        simp only [List.mem_cons, not_or] at this
        exact this.2

theorem uniqueLoop_nodup (f : α → κ) : ∀ (xs : List α) (seen : List κ),
    ((uniqueLoop f xs seen).map f).Nodup := by
  intro xs
  induction xs with
  | nil => intro seen; simp [uniqueLoop]
  | cons x xs ih =>
    intro seen
    rw [uniqueLoop]
    split
    · exact ih seen
    · simp only [List.map_cons, List.nodup_cons]
      refine ⟨?_, ih _⟩
      intro hmem
      obtain ⟨y, hy, hfy⟩ := List.mem_map.mp hmem
      have := uniqueLoop_not_seen f xs (f x :: seen) y hy
      simp [hfy] at this

theorem uniqueLoop_covers (f : α → κ) : ∀ (xs : List α) (seen : List κ),
    ∀ x ∈ xs, f x ∈ seen ∨ f x ∈ (uniqueLoop f xs seen).map f := by
  intro xs
  induction xs with
  | nil => intro seen x hx; simp at hx
  | cons a xs ih =>
    intro seen x hx
    rw [uniqueLoop]
    simp only [List.mem_cons] at hx
    split
    · rename_i ha
      rcases hx with rfl | hx
      · exact Or.inl ha
      · exact ih seen x hx
    · rcases hx with rfl | hx
      · right; simp
      · rcases ih (f a :: seen) x hx with h | h
        · simp only [List.mem_cons] at h
          rcases h with h | h
          · right; simp [h]
          · exact Or.inl h
        · right; simp only [List.map_cons, List.mem_cons]; exact Or.inr h

theorem uniqueLoop_first (f : α → κ) : ∀ (xs : List α) (seen : List κ),
    ∀ y ∈ uniqueLoop f xs seen, xs.find? (fun x => decide (f x = f y)) = some y := by
  intro xs
  induction xs with
  | nil => intro seen y hy; simp [uniqueLoop] at hy
  | cons a xs ih =>
    intro seen y hy
    have hns := uniqueLoop_not_seen f (a :: xs) seen y hy
    rw [uniqueLoop] at hy
    split at hy
    · rename_i ha
      have hne : f a ≠ f y := fun h => hns (h ▸ ha)
      rw [List.find?_cons_of_neg (by simpa using hne)]
      exact ih seen y hy
    · simp only [List.mem_cons] at hy
      rcases hy with rfl | hy
      · simp
      · have := uniqueLoop_not_seen f xs (f a :: seen) y hy
        simp only [List.mem_cons, not_or] at this
        have hne : f a ≠ f y := fun h => this.1 h.symm
        rw [List.find?_cons_of_neg (by simpa using hne)]
        exact ih _ y hy

end C09
