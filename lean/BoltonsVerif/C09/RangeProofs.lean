import BoltonsVerif.C09.Model
/-
C09 helper lemmas: chunk_ranges arithmetic.
`stop = offset + size`, `step = chunk_size - overlap_size`, `1 ≤ step ≤ cs`.
-/
namespace C09

theorem crLoop_step (stop cs step fuel i : Nat) (h : i < stop) :
    crLoop stop cs step (fuel + 1) i =
      (i, min (i + cs) stop) :: (if stop ≤ i + cs then [] else crLoop stop cs step fuel (i + step)) := by
  rw [crLoop]; simp [h]

/-- invariants of the `for i in range(...)` loop, proved together: the output is non-empty and starts at
    `i`; every range is non-empty, at most `cs` long, inside `[i, stop)`, and starts congruent to `i`;
    consecutive ranges overlap by exactly `cs - step`; the last range ends at `stop`; every index of
    `[i, stop)` is covered -/
structure CrInv (stop cs step i : Nat) (out : List (Nat × Nat)) : Prop where
  head : out.head?.map (·.1) = some i
  last : out.getLast?.map (·.2) = some stop
  each : ∀ r ∈ out, r.1 < r.2 ∧ r.2 ≤ r.1 + cs ∧ i ≤ r.1 ∧ r.2 ≤ stop ∧ r.1 % step = i % step
  chain : ∀ ab ∈ out.zip out.tail, ab.2.1 + (cs - step) = ab.1.2
  cover : ∀ j, i ≤ j → j < stop → ∃ r ∈ out, r.1 ≤ j ∧ j < r.2

theorem crLoop_inv (stop cs step : Nat) (h1 : 1 ≤ step) (h2 : step ≤ cs) :
    ∀ (fuel i : Nat), i < stop → stop - i ≤ fuel → CrInv stop cs step i (crLoop stop cs step fuel i) := by
  intro fuel
  induction fuel with
  | zero => intro i hi hf; omega
  | succ n ih =>
    intro i hi hf
    rw [crLoop_step _ _ _ _ _ hi]
    by_cases hend : stop ≤ i + cs
    · -- last chunk
      have hm : min (i + cs) stop = stop := by omega
      simp only [hend, ↓reduceIte, hm]
      exact {
        head := by simp
        last := by simp
        each := by
          intro r hr
          simp at hr
          subst hr
          simp; omega
        chain := by simp
        cover := by
          intro j hj1 hj2
          exact ⟨(i, stop), by simp, hj1, hj2⟩ }
    · have hm : min (i + cs) stop = i + cs := by omega
      simp only [hend, ↓reduceIte, hm]
      have hi' : i + step < stop := by omega
      have inv := ih (i + step) hi' (by omega)
      cases hr : crLoop stop cs step n (i + step) with
      | nil => have := inv.head; simp [hr] at this
      | cons r1 rest =>
        rw [hr] at inv
        have hr1 : r1.1 = i + step := by have := inv.head; simpa using this
        exact {
          head := by simp
          last := by
            rw [List.getLast?_cons_cons]
            exact inv.last
          each := by
            intro r hr
            simp only [List.mem_cons] at hr
            rcases hr with rfl | hr
            · simp; omega
            · have := inv.each r (by simpa using hr)
              refine ⟨this.1, this.2.1, by omega, this.2.2.2.1, ?_⟩
              rw [this.2.2.2.2, Nat.add_mod_right]
          chain := by
            intro ab hab
            simp only [List.tail_cons, List.zip_cons_cons, List.mem_cons] at hab
            rcases hab with rfl | hab
            · simp only [hr1]; omega
            · exact inv.chain ab (by simpa using hab)
          cover := by
            intro j hj1 hj2
            by_cases hj : j < i + cs
            · exact ⟨(i, i + cs), by simp, hj1, hj⟩
            · obtain ⟨r, hr, h⟩ := inv.cover j (by omega) hj2
              exact ⟨r, List.mem_cons_of_mem _ hr, h⟩ }

theorem mod_step_aligned (off step : Nat) (h : 0 < step) : (off - off % step + step) % step = 0 := by
  have h1 := Nat.div_add_mod off step
  have h2 : off - off % step = step * (off / step) := by omega
  rw [h2, Nat.add_mod_right, Nat.mul_mod_right]

/-- the initial chunk of the aligned form is never skipped when `ov < cs` -/
theorem align_cond (cs off ov : Nat) (h : ov < cs) : cs - off % (cs - ov) ≠ ov := by
  have : off % (cs - ov) < cs - ov := Nat.mod_lt _ (by omega)
  omega

/-- all chunk_ranges laws for valid parameters and a non-empty input -/
structure RangesOK (size cs off ov : Nat) (align : Bool) (out : List (Nat × Nat)) : Prop where
  head : out.head?.map (·.1) = some off
  last : out.getLast?.map (·.2) = some (off + size)
  each : ∀ r ∈ out, r.1 < r.2 ∧ r.2 ≤ r.1 + cs ∧ off ≤ r.1 ∧ r.2 ≤ off + size
  chain : ∀ ab ∈ out.zip out.tail, ab.2.1 + ov = ab.1.2
  aligned : align = true → ∀ r ∈ out.tail, r.1 % (cs - ov) = 0
  cover : ∀ j, off ≤ j → j < off + size → ∃ r ∈ out, r.1 ≤ j ∧ j < r.2

theorem chunkRangesNat_ok (size cs off ov : Nat) (align : Bool) (hsz : 0 < size) (hov : ov < cs) :
    RangesOK size cs off ov align (chunkRangesNat size cs off ov align) := by
  have hsub : cs - (cs - ov) = ov := by omega
  unfold chunkRangesNat
  cases align with
  | false =>
    simp only [Bool.false_and, Bool.false_eq_true, ↓reduceIte]
    have inv := crLoop_inv (off + size) cs (cs - ov) (by omega) (by omega) size off (by omega) (by omega)
    exact {
      head := inv.head
      last := inv.last
      each := fun r hr => by have := inv.each r hr; omega
      chain := fun ab hab => by have := inv.chain ab hab; omega
      aligned := by simp
      cover := inv.cover }
  | true =>
    have hc := align_cond cs off ov hov
    have hmod : off % (cs - ov) < cs - ov := Nat.mod_lt _ (by omega)
    simp only [Bool.true_and, hc, ne_eq, not_false_eq_true, decide_true, ↓reduceIte]
    generalize hicl : cs - off % (cs - ov) = icl
    have hicl1 : ov < icl := by omega
    have hicl2 : icl ≤ cs := by omega
    by_cases hend : off + size ≤ off + icl
    · have hm : min (off + icl) (off + size) = off + size := by omega
      simp only [hend, ↓reduceIte, hm]
      exact {
        head := by simp
        last := by simp
        each := by intro r hr; simp at hr; subst hr; simp; omega
        chain := by simp
        aligned := by simp
        cover := fun j h1 h2 => ⟨(off, off + size), by simp, h1, h2⟩ }
    · have hm : min (off + icl) (off + size) = off + icl := by omega
      simp only [hend, ↓reduceIte, hm]
      have inv := crLoop_inv (off + size) cs (cs - ov) (by omega) (by omega) size (off + icl - ov)
        (by omega) (by omega)
      have hal : (off + icl - ov) % (cs - ov) = 0 := by
        have : off + icl - ov = off - off % (cs - ov) + (cs - ov) := by
          have := Nat.mod_le off (cs - ov)
          omega
        rw [this]
        exact mod_step_aligned off (cs - ov) (by omega)
      cases hr : crLoop (off + size) cs (cs - ov) size (off + icl - ov) with
      | nil => have := inv.head; simp [hr] at this
      | cons r1 rest =>
        rw [hr] at inv
        have hr1 : r1.1 = off + icl - ov := by have := inv.head; simpa using this
        exact {
          head := by simp
          last := by rw [List.getLast?_cons_cons]; exact inv.last
          each := by
            intro r hr
            simp only [List.mem_cons] at hr
            rcases hr with rfl | hr
            · simp; omega
            · have := inv.each r (by simpa using hr)
              omega
          chain := by
            intro ab hab
            simp only [List.tail_cons, List.zip_cons_cons, List.mem_cons] at hab
            rcases hab with rfl | hab
            · simp only [hr1]; omega
            · have := inv.chain ab (by simpa using hab); omega
          aligned := by
            intro _ r hr
            have := (inv.each r (by simpa using hr)).2.2.2.2
            rw [this, hal]
          cover := by
            intro j hj1 hj2
            by_cases hj : j < off + icl
            · exact ⟨(off, off + icl), by simp, hj1, hj⟩
            · obtain ⟨r, hr, h⟩ := inv.cover j (by omega) hj2
              exact ⟨r, List.mem_cons_of_mem _ hr, h⟩ }

/-- an empty input: nothing without `align`, the single empty range `(off, off)` with it -/
theorem chunkRangesNat_zero (cs off ov : Nat) (align : Bool) (hov : ov < cs) :
    chunkRangesNat 0 cs off ov align = if align then [(off, off)] else [] := by
  unfold chunkRangesNat
  cases align with
  | false => simp [crLoop]
  | true =>
    have hc := align_cond cs off ov hov
    simp [hc]

end C09
