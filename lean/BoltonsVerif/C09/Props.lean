import BoltonsVerif.C09.Proofs
import BoltonsVerif.C09.KeyModel
import BoltonsVerif.Generated.C09_SepKinds
/-
C09 — property theorems for the chunking / windowing / splitting / stripping / grouping helpers of
`boltons.iterutils` (model: `Model.lean`; nothing here but statements, their short derivations from
`Proofs.lean`, and non-vacuity examples).

All theorems hold for every input list and every valid parameter value (no size bound).
The `*_iter` generators and the list-returning forms are the same function in the model
(`list(x_iter(...))`), so "the *_iter forms yield the same items" is checked on the real code only.
-/
namespace C09
variable {α : Type} {β : Type} {κ : Type}

/-! ## chunked -/

/-- concatenating the chunks gives back the input -/
theorem chunked_concat {size : Int} (hs : 0 < size) (src : List α) :
    ∃ out, chunked size none none src = .ok out ∧ out.flatten = src := by
  refine ⟨_, chunked_none_ok hs none src, ?_⟩
  exact chunkLoop_flatten_none size.toNat (by omega) _ _ (Nat.le_refl _)

/-- every chunk holds exactly `size` items except a shorter (but non-empty) last one -/
theorem chunked_sizes {size : Int} (hs : 0 < size) (src : List α) :
    ∃ out, chunked size none none src = .ok out ∧
      (∀ c ∈ out.dropLast, c.length = size.toNat) ∧
      (∀ c ∈ out, 1 ≤ c.length ∧ c.length ≤ size.toNat) := by
  refine ⟨_, chunked_none_ok hs none src, ?_, ?_⟩
  · exact chunkLoop_dropLast_none size.toNat (by omega) _ _
  · exact chunkLoop_len_none size.toNat (by omega) _ _

/-- with `fill=f` every chunk holds exactly `size` items and the chunks concatenate to the input
    followed by fewer than `size` copies of `f` -/
theorem chunked_fill {size : Int} (hs : 0 < size) (f : α) (src : List α) :
    ∃ out, chunked size none (some f) src = .ok out ∧
      (∀ c ∈ out, c.length = size.toNat) ∧
      ∃ k, k < size.toNat ∧ out.flatten = src ++ List.replicate k f := by
  refine ⟨_, chunked_none_ok hs (some f) src, ?_, ?_⟩
  · exact chunkLoop_len_fill size.toNat f _ _
  · exact chunkLoop_flatten_fill size.toNat (by omega) f _ _ (Nat.le_refl _)

/-- `count=c` returns the first `c` chunks of the unlimited result -/
theorem chunked_count {size : Int} (hs : 0 < size) (c : Int) (hc : 0 ≤ c) (fill : Option α) (src : List α) :
    ∃ full, chunked size none fill src = .ok full ∧
      chunked size (some c) fill src = .ok (full.take c.toNat) := by
  have h : ¬ size ≤ 0 := by omega
  have h' : ¬ c < 0 := by omega
  refine ⟨_, chunked_none_ok hs fill src, ?_⟩
  by_cases h0 : c = 0
  · subst h0; simp [chunked]
  · simp only [chunked, h', ↓reduceIte, h0, chunkedIter, h]; rfl

/-- ... hence (no fill) the chunks of a counted call concatenate to a prefix of the input -/
theorem chunked_count_prefix {size : Int} (hs : 0 < size) (c : Int) (hc : 0 ≤ c) (src : List α) :
    ∃ out, chunked size (some c) none src = .ok out ∧ out.flatten <+: src := by
  obtain ⟨full, h1, h2⟩ := chunked_count hs c hc none src
  obtain ⟨out, h3, h4⟩ := chunked_concat hs src
  rw [h1] at h3
  cases h3
  exact ⟨_, h2, by have := flatten_take_prefix full c.toNat; rwa [h4] at this⟩

/-- `list(chunked_iter(src, size, fill))` is `chunked(src, size, fill)` without a count (one function
    in the model; the harness compares the two forms on the real code) -/
theorem chunked_iter_eq_list (size : Int) (fill : Option α) (src : List α) :
    chunkedIter size fill src = chunked size none fill src := rfl

/-- a non-positive size or a negative count is rejected (ValueError); `count=0` yields nothing -/
theorem chunked_invalid (size : Int) (fill : Option α) (src : List α) :
    (size ≤ 0 → chunked size none fill src = .error .valueError) ∧
    (∀ c : Int, c < 0 → chunked size (some c) fill src = .error .valueError) ∧
    chunked size (some 0) fill src = .ok [] := by
  refine ⟨fun h => by simp [chunked, chunkedIter, h], fun c hc => by simp [chunked, hc], by simp [chunked]⟩

example : chunked 3 none none [0, 1, 2, 3, 4, 5, 6] = .ok [[0, 1, 2], [3, 4, 5], [6]] := by rfl
example : chunked 3 none (some 9) [0, 1, 2, 3] = .ok [[0, 1, 2], [3, 9, 9]] := by rfl
example : chunked 3 (some 1) none [0, 1, 2, 3] = .ok [[0, 1, 2]] := by rfl

/-! ### round 3: the type of the chunks -/

/-- SOURCE FACTS, re-established on every run: for an input of every kind the harness knows (list, tuple,
    iterators, str, bytes, bytearray, deque, range, dict, memoryview, array, bare iterables) the chunks the
    current `chunked_iter` yields str chunks for a str and bytes chunks for a bytes (what "concatenating the
    chunks gives back the input" needs), and chunks every other kind of input without raising (today: into
    lists, `chunkKind .other = .list`; the statement does not fix that type and the check does not compare it) -/
theorem chunk_kind_table_agrees :
    Generated.chunkTypeTable.all (fun r =>
      if r.1 == "str" || r.1 == "bytes" then r.2 == (chunkKind (SrcKind.ofName r.1)).name
      else r.2 != "raises") = true ∧
    Generated.chunkTypeTable.any (fun r => r.1 == "str") = true ∧
    Generated.chunkTypeTable.any (fun r => r.1 == "bytes") = true ∧
    Generated.chunkTypeTable.any (fun r => r.1 == "bytearray") = true := by decide

/-- the chunk type depends on the input kind only, and the chunks themselves do not depend on it: `chunked` on
    a str / bytes is `chunked` on its item list, re-joined chunk by chunk -/
theorem chunkedK_eq (k : SrcKind) (size : Param) (count : Option Param) (fill : Option α) (src : List α) :
    chunkedK k size count fill src = (chunkedP size count fill src).map (fun l => (chunkKind k, l)) ∧
    (chunkKind k = .list ↔ k = .other) := by
  refine ⟨rfl, ?_⟩
  cases k <;> simp [chunkKind]

example : chunkedK (α := Nat) .str (.int 2) none none [1, 2, 3] = .ok (.str, [[1, 2], [3]]) := by rfl

/-! ## windowed / pairwise -/

/-- without fill, `windowed` yields exactly the contiguous length-`size` slices, in order -/
theorem windowed_eq_slices {size : Int} (hs : 0 < size) (src : List α) :
    windowed size none src = .ok (slices size.toNat src) := by
  have h : ¬ size < 0 := by omega
  simp only [windowed, h, ↓reduceIte]
  by_cases hl : src.length + 1 < size.toNat
  · have : src.length + 1 - size.toNat = 0 := by omega
    simp [hl, slices, this]
  · simp only [hl, ↓reduceIte]
    have hne : (tees size.toNat src).isEmpty = false := by
      obtain ⟨m, hm⟩ : ∃ m, size.toNat = m + 1 := ⟨size.toNat - 1, by omega⟩
      rw [hm, tees_succ]; rfl
    rw [zipStar, hne, zipLoop_tees size.toNat (by omega) _ _ (Nat.le_refl _)]
    rfl

/-- with `fill=f`, one window per item, each padded with `f` to length `size` -/
theorem windowed_fill_one_per_elem {size : Int} (hs : 0 < size) (f : α) (src : List α) :
    windowed size (some f) src = .ok (paddedSlices size.toNat f src) ∧
    (paddedSlices size.toNat f src).length = src.length ∧
    ∀ w ∈ paddedSlices size.toNat f src, w.length = size.toNat := by
  have h : ¬ size < 0 := by omega
  refine ⟨?_, by simp [paddedSlices], ?_⟩
  · simp only [windowed, h, ↓reduceIte]
    rw [zipLongestLoop_tees f size.toNat (by omega) _ _ (Nat.le_refl _)]
  · intro w hw
    simp only [paddedSlices, List.mem_map, List.mem_range] at hw
    obtain ⟨i, hi, rfl⟩ := hw
    simp; omega

/-- the slices really are the windows `src[i], …, src[i+size-1]` -/
theorem slices_spec (size : Nat) (src : List α) :
    (slices size src).length = src.length + 1 - size ∧
    ∀ i (h : i < (slices size src).length), (slices size src)[i] = (src.drop i).take size := by
  simp [slices]

/-- `pairwise` is `windowed` with size 2 -/
theorem pairwise_eq (src : List α) (e : α) :
    pairwise none src = .ok (slices 2 src) ∧ pairwise (some e) src = .ok (paddedSlices 2 e src) := by
  exact ⟨windowed_eq_slices (size := 2) (by omega) src,
         (windowed_fill_one_per_elem (size := 2) (by omega) e src).1⟩

/-- a negative size is rejected by `tee` (ValueError); size 0 yields nothing -/
theorem windowed_invalid {size : Int} (hs : size < 0) (fill : Option α) (src : List α) :
    windowed size fill src = .error .valueError := by
  simp [windowed, hs]

theorem windowed_zero (fill : Option α) (src : List α) : windowed 0 fill src = .ok [] := by
  cases fill with
  | none => simp [windowed, zipStar, tees]
  | some f => cases src <;> simp [windowed, zipLongestLoop, tees]

example : windowed 3 none [0, 1, 2, 3, 4] = .ok [[0, 1, 2], [1, 2, 3], [2, 3, 4]] := by rfl
example : windowed 3 (some 9) [0, 1, 2] = .ok [[0, 1, 2], [1, 2, 9], [2, 9, 9]] := by rfl
example : windowed 5 none [0, 1, 2] = .ok [] := by rfl
example : pairwise (some 9) [0, 1, 2] = .ok [[0, 1], [1, 2], [2, 9]] := by rfl

/-! ## split -/

/-- `split` agrees with `str.split` item-wise (`pySplit`, itself compared with CPython's `str.split`
    on every run): `p` = "is a separator", `grouping` = `sep is None`, for every `maxsplit`
    (a negative one acts as 0) -/
theorem split_eq_pySplit (p : α → Bool) (grouping : Bool) (maxsplit : Option Int) (src : List α) :
    split p grouping maxsplit src = pySplit p grouping (maxsplit.map Int.toNat) src :=
  split_eq p grouping maxsplit src

/-- with an explicit separator and no limit, no piece contains a separator and there is one more
    piece than there are separators -/
theorem split_sep_pieces (p : α → Bool) (src : List α) :
    (∀ g ∈ split p false none src, ∀ x ∈ g, p x = false) ∧
    (split p false none src).length = src.countP p + 1 := by
  rw [split_eq_pySplit]
  exact pySplitSep_none_pieces p src

/-- joining the pieces with the separator gives back the input (explicit single separator `s`,
    any `maxsplit`): `sep.join(x.split(sep, m)) == x` -/
theorem split_join [DecidableEq α] (s : α) (maxsplit : Option Int) (src : List α) :
    [s].intercalate (split (fun x => decide (x = s)) false maxsplit src) = src := by
  rw [split_eq_pySplit]
  exact pySplitSep_join s _ src

/-- at most `maxsplit` splits are made: at most `maxsplit + 1` pieces -/
theorem split_maxsplit_le (p : α → Bool) (grouping : Bool) (m : Nat) (src : List α) :
    (split p grouping (some (m : Int)) src).length ≤ m + 1 := by
  rw [split_eq_pySplit]
  exact pySplit_length_le p grouping m src

/-- in grouping mode without a limit, pieces are non-empty and separator-free, and together they are
    the non-separator items in order -/
theorem split_grouping_pieces (p : α → Bool) (src : List α) :
    (∀ g ∈ split p true none src, g ≠ [] ∧ ∀ x ∈ g, p x = false) ∧
    (split p true none src).flatten = src.filter (fun x => !p x) := by
  rw [split_eq_pySplit]
  exact pySplitWs_none_pieces p src

example : split (fun x => x == 0) true none [1, 2, 0, 0, 3, 0] = [[1, 2], [3]] := by decide
example : split (fun x => x == 0) true (some 1) [0, 1, 0, 0, 2, 0, 3] = [[1], [2, 0, 3]] := by decide
example : split (fun x => x == 0) true (some 1) [1, 0, 0] = [[1]] := by decide
example : split (fun x => x == 0) false (some 0) [1, 0, 2] = [[1, 0, 2]] := by decide
example : split (fun x => x == 0) false none [0, 1, 0, 0, 2] = [[], [1], [], [2]] := by decide

/-! ### split with a `maxsplit`: complete characterisation -/

/-- explicit separator, `maxsplit = m`: exactly `min(#separators, m)` cuts are made, and no piece
    except the last contains a separator -/
theorem split_sep_maxsplit_pieces (p : α → Bool) (m : Nat) (src : List α) :
    (split p false (some (m : Int)) src).length = min (src.countP p) m + 1 ∧
    ∀ g ∈ (split p false (some (m : Int)) src).dropLast, ∀ x ∈ g, p x = false := by
  rw [split_eq_pySplit]
  have := pySplitSep_pieces p (some m) src
  simpa [pySplit, cuts] using this

/-- ... and these facts pin the result down: ANY list of pieces that joins back to the input with the
    separator, has the right number of pieces and no separator in any piece but the last IS what
    `split` returns (so `split` is the unique inverse of `sep.join` with at most `m` cuts, like `str.split`) -/
theorem split_sep_unique [DecidableEq α] (s : α) (m : Nat) (src : List α) (out : List (List α))
    (hjoin : [s].intercalate out = src)
    (hfree : ∀ g ∈ out.dropLast, ∀ x ∈ g, x ≠ s)
    (hlen : out.length = min (src.countP (fun x => decide (x = s))) m + 1) :
    out = split (fun x => decide (x = s)) false (some (m : Int)) src := by
  rw [split_eq_pySplit]
  have hne : out ≠ [] := by intro h; simp [h] at hlen
  have hcore := pySplitSep_unique_core s out src hne hjoin hfree
  simp only [pySplit, Option.map_some, Int.toNat_natCast, Bool.false_eq_true, ↓reduceIte]
  rw [hcore, hlen, Nat.add_sub_cancel]
  by_cases hm : m ≤ src.countP (fun x => decide (x = s))
  · rw [Nat.min_eq_right hm]
  · have hm' : src.countP (fun x => decide (x = s)) ≤ m := by omega
    rw [Nat.min_eq_left hm', pySplitSep_enough _ _ _ (Nat.le_refl _), pySplitSep_enough _ _ _ hm']

/-- `sep=None` with `maxsplit = m`: the first `m` words are the first `m` words of the unlimited split;
    if there are no more than `m` words that is all, otherwise ONE more piece follows: the rest of the
    input verbatim from the start of word `m+1` on (a suffix of the input that starts with a
    non-separator and holds exactly the remaining words' items) -/
theorem split_grouping_maxsplit (p : α → Bool) (m : Nat) (src : List α) :
    ((split p true none src).length ≤ m → split p true (some (m : Int)) src = split p true none src) ∧
    (m < (split p true none src).length → ∃ rest,
        split p true (some (m : Int)) src = (split p true none src).take m ++ [rest] ∧
        rest <:+ src ∧ (∃ y ys, rest = y :: ys ∧ p y = false) ∧
        rest.filter (fun x => !p x) = ((split p true none src).drop m).flatten) := by
  rw [split_eq_pySplit, split_eq_pySplit]
  simp only [pySplit, Option.map_some, Option.map_none, Int.toNat_natCast, ↓reduceIte]
  exact pySplitWs_limit p src.length src (Nat.le_refl _) m

example : split (fun x => decide (x = 0)) false (some 2) [1, 0, 2, 0, 0, 3] = [[1], [2], [0, 3]] := by decide
example : [0].intercalate [[1], [2], [0, 3]] = [1, 0, 2, 0, 0, 3] ∧
    ([1, 0, 2, 0, 0, 3].countP (fun x => decide (x = 0))) = 3 := by decide
example : split (fun x => x == 0) true none [0, 1, 0, 0, 2, 0, 3, 0] = [[1], [2], [3]] ∧
    split (fun x => x == 0) true (some 1) [0, 1, 0, 0, 2, 0, 3, 0] = [[1], [2, 0, 3, 0]] := by decide

/-- `sep=None` splitting is explicit-separator splitting with the empty pieces dropped
    (`s.split() == [w for w in s.split(sep) if w]`); with `split_sep_unique` this pins the grouping mode down
    as completely as the separator mode -/
theorem split_grouping_eq_filter (p : α → Bool) (src : List α) :
    split p true none src = (split p false none src).filter (fun g => !g.isEmpty) := by
  rw [split_eq_pySplit, split_eq_pySplit]
  simp only [pySplit, Option.map_none, ↓reduceIte, Bool.false_eq_true]
  exact (ws_eq_filter_sep p src).1

example : (split (fun x => x == 0) false none [0, 1, 0, 0, 2]).filter (fun g => !g.isEmpty) = [[1], [2]] := by decide

/-! ### the `sep` argument as passed (dispatch of `split_iter`) and `maxsplit = int(maxsplit)` -/

/-- `split` as called is the item-wise `str.split` for the separator test the dispatch selects -/
theorem splitS_eq_pySplit (eqv : α → α → Bool) (isNone : α → Bool) (sep : Sep α) (maxsplit : Option Param)
    (src : List α) :
    splitS eqv isNone sep maxsplit src =
      pySplit (sepFunc eqv isNone sep) sep.isNone ((maxsplit.map Param.toInt).map Int.toNat) src :=
  split_eq _ _ _ _

/-- which test each kind of `sep` selects; only `sep=None` groups -/
theorem split_sep_dispatch (eqv : α → α → Bool) (isNone : α → Bool) (x v c : α) (vs : List α) (f : α → Bool) :
    sepFunc eqv isNone .none x = isNone x ∧
    sepFunc eqv isNone (.value v) x = eqv x v ∧
    sepFunc eqv isNone (.text [c]) x = eqv x c ∧
    (sepFunc eqv isNone (.coll vs) x = true ↔ ∃ w ∈ vs, eqv x w = true) ∧
    sepFunc eqv isNone (.func f) x = f x ∧
    (∀ s : Sep α, s.isNone = true ↔ s = .none) := by
  refine ⟨rfl, rfl, rfl, by simp [sepFunc], rfl, ?_⟩
  intro s; cases s <;> simp [Sep.isNone]

/-- a str / bytes separator is a scalar (`is_scalar`): unless it is a single character it equals no
    item, so nothing is split (it is NOT treated as a collection of characters) -/
theorem split_text_sep (eqv : α → α → Bool) (isNone : α → Bool) (cs : List α) (h : cs.length ≠ 1)
    (maxsplit : Option Param) (src : List α) :
    splitS eqv isNone (.text cs) maxsplit src = [src] := by
  rw [splitS_eq_pySplit]
  have hf : sepFunc eqv isNone (.text cs) = fun _ => false := by
    match cs, h with
    | [], _ => rfl
    | [_], h => exact absurd rfl h
    | _ :: _ :: _, _ => rfl
  simp only [Sep.isNone, pySplit, Bool.false_eq_true, ↓reduceIte, hf]
  exact pySplitSep_free _ _ _ (fun _ _ => rfl)

/-! ### round 3: which Python OBJECT takes which branch (`callable`, `is_scalar`, `is_collection`) -/

/-- one row of the regenerated table agrees with the facts the model's dispatch uses for that kind -/
def sepRowOk (r : String × Bool × Bool × Bool × Bool) : Bool :=
  match SepKind.ofName? r.1 with
  | some k => r.2.1 == k.facts.callable && r.2.2.1 == k.facts.iterable && r.2.2.2.1 == isScalar k.facts
      && r.2.2.2.2 == isCollection k.facts
  | none => false

/-- SOURCE FACTS, re-established from the current `boltons/iterutils.py` on every run (the table is
    regenerated by evaluating `is_iterable` / `is_scalar` / `is_collection` of the source under test on a
    sample object of every kind): the source answers exactly what the model's dispatch assumes, for every kind
    of the model; and `None` and plain item values are scalars that are not iterable. -/
theorem sep_kind_table_agrees :
    Generated.sepKindTable.all sepRowOk = true ∧
    SepKind.all.all (fun k => Generated.sepKindTable.any (fun r => SepKind.ofName? r.1 == some k)) = true ∧
    Generated.plainTable.all (fun r => r.2 == (false, false, true, false)) = true := by decide

/-- `SepKind.all` really lists every kind -/
theorem sepKind_all_complete (k : SepKind) : k ∈ SepKind.all := by cases k <;> decide

/-- `is_collection` is the negation of `is_scalar` on everything iterable or not -/
theorem isCollection_eq_not_isScalar (f : ObjFacts) : isCollection f = !isScalar f := by
  cases f with | mk c i s => cases i <;> cases s <;> rfl

/-- EVERY iterable that is not a `str` / `bytes` - list, tuple, set, frozenset, dict, deque, range, bytearray,
    memoryview, generator, one-shot iterator - is a collection of separators (`frozenset(sep)`) -/
theorem sep_object_dispatch (k : SepKind) (vs : List α) (hk : k ≠ .str ∧ k ≠ .bytes) :
    (SepObj.holding k vs).dispatch = .coll vs := by
  cases k <;> first | rfl | exact absurd rfl hk.1 | exact absurd rfl hk.2

/-- the other objects: `None` groups, an item value and a `str` are compared with `==`, a callable is used as
    it is, a `bytes` object equals no item -/
theorem sep_object_dispatch_scalars (v : α) (cs : List α) (f : α → Bool) :
    (SepObj.none : SepObj α).dispatch = .none ∧ (SepObj.item v).dispatch = .value v ∧
    (SepObj.func f).dispatch = .func f ∧ (SepObj.holding .str cs).dispatch = .text cs ∧
    (SepObj.holding .bytes cs).dispatch = .opaque :=
  ⟨rfl, rfl, rfl, rfl, rfl⟩

/-- `split` called with a collection object cuts exactly at the members (item-wise `str.split` with the
    membership test), whatever the container, for every `maxsplit` -/
theorem splitO_collection (eqv : α → α → Bool) (isNone : α → Bool) (k : SepKind) (vs : List α)
    (hk : k ≠ .str ∧ k ≠ .bytes) (maxsplit : Option Param) (src : List α) :
    splitO eqv isNone (.holding k vs) maxsplit src =
      pySplitSep (fun x => vs.any (fun v => eqv x v)) ((maxsplit.map Param.toInt).map Int.toNat) src := by
  unfold splitO
  rw [sep_object_dispatch k vs hk, splitS_eq_pySplit]
  rfl

/-- a `bytes` object as separator of an item sequence splits nothing -/
theorem splitO_bytes (eqv : α → α → Bool) (isNone : α → Bool) (bs : List α) (maxsplit : Option Param)
    (src : List α) : splitO eqv isNone (.holding .bytes bs) maxsplit src = [src] := by
  unfold splitO
  rw [splitS_eq_pySplit]
  exact pySplitSep_free _ _ _ (fun _ _ => rfl)

example : (SepKind.bytearray ≠ .str ∧ SepKind.bytearray ≠ .bytes) ∧
    splitO (fun x y => x == y) (fun x => x == 0) (.holding .bytearray [61, 59]) none [1, 61, 2, 59, 3] =
      [[1], [2], [3]] := by decide
example : splitO (fun x y => x == y) (fun x => x == 0) (.holding .bytes [61]) none [1, 61, 2] = [[1, 61, 2]] := by
  decide

example : splitS (fun x y => x == y) (fun x => x == 0) (.text [1, 2]) none [1, 2, 1, 2] = [[1, 2, 1, 2]] := by decide
example : splitS (fun x y => x == y) (fun x => x == 0) (.coll [1, 2]) (some (.halves 3)) [1, 3, 2, 4, 1] =
    [[], [3, 2, 4, 1]] := by decide

/-! ## lstrip / rstrip / strip -/

theorem lstrip_eq_pyLstrip (p : α → Bool) (src : List α) : lstrip p src = pyLstrip p src :=
  lstrip_eq p src

theorem rstrip_eq_pyRstrip (p : α → Bool) (src : List α) : rstrip p src = pyRstrip p src :=
  rstrip_eq p src

/-- `strip` agrees with `str.strip` item-wise (`p` = "equals strip_value") -/
theorem strip_eq_pyStrip (p : α → Bool) (src : List α) : strip p src = pyStrip p src :=
  strip_eq p src

/-- the stripped list is the input minus a maximal all-`p` prefix and suffix -/
theorem strip_decomp (p : α → Bool) (src : List α) :
    ∃ pre suf, src = pre ++ strip p src ++ suf ∧ (∀ x ∈ pre, p x = true) ∧ (∀ x ∈ suf, p x = true) ∧
      (∀ x, (strip p src).head? = some x → p x = false) ∧
      (∀ x, (strip p src).getLast? = some x → p x = false) := by
  rw [strip_eq_pyStrip]
  exact pyStrip_decomp p src

example : strip (fun x => x == 0) [0, 0, 1, 0, 2, 0] = [1, 0, 2] := by decide
example : rstrip (fun x => x == 0) [0, 1, 0, 0] = [0, 1] := by decide
example : lstrip (fun x => x == 0) [0, 0] = [] := by decide

/-! ## unique -/
section
variable [DecidableEq κ]

/-- `unique` keeps exactly the first occurrence of each key, in input order: it is a sublist of the
    input, no key is kept twice, every key of the input is kept, and each kept item is the first
    item of the input with its key -/
theorem unique_first_occurrences (f : α → κ) (src : List α) :
    (unique f src).Sublist src ∧
    ((unique f src).map f).Nodup ∧
    (∀ x ∈ src, f x ∈ (unique f src).map f) ∧
    (∀ y ∈ unique f src, src.find? (fun x => decide (f x = f y)) = some y) := by
  refine ⟨uniqueLoop_sublist f src [], uniqueLoop_nodup f src [], ?_, uniqueLoop_first f src []⟩
  intro x hx
  rcases uniqueLoop_covers f src [] x hx with h | h
  · simp at h
  · exact h

example : unique (fun x => x % 3) [4, 1, 5, 7, 2, 3] = [4, 5, 3] := by decide

/-- the `key` argument as passed: `None` keys an item by itself, a callable is used as it is, an attribute
    name keys by the attribute and falls back on the item itself when the attribute is missing -/
theorem key_dispatch (self : α → κ) (f : α → κ) (g : α → Option κ) (x : α) :
    keyFunc self .none x = self x ∧
    keyFunc self (.func f) x = f x ∧
    (∀ k, g x = some k → keyFunc self (.attr g) x = k) ∧
    (g x = none → keyFunc self (.attr g) x = self x) := by
  refine ⟨rfl, rfl, fun k h => by simp [keyFunc, h], fun h => by simp [keyFunc, h]⟩

/-- ... so with an attribute no item has, `unique` behaves as with no key at all -/
theorem unique_attr_missing (self : α → κ) (g : α → Option κ) (src : List α) (h : ∀ x ∈ src, g x = none) :
    unique (keyFunc self (.attr g)) src = unique self src :=
  uniqueLoop_congr _ _ src [] (fun x hx => by simp [keyFunc, h x hx])

example : unique (keyFunc (fun x => x) (.attr fun x => if x < 3 then some 0 else none)) [1, 2, 5, 5, 6] = [1, 5, 6] := by
  decide
example : ∀ x ∈ [5, 6, 5], (fun x : Nat => if x < 3 then some 0 else none) x = none := by decide

/-! ## round 3b: which Python OBJECT passed as `key` takes which branch of the key dispatch -/

/-- one row of the regenerated table agrees with the branch the model computes for that function and kind.
    Where the model says TypeError the key object is not a valid `key` for that function: the statement
    quantifies over valid parameters, so the source may do anything there (reject it as today, or accept it in a
    later version - `bucketize(src, key=None)` as the identity key, say) and the row is not constrained. -/
def keyRowOk (r : String × String × String) : Bool :=
  match keyBranchOf r.1, KeyKind.ofName? r.2.1 with
  | some br, some k => decide (br k.facts = .typeError) || r.2.2 == (br k.facts).name
  | _, _ => false

/-- SOURCE FACTS, re-established from the current `boltons/iterutils.py` on every run (the table is regenerated
    by calling the live `unique_iter` / `redundant` / `bucketize` with a sample key object of every kind on the
    items 1, 2, 3 and reading off which keys were used): every function takes, for every kind of key object, the
    branch the model's dispatch computes (for the kinds that are valid keys of that function; what the source
    does with an invalid one is left open) - `None` is the identity key for unique / redundant (today a TypeError
    for bucketize); every kind of callable (function, partial, `__call__` instance, bound method, class, and an
    instance whose truth value is False) is called; a str names an attribute; a list is per-item keys for
    bucketize only.  Every (function, kind) pair is in the table, except redundant with a falsy callable while
    that region is a known finding (C09-redundant-falsy-key; the row is back as soon as it is fixed). -/
theorem key_kind_table_agrees :
    Generated.keyKindTable.all keyRowOk = true ∧
    (["unique", "redundant", "bucketize"].all fun fn => KeyKind.all.all fun k =>
      (fn == "redundant" && decide (k = .falsyCallable)) ||
        Generated.keyKindTable.any (fun r => r.1 == fn && KeyKind.ofName? r.2.1 == some k)) = true := by decide

/-- `KeyKind.all` really lists every kind -/
theorem keyKind_all_complete (k : KeyKind) : k ∈ KeyKind.all := by cases k <;> decide

/-- EVERY kind of callable - also one whose truth value is False - is called, by all three functions -/
theorem key_callable_kinds_call (k : KeyKind) (hk : k.facts.callable = true) :
    uniqueKeyBranch k.facts = .call ∧ redundantKeyBranch k.facts = .call ∧ bucketizeKeyBranch k.facts = .call := by
  cases k <;> first | exact ⟨rfl, rfl, rfl⟩ | exact absurd hk (by decide)

/-- no branch depends on the truth value of the key object (the repaired `redundant` asks `key is not None`) -/
theorem key_branch_ignores_truthiness (f : KeyFacts) (b : Bool) :
    uniqueKeyBranch { f with truthy := b } = uniqueKeyBranch f ∧
    redundantKeyBranch { f with truthy := b } = redundantKeyBranch f ∧
    bucketizeKeyBranch { f with truthy := b } = bucketizeKeyBranch f := ⟨rfl, rfl, rfl⟩

/-- the other kinds: `None` is the identity key for unique / redundant but not a key for bucketize, a str names
    an attribute everywhere, a list is per-item keys for bucketize only, anything else is a TypeError -/
theorem key_other_kinds :
    uniqueKeyBranch KeyKind.none.facts = .identity ∧ redundantKeyBranch KeyKind.none.facts = .identity ∧
    bucketizeKeyBranch KeyKind.none.facts = .typeError ∧
    uniqueKeyBranch KeyKind.attrName.facts = .attr ∧ redundantKeyBranch KeyKind.attrName.facts = .attr ∧
    bucketizeKeyBranch KeyKind.attrName.facts = .attr ∧
    uniqueKeyBranch KeyKind.keyList.facts = .typeError ∧ redundantKeyBranch KeyKind.keyList.facts = .typeError ∧
    bucketizeKeyBranch KeyKind.keyList.facts = .perItem ∧
    uniqueKeyBranch KeyKind.number.facts = .typeError ∧ redundantKeyBranch KeyKind.number.facts = .typeError ∧
    bucketizeKeyBranch KeyKind.number.facts = .typeError := by decide

/-- so `redundant` (and `unique`, `bucketize`) with a callable key object of ANY kind is the function applied to
    what the object computes: in particular a falsy callable is not mistaken for "no key" -/
theorem redundant_callable_key (k : KeyKind) (hk : k.facts.callable = true) (self f : α → κ) (g : α → Option κ)
    (src : List α) :
    (keyArgOf (redundantKeyBranch k.facts) f g).map (fun ka => redundant (keyFunc self ka) src)
      = some (redundant f src) ∧
    (keyArgOf (uniqueKeyBranch k.facts) f g).map (fun ka => unique (keyFunc self ka) src)
      = some (unique f src) := by
  obtain ⟨h1, h2, _⟩ := key_callable_kinds_call k hk
  rw [h1, h2]
  exact ⟨rfl, rfl⟩

example : KeyKind.falsyCallable.facts.callable = true ∧ KeyKind.falsyCallable.facts.truthy = false := by decide
example : (keyArgOf (redundantKeyBranch KeyKind.falsyCallable.facts) (fun x : Nat => x % 2) (fun _ => none)).map
    (fun ka => redundant (keyFunc (fun x => x) ka) [1, 3, 2]) = some [3] := by decide

/-! ## redundant -/

/-- `redundant` reports exactly the keys seen more than once, each once -/
theorem redundant_iff_seen_twice (f : α → κ) (src : List α) (k : κ) :
    k ∈ (redundant f src).map f ↔ 2 ≤ src.countP (fun x => decide (f x = k)) :=
  redundant_keys_iff f src k

theorem redundant_keys_nodup (f : α → κ) (src : List α) : ((redundant f src).map f).Nodup :=
  redundant_nodup f src

/-- the item reported for a key is its second occurrence -/
theorem redundant_reports_second (f : α → κ) (src : List α) :
    ∀ y ∈ redundant f src, (src.filter (fun x => decide (f x = f y)))[1]? = some y :=
  redundant_second f src

/-- with `groups=True`: one group per key seen more than once, holding all items with that key in
    input order -/
theorem redundant_groups_eq (f : α → κ) (src : List α) :
    (∀ g ∈ redundantGroups f src, ∃ k, g = src.filter (fun x => decide (f x = k)) ∧ 2 ≤ g.length) ∧
    (∀ k, 2 ≤ src.countP (fun x => decide (f x = k)) →
      src.filter (fun x => decide (f x = k)) ∈ redundantGroups f src) :=
  redundantGroups_spec f src

/-- order of the report: the keys seen more than once, by the position of their second occurrence
    (`laterKeys` = keys of the non-first items in input order); with `groups=True` the output is
    completely determined -/
theorem redundant_order (f : α → κ) (src : List α) :
    (redundant f src).map f = unique id (laterKeys f [] src) ∧
    redundantGroups f src =
      (unique id (laterKeys f [] src)).map (fun k => src.filter (fun x => decide (f x = k))) :=
  ⟨redundant_map_order f src, redundantGroups_eq_map f src⟩

example : redundant (fun x => x % 3) [1, 2, 3, 4, 5, 7] = [4, 5] := by decide
example : laterKeys (fun x => x % 3) [] [1, 2, 3, 4, 5, 7] = [1, 2, 1] := by decide
example : redundantGroups (fun x => x % 3) [1, 2, 3, 4, 5, 7] = [[1, 4, 7], [2, 5]] := by decide

/-! ## bucketize / partition -/

/-- `bucketize` places every item (whose key passes the filter) in exactly one bucket, in input
    order: bucket keys are distinct, the bucket of `k` is the (transformed) items with key `k` in
    input order, a bucket exists exactly for the passing keys that occur, and the bucket sizes add up
    to the number of items with a passing key -/
theorem bucketize_partition_of_input (f : α → κ) (g : α → β) (kf : κ → Bool) (src : List α) :
    (keysOf (bucketize f g kf src)).Nodup ∧
    (∀ e ∈ bucketize f g kf src,
        e.2 = (src.filter (fun x => decide (f x = e.1))).map g ∧ e.2 ≠ [] ∧ kf e.1 = true) ∧
    (∀ x ∈ src, kf (f x) = true → ∃ e ∈ bucketize f g kf src, e.1 = f x) ∧
    sumLens (bucketize f g kf src) = (src.filter (fun x => kf (f x))).length :=
  bucketize_spec f g kf src

/-- the buckets appear (dict order) in the order in which their keys first occur -/
theorem bucketize_keys_order (f : α → κ) (g : α → β) (kf : κ → Bool) (src : List α) :
    keysOf (bucketize f g kf src) = unique id ((src.map f).filter kf) :=
  bucketize_keys f g kf src

/-- hence the returned dict is completely determined -/
theorem bucketize_eq_spec (f : α → κ) (g : α → β) (kf : κ → Bool) (src : List α) :
    bucketize f g kf src =
      (unique id ((src.map f).filter kf)).map
        (fun k => (k, (src.filter (fun x => decide (f x = k))).map g)) :=
  bucketize_eq_map f g kf src

/-- `key=<list>`: item `i` goes to the bucket named by `keys[i]`; a length mismatch is a ValueError -/
theorem bucketize_key_list (keys : List κ) (g : α → β) (kf : κ → Bool) (src : List α) :
    (keys.length = src.length →
      bucketizeKeyList keys g kf src =
        .ok (bucketize (fun (p : κ × α) => p.1) (fun p => g p.2) kf (keys.zip src))) ∧
    (keys.length ≠ src.length → bucketizeKeyList keys g kf src = .error .valueError) := by
  refine ⟨fun h => by simp [bucketizeKeyList, h], fun h => by simp [bucketizeKeyList, h]⟩

/-- `partition` = the two filters (`t` / `fl` = the keys equal to True / False) -/
theorem partition_eq_filters (f : α → κ) (t fl : κ) (src : List α) :
    partition f t fl src =
      (src.filter (fun x => decide (f x = t)), src.filter (fun x => decide (f x = fl))) :=
  partition_spec f t fl src

/-- for a boolean key every item lands in exactly one of the two lists -/
theorem partition_boolean (f : α → κ) (t fl : κ) (hne : t ≠ fl) (src : List α)
    (hb : ∀ x ∈ src, f x = t ∨ f x = fl) :
    ((partition f t fl src).1 ++ (partition f t fl src).2).Perm src ∧
    (partition f t fl src).1.Sublist src ∧ (partition f t fl src).2.Sublist src :=
  partition_bool_spec f t fl hne src hb

example : bucketize (fun x => x % 3) (fun x => x * x) (fun k => k != 1) [1, 2, 3, 4, 5, 6] =
    [(2, [4, 25]), (0, [9, 36])] := by decide
example : partition (fun x => x % 2) 1 0 [1, 2, 3, 4, 5] = ([1, 3, 5], [2, 4]) := by decide
example : ∀ x ∈ [1, 2, 3, 4, 5], x % 2 = 1 ∨ x % 2 = 0 := by decide

end

/-! ## chunk_ranges
Valid parameters: `0 < chunk_size`, `overlap_size < chunk_size`, everything non-negative
(`chunkRanges_valid` ties the validated integer interface to `chunkRangesNat`). -/

theorem chunkRanges_valid (size cs off ov : Nat) (align : Bool) (hcs : 0 < cs) (hov : ov < cs) :
    chunkRanges size cs off ov align = .ok (chunkRangesNat size cs off ov align) := by
  have h1 : ¬ ((size : Int) < 0 ∨ (cs : Int) ≤ 0 ∨ (off : Int) < 0 ∨ (ov : Int) < 0) := by omega
  have h2 : ¬ ((cs : Int) ≤ ov) := by omega
  simp only [chunkRanges, h1, h2, ↓reduceIte, Int.toNat_natCast]

/-- negative parameters and a zero chunk size are rejected (ValueError) -/
theorem chunkRanges_invalid (size cs off ov : Int) (align : Bool)
    (h : size < 0 ∨ cs ≤ 0 ∨ off < 0 ∨ ov < 0) :
    chunkRanges size cs off ov align = .error .valueError := by
  simp [chunkRanges, h]

/-- ranges are non-empty, no longer than `chunk_size`, and inside `[offset, offset + size)` -/
theorem chunk_ranges_len_le (size cs off ov : Nat) (align : Bool) (hsz : 0 < size) (hov : ov < cs) :
    ∀ r ∈ chunkRangesNat size cs off ov align,
      r.1 < r.2 ∧ r.2 - r.1 ≤ cs ∧ off ≤ r.1 ∧ r.2 ≤ off + size := by
  intro r hr
  have := (chunkRangesNat_ok size cs off ov align hsz hov).each r hr
  omega

/-- the first range starts at `input_offset` -/
theorem chunk_ranges_first_start (size cs off ov : Nat) (align : Bool) (hsz : 0 < size) (hov : ov < cs) :
    (chunkRangesNat size cs off ov align).head?.map (·.1) = some off :=
  (chunkRangesNat_ok size cs off ov align hsz hov).head

/-- the last range ends at `input_offset + input_size` -/
theorem chunk_ranges_last_end (size cs off ov : Nat) (align : Bool) (hsz : 0 < size) (hov : ov < cs) :
    (chunkRangesNat size cs off ov align).getLast?.map (·.2) = some (off + size) :=
  (chunkRangesNat_ok size cs off ov align hsz hov).last

/-- each range begins exactly `overlap_size` before the previous end -/
theorem chunk_ranges_overlap (size cs off ov : Nat) (align : Bool) (hsz : 0 < size) (hov : ov < cs) :
    ∀ ab ∈ (chunkRangesNat size cs off ov align).zip (chunkRangesNat size cs off ov align).tail,
      ab.2.1 + ov = ab.1.2 :=
  (chunkRangesNat_ok size cs off ov align hsz hov).chain

/-- with `align=True` every range after the first starts on a multiple of `chunk_size - overlap_size` -/
theorem chunk_ranges_aligned (size cs off ov : Nat) (hsz : 0 < size) (hov : ov < cs) :
    ∀ r ∈ (chunkRangesNat size cs off ov true).tail, r.1 % (cs - ov) = 0 :=
  (chunkRangesNat_ok size cs off ov true hsz hov).aligned rfl

/-- every index of `[offset, offset + size)` lies in some range -/
theorem chunk_ranges_cover (size cs off ov : Nat) (align : Bool) (hsz : 0 < size) (hov : ov < cs) :
    ∀ j, off ≤ j → j < off + size → ∃ r ∈ chunkRangesNat size cs off ov align, r.1 ≤ j ∧ j < r.2 :=
  (chunkRangesNat_ok size cs off ov align hsz hov).cover

/-- an empty input yields nothing, or the single empty range `(offset, offset)` when `align=True` -/
theorem chunk_ranges_empty_input (cs off ov : Nat) (align : Bool) (hov : ov < cs) :
    chunkRangesNat 0 cs off ov align = if align then [(off, off)] else [] :=
  chunkRangesNat_zero cs off ov align hov

/-- every range except the last is exactly `chunk_size` long (with `align=True`: except the first,
    which is `chunk_size - offset % step` long, and the last) and ends before the stop: no range is
    redundant -/
theorem chunk_ranges_full_except_last (size cs off ov : Nat) (align : Bool) (hsz : 0 < size) (hov : ov < cs) :
    (∀ r ∈ (chunkRangesNat size cs off ov align).dropLast, r.2 < off + size) ∧
    (∀ r ∈ (if align then (chunkRangesNat size cs off ov align).tail
            else chunkRangesNat size cs off ov align).dropLast, r.2 = r.1 + cs) ∧
    (align = true → (chunkRangesNat size cs off ov align).head? =
        some (off, min (off + (cs - off % (cs - ov))) (off + size))) :=
  chunkRangesNat_full size cs off ov align hsz hov

/-- without `align` the laws determine the output: ANY non-empty list of ranges that starts at the offset,
    steps back by exactly the overlap, has full-length ranges ending before the stop except for a last
    one of length 1..chunk_size ending at the stop, IS what `chunk_ranges` yields -/
theorem chunk_ranges_unique (size cs off ov : Nat) (hov : ov < cs) (out : List (Nat × Nat))
    (hne : out ≠ [])
    (hhead : out.head?.map (·.1) = some off)
    (hchain : ∀ ab ∈ out.zip out.tail, ab.2.1 + ov = ab.1.2)
    (hfull : ∀ r ∈ out.dropLast, r.2 = r.1 + cs ∧ r.2 < off + size)
    (hlast : out.getLast?.map (·.2) = some (off + size))
    (hlastlen : ∀ r, out.getLast? = some r → r.1 < r.2 ∧ r.2 ≤ r.1 + cs) :
    out = chunkRangesNat size cs off ov false := by
  have h := crLoop_unique (off + size) cs ov hov out off size
    { ne := hne, head := hhead, chain := hchain, full := hfull, last := hlast, lastlen := hlastlen }
    (by omega)
  simpa [chunkRangesNat] using h

/-- round 3: with `align=True` too the laws determine the output, once "on aligned boundaries" is spelled out:
    the first range is cut at the first boundary (it ends at most `chunk_size - offset % step` after the offset),
    every later range starts on a multiple of the step, the second one on the FIRST multiple after the offset;
    all ranges but the first and the last are full and end before the stop.  ANY such list IS what
    `chunk_ranges(..., align=True)` yields. -/
theorem chunk_ranges_unique_aligned (size cs off ov : Nat) (hov : ov < cs) (out : List (Nat × Nat))
    (hne : out ≠ [])
    (hhead : out.head?.map (·.1) = some off)
    (hchain : ∀ ab ∈ out.zip out.tail, ab.2.1 + ov = ab.1.2)
    (haligned : ∀ r ∈ out.tail, r.1 % (cs - ov) = 0)
    (hsecond : ∀ r, out.tail.head? = some r → off < r.1 ∧ r.1 ≤ off + (cs - ov))
    (hfirst : ∀ r, out.head? = some r → r.2 ≤ off + (cs - off % (cs - ov)) ∧ (out.tail ≠ [] → r.2 < off + size))
    (hfull : ∀ r ∈ out.tail.dropLast, r.2 = r.1 + cs ∧ r.2 < off + size)
    (hlast : out.getLast?.map (·.2) = some (off + size))
    (hlastlen : ∀ r, out.getLast? = some r → r.1 < r.2 ∧ r.2 ≤ r.1 + cs) :
    out = chunkRangesNat size cs off ov true :=
  chunkRangesNat_unique_aligned size cs off ov hov out hne hhead hchain haligned hsecond hfirst hfull hlast hlastlen

/-- non-vacuity: the docstring example meets every hypothesis -/
example : [(3, 5), (4, 9), (8, 13), (12, 17), (16, 18)] = chunkRangesNat 15 5 3 1 true :=
  chunk_ranges_unique_aligned 15 5 3 1 (by decide) _ (by decide) (by decide) (by decide) (by decide)
    (by simp) (by simp) (by decide) (by decide) (by simp)

/-! ## default values (round 3) -/

/-- SOURCE FACTS, re-established on every run from the live signatures: every default value the model assumes
    for an argument left out is the default of the current source (more optional parameters may exist) -/
theorem defaults_table_agrees :
    modelDefaults.all (fun d => Generated.defaultsTable.contains d) = true := by decide

/-! ## numeric arguments as passed: `int(value)`, `_validate_positive_int` -/

/-- `int()` of a float truncates toward zero (`h` halves: `int(h/2)`) -/
theorem pyInt_trunc (h : Int) :
    (0 ≤ h → 2 * (Param.halves h).toInt ≤ h ∧ h < 2 * (Param.halves h).toInt + 2) ∧
    (h ≤ 0 → h ≤ 2 * (Param.halves h).toInt ∧ 2 * (Param.halves h).toInt - 2 < h) := by
  rw [toInt_halves]
  split <;> constructor <;> intro _ <;> omega

/-- `_validate_positive_int` accepts exactly the arguments whose `int()` is positive (non-negative when
    not strict) and returns that int; everything else is a ValueError -/
theorem validatePositiveInt_spec (p : Param) (strict : Bool) :
    (validatePositiveInt p strict = .ok p.toInt ↔ (if strict then 0 < p.toInt else 0 ≤ p.toInt)) ∧
    (validatePositiveInt p strict = .error .valueError ↔ ¬ (if strict then 0 < p.toInt else 0 ≤ p.toInt)) := by
  unfold validatePositiveInt
  cases strict <;> by_cases h : p.toInt < 0 <;> by_cases h0 : p.toInt = 0 <;> simp [h, h0] <;> omega

/-- `chunked` / `chunked_iter` as called behave as on `int(size)`; a float `count` is rejected by
    `islice` (ValueError), ints and bools count as themselves -/
theorem chunkedP_eq (size : Param) (fill : Option α) (src : List α) :
    chunkedIterP size fill src = chunkedIter size.toInt fill src ∧
    chunkedP size none fill src = chunked size.toInt none fill src ∧
    (∀ cp c, cp.index? = some c → chunkedP size (some cp) fill src = chunked size.toInt (some c) fill src) ∧
    (∀ cp, cp.index? = none → chunkedP size (some cp) fill src = .error .valueError) := by
  refine ⟨chunkedIterP_eq size fill src, chunkedP_none size fill src,
    fun cp c hc => chunkedP_some size cp c hc fill src, fun cp hc => by simp [chunkedP, hc]⟩

/-- hence the chunk laws hold for every accepted size argument (`3`, `3.0`, `3.5`, `True`, ...) -/
theorem chunked_param_concat (size : Param) (hs : 0 < size.toInt) (src : List α) :
    ∃ out, chunkedP size none none src = .ok out ∧ out.flatten = src ∧
      (∀ c ∈ out.dropLast, c.length = size.toInt.toNat) ∧
      (∀ c ∈ out, 1 ≤ c.length ∧ c.length ≤ size.toInt.toNat) := by
  obtain ⟨out, h1, h2⟩ := chunked_concat hs src
  obtain ⟨out', h1', h3, h4⟩ := chunked_sizes hs src
  rw [h1] at h1'
  cases h1'
  exact ⟨out, by rw [chunkedP_none]; exact h1, h2, h3, h4⟩

/-- `windowed` as called: `itertools.tee` takes an int or a bool and raises TypeError for a float -/
theorem windowedP_eq (size : Param) (fill : Option α) (src : List α) :
    (∀ n, size.index? = some n → windowedP size fill src = windowed n fill src) ∧
    (size.index? = none → windowedP size fill src = .error .typeError) := by
  refine ⟨fun n h => by simp [windowedP, h], fun h => by simp [windowedP, h]⟩

/-- `chunk_ranges` as called behaves as on the `int()` of its four numbers -/
theorem chunkRangesP_eq (size cs off ov : Param) (align : Bool) :
    chunkRangesP size cs off ov align = chunkRanges size.toInt cs.toInt off.toInt ov.toInt align :=
  chunkRangesP_eq' size cs off ov align

example : (Param.halves 5).toInt = 2 ∧ (Param.halves (-1)).toInt = 0 ∧ (Param.halves (-5)).toInt = -2 ∧
    (Param.bool true).toInt = 1 := by decide
example : chunkedP (.halves 5) none none [0, 1, 2, 3, 4] = .ok [[0, 1], [2, 3], [4]] := by rfl
example : chunkedP (.int 2) (some (.halves 2)) none [0, 1, 2] = .error .valueError := by rfl
example : chunkedP (.halves 1) none none [0, 1, 2] = .error .valueError := by rfl
example : windowedP (.bool true) none [5, 6] = .ok [[5], [6]] ∧
    windowedP (.halves 4) none [5, 6] = .error .typeError := ⟨by rfl, by rfl⟩
example : chunkRangesP (.halves 21) (.int 4) (.bool true) (.halves (-1)) false = .ok [(1, 5), (5, 9), (9, 11)] := by
  rfl
example : [(10, 15), (13, 18), (16, 20)] = chunkRangesNat 10 5 10 2 false := by decide

example : chunkRangesNat 15 5 3 1 true = [(3, 5), (4, 9), (8, 13), (12, 17), (16, 18)] := by decide
example : chunkRangesNat 10 5 10 2 false = [(10, 15), (13, 18), (16, 20)] := by decide
example : (0 : Nat) < 15 ∧ 1 < 5 := by decide

end C09
