import BoltonsVerif.C09.SplitProofs
/-
C09 helper lemmas: the item-wise `str.split` with a `maxsplit` is pinned down completely
(piece count, separator-free pieces, join inverse => uniqueness; whitespace mode: first `m` words
+ the verbatim remainder).
-/
namespace C09
variable {α : Type}

theorem pySplitSep_free (p : α → Bool) (ms : Option Nat) (src : List α) (h : ∀ x ∈ src, p x = false) :
    pySplitSep p ms src = [src] := by
  induction src with
  | nil => simp [pySplitSep]
  | cons x xs ih =>
    rw [pySplitSep_cons, ih (fun y hy => h y (List.mem_cons_of_mem _ hy))]
    have hx : p x = false := h x (by simp)
    simp [hx, consHead]

theorem pySplitSep_zero (p : α → Bool) (src : List α) : pySplitSep p (some 0) src = [src] := by
  induction src with
  | nil => simp [pySplitSep]
  | cons x xs ih => rw [pySplitSep_cons, ih]; simp [consHead]

/-- the number of cuts made: all separators, or at most `m` of them -/
def cuts (ms : Option Nat) (c : Nat) : Nat :=
  match ms with
  | none => c
  | some m => min c m

theorem dropLast_cons_ne {a : List α} {l : List (List α)} (h : l ≠ []) :
    (a :: l).dropLast = a :: l.dropLast := by
  cases l with
  | nil => exact absurd rfl h
  | cons b l => rfl

theorem pySplitSep_pieces (p : α → Bool) (ms : Option Nat) (src : List α) :
    (pySplitSep p ms src).length = cuts ms (src.countP p) + 1 ∧
    ∀ g ∈ (pySplitSep p ms src).dropLast, ∀ x ∈ g, p x = false := by
  induction src generalizing ms with
  | nil => cases ms <;> simp [pySplitSep, cuts]
  | cons x xs ih =>
    rw [pySplitSep_cons]
    by_cases hc : (p x && ms != some 0) = true
    · rw [if_pos hc]
      simp only [Bool.and_eq_true, bne_iff_ne, ne_eq] at hc
      obtain ⟨ih1, ih2⟩ := ih (ms.map Nat.pred)
      have hne := pySplitSep_ne_nil p (ms.map Nat.pred) xs
      refine ⟨?_, ?_⟩
      · simp only [List.length_cons, ih1, List.countP_cons, hc.1, if_true]
        cases ms with
        | none => simp [cuts]
        | some m =>
          have : m ≠ 0 := by intro h0; exact hc.2 (by rw [h0])
          simp only [cuts, Option.map_some, Nat.pred_eq_sub_one]
          omega
      · intro g hg
        rw [dropLast_cons_ne hne] at hg
        simp only [List.mem_cons] at hg
        rcases hg with rfl | hg
        · simp
        · exact ih2 g hg
    · rw [if_neg hc]
      obtain ⟨ih1, ih2⟩ := ih ms
      have hne := pySplitSep_ne_nil p ms xs
      refine ⟨?_, ?_⟩
      · rw [consHead_length hne, ih1]
        by_cases hp : p x = true
        · -- a separator that is not cut: no split left
          have hms : ms = some 0 := by
            cases hm : (ms != some 0) with
            | true => simp [hp, hm] at hc
            | false => simpa using hm
          subst hms
          simp [cuts]
        · simp [hp]
      · intro g hg
        cases hr : pySplitSep p ms xs with
        | nil => exact absurd hr hne
        | cons g0 gs =>
          rw [hr] at hg ih2
          cases gs with
          | nil => simp [consHead] at hg
          | cons g1 gs' =>
            simp only [consHead] at hg
            rw [dropLast_cons_ne (by simp)] at hg ih2
            simp only [List.mem_cons] at hg
            rcases hg with rfl | hg
            · intro y hy
              simp only [List.cons_append, List.nil_append, List.mem_cons] at hy
              rcases hy with rfl | hy
              · -- x itself: it is no separator, or else no split would be left and there is one piece only
                by_cases hp : p y = true
                · have hms : ms = some 0 := by
                    cases hm : (ms != some 0) with
                    | true => simp [hp, hm] at hc
                    | false => simpa using hm
                  subst hms
                  rw [pySplitSep_zero] at hr
                  simp at hr
                · simpa using hp
              · exact ih2 g0 (by simp) y hy
            · exact ih2 g (by simp [hg])

theorem pySplitSep_append_free (p : α → Bool) (ms : Option Nat) (g : List α) (s : α) (tl : List α)
    (hg : ∀ x ∈ g, p x = false) (hs : p s = true) (hms : ms ≠ some 0) :
    pySplitSep p ms (g ++ s :: tl) = g :: pySplitSep p (ms.map Nat.pred) tl := by
  induction g with
  | nil =>
    rw [List.nil_append, pySplitSep_cons]
    have : (ms != some 0) = true := by simpa using hms
    simp [hs, this]
  | cons y ys ih =>
    rw [List.cons_append, pySplitSep_cons, ih (fun x hx => hg x (List.mem_cons_of_mem _ hx))]
    have hy : p y = false := hg y (by simp)
    simp [hy, consHead]

theorem pySplitSep_enough (p : α → Bool) (m : Nat) (src : List α) (h : src.countP p ≤ m) :
    pySplitSep p (some m) src = pySplitSep p none src := by
  induction src generalizing m with
  | nil => simp [pySplitSep]
  | cons x xs ih =>
    rw [pySplitSep_cons, pySplitSep_cons]
    by_cases hp : p x = true
    · have hm : m ≠ 0 := by
        intro h0
        simp [hp, h0] at h
      have h1 : ((some m : Option Nat) != some 0) = true := by simpa using hm
      have h2 : ((none : Option Nat) != some 0) = true := by decide
      simp only [hp, h1, h2, Bool.and_self, ↓reduceIte, Option.map_some, Option.map_none]
      have hh : List.countP p xs + 1 ≤ m := by simpa [List.countP_cons, hp] using h
      rw [ih m.pred (by simp only [Nat.pred_eq_sub_one]; omega)]
    · have hp' : p x = false := by simpa using hp
      simp only [hp', Bool.false_and, Bool.false_eq_true, ↓reduceIte]
      rw [ih m (by simpa [List.countP_cons, hp'] using h)]

theorem pySplitSep_unique_core [DecidableEq α] (s : α) : ∀ (out : List (List α)) (src : List α), out ≠ [] →
    [s].intercalate out = src → (∀ g ∈ out.dropLast, ∀ x ∈ g, x ≠ s) →
    out = pySplitSep (fun x => decide (x = s)) (some (out.length - 1)) src := by
  intro out
  induction out with
  | nil => intro src h; exact absurd rfl h
  | cons g rest ih =>
    intro src _ hj hfree
    cases rest with
    | nil =>
      have : src = g := by simpa [List.intercalate] using hj.symm
      subst this
      simp [pySplitSep_zero]
    | cons g2 rest' =>
      rw [intercalate_cons_cons] at hj
      rw [dropLast_cons_ne (by simp)] at hfree
      have hg : ∀ x ∈ g, (fun x => decide (x = s)) x = false := by
        intro x hx
        simpa using hfree g (by simp) x hx
      have hI := ih ([s].intercalate (g2 :: rest')) (by simp) rfl
        (fun g' hg' => hfree g' (List.mem_cons_of_mem _ hg'))
      subst hj
      have hlen : (g :: g2 :: rest').length - 1 = rest'.length + 1 := by simp
      rw [hlen]
      have := pySplitSep_append_free (fun x => decide (x = s)) (some (rest'.length + 1)) g s
        ([s].intercalate (g2 :: rest')) hg (by simp) (by simp)
      have hI' : g2 :: rest' =
          pySplitSep (fun x => decide (x = s)) (some rest'.length) ([s].intercalate (g2 :: rest')) := by
        simpa using hI
      simp only [List.append_assoc, List.cons_append, List.nil_append]
      rw [this]
      simp only [Option.map_some, Nat.pred_eq_sub_one, Nat.add_sub_cancel]
      rw [← hI']

/-! ### whitespace mode without a limit = separator mode with the empty pieces dropped -/

def nonEmpty (g : List α) : Bool := !g.isEmpty

theorem ws_eq_filter_sep (p : α → Bool) : ∀ (xs : List α),
    pySplitWs p none xs = (pySplitSep p none xs).filter nonEmpty ∧
    (∀ cur : List α, cur ≠ [] →
      (cur ++ xs.takeWhile (notp p)) :: pySplitWs p none (xs.dropWhile (notp p)) =
        (consHead cur (pySplitSep p none xs)).filter nonEmpty) := by
  intro xs
  induction xs with
  | nil =>
    refine ⟨by simp [pySplitWs_nil, pySplitSep, nonEmpty], ?_⟩
    intro cur hc
    have : cur.isEmpty = false := by cases cur <;> simp_all
    simp [pySplitWs_nil, pySplitSep, consHead, nonEmpty, this]
  | cons x xs ih =>
    obtain ⟨iha, ihb⟩ := ih
    have hn : ((none : Option Nat) != some 0) = true := by decide
    by_cases hp : p x = true
    · have hS : pySplitSep p none (x :: xs) = [] :: pySplitSep p none xs := by
        rw [pySplitSep_cons]; simp [hp, hn]
      refine ⟨?_, ?_⟩
      · rw [pySplitWs_skip p none x xs hp, hS, iha]
        simp [nonEmpty]
      · intro cur hc
        have hce : cur.isEmpty = false := by cases cur <;> simp_all
        rw [hS]
        simp only [consHead, List.append_nil]
        rw [List.takeWhile_cons, List.dropWhile_cons]
        simp only [notp, hp, Bool.not_true, Bool.false_eq_true, ↓reduceIte, List.append_nil]
        rw [pySplitWs_skip p none x xs hp, iha]
        simp [nonEmpty, hce]
    · have hp' : p x = false := by simpa using hp
      have hS : pySplitSep p none (x :: xs) = consHead [x] (pySplitSep p none xs) := by
        rw [pySplitSep_cons]; simp [hp']
      refine ⟨?_, ?_⟩
      · rw [pySplitWs_word p none x xs hp' (by decide), hS, ← ihb [x] (by simp)]
        simp
      · intro cur hc
        rw [hS, consHead_consHead, ← ihb (cur ++ [x]) (by simp)]
        rw [List.takeWhile_cons, List.dropWhile_cons]
        simp [notp, hp']

/-! ### whitespace mode with a limit -/

theorem pySplitWs_none_flatten (p : α → Bool) (xs : List α) :
    (pySplitWs p none xs).flatten = xs.filter (notp p) :=
  (wsLoop_none_pieces p xs.length xs (Nat.le_refl _)).2

theorem pySplitWs_limit (p : α → Bool) : ∀ (n : Nat) (xs : List α), xs.length ≤ n → ∀ (m : Nat),
    ((pySplitWs p none xs).length ≤ m → pySplitWs p (some m) xs = pySplitWs p none xs) ∧
    (m < (pySplitWs p none xs).length → ∃ rest,
        pySplitWs p (some m) xs = (pySplitWs p none xs).take m ++ [rest] ∧
        rest <:+ xs ∧ (∃ y ys, rest = y :: ys ∧ p y = false) ∧
        rest.filter (notp p) = ((pySplitWs p none xs).drop m).flatten) := by
  intro n
  induction n with
  | zero =>
    intro xs h m
    have : xs = [] := List.length_eq_zero_iff.mp (by omega)
    subst this
    simp [pySplitWs_nil]
  | succ n ih =>
    intro xs hlen m
    by_cases he : (xs.dropWhile p).isEmpty = true
    · have h1 : ∀ b, pySplitWs p b xs = [] := by intro b; rw [pySplitWs_eq]; simp [he]
      simp [h1]
    · have he' : (xs.dropWhile p).isEmpty = false := by simpa using he
      have hlt := ws_rest_lt p xs he'
      have hW : pySplitWs p none xs =
          (xs.dropWhile p).takeWhile (notp p) :: pySplitWs p none ((xs.dropWhile p).dropWhile (notp p)) := by
        rw [pySplitWs_eq p none xs]
        have hb : ((none : Option Nat) == some 0) = false := by decide
        simp [he', hb]
      obtain ⟨y, ys, hd, hy⟩ : ∃ y ys, xs.dropWhile p = y :: ys ∧ p y = false := by
        cases hd : xs.dropWhile p with
        | nil => simp [hd] at he'
        | cons y ys =>
          have := List.head_dropWhile_not p (l := xs) (by simp [hd])
          exact ⟨y, ys, rfl, by simpa [hd] using this⟩
      cases m with
      | zero =>
        have hR : pySplitWs p (some 0) xs = [xs.dropWhile p] := by
          rw [pySplitWs_eq]; simp [he']
        refine ⟨fun h => by rw [hW] at h; simp at h, fun _ => ⟨xs.dropWhile p, ?_, ?_, ⟨y, ys, hd, hy⟩, ?_⟩⟩
        · simp [hR]
        · exact List.dropWhile_suffix p
        · rw [List.drop_zero, pySplitWs_none_flatten, filter_notp_dropWhile]
      | succ k =>
        have hR : pySplitWs p (some (k + 1)) xs =
            (xs.dropWhile p).takeWhile (notp p) ::
              pySplitWs p (some k) ((xs.dropWhile p).dropWhile (notp p)) := by
          rw [pySplitWs_eq p (some (k + 1)) xs]
          simp [he']
        obtain ⟨ih1, ih2⟩ := ih ((xs.dropWhile p).dropWhile (notp p)) (by omega) k
        rw [hW, hR]
        refine ⟨fun h => ?_, fun h => ?_⟩
        · rw [ih1 (by simpa using h)]
        · obtain ⟨rest, h1, h2, h3, h4⟩ := ih2 (by simpa using h)
          refine ⟨rest, ?_, ?_, h3, ?_⟩
          · rw [h1]; simp
          · exact List.IsSuffix.trans h2
              (List.IsSuffix.trans (List.dropWhile_suffix (notp p)) (List.dropWhile_suffix p))
          · simpa using h4

end C09
