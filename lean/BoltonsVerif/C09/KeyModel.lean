import BoltonsVerif.C09.Model
/-
C09 (round 3b) — which Python OBJECT passed as `key` takes which branch of the key dispatch of
`unique_iter`, `redundant` and `bucketize` (so far the harness decided it).  The three functions ask
different questions in a different order:

  unique_iter   key is None → identity | callable(key) → call | isinstance(key, str) → getattr(x, key, x)
                | else TypeError
  redundant     key is None → identity | callable(key) → call | isinstance(key, (str, bytes)) → getattr
                | else TypeError;   inside the loop  `key_func(i) if key is not None else i`
                (after fix 132e770; the unrepaired code tests the TRUTH VALUE of key there: known finding
                C09-redundant-falsy-key)
  bucketize     isinstance(key, list) → zip(key, src), per-item keys | isinstance(key, str) → getattr
                | callable(key) → call | else TypeError     (`None` is not accepted: the default is `bool`)

Core Lean only.
-/
namespace C09

/-- what the dispatches ask about the `key` object -/
structure KeyFacts where
  isNone : Bool       -- `key is None`
  callable : Bool     -- `callable(key)`
  isStr : Bool        -- `isinstance(key, str)`
  isList : Bool       -- `isinstance(key, list)`
  truthy : Bool       -- `bool(key)` (what the unrepaired `redundant` asks; no branch of the model depends on it)
deriving Repr, DecidableEq

/-- the kinds of Python object a caller may pass as `key` -/
inductive KeyKind where
  | none            -- `None`
  | function        -- a plain function / lambda / builtin
  | partialFn       -- a `functools.partialFn`
  | callableObject  -- an instance with `__call__`
  | boundMethod     -- a bound method
  | cls             -- a class (calling it constructs the key)
  | falsyCallable   -- an instance with `__call__` whose truth value is False (`__bool__` / `__len__`)
  | attrName        -- a `str`: the name of an attribute
  | keyList         -- a `list` of per-item keys (bucketize only)
  | number          -- any other object (an int): not a key
deriving Repr, DecidableEq

def KeyKind.all : List KeyKind :=
  [.none, .function, .partialFn, .callableObject, .boundMethod, .cls, .falsyCallable, .attrName, .keyList, .number]

/-- the names the harness / the generated table use -/
def KeyKind.ofName? (s : String) : Option KeyKind :=
  if s = "none" then some .none else if s = "lambda" then some .function
  else if s = "partial" then some .partialFn else if s = "object" then some .callableObject
  else if s = "method" then some .boundMethod else if s = "class" then some .cls
  else if s = "falsy" then some .falsyCallable else if s = "str" then some .attrName
  else if s = "list" then some .keyList else if s = "int" then some .number else none

/-- CPython's answers for an object of each kind -/
def KeyKind.facts : KeyKind → KeyFacts
  | .none => ⟨true, false, false, false, false⟩
  | .function => ⟨false, true, false, false, true⟩
  | .partialFn => ⟨false, true, false, false, true⟩
  | .callableObject => ⟨false, true, false, false, true⟩
  | .boundMethod => ⟨false, true, false, false, true⟩
  | .cls => ⟨false, true, false, false, true⟩
  | .falsyCallable => ⟨false, true, false, false, false⟩
  | .attrName => ⟨false, false, true, false, true⟩
  | .keyList => ⟨false, false, false, true, true⟩
  | .number => ⟨false, false, false, false, true⟩

/-- the branch a key object takes -/
inductive KeyBranch where
  | identity     -- the item is its own key
  | call         -- `key(x)`
  | attr         -- `getattr(x, key, x)`
  | perItem      -- `zip(key, src)`: the i-th element of `key` is the key of the i-th item
  | typeError
deriving Repr, DecidableEq

def KeyBranch.name : KeyBranch → String
  | .identity => "identity" | .call => "call" | .attr => "attr" | .perItem => "perItem" | .typeError => "typeError"

/-- `unique_iter` -/
def uniqueKeyBranch (f : KeyFacts) : KeyBranch :=
  if f.isNone then .identity else if f.callable then .call else if f.isStr then .attr else .typeError

/-- `redundant` (repaired: the loop asks `key is not None`, not the truth value) -/
def redundantKeyBranch (f : KeyFacts) : KeyBranch :=
  if f.isNone then .identity else if f.callable then .call else if f.isStr then .attr else .typeError

/-- `bucketize` -/
def bucketizeKeyBranch (f : KeyFacts) : KeyBranch :=
  if f.isList then .perItem else if f.isStr then .attr else if f.callable then .call else .typeError

/-- the function names of the generated table -/
def keyBranchOf (fn : String) : Option (KeyFacts → KeyBranch) :=
  if fn = "unique" then some uniqueKeyBranch
  else if fn = "redundant" then some redundantKeyBranch
  else if fn = "bucketize" then some bucketizeKeyBranch
  else none

/-- the `key` argument the model functions take, from the object kind and what the object computes
    (`f` for a callable, `g` for an attribute name); `none` = the call raises TypeError or is the per-item form -/
def keyArgOf {α κ : Type} (b : KeyBranch) (f : α → κ) (g : α → Option κ) : Option (KeyArg α κ) :=
  match b with
  | .identity => some .none
  | .call => some (.func f)
  | .attr => some (.attr g)
  | .perItem => none
  | .typeError => none

end C09
