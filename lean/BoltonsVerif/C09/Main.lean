import BoltonsVerif.C09.Driver
def main : IO Unit := BV.mainLoop C09.Driver.handle
