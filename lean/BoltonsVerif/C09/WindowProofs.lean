import BoltonsVerif.C09.Model
/-
C09 helper lemmas: windowed / pairwise (tee + staggered advance + zip / zip_longest).
-/
namespace C09
variable {α : Type}

theorem tees_succ (n : Nat) (src : List α) : tees (n + 1) src = src :: tees n src.tail := by
  unfold tees
  rw [List.range_succ_eq_map]
  simp [List.map_map, Function.comp_def]

theorem heads_tees : ∀ (n : Nat) (src : List α),
    heads? (tees n src) = if n ≤ src.length then some (src.take n) else none := by
  intro n
  induction n with
  | zero => intro src; simp [tees, heads?]
  | succ n ih =>
    intro src
    rw [tees_succ]
    cases src with
    | nil => simp [heads?]
    | cons x xs =>
      simp only [heads?, List.tail_cons, ih, List.length_cons, Nat.add_le_add_iff_right]
      split <;> simp

theorem tails_tees (n : Nat) (src : List α) : tails (tees n src) = tees n src.tail := by
  unfold tails tees
  simp [List.map_map, Function.comp_def]

theorem zipLoop_tees (n : Nat) (hn : 0 < n) :
    ∀ (fuel : Nat) (src : List α), src.length ≤ fuel → zipLoop fuel (tees n src) = slices n src := by
  intro fuel
  induction fuel with
  | zero =>
    intro src h
    have : src = [] := List.length_eq_zero_iff.mp (by omega)
    subst this
    have : 0 + 1 - n = 0 := by omega
    simp [zipLoop, slices, this]
  | succ m ih =>
    intro src h
    unfold zipLoop
    rw [heads_tees]
    by_cases hle : n ≤ src.length
    · simp only [hle, ↓reduceIte, tails_tees]
      cases src with
      | nil => simp at hle; omega
      | cons x xs =>
        simp only [List.tail_cons]
        rw [ih xs (by simpa using h)]
        unfold slices
        simp only [List.length_cons] at hle ⊢
        have : xs.length + 1 + 1 - n = (xs.length + 1 - n) + 1 := by omega
        rw [this, List.range_succ_eq_map]
        simp [List.map_map, Function.comp_def]
    · have : src.length + 1 - n = 0 := by omega
      simp [hle, slices, this]

theorem headsFill_tees (f : α) : ∀ (n : Nat) (src : List α),
    (tees n src).map (fun t => t.headD f) = src.take n ++ List.replicate (n - src.length) f := by
  intro n
  induction n with
  | zero => intro src; simp [tees]
  | succ n ih =>
    intro src
    rw [tees_succ]
    cases src with
    | nil =>
      have h := ih []
      simp at h
      simp [h, List.replicate_succ]
    | cons x xs =>
      have h := ih xs
      simp at h
      simp [h]

theorem tees_all_isEmpty (n : Nat) (hn : 0 < n) (src : List α) :
    (tees n src).all List.isEmpty = src.isEmpty := by
  obtain ⟨m, rfl⟩ : ∃ m, n = m + 1 := ⟨n - 1, by omega⟩
  rw [tees_succ]
  cases src with
  | nil => simp [tees]
  | cons x xs => simp

theorem zipLongestLoop_tees (f : α) (n : Nat) (hn : 0 < n) :
    ∀ (fuel : Nat) (src : List α), src.length ≤ fuel →
      zipLongestLoop f fuel (tees n src) = paddedSlices n f src := by
  intro fuel
  induction fuel with
  | zero =>
    intro src h
    have : src = [] := List.length_eq_zero_iff.mp (by omega)
    subst this
    simp [zipLongestLoop, paddedSlices]
  | succ m ih =>
    intro src h
    unfold zipLongestLoop
    rw [tees_all_isEmpty n hn, headsFill_tees, tails_tees]
    cases src with
    | nil => simp [paddedSlices]
    | cons x xs =>
      simp only [List.isEmpty_cons, Bool.false_eq_true, ↓reduceIte, List.tail_cons]
      rw [ih xs (by simpa using h)]
      unfold paddedSlices
      simp only [List.length_cons]
      rw [List.range_succ_eq_map]
      simp [List.map_map, Function.comp_def]

end C09
