/-
C09 — model of the chunking / windowing / splitting / grouping helpers of
`boltons/iterutils.py` (after the two `fix:` commits on `split_iter`).

Conventions (DESIGN 3.2):
  * a generator is the list it yields; the `*_iter` forms and the list-returning
    forms are therefore the same function here (the harness checks on the real
    code that they yield the same items);
  * an input iterable (list, tuple, one-shot iterator, str, bytes) is the list of
    its items; the str/bytes post-processing of `chunked` (`''.join`, `bytes`) is
    the identity on lists of items;
  * `x == sep`, `x in frozenset(sep)`, a callable separator and `x == strip_value`
    are all a predicate `p : α → Bool` (built in `Driver.lean`);
  * `key` callables / attribute names are a function `f : α → κ` into a type with
    decidable equality (`κ` = class of `==`-equal, equal-hash Python objects);
  * dicts are association lists in insertion order, sets are lists;
  * `while`/`zip` loops take an explicit fuel argument; the theorems show that the
    fuel handed over by the top-level functions suffices.
Core Lean only.
-/
namespace C09

/-- exception classes the modelled functions raise on invalid parameters -/
inductive Err where
  | valueError
  | outside        -- parameters outside the modelled domain (never sent by the harness)
  | typeError      -- a float where C code wants an index (`itertools.tee(src, 2.0)`)
deriving Repr, DecidableEq

variable {α : Type} {β : Type} {κ : Type}

/-! ## numeric arguments: `int(value)` and `_validate_positive_int` -/

/-- a numeric argument as a caller may pass it: an `int`, a `float` given in halves
    (`halves 5` = 2.5, `halves 4` = 2.0, `halves (-1)` = -0.5), or a `bool` -/
inductive Param where
  | int (i : Int)
  | halves (h : Int)
  | bool (b : Bool)
deriving Repr, DecidableEq

/-- `int(value)`: a float is truncated toward zero, `True` / `False` are 1 / 0 -/
def Param.toInt : Param → Int
  | .int i => i
  | .halves h => Int.tdiv h 2
  | .bool b => if b then 1 else 0

/-- what C code that wants an index (`islice` stop, `tee` n) sees: ints and bools pass, floats do not -/
def Param.index? : Param → Option Int
  | .int i => some i
  | .halves _ => none
  | .bool b => some (if b then 1 else 0)

/-- `_validate_positive_int(value, name, strictly_positive)`:
    `value = int(value); if value < 0 or (strictly_positive and value == 0): raise ValueError` -/
def validatePositiveInt (p : Param) (strict : Bool) : Except Err Int :=
  if p.toInt < 0 ∨ (strict = true ∧ p.toInt = 0) then .error .valueError else .ok p.toInt

/-! ## chunked / chunked_iter -/

/-- `cur_chunk[lc:] = [fill_val] * (size - lc)` when a fill value was given -/
def padTo (size : Nat) (fill : Option α) (c : List α) : List α :=
  match fill with
  | none => c
  | some f => c ++ List.replicate (size - c.length) f

/-- the `while True:` loop of `chunked_iter`; one unit of fuel per iteration -/
def chunkLoop (size : Nat) (fill : Option α) : Nat → List α → List (List α)
  | 0, _ => []
  | fuel + 1, src =>
    if (src.take size).isEmpty then []
    else padTo size fill (src.take size) :: chunkLoop size fill fuel (src.drop size)

/-- `list(chunked_iter(src, size[, fill=…]))` -/
def chunkedIter (size : Int) (fill : Option α) (src : List α) : Except Err (List (List α)) :=
  if size ≤ 0 then .error .valueError
  else .ok (chunkLoop size.toNat fill src.length src)

/-- `chunked(src, size, count[, fill=…])`: `islice(chunked_iter(…), count)`.  `islice` rejects a
    negative count at once and with `count == 0` never starts the generator. -/
def chunked (size : Int) (count : Option Int) (fill : Option α) (src : List α) :
    Except Err (List (List α)) :=
  match count with
  | none => chunkedIter size fill src
  | some c =>
    if c < 0 then .error .valueError
    else if c = 0 then .ok []
    else (chunkedIter size fill src).map (fun l => l.take c.toNat)

/-- `chunked_iter` as called: `size` is whatever the caller passed; it goes through
    `_validate_positive_int` (so `2.0`, `2.5` and `True` are accepted sizes) -/
def chunkedIterP (size : Param) (fill : Option α) (src : List α) : Except Err (List (List α)) :=
  match validatePositiveInt size true with
  | .error e => .error e
  | .ok s => .ok (chunkLoop s.toNat fill src.length src)

/-- `chunked` as called: `count` goes straight to `itertools.islice`, which takes ints and bools
    but rejects a float at once (ValueError), before the generator is ever started -/
def chunkedP (size : Param) (count : Option Param) (fill : Option α) (src : List α) :
    Except Err (List (List α)) :=
  match count with
  | none => chunkedIterP size fill src
  | some cp =>
    match cp.index? with
    | none => .error .valueError
    | some c =>
      if c < 0 then .error .valueError
      else if c = 0 then .ok []
      else (chunkedIterP size fill src).map (fun l => l.take c.toNat)

/-! ### the type of the chunks: `isinstance(src, (str, bytes))` post-processing -/

/-- what `chunked_iter` asks about its input: is it a `str`, a `bytes`, or any other iterable -/
inductive SrcKind where
  | str | bytes | other
deriving Repr, DecidableEq

/-- the type of every chunk: `''.join(chunk)` for a str input, `bytes(chunk)` for a bytes input, otherwise the
    list itself (a bytearray / memoryview / tuple / deque … input gives lists) -/
inductive ChunkKind where
  | str | bytes | list
deriving Repr, DecidableEq

def chunkKind : SrcKind → ChunkKind
  | .str => .str
  | .bytes => .bytes
  | .other => .list

/-- the name the harness / the generated table use for an input kind -/
def SrcKind.ofName (s : String) : SrcKind :=
  if s = "str" then .str else if s = "bytes" then .bytes else .other

def ChunkKind.name : ChunkKind → String
  | .str => "str" | .bytes => "bytes" | .list => "list"

/-- `chunked` as called on an input of kind `k`: the chunks (as item lists) and their type -/
def chunkedK (k : SrcKind) (size : Param) (count : Option Param) (fill : Option α) (src : List α) :
    Except Err (ChunkKind × List (List α)) :=
  (chunkedP size count fill src).map (fun l => (chunkKind k, l))

/-! ## windowed / windowed_iter / pairwise -/

/-- `itertools.tee(src, size)` after the staggered advance: tee `i` has lost `i` items -/
def tees (size : Nat) (src : List α) : List (List α) :=
  (List.range size).map (fun i => src.drop i)

/-- one round of `zip`: the next item of every iterator, `none` as soon as one is exhausted -/
def heads? : List (List α) → Option (List α)
  | [] => some []
  | [] :: _ => none
  | (x :: _) :: ts => (heads? ts).map (fun hs => x :: hs)

def tails (ts : List (List α)) : List (List α) := ts.map List.tail

def zipLoop : Nat → List (List α) → List (List α)
  | 0, _ => []
  | fuel + 1, ts =>
    match heads? ts with
    | none => []
    | some hs => hs :: zipLoop fuel (tails ts)

/-- `zip(*ts)`; with no iterators at all `zip()` is empty -/
def zipStar (fuel : Nat) (ts : List (List α)) : List (List α) :=
  if ts.isEmpty then [] else zipLoop fuel ts

/-- `zip_longest(*ts, fillvalue=fill)` -/
def zipLongestLoop (fill : α) : Nat → List (List α) → List (List α)
  | 0, _ => []
  | fuel + 1, ts =>
    if ts.all List.isEmpty then []
    else ts.map (fun t => t.headD fill) :: zipLongestLoop fill fuel (tails ts)

/-- `list(windowed_iter(src, size, fill))`; `fill = none` is the `_UNSET` sentinel.
    `tee` rejects a negative count. Without fill, an advance that runs off the end
    (`src` shorter than `size - 1`) returns the empty `zip([])`. -/
def windowed (size : Int) (fill : Option α) (src : List α) : Except Err (List (List α)) :=
  if size < 0 then .error .valueError
  else match fill with
    | none =>
      if src.length + 1 < size.toNat then .ok []
      else .ok (zipStar src.length (tees size.toNat src))
    | some f => .ok (zipLongestLoop f src.length (tees size.toNat src))

/-- `pairwise(src, end)` = `windowed(src, 2, fill=end)` -/
def pairwise (fill : Option α) (src : List α) : Except Err (List (List α)) :=
  windowed 2 fill src

/-- `windowed` as called: `size` goes straight to `itertools.tee`, which takes ints and bools and
    raises TypeError for a float -/
def windowedP (size : Param) (fill : Option α) (src : List α) : Except Err (List (List α)) :=
  match size.index? with
  | none => .error .typeError
  | some n => windowed n fill src

/-! ## split / split_iter -/

/-- `maxsplit is not None and split_count >= maxsplit` -/
def limitReached (ms : Option Nat) (cnt : Nat) : Bool :=
  match ms with
  | none => false
  | some m => decide (m ≤ cnt)

/-- whether `sep_func` is (now) the constant-False function: it was replaced before, or the
    limit is reached and (`cur_group` is non-empty or `sep is not None`) -/
def freeze (grouping : Bool) (ms : Option Nat) (cur : List α) (cnt : Nat) (frozen : Bool) : Bool :=
  frozen || (limitReached ms cnt && (!cur.isEmpty || !grouping))

/-- the `for s in src:` loop of `split_iter` followed by the final `yield`.
    `grouping` = `sep is None`; state: `cur_group`, `split_count`, and whether `sep_func`
    has been replaced by the constant-False function. -/
def splitLoop (p : α → Bool) (grouping : Bool) (ms : Option Nat) :
    List α → List α → Nat → Bool → List (List α)
  | [], cur, _, _ => if !cur.isEmpty || !grouping then [cur] else []
  | s :: rest, cur, cnt, frozen =>
    if !freeze grouping ms cur cnt frozen && p s then
      if grouping && cur.isEmpty then
        splitLoop p grouping ms rest cur cnt (freeze grouping ms cur cnt frozen)
      else
        cur :: splitLoop p grouping ms rest [] (cnt + 1) (freeze grouping ms cur cnt frozen)
    else
      splitLoop p grouping ms rest (cur ++ [s]) cnt (freeze grouping ms cur cnt frozen)

/-- `split(src, sep, maxsplit)`: `p` is the separator test, `grouping` = `sep is None`,
    `maxsplit = none` is "no limit"; a negative limit behaves like 0 (`split_count >= maxsplit`
    holds from the start). -/
def split (p : α → Bool) (grouping : Bool) (maxsplit : Option Int) (src : List α) : List (List α) :=
  splitLoop p grouping (maxsplit.map Int.toNat) src [] 0 false

/-- the `sep` argument of `split_iter`, by the branch of the dispatch it takes -/
inductive Sep (α : Type) where
  | none                     -- `sep=None`: grouping mode, `sep_func = lambda x: x == None`
  | value (v : α)            -- a scalar that is not iterable: `x == sep`
  | text (cs : List α)       -- a str / bytes separator: iterable but `is_scalar`, so again `x == sep`
  | coll (vs : List α)       -- any other iterable: `x in frozenset(sep)`
  | func (f : α → Bool)      -- a callable is used as it is
  | opaque                   -- an object taken as a scalar that is `==` to no item (a `bytes` separator)

def Sep.isNone : Sep α → Bool
  | .none => true
  | _ => false

/-- `sep_func`.  `eqv` is Python's `==` on items, `isNone x` is `x == None`.  A one-character string is
    `==` to that character item of a str input; a longer (or empty) string is `==` to no item. -/
def sepFunc (eqv : α → α → Bool) (isNone : α → Bool) : Sep α → α → Bool
  | .none => isNone
  | .value v => fun x => eqv x v
  | .text [c] => fun x => eqv x c
  | .text _ => fun _ => false
  | .coll vs => fun x => vs.any (fun v => eqv x v)
  | .func f => f
  | .opaque => fun _ => false

/-! ### which Python object takes which branch of the dispatch: `callable(sep)`, `is_scalar(sep)` -/

/-- what the dispatch of `split_iter` asks about the `sep` object -/
structure ObjFacts where
  callable : Bool       -- `callable(sep)`
  iterable : Bool       -- `is_iterable(sep)`: `iter(sep)` does not raise TypeError
  stringlike : Bool     -- `isinstance(sep, (str, bytes))`
deriving Repr, DecidableEq

/-- `is_scalar(obj)`: `not is_iterable(obj) or isinstance(obj, (str, bytes))` -/
def isScalar (f : ObjFacts) : Bool := !f.iterable || f.stringlike

/-- `is_collection(obj)`: `is_iterable(obj) and not isinstance(obj, (str, bytes))` -/
def isCollection (f : ObjFacts) : Bool := f.iterable && !f.stringlike

/-- the kinds of Python object a caller may pass as `sep` (beside `None`, one item value and a callable):
    strings and every other iterable holding items -/
inductive SepKind where
  | str | bytes
  | list | tuple | set | frozenset | dictKeys | deque | range | bytearray | memoryview | generator | iterator
deriving Repr, DecidableEq

/-- the name the harness / the generated table use for a kind -/
def SepKind.ofName? (s : String) : Option SepKind :=
  if s = "str" then some .str else if s = "bytes" then some .bytes
  else if s = "list" then some .list else if s = "tuple" then some .tuple
  else if s = "set" then some .set else if s = "frozenset" then some .frozenset
  else if s = "dict" then some .dictKeys else if s = "deque" then some .deque
  else if s = "range" then some .range else if s = "bytearray" then some .bytearray
  else if s = "memoryview" then some .memoryview else if s = "gen" then some .generator
  else if s = "iter" then some .iterator else none

def SepKind.all : List SepKind :=
  [.str, .bytes, .list, .tuple, .set, .frozenset, .dictKeys, .deque, .range, .bytearray, .memoryview,
   .generator, .iterator]

/-- the facts about an object of each kind (CPython: all of them are iterable, none is callable; only
    `str` and `bytes` are instances of `(str, bytes)`) -/
def SepKind.facts : SepKind → ObjFacts
  | .str => ⟨false, true, true⟩
  | .bytes => ⟨false, true, true⟩
  | _ => ⟨false, true, false⟩

/-- the `sep` argument as the Python object the caller passes -/
inductive SepObj (α : Type) where
  | none                                   -- `None`
  | item (v : α)                           -- a non-iterable, non-callable object (an item value)
  | func (f : α → Bool)                    -- a callable
  | holding (k : SepKind) (vs : List α)    -- a str / bytes / iterable whose elements are `vs`

/-- the branch of `split_iter`'s dispatch the object takes:
    `callable(sep)` → used as it is; `not is_scalar(sep)` → `frozenset(sep)` membership; else `x == sep`.
    A `str` is `==` to a character item only if it is that one character (`Sep.text`); a `bytes` object is
    `==` to no item (iterating bytes gives ints). -/
def SepObj.dispatch : SepObj α → Sep α
  | .none => .none
  | .item v => .value v
  | .func f => .func f
  | .holding k vs =>
    if k.facts.callable then .opaque          -- (no such kind)
    else if !isScalar k.facts then .coll vs
    else match k with
      | .str => .text vs
      | _ => .opaque

/-- `split(src, sep, maxsplit)` as called: separator dispatch and `maxsplit = int(maxsplit)` included -/
def splitS (eqv : α → α → Bool) (isNone : α → Bool) (sep : Sep α) (maxsplit : Option Param)
    (src : List α) : List (List α) :=
  split (sepFunc eqv isNone sep) sep.isNone (maxsplit.map Param.toInt) src

/-- the same with the separator given as the Python object -/
def splitO (eqv : α → α → Bool) (isNone : α → Bool) (sep : SepObj α) (maxsplit : Option Param)
    (src : List α) : List (List α) :=
  splitS eqv isNone sep.dispatch maxsplit src

/-! ## lstrip / rstrip / strip -/

/-- `lstrip_iter`: skip while the item equals `strip_value`, then yield everything -/
def lstrip (p : α → Bool) : List α → List α
  | [] => []
  | x :: xs => if p x then lstrip p xs else x :: xs

/-- `rstrip_iter`: items equal to `strip_value` are held back in `cache`; the cache is
    flushed when a different item follows and dropped at the end of the input -/
def rstripLoop (p : α → Bool) : List α → List α → List α
  | [], _ => []
  | x :: xs, cache =>
    if p x then rstripLoop p xs (cache ++ [x])
    else cache ++ x :: rstripLoop p xs []

def rstrip (p : α → Bool) (src : List α) : List α := rstripLoop p src []

/-- `strip_iter` = `rstrip_iter(lstrip_iter(…))` -/
def strip (p : α → Bool) (src : List α) : List α := rstrip p (lstrip p src)

/-! ## unique / unique_iter -/

variable [DecidableEq κ]

/-- the loop of `unique_iter`; `seen` is the set of keys already yielded -/
def uniqueLoop (f : α → κ) : List α → List κ → List α
  | [], _ => []
  | x :: xs, seen =>
    if f x ∈ seen then uniqueLoop f xs seen
    else x :: uniqueLoop f xs (f x :: seen)

def unique (f : α → κ) (src : List α) : List α := uniqueLoop f src []

/-- the `key` argument of `unique` / `redundant` / `bucketize`, by the branch of the dispatch it takes -/
inductive KeyArg (α κ : Type) where
  | none                          -- `key=None`: the item itself is the key
  | func (f : α → κ)              -- a callable is used as it is
  | attr (get? : α → Option κ)    -- an attribute name: `getattr(x, name, x)` (`get? x = none`: no such attribute)

/-- `key_func`; `self x` is the item `x` seen as a key (its `==` class) -/
def keyFunc (self : α → κ) : KeyArg α κ → α → κ
  | .none => self
  | .func f => f
  | .attr g => fun x => (g x).getD (self x)

/-! ## association lists (insertion-ordered dicts) -/

def lookup (k : κ) : List (κ × β) → Option β
  | [] => none
  | (k', v) :: rest => if k' = k then some v else lookup k rest

/-- `d[k].append(v)` for a key that is present -/
def appendAt (k : κ) (v : β) : List (κ × List β) → List (κ × List β)
  | [] => []
  | (k', vs) :: rest => if k' = k then (k', vs ++ [v]) :: rest else (k', vs) :: appendAt k v rest

/-- `d.setdefault(k, []).append(v)` -/
def setdefaultAppend (k : κ) (v : β) : List (κ × List β) → List (κ × List β)
  | [] => [(k, [v])]
  | (k', vs) :: rest =>
    if k' = k then (k', vs ++ [v]) :: rest else (k', vs) :: setdefaultAppend k v rest

/-! ## redundant -/

/-- the loop of `redundant`: `seen` maps a key to its first item; `rg` is
    `redundant_groups` listed in `redundant_order` (both are extended together) -/
def redLoop (f : α → κ) (groups : Bool) :
    List α → List (κ × α) → List (κ × List α) → List (κ × List α)
  | [], _, rg => rg
  | i :: src, seen, rg =>
    match lookup (f i) seen with
    | none => redLoop f groups src (seen ++ [(f i, i)]) rg
    | some first =>
      if (lookup (f i) rg).isSome then
        (if groups then redLoop f groups src seen (appendAt (f i) i rg)
         else redLoop f groups src seen rg)
      else redLoop f groups src seen (rg ++ [(f i, [first, i])])

/-- `redundant(src, key, groups=True)` -/
def redundantGroups (f : α → κ) (src : List α) : List (List α) :=
  (redLoop f true src [] []).map (fun e => e.2)

/-- `redundant(src, key)`: `redundant_groups[k][1]` for every key in `redundant_order` -/
def redundant (f : α → κ) (src : List α) : List α :=
  (redLoop f false src [] []).filterMap (fun e => e.2[1]?)

/-! ## bucketize / partition -/

/-- the loop of `bucketize`: `f` = key function, `g` = value transform, `kf` = key filter
    (constant true when `key_filter is None`) -/
def bucketLoop (f : α → κ) (g : α → β) (kf : κ → Bool) :
    List α → List (κ × List β) → List (κ × List β)
  | [], ret => ret
  | x :: xs, ret =>
    if kf (f x) then bucketLoop f g kf xs (setdefaultAppend (f x) (g x) ret)
    else bucketLoop f g kf xs ret

def bucketize (f : α → κ) (g : α → β) (kf : κ → Bool) (src : List α) : List (κ × List β) :=
  bucketLoop f g kf src []

/-- `bucketize(src, key=list)`: `src = zip(key, src)`, key = first component, value = `g` of the
    second; a length mismatch raises ValueError -/
def bucketizeKeyList (keys : List κ) (g : α → β) (kf : κ → Bool) (src : List α) :
    Except Err (List (κ × List β)) :=
  if keys.length ≠ src.length then .error .valueError
  else .ok (bucketize (fun (p : κ × α) => p.1) (fun p => g p.2) kf (keys.zip src))

/-- `partition(src, key)`: `(bucketized.get(True, []), bucketized.get(False, []))`;
    `t`/`fl` are the keys equal to `True` / `False` -/
def partition (f : α → κ) (t fl : κ) (src : List α) : List α × List α :=
  ((lookup t (bucketize f id (fun _ => true) src)).getD [],
   (lookup fl (bucketize f id (fun _ => true) src)).getD [])

/-! ## chunk_ranges -/

/-- `for i in range(i, stop, step): yield (i, min(i + cs, stop)); if i + cs >= stop: return` -/
def crLoop (stop cs step : Nat) : Nat → Nat → List (Nat × Nat)
  | 0, _ => []
  | fuel + 1, i =>
    if i < stop then
      (i, min (i + cs) stop) ::
        (if stop ≤ i + cs then [] else crLoop stop cs step fuel (i + step))
    else []

/-- `chunk_ranges` on validated parameters (`0 < cs`, `ov < cs`) -/
def chunkRangesNat (size cs off ov : Nat) (align : Bool) : List (Nat × Nat) :=
  if align && decide (cs - off % (cs - ov) ≠ ov) then
    (off, min (off + (cs - off % (cs - ov))) (off + size)) ::
      (if off + size ≤ off + (cs - off % (cs - ov)) then []
       else crLoop (off + size) cs (cs - ov) size (off + (cs - off % (cs - ov)) - ov))
  else crLoop (off + size) cs (cs - ov) size off

/-- `list(chunk_ranges(input_size, chunk_size, input_offset, overlap_size, align))`.
    `overlap_size >= chunk_size` (zero / negative step) is outside the model. -/
def chunkRanges (size cs off ov : Int) (align : Bool) : Except Err (List (Nat × Nat)) :=
  if size < 0 ∨ cs ≤ 0 ∨ off < 0 ∨ ov < 0 then .error .valueError
  else if cs ≤ ov then .error .outside
  else .ok (chunkRangesNat size.toNat cs.toNat off.toNat ov.toNat align)

/-- `chunk_ranges` as called: every numeric argument goes through `_validate_positive_int`
    (`chunk_size` strictly positive, the others non-negative) -/
def chunkRangesP (size cs off ov : Param) (align : Bool) : Except Err (List (Nat × Nat)) :=
  match validatePositiveInt size false, validatePositiveInt cs true,
        validatePositiveInt off false, validatePositiveInt ov false with
  | .ok s, .ok c, .ok o, .ok v =>
    if c ≤ v then .error .outside
    else .ok (chunkRangesNat s.toNat c.toNat o.toNat v.toNat align)
  | _, _, _, _ => .error .valueError

/-! ## default values of the optional parameters -/

/-- (function, parameter, default) the model's entry points assume when a caller leaves the argument out:
    `count=None` is "no limit", `fill`/`end` unset is `fill = none`, `sep=None` is `Sep.none` (grouping),
    `maxsplit=None` is "no limit", `strip_value=None` strips `None` items, `key=None` is the identity key,
    `key=bool` for bucketize / partition, no value transform, no key filter, `groups=False`,
    `input_offset=0`, `overlap_size=0`, `align=False` -/
def modelDefaults : List (String × String × String) := [
  ("chunked", "count", "None"),
  ("chunk_ranges", "input_offset", "0"), ("chunk_ranges", "overlap_size", "0"), ("chunk_ranges", "align", "False"),
  ("windowed", "fill", "_UNSET"), ("windowed_iter", "fill", "_UNSET"),
  ("pairwise", "end", "_UNSET"), ("pairwise_iter", "end", "_UNSET"),
  ("split", "sep", "None"), ("split", "maxsplit", "None"),
  ("split_iter", "sep", "None"), ("split_iter", "maxsplit", "None"),
  ("lstrip", "strip_value", "None"), ("lstrip_iter", "strip_value", "None"),
  ("rstrip", "strip_value", "None"), ("rstrip_iter", "strip_value", "None"),
  ("strip", "strip_value", "None"), ("strip_iter", "strip_value", "None"),
  ("unique", "key", "None"), ("unique_iter", "key", "None"),
  ("redundant", "key", "None"), ("redundant", "groups", "False"),
  ("bucketize", "key", "bool"), ("bucketize", "value_transform", "None"), ("bucketize", "key_filter", "None"),
  ("partition", "key", "bool")]

/-! ## specifications: `str.split` / `str.strip` on lists of items -/

/-- `str.split(sep, maxsplit)` with an explicit separator, item-wise: cut at the first
    `maxsplit` separators (all of them for `none`) -/
def pySplitSep (p : α → Bool) : Option Nat → List α → List (List α)
  | _, [] => [[]]
  | ms, x :: xs =>
    if p x && ms != some 0 then [] :: pySplitSep p (ms.map Nat.pred) xs
    else match pySplitSep p ms xs with
      | g :: gs => (x :: g) :: gs
      | [] => [[x]]

def notp (p : α → Bool) (x : α) : Bool := !p x

/-- `str.split(None, maxsplit)` (CPython `split_whitespace`): skip separators; stop at the end;
    when no split is left the rest is one piece verbatim; otherwise cut one word and go on -/
def pySplitWsLoop (p : α → Bool) : Nat → Option Nat → List α → List (List α)
  | 0, _, _ => []
  | fuel + 1, ms, xs =>
    if (xs.dropWhile p).isEmpty then []
    else if ms == some 0 then [xs.dropWhile p]
    else (xs.dropWhile p).takeWhile (notp p) ::
      pySplitWsLoop p fuel (ms.map Nat.pred) ((xs.dropWhile p).dropWhile (notp p))

def pySplitWs (p : α → Bool) (ms : Option Nat) (xs : List α) : List (List α) :=
  pySplitWsLoop p xs.length ms xs

/-- `str.split` item-wise: whitespace mode when `grouping` -/
def pySplit (p : α → Bool) (grouping : Bool) (ms : Option Nat) (xs : List α) : List (List α) :=
  if grouping then pySplitWs p ms xs else pySplitSep p ms xs

/-- the contiguous length-`size` slices of `src`, in order (`src[i:i+size]` for every `i` with a full slice) -/
def slices (size : Nat) (src : List α) : List (List α) :=
  (List.range (src.length + 1 - size)).map (fun i => (src.drop i).take size)

/-- one window per item, `src[i:i+size]` padded with `f` to length `size` -/
def paddedSlices (size : Nat) (f : α) (src : List α) : List (List α) :=
  (List.range src.length).map
    (fun i => (src.drop i).take size ++ List.replicate (size - (src.length - i)) f)

/-- the keys of the items that are not the first item with their key, in input order
    (`seen` = keys met so far) -/
def laterKeys [DecidableEq κ] (f : α → κ) : List κ → List α → List κ
  | _, [] => []
  | seen, x :: xs =>
    if f x ∈ seen then f x :: laterKeys f seen xs else laterKeys f (f x :: seen) xs

def pyLstrip (p : α → Bool) (xs : List α) : List α := xs.dropWhile p
def pyRstrip (p : α → Bool) (xs : List α) : List α := (xs.reverse.dropWhile p).reverse
def pyStrip (p : α → Bool) (xs : List α) : List α := pyRstrip p (pyLstrip p xs)

end C09
