import BoltonsVerif.C09.Model
/-
C09 helper lemmas: lstrip / rstrip / strip refine the item-wise `str.lstrip/rstrip/strip`.
-/
namespace C09
variable {α : Type}

theorem lstrip_eq (p : α → Bool) (xs : List α) : lstrip p xs = pyLstrip p xs := by
  unfold pyLstrip
  induction xs with
  | nil => simp [lstrip]
  | cons x xs ih =>
    rw [lstrip, List.dropWhile_cons]
    split <;> simp_all

theorem dropWhile_all (p : α → Bool) (l : List α) (h : ∀ c ∈ l, p c = true) : l.dropWhile p = [] := by
  induction l with
  | nil => rfl
  | cons x xs ih =>
    rw [List.dropWhile_cons_of_pos (h x (by simp))]
    exact ih (fun c hc => h c (by simp [hc]))

theorem pyRstrip_all (p : α → Bool) (l : List α) (h : ∀ c ∈ l, p c = true) : pyRstrip p l = [] := by
  unfold pyRstrip
  rw [dropWhile_all p l.reverse (fun c hc => h c (by simpa using hc))]
  rfl

theorem pyRstrip_append_of_not (p : α → Bool) (l : List α) (x : α) (xs : List α) (hx : p x = false) :
    pyRstrip p (l ++ x :: xs) = l ++ x :: pyRstrip p xs := by
  unfold pyRstrip
  have : (l ++ x :: xs).reverse = xs.reverse ++ (x :: l.reverse) := by simp
  rw [this, List.dropWhile_append]
  split
  · rename_i h
    have h' : List.dropWhile p xs.reverse = [] := by simpa using h
    simp [List.dropWhile_cons, hx, h']
  · simp

theorem rstripLoop_eq (p : α → Bool) : ∀ (xs cache : List α), (∀ c ∈ cache, p c = true) →
    rstripLoop p xs cache = pyRstrip p (cache ++ xs) := by
  intro xs
  induction xs with
  | nil => intro cache h; simp [rstripLoop, pyRstrip_all p cache h]
  | cons x xs ih =>
    intro cache h
    rw [rstripLoop]
    by_cases hp : p x = true
    · simp only [hp, ↓reduceIte]
      rw [ih]
      · simp
      · intro c hc
        simp at hc
        rcases hc with hc | rfl
        · exact h c hc
        · exact hp
    · have hp' : p x = false := by simpa using hp
      simp only [hp', Bool.false_eq_true, ↓reduceIte]
      rw [ih [] (by simp), pyRstrip_append_of_not p cache x xs hp']
      simp

theorem rstrip_eq (p : α → Bool) (xs : List α) : rstrip p xs = pyRstrip p xs := by
  unfold rstrip
  rw [rstripLoop_eq p xs [] (by simp)]
  simp

theorem strip_eq (p : α → Bool) (xs : List α) : strip p xs = pyStrip p xs := by
  unfold strip pyStrip
  rw [rstrip_eq, lstrip_eq]

/-- what the item-wise `str.strip` delivers: the input minus an all-`p` prefix and suffix, and the
    result neither starts nor ends with a `p` item (so both are maximal) -/
theorem pyStrip_decomp (p : α → Bool) (src : List α) :
    ∃ pre suf, src = pre ++ pyStrip p src ++ suf ∧ (∀ x ∈ pre, p x = true) ∧ (∀ x ∈ suf, p x = true) ∧
      (∀ x, (pyStrip p src).head? = some x → p x = false) ∧
      (∀ x, (pyStrip p src).getLast? = some x → p x = false) := by
  refine ⟨src.takeWhile p, ((src.dropWhile p).reverse.takeWhile p).reverse, ?_, ?_, ?_, ?_, ?_⟩
  · unfold pyStrip pyRstrip pyLstrip
    rw [List.append_assoc, ← List.reverse_append, List.takeWhile_append_dropWhile, List.reverse_reverse,
      List.takeWhile_append_dropWhile]
  · intro x hx
    induction src with
    | nil => simp at hx
    | cons a as ih =>
      rw [List.takeWhile_cons] at hx
      split at hx
      · rename_i h
        simp only [List.mem_cons] at hx
        rcases hx with rfl | hx
        · exact h
        · exact ih hx
      · simp at hx
  · intro x hx
    rw [List.mem_reverse] at hx
    generalize (src.dropWhile p).reverse = l at hx
    induction l with
    | nil => simp at hx
    | cons a as ih =>
      rw [List.takeWhile_cons] at hx
      split at hx
      · rename_i h
        simp only [List.mem_cons] at hx
        rcases hx with rfl | hx
        · exact h
        · exact ih hx
      · simp at hx
  · intro x hx
    -- the result is a prefix of `dropWhile p src`, whose head fails `p`
    have hpre : pyStrip p src ++ ((src.dropWhile p).reverse.takeWhile p).reverse = src.dropWhile p := by
      unfold pyStrip pyRstrip pyLstrip
      rw [← List.reverse_append, List.takeWhile_append_dropWhile, List.reverse_reverse]
    cases hr : pyStrip p src with
    | nil => rw [hr] at hx; simp at hx
    | cons y ys =>
      rw [hr] at hx hpre
      simp only [List.head?_cons, Option.some.injEq] at hx
      subst hx
      have := List.head?_dropWhile_not p src
      rw [← hpre] at this
      simpa using this
  · intro x hx
    unfold pyStrip pyRstrip at hx
    rw [List.getLast?_reverse] at hx
    have := List.head?_dropWhile_not p (pyLstrip p src).reverse
    rw [hx] at this
    simpa using this

end C09
