import BoltonsVerif.C09.Model
/-
C09 helper lemmas: lstrip / rstrip / strip refine the item-wise `str.lstrip/rstrip/strip`.
-/
namespace C09
variable {α : Type}

theorem lstrip_eq (p : α → Bool) (xs : List α) : lstrip p xs = pyLstrip p xs := by
  unfold pyLstrip
  induction xs with
  | nil => simp [lstrip]
  | cons x xs ih =>
    rw [lstrip, List.dropWhile_cons]
    split <;> simp_all

theorem dropWhile_all (p : α → Bool) (l : List α) (h : ∀ c ∈ l, p c = true) : l.dropWhile p = [] := by
  induction l with
  | nil => rfl
  | cons x xs ih =>
    rw [List.dropWhile_cons_of_pos (h x (by simp))]
    exact ih (fun c hc => h c (by simp [hc]))

theorem pyRstrip_all (p : α → Bool) (l : List α) (h : ∀ c ∈ l, p c = true) : pyRstrip p l = [] := by
  unfold pyRstrip
  rw [dropWhile_all p l.reverse (fun c hc => h c (by simpa using hc))]
  rfl

theorem pyRstrip_append_of_not (p : α → Bool) (l : List α) (x : α) (xs : List α) (hx : p x = false) :
    pyRstrip p (l ++ x :: xs) = l ++ x :: pyRstrip p xs := by
  unfold pyRstrip
  have : (l ++ x :: xs).reverse = xs.reverse ++ (x :: l.reverse) := by simp
  rw [this, List.dropWhile_append]
  split
  · rename_i h
    have h' : List.dropWhile p xs.reverse = [] := by simpa using h
    simp [List.dropWhile_cons, hx, h']
  · simp

theorem rstripLoop_eq (p : α → Bool) : ∀ (xs cache : List α), (∀ c ∈ cache, p c = true) →
    rstripLoop p xs cache = pyRstrip p (cache ++ xs) := by
  intro xs
  induction xs with
  | nil => intro cache h; simp [rstripLoop, pyRstrip_all p cache h]
  | cons x xs ih =>
    intro cache h
    rw [rstripLoop]
    by_cases hp : p x = true
    · simp only [hp, ↓reduceIte]
      rw [ih]
      · simp
      · intro c hc
        simp at hc
        rcases hc with hc | rfl
        · exact h c hc
        · exact hp
    · have hp' : p x = false := by simpa using hp
      simp only [hp', Bool.false_eq_true, ↓reduceIte]
      rw [ih [] (by simp), pyRstrip_append_of_not p cache x xs hp']
      simp

theorem rstrip_eq (p : α → Bool) (xs : List α) : rstrip p xs = pyRstrip p xs := by
  unfold rstrip
  rw [rstripLoop_eq p xs [] (by simp)]
  simp

theorem strip_eq (p : α → Bool) (xs : List α) : strip p xs = pyStrip p xs := by
  unfold strip pyStrip
  rw [rstrip_eq, lstrip_eq]

end C09
