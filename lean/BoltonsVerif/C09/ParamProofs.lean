import BoltonsVerif.C09.Model
/-
C09 helper lemmas: numeric arguments (`int(value)`, `_validate_positive_int`) and the "as called"
entry points `chunkedP`, `windowedP`, `splitS`, `chunkRangesP`.
-/
namespace C09
variable {α : Type}

/-- `int()` of a float given in halves, without `tdiv` -/
theorem toInt_halves (h : Int) :
    (Param.halves h).toInt = if 0 ≤ h then h / 2 else -((-h) / 2) := by
  show Int.tdiv h 2 = _
  by_cases hh : 0 ≤ h
  · rw [if_pos hh]
    exact Int.tdiv_eq_ediv_of_nonneg hh
  · rw [if_neg hh]
    have h1 : 0 ≤ -h := by omega
    have h2 : h.tdiv 2 = -((-h).tdiv 2) := by rw [Int.neg_tdiv]; omega
    rw [h2, Int.tdiv_eq_ediv_of_nonneg h1]

theorem validatePositiveInt_eq (p : Param) (strict : Bool) :
    validatePositiveInt p strict =
      if p.toInt < 0 ∨ (strict = true ∧ p.toInt = 0) then .error .valueError else .ok p.toInt := rfl

theorem chunkedIterP_eq (size : Param) (fill : Option α) (src : List α) :
    chunkedIterP size fill src = chunkedIter size.toInt fill src := by
  unfold chunkedIterP chunkedIter validatePositiveInt
  generalize size.toInt = n
  by_cases h : n ≤ 0
  · have h' : n < 0 ∨ (true = true ∧ n = 0) := by
      by_cases hn : n < 0
      · exact Or.inl hn
      · exact Or.inr ⟨rfl, by omega⟩
    rw [if_pos h', if_pos h]
  · have h' : ¬ (n < 0 ∨ (true = true ∧ n = 0)) := by
      intro hc
      rcases hc with hc | ⟨_, hc⟩ <;> omega
    rw [if_neg h', if_neg h]

theorem chunkedP_none (size : Param) (fill : Option α) (src : List α) :
    chunkedP size none fill src = chunked size.toInt none fill src := by
  simp [chunkedP, chunked, chunkedIterP_eq]

theorem chunkedP_some (size cp : Param) (c : Int) (hc : cp.index? = some c) (fill : Option α) (src : List α) :
    chunkedP size (some cp) fill src = chunked size.toInt (some c) fill src := by
  simp [chunkedP, chunked, chunkedIterP_eq, hc]

theorem index_eq_toInt (p : Param) (c : Int) (h : p.index? = some c) : p.toInt = c := by
  cases p <;> simp_all [Param.index?, Param.toInt]

theorem vpi_ok {p : Param} {strict : Bool} (h : ¬ (p.toInt < 0 ∨ (strict = true ∧ p.toInt = 0))) :
    validatePositiveInt p strict = .ok p.toInt := by
  unfold validatePositiveInt; rw [if_neg h]

theorem vpi_err {p : Param} {strict : Bool} (h : p.toInt < 0 ∨ (strict = true ∧ p.toInt = 0)) :
    validatePositiveInt p strict = .error .valueError := by
  unfold validatePositiveInt; rw [if_pos h]

theorem vpi_nonstrict {p : Param} (h : ¬ p.toInt < 0) : validatePositiveInt p false = .ok p.toInt :=
  vpi_ok (by intro hc; rcases hc with hc | ⟨hc, _⟩; exact h hc; cases hc)

theorem vpi_strict {p : Param} (h : ¬ p.toInt ≤ 0) : validatePositiveInt p true = .ok p.toInt :=
  vpi_ok (by intro hc; rcases hc with hc | ⟨_, hc⟩ <;> omega)

theorem vpi_strict_err {p : Param} (h : p.toInt ≤ 0) : validatePositiveInt p true = .error .valueError :=
  vpi_err (by
    by_cases hn : p.toInt < 0
    · exact Or.inl hn
    · exact Or.inr ⟨rfl, by omega⟩)

theorem chunkRangesP_eq' (size cs off ov : Param) (align : Bool) :
    chunkRangesP size cs off ov align = chunkRanges size.toInt cs.toInt off.toInt ov.toInt align := by
  unfold chunkRangesP chunkRanges
  by_cases hbad : size.toInt < 0 ∨ cs.toInt ≤ 0 ∨ off.toInt < 0 ∨ ov.toInt < 0
  · rw [if_pos hbad]
    by_cases h1 : size.toInt < 0
    · rw [vpi_err (p := size) (Or.inl h1)]
    · rw [vpi_nonstrict (p := size) h1]
      by_cases h2 : cs.toInt ≤ 0
      · rw [vpi_strict_err (p := cs) h2]
      · rw [vpi_strict (p := cs) h2]
        by_cases h3 : off.toInt < 0
        · rw [vpi_err (p := off) (Or.inl h3)]
        · rw [vpi_nonstrict (p := off) h3]
          have h4 : ov.toInt < 0 := by omega
          rw [vpi_err (p := ov) (Or.inl h4)]
  · rw [if_neg hbad]
    rw [vpi_nonstrict (p := size) (by omega), vpi_strict (p := cs) (by omega),
      vpi_nonstrict (p := off) (by omega), vpi_nonstrict (p := ov) (by omega)]

theorem uniqueLoop_congr {κ : Type} [DecidableEq κ] (f g : α → κ) :
    ∀ (src : List α) (seen : List κ), (∀ x ∈ src, f x = g x) → uniqueLoop f src seen = uniqueLoop g src seen := by
  intro src
  induction src with
  | nil => intro seen _; rfl
  | cons x xs ih =>
    intro seen h
    have hx : f x = g x := h x (by simp)
    have hxs : ∀ y ∈ xs, f y = g y := fun y hy => h y (List.mem_cons_of_mem _ hy)
    simp only [uniqueLoop, hx]
    split
    · exact ih _ hxs
    · rw [ih _ hxs]

end C09
