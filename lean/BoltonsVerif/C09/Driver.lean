import BoltonsVerif.Common
import BoltonsVerif.C09.Model
import BoltonsVerif.C09.KeyModel
/-
C09 line protocol.  One line = one call.

Items travel as codes: `0` = None, otherwise `1 + 3*v + t` for the number `v` with
alias tag `t` (0 int / str char / byte, 1 float, 2 bool).  Python `==`/`hash` only see the
class `cls c` (`0` for None, `v + 1` otherwise).  Lists are comma separated, `-` = empty.

  chunked <size> <count|-> <fill|-> <xs>
  chunkedk <input kind> <size> <count|-> <fill|-> <xs>     (answers `ok <chunk type> <chunks>`)
  windowed <size> <fill|-> <xs>          pairwise <end|-> <xs>
  split <sep> <maxsplit|-> <xs>          sep: n | v<code> | t<codes> (a str separator) | s<codes> | c<codes>
                                         | k<kind>:<codes> (an object of that kind holding the items)
  lstrip|rstrip|strip <code> <xs>
  unique <key> <xs>                      key: id | mod<k> | div<k> | const | bool | real | imag | den | nope,
                                         optionally `<key>@<kind of the key object>` (none | lambda | partial |
                                         object | method | class | falsy | str | list | int): the branch of the
                                         function's key dispatch is then computed by the model (`KeyModel.lean`)
  redundant <key> <0|1> <xs>
  bucketize <key|L<codes>> <id|sq> <-|ne<class>> <xs>
  partition <key> <xs>
  chunk_ranges <size> <chunk> <offset> <overlap> <0|1>
  pysplit <sep> <maxsplit|-> <xs>        (the Lean spec of str.split, sep: n | v<code>)
  pystrip <l|r|b> <code> <xs>            (the Lean spec of str.l/r/strip)
Numeric arguments (`size`, `count`, `maxsplit`, the chunk_ranges numbers) are `Param` tokens:
`5` / `-1` an int, `h5` the float 2.5 (halves), `bT` / `bF` a bool.
Output: `ok <value>` or `err <ExceptionClass>`.
-/
namespace C09.Driver
open BV C09

def cls (c : Nat) : Nat := if c = 0 then 0 else (c - 1) / 3 + 1
def val (c : Nat) : Nat := (c - 1) / 3
def tag (c : Nat) : Nat := (c - 1) % 3

def showLL (l : List (List Nat)) : String :=
  if l.isEmpty then "[]" else "|".intercalate (l.map (fun c => showNats c))

def showErr : Err → String
  | .valueError => "err ValueError"
  | .outside => "bad-op"
  | .typeError => "err TypeError"

def showRes (r : Except Err (List (List Nat))) : String :=
  match r with
  | .ok l => "ok " ++ showLL l
  | .error e => showErr e

def optInt? (s : String) : Option (Option Int) :=
  if s = "-" then some none else s.toInt?.map some

def optNat? (s : String) : Option (Option Nat) :=
  if s = "-" then some none else s.toNat?.map some

/-- a numeric argument: `5`, `-1` (int), `h5` = 2.5 (float in halves), `bT` / `bF` (bool) -/
def param? (s : String) : Option Param :=
  if s = "bT" then some (.bool true)
  else if s = "bF" then some (.bool false)
  else if s.startsWith "h" then (s.drop 1).toString.toInt?.map Param.halves
  else s.toInt?.map Param.int

def optParam? (s : String) : Option (Option Param) :=
  if s = "-" then some none else (param? s).map some

/-- Python `==` on item codes, and `x == None` -/
def eqv (x y : Nat) : Bool := cls x == cls y
def isNoneCode (x : Nat) : Bool := x == 0

/-- separator token → the `sep` argument (the callable of `c<codes>` tests membership of the class) -/
def sep? (s : String) : Option (Sep Nat) :=
  let rest := (s.drop 1).toString
  match s.front with
  | 'n' => if rest = "" then some .none else none
  | 'v' => rest.toNat?.map .value
  | 't' => (natList? rest).map .text
  | 's' => (natList? rest).map .coll
  | 'c' => (natList? rest).map fun vs => .func (fun x => (vs.map cls).contains (cls x))
  | _ => none

/-- separator token → the Python object passed as `sep`; `k<kind>:<codes>` is an object of that kind
    holding the items (`kbytearray:4,7`, `kset:-`), the other tokens as in `sep?` -/
def sepObj? (s : String) : Option (SepObj Nat) :=
  let rest := (s.drop 1).toString
  match s.front with
  | 'n' => if rest = "" then some .none else none
  | 'v' => rest.toNat?.map .item
  | 't' => (natList? rest).map (.holding .str)
  | 's' => (natList? rest).map (.holding .list)
  | 'c' => (natList? rest).map fun vs => .func (fun x => (vs.map cls).contains (cls x))
  | 'k' =>
    match splitOnChar rest ':' with
    | [kind, codes] =>
      match SepKind.ofName? kind, natList? codes with
      | some k, some vs => some (.holding k vs)
      | _, _ => none
    | _ => none
  | _ => none

/-- key token → the `key` argument (item codes → key classes).  Attribute names: `real` exists on every
    number, `imag` too (always 0), `denominator` on ints and bools only, `no_such_attribute` nowhere;
    `None` has none of them. -/
def keyArg? (s : String) : Option (KeyArg Nat Nat) :=
  if s = "id" then some .none
  else if s = "real" then some (.attr fun c => if c = 0 then none else some (cls c))
  else if s = "nope" then some (.attr fun _ => none)
  else if s = "imag" then some (.attr fun c => if c = 0 then none else some 1)
  else if s = "den" then some (.attr fun c => if c = 0 ∨ tag c = 1 then none else some 2)
  else if s = "const" then some (.func fun _ => 1)
  else if s = "bool" then some (.func fun c => if c = 0 ∨ val c = 0 then 1 else 2)
  else if s.startsWith "mod" then
    match (s.drop 3).toString.toNat? with
    | some k => if k = 0 then none else some (.func fun c => val c % k + 1)
    | none => none
  else if s.startsWith "div" then
    match (s.drop 3).toString.toNat? with
    | some k => if k = 0 then none else some (.func fun c => val c / k + 1)
    | none => none
  else none

/-- key token → key function on item codes, into key classes -/
def key? (s : String) : Option (Nat → Nat) := (keyArg? s).map (keyFunc cls)

/-- what a key token computes when it is called / looked up as an attribute -/
def keyParts? (s : String) : Option ((Nat → Nat) × (Nat → Option Nat)) :=
  (keyArg? s).map fun ka =>
    match ka with
    | .none => (cls, fun _ => none)
    | .func f => (f, fun _ => none)
    | .attr g => (cls, g)

/-- `<key>` or `<key>@<kind>` for the function `fn` (unique / redundant / bucketize): with a kind, the branch
    of `fn`'s key dispatch is computed from the facts about an object of that kind; `none` = unparsable,
    `some none` = the call raises TypeError -/
def keyVia? (fn s : String) : Option (Option (Nat → Nat)) :=
  match splitOnChar s '@' with
  | [name] => (key? name).map some
  | [name, kind] =>
    match keyParts? name, KeyKind.ofName? kind, keyBranchOf fn with
    | some (f, g), some k, some br => some ((keyArgOf (br k.facts) f g).map (keyFunc cls))
    | _, _, _ => none
  | _ => none

def vt? (s : String) : Option (Nat → Nat) :=
  if s = "id" then some id
  else if s = "sq" then some (fun c => if c = 0 then 0 else 1 + 3 * (val c * val c) + (if tag c = 2 then 0 else tag c))
  else none

def kf? (s : String) : Option (Nat → Bool) :=
  if s = "-" then some (fun _ => true)
  else if s.startsWith "ne" then (s.drop 2).toString.toNat?.map fun k => (fun c => c != k)
  else none

def showBuckets (l : List (Nat × List Nat)) : String :=
  if l.isEmpty then "[]" else "|".intercalate (l.map fun e => s!"{e.1}:{showNats e.2}")

def showRanges (l : List (Nat × Nat)) : String :=
  if l.isEmpty then "[]" else "|".intercalate (l.map fun e => s!"{e.1}:{e.2}")

def bool? (s : String) : Option Bool :=
  if s = "0" then some false else if s = "1" then some true else none

def handle (line : String) : String :=
  match words line with
  | ["chunked", size, count, fill, xs] =>
    match param? size, optParam? count, optNat? fill, natList? xs with
    | some size, some count, some fill, some xs => showRes (chunkedP size count fill xs)
    | _, _, _, _ => "bad-op"
  | ["chunkedk", kind, size, count, fill, xs] =>
    match param? size, optParam? count, optNat? fill, natList? xs with
    | some size, some count, some fill, some xs =>
      match chunkedK (SrcKind.ofName kind) size count fill xs with
      | .ok (ck, l) => "ok " ++ (if ck = .list then "seq" else ck.name) ++ " " ++ showLL l
      | .error e => showErr e
    | _, _, _, _ => "bad-op"
  | ["windowed", size, fill, xs] =>
    match param? size, optNat? fill, natList? xs with
    | some size, some fill, some xs => showRes (windowedP size fill xs)
    | _, _, _ => "bad-op"
  | ["pairwise", fill, xs] =>
    match optNat? fill, natList? xs with
    | some fill, some xs => showRes (pairwise fill xs)
    | _, _ => "bad-op"
  | ["split", sep, ms, xs] =>
    match sepObj? sep, optParam? ms, natList? xs with
    | some sep, some ms, some xs => "ok " ++ showLL (splitO eqv isNoneCode sep ms xs)
    | _, _, _ => "bad-op"
  | ["pysplit", sep, ms, xs] =>
    match sep? sep, optNat? ms, natList? xs with
    | some sep, some ms, some xs => "ok " ++ showLL (pySplit (sepFunc eqv isNoneCode sep) sep.isNone ms xs)
    | _, _, _ => "bad-op"
  | [op, v, xs] =>
    match natList? xs with
    | none => "bad-op"
    | some xs =>
      if op = "lstrip" ∨ op = "rstrip" ∨ op = "strip" then
        match v.toNat? with
        | none => "bad-op"
        | some v =>
          let p := fun x => cls x == cls v
          "ok " ++ showNats (if op = "lstrip" then lstrip p xs else if op = "rstrip" then rstrip p xs
                             else strip p xs)
      else if op = "unique" then
        match keyVia? "unique" v with
        | some (some f) => "ok " ++ showNats (unique f xs)
        | some none => "err TypeError"
        | none => "bad-op"
      else if op = "partition" then
        match keyVia? "bucketize" v with
        | some (some f) => let r := partition f 2 1 xs; s!"ok {showNats r.1}|{showNats r.2}"
        | some none => "err TypeError"
        | none => "bad-op"
      else "bad-op"
  | ["pystrip", side, v, xs] =>
    match v.toNat?, natList? xs with
    | some v, some xs =>
      let p := fun x => cls x == cls v
      if side = "l" then "ok " ++ showNats (pyLstrip p xs)
      else if side = "r" then "ok " ++ showNats (pyRstrip p xs)
      else if side = "b" then "ok " ++ showNats (pyStrip p xs)
      else "bad-op"
    | _, _ => "bad-op"
  | ["redundant", k, g, xs] =>
    match keyVia? "redundant" k, bool? g, natList? xs with
    | some (some f), some g, some xs =>
      if g then "ok " ++ showLL (redundantGroups f xs) else "ok " ++ showNats (redundant f xs)
    | some none, some _, some _ => "err TypeError"
    | _, _, _ => "bad-op"
  | ["bucketize", k, vt, kf, xs] =>
    match vt? vt, kf? kf, natList? xs with
    | some g, some kf, some xs =>
      if k.startsWith "L" then
        match natList? (k.drop 1).toString with
        | some keys =>
          match bucketizeKeyList (keys.map cls) g kf xs with
          | .ok r => "ok " ++ showBuckets r
          | .error e => showErr e
        | none => "bad-op"
      else match keyVia? "bucketize" k with
        | some (some f) => "ok " ++ showBuckets (bucketize f g kf xs)
        | some none => "err TypeError"
        | none => "bad-op"
    | _, _, _ => "bad-op"
  | ["chunk_ranges", size, cs, off, ov, al] =>
    match param? size, param? cs, param? off, param? ov, bool? al with
    | some size, some cs, some off, some ov, some al =>
      match chunkRangesP size cs off ov al with
      | .ok r => "ok " ++ showRanges r
      | .error e => showErr e
    | _, _, _, _, _ => "bad-op"
  | _ => "bad-op"

end C09.Driver
