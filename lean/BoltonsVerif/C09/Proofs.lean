import BoltonsVerif.C09.ChunkProofs
import BoltonsVerif.C09.WindowProofs
import BoltonsVerif.C09.SplitProofs
import BoltonsVerif.C09.StripProofs
import BoltonsVerif.C09.UniqueProofs
import BoltonsVerif.C09.BucketProofs
import BoltonsVerif.C09.RedundantProofs
import BoltonsVerif.C09.RangeProofs
import BoltonsVerif.C09.RangeSpecProofs
import BoltonsVerif.C09.SplitSpecProofs
import BoltonsVerif.C09.ParamProofs
/-
C09 helper lemmas, one file per group of helpers:
  ChunkProofs (chunked), WindowProofs (windowed/pairwise), SplitProofs (split),
  StripProofs (l/r/strip), UniqueProofs (unique), BucketProofs (bucketize/partition),
  RedundantProofs (redundant), RangeProofs (chunk_ranges); round 2: RangeSpecProofs (exact lengths,
  uniqueness), SplitSpecProofs (maxsplit characterisation, uniqueness), ParamProofs (int() / _validate_positive_int).
-/
