import BoltonsVerif.C09.Model
/-
C09 helper lemmas: association lists, bucketize, partition.
-/
namespace C09
variable {α : Type} {β : Type} {κ : Type} [DecidableEq κ]

def keysOf (l : List (κ × β)) : List κ := l.map (·.1)

theorem lookup_eq_none_iff (k : κ) (l : List (κ × β)) : lookup k l = none ↔ k ∉ keysOf l := by
  induction l with
  | nil => simp [lookup, keysOf]
  | cons e es ih =>
    obtain ⟨k', v⟩ := e
    simp only [lookup, keysOf, List.map_cons, List.mem_cons, not_or] at *
    split <;> simp_all [eq_comm]

theorem lookup_some_mem {k : κ} {l : List (κ × β)} {v : β} (h : lookup k l = some v) : (k, v) ∈ l := by
  induction l with
  | nil => simp [lookup] at h
  | cons e es ih =>
    obtain ⟨k', v'⟩ := e
    simp only [lookup] at h
    split at h
    · cases h; simp_all
    · simp [ih h]

theorem lookup_of_mem_nodup {k : κ} {l : List (κ × β)} {v : β} (hn : (keysOf l).Nodup) (h : (k, v) ∈ l) :
    lookup k l = some v := by
  induction l with
  | nil => simp at h
  | cons e es ih =>
    obtain ⟨k', v'⟩ := e
    simp only [keysOf, List.map_cons, List.nodup_cons] at hn
    simp only [List.mem_cons, Prod.mk.injEq] at h
    simp only [lookup]
    rcases h with ⟨rfl, rfl⟩ | h
    · simp
    · have hk : k ∈ keysOf es := List.mem_map.mpr ⟨(k, v), h, rfl⟩
      have : k' ≠ k := fun e => hn.1 (e ▸ hk)
      simp [this, ih hn.2 h]

/-! ### `d.setdefault(k, []).append(v)` -/

theorem lookup_setdefaultAppend (k k' : κ) (v : β) (l : List (κ × List β)) :
    lookup k' (setdefaultAppend k v l) =
      if k' = k then some ((lookup k l).getD [] ++ [v]) else lookup k' l := by
  induction l with
  | nil => simp only [setdefaultAppend, lookup]; split <;> simp_all [eq_comm]
  | cons e es ih =>
    obtain ⟨k0, vs⟩ := e
    simp only [setdefaultAppend]
    split
    · rename_i h; subst h
      simp only [lookup]
      split <;> simp_all [eq_comm]
    · rename_i h
      simp only [lookup, ih]
      split <;> split <;> simp_all [eq_comm]

theorem keysOf_setdefaultAppend (k : κ) (v : β) (l : List (κ × List β)) :
    keysOf (setdefaultAppend k v l) = if k ∈ keysOf l then keysOf l else keysOf l ++ [k] := by
  induction l with
  | nil => simp [setdefaultAppend, keysOf]
  | cons e es ih =>
    obtain ⟨k0, vs⟩ := e
    simp only [setdefaultAppend]
    split
    · rename_i h; subst h; simp [keysOf]
    · rename_i h
      simp only [keysOf, List.map_cons, List.mem_cons] at ih ⊢
      rw [ih]
      have : ¬ k = k0 := fun e => h e.symm
      simp only [this, false_or]
      split <;> simp_all

theorem nodup_setdefaultAppend (k : κ) (v : β) (l : List (κ × List β)) (h : (keysOf l).Nodup) :
    (keysOf (setdefaultAppend k v l)).Nodup := by
  rw [keysOf_setdefaultAppend]
  split
  · exact h
  · rename_i hk
    rw [List.nodup_append]
    exact ⟨h, by simp, by intro a ha b hb; simp at hb; subst hb; exact fun e => hk (e ▸ ha)⟩

def sumLens (l : List (κ × List β)) : Nat := (l.map (·.2.length)).sum

theorem sumLens_setdefaultAppend (k : κ) (v : β) (l : List (κ × List β)) :
    sumLens (setdefaultAppend k v l) = sumLens l + 1 := by
  induction l with
  | nil => simp [setdefaultAppend, sumLens]
  | cons e es ih =>
    obtain ⟨k0, vs⟩ := e
    simp only [setdefaultAppend]
    split
    · simp [sumLens]; omega
    · simp only [sumLens, List.map_cons, List.sum_cons] at ih ⊢; omega

/-! ### bucketize -/

/-- the items that belong in bucket `k`, transformed, in input order -/
def bucketOf (f : α → κ) (g : α → β) (kf : κ → Bool) (k : κ) (xs : List α) : List β :=
  (xs.filter (fun x => decide (f x = k) && kf k)).map g

def optAppend : Option (List β) → List β → Option (List β)
  | o, [] => o
  | o, v :: vs => some (o.getD [] ++ v :: vs)

theorem bucketLoop_lookup (f : α → κ) (g : α → β) (kf : κ → Bool) (k : κ) :
    ∀ (xs : List α) (ret : List (κ × List β)),
      lookup k (bucketLoop f g kf xs ret) = optAppend (lookup k ret) (bucketOf f g kf k xs) := by
  intro xs
  induction xs with
  | nil => intro ret; simp [bucketLoop, bucketOf, optAppend]
  | cons x xs ih =>
    intro ret
    rw [bucketLoop]
    by_cases hkf : kf (f x) = true
    · simp only [hkf, ↓reduceIte]
      rw [ih, lookup_setdefaultAppend]
      by_cases hk : k = f x
      · subst hk
        have hcons : bucketOf f g kf (f x) (x :: xs) = g x :: bucketOf f g kf (f x) xs := by
          simp [bucketOf, List.filter_cons, hkf]
        rw [hcons]
        simp only [↓reduceIte]
        cases bucketOf f g kf (f x) xs <;> simp [optAppend]
      · have : ¬ f x = k := fun e => hk e.symm
        simp [hk, bucketOf, List.filter_cons, this]
    · have hkf' : kf (f x) = false := by simpa using hkf
      simp only [hkf', Bool.false_eq_true, ↓reduceIte]
      rw [ih]
      congr 1
      simp only [bucketOf, List.filter_cons]
      by_cases hk : f x = k
      · subst hk; simp [hkf']
      · simp [hk]

theorem bucketLoop_nodup (f : α → κ) (g : α → β) (kf : κ → Bool) :
    ∀ (xs : List α) (ret : List (κ × List β)), (keysOf ret).Nodup →
      (keysOf (bucketLoop f g kf xs ret)).Nodup := by
  intro xs
  induction xs with
  | nil => intro ret h; simpa [bucketLoop] using h
  | cons x xs ih =>
    intro ret h
    rw [bucketLoop]
    split
    · exact ih _ (nodup_setdefaultAppend _ _ _ h)
    · exact ih _ h

theorem bucketLoop_sumLens (f : α → κ) (g : α → β) (kf : κ → Bool) :
    ∀ (xs : List α) (ret : List (κ × List β)),
      sumLens (bucketLoop f g kf xs ret) = sumLens ret + (xs.filter (fun x => kf (f x))).length := by
  intro xs
  induction xs with
  | nil => intro ret; simp [bucketLoop]
  | cons x xs ih =>
    intro ret
    rw [bucketLoop]
    by_cases hkf : kf (f x) = true
    · simp only [hkf, ↓reduceIte, List.filter_cons, List.length_cons]
      rw [ih, sumLens_setdefaultAppend]; omega
    · have hkf' : kf (f x) = false := by simpa using hkf
      simp only [hkf', Bool.false_eq_true, ↓reduceIte, List.filter_cons]
      rw [ih]

theorem bucketize_lookup (f : α → κ) (g : α → β) (kf : κ → Bool) (k : κ) (xs : List α) :
    lookup k (bucketize f g kf xs) =
      if bucketOf f g kf k xs = [] then none else some (bucketOf f g kf k xs) := by
  unfold bucketize
  rw [bucketLoop_lookup]
  cases bucketOf f g kf k xs <;> simp [optAppend, lookup]

theorem bucketize_nodup (f : α → κ) (g : α → β) (kf : κ → Bool) (xs : List α) :
    (keysOf (bucketize f g kf xs)).Nodup :=
  bucketLoop_nodup f g kf xs [] (by simp [keysOf])

theorem bucketOf_ne_nil_kf (f : α → κ) (g : α → β) (kf : κ → Bool) (k : κ) (xs : List α)
    (h : bucketOf f g kf k xs ≠ []) : kf k = true := by
  cases hk : kf k with
  | true => rfl
  | false => simp [bucketOf, hk] at h

theorem bucketOf_of_kf (f : α → κ) (g : α → β) (kf : κ → Bool) (k : κ) (xs : List α) (h : kf k = true) :
    bucketOf f g kf k xs = (xs.filter (fun x => decide (f x = k))).map g := by
  simp [bucketOf, h]

theorem bucketize_spec (f : α → κ) (g : α → β) (kf : κ → Bool) (src : List α) :
    (keysOf (bucketize f g kf src)).Nodup ∧
    (∀ e ∈ bucketize f g kf src,
        e.2 = (src.filter (fun x => decide (f x = e.1))).map g ∧ e.2 ≠ [] ∧ kf e.1 = true) ∧
    (∀ x ∈ src, kf (f x) = true → ∃ e ∈ bucketize f g kf src, e.1 = f x) ∧
    sumLens (bucketize f g kf src) = (src.filter (fun x => kf (f x))).length := by
  have hn := bucketize_nodup f g kf src
  refine ⟨hn, ?_, ?_, ?_⟩
  · intro e he
    obtain ⟨k, vs⟩ := e
    have hl := lookup_of_mem_nodup hn he
    rw [bucketize_lookup] at hl
    by_cases hb : bucketOf f g kf k src = []
    · simp [hb] at hl
    · simp only [hb, ↓reduceIte, Option.some.injEq] at hl
      have hkf := bucketOf_ne_nil_kf f g kf k src hb
      subst hl
      exact ⟨bucketOf_of_kf f g kf k src hkf, hb, hkf⟩
  · intro x hx hkf
    have hb : bucketOf f g kf (f x) src ≠ [] := by
      rw [bucketOf_of_kf f g kf _ src hkf]
      intro h
      have hm : x ∈ src.filter (fun y => decide (f y = f x)) := by simp [hx]
      rw [List.map_eq_nil_iff] at h
      rw [h] at hm
      simp at hm
    have hl := bucketize_lookup f g kf (f x) src
    simp only [hb, ↓reduceIte] at hl
    exact ⟨_, lookup_some_mem hl, rfl⟩
  · unfold bucketize
    rw [bucketLoop_sumLens]
    simp [sumLens]

theorem partition_spec (f : α → κ) (t fl : κ) (src : List α) :
    partition f t fl src =
      (src.filter (fun x => decide (f x = t)), src.filter (fun x => decide (f x = fl))) := by
  have h : ∀ k, (lookup k (bucketize f id (fun _ => true) src)).getD [] =
      src.filter (fun x => decide (f x = k)) := by
    intro k
    rw [bucketize_lookup, bucketOf_of_kf f id (fun _ => true) k src rfl]
    simp only [List.map_id_fun, id_eq]
    split
    · rename_i h; simp [h]
    · simp
  simp only [partition, h]

theorem partition_bool_spec (f : α → κ) (t fl : κ) (hne : t ≠ fl) (src : List α)
    (hb : ∀ x ∈ src, f x = t ∨ f x = fl) :
    ((partition f t fl src).1 ++ (partition f t fl src).2).Perm src ∧
    (partition f t fl src).1.Sublist src ∧ (partition f t fl src).2.Sublist src := by
  rw [partition_spec]
  refine ⟨?_, List.filter_sublist, List.filter_sublist⟩
  have : src.filter (fun x => decide (f x = fl)) = src.filter (fun x => !decide (f x = t)) := by
    apply List.filter_congr
    intro x hx
    rcases hb x hx with h | h
    · have : ¬ t = fl := hne
      simp [h, this]
    · have : ¬ fl = t := fun e => hne e.symm
      simp [h, this]
  simp only [this]
  exact List.filter_append_perm _ src

/-! ### dict order of the buckets = order of first appearance of the keys -/

theorem uniqueLoop_seen_congr (f : α → κ) : ∀ (xs : List α) (s1 s2 : List κ),
    (∀ k, k ∈ s1 ↔ k ∈ s2) → uniqueLoop f xs s1 = uniqueLoop f xs s2 := by
  intro xs
  induction xs with
  | nil => intro s1 s2 _; simp [uniqueLoop]
  | cons x xs ih =>
    intro s1 s2 h
    rw [uniqueLoop, uniqueLoop]
    by_cases hx : f x ∈ s1
    · have hx2 : f x ∈ s2 := (h _).mp hx
      simp only [hx, hx2, ↓reduceIte]
      exact ih s1 s2 h
    · have hx2 : f x ∉ s2 := fun e => hx ((h _).mpr e)
      simp only [hx, hx2, ↓reduceIte]
      congr 1
      apply ih
      intro k
      simp [h k]

theorem bucketLoop_keys (f : α → κ) (g : α → β) (kf : κ → Bool) :
    ∀ (xs : List α) (ret : List (κ × List β)),
      keysOf (bucketLoop f g kf xs ret) =
        keysOf ret ++ uniqueLoop id ((xs.map f).filter kf) (keysOf ret) := by
  intro xs
  induction xs with
  | nil => intro ret; simp [bucketLoop, uniqueLoop]
  | cons x xs ih =>
    intro ret
    rw [bucketLoop]
    by_cases hkf : kf (f x) = true
    · simp only [hkf, ↓reduceIte, List.map_cons, List.filter_cons]
      rw [ih, keysOf_setdefaultAppend, uniqueLoop]
      by_cases hin : f x ∈ keysOf ret
      · simp [hin]
      · simp only [hin, ↓reduceIte, id_eq, List.append_assoc, List.cons_append, List.nil_append]
        congr 2
        apply uniqueLoop_seen_congr
        intro k
        simp [or_comm]
    · have hkf' : kf (f x) = false := by simpa using hkf
      simp only [hkf', Bool.false_eq_true, ↓reduceIte, List.map_cons, List.filter_cons]
      exact ih ret

theorem bucketize_keys (f : α → κ) (g : α → β) (kf : κ → Bool) (src : List α) :
    keysOf (bucketize f g kf src) = unique id ((src.map f).filter kf) := by
  unfold bucketize unique
  rw [bucketLoop_keys]
  simp [keysOf]

/-- the returned dict is completely determined: keys in order of first appearance, each with the
    (transformed) items carrying it, in input order -/
theorem bucketize_eq_map (f : α → κ) (g : α → β) (kf : κ → Bool) (src : List α) :
    bucketize f g kf src =
      (unique id ((src.map f).filter kf)).map
        (fun k => (k, (src.filter (fun x => decide (f x = k))).map g)) := by
  rw [← bucketize_keys f g kf src]
  unfold keysOf
  rw [List.map_map]
  conv => lhs; rw [← List.map_id (bucketize f g kf src)]
  apply List.map_congr_left
  intro e he
  have := ((bucketize_spec f g kf src).2.1 e he).1
  simp only [id_eq, Function.comp_apply]
  rw [← this]

end C09
