import BoltonsVerif.PyRt
/-
PyRtC14 — runtime of the source-translator extension `harness/py2lean_c14.py` (property C14:
`boltons.strutils` integer-list functions and shell quoting).

A Python `str` is the list of its code points (`List Char`), as everywhere in the source tie.  The functions below
are the SPEC-DECLARED STRING OPERATIONS the pre-pass of `py2lean_c14.py` rewrites string methods / builtins into
(notes/SRCTIE.md, section "C14").  Each is a total Lean function written down independently of `C14/Model.lean`
(the tie theorems in `C14/SrcTie.lean` relate the two); operations that raise in Python return `Except PyExc`.
Trusted like `PyRt.lean`; validated against CPython by the translator self-test on every run
(`py2lean_c14.FAMILIES`, `py2lean_c14.op_tests`).  Core Lean only.
-/
namespace PyRtC14

abbrev Str := List Char

/-! ## integers to text -/

/-- the decimal digits of `n`, least significant first; `fuel` bounds the number of digits (`n + 1` suffices) -/
def digitsRev : Nat → Nat → Str
  | 0, _ => []
  | fuel + 1, n => if n < 10 then [Char.ofNat (48 + n)] else Char.ofNat (48 + n % 10) :: digitsRev fuel (n / 10)

/-- `'{:d}'.format(n)` = `f'{n:d}'` = `str(n)` for an int `n` -/
def fmtD (n : Int) : Str :=
  if n < 0 then '-' :: (digitsRev (n.natAbs + 1) n.natAbs).reverse
  else (digitsRev (n.natAbs + 1) n.natAbs).reverse

/-! ## sequences of strings -/

/-- `sep.join(parts)` -/
def join (sep : Str) : List Str → Str
  | [] => []
  | [a] => a
  | a :: b :: r => a ++ sep ++ join sep (b :: r)

/-- `min(l)` of a list of ints; `ValueError` for an empty list -/
def minList? : List Int → Except PyExc Int
  | [] => .error PyExc.ValueError
  | x :: xs => .ok (xs.foldl (fun a b => if b < a then b else a) x)

/-- `max(l)` of a list of ints; `ValueError` for an empty list -/
def maxList? : List Int → Except PyExc Int
  | [] => .error PyExc.ValueError
  | x :: xs => .ok (xs.foldl (fun a b => if a < b then b else a) x)

end PyRtC14
