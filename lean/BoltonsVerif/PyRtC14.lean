import BoltonsVerif.PyRt
/-
PyRtC14 — runtime of the source-translator extension `harness/py2lean_c14.py` (property C14:
`boltons.strutils` integer-list functions and shell quoting).

A Python `str` is the list of its code points (`List Char`), as everywhere in the source tie.  The functions below
are the SPEC-DECLARED STRING OPERATIONS the pre-pass of `py2lean_c14.py` rewrites string methods / builtins into
(notes/SRCTIE.md, section "C14").  Each is a total Lean function written down independently of `C14/Model.lean`
(the tie theorems in `C14/SrcTie.lean` relate the two); operations that raise in Python return `Except PyExc`.
Trusted like `PyRt.lean`; validated against CPython by the translator self-test on every run
(`py2lean_c14.FAMILIES`, `py2lean_c14.op_tests`).  Core Lean only.
-/
namespace PyRtC14

abbrev Str := List Char

/-! ## integers to text -/

/-- the decimal digits of `n`, least significant first; `fuel` bounds the number of digits (`n + 1` suffices) -/
def digitsRev : Nat → Nat → Str
  | 0, _ => []
  | fuel + 1, n => if n < 10 then [Char.ofNat (48 + n)] else Char.ofNat (48 + n % 10) :: digitsRev fuel (n / 10)

/-- `'{:d}'.format(n)` = `f'{n:d}'` = `str(n)` for an int `n` -/
def fmtD (n : Int) : Str :=
  if n < 0 then '-' :: (digitsRev (n.natAbs + 1) n.natAbs).reverse
  else (digitsRev (n.natAbs + 1) n.natAbs).reverse

/-! ## sequences of strings -/

/-- `sep.join(parts)` -/
def join (sep : Str) : List Str → Str
  | [] => []
  | [a] => a
  | a :: b :: r => a ++ sep ++ join sep (b :: r)

/-- `min(l)` of a list of ints; `ValueError` for an empty list -/
def minList? : List Int → Except PyExc Int
  | [] => .error PyExc.ValueError
  | x :: xs => .ok (xs.foldl (fun a b => if b < a then b else a) x)

/-- `max(l)` of a list of ints; `ValueError` for an empty list -/
def maxList? : List Int → Except PyExc Int
  | [] => .error PyExc.ValueError
  | x :: xs => .ok (xs.foldl (fun a b => if a < b then b else a) x)

/-! ## whitespace, `strip`, `split`, `in` -/

/-- the characters `int()` skips around a number: ASCII `\t \n \v \f \r` and blank, and the non-ASCII characters
    with `str.isspace()` (Unicode 15.0; checked against the running interpreter by the self-test) -/
def isIntSpace (c : Char) : Bool :=
  let n := c.toNat
  (9 ≤ n && n ≤ 13) || n = 32 || n = 133 || n = 160 || n = 5760 || (8192 ≤ n && n ≤ 8202) || n = 8232 || n = 8233
    || n = 8239 || n = 8287 || n = 12288

/-- `c.isspace()`: what `str.strip()` removes (`isIntSpace` plus the ASCII separators FS GS RS US) -/
def isStrSpace (c : Char) : Bool := isIntSpace c || (28 ≤ c.toNat && c.toNat ≤ 31)

def stripBy (p : Char → Bool) (s : Str) : Str := ((s.dropWhile p).reverse.dropWhile p).reverse

/-- `s.strip()` -/
def strip (s : Str) : Str := stripBy isStrSpace s

/-- `s.startswith(d)` -/
def isPrefix : Str → Str → Bool
  | [], _ => true
  | _ :: _, [] => false
  | a :: as, b :: bs => a = b && isPrefix as bs

/-- the scan of `s.split(d)`, `d` non-empty: `k` = characters of a matched separator still to skip, `cur` = the
    current piece, reversed (leftmost, non-overlapping occurrences) -/
def splitGo (d : Str) : Nat → Str → Str → List Str
  | _, cur, [] => [cur.reverse]
  | k + 1, cur, _ :: cs => splitGo d k cur cs
  | 0, cur, c :: cs =>
    if isPrefix d (c :: cs) then cur.reverse :: splitGo d (d.length - 1) [] cs
    else splitGo d 0 (c :: cur) cs

/-- `s.split(d)`; `ValueError` for the empty separator -/
def split? (s d : Str) : Except PyExc (List Str) :=
  if d.isEmpty then .error PyExc.ValueError else .ok (splitGo d 0 [] s)

/-- `d in s` for two strings (substring test) -/
def containsSub (d : Str) : Str → Bool
  | [] => isPrefix d []
  | c :: cs => isPrefix d (c :: cs) || containsSub d cs

/-! ## `int(s)` of a string, base 10 -/

/-- the code points of the characters with `decimal` value 0 (Unicode 15.0: 68 runs `0..9`; checked against the
    running interpreter by the self-test) -/
def zeroDigits : List Nat :=
  [48, 1632, 1776, 1984, 2406, 2534, 2662, 2790, 2918, 3046, 3174, 3302, 3430, 3558, 3664, 3792, 3872, 4160, 4240,
   6112, 6160, 6470, 6608, 6784, 6800, 6992, 7088, 7232, 7248, 42528, 43216, 43264, 43472, 43504, 43600, 44016,
   65296, 66720, 68912, 69734, 69872, 69942, 70096, 70384, 70736, 70864, 71248, 71360, 71472, 71904, 72016, 72784,
   73040, 73120, 73552, 92768, 92864, 93008, 120782, 120792, 120802, 120812, 120822, 123200, 123632, 124144,
   125264, 130032]

/-- the decimal value of a character (`unicodedata.decimal`), `none` for a non-digit -/
def digitVal? (c : Char) : Option Nat :=
  zeroDigits.findSome? fun z => if z ≤ c.toNat && c.toNat < z + 10 then some (c.toNat - z) else none

/-- digits with single underscores between them; `pd` = the previous character was a digit -/
def digitsVal? : Str → Nat → Bool → Option Nat
  | [], acc, pd => if pd then some acc else none
  | c :: cs, acc, pd =>
    if c = '_' then (if pd then digitsVal? cs acc false else none)
    else match digitVal? c with
      | some v => digitsVal? cs (acc * 10 + v) true
      | none => none

/-- an optional sign: (negative?, the rest) -/
def signSplit : Str → Bool × Str
  | [] => (false, [])
  | c :: r => if c = '-' then (true, r) else if c = '+' then (false, r) else (false, c :: r)

/-- `int(s)`: surrounding whitespace, one optional sign, decimal digits (any script) with single underscores between
    them; anything else is a `ValueError`.  (CPython's limit of 4300 digits is not modelled.) -/
def intOfStr? (s : Str) : Except PyExc Int :=
  let p := signSplit (stripBy isIntSpace s)
  match digitsVal? p.2 0 false with
  | some n => .ok (if p.1 then -(n : Int) else (n : Int))
  | none => .error PyExc.ValueError

/-- `list(map(int, parts))`: the first failing item raises -/
def mapInt? : List Str → Except PyExc (List Int)
  | [] => .ok []
  | p :: ps => match intOfStr? p with
    | .error e => .error e
    | .ok n => match mapInt? ps with
      | .error e => .error e
      | .ok ns => .ok (n :: ns)

/-! ## `str.replace`, character classes -/

def replaceGo (old new : Str) : Nat → Str → Str
  | _, [] => []
  | k + 1, _ :: cs => replaceGo old new k cs
  | 0, c :: cs =>
    if isPrefix old (c :: cs) then new ++ replaceGo old new (old.length - 1) cs
    else c :: replaceGo old new 0 cs

/-- `s.replace(old, new)` (all occurrences, leftmost first, non-overlapping; an empty `old` matches between all
    characters and at both ends) -/
def replace (s old new : Str) : Str :=
  if old.isEmpty then new ++ (s.map fun c => c :: new).flatten else replaceGo old new 0 s

/-- every character of `s` has its code point in one of the runs (a character class given as a table) -/
def allInRanges (rs : List (Nat × Nat)) (s : Str) : Bool :=
  s.all fun c => rs.any fun r => r.1 ≤ c.toNat && c.toNat ≤ r.2

/-- `for c in s`: the one-character strings of `s` -/
def chars (s : Str) : List Str := s.map fun c => [c]

/-- `s * n` (empty for `n ≤ 0`) -/
def repeatStr (s : Str) (n : Int) : Str := (List.replicate n.toNat s).flatten

/-! ## sets of ints, unpacking -/

/-- `a - b` on sets (the items of `a` not in `b`) -/
def setDiff (a b : PyRt.Set Int) : PyRt.Set Int :=
  (List.filter (fun x => !PyRt.Set.contains b x) (PyRt.Set.toList a) : List Int)

/-- `x, y = l`: `ValueError` unless `l` has exactly two items -/
def unpack2? {α : Type} : List α → Except PyExc (α × α)
  | [x, y] => .ok (x, y)
  | _ => .error PyExc.ValueError

end PyRtC14
