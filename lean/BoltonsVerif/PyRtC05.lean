/-
PyRtC05 — runtime of the EFFECT MODE of the source translator (`harness/py2lean_c05.py`, notes/SRCTIE.md §1f / §2
"Effect mode"): Python methods whose job is to call the operating system (`boltons.fileutils.AtomicSaver`).

* An exception is a VALUE `Exc`: its place in the class hierarchy as far as the code can test it
  (`except OSError`, `except Exception`, a bare `except` / `except BaseException`), its `.errno` attribute, and an
  opaque tag (which class / instance exactly: never inspected by the translated code).
* Every external call (`os.*`, `fcntl.fcntl`, methods of a file object) is a field of a record of functions over an
  abstract world `W` (the record itself, `Sys`, is GENERATED from the spec next to the definitions): the call may
  change the world and returns a value or raises.
* A statement list is a `Blk σ R = σ → Except Exc (Option R) × σ`: it runs on a frame `σ` (object state, locals,
  world) and either falls through (`ok none`), executes `return v` (`ok (some v)`) or raises; the frame is the one
  at that point in every case (assignments made before an exception persist, as in Python).

Core Lean only; trusted like PyRt.lean.  `harness/py2lean_c05.py selftest` compares the generated definitions with
CPython (the real methods running against a scripted fake of the `os` / `fcntl` / file-object calls).
-/
namespace PyRtC05

/-- how far up `OSError ⊂ Exception ⊂ BaseException` an exception sits (all the translated handlers can ask) -/
inductive Kind where
  | osError      -- an `OSError` (= `IOError` = `EnvironmentError`) or a subclass
  | exception    -- an `Exception` that is not an `OSError`
  | baseOnly     -- a `BaseException` that is not an `Exception` (KeyboardInterrupt, SystemExit, GeneratorExit …)
deriving DecidableEq, Repr

structure Exc where
  kind : Kind
  /-- the `.errno` attribute of an `OSError` (`None` when it was built without one); `none` for other classes -/
  errno : Option Nat
  /-- opaque: which exception exactly (class below the three kinds, arguments, message) -/
  tag : Nat
deriving DecidableEq, Repr

/-- `except OSError:` / `except IOError:` / `except EnvironmentError:` -/
def Exc.isOSError (e : Exc) : Bool := e.kind = .osError
/-- `except Exception:` -/
def Exc.isException (e : Exc) : Bool := e.kind ≠ .baseOnly
/-- `except BaseException:` and the bare `except:` -/
def Exc.isBase (_ : Exc) : Bool := true

/-- `OSError(errno, strerror[, filename])` built by the code itself -/
def Exc.osError (errno : Nat) : Exc := ⟨.osError, some errno, 0⟩
/-- `OSError(message)`: no errno -/
def Exc.osErrorMsg : Exc := ⟨.osError, none, 0⟩

/-- what `os.stat` returns, as far as the code reads it -/
structure StatRes where
  st_mode : Nat
deriving DecidableEq, Repr, Inhabited

/-- `stat.S_IMODE(mode)` = `mode & 0o7777` -/
def S_IMODE (mode : Nat) : Nat := mode % 4096

/-- a local of type `Option T` read where the flow analysis of the translator shows it is not `None` -/
def unwrap {α : Type} [Inhabited α] : Option α → α
  | some a => a
  | none => default

/-- the frame a method body runs on: the object state, the locals, the world -/
structure Fr (S L W : Type) where
  self : S
  loc : L
  w : W

/-- a statement list -/
abbrev Blk (σ R : Type) := σ → Except Exc (Option R) × σ

namespace Blk
variable {σ R α S L W : Type}

/-- `pass`, an empty statement list -/
def skip : Blk σ R := fun s => (.ok none, s)

/-- `A` then `B`: `B` runs only when `A` fell through -/
def seq (a b : Blk σ R) : Blk σ R := fun s =>
  match a s with
  | (.ok none, s1) => b s1
  | r => r

/-- assignments (to locals / attributes) of pure expressions -/
def assign (f : σ → σ) : Blk σ R := fun s => (.ok none, f s)

/-- `return e` -/
def ret (f : σ → R) : Blk σ R := fun s => (.ok (some (f s)), s)

/-- `raise e` (also the bare `raise` inside a handler: `e` is then the handler's exception) -/
def raise (f : σ → Exc) : Blk σ R := fun s => (.error (f s), s)

/-- `if c: A else: B` -/
def ite (c : σ → Bool) (a b : Blk σ R) : Blk σ R := fun s => if c s then a s else b s

/-- a call of an abstract operation or of a translated module-level function: it may change the world; its value
    is stored by `k` (`x = os.open(…)`, `self.part_file = os.fdopen(…)`; `k` ignores it for an expression statement) -/
def call (op : Fr S L W → W → Except Exc α × W) (k : Fr S L W → α → Fr S L W) : Blk (Fr S L W) R := fun s =>
  match op s s.w with
  | (.error e, w1) => (.error e, { s with w := w1 })
  | (.ok v, w1) => (.ok none, k { s with w := w1 } v)

/-- a call of a translated method of the same object: it may change the object state and the world -/
def callm (m : Fr S L W → S → W → Except Exc α × S × W) (k : Fr S L W → α → Fr S L W) : Blk (Fr S L W) R := fun s =>
  match m s s.self s.w with
  | (.error e, st1, w1) => (.error e, { s with self := st1, w := w1 })
  | (.ok v, st1, w1) => (.ok none, k { s with self := st1, w := w1 } v)

/-- `try: A except …: … [else: C]`.  `h e` is the body of the FIRST handler whose class matches `e` (`none`: no
    handler matches, the exception propagates).  The handler runs on the frame at the raising point; exceptions
    raised by a handler or by the `else` clause are not caught here; `return` inside `A` leaves the statement. -/
def tryExcept (a : Blk σ R) (h : Exc → Option (Blk σ R)) (orelse : Blk σ R) : Blk σ R := fun s =>
  match a s with
  | (.error e, s1) =>
    (match h e with
     | some hb => hb s1
     | none => (.error e, s1))
  | (.ok none, s1) => orelse s1
  | r => r

/-- `try: A finally: F`: `F` always runs, on the frame `A` left; when `F` falls through, the outcome of `A` (fall
    through, `return v`, or its exception) stands; when `F` itself raises or returns, that replaces it -/
def tryFinally (a f : Blk σ R) : Blk σ R := fun s =>
  match a s with
  | (.error e, s1) => tryFinally.after (.error e) (f s1)
  | (.ok v, s1) => tryFinally.after (.ok v) (f s1)
where
  /-- `r`: the outcome of the protected block; then the outcome of the `finally` clause decides -/
  after (r : Except Exc (Option R)) : Except Exc (Option R) × σ → Except Exc (Option R) × σ
    | (.ok none, s2) => (r, s2)
    | r2 => r2

/-- the value of a function body: falling off the end is `return None` -/
def result [Inhabited R] : Except Exc (Option R) → Except Exc R
  | .error e => .error e
  | .ok (some v) => .ok v
  | .ok none => .ok default

end Blk

/-- what a method call leaves: the value (falling off the end = `return None`), the object state, the world -/
def finishMethod {S L W R : Type} [Inhabited R] (x : Except Exc (Option R) × Fr S L W) : Except Exc R × S × W :=
  (Blk.result x.1, x.2.self, x.2.w)

/-- run a method body: frame from the object state, fresh locals and the world -/
def runMethod {S L W R : Type} [Inhabited R] (body : Blk (Fr S L W) R) (self : S) (loc : L) (w : W) :
    Except Exc R × S × W :=
  finishMethod (body ⟨self, loc, w⟩)

def finishFunction {L W R : Type} [Inhabited R] (x : Except Exc (Option R) × Fr Unit L W) : Except Exc R × W :=
  (Blk.result x.1, x.2.w)

/-- run the body of a module-level function (no object) -/
def runFunction {L W R : Type} [Inhabited R] (body : Blk (Fr Unit L W) R) (loc : L) (w : W) : Except Exc R × W :=
  finishFunction (body ⟨(), loc, w⟩)

end PyRtC05
