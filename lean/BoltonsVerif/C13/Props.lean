import BoltonsVerif.C13.Proofs
import BoltonsVerif.C13.SessionProofs
import BoltonsVerif.C13.Hygiene
import BoltonsVerif.C13.Text
import BoltonsVerif.Generated.C13_Text
/-
C13 — property theorems for the model of `funcutils.wraps / update_wrapper /
FunctionBuilder` (statements, short derivations from `Proofs.lean`, non-vacuity
examples).

`f` is any well-formed function object (`WfFunc`: distinct parameter names, no more
positional defaults than positional parameters, keyword-only defaults keyed by
keyword-only parameters) - any number of positional-or-keyword parameters, any suffix
of defaults, `*args`, any keyword-only parameters with or without defaults, `**kw`,
any annotations, sync or async.  `sigOf` is `inspect.signature(·, follow_wrapped=False)`
without the annotations, which are looked up by parameter name in `ann` / `retAnn`;
`bind` is CPython's argument binding (`none` = TypeError); `callWrapper w c` is the
call the user's wrapper receives from the generated body when `w` is called with `c`.
-/
namespace C13

/-! ## argument binding -/

/-- exactly which calls a signature accepts (everything else is a TypeError): no surplus
    positional values unless `*args`, no unknown keyword unless `**kw`, no keyword for a
    parameter already filled positionally, and every remaining parameter has a keyword or a
    default -/
theorem accepts_spec (s : Sig) (c : Call) :
    (bind s c).isSome ↔
      (s.varargs.isSome ∨ c.pos.length ≤ s.pos.length) ∧
      (s.varkw.isSome ∨ ∀ kv ∈ c.kws, kv.1 ∈ s.names) ∧
      (∀ p ∈ s.pos.take c.pos.length, get? p.1 c.kws = none) ∧
      (∀ p ∈ s.pos.drop c.pos.length, p.2.isSome ∨ (get? p.1 c.kws).isSome) ∧
      (∀ p ∈ s.kwonly, p.2.isSome ∨ (get? p.1 c.kws).isSome) := by
  have hA := fillPos_isSome_iff s.pos c.pos c.kws
  have hB := fillPos_isSome_iff s.kwonly [] c.kws
  simp only [List.length_nil, List.take_zero, List.drop_zero, List.not_mem_nil,
    false_imp_iff, implies_true, true_and] at hB
  have hdrop : (c.pos.drop s.pos.length).isEmpty = true ↔ c.pos.length ≤ s.pos.length := by
    rw [List.isEmpty_iff, List.drop_eq_nil_iff]
  have hunk : (c.kws.filter (unknownKw s)).isEmpty = true ↔ ∀ kv ∈ c.kws, kv.1 ∈ s.names := by
    rw [List.isEmpty_iff, List.filter_eq_nil_iff]
    constructor
    · intro h kv hkv
      have := h kv hkv
      simpa [unknownKw] using this
    · intro h kv hkv
      simpa [unknownKw] using h kv hkv
  unfold bind
  by_cases h1 : (s.varargs.isNone && !(c.pos.drop s.pos.length).isEmpty) = true
  · rw [if_pos h1]
    simp only [Bool.and_eq_true, Bool.not_eq_true', Option.isNone_iff_eq_none] at h1
    have : ¬ (s.varargs.isSome ∨ c.pos.length ≤ s.pos.length) := by
      intro h
      rcases h with h | h
      · simp [h1.1] at h
      · have := hdrop.mpr h; simp [h1.2] at this
    simp [this]
  · rw [if_neg h1]
    have h1' : s.varargs.isSome ∨ c.pos.length ≤ s.pos.length := by
      cases hv : s.varargs with
      | some v => simp
      | none =>
        right; apply hdrop.mp
        simpa [hv] using h1
    by_cases h2 : (s.varkw.isNone && !(c.kws.filter (unknownKw s)).isEmpty) = true
    · rw [if_pos h2]
      simp only [Bool.and_eq_true, Bool.not_eq_true', Option.isNone_iff_eq_none] at h2
      have : ¬ (s.varkw.isSome ∨ ∀ kv ∈ c.kws, kv.1 ∈ s.names) := by
        intro h
        rcases h with h | h
        · simp [h2.1] at h
        · have := hunk.mpr h; simp [h2.2] at this
      simp only [Option.isSome_none, Bool.false_eq_true, false_iff]
      intro h; exact this h.2.1
    · rw [if_neg h2]
      have h2' : s.varkw.isSome ∨ ∀ kv ∈ c.kws, kv.1 ∈ s.names := by
        cases hv : s.varkw with
        | some v => simp
        | none =>
          right; apply hunk.mp
          simpa [hv] using h2
      cases ha : fillPos s.pos c.pos c.kws with
      | none =>
        have : ¬ ((∀ p ∈ s.pos.take c.pos.length, get? p.1 c.kws = none) ∧
            (∀ p ∈ s.pos.drop c.pos.length, p.2.isSome ∨ (get? p.1 c.kws).isSome)) := by
          rw [← hA, ha]; simp
        simp only [Option.isSome_none, Bool.false_eq_true, false_iff]
        intro h; exact this ⟨h.2.2.1, h.2.2.2.1⟩
      | some a =>
        have hA' := hA.mp (by rw [ha]; rfl)
        cases hk : fillPos s.kwonly [] c.kws with
        | none =>
          have : ¬ (∀ p ∈ s.kwonly, p.2.isSome ∨ (get? p.1 c.kws).isSome) := by
            rw [← hB, hk]; simp
          simp only [Option.isSome_none, Bool.false_eq_true, false_iff]
          intro h; exact this h.2.2.2.2
        | some k =>
          have hB' := hB.mp (by rw [hk]; rfl)
          simp only [Option.isSome_some, true_iff]
          exact ⟨h1', h2', hA'.1, hA'.2, hB'⟩

/-! ## plain `wraps(f)` -/

/-- `annOf f` - what `getfullargspec(f)` reports, and therefore what the builder starts from and
    what ends up in `__annotations__` of the built function - holds the annotation of every
    parameter of `f` (entries of `f.__annotations__` that name no parameter are not carried over) -/
theorem annotations_reported (f : Func) (p : Name) (hp : p ∈ paramNames f) :
    get? p (annOf f) = get? p f.ann := get?_annOf hp

/-- `wraps(f)` (any options) builds a function with the same own signature, the same
    annotations (`annotations_reported`), the same sync/async kind -/
theorem sig_preserved (f : Func) (wf : WfFunc f) (o : Opts) (ident : Nat) :
    ∃ w, updateWrapper f [] [] o ident = .ok w ∧ sigOf w = sigOf f ∧
      w.ann = annOf f ∧ w.retAnn = f.retAnn ∧ w.isAsync = f.isAsync := by
  have h := updateWrapper_of_steps (f := f) (inj := []) (exp := []) (o := o) (ident := ident)
    (fb1 := FB.fromFunc f) (fb2 := FB.fromFunc f) rfl rfl
  have hn : (FB.fromFunc f).names.Nodup := wf.nodup
  rw [if_pos hn] at h
  exact ⟨_, h, sigOf_fromFunc f _ _, rfl, rfl, rfl⟩

/-- `__name__`, `__doc__` (also a missing one), `__module__` are the wrapped function's and
    `__wrapped__` points at it -/
theorem metadata_preserved (f : Func) (o : Opts) (ident : Nat) (w : Func)
    (h : updateWrapper f [] [] o ident = .ok w) :
    w.name = f.name ∧ w.doc = f.doc ∧ w.module = f.module ∧
      w.wrapped = (if o.hideWrapped then none else some f.ident) := by
  obtain ⟨fb1, fb2, h1, h2, _, rfl⟩ := updateWrapper_inv h
  simp only [injectAll, Except.ok.injEq] at h1; subst h1
  simp only [expectAll, Except.ok.injEq] at h2; subst h2
  exact ⟨rfl, rfl, rfl, rfl⟩

/-- the wrapper accepts exactly the calls the wrapped function accepts (TypeError for
    exactly the others) -/
theorem accepts_iff (f : Func) (o : Opts) (ident : Nat) (w : Func)
    (h : updateWrapper f [] [] o ident = .ok w) (c : Call) :
    (bind (sigOf w) c).isSome = (bind (sigOf f) c).isSome := by
  obtain ⟨fb1, fb2, h1, h2, _, rfl⟩ := updateWrapper_inv h
  simp only [injectAll, Except.ok.injEq] at h1; subst h1
  simp only [expectAll, Except.ok.injEq] at h2; subst h2
  rw [sigOf_fromFunc]

/-- every function `update_wrapper` returns - with any `injected` / `expected` lists -
    hands ITS OWN bound arguments on: the call its body makes evaluates, and re-binding that
    call against the function's own signature gives back the same locals, defaults included -/
theorem forwarding_general (f : Func) (inj : List Name) (exp : List (Name × Option Val)) (o : Opts)
    (ident : Nat) (w : Func) (h : updateWrapper f inj exp o ident = .ok w)
    (c : Call) (b : Bound) (hb : bind (sigOf w) c = some b) :
    ∃ c', callWrapper w c = some c' ∧ bind (sigOf w) c' = some b := by
  obtain ⟨fb1, fb2, _, _, hn, rfl⟩ := updateWrapper_inv h
  have hnames : (sigOf (fb2.toFunc ident (if o.hideWrapped then none else some f.ident))).names.Nodup := by
    rw [sigOf_names]; exact names_sub_nodup hn
  obtain ⟨c', he, hb'⟩ := rebind _ hnames c b hb
  refine ⟨c', ?_, hb'⟩
  unfold callWrapper
  rw [hb, parseCall_body fb2 ident _ hn]
  exact he

/-- plain `wraps(f)`: every accepted call is forwarded so that the wrapped function sees the
    same bound arguments (defaults included) as the wrapper did - which are the ones it would
    have seen when called directly -/
theorem forwarding (f : Func) (o : Opts) (ident : Nat) (w : Func)
    (h : updateWrapper f [] [] o ident = .ok w) (c : Call) (b : Bound)
    (hb : bind (sigOf f) c = some b) :
    ∃ c', callWrapper w c = some c' ∧ bind (sigOf f) c' = some b := by
  have hs : sigOf w = sigOf f := by
    obtain ⟨fb1, fb2, h1, h2, _, rfl⟩ := updateWrapper_inv h
    simp only [injectAll, Except.ok.injEq] at h1; subst h1
    simp only [expectAll, Except.ok.injEq] at h2; subst h2
    exact sigOf_fromFunc f _ _
  have := forwarding_general f [] [] o ident w h c b (hs ▸ hb)
  rwa [hs] at this

/-- rejected calls never reach the user's wrapper -/
theorem rejected_not_forwarded (w : Func) (c : Call) (h : bind (sigOf w) c = none) :
    callWrapper w c = none := by
  unfold callWrapper; rw [h]

/-! ## `injected` -/

/-- the own signature minus one parameter -/
def Sig.remove (s : Sig) (x : Name) : Sig :=
  ⟨s.pos.filter (keyNe x), s.varargs, s.kwonly.filter (keyNe x), s.varkw⟩

/-- the own signature minus a list of parameters -/
def Sig.removeAll (s : Sig) (xs : List Name) : Sig :=
  ⟨s.pos.filter (keyNotIn xs), s.varargs, s.kwonly.filter (keyNotIn xs), s.varkw⟩

/-- `injected=[x]` for a positional or keyword-only parameter `x`: the own signature loses
    exactly `x`; every remaining parameter keeps its place, kind and default; annotations,
    metadata and kind of function are untouched -/
theorem injected_removes_exactly (f : Func) (wf : WfFunc f) (x : Name)
    (hx : x ∈ f.args ∨ x ∈ f.kwonly) (o : Opts) (ident : Nat) :
    ∃ w, updateWrapper f [x] [] o ident = .ok w ∧ sigOf w = (sigOf f).remove x ∧
      w.ann = annOf f ∧ w.retAnn = f.retAnn ∧ w.isAsync = f.isAsync ∧
      w.name = f.name ∧ w.doc = f.doc ∧ w.module = f.module := by
  have wfb := wfFB_fromFunc wf
  have hstep : ∃ fb', (FB.fromFunc f).removeArg x = .ok fb' ∧ WfFB fb' ∧
      fb'.posSig = (FB.fromFunc f).posSig.filter (keyNe x) ∧
      fb'.kwSig = (FB.fromFunc f).kwSig.filter (keyNe x) ∧ fb'.rest = (FB.fromFunc f).rest := by
    by_cases ha : x ∈ f.args
    · exact removeArg_pos wfb ha
    · exact removeArg_kw wfb ha (hx.resolve_left ha)
  obtain ⟨fb', hr, _, hp, hk, hrest⟩ := hstep
  have h1 : injectAll o.injectToVarkw (FB.fromFunc f) [x] = .ok fb' := by
    simp only [injectAll, hr]
  have h := updateWrapper_of_steps (f := f) (exp := []) (o := o) (ident := ident) h1 rfl
  simp only [FB.rest, Prod.mk.injEq] at hrest
  obtain ⟨hname, hdoc, hmod, hva, hvk, hann, hret, hasy⟩ := hrest
  have hn : fb'.names.Nodup := by
    -- the remaining names are a sublist of the original ones
    have hsub : fb'.names.Sublist (FB.fromFunc f).names := by
      unfold FB.names
      rw [hva, hvk]
      have ha : fb'.args = (FB.fromFunc f).args.filter (nameNe x) := by
        have := congrArg (List.map Prod.fst) hp
        rwa [FB.posSig, FB.posSig, attach_names, map_fst_filter_keyNe, attach_names] at this
      have hk' : fb'.kwonlyargs = (FB.fromFunc f).kwonlyargs.filter (nameNe x) := by
        have := congrArg (List.map Prod.fst) hk
        rwa [FB.kwSig, FB.kwSig, kwAttach_names, map_fst_filter_keyNe, kwAttach_names] at this
      rw [ha, hk']
      exact ((List.filter_sublist.append (List.Sublist.refl _)).append List.filter_sublist).append
        (List.Sublist.refl _)
    exact List.Nodup.sublist hsub wf.nodup
  rw [if_pos hn] at h
  refine ⟨_, h, ?_, hann, hret, hasy, hname, hdoc, hmod⟩
  rw [sigOf_toFunc, hp, hk, hva, hvk, fromFunc_kwSig]; rfl

/-- a whole `injected` list: whenever `update_wrapper` succeeds, all the named parameters -
    and nothing else - are gone (names that are no parameter are ignored when `**kw` can
    catch them) -/
theorem injected_removes_all (f : Func) (wf : WfFunc f) (inj : List Name) (o : Opts) (ident : Nat)
    (w : Func) (h : updateWrapper f inj [] o ident = .ok w) :
    sigOf w = (sigOf f).removeAll inj ∧ w.ann = annOf f ∧ w.retAnn = f.retAnn ∧
      w.isAsync = f.isAsync ∧ w.name = f.name ∧ w.doc = f.doc ∧ w.module = f.module := by
  obtain ⟨fb1, fb2, h1, h2, _, rfl⟩ := updateWrapper_inv h
  simp only [expectAll, Except.ok.injEq] at h2; subst h2
  obtain ⟨_, hp, hk, hrest⟩ := injectAll_spec (wfFB_fromFunc wf) inj h1
  simp only [FB.rest, Prod.mk.injEq] at hrest
  obtain ⟨hname, hdoc, hmod, hva, hvk, hann, hret, hasy⟩ := hrest
  refine ⟨?_, hann, hret, hasy, hname, hdoc, hmod⟩
  rw [sigOf_toFunc, hp, hk, hva, hvk, fromFunc_kwSig]; rfl

/-- a name that is no parameter: MissingArgument, unless `**kw` is there to catch it and
    `inject_to_varkw` is on, in which case the signature is unchanged -/
theorem injected_missing (f : Func) (wf : WfFunc f) (x : Name) (hx : x ∉ f.args) (hk : x ∉ f.kwonly)
    (o : Opts) (ident : Nat) :
    (o.injectToVarkw = true ∧ f.varkw.isSome →
      ∃ w, updateWrapper f [x] [] o ident = .ok w ∧ sigOf w = sigOf f) ∧
    (¬ (o.injectToVarkw = true ∧ f.varkw.isSome) →
      updateWrapper f [x] [] o ident = .error .missingArgument) := by
  have hr : (FB.fromFunc f).removeArg x = .error .missingArgument := removeArg_missing hx hk
  constructor
  · intro hc
    have hc' : (o.injectToVarkw && (FB.fromFunc f).varkw.isSome) = true := by
      simp only [Bool.and_eq_true]; exact hc
    have h1 : injectAll o.injectToVarkw (FB.fromFunc f) [x] = .ok (FB.fromFunc f) := by
      simp only [injectAll, hr, hc', if_true]
    have h := updateWrapper_of_steps (f := f) (exp := []) (o := o) (ident := ident) h1 rfl
    have hn : (FB.fromFunc f).names.Nodup := wf.nodup
    rw [if_pos hn] at h
    exact ⟨_, h, sigOf_fromFunc f _ _⟩
  · intro hc
    have hc' : ¬ ((o.injectToVarkw && (FB.fromFunc f).varkw.isSome) = true) := by
      simp only [Bool.and_eq_true]; exact hc
    unfold updateWrapper
    simp only [injectAll, hr, if_neg hc']

/-! ## `expected` -/

/-- `expected=[z]` (no default), `z` a fresh name: the own signature gains exactly the
    positional parameter `z`, placed after every required and in front of every defaulted
    positional parameter (so the result is a legal signature); every other parameter keeps its
    place, kind and default -/
theorem expected_adds_exactly_required (f : Func) (wf : WfFunc f) (z : Name) (hz : z ∉ paramNames f)
    (o : Opts) (ident : Nat) :
    ∃ w pre post, updateWrapper f [] [(z, none)] o ident = .ok w ∧
      (sigOf f).pos = pre ++ post ∧ (sigOf w).pos = pre ++ (z, none) :: post ∧
      (∀ p ∈ pre, p.2 = none) ∧ (∀ p ∈ post, p.2.isSome) ∧
      (sigOf w).varargs = (sigOf f).varargs ∧ (sigOf w).kwonly = (sigOf f).kwonly ∧
      (sigOf w).varkw = (sigOf f).varkw ∧
      w.ann = annOf f ∧ w.retAnn = f.retAnn ∧ w.isAsync = f.isAsync ∧
      w.name = f.name ∧ w.doc = f.doc ∧ w.module = f.module := by
  have hz' : z ∉ f.args ∧ z ∉ f.varargs.toList ∧ z ∉ f.kwonly ∧ z ∉ f.varkw.toList := by
    simp only [paramNames, List.mem_append, not_or] at hz
    exact ⟨hz.1.1.1, hz.1.1.2, hz.1.2, hz.2⟩
  obtain ⟨fb', pre, post, hr, _, hp0, hp1, hpre, hpost, hk, hrest⟩ :=
    addArg_none (wfFB_fromFunc wf) (z := z) hz'.1 hz'.2.2.1
  have h2 : expectAll (FB.fromFunc f) [(z, none)] = .ok fb' := by simp only [expectAll, hr]
  have h := updateWrapper_of_steps (f := f) (inj := []) (o := o) (ident := ident) rfl h2
  simp only [FB.rest, Prod.mk.injEq] at hrest
  obtain ⟨hname, hdoc, hmod, hva, hvk, hann, hret, hasy⟩ := hrest
  have hargs : fb'.args.Perm (z :: f.args) := by
    have := congrArg (List.map Prod.fst) hp1
    rw [FB.posSig, attach_names] at this
    rw [this]
    have h0 := congrArg (List.map Prod.fst) hp0
    rw [FB.posSig, attach_names] at h0
    have h0' : f.args = pre.map Prod.fst ++ post.map Prod.fst :=
      (by simpa using h0 : (FB.fromFunc f).args = pre.map Prod.fst ++ post.map Prod.fst)
    rw [h0']
    simp only [List.map_append, List.map_cons]
    exact List.perm_middle
  have hkw : fb'.kwonlyargs = f.kwonly := by
    have := congrArg (List.map Prod.fst) hk
    rwa [FB.kwSig, FB.kwSig, kwAttach_names, kwAttach_names] at this
  have hn : fb'.names.Nodup := by
    have hperm : fb'.names.Perm (z :: paramNames f) := by
      unfold FB.names paramNames
      rw [hva, hvk, hkw]
      show (fb'.args ++ f.varargs.toList ++ f.kwonly ++ f.varkw.toList).Perm _
      have := ((hargs.append_right f.varargs.toList).append_right f.kwonly).append_right f.varkw.toList
      simpa using this
    rw [hperm.nodup_iff, List.nodup_cons]
    exact ⟨hz, wf.nodup⟩
  rw [if_pos hn] at h
  exact ⟨_, pre, post, h, hp0, hp1, hpre, hpost, hva, hk.trans (fromFunc_kwSig f), hvk, hann, hret, hasy, hname, hdoc, hmod⟩

/-- `expected=[(z, v)]`, `z` a fresh name: the own signature gains exactly the positional
    parameter `z=v`, appended after the positional parameters -/
theorem expected_adds_exactly_default (f : Func) (wf : WfFunc f) (z : Name) (v : Val)
    (hz : z ∉ paramNames f) (o : Opts) (ident : Nat) :
    ∃ w, updateWrapper f [] [(z, some v)] o ident = .ok w ∧
      sigOf w = { sigOf f with pos := (sigOf f).pos ++ [(z, some v)] } ∧
      w.ann = annOf f ∧ w.retAnn = f.retAnn ∧ w.isAsync = f.isAsync ∧
      w.name = f.name ∧ w.doc = f.doc ∧ w.module = f.module := by
  have hz' : z ∉ f.args ∧ z ∉ f.varargs.toList ∧ z ∉ f.kwonly ∧ z ∉ f.varkw.toList := by
    simp only [paramNames, List.mem_append, not_or] at hz
    exact ⟨hz.1.1.1, hz.1.1.2, hz.1.2, hz.2⟩
  obtain ⟨fb', hr, _, hp1, hk, hrest⟩ := addArg_some (wfFB_fromFunc wf) (z := z) v hz'.1 hz'.2.2.1
  have h2 : expectAll (FB.fromFunc f) [(z, some v)] = .ok fb' := by simp only [expectAll, hr]
  have h := updateWrapper_of_steps (f := f) (inj := []) (o := o) (ident := ident) rfl h2
  simp only [FB.rest, Prod.mk.injEq] at hrest
  obtain ⟨hname, hdoc, hmod, hva, hvk, hann, hret, hasy⟩ := hrest
  have hargs : fb'.args = f.args ++ [z] := by
    have := congrArg (List.map Prod.fst) hp1
    rw [FB.posSig, attach_names] at this
    rw [this, List.map_append, FB.posSig, attach_names]; rfl
  have hkw : fb'.kwonlyargs = f.kwonly := by
    have := congrArg (List.map Prod.fst) hk
    rwa [FB.kwSig, FB.kwSig, kwAttach_names, kwAttach_names] at this
  have hn : fb'.names.Nodup := by
    have hperm : fb'.names.Perm (z :: paramNames f) := by
      unfold FB.names paramNames
      rw [hva, hvk, hkw, hargs]
      show (f.args ++ [z] ++ f.varargs.toList ++ f.kwonly ++ f.varkw.toList).Perm _
      simp only [List.append_assoc]
      exact List.perm_middle
    rw [hperm.nodup_iff, List.nodup_cons]
    exact ⟨hz, wf.nodup⟩
  rw [if_pos hn] at h
  refine ⟨_, h, ?_, hann, hret, hasy, hname, hdoc, hmod⟩
  rw [sigOf_toFunc, hp1, hk, hva, hvk, fromFunc_kwSig]; rfl

/-- an `expected` name that already is a positional or keyword-only parameter is refused -/
theorem expected_existing (f : Func) (z : Name) (d : Option Val) (hz : z ∈ f.args ∨ z ∈ f.kwonly)
    (o : Opts) (ident : Nat) :
    updateWrapper f [] [(z, d)] o ident = .error .existingArgument := by
  unfold updateWrapper
  simp only [injectAll, expectAll, addArg_existing (fb := FB.fromFunc f) d hz]

/-! ## any combination of `injected` and `expected` -/

/-- the default of a named parameter in a signature (`none` = no such parameter,
    `some none` = required) -/
def Sig.dflt (s : Sig) (p : Name) : Option (Option Val) := get? p (s.pos ++ s.kwonly)

/-- whatever is injected and expected: every parameter that is neither injected nor expected
    keeps its default attached (and a parameter of `f` is still a parameter of the result) -/
theorem defaults_stay_attached (f : Func) (wf : WfFunc f) (inj : List Name)
    (exp : List (Name × Option Val)) (o : Opts) (ident : Nat) (w : Func)
    (h : updateWrapper f inj exp o ident = .ok w) (p : Name) (hi : p ∉ inj)
    (he : p ∉ exp.map Prod.fst) :
    (sigOf w).dflt p = (sigOf f).dflt p := by
  obtain ⟨fb1, fb2, h1, h2, _, rfl⟩ := updateWrapper_inv h
  obtain ⟨wf1, hp, hk, _⟩ := injectAll_spec (wfFB_fromFunc wf) inj h1
  obtain ⟨_, hk2, _, _, hd⟩ := expectAll_spec wf1 exp h2
  have hfilter : ∀ (l : List (Name × Option Val)), get? p (l.filter (keyNotIn inj)) = get? p l := by
    intro l
    induction l with
    | nil => rfl
    | cons q r ih =>
      obtain ⟨k, v⟩ := q
      by_cases hkin : k ∈ inj
      · have : keyNotIn inj (k, v) = false := by simp [keyNotIn, hkin]
        rw [List.filter_cons_of_neg (by simp [this]), ih, get?_cons,
          if_neg (fun (e : k = p) => hi (e ▸ hkin))]
      · have : keyNotIn inj (k, v) = true := by simp [keyNotIn, hkin]
        rw [List.filter_cons_of_pos this, get?_cons, get?_cons, ih]
  unfold Sig.dflt
  rw [sigOf_toFunc, get?_append, get?_append]
  show (get? p fb2.posSig).or (get? p fb2.kwSig) = _
  rw [hd p he, hk2, hp, hk, hfilter, hfilter, fromFunc_kwSig]
  rfl

/-- ANY `injected` and `expected` lists together, whenever `update_wrapper` accepts them: the own
    signature changes by exactly those parameters.  Taking the expected names away from the new
    positional parameters leaves the old ones minus the injected names - same order, same defaults;
    every expected name is a positional parameter with exactly the default asked for (`none` =
    required); the keyword-only parameters are the old ones minus the injected names; `*args` and
    `**kw` are untouched; the expected names are pairwise distinct -/
theorem injected_expected_exact (f : Func) (wf : WfFunc f) (inj : List Name)
    (exp : List (Name × Option Val)) (o : Opts) (ident : Nat) (w : Func)
    (h : updateWrapper f inj exp o ident = .ok w) :
    (sigOf w).pos.filter (keyNotIn (exp.map Prod.fst)) = (sigOf f).pos.filter (keyNotIn inj) ∧
      (∀ zd ∈ exp, get? zd.1 (sigOf w).pos = some zd.2) ∧
      (sigOf w).kwonly = (sigOf f).kwonly.filter (keyNotIn inj) ∧
      (sigOf w).varargs = (sigOf f).varargs ∧ (sigOf w).varkw = (sigOf f).varkw ∧
      (exp.map Prod.fst).Nodup := by
  obtain ⟨fb1, fb2, h1, h2, _, rfl⟩ := updateWrapper_inv h
  obtain ⟨wf1, hp, hk, hr1⟩ := injectAll_spec (wfFB_fromFunc wf) inj h1
  obtain ⟨_, hk2, hr2, _, _⟩ := expectAll_spec wf1 exp h2
  obtain ⟨e1, e2, e3, _⟩ := expectAll_exact wf1 exp h2
  have hrest := hr2.trans hr1
  simp only [FB.rest, Prod.mk.injEq] at hrest
  obtain ⟨_, _, _, hva, hvk, _, _, _⟩ := hrest
  rw [sigOf_toFunc]
  refine ⟨?_, e2, ?_, hva, hvk, e3⟩
  · show fb2.posSig.filter _ = _
    rw [e1, hp]; rfl
  · show fb2.kwSig = _
    rw [hk2, hk, fromFunc_kwSig]

/-- an entry of `__annotations__` naming no parameter is not reported by `getfullargspec` -/
theorem get?_annOf_of_not_mem {f : Func} {p : Name} (hp : p ∉ paramNames f) : get? p (annOf f) = none := by
  unfold annOf
  induction f.ann with
  | nil => rfl
  | cons q r ih =>
    obtain ⟨k, v⟩ := q
    by_cases hk : k ∈ paramNames f
    · have : keyIn (paramNames f) (k, v) = true := by simpa [keyIn] using hk
      rw [List.filter_cons_of_pos this, get?_cons, if_neg (fun (e : k = p) => hp (e ▸ hk)), ih]
    · have : ¬ keyIn (paramNames f) (k, v) = true := by simpa [keyIn] using hk
      rw [List.filter_cons_of_neg this, ih]

/-- annotations as `inspect.signature` shows them, whatever is injected and expected: a parameter
    that was a parameter of `f` shows the annotation it had in `f` (or none), a parameter that is
    new shows none.  (For a name that is injected AND expected this describes the code as it is -
    `remove_arg` leaves the builder's `annotations` alone, so the re-added parameter shows the
    annotation of the removed one; the statement leaves that case open and the correspondence
    does not compare it: `readdedW`.) -/
theorem annotations_stay_attached (f : Func) (wf : WfFunc f) (inj : List Name)
    (exp : List (Name × Option Val)) (o : Opts) (ident : Nat) (w : Func)
    (h : updateWrapper f inj exp o ident = .ok w) (p : Name) :
    get? p w.ann = (if p ∈ paramNames f then get? p f.ann else none) ∧ w.retAnn = f.retAnn := by
  obtain ⟨fb1, fb2, h1, h2, _, rfl⟩ := updateWrapper_inv h
  obtain ⟨wf1, _, _, hr1⟩ := injectAll_spec (wfFB_fromFunc wf) inj h1
  obtain ⟨_, _, hr2, _, _⟩ := expectAll_spec wf1 exp h2
  have hrest := hr2.trans hr1
  simp only [FB.rest, Prod.mk.injEq] at hrest
  obtain ⟨_, _, _, _, _, hann, hret, _⟩ := hrest
  refine ⟨?_, hret⟩
  show get? p fb2.annotations = _
  rw [hann]
  show get? p (annOf f) = _
  by_cases hp : p ∈ paramNames f
  · rw [if_pos hp]; exact get?_annOf hp
  · rw [if_neg hp]; exact get?_annOf_of_not_mem hp

/-- the function `update_wrapper` returns is again a well-formed function object - so it can
    be wrapped again, and all of the above applies to stacks of decorators -/
theorem wrapper_wellformed (f : Func) (wf : WfFunc f) (inj : List Name)
    (exp : List (Name × Option Val)) (o : Opts) (ident : Nat) (w : Func)
    (h : updateWrapper f inj exp o ident = .ok w) : WfFunc w := by
  obtain ⟨fb1, fb2, h1, h2, hn, rfl⟩ := updateWrapper_inv h
  obtain ⟨wf1, _, _, _⟩ := injectAll_spec (wfFB_fromFunc wf) inj h1
  obtain ⟨wf2, _, _, _, _⟩ := expectAll_spec wf1 exp h2
  exact ⟨hn, wf2.len, wf2.kwd, wf2.kwdNodup⟩

/-- `wraps` applied `n` times on top of each other (a stack of decorators) -/
def wrapsN (f : Func) (o : Opts) : Nat → Except Err Func
  | 0 => .ok f
  | n + 1 =>
    match wrapsN f o n with
    | .ok w => updateWrapper w [] [] o
    | .error e => .error e

/-- a stack of `n` plain `wraps` decorators still has the innermost function's own signature,
    annotations (of its parameters: what `getfullargspec` / `inspect.signature` report), kind and
    metadata, whatever `n` -/
theorem stacked_wraps (f : Func) (wf : WfFunc f) (o : Opts) (n : Nat) :
    ∃ w, wrapsN f o n = .ok w ∧ WfFunc w ∧ sigOf w = sigOf f ∧ annOf w = annOf f ∧ w.retAnn = f.retAnn ∧
      w.isAsync = f.isAsync ∧ w.name = f.name ∧ w.doc = f.doc ∧ w.module = f.module := by
  induction n with
  | zero => exact ⟨f, rfl, wf, rfl, rfl, rfl, rfl, rfl, rfl, rfl⟩
  | succ n ih =>
    obtain ⟨w, hw, wfw, hs, ha, hr, hy, hn, hd, hm⟩ := ih
    obtain ⟨w', hw', hs', ha', hr', hy'⟩ := sig_preserved w wfw o (w.ident + 1)
    obtain ⟨hn', hd', hm', _⟩ := metadata_preserved w o (w.ident + 1) w' hw'
    have ha'' : annOf w' = annOf w := by
      unfold annOf
      rw [ha', paramNames_of_sigOf hs']
      unfold annOf
      rw [List.filter_filter]
      simp
    refine ⟨w', ?_, wrapper_wellformed w wfw [] [] o _ w' hw', hs'.trans hs, ha''.trans ha, hr'.trans hr,
      hy'.trans hy, hn'.trans hn, hd'.trans hd, hm'.trans hm⟩
    simp only [wrapsN, hw]
    exact hw'

/-! ## calls through a stack of decorators -/

/-- every function of the list is a plain `wraps` of something with `f`'s own signature -/
def PlainOver (f : Func) (ws : List Func) : Prop :=
  ∀ w ∈ ws, ∃ inner o ident, updateWrapper inner [] [] o ident = .ok w ∧ sigOf inner = sigOf f

/-- a call the innermost function accepts travels down any chain of plain wrappers (each user
    wrapper calling the next function with what it received) and arrives with the same bound arguments -/
theorem chain_forwarding (f : Func) (ws : List Func) (hws : PlainOver f ws) (c : Call) (b : Bound)
    (hb : bind (sigOf f) c = some b) :
    ∃ c', travel ws c = some c' ∧ bind (sigOf f) c' = some b := by
  induction ws generalizing c with
  | nil => exact ⟨c, rfl, hb⟩
  | cons w r ih =>
    obtain ⟨inner, o, ident, hw, hs⟩ := hws w (by simp)
    obtain ⟨c1, h1, h2⟩ := forwarding inner o ident w hw c b (hs ▸ hb)
    rw [hs] at h2
    obtain ⟨c', h3, h4⟩ := ih (fun x hx => hws x (by simp [hx])) c1 h2
    exact ⟨c', by simp only [travel, h1]; exact h3, h4⟩

/-- every level of a stack built by `stackUp` is a plain `wraps` of a well-formed function with `f`'s own signature -/
theorem stackUp_plainOver (f : Func) (o : Opts) (n : Nat) (ws : List Func)
    (hws : PlainOver f ws) (hwf : ∀ w ∈ ws, WfFunc w ∧ sigOf w = sigOf f) (res : List Func)
    (h : stackUp o n ws = .ok res) : PlainOver f res ∧ ∀ w ∈ res, WfFunc w ∧ sigOf w = sigOf f := by
  induction n generalizing ws with
  | zero => simp only [stackUp, Except.ok.injEq] at h; subst h; exact ⟨hws, hwf⟩
  | succ n ih =>
    cases ws with
    | nil => simp only [stackUp, Except.ok.injEq] at h; subst h; exact ⟨hws, hwf⟩
    | cons w r =>
      obtain ⟨wfw, hsw⟩ := hwf w (by simp)
      obtain ⟨w', hw', hs', _⟩ := sig_preserved w wfw o (w.ident + 1)
      have hw'' : updateWrapper w [] [] o = .ok w' := hw'
      simp only [stackUp, hw''] at h
      refine ih (w' :: w :: r) ?_ ?_ h
      · intro x hx
        simp only [List.mem_cons] at hx
        rcases hx with rfl | hx
        · exact ⟨w, o, w.ident + 1, hw', hsw⟩
        · exact hws x (by simpa using hx)
      · intro x hx
        simp only [List.mem_cons] at hx
        rcases hx with rfl | hx
        · exact ⟨wrapper_wellformed w wfw [] [] o _ _ hw', hs'.trans hsw⟩
        · exact hwf x (by simpa using hx)

/-- a stack of `n + 1` plain `wraps` decorators: every call the innermost function accepts
    travels down the whole stack - each user wrapper calling the next function with what it
    received - and reaches the innermost function with the same bound arguments, defaults included;
    and the outermost function has the innermost one's own signature, so it accepts exactly those calls -/
theorem stacked_forwarding (f : Func) (wf : WfFunc f) (o : Opts) (n : Nat) (w1 : Func) (ws : List Func)
    (h1 : updateWrapper f [] [] o = .ok w1) (h : stackUp o n [w1] = .ok ws) :
    (∀ w ∈ ws, sigOf w = sigOf f) ∧
    ∀ (c : Call) (b : Bound), bind (sigOf f) c = some b →
      ∃ c', travel ws c = some c' ∧ bind (sigOf f) c' = some b := by
  obtain ⟨w1', hw1, hs1, _⟩ := sig_preserved f wf o (f.ident + 1)
  have e : w1' = w1 := by
    have : updateWrapper f [] [] o = .ok w1' := hw1
    rw [h1] at this; exact (Except.ok.inj this).symm
  subst e
  have hp : PlainOver f [w1'] := by
    intro x hx; simp at hx; subst hx; exact ⟨f, o, f.ident + 1, hw1, rfl⟩
  have hq : ∀ w ∈ [w1'], WfFunc w ∧ sigOf w = sigOf f := by
    intro x hx; simp at hx; subst hx
    exact ⟨wrapper_wellformed f wf [] [] o _ _ hw1, hs1⟩
  obtain ⟨r1, r2⟩ := stackUp_plainOver f o n [w1'] hp hq ws h
  exact ⟨fun w hw => (r2 w hw).2, fun c b hb => chain_forwarding f ws r1 c b hb⟩

/-! ## any history of `FunctionBuilder.remove_arg` / `add_arg` calls -/

/-- whatever sequence of `remove_arg` / `add_arg(…[, kwonly=True])` calls is made on
    `FunctionBuilder.from_func(f)`: if `get_func()` then compiles, every parameter never named
    in the history is still there with the default it had in `f`, metadata, annotations and
    sync/async kind are `f`'s, and the result is a well-formed function -/
theorem history_defaults_stay_attached (f : Func) (wf : WfFunc f) (ops : List BOp) (ident : Nat)
    (w : Func) (h : buildHistory f ops ident = .ok w) :
    WfFunc w ∧ (∀ p, p ∉ ops.map BOp.name → (sigOf w).dflt p = (sigOf f).dflt p) ∧
      (sigOf w).varargs = (sigOf f).varargs ∧ (sigOf w).varkw = (sigOf f).varkw ∧
      w.ann = annOf f ∧ w.retAnn = f.retAnn ∧ w.isAsync = f.isAsync ∧
      w.name = f.name ∧ w.doc = f.doc ∧ w.module = f.module := by
  obtain ⟨fb, hr, hn, rfl⟩ := buildHistory_inv h
  obtain ⟨wf', hrest, hd⟩ := run_spec (wfFB_fromFunc wf) ops hr
  simp only [FB.rest, Prod.mk.injEq] at hrest
  obtain ⟨hname, hdoc, hmod, hva, hvk, hann, hret, hasy⟩ := hrest
  exact ⟨⟨hn, wf'.len, wf'.kwd, wf'.kwdNodup⟩,
    fun p hp => (hd p hp).trans (by rw [fromFunc_kwSig]; rfl), hva, hvk, hann, hret, hasy,
    hname, hdoc, hmod⟩

/-- annotations as `inspect.signature` shows them after any builder history (same reading as
    `annotations_stay_attached`; the names left open by the statement are `readded ops`) -/
theorem history_annotations_stay_attached (f : Func) (wf : WfFunc f) (ops : List BOp) (ident : Nat)
    (w : Func) (h : buildHistory f ops ident = .ok w) (p : Name) :
    get? p w.ann = (if p ∈ paramNames f then get? p f.ann else none) := by
  rw [(history_defaults_stay_attached f wf ops ident w h).2.2.2.2.1]
  by_cases hp : p ∈ paramNames f
  · rw [if_pos hp]; exact get?_annOf hp
  · rw [if_neg hp]; exact get?_annOf_of_not_mem hp

/-- … and it forwards its own bound arguments, like every function the builder compiles -/
theorem history_forwarding (f : Func) (ops : List BOp) (ident : Nat) (w : Func)
    (h : buildHistory f ops ident = .ok w) (c : Call) (b : Bound) (hb : bind (sigOf w) c = some b) :
    ∃ c', callWrapper w c = some c' ∧ bind (sigOf w) c' = some b := by
  obtain ⟨fb, _, hn, rfl⟩ := buildHistory_inv h
  have hnames : (sigOf (fb.toFunc ident none)).names.Nodup := by
    rw [sigOf_names]; exact names_sub_nodup hn
  obtain ⟨c', he, hb'⟩ := rebind _ hnames c b hb
  refine ⟨c', ?_, hb'⟩
  unfold callWrapper
  rw [hb, parseCall_body fb ident _ hn]
  exact he

/-! ## the name the user's wrapper goes by inside the built function (`Hygiene.lean`)

`callWrapper` above takes for granted that the callee of the generated body IS the user's wrapper.
That depends on names: the body runs in `{call_name: wrapper, '_func': func}`, the `def` binds the
function's own name there, and a parameter of the same name shadows it. -/

/-- whatever the parameters, `*args`, `**kw` and the function itself are called - `_call`,
    `__call`, … included - the name `update_wrapper` picks (its `while` loop, which ends within
    as many rounds as there are names to avoid) resolves, inside the body, to the user's wrapper:
    not to an argument, not to the new function itself, not to `_func`.  `cn k` is the spelling
    `'_' * k + '_call'` (any injective numbering that never hits the key `_func`). -/
theorem callee_reaches_wrapper (cn : Nat → Name) (hinj : ∀ i j, cn i = cn j → i = j) (funcKey : Name)
    (hk : ∀ k, cn k ≠ funcKey) (fb : FB) : fb.callee cn funcKey = .userWrapper := by
  have hfresh := pickCall_fresh cn hinj fb.takenNames
  unfold FB.callee
  apply resolve_fresh
  · intro hm
    apply hfresh
    simp only [FB.takenNames, List.mem_append] at hm ⊢
    rcases hm with ((hm | hm) | hm) | hm
    · exact Or.inl (Or.inl (Or.inl (Or.inl hm)))
    · exact Or.inl (Or.inl (Or.inr hm))
    · exact Or.inl (Or.inl (Or.inl (Or.inr hm)))
    · exact Or.inl (Or.inr hm)
  · intro he
    apply hfresh
    simp only [FB.takenNames, List.mem_append, List.mem_singleton]
    exact Or.inr he
  · exact hk _

/-! ## the generated source, character by character (`Text.lean`)

`FB.invocationSpecs` drops the ITEM `*`; the code removes CHARACTERS: `_KWONLY_MARKER.sub('', sig)`
with the regex `\*\s*,\s*` on `'(' + ', '.join(items) + ')'`, then `sig[1:-1]`. -/

/-- on the text of any builder state - any names (no `*`, no `,`, no white space in a name), any
    number of parameters of every kind - the regex substitution yields exactly the text of the
    invocation items: the bare `*` and its separator go, the star of `*args`, the stars of `**kw`,
    every name, every `k=k` and every other separator stay -/
theorem invocation_text (sp : Name → List Char) (hsp : ∀ n, NameText (sp n)) (fb : FB) :
    scan .norm ('(' :: (renderItems sp (formatArgspec fb.args fb.varargs fb.varkw fb.kwonlyargs true) ++ [')'])) =
      '(' :: (renderItems sp fb.invocationSpecs ++ [')']) := by
  rw [scan_parens, scan_render sp hsp _ (starNotLast_format _ _ _ _ _)]
  rfl

/-- the same substitution leaves the text of a parameter list WITH `*args` alone, and more
    generally every text without a bare star -/
theorem text_without_marker_unchanged (sp : Name → List Char) (hsp : ∀ n, NameText (sp n)) (l : List Spec)
    (hl : ∀ s ∈ l, notBareStar s = true) :
    scan .norm (renderItems sp l) = renderItems sp l := by
  rw [scan_render sp hsp l (starNotLast_of_allNB hl), List.filter_eq_self.mpr hl]

/-- nothing is lost by reading the text as a list of items: two item lists with the same text
    are the same list (names: not empty, no `*`, `,`, `=`, white space; distinct names are spelled
    differently) - in particular the `def` header and the `_call(...)` argument list Python
    compiles determine the builder's `sigSpecs` / `invocationSpecs` -/
theorem text_determines_items (sp : Name → List Char) (hsp : ∀ n, IdentText (sp n))
    (hinj : ∀ n m, sp n = sp m → n = m) (l l' : List Spec)
    (h : renderItems sp l = renderItems sp l') : l = l' :=
  renderItems_inj sp hsp hinj l l' h

/-- the character-level telling against the source as it is NOW: for each of the 36 builder
    shapes of the regenerated table, `'(' + ', '.join(items) + ')'` is the text `get_sig_str`
    returned, and the regex scanner applied to it, minus the parentheses, is the text
    `get_invocation_str` returned (modulo white space; evaluated by the kernel) -/
theorem generated_text_agrees : Gen.textTable.all textEntryOk = true := by decide +kernel

/-! ## several uses in one process (sessions)

`Session.lean`: a heap of dict objects; `from_func` allocates copies, the builder's mutators
write into the builder's `kwonlydefaults` dict in place, `get_func` installs the builder's
dicts in the new function, the user may edit `__kwdefaults__` / `__annotations__` of any
function in place.  A session is any list of requests (`update_wrapper` with any injected /
expected lists and options, a builder history, an in-place edit), each aimed at any function
existing at that moment. -/

/-- every state a session can reach keeps the dict objects of distinct functions distinct -/
theorem session_reachable_inv (fs : List Func) (rs : List Req) : Inv (run (St.init fs) rs).1 :=
  (run_refines rs (init_spec fs).1).1

/-- for every session: what the public API shows of every function at the end, and the
    outcome of every request, are those of the heap-free telling, in which each request is
    the pure `updateWrapper` / builder history applied to its target as it is at that moment
    and nothing else moves - no use of `wraps` can disturb another one -/
theorem session_refines (fs : List Func) (rs : List Req) :
    ((run (St.init fs) rs).1.view, (run (St.init fs) rs).2) = prun fs rs := by
  have h := (run_refines rs (init_spec fs).1).2
  rw [(init_spec fs).2] at h
  exact h

/-- one request, whatever it is, changes no function that existed before - the wrapped
    function included - except the one function an in-place edit is aimed at -/
theorem session_noninterference (s : St) (hi : Inv s) (r : Req) (i : Nat) (f : Func)
    (hf : s.view[i]? = some f) (hr : r.edits ≠ some i) : (step s r).1.view[i]? = some f := by
  have h := (step_refines hi r).2
  have hv : (step s r).1.view = (pstep s.view r).1 := by rw [← h]
  rw [hv]
  exact pstep_keeps s.view r i f hf hr

/-- the function a `wraps` / `update_wrapper` request returns is the one `Model.lean`
    describes (so every theorem above applies to it), and it stays that function whatever
    requests follow - on the same wrapped function, on other functions, on itself as a
    target - as long as nobody edits it -/
theorem session_built_stays (s : St) (hi : Inv s) (t : Nat) (inj : List Name)
    (exp : List (Name × Option Val)) (o : Opts) (f w : Func) (hf : s.view[t]? = some f)
    (hw : updateWrapper f inj exp o (s.funcs.length + 1) = .ok w) (rs : List Req)
    (hr : ∀ r ∈ rs, r.edits ≠ some s.funcs.length) :
    (step s (.wrap t inj exp o)).2 = .built ∧
      (run (step s (.wrap t inj exp o)).1 rs).1.view[s.funcs.length]? = some w := by
  obtain ⟨hi1, h1⟩ := step_refines hi (.wrap t inj exp o)
  have hp : pstep s.view (.wrap t inj exp o) = (s.view ++ [w], .built) := by
    simp only [pstep, hf, view_length, hw]
  rw [hp] at h1
  have h1a : (step s (.wrap t inj exp o)).1.view = s.view ++ [w] := (Prod.mk.inj h1).1
  have h1b : (step s (.wrap t inj exp o)).2 = .built := (Prod.mk.inj h1).2
  refine ⟨h1b, ?_⟩
  have h2 := (run_refines rs hi1).2
  have h2a : (run (step s (.wrap t inj exp o)).1 rs).1.view =
      (prun (step s (.wrap t inj exp o)).1.view rs).1 := by rw [← h2]
  rw [h2a, h1a]
  apply prun_keeps rs _ _ _ _ hr
  rw [← view_length, List.getElem?_append_right (Nat.le_refl _)]
  simp

/-- plain `wraps(f)` in the middle of any session: the new function has `f`'s own signature,
    annotations, kind and metadata - and still has them after any further requests that do
    not edit it -/
theorem session_wraps_timeless (s : St) (hi : Inv s) (t : Nat) (o : Opts) (f : Func)
    (hf : s.view[t]? = some f) (wf : WfFunc f) (rs : List Req)
    (hr : ∀ r ∈ rs, r.edits ≠ some s.funcs.length) :
    ∃ w, (run (step s (.wrap t [] [] o)).1 rs).1.view[s.funcs.length]? = some w ∧
      sigOf w = sigOf f ∧ w.ann = annOf f ∧ w.retAnn = f.retAnn ∧ w.isAsync = f.isAsync ∧
      w.name = f.name ∧ w.doc = f.doc ∧ w.module = f.module := by
  obtain ⟨w, hw, hs, ha, hret, hasy⟩ := sig_preserved f wf o (s.funcs.length + 1)
  obtain ⟨hn, hd, hm, _⟩ := metadata_preserved f o _ w hw
  exact ⟨w, (session_built_stays s hi t [] [] o f w hf hw rs hr).2, hs, ha, hret, hasy, hn, hd, hm⟩

/-! ## non-vacuity -/

/-- `def f(p1, p2=12, p3=13, *p7, p4, p5=25, **p9)` with annotations, a docstring -/
def exF : Func :=
  ⟨1, 1, some 5, some 2, [1, 2, 3], some 7, [4, 5], some 9, [12, 13], [(5, 25)], [(1, 31), (4, 34)],
   some 39, false, none, []⟩

example : WfFunc exF := ⟨by decide, by decide, by decide, by decide⟩
example : (bind (sigOf exF) ⟨[101, 102, 103, 104], [(4, 110), (8, 111)]⟩) =
    some ⟨[(1, 101), (2, 102), (3, 103)], some [104], [(4, 110), (5, 25)], some [(8, 111)]⟩ := by decide
example : (bind (sigOf exF) ⟨[101], [(2, 5)]⟩) = none := by decide   -- p4 missing
example : ¬ ∀ p ∈ (sigOf exF).kwonly, p.2.isSome ∨ (get? p.1 [(2, 5)]).isSome := by decide
example : (bind (sigOf exF) ⟨[101, 102], [(2, 5), (4, 1)]⟩) = none := by decide   -- p2 twice
example : (wraps exF).toOption.map (fun w => callWrapper w ⟨[101], [(4, 110), (8, 111)]⟩) =
    some (some ⟨[101, 12, 13], [(4, 110), (5, 25), (8, 111)]⟩) := by decide
example : (updateWrapper exF [2] []).toOption.map (fun w => (sigOf w).pos) =
    some [(1, none), (3, some 13)] := by decide
example : (updateWrapper exF [] [(6, none)]).toOption.map (fun w => (sigOf w).pos) =
    some [(1, none), (6, none), (2, some 12), (3, some 13)] := by decide
example : (updateWrapper exF [4] [(6, some 41)]).toOption.map (fun w => sigOf w) =
    some ⟨[(1, none), (2, some 12), (3, some 13), (6, some 41)], some 7, [(5, some 25)], some 9⟩ := by
  decide
def errOf (r : Except Err Func) : Option Err :=
  match r with
  | .error e => some e
  | .ok _ => none
example : (buildHistory exF [.remove 2, .add 6 none false, .add 8 (some 42) true, .remove 5]).toOption.map
    (fun w => sigOf w) = some ⟨[(1, none), (6, none), (3, some 13)], some 7, [(4, none), (8, some 42)], some 9⟩ := by
  decide
example : (wrapsN exF {} 3).toOption.map (fun w => (sigOf w, w.wrapped)) = some (sigOf exF, some 3) := by decide
example : (match wraps exF with
    | .ok w1 => (stackUp {} 2 [w1]).toOption.bind (fun ws => travel ws ⟨[101], [(4, 110), (8, 111)]⟩)
    | .error _ => none) = some ⟨[101, 12, 13], [(4, 110), (5, 25), (8, 111)]⟩ := by decide
example : errOf (updateWrapper exF [] [(7, none)]) = some .syntaxError := by decide
-- p4 (annotated 34) injected and expected again: the name is left open (`readdedW`); p1 keeps 31, p6 is new
example : readdedW [4] [(4, some 44), (6, none)] = [4] := by decide
example : (updateWrapper exF [4] [(4, some 44), (6, none)]).toOption.map
    (fun w => (get? 1 w.ann, get? 6 w.ann, paramNames w)) = some (some 31, none, [1, 6, 2, 3, 4, 7, 5, 9]) := by decide
example : readded [.remove 2, .add 6 none false, .remove 5, .add 2 (some 42) true] = [2] := by decide
example : errOf (updateWrapper { exF with varkw := none } [8] []) = some .missingArgument := by decide

-- names: `_call` = 90, `__call` = 91, `___call` = 92, …; `_func` = 80
-- def _call(p1, __call): the loop goes on to `___call`; always using `_call` would call the function itself,
-- and with a parameter of that name the argument
example : pickCall (fun k => 90 + k) (FB.fromFunc { exF with name := 90, args := [1, 91, 3] }).takenNames = 92 := by decide
example : (FB.fromFunc { exF with name := 90 }).calleeNaive (fun k => 90 + k) 80 = .self := by decide
example : (FB.fromFunc { exF with args := [1, 90, 3] }).calleeNaive (fun k => 90 + k) 80 = .argument := by decide
example : (FB.fromFunc { exF with name := 90, args := [1, 91, 3] }).callee (fun k => 90 + k) 80 = .userWrapper := by decide
-- inject p2 (default 12), p4 (keyword-only); expect p6 (required) and p8=48: p1, p3 keep place and default
example : (updateWrapper exF [2, 4] [(6, none), (8, some 48)]).toOption.map (fun w => sigOf w) =
    some ⟨[(1, none), (6, none), (3, some 13), (8, some 48)], some 7, [(5, some 25)], some 9⟩ := by decide

-- the regex on concrete text: `*, ` goes; `*args,` and `**kw` stay; white space around the comma is eaten
example : scan .norm "(a, b, *, k=k, j=j, **kw)".toList = "(a, b, k=k, j=j, **kw)".toList := by decide
example : scan .norm "(a, *args, k=k, **kw)".toList = "(a, *args, k=k, **kw)".toList := by decide
example : scan .norm "(* \t ,  k=k)".toList = "(k=k)".toList := by decide
example : scan .norm "(a, *)".toList = "(a, *)".toList := by decide
example : NameText "kwargs".toList := ⟨by decide, by decide⟩
example : IdentText "_call".toList := ⟨by decide, by decide⟩
example : splitItems [] "p1, *p7, p4=p4, **p9".toList =
    ["p1".toList, "*p7".toList, "p4=p4".toList, "**p9".toList] := by decide
example : renderItems (fun n => ['p', Char.ofNat (48 + n)]) (FB.fromFunc exF).invocationSpecs =
    "p1, p2, p3, *p7, p4=p4, p5=p5, **p9".toList := by decide

/-- the same function wrapped three times, the second time with its keyword-only `p5=25`
    injected; then the user edits the second wrapper: nobody else notices -/
example : (run (St.init [exF]) [.wrap 0 [] [] {}, .wrap 0 [5] [] {}, .wrap 0 [] [] {},
      .setKwd 2 4 (some 77)]).1.view.map (fun w => (sigOf w).kwonly) =
    [[(4, none), (5, some 25)], [(4, none), (5, some 25)], [(4, some 77)], [(4, none), (5, some 25)]] := by
  decide
example : (run (St.init [exF]) [.wrap 0 [] [] {}, .hist 1 [.remove 5, .add 8 (some 42) true], .wrap 1 [] [] {}]).2 =
    [.built, .built, .built] := by decide

end C13
