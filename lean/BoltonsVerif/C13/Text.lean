import BoltonsVerif.C13.Model
/-
C13 — the generated source at CHARACTER level.

`Model.lean` treats the text `get_sig_str` / `get_invocation_str` produce as a list of
comma-separated items (`Spec`), and the removal of the keyword-only marker as dropping the item
`*` (`filter notBareStar`).  The code works on characters:

    inspect_formatargspec:   '(' + ', '.join(specs) + ')'
    get_invocation_str:      sig = _KWONLY_MARKER.sub('', sig);  return sig[1:-1]
    _KWONLY_MARKER = re.compile(r"\*\s*,\s*")        (written with re.VERBOSE)

This file has the character-level telling - `renderItems` (the join), `scan` (what
`re.sub(r'\*\s*,\s*', '', ·)` does: left to right, non-overlapping, every `\s*` greedy; since a
comma is no white space no backtracking is ever needed, so a three-state scanner is exact) - and
proves that on every text the builder can produce the two tellings agree (`scan_render`,
`invocation_text` in `Props.lean`): the regex removes the bare `*` item with its separator and
nothing else - not the star of `*args`, not the stars of `**kw` - whatever the names are, as long
as a name contains no `*`, no `,` and no white space.
Conversely the text determines the items (`renderItems_inj`; names additionally without `=`).
Names are spelled by an arbitrary `sp : Name → List Char` with that property.  Core Lean only.
-/
namespace C13

/-- `\s` on the characters that can occur -/
def isWs (c : Char) : Bool :=
  c == ' ' || c == '\t' || c == '\n' || c == '\r' || c == '\x0b' || c == '\x0c'

/-- one item as text -/
def specText (sp : Name → List Char) : Spec → List Char
  | .plain n => sp n
  | .star n => '*' :: sp n
  | .bareStar => ['*']
  | .kw k v => sp k ++ '=' :: sp v
  | .dstar n => '*' :: '*' :: sp n

/-- `', '.join(specs)` -/
def renderItems (sp : Name → List Char) : List Spec → List Char
  | [] => []
  | [s] => specText sp s
  | s :: t :: r => specText sp s ++ ',' :: ' ' :: renderItems sp (t :: r)

/-- states of the scanner for `\*\s*,\s*`: outside a candidate match / inside one, having read
    `*` and some white space (`buf`, given back if no comma follows) / after the comma, eating
    white space -/
inductive MS where
  | norm
  | star (buf : List Char)
  | after

/-- `re.sub(r'\*\s*,\s*', '', text)` -/
def scan : MS → List Char → List Char
  | .norm, [] => []
  | .norm, c :: r => if c = '*' then scan (.star ['*']) r else c :: scan .norm r
  | .star buf, [] => buf
  | .star buf, c :: r =>
    if isWs c then scan (.star (buf ++ [c])) r
    else if c = ',' then scan .after r
    else if c = '*' then buf ++ scan (.star ['*']) r
    else buf ++ c :: scan .norm r
  | .after, [] => []
  | .after, c :: r =>
    if isWs c then scan .after r
    else if c = '*' then scan (.star ['*']) r
    else c :: scan .norm r

/-- what a name may look like for the regex not to be fooled: not empty, no star, no comma, no
    white space (every Python identifier qualifies) -/
def NameText (s : List Char) : Prop :=
  s ≠ [] ∧ ∀ c ∈ s, c ≠ '*' ∧ c ≠ ',' ∧ isWs c = false

/-- the bare star is never the last item (the builder emits it only in front of keyword-only
    parameters) -/
def starNotLast : List Spec → Bool
  | [] => true
  | [.bareStar] => false
  | _ :: r => starNotLast r

/-! the tie to the source: `Generated/C13_Text.lean` holds the text the CURRENT
    `get_sig_str(with_annotations=False)` / `get_invocation_str()` return for 36 builder shapes
    (regenerated on every run); `textEntryOk` compares it, modulo white space, with what this
    file's character-level telling produces (`Props.generated_text_agrees`) -/

def stripWs (l : List Char) : List Char := l.filter (fun c => !isWs c)

/-- the spelling used in the generated table: `p<digit>` -/
def spDigit (n : Name) : List Char := ['p', Char.ofNat (48 + n)]

def textEntryOk (e : (List Nat × Option Nat × List Nat × Option Nat) × String × String) : Bool :=
  let args := e.1.1
  let va := e.1.2.1
  let kwo := e.1.2.2.1
  let vk := e.1.2.2.2
  stripWs ('(' :: (renderItems spDigit (formatArgspec args va vk kwo false) ++ [')'])) == stripWs e.2.1.toList &&
  stripWs (((scan .norm ('(' :: (renderItems spDigit (formatArgspec args va vk kwo true) ++ [')']))).drop 1).dropLast)
    == stripWs e.2.2.toList

/-! proofs -/

theorem scan_norm_cons (c : Char) (r : List Char) :
    scan .norm (c :: r) = if c = '*' then scan (.star ['*']) r else c :: scan .norm r := rfl

/-- a stretch of text without a star passes through -/
theorem scan_norm_plain (s rest : List Char) (h : ∀ c ∈ s, c ≠ '*') :
    scan .norm (s ++ rest) = s ++ scan .norm rest := by
  induction s with
  | nil => rfl
  | cons c r ih =>
    have hc : c ≠ '*' := h c (by simp)
    rw [List.cons_append, scan_norm_cons, if_neg hc, ih (fun d hd => h d (by simp [hd]))]
    rfl

/-- a star followed by something that is neither white space nor a comma stays -/
theorem scan_norm_star_keep (c : Char) (r : List Char) (hw : isWs c = false) (hc : c ≠ ',') :
    scan .norm ('*' :: c :: r) = '*' :: scan .norm (c :: r) := by
  rw [scan_norm_cons, if_pos rfl]
  show scan (.star ['*']) (c :: r) = _
  by_cases hs : c = '*'
  · subst hs
    simp only [scan, hw, Bool.false_eq_true, if_false, if_neg hc, if_true]
    rfl
  · simp only [scan, hw, Bool.false_eq_true, if_false, if_neg hc, if_neg hs]
    rfl

/-- `*, x…` with `x` no white space: the marker goes, scanning goes on at `x` -/
theorem scan_norm_marker (c : Char) (r : List Char) (hw : isWs c = false) :
    scan .norm ('*' :: ',' :: ' ' :: c :: r) = scan .norm (c :: r) := by
  rw [scan_norm_cons, if_pos rfl]
  have h1 : scan (.star ['*']) (',' :: ' ' :: c :: r) = scan .after (' ' :: c :: r) := by
    rw [scan]
    have : isWs ',' = false := by decide
    simp only [this, Bool.false_eq_true, if_false, if_true]
  have h2 : scan .after (' ' :: c :: r) = scan .after (c :: r) := by
    rw [scan]
    have : isWs ' ' = true := by decide
    simp only [this, if_true]
  have h3 : scan .after (c :: r) = scan .norm (c :: r) := by
    simp only [scan, hw, Bool.false_eq_true, if_false]
  rw [h1, h2, h3]

theorem specText_head (sp : Name → List Char) (hsp : ∀ n, NameText (sp n)) (s : Spec) :
    ∃ c r, specText sp s = c :: r ∧ isWs c = false ∧ c ≠ ',' := by
  have hd : ∀ n, ∃ c r, sp n = c :: r ∧ isWs c = false ∧ c ≠ ',' := by
    intro n
    obtain ⟨hne, hall⟩ := hsp n
    cases h : sp n with
    | nil => exact absurd h hne
    | cons c r =>
      have := hall c (by rw [h]; simp)
      exact ⟨c, r, rfl, this.2.2, this.2.1⟩
  cases s with
  | plain n => exact hd n
  | star n => exact ⟨'*', sp n, rfl, by decide, by decide⟩
  | bareStar => exact ⟨'*', [], rfl, by decide, by decide⟩
  | kw k v =>
    obtain ⟨c, r, h, h1, h2⟩ := hd k
    exact ⟨c, r ++ '=' :: sp v, by simp [specText, h], h1, h2⟩
  | dstar n => exact ⟨'*', '*' :: sp n, rfl, by decide, by decide⟩

theorem renderItems_head (sp : Name → List Char) (hsp : ∀ n, NameText (sp n)) (s : Spec) (l : List Spec) :
    ∃ c r, renderItems sp (s :: l) = c :: r ∧ isWs c = false ∧ c ≠ ',' := by
  obtain ⟨c, r, h, h1, h2⟩ := specText_head sp hsp s
  cases l with
  | nil => exact ⟨c, r, h, h1, h2⟩
  | cons t l' => exact ⟨c, r ++ ',' :: ' ' :: renderItems sp (t :: l'), by simp [renderItems, h], h1, h2⟩

/-- the text of one item that is not the bare star passes through unchanged -/
theorem scan_norm_item (sp : Name → List Char) (hsp : ∀ n, NameText (sp n)) (s : Spec)
    (hs : notBareStar s = true) (rest : List Char) :
    scan .norm (specText sp s ++ rest) = specText sp s ++ scan .norm rest := by
  have hns : ∀ n, ∀ c ∈ sp n, c ≠ '*' := fun n c hc => ((hsp n).2 c hc).1
  have hd : ∀ n (tl : List Char), ∃ c r, sp n ++ tl = c :: r ∧ isWs c = false ∧ c ≠ ',' := by
    intro n tl
    obtain ⟨hne, hall⟩ := hsp n
    cases h : sp n with
    | nil => exact absurd h hne
    | cons c r =>
      have := hall c (by rw [h]; simp)
      exact ⟨c, r ++ tl, rfl, this.2.2, this.2.1⟩
  cases s with
  | plain n => exact scan_norm_plain _ _ (hns n)
  | star n =>
    obtain ⟨c, r, h, h1, h2⟩ := hd n rest
    show scan .norm ('*' :: (sp n ++ rest)) = '*' :: (sp n ++ scan .norm rest)
    rw [h, scan_norm_star_keep c r h1 h2, ← h, scan_norm_plain _ _ (hns n)]
  | bareStar => simp [notBareStar] at hs
  | kw k v =>
    show scan .norm ((sp k ++ '=' :: sp v) ++ rest) = (sp k ++ '=' :: sp v) ++ scan .norm rest
    rw [List.append_assoc, scan_norm_plain _ _ (hns k), List.cons_append, scan_norm_cons,
      if_neg (by decide), scan_norm_plain _ _ (hns v)]
    simp
  | dstar n =>
    obtain ⟨c, r, h, h1, h2⟩ := hd n rest
    show scan .norm ('*' :: '*' :: (sp n ++ rest)) = '*' :: '*' :: (sp n ++ scan .norm rest)
    rw [scan_norm_star_keep '*' _ (by decide) (by decide), h, scan_norm_star_keep c r h1 h2, ← h,
      scan_norm_plain _ _ (hns n)]

theorem scan_norm_item_last (sp : Name → List Char) (hsp : ∀ n, NameText (sp n)) (s : Spec)
    (hs : notBareStar s = true) : scan .norm (renderItems sp [s]) = renderItems sp [s] := by
  have := scan_norm_item sp hsp s hs []
  rw [List.append_nil] at this
  show scan .norm (specText sp s) = specText sp s
  rw [this]
  exact List.append_nil _

theorem filter_nil_of_starNotLast {l : List Spec} (h : starNotLast l = true)
    (hf : l.filter notBareStar = []) : l = [] := by
  induction l with
  | nil => rfl
  | cons s r ih =>
    cases s with
    | bareStar =>
      cases r with
      | nil => simp [starNotLast] at h
      | cons t r' =>
        have h' : starNotLast (t :: r') = true := by simpa [starNotLast] using h
        have hf' : (t :: r').filter notBareStar = [] := by simpa [notBareStar] using hf
        exact absurd (ih h' hf') (by simp)
    | plain n => simp [notBareStar] at hf
    | star n => simp [notBareStar] at hf
    | kw k v => simp [notBareStar] at hf
    | dstar n => simp [notBareStar] at hf

/-- on the text of any item list in which the bare star is not last, the regex substitution
    gives the text of the items without the bare star -/
theorem scan_render (sp : Name → List Char) (hsp : ∀ n, NameText (sp n)) (l : List Spec)
    (hl : starNotLast l = true) :
    scan .norm (renderItems sp l) = renderItems sp (l.filter notBareStar) := by
  induction l with
  | nil => rfl
  | cons s r ih =>
    cases r with
    | nil =>
      by_cases hs : notBareStar s = true
      · rw [List.filter_cons_of_pos hs]
        exact scan_norm_item_last sp hsp s hs
      · have hb : s = .bareStar := by
          cases s <;> simp [notBareStar] at hs ⊢
        subst hb
        simp [starNotLast] at hl
    | cons t r' =>
      have hl' : starNotLast (t :: r') = true := by
        cases s <;> simpa [starNotLast] using hl
      have ih' := ih hl'
      obtain ⟨c, q, hcq, hw, _⟩ := renderItems_head sp hsp t r'
      by_cases hs : notBareStar s = true
      · -- the item stays; so does its separator
        have hne : (t :: r').filter notBareStar ≠ [] := fun hf => by
          have := filter_nil_of_starNotLast hl' hf; simp at this
        have hstep : scan .norm (renderItems sp (s :: t :: r')) =
            specText sp s ++ ',' :: ' ' :: scan .norm (renderItems sp (t :: r')) := by
          show scan .norm (specText sp s ++ ',' :: ' ' :: renderItems sp (t :: r')) = _
          rw [scan_norm_item sp hsp s hs, scan_norm_cons, if_neg (by decide), scan_norm_cons,
            if_neg (by decide)]
        rw [hstep, ih', List.filter_cons_of_pos hs]
        cases hf : (t :: r').filter notBareStar with
        | nil => exact absurd hf hne
        | cons u v => rfl
      · -- the bare star and its separator go
        have hb : s = .bareStar := by
          cases s <;> simp [notBareStar] at hs ⊢
        subst hb
        rw [List.filter_cons_of_neg hs, ← ih']
        show scan .norm ('*' :: ',' :: ' ' :: renderItems sp (t :: r')) = _
        rw [hcq, scan_norm_marker c q hw]

/-- the closing parenthesis behind the text changes nothing -/
theorem scan_close (st : MS) (t : List Char) : scan st (t ++ [')']) = scan st t ++ [')'] := by
  induction t generalizing st with
  | nil =>
    cases st with
    | norm => rfl
    | star buf => simp [scan, isWs]
    | after => simp [scan, isWs]
  | cons c r ih =>
    cases st with
    | norm =>
      simp only [List.cons_append, scan]
      split
      · exact ih _
      · rw [ih]; rfl
    | star buf =>
      simp only [List.cons_append, scan]
      split
      · exact ih _
      · split
        · exact ih _
        · split
          · rw [ih, List.append_assoc]
          · rw [ih]; simp
    | after =>
      simp only [List.cons_append, scan]
      split
      · exact ih _
      · split
        · exact ih _
        · rw [ih]; rfl

/-- `'(' + text + ')'` -/
theorem scan_parens (t : List Char) : scan .norm ('(' :: (t ++ [')'])) = '(' :: (scan .norm t ++ [')']) := by
  rw [scan_norm_cons, if_neg (by decide), scan_close]

def allNB (l : List Spec) : Prop := ∀ s ∈ l, notBareStar s = true

theorem starNotLast_append {a b : List Spec} (ha : allNB a) (hb : starNotLast b = true) :
    starNotLast (a ++ b) = true := by
  induction a with
  | nil => exact hb
  | cons s r ih =>
    have hs := ha s (by simp)
    have ih' := ih (fun x hx => ha x (by simp [hx]))
    cases s with
    | bareStar => simp [notBareStar] at hs
    | plain n => cases hrb : r ++ b <;> simp_all [starNotLast]
    | star n => cases hrb : r ++ b <;> simp_all [starNotLast]
    | kw k v => cases hrb : r ++ b <;> simp_all [starNotLast]
    | dstar n => cases hrb : r ++ b <;> simp_all [starNotLast]

theorem starNotLast_of_allNB {a : List Spec} (ha : allNB a) : starNotLast a = true := by
  have := starNotLast_append ha (b := []) rfl
  rwa [List.append_nil] at this

theorem starNotLast_parts (A M K T : List Spec) (hA : allNB A) (hK : allNB K) (hT : allNB T)
    (hM : allNB M ∨ (M = [Spec.bareStar] ∧ K ≠ [])) : starNotLast (A ++ M ++ K ++ T) = true := by
  have hkt : allNB (K ++ T) := by
    intro s hs
    rcases List.mem_append.mp hs with h | h
    · exact hK s h
    · exact hT s h
  rw [List.append_assoc, List.append_assoc]
  apply starNotLast_append hA
  rcases hM with hM | ⟨rfl, hKne⟩
  · exact starNotLast_append hM (starNotLast_of_allNB hkt)
  · have h2 := starNotLast_of_allNB hkt
    cases K with
    | nil => exact absurd rfl hKne
    | cons k ks =>
      simp only [List.cons_append, List.nil_append] at h2 ⊢
      simpa [starNotLast] using h2

/-- the items of `inspect_formatargspec` never end in the bare star -/
theorem starNotLast_format (args : List Name) (va vk : Option Name) (kwo : List Name) (asPairs : Bool) :
    starNotLast (formatArgspec args va vk kwo asPairs) = true := by
  have hkw : allNB (kwo.map (fun k => if asPairs then Spec.kw k k else Spec.plain k)) := by
    intro s hs
    obtain ⟨k, _, rfl⟩ := List.mem_map.mp hs
    cases asPairs <;> rfl
  have hargs : allNB (args.map Spec.plain) := by
    intro s hs
    obtain ⟨k, _, rfl⟩ := List.mem_map.mp hs
    rfl
  have hnil : allNB [] := by intro s hs; simp at hs
  have hone : ∀ s, notBareStar s = true → allNB [s] := by
    intro s h x hx; simp at hx; subst hx; exact h
  cases vk with
  | none =>
    cases va with
    | some v => exact starNotLast_parts _ [Spec.star v] _ [] hargs hkw hnil (Or.inl (hone _ rfl))
    | none =>
      cases kwo with
      | nil => exact starNotLast_parts _ [] _ [] hargs hkw hnil (Or.inl hnil)
      | cons k ks =>
        exact starNotLast_parts _ [Spec.bareStar] _ [] hargs hkw hnil (Or.inr ⟨rfl, by simp⟩)
  | some u =>
    cases va with
    | some v =>
      exact starNotLast_parts _ [Spec.star v] _ [Spec.dstar u] hargs hkw (hone _ rfl) (Or.inl (hone _ rfl))
    | none =>
      cases kwo with
      | nil => exact starNotLast_parts _ [] _ [Spec.dstar u] hargs hkw (hone _ rfl) (Or.inl hnil)
      | cons k ks =>
        exact starNotLast_parts _ [Spec.bareStar] _ [Spec.dstar u] hargs hkw (hone _ rfl)
          (Or.inr ⟨rfl, by simp⟩)

/-! ### the text determines the items

The other direction of "source text is modelled as a list of items": nothing is lost by it.
`splitItems` is `text.split(', ')`; on the text of an item list it gives back the texts of the
items (`splitItems_render`), distinct items have distinct texts (`specText_inj`), hence two item
lists with the same text are equal (`renderItems_inj`). -/

/-- a name as it may be spelled in a parameter list: not empty; no star, comma, equals sign or
    white space -/
def IdentText (s : List Char) : Prop :=
  s ≠ [] ∧ ∀ c ∈ s, c ≠ '*' ∧ c ≠ ',' ∧ c ≠ '=' ∧ isWs c = false

/-- `text.split(', ')` for text whose items contain no comma -/
def splitItems : List Char → List Char → List (List Char)
  | acc, [] => [acc]
  | acc, ',' :: ' ' :: r => acc :: splitItems [] r
  | acc, c :: r => splitItems (acc ++ [c]) r

theorem splitItems_sep (acc r : List Char) : splitItems acc (',' :: ' ' :: r) = acc :: splitItems [] r := by
  rw [splitItems]

theorem splitItems_other (acc : List Char) (c : Char) (r : List Char) (hc : c ≠ ',') :
    splitItems acc (c :: r) = splitItems (acc ++ [c]) r := by
  rw [splitItems]
  intro r' h1 h2
  exact hc h1

theorem splitItems_plain (acc t rest : List Char) (h : ∀ c ∈ t, c ≠ ',') :
    splitItems acc (t ++ rest) = splitItems (acc ++ t) rest := by
  induction t generalizing acc with
  | nil => simp
  | cons c r ih =>
    have hc : c ≠ ',' := h c (by simp)
    rw [List.cons_append, splitItems_other _ _ _ hc, ih _ (fun d hd => h d (by simp [hd]))]
    simp

theorem specText_noComma (sp : Name → List Char) (hsp : ∀ n, IdentText (sp n)) (s : Spec) :
    ∀ c ∈ specText sp s, c ≠ ',' := by
  have hn : ∀ n, ∀ c ∈ sp n, c ≠ ',' := fun n c hc => ((hsp n).2 c hc).2.1
  intro c hc
  cases s with
  | plain n => exact hn n c hc
  | star n =>
    simp only [specText, List.mem_cons] at hc
    rcases hc with rfl | hc
    · decide
    · exact hn n c hc
  | bareStar =>
    simp only [specText, List.mem_cons, List.not_mem_nil, or_false] at hc
    subst hc; decide
  | kw k v =>
    simp only [specText, List.mem_append, List.mem_cons] at hc
    rcases hc with hc | rfl | hc
    · exact hn k c hc
    · decide
    · exact hn v c hc
  | dstar n =>
    simp only [specText, List.mem_cons] at hc
    rcases hc with rfl | rfl | hc
    · decide
    · decide
    · exact hn n c hc

/-- splitting the text at `', '` gives back the texts of the items -/
theorem splitItems_render (sp : Name → List Char) (hsp : ∀ n, IdentText (sp n)) (s : Spec) (l : List Spec)
    (acc : List Char) :
    splitItems acc (renderItems sp (s :: l)) =
      (acc ++ specText sp s) :: l.map (specText sp) := by
  induction l generalizing s acc with
  | nil =>
    show splitItems acc (specText sp s) = _
    have := splitItems_plain acc (specText sp s) [] (specText_noComma sp hsp s)
    rw [List.append_nil] at this
    rw [this, splitItems]; rfl
  | cons t r ih =>
    show splitItems acc (specText sp s ++ ',' :: ' ' :: renderItems sp (t :: r)) = _
    rw [splitItems_plain _ _ _ (specText_noComma sp hsp s), splitItems_sep]
    show (acc ++ specText sp s) :: splitItems [] (renderItems sp (t :: r)) = _
    rw [ih t []]
    simp

/-- `a ++ x :: b` splits uniquely at the first `x` -/
theorem append_cons_inj {x : Char} {a a' b b' : List Char} (ha : x ∉ a) (ha' : x ∉ a')
    (h : a ++ x :: b = a' ++ x :: b') : a = a' ∧ b = b' := by
  induction a generalizing a' with
  | nil =>
    cases a' with
    | nil => simp at h; exact ⟨rfl, h⟩
    | cons c r =>
      simp only [List.nil_append, List.cons_append, List.cons.injEq] at h
      exact absurd h.1 (fun e => ha' (by simp [e]))
  | cons c r ih =>
    cases a' with
    | nil =>
      simp only [List.nil_append, List.cons_append, List.cons.injEq] at h
      exact absurd h.1.symm (fun e => ha (by simp [e]))
    | cons c' r' =>
      simp only [List.cons_append, List.cons.injEq] at h
      obtain ⟨h1, h2⟩ := ih (fun hm => ha (by simp [hm])) (fun hm => ha' (by simp [hm])) h.2
      exact ⟨by rw [h.1, h1], h2⟩

/-- distinct items have distinct texts -/
theorem specText_inj (sp : Name → List Char) (hsp : ∀ n, IdentText (sp n))
    (hinj : ∀ n m, sp n = sp m → n = m) (s s' : Spec) (h : specText sp s = specText sp s') : s = s' := by
  have hne : ∀ n, sp n ≠ [] := fun n => (hsp n).1
  have hstar : ∀ n, '*' ∉ sp n := fun n hm => ((hsp n).2 _ hm).1 rfl
  have heq : ∀ n, '=' ∉ sp n := fun n hm => ((hsp n).2 _ hm).2.2.1 rfl
  have hhead : ∀ n r, sp n ≠ '*' :: r := fun n r e => hstar n (by rw [e]; simp)
  have hkw : ∀ n k v, sp n ≠ sp k ++ '=' :: sp v := fun n k v e => heq n (by rw [e]; simp)
  cases s <;> cases s' <;> simp only [specText] at h
  case plain.plain n m => rw [hinj n m h]
  case plain.star n m => exact absurd h (hhead n _)
  case plain.bareStar n => exact absurd h (hhead n _)
  case plain.kw n k v => exact absurd h (hkw n k v)
  case plain.dstar n m => exact absurd h (hhead n _)
  case star.plain n m => exact absurd h.symm (hhead m _)
  case star.star n m => rw [hinj n m (List.cons.inj h).2]
  case star.bareStar n => exact absurd (List.cons.inj h).2 (hne n)
  case star.kw n k v =>
    cases hk : sp k with
    | nil => exact absurd hk (hne k)
    | cons c r =>
      rw [hk] at h
      have : c = '*' := (List.cons.inj h).1.symm
      exact absurd (by rw [hk, this]; simp) (hstar k)
  case star.dstar n m => exact absurd (List.cons.inj h).2 (hhead n _)
  case bareStar.plain m => exact absurd h.symm (hhead m _)
  case bareStar.star m => exact absurd (List.cons.inj h).2.symm (hne m)
  case bareStar.bareStar => rfl
  case bareStar.kw k v =>
    cases hk : sp k with
    | nil => exact absurd hk (hne k)
    | cons c r =>
      rw [hk] at h
      have : c = '*' := (List.cons.inj h).1.symm
      exact absurd (by rw [hk, this]; simp) (hstar k)
  case bareStar.dstar m => simp at h
  case kw.plain k v m => exact absurd h.symm (hkw m k v)
  case kw.star k v m =>
    cases hk : sp k with
    | nil => exact absurd hk (hne k)
    | cons c r =>
      rw [hk] at h
      have : c = '*' := (List.cons.inj h).1
      exact absurd (by rw [hk, this]; simp) (hstar k)
  case kw.bareStar k v =>
    cases hk : sp k with
    | nil => exact absurd hk (hne k)
    | cons c r =>
      rw [hk] at h
      have : c = '*' := (List.cons.inj h).1
      exact absurd (by rw [hk, this]; simp) (hstar k)
  case kw.kw k v k' v' =>
    obtain ⟨h1, h2⟩ := append_cons_inj (heq k) (heq k') h
    rw [hinj k k' h1, hinj v v' h2]
  case kw.dstar k v m =>
    cases hk : sp k with
    | nil => exact absurd hk (hne k)
    | cons c r =>
      rw [hk] at h
      have : c = '*' := (List.cons.inj h).1
      exact absurd (by rw [hk, this]; simp) (hstar k)
  case dstar.plain n m => exact absurd h.symm (hhead m _)
  case dstar.star n m => exact absurd (List.cons.inj h).2.symm (hhead m _)
  case dstar.bareStar n => simp at h
  case dstar.kw n k v =>
    cases hk : sp k with
    | nil => exact absurd hk (hne k)
    | cons c r =>
      rw [hk] at h
      have : c = '*' := (List.cons.inj h).1.symm
      exact absurd (by rw [hk, this]; simp) (hstar k)
  case dstar.dstar n m => rw [hinj n m (List.cons.inj (List.cons.inj h).2).2]

theorem renderItems_ne_nil (sp : Name → List Char) (hsp : ∀ n, IdentText (sp n)) (s : Spec) (l : List Spec) :
    renderItems sp (s :: l) ≠ [] := by
  have hs : specText sp s ≠ [] := by
    cases s <;> simp [specText, (hsp _).1]
  cases l with
  | nil => exact hs
  | cons t r =>
    show specText sp s ++ _ ≠ []
    simp [hs]

/-- the text determines the items: two item lists with the same text are the same list -/
theorem renderItems_inj (sp : Name → List Char) (hsp : ∀ n, IdentText (sp n))
    (hinj : ∀ n m, sp n = sp m → n = m) (l l' : List Spec)
    (h : renderItems sp l = renderItems sp l') : l = l' := by
  cases l with
  | nil =>
    cases l' with
    | nil => rfl
    | cons s r => exact absurd h.symm (renderItems_ne_nil sp hsp s r)
  | cons s r =>
    cases l' with
    | nil => exact absurd h (renderItems_ne_nil sp hsp s r)
    | cons s' r' =>
      have h1 := splitItems_render sp hsp s r []
      have h2 := splitItems_render sp hsp s' r' []
      rw [h] at h1
      rw [h1] at h2
      simp only [List.nil_append, List.cons.injEq] at h2
      have hmap : (s :: r).map (specText sp) = (s' :: r').map (specText sp) := by
        simp only [List.map_cons, h2.1, h2.2]
      exact (List.map_inj_right (fun a b hab => specText_inj sp hsp hinj a b hab)).mp hmap

end C13
