import BoltonsVerif.C13.Props
import BoltonsVerif.Generated.Src_funcutils_fb
/-
C13 — source-translator tie (round 3c): `boltons.funcutils.FunctionBuilder`.

`Generated/Src_funcutils_fb.lean` is regenerated from `boltons/funcutils.py` on every run
(harness/py2lean.py with the extension module harness/py2lean_c13.py; raising mode, object state
`FunctionBuilder.St κ ν`).  The theorems below state that the generated methods, on a state that stands
for a builder state `fb` of the hand model (`Rep st fb`), compute what `Model.lean` says
(`FB.defaultsDict`, `FB.argNames`, `FB.addArg`, `FB.removeArg`), including WHICH exception leaves the
method (`MissingArgument` / `ExistingArgument` = `ValueError` + the tag in `exc_sub`) and that a failed
call leaves the builder as it was.

Proof style: the generated definitions are unfolded by name only (`simp only [<generated names>]`); what
remains is rewritten with specification lemmas about the runtime operations (`find_eq_get?`,
`set_eq_dset`, `update_eq_dupdate`, `erase_eq_dpop`, `ofPairs_of_nodup`, `listRemove?_mem`, …) and closed by case
analysis found by `split` - no step refers to the statement order of the source.
-/
namespace C13
open Src.funcutils

/-- the object state of the translated class at the model's item types -/
abbrev SrcFB := FunctionBuilder.St Name Val

/-- `st` stands for the model builder state `fb`: the same names / defaults / dicts; `defaults` may be `None` or an
    empty tuple where the model has `[]`; no user-defined exception is in flight -/
structure Rep (st : SrcFB) (fb : FB) : Prop where
  name : st.name = fb.name
  args : st.args = fb.args
  defaults : PyRtC13.orEmpty st.defaults = fb.defaults
  kwonlyargs : st.kwonlyargs = fb.kwonlyargs
  kwonlydefaults : st.kwonlydefaults = fb.kwonlydefaults
  varargs : st.varargs = fb.varargs
  varkw : st.varkw = fb.varkw
  tag : st.exc_sub = 0

/-- the state `from_func` / a history of mutators leaves: `defaults` is a tuple, or `None` when `asNone` and there
    are none -/
def conc (fb : FB) (asNone : Bool := false) : SrcFB :=
  { name := fb.name, args := fb.args,
    defaults := if asNone && fb.defaults.isEmpty then none else some fb.defaults,
    kwonlyargs := fb.kwonlyargs, kwonlydefaults := fb.kwonlydefaults, varargs := fb.varargs, varkw := fb.varkw,
    exc_sub := 0 }

theorem rep_conc (fb : FB) (b : Bool) : Rep (conc fb b) fb := by
  refine ⟨rfl, rfl, ?_, rfl, rfl, rfl, rfl, rfl⟩
  unfold conc PyRtC13.orEmpty
  cases b <;> cases hd : fb.defaults <;> simp

/-! ### the runtime operations on the model's association lists -/

section bridge
variable {α : Type}

theorem find_eq_get? (d : List (Name × α)) (k : Name) : PyRt.Dict.find d k = get? k d := by
  induction d with
  | nil => rfl
  | cons p r ih => obtain ⟨k', v⟩ := p; simp only [PyRt.Dict.find, get?, ih]

theorem set_eq_dset (d : List (Name × α)) (k : Name) (v : α) : PyRt.Dict.set d k v = dset k v d := by
  induction d with
  | nil => rfl
  | cons p r ih =>
    obtain ⟨k', v'⟩ := p
    simp only [PyRt.Dict.set, dset, ih]
    by_cases e : k' = k <;> simp [e]

theorem update_eq_dupdate (d o : List (Name × α)) : PyRt.Dict.update d o = dupdate d o := by
  unfold PyRt.Dict.update dupdate
  induction o generalizing d with
  | nil => rfl
  | cons p r ih => simp only [List.foldl_cons, set_eq_dset, ih]

theorem erase_eq_dpop {d : List (Name × α)} (hn : (d.map Prod.fst).Nodup) (k : Name) :
    PyRt.Dict.erase d k = dpop k d := by
  rw [dpop_eq_filter hn]
  unfold PyRt.Dict.erase
  apply List.filter_congr
  intro p _
  cases h : (p.1 == k) <;> simp_all [keyNe]

theorem dset_append_of_not_mem {d : List (Name × α)} {k : Name} (v : α) (h : k ∉ d.map Prod.fst) :
    dset k v d = d ++ [(k, v)] := by
  induction d with
  | nil => rfl
  | cons p r ih =>
    obtain ⟨k', v'⟩ := p
    simp only [List.map_cons, List.mem_cons, not_or] at h
    simp only [dset, if_neg (fun e : k' = k => h.1 e.symm), ih h.2, List.cons_append]

theorem dupdate_append_of_nodup (d o : List (Name × α)) (hn : ((d ++ o).map Prod.fst).Nodup) :
    dupdate d o = d ++ o := by
  unfold dupdate
  induction o generalizing d with
  | nil => simp
  | cons p r ih =>
    obtain ⟨k, v⟩ := p
    have hk : k ∉ d.map Prod.fst := by
      intro hm
      rw [List.map_append, List.nodup_append] at hn
      exact hn.2.2 k hm k (by simp) rfl
    rw [List.foldl_cons, dset_append_of_not_mem v hk, ih _ (by simpa using hn)]
    simp

/-- `dict(pairs)` of pairs with pairwise different keys is the list of pairs -/
theorem ofPairs_of_nodup (l : List (Name × α)) (hn : (l.map Prod.fst).Nodup) : PyRt.Dict.ofPairs l = l := by
  unfold PyRt.Dict.ofPairs
  rw [update_eq_dupdate, dupdate_append_of_nodup [] l (by simpa using hn)]
  rfl

theorem dict_contains_eq (d : List (Name × α)) (k : Name) : PyRt.Dict.contains d k = (get? k d).isSome := by
  unfold PyRt.Dict.contains; rw [find_eq_get?]

theorem contains_iff (l : List Name) (x : Name) : PyRt.contains l x = true ↔ x ∈ l := by
  unfold PyRt.contains
  simp only [List.any_eq_true, decide_eq_true_eq]
  exact ⟨fun ⟨y, hy, e⟩ => e ▸ hy, fun h => ⟨x, h, rfl⟩⟩

theorem keys_dset (k : Name) (v : α) (d : List (Name × α)) (hn : (d.map Prod.fst).Nodup) :
    ((dset k v d).map Prod.fst).Nodup := by
  by_cases hk : k ∈ d.map Prod.fst
  · have : (dset k v d).map Prod.fst = d.map Prod.fst := by
      clear hn
      induction d with
      | nil => simp at hk
      | cons p r ih =>
        obtain ⟨k', v'⟩ := p
        by_cases e : k' = k
        · simp [dset, e]
        · have hk' : k ∈ r.map Prod.fst := by
            simp only [List.map_cons, List.mem_cons] at hk
            rcases hk with hk | hk
            · exact absurd hk.symm e
            · exact hk
          simp only [dset, if_neg e, List.map_cons, ih hk']
    rw [this]; exact hn
  · rw [dset_append_of_not_mem v hk, List.map_append]
    apply List.nodup_append.mpr
    exact ⟨hn, by simp, fun a ha b hb => by simp at hb; subst hb; exact fun e => hk (e ▸ ha)⟩

theorem keys_dupdate (d o : List (Name × α)) (hn : (d.map Prod.fst).Nodup) :
    ((dupdate d o).map Prod.fst).Nodup := by
  unfold dupdate
  induction o generalizing d with
  | nil => exact hn
  | cons p r ih => exact ih _ (keys_dset _ _ _ hn)

end bridge

/-- the pairs `get_defaults_dict` zips together have pairwise different names -/
theorem keys_zipR_nodup {fb : FB} (wf : WfFB fb) : ((zipR fb.args fb.defaults).map Prod.fst).Nodup := by
  obtain ⟨N, D, hargs, hdfl⟩ := decomp fb.args fb.defaults wf.len
  rw [hargs, hdfl, zipR_shape]
  have h1 : fb.args.Nodup := (List.nodup_append.mp wf.nodup).1
  rw [hargs] at h1
  exact (List.nodup_append.mp h1).2.1

theorem keys_defaultsDict_nodup {fb : FB} (wf : WfFB fb) : (fb.defaultsDict.map Prod.fst).Nodup :=
  keys_dupdate _ _ (keys_zipR_nodup wf)

/-! ### `get_defaults_dict`, `get_arg_names` -/

/-- `FunctionBuilder.get_defaults_dict()` returns the model's `defaultsDict`, item for item, in dict order -/
theorem src_get_defaults_dict_eq_model (st : SrcFB) (fb : FB) (h : Rep st fb) (wf : WfFB fb) :
    FunctionBuilder.get_defaults_dict st = .ok fb.defaultsDict := by
  have hz := ofPairs_of_nodup _ (keys_zipR_nodup wf)
  simp only [FunctionBuilder.get_defaults_dict, FunctionBuilder.get_defaults_dict.body, PyRtC13.reversed, PyRtC13.zip,
    h.args, h.defaults, h.kwonlydefaults]
  have hzr : (fb.args.reverse.zip fb.defaults.reverse).reverse = zipR fb.args fb.defaults := rfl
  simp only [hzr, hz, update_eq_dupdate, FB.defaultsDict]
  split
  · rfl
  · rename_i hnil
    rw [Classical.not_not.mp hnil]; rfl

example : FunctionBuilder.get_defaults_dict
    (conc ⟨7, none, none, [1, 2, 3], none, none, [20, 30], [4], [(4, 40)], [], none, false⟩) =
    .ok [(2, 20), (3, 30), (4, 40)] := by rfl

/-- `get_arg_names(only_required)` = the model's `argNames` -/
theorem src_get_arg_names_eq_model (st : SrcFB) (fb : FB) (h : Rep st fb) (wf : WfFB fb) (b : Bool) :
    FunctionBuilder.get_arg_names st b = .ok (fb.argNames b) := by
  simp only [FunctionBuilder.get_arg_names, FunctionBuilder.get_arg_names.body,
    src_get_defaults_dict_eq_model st fb h wf, h.args, h.kwonlyargs, FB.argNames, dict_contains_eq]
  cases b
  · simp
  · simp only [if_true, List.map_id', Except.ok.injEq]
    apply List.filter_congr
    intro a _
    cases get? a fb.defaultsDict <;> simp

example : FunctionBuilder.get_arg_names
    (conc ⟨7, none, none, [1, 2, 3], none, none, [20, 30], [4, 5], [(4, 40)], [], none, false⟩) true =
    .ok [1, 5] := by rfl

/-! ### `add_arg`, `remove_arg` -/

/-- how the outcome of a mutator is read: a normal return leaves a state that stands for the model's new builder;
    `ExistingArgument` / `MissingArgument` are `ValueError` with tag 2 / 1 in `exc_sub`, and the builder is otherwise
    as it was -/
def Ret (st : SrcFB) : Except Err FB → Except PyExc Unit × SrcFB → Prop
  | .ok fb1, (.ok (), st1) => Rep st1 fb1
  | .error .missingArgument, (.error e, st1) => e = PyExc.ValueError ∧ st1 = { st with exc_sub := 1 }
  | .error .existingArgument, (.error e, st1) => e = PyExc.ValueError ∧ st1 = { st with exc_sub := 2 }
  | _, _ => False

theorem listInsert_len_sub {α β : Type} (l : List α) (m : List β) (x : α) (h : m.length ≤ l.length) :
    PyRtC13.listInsert l (PyRt.len l - PyRt.len m) x =
      l.take (l.length - m.length) ++ x :: l.drop (l.length - m.length) := by
  have hp : PyRtC13.insertPos l (PyRt.len l - PyRt.len m) = l.length - m.length := by
    unfold PyRtC13.insertPos PyRt.len
    rw [if_neg (by omega)]
    omega
  unfold PyRtC13.listInsert
  rw [hp]

/-- `add_arg(arg_name, default, kwonly)` = the model's `addArg`; `ExistingArgument` exactly when the model says so -/
theorem src_add_arg_eq_model (st : SrcFB) (fb : FB) (h : Rep st fb) (wf : WfFB fb) (z : Name) (d : Option Val)
    (k : Bool) : Ret st (fb.addArg z d k) (FunctionBuilder.add_arg st z d k) := by
  obtain ⟨nm, args, dfl, kwo, kwd, va, vk, tag⟩ := st
  obtain ⟨h1, h2, h3, h4, h5, h6, h7, h8⟩ := h
  simp only at h1 h2 h3 h4 h5 h6 h7 h8
  subst h2 h4 h5 h8
  have hlen := wf.len
  rw [← h3] at hlen
  simp only [FunctionBuilder.add_arg, FunctionBuilder.add_arg.body, FB.addArg, contains_iff]
  by_cases ha : z ∈ fb.args
  · simp [ha, Ret]
  · by_cases hk : z ∈ fb.kwonlyargs
    · simp [ha, hk, Ret]
    · cases k <;> cases d <;>
        simp only [ha, hk, if_false, if_true, Bool.false_eq_true, not_false_eq_true, not_true_eq_false, ne_eq,
          reduceCtorEq, Ret, listInsert_len_sub _ _ _ hlen, PyRt.unwrap, Option.getD_some, set_eq_dset] <;>
        refine ⟨h1, ?_, ?_, ?_, ?_, h6, h7, rfl⟩ <;> simp [← h3, PyRtC13.orEmpty]

example : (FunctionBuilder.add_arg
    (conc ⟨7, none, none, [1, 2, 3], none, none, [20, 30], [4], [], [], none, false⟩) 9 none false).2.args =
    [1, 9, 2, 3] := by rfl
example : (FunctionBuilder.add_arg
    (conc ⟨7, none, none, [1, 2, 3], none, none, [20, 30], [4], [], [], none, false⟩) 4 none false) =
    (.error PyExc.ValueError,
      { conc ⟨7, none, none, [1, 2, 3], none, none, [20, 30], [4], [], [], none, false⟩ with exc_sub := 2 }) := by rfl

theorem dictSelect_eq {α : Type} (d : List (Name × α)) (l : List Name) :
    PyRtC13.dictSelect d l = l.filterMap (fun a => get? a d) := by
  unfold PyRtC13.dictSelect
  congr 1
  funext a
  exact find_eq_get? d a

/-- `remove_arg(arg_name)` = the model's `removeArg`; `MissingArgument` exactly when the name is neither a positional
    nor a keyword-only argument, and then nothing has changed -/
theorem src_remove_arg_eq_model (st : SrcFB) (fb : FB) (h : Rep st fb) (wf : WfFB fb) (x : Name) :
    Ret st (fb.removeArg x) (FunctionBuilder.remove_arg st x) := by
  have hd := src_get_defaults_dict_eq_model st fb h wf
  have hdd := erase_eq_dpop (keys_defaultsDict_nodup wf) x
  have hkd := erase_eq_dpop wf.kwdNodup x
  simp only [FunctionBuilder.remove_arg, FunctionBuilder.remove_arg.body, hd, FB.removeArg, PyRtC13.listRemove?,
    PyRtC13.dictDiscard, dictSelect_eq, h.args, h.kwonlyargs, h.kwonlydefaults, hdd, hkd]
  by_cases ha : x ∈ fb.args
  · simp only [ha, if_true, Ret]
    constructor <;> first | exact h.name | exact h.varargs | exact h.varkw | exact h.tag | rfl
  · by_cases hk : x ∈ fb.kwonlyargs
    · simp only [ha, hk, if_true, if_false, Ret]
      constructor <;> first | exact h.name | exact h.varargs | exact h.varkw | exact h.defaults | rfl
    · simp only [ha, hk, if_false, Ret, reduceIte, reduceCtorEq]
      obtain ⟨nm, args, dfl, kwo, kwd, va, vk, tag⟩ := st
      obtain ⟨h1, h2, h3, h4, h5, h6, h7, h8⟩ := h
      simp only at h2 h4 h5
      subst h2 h4 h5
      first | exact ⟨trivial, rfl⟩ | exact ⟨rfl, rfl⟩ | simp

example : (FunctionBuilder.remove_arg
    (conc ⟨7, none, none, [1, 2, 3], none, none, [20, 30], [4], [(4, 40)], [], none, false⟩) 2) =
    (.ok (), conc ⟨7, none, none, [1, 3], none, none, [30], [4], [(4, 40)], [], none, false⟩) := by rfl
example : (FunctionBuilder.remove_arg
    (conc ⟨7, none, none, [1, 2, 3], none, none, [20, 30], [4], [(4, 40)], [], none, false⟩) 8) =
    (.error PyExc.ValueError,
      { conc ⟨7, none, none, [1, 2, 3], none, none, [20, 30], [4], [(4, 40)], [], none, false⟩ with exc_sub := 1 }) := by
  rfl

/-! ### the decision logic of `update_wrapper`: the `injected` loop, the `expected` loop, the `call_name` loop -/

abbrev UW := FunctionBuilder.update_wrapper_core.St Name Val

/-- the candidate spellings `_call`, `__call`, … as the source builds them -/
def cnOf (nm : PyRtC13.Names Name) : Nat → Name
  | 0 => nm.lit ['_', 'c', 'a', 'l', 'l']
  | j + 1 => nm.cat ['_'] (cnOf nm j)

/-- a failed `remove_arg` raises `MissingArgument` and changes nothing; a successful one keeps `WfFB` -/
theorem remove_cases (st : SrcFB) (fb : FB) (h : Rep st fb) (wf : WfFB fb) (x : Name) :
    (∃ fb1 st1, fb.removeArg x = .ok fb1 ∧ FunctionBuilder.remove_arg st x = (.ok (), st1) ∧ Rep st1 fb1 ∧ WfFB fb1) ∨
    (fb.removeArg x = .error .missingArgument ∧
      FunctionBuilder.remove_arg st x = (.error PyExc.ValueError, { st with exc_sub := 1 })) := by
  have hr := src_remove_arg_eq_model st fb h wf x
  cases hm : fb.removeArg x with
  | ok fb1 =>
    rw [hm] at hr
    rcases hres : FunctionBuilder.remove_arg st x with ⟨r, st1⟩
    rw [hres] at hr
    cases r with
    | error e => simp [Ret] at hr
    | ok u =>
      left
      exact ⟨fb1, st1, rfl, rfl, hr, (step_spec wf (.remove x) hm).1⟩
  | error e =>
    rw [hm] at hr
    rcases hres : FunctionBuilder.remove_arg st x with ⟨r, st1⟩
    rw [hres] at hr
    have he : e = .missingArgument := by
      unfold FB.removeArg at hm
      split at hm
      · cases hm
      · split at hm
        · cases hm
        · cases hm; rfl
    subst he
    cases r with
    | ok u => simp [Ret] at hr
    | error e2 =>
      right
      simp only [Ret] at hr
      exact ⟨rfl, by rw [hr.1, hr.2]⟩

theorem add_cases (st : SrcFB) (fb : FB) (h : Rep st fb) (wf : WfFB fb) (z : Name) (d : Option Val) :
    (∃ fb1 st1, fb.addArg z d = .ok fb1 ∧ FunctionBuilder.add_arg st z d false = (.ok (), st1) ∧ Rep st1 fb1 ∧
      WfFB fb1) ∨
    (fb.addArg z d = .error .existingArgument ∧
      FunctionBuilder.add_arg st z d false = (.error PyExc.ValueError, { st with exc_sub := 2 })) := by
  have hr := src_add_arg_eq_model st fb h wf z d false
  cases hm : fb.addArg z d with
  | ok fb1 =>
    rw [hm] at hr
    rcases hres : FunctionBuilder.add_arg st z d false with ⟨r, st1⟩
    rw [hres] at hr
    cases r with
    | error e => simp [Ret] at hr
    | ok u =>
      left
      exact ⟨fb1, st1, rfl, rfl, hr, (step_spec wf (.add z d false) hm).1⟩
  | error e =>
    rw [hm] at hr
    rcases hres : FunctionBuilder.add_arg st z d false with ⟨r, st1⟩
    rw [hres] at hr
    have he : e = .existingArgument := by
      unfold FB.addArg at hm
      split at hm
      · cases hm; rfl
      · split at hm
        · cases hm; rfl
        · simp only [Bool.false_eq_true, if_false] at hm
          split at hm <;> cases hm
    subst he
    cases r with
    | ok u => simp [Ret] at hr
    | error e2 =>
      right
      simp only [Ret] at hr
      exact ⟨rfl, by rw [hr.1, hr.2]⟩

section region
variable [nm : PyRtC13.Names Name]

/-- the `injected` loop is the model's `injectAll` -/
theorem inject_loop (k kb : UW → Except PyExc Name × SrcFB) (kexc : PyExc → UW → Except PyExc Name × SrcFB)
    (inj : List Name) : ∀ (s : UW) (fb : FB), Rep s.self fb → WfFB fb →
    (∃ fb1 s1, injectAll s.inject_to_varkw fb inj = .ok fb1 ∧
        FunctionBuilder.update_wrapper_core.loop1 k kb kexc inj s = k s1 ∧ Rep s1.self fb1 ∧ WfFB fb1 ∧
        s1.expected_items = s.expected_items) ∨
    (∃ s1, injectAll s.inject_to_varkw fb inj = .error .missingArgument ∧
        FunctionBuilder.update_wrapper_core.loop1 k kb kexc inj s = kexc PyExc.ValueError s1 ∧ s1.self.exc_sub = 1) := by
  induction inj with
  | nil =>
    intro s fb h wf
    exact Or.inl ⟨fb, s, rfl, rfl, h, wf, rfl⟩
  | cons x xs ih =>
    intro s fb h wf
    rcases remove_cases s.self fb h wf x with ⟨fb1, st1, hm, hs, h1, wf1⟩ | ⟨hm, hs⟩
    · rcases ih { s with loc1 := x, self := st1 } fb1 h1 wf1 with ⟨fb2, s2, e1, e2, e3, e4, e5⟩ | ⟨s2, e1, e2, e3⟩
      · left
        refine ⟨fb2, s2, ?_, ?_, e3, e4, e5⟩
        · simp only [injectAll, hm]; exact e1
        · simp only [FunctionBuilder.update_wrapper_core.loop1, hs]; exact e2
      · right
        refine ⟨s2, ?_, ?_, e3⟩
        · simp only [injectAll, hm]; exact e1
        · simp only [FunctionBuilder.update_wrapper_core.loop1, hs]; exact e2
    · -- `MissingArgument`: the handler decides by `inject_to_varkw` and `fb.varkw`; every case is evaluated on
      -- literal values, so the shape of the handler's tests does not matter
      obtain ⟨⟨nm0, ar, df, ko, kd, va, vk, tg⟩, injd, expd, itv, l1, l2, l3⟩ := s
      simp only at h hs ih ⊢
      have hvk : vk = fb.varkw := h.varkw
      cases itv <;> cases vk
      case true.some v =>
        have h0 : Rep (⟨nm0, ar, df, ko, kd, va, some v, 0⟩ : SrcFB) fb :=
          ⟨h.name, h.args, h.defaults, h.kwonlyargs, h.kwonlydefaults, h.varargs, h.varkw, rfl⟩
        rcases ih ⟨⟨nm0, ar, df, ko, kd, va, some v, 0⟩, injd, expd, true, x, l2, l3⟩ fb h0 wf with
          ⟨fb2, s2, e1, e2, e3, e4, e5⟩ | ⟨s2, e1, e2, e3⟩
        · left
          refine ⟨fb2, s2, ?_, ?_, e3, e4, e5⟩
          · simp only [injectAll, hm, ← hvk, Option.isSome_some, Bool.and_self, if_true]; exact e1
          · simp only [FunctionBuilder.update_wrapper_core.loop1, hs, ne_eq, reduceCtorEq, not_false_eq_true,
              and_self, not_true_eq_false, if_true, if_false, reduceIte]
            exact e2
        · right
          refine ⟨s2, ?_, ?_, e3⟩
          · simp only [injectAll, hm, ← hvk, Option.isSome_some, Bool.and_self, if_true]; exact e1
          · simp only [FunctionBuilder.update_wrapper_core.loop1, hs, ne_eq, reduceCtorEq, not_false_eq_true,
              and_self, not_true_eq_false, if_true, if_false, reduceIte]
            exact e2
      all_goals
        right
        refine ⟨?_, ?h1, ?h2, ?h3⟩
        case h2 =>
          simp only [FunctionBuilder.update_wrapper_core.loop1, hs, ne_eq, reduceCtorEq, not_false_eq_true,
            not_true_eq_false, and_self, and_false, false_and, and_true, true_and, Bool.false_eq_true, if_true, if_false,
            reduceIte]
          rfl
        case h1 => simp [injectAll, hm, ← hvk]
        case h3 => rfl

/-- the `expected` loop is the model's `expectAll` -/
theorem expect_loop (k kb : UW → Except PyExc Name × SrcFB) (kexc : PyExc → UW → Except PyExc Name × SrcFB)
    (exp : List (Name × Option Val)) : ∀ (s : UW) (fb : FB), Rep s.self fb → WfFB fb →
    (∃ fb1 s1, expectAll fb exp = .ok fb1 ∧
        FunctionBuilder.update_wrapper_core.loop2 k kb kexc exp s = k s1 ∧ Rep s1.self fb1 ∧ WfFB fb1) ∨
    (∃ s1, expectAll fb exp = .error .existingArgument ∧
        FunctionBuilder.update_wrapper_core.loop2 k kb kexc exp s = kexc PyExc.ValueError s1 ∧ s1.self.exc_sub = 2) := by
  induction exp with
  | nil =>
    intro s fb h wf
    exact Or.inl ⟨fb, s, rfl, rfl, h, wf⟩
  | cons p ps ih =>
    obtain ⟨z, d⟩ := p
    intro s fb h wf
    rcases add_cases s.self fb h wf z d with ⟨fb1, st1, hm, hs, h1, wf1⟩ | ⟨hm, hs⟩
    · rcases ih { s with loc1 := z, loc2 := d, self := st1 } fb1 h1 wf1 with ⟨fb2, s2, e1, e2, e3, e4⟩ | ⟨s2, e1, e2, e3⟩
      · left
        refine ⟨fb2, s2, ?_, ?_, e3, e4⟩
        · simp only [expectAll, hm]; exact e1
        · simp only [FunctionBuilder.update_wrapper_core.loop2, hs]; exact e2
      · right
        refine ⟨s2, ?_, ?_, e3⟩
        · simp only [expectAll, hm]; exact e1
        · simp only [FunctionBuilder.update_wrapper_core.loop2, hs]; exact e2
    · right
      refine ⟨{ s with loc1 := z, loc2 := d, self := { s.self with exc_sub := 2 } }, ?_, ?_, rfl⟩
      · simp only [expectAll, hm]
      · simp only [FunctionBuilder.update_wrapper_core.loop2, hs]

/-- the test of the `call_name` loop: the candidate is one of the names the model calls `takenNames` -/
theorem taken_cond (st : SrcFB) (fb : FB) (h : Rep st fb) (c : Name) :
    ((PyRt.contains (fb.argNames false) c = true) ∨ (decide (st.varargs = some c) = true) ∨
      (decide (st.varkw = some c) = true) ∨ (decide (c = st.name) = true)) ↔ c ∈ fb.takenNames := by
  rw [contains_iff, h.varargs, h.varkw, h.name]
  simp only [FB.argNames, FB.takenNames, decide_eq_true_eq, List.mem_append, Bool.false_eq_true, if_false,
    List.mem_singleton]
  cases fb.varargs <;> cases fb.varkw <;> simp [eq_comm, or_assoc]

/-- the `call_name` loop is the model's `pickFrom`, as long as the fuel lasts -/
theorem call_loop (k kb : UW → Except PyExc Name × SrcFB) (kexc : PyExc → UW → Except PyExc Name × SrcFB)
    (fb : FB) (wf : WfFB fb) : ∀ (fuel j n : Nat) (s : UW), Rep s.self fb → s.loc3 = cnOf nm j → fuel < n →
    cnOf nm (pickFrom (cnOf nm) fb.takenNames fuel j) ∉ fb.takenNames →
    FunctionBuilder.update_wrapper_core.loop3 k kb kexc n s =
      k { s with loc3 := cnOf nm (pickFrom (cnOf nm) fb.takenNames fuel j) } := by
  intro fuel
  induction fuel with
  | zero =>
    intro j n s h hc hn hfree
    obtain ⟨m, rfl⟩ : ∃ m, n = m + 1 := ⟨n - 1, by omega⟩
    simp only [pickFrom] at hfree ⊢
    simp only [FunctionBuilder.update_wrapper_core.loop3, src_get_arg_names_eq_model s.self fb h wf false]
    rw [if_neg (by rw [taken_cond s.self fb h, hc]; exact hfree), ← hc]
  | succ fuel ih =>
    intro j n s h hc hn hfree
    obtain ⟨m, rfl⟩ : ∃ m, n = m + 1 := ⟨n - 1, by omega⟩
    simp only [FunctionBuilder.update_wrapper_core.loop3, src_get_arg_names_eq_model s.self fb h wf false]
    by_cases ht : cnOf nm j ∈ fb.takenNames
    · have hcont : fb.takenNames.contains (cnOf nm j) = true := by simpa using ht
      simp only [pickFrom, hcont, if_true] at hfree ⊢
      rw [if_pos (by rw [taken_cond s.self fb h, hc]; exact ht)]
      rw [ih (j + 1) m { s with loc3 := PyRtC13.Names.cat ['_'] s.loc3 } h (by simp only [hc]; rfl) (by omega) hfree]
    · have hcont : ¬ (fb.takenNames.contains (cnOf nm j) = true) := by simpa using ht
      simp only [pickFrom, hcont, Bool.false_eq_true, if_false] at hfree ⊢
      rw [if_neg (by rw [taken_cond s.self fb h, hc]; exact ht), ← hc]

/-- **the decision logic of `update_wrapper`, as translated from the source, is the model's**: the `injected` loop is
    `injectAll` (a missing name is skipped when `inject_to_varkw` and there is a `**kw`, else `MissingArgument`), the
    `expected` loop is `expectAll` (`ExistingArgument`), and the name the collision loop returns is the model's
    `pickCall` - for every fuel above the number of taken names the loop ends (no `OutOfFuel`) -/
theorem src_update_wrapper_core_eq_model (st : SrcFB) (fb : FB) (h : Rep st fb) (wf : WfFB fb) (inj : List Name)
    (exp : List (Name × Option Val)) (itv : Bool) (lfuel : Nat)
    (hinj : ∀ i j, cnOf nm i = cnOf nm j → i = j) :
    match injectAll itv fb inj with
    | .error _ => ∃ st1, FunctionBuilder.update_wrapper_core lfuel st inj exp itv = (.error PyExc.ValueError, st1) ∧
        st1.exc_sub = 1
    | .ok fb1 =>
      match expectAll fb1 exp with
      | .error _ => ∃ st1, FunctionBuilder.update_wrapper_core lfuel st inj exp itv = (.error PyExc.ValueError, st1) ∧
          st1.exc_sub = 2
      | .ok fb2 => fb2.takenNames.length < lfuel →
          ∃ st2, FunctionBuilder.update_wrapper_core lfuel st inj exp itv =
            (.ok (pickCall (cnOf nm) fb2.takenNames), st2) ∧ Rep st2 fb2 ∧ WfFB fb2 := by
  simp only [FunctionBuilder.update_wrapper_core, FunctionBuilder.update_wrapper_core.body]
  rcases inject_loop _ _ _ inj (⟨st, inj, exp, itv, default, none, default⟩ : UW) fb h wf with
    ⟨fb1, s1, e1, e2, e3, e4, e5⟩ | ⟨s1, e1, e2, e3⟩
  · simp only at e1 e5
    rw [e1, e2]
    simp only [e5]
    rcases expect_loop _ _ _ exp s1 fb1 e3 e4 with ⟨fb2, s2, f1, f2, f3, f4⟩ | ⟨s2, f1, f2, f3⟩
    · rw [f1, f2]
      intro hl
      have hfree := pickCall_fresh (cnOf nm) hinj fb2.takenNames
      unfold pickCall at hfree
      rw [call_loop _ _ _ fb2 f4 fb2.takenNames.length 0 lfuel
        { s2 with loc3 := PyRtC13.Names.lit ['_', 'c', 'a', 'l', 'l'] } f3 rfl hl hfree]
      exact ⟨s2.self, rfl, f3, f4⟩
    · rw [f1, f2]
      exact ⟨s2.self, rfl, f3⟩
  · simp only at e1
    rw [e1, e2]
    exact ⟨s1.self, rfl, e3⟩

/-- the property theorem `callee_reaches_wrapper` (Props.lean) about what the SOURCE computes: whenever the two
    loops go through, the name the translated collision loop returns is - inside the function `get_func` then
    compiles - neither a parameter nor the function's own name nor `_func`, so the body calls the user's wrapper -/
theorem src_call_name_reaches_wrapper (st : SrcFB) (fb : FB) (h : Rep st fb) (wf : WfFB fb) (inj : List Name)
    (exp : List (Name × Option Val)) (itv : Bool) (lfuel : Nat)
    (hinj : ∀ i j, cnOf nm i = cnOf nm j → i = j) (funcKey : Name) (hk : ∀ k, cnOf nm k ≠ funcKey)
    (fb1 fb2 : FB) (h1 : injectAll itv fb inj = .ok fb1) (h2 : expectAll fb1 exp = .ok fb2)
    (hl : fb2.takenNames.length < lfuel) :
    ∃ c st2, FunctionBuilder.update_wrapper_core lfuel st inj exp itv = (.ok c, st2) ∧ Rep st2 fb2 ∧
      resolve (fb2.args ++ fb2.varargs.toList ++ fb2.kwonlyargs ++ fb2.varkw.toList) c funcKey fb2.name =
        .userWrapper := by
  have hm := src_update_wrapper_core_eq_model st fb h wf inj exp itv lfuel hinj
  rw [h1] at hm
  simp only at hm
  rw [h2] at hm
  obtain ⟨st2, e, r, _⟩ := hm hl
  exact ⟨_, st2, e, r, callee_reaches_wrapper (cnOf nm) hinj funcKey hk fb2⟩

end region

/-- non-vacuity: names are numbers, `_call` is 100 and a prefixed `_` adds one -/
@[reducible] def nmEx : PyRtC13.Names Name := ⟨fun _ => (100 : Nat), fun _ (n : Nat) => n + 1⟩

theorem cnOf_nmEx (i : Nat) : cnOf nmEx i = (100 + i : Nat) := by
  induction i with
  | zero => rfl
  | succ i ih =>
    show (cnOf nmEx i : Nat) + 1 = 100 + (i + 1)
    rw [ih]; rfl

theorem cnOf_nmEx_injective : ∀ i j, cnOf nmEx i = cnOf nmEx j → i = j := by
  intro i j e
  rw [cnOf_nmEx, cnOf_nmEx] at e
  exact Nat.add_left_cancel e

/-- Wrapping `f(1, 100, *, 4=40, **9)` with `injected=[1, 8]` (8 is absent: skipped because of `**9`) and
    `expected=[(101, no default)]`: the loop has to skip `_call` (= 100, a parameter) and `__call` (= 101, the expected
    argument) and returns `___call` -/
example :
    (@FunctionBuilder.update_wrapper_core Name Val _ _ _ nmEx 10
        (conc ⟨7, none, none, [1, 100], none, some 9, [], [4], [(4, 40)], [], none, false⟩) [1, 8] [(101, none)] true).1
      = .ok 102 := by rfl
/-- without `**kw` the missing name is `MissingArgument` (tag 1); the first removal has happened -/
example :
    (@FunctionBuilder.update_wrapper_core Name Val _ _ _ nmEx 10
        (conc ⟨7, none, none, [1, 100], none, none, [], [4], [(4, 40)], [], none, false⟩) [1, 8] [(101, none)] true)
      = (.error PyExc.ValueError,
          { conc ⟨7, none, none, [100], none, none, [], [4], [(4, 40)], [], none, false⟩ with exc_sub := 1 }) := by rfl

end C13
