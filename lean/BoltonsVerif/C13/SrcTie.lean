import BoltonsVerif.C13.Proofs
import BoltonsVerif.C13.Hygiene
import BoltonsVerif.Generated.Src_funcutils_fb
/-
C13 — source-translator tie (round 3c): `boltons.funcutils.FunctionBuilder`.

`Generated/Src_funcutils_fb.lean` is regenerated from `boltons/funcutils.py` on every run
(harness/py2lean.py with the extension module harness/py2lean_c13.py; raising mode, object state
`FunctionBuilder.St κ ν`).  The theorems below state that the generated methods, on a state that stands
for a builder state `fb` of the hand model (`Rep st fb`), compute what `Model.lean` says
(`FB.defaultsDict`, `FB.argNames`, `FB.addArg`, `FB.removeArg`), including WHICH exception leaves the
method (`MissingArgument` / `ExistingArgument` = `ValueError` + the tag in `exc_sub`) and that a failed
call leaves the builder as it was.

Proof style: the generated definitions are unfolded by name only (`simp only [<generated names>]`); what
remains is rewritten with specification lemmas about the runtime operations (`find_eq_get?`,
`set_eq_dset`, `update_eq_dupdate`, `erase_eq_dpop`, `ofPairs_of_nodup`, `listRemove?_mem`, …) and closed by case
analysis found by `split` - no step refers to the statement order of the source.
-/
namespace C13
open Src.funcutils

/-- the object state of the translated class at the model's item types -/
abbrev SrcFB := FunctionBuilder.St Name Val

/-- `st` stands for the model builder state `fb`: the same names / defaults / dicts; `defaults` may be `None` or an
    empty tuple where the model has `[]`; no user-defined exception is in flight -/
structure Rep (st : SrcFB) (fb : FB) : Prop where
  name : st.name = fb.name
  args : st.args = fb.args
  defaults : PyRtC13.orEmpty st.defaults = fb.defaults
  kwonlyargs : st.kwonlyargs = fb.kwonlyargs
  kwonlydefaults : st.kwonlydefaults = fb.kwonlydefaults
  varargs : st.varargs = fb.varargs
  varkw : st.varkw = fb.varkw
  tag : st.exc_sub = 0

/-- the state `from_func` / a history of mutators leaves: `defaults` is a tuple, or `None` when `asNone` and there
    are none -/
def conc (fb : FB) (asNone : Bool := false) : SrcFB :=
  { name := fb.name, args := fb.args,
    defaults := if asNone && fb.defaults.isEmpty then none else some fb.defaults,
    kwonlyargs := fb.kwonlyargs, kwonlydefaults := fb.kwonlydefaults, varargs := fb.varargs, varkw := fb.varkw,
    exc_sub := 0 }

theorem rep_conc (fb : FB) (b : Bool) : Rep (conc fb b) fb := by
  refine ⟨rfl, rfl, ?_, rfl, rfl, rfl, rfl, rfl⟩
  unfold conc PyRtC13.orEmpty
  cases b <;> cases hd : fb.defaults <;> simp

/-! ### the runtime operations on the model's association lists -/

section bridge
variable {α : Type}

theorem find_eq_get? (d : List (Name × α)) (k : Name) : PyRt.Dict.find d k = get? k d := by
  induction d with
  | nil => rfl
  | cons p r ih => obtain ⟨k', v⟩ := p; simp only [PyRt.Dict.find, get?, ih]

theorem set_eq_dset (d : List (Name × α)) (k : Name) (v : α) : PyRt.Dict.set d k v = dset k v d := by
  induction d with
  | nil => rfl
  | cons p r ih =>
    obtain ⟨k', v'⟩ := p
    simp only [PyRt.Dict.set, dset, ih]
    by_cases e : k' = k <;> simp [e]

theorem update_eq_dupdate (d o : List (Name × α)) : PyRt.Dict.update d o = dupdate d o := by
  unfold PyRt.Dict.update dupdate
  induction o generalizing d with
  | nil => rfl
  | cons p r ih => simp only [List.foldl_cons, set_eq_dset, ih]

theorem erase_eq_dpop {d : List (Name × α)} (hn : (d.map Prod.fst).Nodup) (k : Name) :
    PyRt.Dict.erase d k = dpop k d := by
  rw [dpop_eq_filter hn]
  unfold PyRt.Dict.erase
  apply List.filter_congr
  intro p _
  cases h : (p.1 == k) <;> simp_all [keyNe]

theorem dset_append_of_not_mem {d : List (Name × α)} {k : Name} (v : α) (h : k ∉ d.map Prod.fst) :
    dset k v d = d ++ [(k, v)] := by
  induction d with
  | nil => rfl
  | cons p r ih =>
    obtain ⟨k', v'⟩ := p
    simp only [List.map_cons, List.mem_cons, not_or] at h
    simp only [dset, if_neg (fun e : k' = k => h.1 e.symm), ih h.2, List.cons_append]

theorem dupdate_append_of_nodup (d o : List (Name × α)) (hn : ((d ++ o).map Prod.fst).Nodup) :
    dupdate d o = d ++ o := by
  unfold dupdate
  induction o generalizing d with
  | nil => simp
  | cons p r ih =>
    obtain ⟨k, v⟩ := p
    have hk : k ∉ d.map Prod.fst := by
      intro hm
      rw [List.map_append, List.nodup_append] at hn
      exact hn.2.2 k hm k (by simp) rfl
    rw [List.foldl_cons, dset_append_of_not_mem v hk, ih _ (by simpa using hn)]
    simp

/-- `dict(pairs)` of pairs with pairwise different keys is the list of pairs -/
theorem ofPairs_of_nodup (l : List (Name × α)) (hn : (l.map Prod.fst).Nodup) : PyRt.Dict.ofPairs l = l := by
  unfold PyRt.Dict.ofPairs
  rw [update_eq_dupdate, dupdate_append_of_nodup [] l (by simpa using hn)]
  rfl

theorem dict_contains_eq (d : List (Name × α)) (k : Name) : PyRt.Dict.contains d k = (get? k d).isSome := by
  unfold PyRt.Dict.contains; rw [find_eq_get?]

theorem contains_iff (l : List Name) (x : Name) : PyRt.contains l x = true ↔ x ∈ l := by
  unfold PyRt.contains
  simp only [List.any_eq_true, decide_eq_true_eq]
  exact ⟨fun ⟨y, hy, e⟩ => e ▸ hy, fun h => ⟨x, h, rfl⟩⟩

theorem keys_dset (k : Name) (v : α) (d : List (Name × α)) (hn : (d.map Prod.fst).Nodup) :
    ((dset k v d).map Prod.fst).Nodup := by
  by_cases hk : k ∈ d.map Prod.fst
  · have : (dset k v d).map Prod.fst = d.map Prod.fst := by
      clear hn
      induction d with
      | nil => simp at hk
      | cons p r ih =>
        obtain ⟨k', v'⟩ := p
        by_cases e : k' = k
        · simp [dset, e]
        · have hk' : k ∈ r.map Prod.fst := by
            simp only [List.map_cons, List.mem_cons] at hk
            rcases hk with hk | hk
            · exact absurd hk.symm e
            · exact hk
          simp only [dset, if_neg e, List.map_cons, ih hk']
    rw [this]; exact hn
  · rw [dset_append_of_not_mem v hk, List.map_append]
    apply List.nodup_append.mpr
    exact ⟨hn, by simp, fun a ha b hb => by simp at hb; subst hb; exact fun e => hk (e ▸ ha)⟩

theorem keys_dupdate (d o : List (Name × α)) (hn : (d.map Prod.fst).Nodup) :
    ((dupdate d o).map Prod.fst).Nodup := by
  unfold dupdate
  induction o generalizing d with
  | nil => exact hn
  | cons p r ih => exact ih _ (keys_dset _ _ _ hn)

end bridge

/-- the pairs `get_defaults_dict` zips together have pairwise different names -/
theorem keys_zipR_nodup {fb : FB} (wf : WfFB fb) : ((zipR fb.args fb.defaults).map Prod.fst).Nodup := by
  obtain ⟨N, D, hargs, hdfl⟩ := decomp fb.args fb.defaults wf.len
  rw [hargs, hdfl, zipR_shape]
  have h1 : fb.args.Nodup := (List.nodup_append.mp wf.nodup).1
  rw [hargs] at h1
  exact (List.nodup_append.mp h1).2.1

theorem keys_defaultsDict_nodup {fb : FB} (wf : WfFB fb) : (fb.defaultsDict.map Prod.fst).Nodup :=
  keys_dupdate _ _ (keys_zipR_nodup wf)

/-! ### `get_defaults_dict`, `get_arg_names` -/

/-- `FunctionBuilder.get_defaults_dict()` returns the model's `defaultsDict`, item for item, in dict order -/
theorem src_get_defaults_dict_eq_model (st : SrcFB) (fb : FB) (h : Rep st fb) (wf : WfFB fb) :
    FunctionBuilder.get_defaults_dict st = .ok fb.defaultsDict := by
  have hz := ofPairs_of_nodup _ (keys_zipR_nodup wf)
  simp only [FunctionBuilder.get_defaults_dict, FunctionBuilder.get_defaults_dict.body, PyRtC13.reversed, PyRtC13.zip,
    h.args, h.defaults, h.kwonlydefaults]
  have hzr : (fb.args.reverse.zip fb.defaults.reverse).reverse = zipR fb.args fb.defaults := rfl
  simp only [hzr, hz, update_eq_dupdate, FB.defaultsDict]
  split
  · rfl
  · rename_i hnil
    rw [Classical.not_not.mp hnil]; rfl

example : FunctionBuilder.get_defaults_dict
    (conc ⟨7, none, none, [1, 2, 3], none, none, [20, 30], [4], [(4, 40)], [], none, false⟩) =
    .ok [(2, 20), (3, 30), (4, 40)] := by rfl

/-- `get_arg_names(only_required)` = the model's `argNames` -/
theorem src_get_arg_names_eq_model (st : SrcFB) (fb : FB) (h : Rep st fb) (wf : WfFB fb) (b : Bool) :
    FunctionBuilder.get_arg_names st b = .ok (fb.argNames b) := by
  simp only [FunctionBuilder.get_arg_names, FunctionBuilder.get_arg_names.body,
    src_get_defaults_dict_eq_model st fb h wf, h.args, h.kwonlyargs, FB.argNames, dict_contains_eq]
  cases b
  · simp
  · simp only [if_true, List.map_id', Except.ok.injEq]
    apply List.filter_congr
    intro a _
    cases get? a fb.defaultsDict <;> simp

example : FunctionBuilder.get_arg_names
    (conc ⟨7, none, none, [1, 2, 3], none, none, [20, 30], [4, 5], [(4, 40)], [], none, false⟩) true =
    .ok [1, 5] := by rfl

/-! ### `add_arg`, `remove_arg` -/

/-- how the outcome of a mutator is read: a normal return leaves a state that stands for the model's new builder;
    `ExistingArgument` / `MissingArgument` are `ValueError` with tag 2 / 1 in `exc_sub`, and the builder is otherwise
    as it was -/
def Ret (st : SrcFB) : Except Err FB → Except PyExc Unit × SrcFB → Prop
  | .ok fb1, (.ok (), st1) => Rep st1 fb1
  | .error .missingArgument, (.error e, st1) => e = PyExc.ValueError ∧ st1 = { st with exc_sub := 1 }
  | .error .existingArgument, (.error e, st1) => e = PyExc.ValueError ∧ st1 = { st with exc_sub := 2 }
  | _, _ => False

theorem listInsert_len_sub {α β : Type} (l : List α) (m : List β) (x : α) (h : m.length ≤ l.length) :
    PyRtC13.listInsert l (PyRt.len l - PyRt.len m) x =
      l.take (l.length - m.length) ++ x :: l.drop (l.length - m.length) := by
  have hp : PyRtC13.insertPos l (PyRt.len l - PyRt.len m) = l.length - m.length := by
    unfold PyRtC13.insertPos PyRt.len
    rw [if_neg (by omega)]
    omega
  unfold PyRtC13.listInsert
  rw [hp]

/-- `add_arg(arg_name, default, kwonly)` = the model's `addArg`; `ExistingArgument` exactly when the model says so -/
theorem src_add_arg_eq_model (st : SrcFB) (fb : FB) (h : Rep st fb) (wf : WfFB fb) (z : Name) (d : Option Val)
    (k : Bool) : Ret st (fb.addArg z d k) (FunctionBuilder.add_arg st z d k) := by
  obtain ⟨nm, args, dfl, kwo, kwd, va, vk, tag⟩ := st
  obtain ⟨h1, h2, h3, h4, h5, h6, h7, h8⟩ := h
  simp only at h1 h2 h3 h4 h5 h6 h7 h8
  subst h2 h4 h5 h8
  have hlen := wf.len
  rw [← h3] at hlen
  simp only [FunctionBuilder.add_arg, FunctionBuilder.add_arg.body, FB.addArg, contains_iff]
  by_cases ha : z ∈ fb.args
  · simp [ha, Ret]
  · by_cases hk : z ∈ fb.kwonlyargs
    · simp [ha, hk, Ret]
    · cases k <;> cases d <;>
        simp only [ha, hk, if_false, if_true, Bool.false_eq_true, not_false_eq_true, not_true_eq_false, ne_eq,
          reduceCtorEq, Ret, listInsert_len_sub _ _ _ hlen, PyRt.unwrap, Option.getD_some, set_eq_dset] <;>
        refine ⟨h1, ?_, ?_, ?_, ?_, h6, h7, rfl⟩ <;> simp [← h3, PyRtC13.orEmpty]

example : (FunctionBuilder.add_arg
    (conc ⟨7, none, none, [1, 2, 3], none, none, [20, 30], [4], [], [], none, false⟩) 9 none false).2.args =
    [1, 9, 2, 3] := by rfl
example : (FunctionBuilder.add_arg
    (conc ⟨7, none, none, [1, 2, 3], none, none, [20, 30], [4], [], [], none, false⟩) 4 none false) =
    (.error PyExc.ValueError,
      { conc ⟨7, none, none, [1, 2, 3], none, none, [20, 30], [4], [], [], none, false⟩ with exc_sub := 2 }) := by rfl

theorem dictSelect_eq {α : Type} (d : List (Name × α)) (l : List Name) :
    PyRtC13.dictSelect d l = l.filterMap (fun a => get? a d) := by
  unfold PyRtC13.dictSelect
  congr 1
  funext a
  exact find_eq_get? d a

/-- `remove_arg(arg_name)` = the model's `removeArg`; `MissingArgument` exactly when the name is neither a positional
    nor a keyword-only argument, and then nothing has changed -/
theorem src_remove_arg_eq_model (st : SrcFB) (fb : FB) (h : Rep st fb) (wf : WfFB fb) (x : Name) :
    Ret st (fb.removeArg x) (FunctionBuilder.remove_arg st x) := by
  have hd := src_get_defaults_dict_eq_model st fb h wf
  have hdd := erase_eq_dpop (keys_defaultsDict_nodup wf) x
  have hkd := erase_eq_dpop wf.kwdNodup x
  simp only [FunctionBuilder.remove_arg, FunctionBuilder.remove_arg.body, hd, FB.removeArg, PyRtC13.listRemove?,
    PyRtC13.dictDiscard, dictSelect_eq, h.args, h.kwonlyargs, h.kwonlydefaults, hdd, hkd]
  by_cases ha : x ∈ fb.args
  · simp only [ha, if_true, Ret]
    constructor <;> first | exact h.name | exact h.varargs | exact h.varkw | exact h.tag | rfl
  · by_cases hk : x ∈ fb.kwonlyargs
    · simp only [ha, hk, if_true, if_false, Ret]
      constructor <;> first | exact h.name | exact h.varargs | exact h.varkw | exact h.defaults | rfl
    · simp only [ha, hk, if_false, Ret, reduceIte, reduceCtorEq]
      obtain ⟨nm, args, dfl, kwo, kwd, va, vk, tag⟩ := st
      obtain ⟨h1, h2, h3, h4, h5, h6, h7, h8⟩ := h
      simp only at h2 h4 h5
      subst h2 h4 h5
      first | exact ⟨trivial, rfl⟩ | exact ⟨rfl, rfl⟩ | simp

example : (FunctionBuilder.remove_arg
    (conc ⟨7, none, none, [1, 2, 3], none, none, [20, 30], [4], [(4, 40)], [], none, false⟩) 2) =
    (.ok (), conc ⟨7, none, none, [1, 3], none, none, [30], [4], [(4, 40)], [], none, false⟩) := by rfl
example : (FunctionBuilder.remove_arg
    (conc ⟨7, none, none, [1, 2, 3], none, none, [20, 30], [4], [(4, 40)], [], none, false⟩) 8) =
    (.error PyExc.ValueError,
      { conc ⟨7, none, none, [1, 2, 3], none, none, [20, 30], [4], [(4, 40)], [], none, false⟩ with exc_sub := 1 }) := by
  rfl

end C13
