import BoltonsVerif.C13.Model
/-
C13 — helper lemmas: association lists, default attachment, the item-level
parser read-back of what the builder renders, one-step effect of
`remove_arg` / `add_arg` on the signature, and the re-binding lemma behind
the forwarding theorem.
-/
namespace C13

/-! ### association lists -/

section alist
variable {α : Type}

@[simp] theorem get?_nil (k : Name) : get? k ([] : List (Name × α)) = none := rfl

theorem get?_cons (k k' : Name) (v : α) (r : List (Name × α)) :
    get? k ((k', v) :: r) = if k' = k then some v else get? k r := rfl

theorem get?_eq_none_of_not_mem {k : Name} {l : List (Name × α)} (h : k ∉ l.map Prod.fst) :
    get? k l = none := by
  induction l with
  | nil => rfl
  | cons p r ih =>
    obtain ⟨k', v⟩ := p
    simp only [List.map_cons, List.mem_cons, not_or] at h
    rw [get?_cons, if_neg (fun e => h.1 e.symm)]
    exact ih h.2

theorem mem_of_get?_eq_some {k : Name} {v : α} {l : List (Name × α)} (h : get? k l = some v) :
    (k, v) ∈ l := by
  induction l with
  | nil => simp at h
  | cons p r ih =>
    obtain ⟨k', v'⟩ := p
    rw [get?_cons] at h
    by_cases e : k' = k
    · simp [e] at h; simp [e, h]
    · simp [e] at h; exact List.mem_cons_of_mem _ (ih h)

theorem key_mem_of_get?_isSome {k : Name} {l : List (Name × α)} (h : (get? k l).isSome) :
    k ∈ l.map Prod.fst := by
  cases hg : get? k l with
  | none => simp [hg] at h
  | some v => exact List.mem_map.mpr ⟨(k, v), mem_of_get?_eq_some hg, rfl⟩

theorem get?_append (k : Name) (l₁ l₂ : List (Name × α)) :
    get? k (l₁ ++ l₂) = (get? k l₁).or (get? k l₂) := by
  induction l₁ with
  | nil => simp
  | cons p r ih =>
    obtain ⟨k', v⟩ := p
    simp only [List.cons_append, get?_cons]
    by_cases e : k' = k <;> simp [e, ih]

theorem get?_of_mem_nodup {k : Name} {v : α} {l : List (Name × α)} (hn : (l.map Prod.fst).Nodup)
    (h : (k, v) ∈ l) : get? k l = some v := by
  induction l with
  | nil => simp at h
  | cons p r ih =>
    obtain ⟨k', v'⟩ := p
    simp only [List.map_cons, List.nodup_cons] at hn
    rw [get?_cons]
    rcases List.mem_cons.mp h with e | e
    · simp only [Prod.mk.injEq] at e; simp [e.1, e.2]
    · have : k' ≠ k := by
        intro ek; apply hn.1; rw [ek]; exact List.mem_map.mpr ⟨(k, v), e, rfl⟩
      rw [if_neg this]; exact ih hn.2 e

theorem get?_filter_keyNe {x k : Name} (l : List (Name × α)) (h : k ≠ x) :
    get? k (l.filter (keyNe x)) = get? k l := by
  induction l with
  | nil => rfl
  | cons p r ih =>
    obtain ⟨k', v⟩ := p
    by_cases e : k' = x
    · have : keyNe x (k', v) = false := by simp [keyNe, e]
      rw [List.filter_cons_of_neg (by simp [this]), ih, get?_cons, if_neg (by intro ek; apply h; rw [← ek, e])]
    · have : keyNe x (k', v) = true := by simp [keyNe, e]
      rw [List.filter_cons_of_pos this, get?_cons, get?_cons, ih]

theorem dpop_eq_filter {x : Name} {l : List (Name × α)} (hn : (l.map Prod.fst).Nodup) :
    dpop x l = l.filter (keyNe x) := by
  induction l with
  | nil => rfl
  | cons p r ih =>
    obtain ⟨k', v⟩ := p
    simp only [List.map_cons, List.nodup_cons] at hn
    by_cases e : k' = x
    · have hk : keyNe x (k', v) = false := by simp [keyNe, e]
      rw [dpop, if_pos e, List.filter_cons_of_neg (by simp [hk])]
      symm
      apply List.filter_eq_self.mpr
      intro q hq
      have : q.1 ≠ x := by
        intro eq; apply hn.1; rw [e, ← eq]; exact List.mem_map.mpr ⟨q, hq, rfl⟩
      simp [keyNe, this]
    · have hk : keyNe x (k', v) = true := by simp [keyNe, e]
      rw [dpop, if_neg e, List.filter_cons_of_pos hk, ih hn.2]

theorem get?_dpop_ne {x k : Name} (l : List (Name × α)) (h : k ≠ x) :
    get? k (dpop x l) = get? k l := by
  induction l with
  | nil => rfl
  | cons p r ih =>
    obtain ⟨k', v⟩ := p
    by_cases e : k' = x
    · rw [dpop, if_pos e, get?_cons, if_neg (by intro ek; apply h; rw [← ek, e])]
    · rw [dpop, if_neg e, get?_cons, get?_cons, ih]

theorem keys_dpop_subset {x : Name} (l : List (Name × α)) :
    ∀ k, k ∈ (dpop x l).map Prod.fst → k ∈ l.map Prod.fst := by
  induction l with
  | nil => intro k h; exact h
  | cons p r ih =>
    obtain ⟨k', v⟩ := p
    intro k h
    by_cases e : k' = x
    · rw [dpop, if_pos e] at h; exact List.mem_cons_of_mem _ h
    · rw [dpop, if_neg e] at h
      simp only [List.map_cons, List.mem_cons] at h ⊢
      rcases h with h | h
      · exact Or.inl h
      · exact Or.inr (ih k h)

theorem get?_dset_ne {x k : Name} (v : α) (l : List (Name × α)) (h : k ≠ x) :
    get? k (dset x v l) = get? k l := by
  induction l with
  | nil => simp only [dset, get?_cons, get?_nil]; rw [if_neg (fun ek => h ek.symm)]
  | cons p r ih =>
    obtain ⟨k', v'⟩ := p
    by_cases e : k' = x
    · rw [dset, if_pos e, get?_cons, get?_cons, if_neg (fun ek => h ek.symm), if_neg (by intro ek; apply h; rw [← ek, e])]
    · rw [dset, if_neg e, get?_cons, get?_cons, ih]

theorem get?_dupdate_of_not_mem {k : Name} (d other : List (Name × α))
    (h : k ∉ other.map Prod.fst) : get? k (dupdate d other) = get? k d := by
  unfold dupdate
  induction other generalizing d with
  | nil => rfl
  | cons p r ih =>
    simp only [List.map_cons, List.mem_cons, not_or] at h
    rw [List.foldl_cons, ih _ h.2, get?_dset_ne _ _ h.1]

theorem filterMap_get?_self {D : List (Name × α)} (hn : (D.map Prod.fst).Nodup) :
    (D.map Prod.fst).filterMap (fun a => get? a D) = D.map Prod.snd := by
  have key : ∀ (D' : List (Name × α)), (∀ q ∈ D', q ∈ D) →
      (D'.map Prod.fst).filterMap (fun a => get? a D) = D'.map Prod.snd := by
    intro D'
    induction D' with
    | nil => intro _; rfl
    | cons p r ih =>
      intro hsub
      obtain ⟨k, v⟩ := p
      have hk : get? k D = some v := get?_of_mem_nodup hn (hsub _ List.mem_cons_self)
      simp only [List.map_cons, List.filterMap_cons, hk]
      rw [ih (fun q hq => hsub q (List.mem_cons_of_mem _ hq))]
  exact key D (fun _ h => h)

theorem filterMap_get?_none {N : List Name} {D : List (Name × α)}
    (h : ∀ a ∈ N, a ∉ D.map Prod.fst) : N.filterMap (fun a => get? a D) = [] := by
  induction N with
  | nil => rfl
  | cons a r ih =>
    have ha : get? a D = none := get?_eq_none_of_not_mem (h a List.mem_cons_self)
    simp only [List.filterMap_cons, ha]
    exact ih (fun b hb => h b (List.mem_cons_of_mem _ hb))

end alist

/-! ### attaching `__defaults__` to the last positional parameters -/

theorem attach_names (args : List Name) (dfl : List Val) :
    (attach args dfl).map Prod.fst = args := by
  unfold attach
  rw [List.map_append, List.map_map]
  have h1 : (List.map (Prod.fst ∘ fun a => ((a, none) : Name × Option Val))
      (List.take (args.length - dfl.length) args)) = List.take (args.length - dfl.length) args := by
    simp [Function.comp_def]
  rw [h1]
  have h2 : ∀ (l : List Name) (d : List Val), l.length ≤ d.length →
      (List.zipWith (fun a d => ((a, some d) : Name × Option Val)) l d).map Prod.fst = l := by
    intro l
    induction l with
    | nil => intro d _; simp
    | cons a r ih =>
      intro d hd
      cases d with
      | nil => simp at hd
      | cons b ds => simp at hd; simp [ih ds hd]
  rw [h2 _ _ (by simp; omega), List.take_append_drop]

theorem attach_shape (N : List Name) (D : List (Name × Val)) :
    attach (N ++ D.map Prod.fst) (D.map Prod.snd) =
      N.map (fun a => (a, none)) ++ D.map (fun p => (p.1, some p.2)) := by
  unfold attach
  have hk : (N ++ D.map Prod.fst).length - (D.map Prod.snd).length = N.length := by simp
  rw [hk, List.take_left', List.drop_left']
  · congr 1
    induction D with
    | nil => rfl
    | cons p r ih => simp [ih]
  · rfl
  · rfl

theorem zipR_shape (N : List Name) (D : List (Name × Val)) :
    zipR (N ++ D.map Prod.fst) (D.map Prod.snd) = D := by
  unfold zipR
  rw [List.reverse_append]
  have h : ((D.map Prod.fst).reverse ++ N.reverse).zip (D.map Prod.snd).reverse = D.reverse := by
    rw [← List.map_reverse, ← List.map_reverse]
    generalize D.reverse = E
    induction E with
    | nil => simp
    | cons p r ih => simp [ih]
  rw [h, List.reverse_reverse]

theorem decomp (args : List Name) (dfl : List Val) (h : dfl.length ≤ args.length) :
    ∃ (N : List Name) (D : List (Name × Val)), args = N ++ D.map Prod.fst ∧ dfl = D.map Prod.snd := by
  refine ⟨args.take (args.length - dfl.length), (args.drop (args.length - dfl.length)).zip dfl, ?_, ?_⟩
  · rw [List.map_fst_zip (by simp; omega), List.take_append_drop]
  · rw [List.map_snd_zip (by simp; omega)]

/-! ### reading back what the builder renders -/

def startsPlain : List Spec → Bool
  | .plain _ :: _ => true
  | _ => false

def startsKw : List Spec → Bool
  | .kw _ _ :: _ => true
  | _ => false

theorem takePlain_of_not_starts {r : List Spec} (h : startsPlain r = false) : takePlain r = ([], r) := by
  cases r with
  | nil => rfl
  | cons s r' => cases s <;> first | rfl | simp [startsPlain] at h

theorem takePlain_map (l : List Name) {r : List Spec} (h : startsPlain r = false) :
    takePlain (l.map Spec.plain ++ r) = (l, r) := by
  induction l with
  | nil => simpa using takePlain_of_not_starts h
  | cons a t ih => simp [takePlain, ih]

theorem takeKw_of_not_starts {r : List Spec} (h : startsKw r = false) : takeKw r = ([], r) := by
  cases r with
  | nil => rfl
  | cons s r' => cases s <;> first | rfl | simp [startsKw] at h

theorem takeKw_map (l : List Name) {r : List Spec} (h : startsKw r = false) :
    takeKw (l.map (fun k => Spec.kw k k) ++ r) = (l.map (fun k => (k, k)), r) := by
  induction l with
  | nil => simpa using takeKw_of_not_starts h
  | cons a t ih => simp [takeKw, ih]

def tailSpecs (varkw : Option Name) : List Spec :=
  match varkw with
  | some v => [Spec.dstar v]
  | none => []

theorem parseTail_tailSpecs (vk : Option Name) : parseTail (tailSpecs vk) = some vk := by
  cases vk <;> rfl

theorem startsPlain_tail (vk : Option Name) : startsPlain (tailSpecs vk) = false := by
  cases vk <;> rfl
theorem startsKw_tail (vk : Option Name) : startsKw (tailSpecs vk) = false := by
  cases vk <;> rfl

theorem parseDefShape_format (args : List Name) (va vk : Option Name) (kwo : List Name) :
    parseDefShape (formatArgspec args va vk kwo false) = some ⟨args, va, kwo, vk⟩ := by
  unfold formatArgspec
  change parseDefShape (args.map Spec.plain ++ _ ++ kwo.map (fun k => Spec.plain k) ++ tailSpecs vk) = _
  rw [List.append_assoc, List.append_assoc]
  cases va with
  | some v =>
    simp only
    unfold parseDefShape
    rw [takePlain_map args (r := [Spec.star v] ++ _) rfl]
    simp only [List.singleton_append]
    rw [takePlain_map kwo (startsPlain_tail vk), parseTail_tailSpecs]
    rfl
  | none =>
    simp only
    cases kwo with
    | nil =>
      simp only [List.isEmpty_nil, if_true, List.map_nil, List.nil_append]
      unfold parseDefShape
      rw [takePlain_map args (startsPlain_tail vk)]
      cases vk <;> rfl
    | cons k ks =>
      simp only [List.isEmpty_cons, Bool.false_eq_true, if_false]
      unfold parseDefShape
      rw [takePlain_map args (r := [Spec.bareStar] ++ _) rfl]
      simp only [List.singleton_append]
      rw [takePlain_map (k :: ks) (startsPlain_tail vk), parseTail_tailSpecs]
      rfl

theorem parseDef_format (args : List Name) (va vk : Option Name) (kwo : List Name) :
    parseDef (formatArgspec args va vk kwo false) =
      if (args ++ va.toList ++ kwo ++ vk.toList).Nodup then some ⟨args, va, kwo, vk⟩ else none := by
  unfold parseDef
  rw [parseDefShape_format]
  rfl

def startsStar : List Spec → Bool
  | .star _ :: _ => true
  | _ => false

theorem takeStar_of_not_starts {r : List Spec} (h : startsStar r = false) : takeStar r = (none, r) := by
  cases r with
  | nil => rfl
  | cons s r' => cases s <;> first | rfl | simp [startsStar] at h

theorem parseCall_eq {l : List Spec} {pos : List Name} {st vk : Option Name} {kws : List (Name × Name)}
    {r1 r2 r3 : List Spec}
    (h1 : takePlain l = (pos, r1)) (h2 : takeStar r1 = (st, r2)) (h3 : takeKw r2 = (kws, r3))
    (h4 : parseTail r3 = some vk) (h5 : (kws.map Prod.fst).Nodup) :
    parseCall l = some ⟨pos, st, kws, vk⟩ := by
  unfold parseCall
  simp [h1, h2, h3, h4, h5]

theorem filter_notBareStar_format (args : List Name) (va vk : Option Name) (kwo : List Name) :
    (formatArgspec args va vk kwo true).filter notBareStar =
      args.map Spec.plain ++ ((match va with | some v => [Spec.star v] | none => []) ++
        (kwo.map (fun k => Spec.kw k k) ++ tailSpecs vk)) := by
  unfold formatArgspec
  change List.filter notBareStar
    (args.map Spec.plain ++ _ ++ kwo.map (fun k => Spec.kw k k) ++ tailSpecs vk) = _
  have hA : (args.map Spec.plain).filter notBareStar = args.map Spec.plain := by
    apply List.filter_eq_self.mpr; intro s hs
    obtain ⟨a, _, rfl⟩ := List.mem_map.mp hs; rfl
  have hK : (kwo.map (fun k => Spec.kw k k)).filter notBareStar = kwo.map (fun k => Spec.kw k k) := by
    apply List.filter_eq_self.mpr; intro s hs
    obtain ⟨a, _, rfl⟩ := List.mem_map.mp hs; rfl
  have hT : (tailSpecs vk).filter notBareStar = tailSpecs vk := by cases vk <;> rfl
  rw [List.filter_append, List.filter_append, List.filter_append, hA, hK, hT,
    List.append_assoc, List.append_assoc]
  cases va with
  | some v => rfl
  | none =>
    have : ∀ b : Bool, List.filter notBareStar (if b then [] else [Spec.bareStar]) = [] := by
      intro b; cases b <;> rfl
    simp only [this]

theorem parseCall_invocation (args : List Name) (va vk : Option Name) (kwo : List Name)
    (hk : kwo.Nodup) :
    parseCall ((formatArgspec args va vk kwo true).filter notBareStar) =
      some ⟨args, va, kwo.map (fun k => (k, k)), vk⟩ := by
  rw [filter_notBareStar_format]
  have hkeys : ((kwo.map (fun k => (k, k))).map Prod.fst).Nodup := by
    simpa [List.map_map, Function.comp_def] using hk
  have hkw := takeKw_map kwo (startsKw_tail vk)
  cases va with
  | some v =>
    exact parseCall_eq (takePlain_map args (r := [Spec.star v] ++ _) rfl) rfl hkw
      (parseTail_tailSpecs vk) hkeys
  | none =>
    have hs : startsPlain (kwo.map (fun k => Spec.kw k k) ++ tailSpecs vk) = false := by
      cases kwo with
      | nil => simpa using startsPlain_tail vk
      | cons k ks => rfl
    have hst : startsStar (kwo.map (fun k => Spec.kw k k) ++ tailSpecs vk) = false := by
      cases kwo with
      | nil => cases vk <;> rfl
      | cons k ks => rfl
    exact parseCall_eq (takePlain_map args (r := [] ++ _) hs) (takeStar_of_not_starts hst) hkw
      (parseTail_tailSpecs vk) hkeys

/-! ### the builder, one step at a time -/

/-- the signature a builder state would compile to -/
def FB.posSig (fb : FB) : List (Name × Option Val) := attach fb.args fb.defaults
def FB.kwSig (fb : FB) : List (Name × Option Val) := kwAttach fb.kwonlyargs fb.kwonlydefaults

/-- everything `remove_arg` / `add_arg` never touch -/
def FB.rest (fb : FB) :=
  (fb.name, fb.doc, fb.module, fb.varargs, fb.varkw, fb.annotations, fb.retAnn, fb.isAsync)

structure WfFB (fb : FB) : Prop where
  nodup : (fb.args ++ fb.kwonlyargs).Nodup
  len : fb.defaults.length ≤ fb.args.length
  kwd : ∀ k, k ∈ fb.kwonlydefaults.map Prod.fst → k ∈ fb.kwonlyargs
  kwdNodup : (fb.kwonlydefaults.map Prod.fst).Nodup

theorem erase_eq_filter_nameNe {l : List Name} (h : l.Nodup) (x : Name) :
    l.erase x = l.filter (nameNe x) := by
  rw [List.Nodup.erase_eq_filter h]; rfl

theorem filter_nameNe_of_not_mem {l : List Name} {x : Name} (h : x ∉ l) :
    l.filter (nameNe x) = l := by
  apply List.filter_eq_self.mpr
  intro a ha
  have : a ≠ x := fun e => h (e ▸ ha)
  simp [nameNe, this]

theorem filter_keyNe_of_not_mem {α : Type} {l : List (Name × α)} {x : Name} (h : x ∉ l.map Prod.fst) :
    l.filter (keyNe x) = l := by
  apply List.filter_eq_self.mpr
  intro a ha
  have : a.1 ≠ x := fun e => h (e ▸ List.mem_map.mpr ⟨a, ha, rfl⟩)
  simp [keyNe, this]

theorem map_fst_filter_keyNe {α : Type} (l : List (Name × α)) (x : Name) :
    (l.filter (keyNe x)).map Prod.fst = (l.map Prod.fst).filter (nameNe x) := by
  rw [List.filter_map]; rfl

theorem filterMap_get?_sub {α : Type} {D : List (Name × α)} (hn : (D.map Prod.fst).Nodup)
    (D' : List (Name × α)) (hsub : ∀ q ∈ D', q ∈ D) :
    (D'.map Prod.fst).filterMap (fun a => get? a D) = D'.map Prod.snd := by
  induction D' with
  | nil => rfl
  | cons p r ih =>
    obtain ⟨k, v⟩ := p
    have hk : get? k D = some v := get?_of_mem_nodup hn (hsub _ List.mem_cons_self)
    simp only [List.map_cons, List.filterMap_cons, hk]
    rw [ih (fun q hq => hsub q (List.mem_cons_of_mem _ hq))]

theorem filterMap_congr' {α β : Type} {f g : α → Option β} {l : List α} (h : ∀ a ∈ l, f a = g a) :
    l.filterMap f = l.filterMap g := by
  induction l with
  | nil => rfl
  | cons a r ih =>
    simp only [List.filterMap_cons, h a List.mem_cons_self]
    rw [ih (fun b hb => h b (List.mem_cons_of_mem _ hb))]

theorem kwAttach_filter (kwo : List Name) (kd : List (Name × Val)) (x : Name) :
    kwAttach (kwo.filter (nameNe x)) (dpop x kd) = (kwAttach kwo kd).filter (keyNe x) := by
  unfold kwAttach
  rw [List.filter_map]
  have : (keyNe x ∘ fun k => (k, get? k kd)) = nameNe x := rfl
  rw [this]
  apply List.map_congr_left
  intro k hk
  have hne : k ≠ x := by
    have := (List.mem_filter.mp hk).2
    intro e; simp [nameNe, e] at this
  rw [get?_dpop_ne _ hne]

/-- removing a positional parameter: exactly that parameter disappears, every other
    parameter keeps its default -/
theorem removeArg_pos {fb : FB} (wf : WfFB fb) {x : Name} (hx : x ∈ fb.args) :
    ∃ fb', fb.removeArg x = .ok fb' ∧ WfFB fb' ∧
      fb'.posSig = fb.posSig.filter (keyNe x) ∧ fb'.kwSig = fb.kwSig.filter (keyNe x) ∧
      fb'.rest = fb.rest := by
  obtain ⟨N, D, hargs, hdfl⟩ := decomp fb.args fb.defaults wf.len
  have hnd : fb.args.Nodup := (List.nodup_append.mp wf.nodup).1
  have hdis : ∀ a, a ∈ fb.args → a ∉ fb.kwonlyargs :=
    fun a ha hk => (List.nodup_append.mp wf.nodup).2.2 a ha a hk rfl
  have hndND : (N ++ D.map Prod.fst).Nodup := hargs ▸ hnd
  have hDn : (D.map Prod.fst).Nodup := (List.nodup_append.mp hndND).2.1
  have hND : ∀ a ∈ N, a ∉ D.map Prod.fst := fun a ha hd => (List.nodup_append.mp hndND).2.2 a ha a hd rfl
  have hxk : x ∉ fb.kwonlyargs := hdis x hx
  -- the defaults dictionary restricted to positional names is D
  have hdd : ∀ a, a ∈ fb.args → get? a fb.defaultsDict = get? a D := by
    intro a ha
    unfold FB.defaultsDict
    rw [get?_dupdate_of_not_mem _ _ (fun hk => hdis a ha (wf.kwd a hk)), hargs, hdfl, zipR_shape]
  let D' := D.filter (keyNe x)
  let N' := N.filter (nameNe x)
  have hargs' : fb.args.erase x = N' ++ D'.map Prod.fst := by
    rw [erase_eq_filter_nameNe hnd, hargs, List.filter_append, map_fst_filter_keyNe]
  have hdfl' : (fb.args.erase x).filterMap (fun a => get? a (dpop x fb.defaultsDict)) = D'.map Prod.snd := by
    have h1 : (fb.args.erase x).filterMap (fun a => get? a (dpop x fb.defaultsDict)) =
        (fb.args.erase x).filterMap (fun a => get? a D) := by
      apply filterMap_congr'
      intro a ha
      rw [erase_eq_filter_nameNe hnd] at ha
      have hm := List.mem_filter.mp ha
      have hne : a ≠ x := by intro e; simp [nameNe, e] at hm
      rw [get?_dpop_ne _ hne, hdd a hm.1]
    rw [h1, hargs', List.filterMap_append]
    rw [filterMap_get?_none (fun a ha => hND a (List.mem_filter.mp ha).1)]
    rw [filterMap_get?_sub hDn D' (fun q hq => (List.mem_filter.mp hq).1)]
    rfl
  refine ⟨{ fb with
      args := fb.args.erase x
      defaults := (fb.args.erase x).filterMap (fun a => get? a (dpop x fb.defaultsDict)) },
    by unfold FB.removeArg; rw [if_pos hx], ?_, ?_, ?_, rfl⟩
  · refine ⟨?_, ?_, wf.kwd, wf.kwdNodup⟩
    · show (fb.args.erase x ++ fb.kwonlyargs).Nodup
      exact List.Nodup.sublist (List.Sublist.append (List.erase_sublist) (List.Sublist.refl _)) wf.nodup
    · show ((fb.args.erase x).filterMap _).length ≤ (fb.args.erase x).length
      exact List.length_filterMap_le _ _
  · show attach (fb.args.erase x) ((fb.args.erase x).filterMap _) = (attach fb.args fb.defaults).filter (keyNe x)
    rw [hdfl', hargs', attach_shape]
    conv => rhs; rw [hargs, hdfl, attach_shape]
    rw [List.filter_append, List.filter_map, List.filter_map]
    rfl
  · show kwAttach fb.kwonlyargs fb.kwonlydefaults = (kwAttach fb.kwonlyargs fb.kwonlydefaults).filter (keyNe x)
    rw [filter_keyNe_of_not_mem]
    unfold kwAttach
    rw [List.map_map]
    simpa [Function.comp_def] using hxk

/-- removing a keyword-only parameter -/
theorem removeArg_kw {fb : FB} (wf : WfFB fb) {x : Name} (hx : x ∉ fb.args) (hk : x ∈ fb.kwonlyargs) :
    ∃ fb', fb.removeArg x = .ok fb' ∧ WfFB fb' ∧
      fb'.posSig = fb.posSig.filter (keyNe x) ∧ fb'.kwSig = fb.kwSig.filter (keyNe x) ∧
      fb'.rest = fb.rest := by
  have hkn : fb.kwonlyargs.Nodup := (List.nodup_append.mp wf.nodup).2.1
  refine ⟨{ fb with
      kwonlyargs := fb.kwonlyargs.erase x
      kwonlydefaults := dpop x fb.kwonlydefaults },
    by unfold FB.removeArg; rw [if_neg hx, if_pos hk], ?_, ?_, ?_, rfl⟩
  · refine ⟨?_, wf.len, ?_, ?_⟩
    · show (fb.args ++ fb.kwonlyargs.erase x).Nodup
      exact List.Nodup.sublist (List.Sublist.append (List.Sublist.refl _) List.erase_sublist) wf.nodup
    · intro k hk'
      show k ∈ fb.kwonlyargs.erase x
      have hk' : k ∈ (dpop x fb.kwonlydefaults).map Prod.fst := hk'
      have hk0 := wf.kwd k (keys_dpop_subset _ k hk')
      have e : k ≠ x := by
        intro e; subst e
        rw [dpop_eq_filter wf.kwdNodup, map_fst_filter_keyNe] at hk'
        have := (List.mem_filter.mp hk').2
        simp [nameNe] at this
      rw [erase_eq_filter_nameNe hkn]
      exact List.mem_filter.mpr ⟨hk0, by simp [nameNe, e]⟩
    · show ((dpop x fb.kwonlydefaults).map Prod.fst).Nodup
      rw [dpop_eq_filter wf.kwdNodup, map_fst_filter_keyNe]
      exact List.Nodup.sublist List.filter_sublist wf.kwdNodup
  · show attach fb.args fb.defaults = (attach fb.args fb.defaults).filter (keyNe x)
    rw [filter_keyNe_of_not_mem]
    rw [attach_names]; exact hx
  · show kwAttach (fb.kwonlyargs.erase x) (dpop x fb.kwonlydefaults) = _
    rw [erase_eq_filter_nameNe hkn]
    exact kwAttach_filter _ _ _


theorem removeArg_missing {fb : FB} {x : Name} (hx : x ∉ fb.args) (hk : x ∉ fb.kwonlyargs) :
    fb.removeArg x = .error .missingArgument := by
  unfold FB.removeArg; rw [if_neg hx, if_neg hk]

/-- adding a required positional parameter: it lands after the required parameters and in
    front of the defaulted ones, whose defaults stay where they were -/
theorem addArg_none {fb : FB} (wf : WfFB fb) {z : Name} (hz : z ∉ fb.args) (hk : z ∉ fb.kwonlyargs) :
    ∃ fb' pre post, fb.addArg z none = .ok fb' ∧ WfFB fb' ∧
      fb.posSig = pre ++ post ∧ fb'.posSig = pre ++ (z, none) :: post ∧
      (∀ p ∈ pre, p.2 = none) ∧ (∀ p ∈ post, p.2.isSome) ∧
      fb'.kwSig = fb.kwSig ∧ fb'.rest = fb.rest := by
  obtain ⟨N, D, hargs, hdfl⟩ := decomp fb.args fb.defaults wf.len
  have hlen : fb.args.length - fb.defaults.length = N.length := by rw [hargs, hdfl]; simp
  have hargs' : fb.args.take (fb.args.length - fb.defaults.length) ++ z ::
      fb.args.drop (fb.args.length - fb.defaults.length) = (N ++ [z]) ++ D.map Prod.fst := by
    rw [hlen, hargs, List.take_left' rfl, List.drop_left' rfl]; simp
  refine ⟨{ fb with args := fb.args.take (fb.args.length - fb.defaults.length) ++ z ::
              fb.args.drop (fb.args.length - fb.defaults.length) },
    N.map (fun a => (a, none)), D.map (fun p => (p.1, some p.2)),
    by unfold FB.addArg; rw [if_neg hz, if_neg hk]; rfl, ?_, ?_, ?_, ?_, ?_, rfl, rfl⟩
  · refine ⟨?_, ?_, wf.kwd, wf.kwdNodup⟩
    · show ((fb.args.take _ ++ z :: fb.args.drop _) ++ fb.kwonlyargs).Nodup
      have hperm : ((fb.args.take (fb.args.length - fb.defaults.length) ++ z ::
          fb.args.drop (fb.args.length - fb.defaults.length)) ++ fb.kwonlyargs).Perm
          (z :: (fb.args ++ fb.kwonlyargs)) := by
        have h1 : (fb.args.take (fb.args.length - fb.defaults.length) ++ z ::
          fb.args.drop (fb.args.length - fb.defaults.length)).Perm (z :: fb.args) := by
          have := @List.perm_middle _ z (fb.args.take (fb.args.length - fb.defaults.length))
            (fb.args.drop (fb.args.length - fb.defaults.length))
          rwa [List.take_append_drop] at this
        exact (h1.append_right _)
      rw [hperm.nodup_iff, List.nodup_cons]
      exact ⟨by simp [hz, hk], wf.nodup⟩
    · show fb.defaults.length ≤ (fb.args.take _ ++ z :: fb.args.drop _).length
      have := wf.len
      simp only [List.length_append, List.length_cons, List.length_take, List.length_drop]
      omega
  · show attach fb.args fb.defaults = _
    rw [hargs, hdfl, attach_shape]
  · show attach (fb.args.take _ ++ z :: fb.args.drop _) fb.defaults = _
    rw [hargs', hdfl, attach_shape]; simp
  · intro p hp; obtain ⟨a, _, rfl⟩ := List.mem_map.mp hp; rfl
  · intro p hp; obtain ⟨a, _, rfl⟩ := List.mem_map.mp hp; rfl

/-- adding a positional parameter with a default: appended after all positional parameters -/
theorem addArg_some {fb : FB} (wf : WfFB fb) {z : Name} (v : Val) (hz : z ∉ fb.args) (hk : z ∉ fb.kwonlyargs) :
    ∃ fb', fb.addArg z (some v) = .ok fb' ∧ WfFB fb' ∧
      fb'.posSig = fb.posSig ++ [(z, some v)] ∧ fb'.kwSig = fb.kwSig ∧ fb'.rest = fb.rest := by
  obtain ⟨N, D, hargs, hdfl⟩ := decomp fb.args fb.defaults wf.len
  refine ⟨{ fb with args := fb.args ++ [z], defaults := fb.defaults ++ [v] },
    by unfold FB.addArg; rw [if_neg hz, if_neg hk]; rfl, ?_, ?_, rfl, rfl⟩
  · refine ⟨?_, ?_, wf.kwd, wf.kwdNodup⟩
    · show ((fb.args ++ [z]) ++ fb.kwonlyargs).Nodup
      have hperm : ((fb.args ++ [z]) ++ fb.kwonlyargs).Perm (z :: (fb.args ++ fb.kwonlyargs)) := by
        rw [List.append_assoc]
        exact List.perm_middle
      rw [hperm.nodup_iff, List.nodup_cons]
      exact ⟨by simp [hz, hk], wf.nodup⟩
    · show (fb.defaults ++ [v]).length ≤ (fb.args ++ [z]).length
      have := wf.len
      simp only [List.length_append, List.length_singleton]; omega
  · show attach (fb.args ++ [z]) (fb.defaults ++ [v]) = attach fb.args fb.defaults ++ [(z, some v)]
    have h1 : fb.args ++ [z] = N ++ (D ++ [(z, v)]).map Prod.fst := by rw [hargs]; simp
    have h2 : fb.defaults ++ [v] = (D ++ [(z, v)]).map Prod.snd := by rw [hdfl]; simp
    rw [h1, h2, attach_shape, hargs, hdfl, attach_shape]; simp

theorem addArg_existing {fb : FB} {z : Name} (d : Option Val) (h : z ∈ fb.args ∨ z ∈ fb.kwonlyargs) :
    fb.addArg z d = .error .existingArgument := by
  unfold FB.addArg
  by_cases hz : z ∈ fb.args
  · rw [if_pos hz]
  · rw [if_neg hz, if_pos (h.resolve_left hz)]

/-! ### re-binding: the arguments the generated body passes on bind to the same locals -/

theorem fillPos_names {ps : List (Name × Option Val)} {vs : List Val} {kws r : List (Name × Val)}
    (h : fillPos ps vs kws = some r) : r.map Prod.fst = ps.map Prod.fst := by
  induction ps generalizing vs r with
  | nil => simp [fillPos] at h; subst h; rfl
  | cons p ps ih =>
    obtain ⟨n, d⟩ := p
    cases vs with
    | cons v vs =>
      simp only [fillPos] at h
      split at h
      · simp at h
      · cases hr : fillPos ps vs kws with
        | none => simp [hr] at h
        | some r' =>
          simp [hr] at h; subst h
          simp [ih hr]
    | nil =>
      simp only [fillPos] at h
      split at h
      · cases hr : fillPos ps [] kws with
        | none => simp [hr] at h
        | some r' =>
          simp [hr] at h; subst h
          simp [ih hr]
      · simp at h

theorem fillPos_rebind_pos {ps : List (Name × Option Val)} {r kws : List (Name × Val)} (extra : List Val)
    (hr : r.map Prod.fst = ps.map Prod.fst) (hk : ∀ p ∈ ps.map Prod.fst, get? p kws = none) :
    fillPos ps (r.map Prod.snd ++ extra) kws = some r := by
  induction ps generalizing r with
  | nil =>
    cases r with
    | nil => simp [fillPos]
    | cons _ _ => simp at hr
  | cons p ps ih =>
    obtain ⟨n, d⟩ := p
    cases r with
    | nil => simp at hr
    | cons q r' =>
      obtain ⟨n', v⟩ := q
      simp only [List.map_cons, List.cons.injEq] at hr
      obtain ⟨rfl, hr'⟩ := hr
      have h0 : get? n' kws = none := hk n' (by simp)
      simp only [List.map_cons, List.cons_append, fillPos, h0, Option.isSome_none]
      rw [ih hr' (fun p hp => hk p (by simp [hp]))]
      simp

theorem fillPos_rebind_kw {ps : List (Name × Option Val)} {r kws : List (Name × Val)}
    (hr : r.map Prod.fst = ps.map Prod.fst) (hk : ∀ q ∈ r, get? q.1 kws = some q.2) :
    fillPos ps [] kws = some r := by
  induction ps generalizing r with
  | nil =>
    cases r with
    | nil => simp [fillPos]
    | cons _ _ => simp at hr
  | cons p ps ih =>
    obtain ⟨n, d⟩ := p
    cases r with
    | nil => simp at hr
    | cons q r' =>
      obtain ⟨n', v⟩ := q
      simp only [List.map_cons, List.cons.injEq] at hr
      obtain ⟨rfl, hr'⟩ := hr
      have h0 : get? n' kws = some v := hk (n', v) (by simp)
      simp only [fillPos, h0]
      rw [ih hr' (fun q hq => hk q (by simp [hq]))]
      simp

theorem lookupAll_sub {env : List (Name × Val)} (hn : (env.map Prod.fst).Nodup)
    (l : List (Name × Val)) (hsub : ∀ q ∈ l, q ∈ env) :
    lookupAll env (l.map Prod.fst) = some (l.map Prod.snd) := by
  induction l with
  | nil => rfl
  | cons q r ih =>
    obtain ⟨n, v⟩ := q
    have h0 : get? n env = some v := get?_of_mem_nodup hn (hsub _ List.mem_cons_self)
    simp only [List.map_cons, lookupAll, h0, ih (fun q hq => hsub q (List.mem_cons_of_mem _ hq))]

theorem lookupKws_sub {env : List (Name × Val)} (hn : (env.map Prod.fst).Nodup)
    (l : List (Name × Val)) (hsub : ∀ q ∈ l, q ∈ env) :
    lookupKws env ((l.map Prod.fst).map (fun k => (k, k))) = some l := by
  induction l with
  | nil => rfl
  | cons q r ih =>
    obtain ⟨n, v⟩ := q
    have h0 : get? n env = some v := get?_of_mem_nodup hn (hsub _ List.mem_cons_self)
    simp only [List.map_cons, lookupKws, h0, ih (fun q hq => hsub q (List.mem_cons_of_mem _ hq))]

theorem unknownKw_key_not_mem {s : Sig} {kv : Name × Val} (h : unknownKw s kv = true) : kv.1 ∉ s.names := by
  simpa [unknownKw] using h

/-- the call expression the builder writes for a signature -/
def Sig.invocation (s : Sig) : CallExpr :=
  ⟨s.pos.map Prod.fst, s.varargs, (s.kwonly.map Prod.fst).map (fun k => (k, k)), s.varkw⟩

theorem rebind (s : Sig) (hn : s.names.Nodup) (c : Call) (b : Bound) (h : bind s c = some b) :
    ∃ c', evalCall s.invocation s b = some c' ∧ bind s c' = some b := by
  unfold bind at h
  split at h
  · simp at h
  rename_i hva
  split at h
  · simp at h
  rename_i hvk
  cases ha : fillPos s.pos c.pos c.kws with
  | none => simp [ha] at h
  | some a =>
  cases hk : fillPos s.kwonly [] c.kws with
  | none => simp [ha, hk] at h
  | some k =>
  simp only [ha, hk, Option.some.injEq] at h
  have han := fillPos_names ha
  have hkn := fillPos_names hk
  have hnames : s.names = a.map Prod.fst ++ k.map Prod.fst := by
    unfold Sig.names; rw [List.map_append, han, hkn]
  have hn' : (a.map Prod.fst ++ k.map Prod.fst).Nodup := hnames ▸ hn
  have henv : ((a ++ k).map Prod.fst).Nodup := by rw [List.map_append]; exact hn'
  have hkN : (k.map Prod.fst).Nodup := (List.nodup_append.mp hn').2.1
  -- abbreviations for the collected extras
  generalize hextra : c.pos.drop s.pos.length = extra at h hva
  generalize hunk : c.kws.filter (unknownKw s) = unk at h hvk
  have hunkP : ∀ kv ∈ unk, unknownKw s kv = true := by
    intro kv hkv; rw [← hunk] at hkv; exact (List.mem_filter.mp hkv).2
  subst h
  -- the pieces of the evaluated call
  have e1 : lookupAll (a ++ k) (s.pos.map Prod.fst) = some (a.map Prod.snd) := by
    rw [← han]; exact lookupAll_sub henv a (fun q hq => List.mem_append_left _ hq)
  have e3 : lookupKws (a ++ k) ((s.kwonly.map Prod.fst).map (fun k => (k, k))) = some k := by
    rw [← hkn]; exact lookupKws_sub henv k (fun q hq => List.mem_append_right _ hq)
  let st : List Val := match s.varargs with | some _ => extra | none => []
  let ds : List (Name × Val) := match s.varkw with | some _ => unk | none => []
  have hdsP : ∀ kv ∈ ds, unknownKw s kv = true := by
    intro kv hkv
    cases hv : s.varkw with
    | none => simp [ds, hv] at hkv
    | some v => simp only [ds, hv] at hkv; exact hunkP kv hkv
  have hdsall : ds.all (fun kv => (get? kv.1 k).isNone) = true := by
    rw [List.all_eq_true]
    intro kv hkv
    have : kv.1 ∉ k.map Prod.fst := by
      have := unknownKw_key_not_mem (hdsP kv hkv)
      rw [hnames] at this
      exact fun hm => this (List.mem_append_right _ hm)
    rw [get?_eq_none_of_not_mem this]; rfl
  refine ⟨⟨a.map Prod.snd ++ st, k ++ ds⟩, ?_, ?_⟩
  · unfold evalCall Sig.invocation
    simp only [e1, e3]
    cases hv : s.varargs <;> cases hw : s.varkw <;>
      simp [st, ds, hv, hw, hdsall] <;> simpa [ds, hw] using hdsall
  · have hlen : s.pos.length = (a.map Prod.snd).length := by
      have := congrArg List.length han; simpa using this.symm
    have hdrop : (a.map Prod.snd ++ st).drop s.pos.length = st := by
      rw [hlen]; exact List.drop_left
    have hfk : (k ++ ds).filter (unknownKw s) = ds := by
      rw [List.filter_append]
      have h1 : k.filter (unknownKw s) = [] := by
        apply List.filter_eq_nil_iff.mpr
        intro kv hkv hu
        apply unknownKw_key_not_mem hu
        rw [hnames]
        exact List.mem_append_right _ (List.mem_map.mpr ⟨kv, hkv, rfl⟩)
      rw [h1, List.nil_append]
      exact List.filter_eq_self.mpr hdsP
    have hpos : fillPos s.pos (a.map Prod.snd ++ st) (k ++ ds) = some a := by
      apply fillPos_rebind_pos st han
      intro p hp
      apply get?_eq_none_of_not_mem
      rw [List.map_append]
      intro hm
      rcases List.mem_append.mp hm with hm | hm
      · rw [← han] at hp
        exact (List.nodup_append.mp hn').2.2 p hp p hm rfl
      · obtain ⟨kv, hkv, rfl⟩ := List.mem_map.mp hm
        apply unknownKw_key_not_mem (hdsP kv hkv)
        unfold Sig.names; rw [List.map_append]
        exact List.mem_append_left _ hp
    have hkw : fillPos s.kwonly [] (k ++ ds) = some k := by
      apply fillPos_rebind_kw hkn
      intro q hq
      rw [get?_append, get?_of_mem_nodup hkN hq]; rfl
    unfold bind
    simp only [hdrop, hfk, hpos, hkw]
    cases hv : s.varargs <;> cases hw : s.varkw <;> simp [st, ds, hv, hw]

/-! ### `get_func` and `update_wrapper` -/

def FB.names (fb : FB) : List Name :=
  fb.args ++ fb.varargs.toList ++ fb.kwonlyargs ++ fb.varkw.toList

/-- the function object `get_func` builds when the source compiles -/
def FB.toFunc (fb : FB) (ident : Nat) (wrapped : Option Nat) : Func :=
  ⟨ident, fb.name, fb.doc, fb.module, fb.args, fb.varargs, fb.kwonlyargs, fb.varkw, fb.defaults,
   fb.kwonlydefaults, fb.annotations, fb.retAnn, fb.isAsync, wrapped, fb.invocationSpecs⟩

theorem names_sub_nodup {fb : FB} (h : fb.names.Nodup) : (fb.args ++ fb.kwonlyargs).Nodup := by
  refine List.Nodup.sublist ?_ h
  unfold FB.names
  rw [List.append_assoc, List.append_assoc]
  apply List.Sublist.append (List.Sublist.refl _)
  rw [← List.append_assoc]
  exact (List.sublist_append_right _ _).trans (List.sublist_append_left _ _)

theorem getFunc_invocation (fb : FB) (ident : Nat) (wrapped : Option Nat) :
    fb.getFunc ident wrapped fb.invocationSpecs =
      if fb.names.Nodup then .ok (fb.toFunc ident wrapped) else .error .syntaxError := by
  unfold FB.getFunc FB.sigSpecs
  rw [parseDef_format]
  by_cases h : fb.names.Nodup
  · have h' : (fb.args ++ fb.varargs.toList ++ fb.kwonlyargs ++ fb.varkw.toList).Nodup := h
    have hk : fb.kwonlyargs.Nodup := (List.nodup_append.mp (names_sub_nodup h)).2.1
    rw [if_pos h', if_pos h]
    unfold FB.invocationSpecs
    rw [parseCall_invocation _ _ _ _ hk]
    rfl
  · have h' : ¬ (fb.args ++ fb.varargs.toList ++ fb.kwonlyargs ++ fb.varkw.toList).Nodup := h
    rw [if_neg h', if_neg h]

theorem updateWrapper_of_steps {f : Func} {inj : List Name} {exp : List (Name × Option Val)} {o : Opts}
    {ident : Nat} {fb1 fb2 : FB} (h1 : injectAll o.injectToVarkw (FB.fromFunc f) inj = .ok fb1)
    (h2 : expectAll fb1 exp = .ok fb2) :
    updateWrapper f inj exp o ident =
      if fb2.names.Nodup then .ok (fb2.toFunc ident (if o.hideWrapped then none else some f.ident))
      else .error .syntaxError := by
  unfold updateWrapper
  simp only [h1, h2]
  exact getFunc_invocation _ _ _

/-- every function `update_wrapper` returns is some builder state compiled: distinct
    parameter names, body = the builder's own invocation of those parameters -/
theorem updateWrapper_inv {f : Func} {inj : List Name} {exp : List (Name × Option Val)} {o : Opts}
    {ident : Nat} {w : Func} (h : updateWrapper f inj exp o ident = .ok w) :
    ∃ fb1 fb2, injectAll o.injectToVarkw (FB.fromFunc f) inj = .ok fb1 ∧ expectAll fb1 exp = .ok fb2 ∧
      fb2.names.Nodup ∧ w = fb2.toFunc ident (if o.hideWrapped then none else some f.ident) := by
  cases h1 : injectAll o.injectToVarkw (FB.fromFunc f) inj with
  | error e => unfold updateWrapper at h; simp [h1] at h
  | ok fb1 =>
    cases h2 : expectAll fb1 exp with
    | error e => unfold updateWrapper at h; simp [h1, h2] at h
    | ok fb2 =>
      rw [updateWrapper_of_steps h1 h2] at h
      by_cases hn : fb2.names.Nodup
      · rw [if_pos hn] at h
        exact ⟨fb1, fb2, rfl, h2, hn, (Except.ok.inj h).symm⟩
      · rw [if_neg hn] at h; cases h

theorem sigOf_toFunc (fb : FB) (ident : Nat) (wrapped : Option Nat) :
    sigOf (fb.toFunc ident wrapped) = ⟨fb.posSig, fb.varargs, fb.kwSig, fb.varkw⟩ := rfl

theorem kwAttach_names (kwo : List Name) (kd : List (Name × Val)) : (kwAttach kwo kd).map Prod.fst = kwo := by
  unfold kwAttach; rw [List.map_map]; simp [Function.comp_def]

theorem sigOf_names (f : Func) : (sigOf f).names = f.args ++ f.kwonly := by
  unfold Sig.names sigOf
  rw [List.map_append, attach_names, kwAttach_names]

/-- the body the builder writes is the invocation of the signature it compiles -/
theorem parseCall_body (fb : FB) (ident : Nat) (wrapped : Option Nat) (hn : fb.names.Nodup) :
    parseCall (fb.toFunc ident wrapped).body = some (sigOf (fb.toFunc ident wrapped)).invocation := by
  have hk : fb.kwonlyargs.Nodup := (List.nodup_append.mp (names_sub_nodup hn)).2.1
  show parseCall fb.invocationSpecs = _
  unfold FB.invocationSpecs
  rw [parseCall_invocation _ _ _ _ hk]
  unfold Sig.invocation
  rw [sigOf_toFunc]
  simp only [FB.posSig, FB.kwSig, attach_names, kwAttach_names]

/-- a well-formed Python function object: distinct parameter names, no more positional
    defaults than positional parameters, keyword-only defaults only for keyword-only
    parameters (the keys of a dict are distinct) -/
structure WfFunc (f : Func) : Prop where
  nodup : (paramNames f).Nodup
  len : f.defaults.length ≤ f.args.length
  kwd : ∀ k, k ∈ f.kwdefaults.map Prod.fst → k ∈ f.kwonly
  kwdNodup : (f.kwdefaults.map Prod.fst).Nodup

/-- on a well-formed function `getfullargspec` reports the whole of `__kwdefaults__` -/
theorem kwdOf_eq_of_wf {f : Func} (wf : WfFunc f) : kwdOf f = f.kwdefaults := by
  unfold kwdOf
  rw [List.filter_eq_self]
  intro p hp
  have := wf.kwd p.1 (List.mem_map_of_mem hp)
  simpa [keyIn] using this

theorem get?_filter_keyIn {α : Type} {ns : List Name} {p : Name} (hp : p ∈ ns) (l : List (Name × α)) :
    get? p (l.filter (keyIn ns)) = get? p l := by
  induction l with
  | nil => rfl
  | cons q r ih =>
    obtain ⟨k, v⟩ := q
    by_cases hk : k ∈ ns
    · have : keyIn ns (k, v) = true := by simpa [keyIn] using hk
      rw [List.filter_cons_of_pos this, get?_cons, get?_cons, ih]
    · have : ¬ keyIn ns (k, v) = true := by simpa [keyIn] using hk
      rw [List.filter_cons_of_neg this, ih, get?_cons, if_neg (fun (e : k = p) => hk (e ▸ hp))]

/-- the annotation of every parameter is reported -/
theorem get?_annOf {f : Func} {p : Name} (hp : p ∈ paramNames f) : get? p (annOf f) = get? p f.ann :=
  get?_filter_keyIn hp f.ann

/-- the default of every keyword-only parameter is reported -/
theorem kwAttach_kwdOf (f : Func) : kwAttach f.kwonly (kwdOf f) = kwAttach f.kwonly f.kwdefaults := by
  unfold kwAttach kwdOf
  apply List.map_congr_left
  intro k hk
  rw [get?_filter_keyIn hk]

theorem wfFB_fromFunc {f : Func} (wf : WfFunc f) : WfFB (FB.fromFunc f) := by
  have hk := kwdOf_eq_of_wf wf
  refine ⟨names_sub_nodup (fb := FB.fromFunc f) wf.nodup, wf.len, ?_, ?_⟩
  · show ∀ k, k ∈ (kwdOf f).map Prod.fst → k ∈ f.kwonly
    rw [hk]; exact wf.kwd
  · show ((kwdOf f).map Prod.fst).Nodup
    rw [hk]; exact wf.kwdNodup

/-- the builder starts from the function's own signature -/
theorem fromFunc_kwSig (f : Func) : (FB.fromFunc f).kwSig = (sigOf f).kwonly := kwAttach_kwdOf f

theorem fromFunc_posSig (f : Func) : (FB.fromFunc f).posSig = (sigOf f).pos := rfl

theorem paramNames_of_sigOf {w f : Func} (h : sigOf w = sigOf f) : paramNames w = paramNames f := by
  have ha : w.args = f.args := by
    have := congrArg (fun s => s.pos.map Prod.fst) h
    simpa [sigOf, attach_names] using this
  have hk : w.kwonly = f.kwonly := by
    have := congrArg (fun s => s.kwonly.map Prod.fst) h
    simpa [sigOf, kwAttach_names] using this
  have hva : w.varargs = f.varargs := congrArg Sig.varargs h
  have hvk : w.varkw = f.varkw := congrArg Sig.varkw h
  unfold paramNames
  rw [ha, hk, hva, hvk]

theorem sigOf_fromFunc (f : Func) (ident : Nat) (wrapped : Option Nat) :
    sigOf ((FB.fromFunc f).toFunc ident wrapped) = sigOf f := by
  rw [sigOf_toFunc, fromFunc_kwSig]; rfl

/-! ### whole `injected` / `expected` lists -/

def keyNotIn {α : Type} (xs : List Name) (p : Name × α) : Bool := !(xs.contains p.1)

theorem filter_keyNe_keyNotIn {α : Type} (x : Name) (xs : List Name) (l : List (Name × α)) :
    (l.filter (keyNe x)).filter (keyNotIn xs) = l.filter (keyNotIn (x :: xs)) := by
  rw [List.filter_filter]
  congr 1
  funext p
  simp only [keyNe, keyNotIn, List.contains_cons]
  cases (p.1 == x) <;> simp

theorem injectAll_spec {itv : Bool} {fb fb' : FB} (wf : WfFB fb) (inj : List Name)
    (h : injectAll itv fb inj = .ok fb') :
    WfFB fb' ∧ fb'.posSig = fb.posSig.filter (keyNotIn inj) ∧
      fb'.kwSig = fb.kwSig.filter (keyNotIn inj) ∧ fb'.rest = fb.rest := by
  induction inj generalizing fb with
  | nil =>
    simp only [injectAll, Except.ok.injEq] at h; subst h
    refine ⟨wf, ?_, ?_, rfl⟩ <;>
      (symm; apply List.filter_eq_self.mpr; intro p _; simp [keyNotIn])
  | cons x xs ih =>
    by_cases hx : x ∈ fb.args
    · obtain ⟨fb1, hr, wf1, hp, hk, hrest⟩ := removeArg_pos wf hx
      simp only [injectAll, hr] at h
      obtain ⟨wf', hp', hk', hrest'⟩ := ih wf1 h
      exact ⟨wf', by rw [hp', hp, filter_keyNe_keyNotIn], by rw [hk', hk, filter_keyNe_keyNotIn],
        hrest'.trans hrest⟩
    · by_cases hk : x ∈ fb.kwonlyargs
      · obtain ⟨fb1, hr, wf1, hp, hk, hrest⟩ := removeArg_kw wf hx hk
        simp only [injectAll, hr] at h
        obtain ⟨wf', hp', hk', hrest'⟩ := ih wf1 h
        exact ⟨wf', by rw [hp', hp, filter_keyNe_keyNotIn], by rw [hk', hk, filter_keyNe_keyNotIn],
          hrest'.trans hrest⟩
      · simp only [injectAll, removeArg_missing hx hk] at h
        split at h
        · obtain ⟨wf', hp', hk', hrest'⟩ := ih wf h
          refine ⟨wf', ?_, ?_, hrest'⟩
          · rw [hp', ← filter_keyNe_keyNotIn, filter_keyNe_of_not_mem]
            unfold FB.posSig; rw [attach_names]; exact hx
          · rw [hk', ← filter_keyNe_keyNotIn, filter_keyNe_of_not_mem]
            unfold FB.kwSig; rw [kwAttach_names]; exact hk
        · cases h

theorem get?_insert_ne {α : Type} {p z : Name} (d : α) (pre post : List (Name × α)) (h : p ≠ z) :
    get? p (pre ++ (z, d) :: post) = get? p (pre ++ post) := by
  rw [get?_append, get?_append, get?_cons, if_neg (fun e => h e.symm)]

theorem expectAll_spec {fb fb' : FB} (wf : WfFB fb) (exp : List (Name × Option Val))
    (h : expectAll fb exp = .ok fb') :
    WfFB fb' ∧ fb'.kwSig = fb.kwSig ∧ fb'.rest = fb.rest ∧
      (fb'.posSig.map Prod.fst).Perm (fb.posSig.map Prod.fst ++ exp.map Prod.fst) ∧
      (∀ p, p ∉ exp.map Prod.fst → get? p fb'.posSig = get? p fb.posSig) := by
  induction exp generalizing fb with
  | nil =>
    simp only [expectAll, Except.ok.injEq] at h; subst h
    exact ⟨wf, rfl, rfl, by simp, fun _ _ => rfl⟩
  | cons zd zs ih =>
    obtain ⟨z, d⟩ := zd
    by_cases hz : z ∈ fb.args ∨ z ∈ fb.kwonlyargs
    · simp only [expectAll, addArg_existing d hz] at h; cases h
    · have hz1 : z ∉ fb.args := fun h => hz (Or.inl h)
      have hz2 : z ∉ fb.kwonlyargs := fun h => hz (Or.inr h)
      cases d with
      | none =>
        obtain ⟨fb1, pre, post, hr, wf1, hp0, hp1, _, _, hk, hrest⟩ := addArg_none wf hz1 hz2
        simp only [expectAll, hr] at h
        obtain ⟨wf', hk', hrest', hperm, hd⟩ := ih wf1 h
        refine ⟨wf', hk'.trans hk, hrest'.trans hrest, ?_, ?_⟩
        · refine hperm.trans ?_
          rw [hp1, hp0]
          simp only [List.map_append, List.map_cons, List.append_assoc]
          refine List.Perm.append_left _ ?_
          simp only [List.cons_append]
          exact (List.perm_middle (a := z) (l₁ := post.map Prod.fst) (l₂ := zs.map Prod.fst)).symm
        · intro p hp
          simp only [List.map_cons, List.mem_cons, not_or] at hp
          rw [hd p hp.2, hp1, hp0, get?_insert_ne _ _ _ hp.1]
      | some v =>
        obtain ⟨fb1, hr, wf1, hp1, hk, hrest⟩ := addArg_some wf v hz1 hz2
        simp only [expectAll, hr] at h
        obtain ⟨wf', hk', hrest', hperm, hd⟩ := ih wf1 h
        refine ⟨wf', hk'.trans hk, hrest'.trans hrest, ?_, ?_⟩
        · refine hperm.trans ?_
          rw [hp1]
          simp only [List.map_append, List.map_cons, List.map_nil, List.append_assoc, List.singleton_append]
          exact List.Perm.refl _
        · intro p hp
          simp only [List.map_cons, List.mem_cons, not_or] at hp
          rw [hd p hp.2, hp1, get?_append]
          have : get? p [((z, some v) : Name × Option Val)] = none := by
            rw [get?_cons, if_neg (fun e => hp.1 e.symm)]; rfl
          rw [this]; cases get? p fb.posSig <;> rfl

/-! ### when does a call bind -/

theorem fillPos_isSome_iff (ps : List (Name × Option Val)) (vs : List Val) (kws : List (Name × Val)) :
    (fillPos ps vs kws).isSome ↔
      (∀ p ∈ ps.take vs.length, get? p.1 kws = none) ∧
      (∀ p ∈ ps.drop vs.length, p.2.isSome ∨ (get? p.1 kws).isSome) := by
  induction ps generalizing vs with
  | nil => simp [fillPos]
  | cons p ps ih =>
    obtain ⟨n, d⟩ := p
    cases vs with
    | cons v vs =>
      simp only [fillPos, List.length_cons, List.take_succ_cons, List.drop_succ_cons, List.mem_cons,
        forall_eq_or_imp]
      cases hg : get? n kws with
      | some x => simp
      | none =>
        simp only [Option.isSome_none, Bool.false_eq_true, if_false, Option.isSome_map, true_and]
        exact ih vs
    | nil =>
      simp only [fillPos, List.length_nil, List.take_zero, List.drop_zero, List.not_mem_nil,
        false_imp_iff, implies_true, true_and, List.mem_cons, forall_eq_or_imp]
      have ih0 := ih []
      simp only [List.length_nil, List.take_zero, List.drop_zero, List.not_mem_nil,
        false_imp_iff, implies_true, true_and] at ih0
      cases hg : get? n kws with
      | some x =>
        have : (some x).or d = some x := by cases d <;> rfl
        simp only [this, Option.isSome_map, Option.isSome_some, or_true, true_and]
        exact ih0
      | none =>
        cases d with
        | none => simp
        | some dv =>
          have : (none : Option Val).or (some dv) = some dv := rfl
          simp only [this, Option.isSome_map, Option.isSome_some, true_or, true_and]
          exact ih0

/-! ### builder histories -/

theorem dset_of_not_mem {α : Type} {z : Name} (v : α) {l : List (Name × α)} (h : z ∉ l.map Prod.fst) :
    dset z v l = l ++ [(z, v)] := by
  induction l with
  | nil => rfl
  | cons p r ih =>
    obtain ⟨k, v'⟩ := p
    simp only [List.map_cons, List.mem_cons, not_or] at h
    rw [dset, if_neg (fun e => h.1 e.symm), ih h.2]; rfl

/-- adding a keyword-only parameter: appended after the keyword-only parameters -/
theorem addArg_kwonly {fb : FB} (wf : WfFB fb) {z : Name} (d : Option Val) (hz : z ∉ fb.args)
    (hk : z ∉ fb.kwonlyargs) :
    ∃ fb', fb.addArg z d true = .ok fb' ∧ WfFB fb' ∧
      fb'.posSig = fb.posSig ∧ fb'.kwSig = fb.kwSig ++ [(z, d)] ∧ fb'.rest = fb.rest := by
  have hzk : z ∉ fb.kwonlydefaults.map Prod.fst := fun h => hk (wf.kwd z h)
  let kd' : List (Name × Val) := match d with
    | some v => dset z v fb.kwonlydefaults
    | none => fb.kwonlydefaults
  have hkd' : kd' = fb.kwonlydefaults ++ (match d with | some v => [(z, v)] | none => []) := by
    cases d with
    | none => simp [kd']
    | some v => simp only [kd']; exact dset_of_not_mem v hzk
  refine ⟨{ fb with kwonlyargs := fb.kwonlyargs ++ [z], kwonlydefaults := kd' },
    by unfold FB.addArg; rw [if_neg hz, if_neg hk]; rfl, ?_, rfl, ?_, rfl⟩
  · refine ⟨?_, wf.len, ?_, ?_⟩
    · show (fb.args ++ (fb.kwonlyargs ++ [z])).Nodup
      rw [← List.append_assoc]
      have hperm : ((fb.args ++ fb.kwonlyargs) ++ [z]).Perm (z :: (fb.args ++ fb.kwonlyargs)) := by
        have := @List.perm_middle _ z (fb.args ++ fb.kwonlyargs) []
        simpa using this
      rw [hperm.nodup_iff, List.nodup_cons]
      exact ⟨by simp [hz, hk], wf.nodup⟩
    · intro k hkk
      show k ∈ fb.kwonlyargs ++ [z]
      have hkk' : k ∈ kd'.map Prod.fst := hkk
      rw [hkd', List.map_append, List.mem_append] at hkk'
      rcases hkk' with h | h
      · exact List.mem_append_left _ (wf.kwd k h)
      · cases d with
        | none => simp at h
        | some v => simp at h; subst h; simp
    · show (kd'.map Prod.fst).Nodup
      rw [hkd', List.map_append, List.nodup_append]
      refine ⟨wf.kwdNodup, ?_, ?_⟩
      · cases d <;> simp
      · intro a ha b hb
        cases d with
        | none => simp at hb
        | some v =>
          simp at hb; subst hb
          exact fun e => hzk (e ▸ ha)
  · show kwAttach (fb.kwonlyargs ++ [z]) kd' = kwAttach fb.kwonlyargs fb.kwonlydefaults ++ [(z, d)]
    unfold kwAttach
    rw [List.map_append]
    congr 1
    · apply List.map_congr_left
      intro k hkk
      have hne : k ≠ z := fun e => hk (e ▸ hkk)
      rw [hkd', get?_append]
      have : get? k (match d with | some v => [(z, v)] | none => ([] : List (Name × Val))) = none := by
        cases d with
        | none => rfl
        | some v => rw [get?_cons, if_neg (fun e => hne e.symm)]; rfl
      rw [this]; cases get? k fb.kwonlydefaults <;> rfl
    · simp only [List.map_cons, List.map_nil, List.cons.injEq, Prod.mk.injEq, true_and, and_true]
      rw [hkd', get?_append, get?_eq_none_of_not_mem hzk]
      cases d with
      | none => rfl
      | some v => simp [get?_cons]

theorem get?_append_filter_keyNe {α : Type} {x p : Name} (A B : List (Name × α)) (h : p ≠ x) :
    get? p (A.filter (keyNe x) ++ B.filter (keyNe x)) = get? p (A ++ B) := by
  rw [get?_append, get?_append, get?_filter_keyNe _ h, get?_filter_keyNe _ h]

/-- one mutator call: the builder stays well formed and every parameter other than the one
    named in the call keeps its default -/
theorem step_spec {fb fb' : FB} (wf : WfFB fb) (op : BOp) (h : fb.step op = .ok fb') :
    WfFB fb' ∧ fb'.rest = fb.rest ∧
      ∀ p, p ≠ op.name → get? p (fb'.posSig ++ fb'.kwSig) = get? p (fb.posSig ++ fb.kwSig) := by
  cases op with
  | remove x =>
    simp only [FB.step] at h
    by_cases hx : x ∈ fb.args
    · obtain ⟨fb1, hr, wf1, hp, hk, hrest⟩ := removeArg_pos wf hx
      rw [hr] at h; cases h
      exact ⟨wf1, hrest, fun p hp' => by rw [hp, hk]; exact get?_append_filter_keyNe _ _ hp'⟩
    · by_cases hk : x ∈ fb.kwonlyargs
      · obtain ⟨fb1, hr, wf1, hp, hk, hrest⟩ := removeArg_kw wf hx hk
        rw [hr] at h; cases h
        exact ⟨wf1, hrest, fun p hp' => by rw [hp, hk]; exact get?_append_filter_keyNe _ _ hp'⟩
      · rw [removeArg_missing hx hk] at h; cases h
  | add z d kwonly =>
    simp only [FB.step] at h
    by_cases hz : z ∈ fb.args ∨ z ∈ fb.kwonlyargs
    · have : fb.addArg z d kwonly = .error .existingArgument := by
        unfold FB.addArg
        by_cases hz1 : z ∈ fb.args
        · rw [if_pos hz1]
        · rw [if_neg hz1, if_pos (hz.resolve_left hz1)]
      rw [this] at h; cases h
    · have hz1 : z ∉ fb.args := fun h => hz (Or.inl h)
      have hz2 : z ∉ fb.kwonlyargs := fun h => hz (Or.inr h)
      cases kwonly with
      | true =>
        obtain ⟨fb1, hr, wf1, hp, hk, hrest⟩ := addArg_kwonly wf d hz1 hz2
        rw [hr] at h; cases h
        refine ⟨wf1, hrest, fun p hp' => ?_⟩
        rw [hp, hk, ← List.append_assoc, get?_append]
        have : get? p [((z, d) : Name × Option Val)] = none := by
          rw [get?_cons, if_neg (fun e => hp' e.symm)]; rfl
        rw [this]; cases get? p (fb.posSig ++ fb.kwSig) <;> rfl
      | false =>
        cases d with
        | none =>
          obtain ⟨fb1, pre, post, hr, wf1, hp0, hp1, _, _, hk, hrest⟩ := addArg_none wf hz1 hz2
          rw [hr] at h; cases h
          refine ⟨wf1, hrest, fun p hp' => ?_⟩
          have hp'' : p ≠ z := hp'
          rw [hp1, hp0, hk, get?_append, get?_append (l₁ := pre ++ post), get?_insert_ne _ _ _ hp'']
        | some v =>
          obtain ⟨fb1, hr, wf1, hp1, hk, hrest⟩ := addArg_some wf v hz1 hz2
          rw [hr] at h; cases h
          refine ⟨wf1, hrest, fun p hp' => ?_⟩
          rw [hp1, hk, get?_append, get?_append, get?_append]
          have : get? p [((z, some v) : Name × Option Val)] = none := by
            rw [get?_cons, if_neg (fun e => hp' e.symm)]; rfl
          rw [this]; cases get? p fb.posSig <;> rfl

theorem run_spec {fb fb' : FB} (wf : WfFB fb) (ops : List BOp) (h : fb.run ops = .ok fb') :
    WfFB fb' ∧ fb'.rest = fb.rest ∧
      ∀ p, p ∉ ops.map BOp.name → get? p (fb'.posSig ++ fb'.kwSig) = get? p (fb.posSig ++ fb.kwSig) := by
  induction ops generalizing fb with
  | nil => simp only [FB.run, Except.ok.injEq] at h; subst h; exact ⟨wf, rfl, fun _ _ => rfl⟩
  | cons op ops ih =>
    cases hs : fb.step op with
    | error e => simp only [FB.run, hs] at h; cases h
    | ok fb1 =>
      simp only [FB.run, hs] at h
      obtain ⟨wf1, hrest1, hd1⟩ := step_spec wf op hs
      obtain ⟨wf', hrest', hd'⟩ := ih wf1 h
      refine ⟨wf', hrest'.trans hrest1, fun p hp => ?_⟩
      simp only [List.map_cons, List.mem_cons, not_or] at hp
      rw [hd' p hp.2, hd1 p hp.1]

theorem buildHistory_inv {f : Func} {ops : List BOp} {ident : Nat} {w : Func}
    (h : buildHistory f ops ident = .ok w) :
    ∃ fb, (FB.fromFunc f).run ops = .ok fb ∧ fb.names.Nodup ∧ w = fb.toFunc ident none := by
  unfold buildHistory at h
  cases hr : (FB.fromFunc f).run ops with
  | error e => simp [hr] at h
  | ok fb =>
    simp only [hr] at h
    rw [getFunc_invocation] at h
    by_cases hn : fb.names.Nodup
    · rw [if_pos hn] at h; exact ⟨fb, rfl, hn, (Except.ok.inj h).symm⟩
    · rw [if_neg hn] at h; cases h

/-! ### `expected`, exactly: what is there afterwards -/

theorem mem_keys_of_posSig_eq {fb : FB} {l : List (Name × Option Val)} (h : fb.posSig = l) :
    fb.args = l.map Prod.fst := by
  rw [← h, FB.posSig, attach_names]

/-- a whole `expected` list that is accepted: taking the new names away again gives back the
    positional parameters as they were (order, defaults); every new name is there with exactly
    the default asked for; the new names are pairwise distinct and none of them was a positional
    or keyword-only parameter before -/
theorem expectAll_exact {fb fb' : FB} (wf : WfFB fb) (exp : List (Name × Option Val))
    (h : expectAll fb exp = .ok fb') :
    fb'.posSig.filter (keyNotIn (exp.map Prod.fst)) = fb.posSig ∧
      (∀ zd ∈ exp, get? zd.1 fb'.posSig = some zd.2) ∧
      (exp.map Prod.fst).Nodup ∧
      (∀ z ∈ exp.map Prod.fst, z ∉ fb.args ∧ z ∉ fb.kwonlyargs) := by
  induction exp generalizing fb with
  | nil =>
    simp only [expectAll, Except.ok.injEq] at h; subst h
    refine ⟨?_, by simp, by simp, by simp⟩
    apply List.filter_eq_self.mpr; intro p _; simp [keyNotIn]
  | cons zd zs ih =>
    obtain ⟨z, d⟩ := zd
    by_cases hz : z ∈ fb.args ∨ z ∈ fb.kwonlyargs
    · simp only [expectAll, addArg_existing d hz] at h; cases h
    · have hz1 : z ∉ fb.args := fun h => hz (Or.inl h)
      have hz2 : z ∉ fb.kwonlyargs := fun h => hz (Or.inr h)
      have hzp : z ∉ fb.posSig.map Prod.fst := by rw [FB.posSig, attach_names]; exact hz1
      -- one step: fb1 with `z` somewhere among the positional parameters
      have hstep : ∃ fb1, fb.addArg z d = .ok fb1 ∧ WfFB fb1 ∧
          fb1.posSig.filter (keyNe z) = fb.posSig ∧ get? z fb1.posSig = some d ∧
          (∀ a ∈ fb.args, a ∈ fb1.args) ∧ z ∈ fb1.args ∧ fb1.kwonlyargs = fb.kwonlyargs := by
        cases d with
        | none =>
          obtain ⟨fb1, pre, post, hr, wf1, hp0, hp1, _, _, hk, _⟩ := addArg_none wf hz1 hz2
          have hzpre : z ∉ pre.map Prod.fst := fun hm => hzp (by rw [hp0, List.map_append]; exact List.mem_append_left _ hm)
          have hzpost : z ∉ post.map Prod.fst := fun hm => hzp (by rw [hp0, List.map_append]; exact List.mem_append_right _ hm)
          have hkw : fb1.kwonlyargs = fb.kwonlyargs := by
            have := congrArg (List.map Prod.fst) hk
            rwa [FB.kwSig, FB.kwSig, kwAttach_names, kwAttach_names] at this
          refine ⟨fb1, hr, wf1, ?_, ?_, ?_, ?_, hkw⟩
          · rw [hp1, hp0, List.filter_append, List.filter_cons_of_neg (by simp [keyNe]),
              filter_keyNe_of_not_mem hzpre, filter_keyNe_of_not_mem hzpost]
          · rw [hp1, get?_append, get?_eq_none_of_not_mem hzpre, get?_cons, if_pos rfl]; rfl
          · intro a ha
            rw [mem_keys_of_posSig_eq hp1]
            rw [mem_keys_of_posSig_eq hp0] at ha
            simp only [List.map_append, List.map_cons, List.mem_append, List.mem_cons] at ha ⊢
            rcases ha with ha | ha
            · exact Or.inl ha
            · exact Or.inr (Or.inr ha)
          · rw [mem_keys_of_posSig_eq hp1]; simp
        | some v =>
          obtain ⟨fb1, hr, wf1, hp1, hk, _⟩ := addArg_some wf v hz1 hz2
          have hkw : fb1.kwonlyargs = fb.kwonlyargs := by
            have := congrArg (List.map Prod.fst) hk
            rwa [FB.kwSig, FB.kwSig, kwAttach_names, kwAttach_names] at this
          refine ⟨fb1, hr, wf1, ?_, ?_, ?_, ?_, hkw⟩
          · rw [hp1, List.filter_append, filter_keyNe_of_not_mem hzp]
            simp [keyNe]
          · rw [hp1, get?_append, get?_eq_none_of_not_mem hzp, get?_cons, if_pos rfl]; rfl
          · intro a ha
            rw [mem_keys_of_posSig_eq hp1, List.map_append, FB.posSig, attach_names]
            exact List.mem_append_left _ ha
          · rw [mem_keys_of_posSig_eq hp1]; simp
      obtain ⟨fb1, hr, wf1, hfil, hget, hsub, hzin, hkw⟩ := hstep
      simp only [expectAll, hr] at h
      obtain ⟨ih1, ih2, ih3, ih4⟩ := ih wf1 h
      obtain ⟨_, _, _, _, hd⟩ := expectAll_spec wf1 zs h
      have hznot : z ∉ zs.map Prod.fst := fun hm => (ih4 z hm).1 hzin
      refine ⟨?_, ?_, ?_, ?_⟩
      · show fb'.posSig.filter (keyNotIn (z :: zs.map Prod.fst)) = fb.posSig
        rw [← filter_keyNe_keyNotIn, List.filter_filter]
        have : (fun (a : Name × Option Val) => (keyNotIn (zs.map Prod.fst) a && keyNe z a)) =
            (fun a => (keyNe z a && keyNotIn (zs.map Prod.fst) a)) := by
          funext a; exact Bool.and_comm _ _
        rw [this, ← List.filter_filter, ih1, hfil]
      · intro zd hzd
        simp only [List.mem_cons] at hzd
        rcases hzd with rfl | hzd
        · show get? z fb'.posSig = some d
          rw [hd z hznot, hget]
        · exact ih2 zd hzd
      · show (z :: zs.map Prod.fst).Nodup
        exact List.nodup_cons.mpr ⟨hznot, ih3⟩
      · intro z' hz'
        simp only [List.map_cons, List.mem_cons] at hz'
        rcases hz' with rfl | hz'
        · exact ⟨hz1, hz2⟩
        · obtain ⟨h1, h2⟩ := ih4 z' hz'
          exact ⟨fun ha => h1 (hsub z' ha), fun hk' => h2 (hkw ▸ hk')⟩

end C13
