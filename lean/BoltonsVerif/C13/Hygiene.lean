import BoltonsVerif.C13.Model
/-
C13 — the exec namespace of the function `update_wrapper` compiles, and the name its body calls.

`Model.lean` takes for granted that the body `return _call(<invocation>)` of the built function
reaches the user's wrapper.  In the code that depends on NAMES: the body is compiled inside
`execdict = {call_name: wrapper, '_func': func}`; executing the `def` binds the function's own
name in that same dict; and inside the body a parameter of the same name shadows the global.
`update_wrapper` therefore picks `call_name` by the loop

    call_name = '_call'
    while call_name in fb.get_arg_names() + (fb.varargs, fb.varkw, fb.name):
        call_name = '_' + call_name

This file models exactly that: the spellings `_call`, `__call`, `___call`, … are `cn 0, cn 1, …`
for an injective `cn`; `pickCall` is the loop (it needs at most `taken.length` rounds - theorem
`pickCall_fresh`, by the pigeonhole principle - so the fuel is not a restriction); `resolve` is
Python's name lookup for the callee (parameters first, then the exec namespace after the `def`
statement has run).  `Props.lean`: `callee_reaches_wrapper`.
Core Lean only.
-/
namespace C13

/-- what the name in callee position of the generated body evaluates to -/
inductive Callee where
  | userWrapper          -- the wrapper handed to `update_wrapper`: what `Model.callWrapper` assumes
  | argument             -- a parameter of the same name shadows it: the VALUE of that argument is called
  | self                 -- the `def` re-bound the name: the new function calls itself
  | wrappedFunc          -- the `_func` entry
  | unbound              -- NameError
deriving DecidableEq, Repr

/-- the loop: the first `cn j`, `j ≥ k`, that is not taken (at most `fuel` rounds) -/
def pickFrom (cn : Nat → Name) (taken : List Name) : Nat → Nat → Nat
  | 0, k => k
  | fuel + 1, k => if taken.contains (cn k) then pickFrom cn taken fuel (k + 1) else k

/-- the names the loop avoids: `fb.get_arg_names() + (fb.varargs, fb.varkw, fb.name)` -/
def FB.takenNames (fb : FB) : List Name :=
  fb.args ++ fb.kwonlyargs ++ fb.varargs.toList ++ fb.varkw.toList ++ [fb.name]

def pickCall (cn : Nat → Name) (taken : List Name) : Name :=
  cn (pickFrom cn taken taken.length 0)

/-- the exec namespace once the compiled `def` has run: `{call_name: wrapper, '_func': func}`
    (a later key wins), then the function's own name is bound -/
def execNamespace (callName funcKey fname : Name) : List (Name × Callee) :=
  dset fname Callee.self (dset funcKey Callee.wrappedFunc [(callName, Callee.userWrapper)])

/-- Python's lookup of the callee inside the body: a parameter (local) first, then the globals
    of the function = the exec namespace -/
def resolve (params : List Name) (callName funcKey fname : Name) : Callee :=
  if params.contains callName then .argument
  else (get? callName (execNamespace callName funcKey fname)).getD .unbound

/-- the callee of the function `update_wrapper` builds from the builder state `fb` -/
def FB.callee (fb : FB) (cn : Nat → Name) (funcKey : Name) : Callee :=
  resolve (fb.args ++ fb.varargs.toList ++ fb.kwonlyargs ++ fb.varkw.toList)
    (pickCall cn fb.takenNames) funcKey fb.name

/-- what the code did before the hygiene fix: always `_call` -/
def FB.calleeNaive (fb : FB) (cn : Nat → Name) (funcKey : Name) : Callee :=
  resolve (fb.args ++ fb.varargs.toList ++ fb.kwonlyargs ++ fb.varkw.toList) (cn 0) funcKey fb.name

/-! proofs -/

/-- pigeonhole: more distinct candidates than taken names - one candidate is free -/
theorem exists_not_mem_of_length_lt (cs : List Name) (hn : cs.Nodup) (taken : List Name)
    (hl : taken.length < cs.length) : ∃ c ∈ cs, c ∉ taken := by
  induction taken generalizing cs with
  | nil =>
    cases cs with
    | nil => simp at hl
    | cons c r => exact ⟨c, by simp, by simp⟩
  | cons t ts ih =>
    have hn' : (cs.erase t).Nodup := hn.erase t
    have hl' : ts.length < (cs.erase t).length := by
      have := List.length_erase_of_mem (a := t) (l := cs)
      by_cases ht : t ∈ cs
      · rw [List.length_erase_of_mem ht]; simp only [List.length_cons] at hl; omega
      · rw [List.erase_of_not_mem ht]; simp only [List.length_cons] at hl; omega
    obtain ⟨c, hc, hct⟩ := ih (cs.erase t) hn' hl'
    have hc' := (hn.mem_erase_iff).mp hc
    exact ⟨c, hc'.2, by simp only [List.mem_cons, not_or]; exact ⟨hc'.1, hct⟩⟩

/-- if some candidate within the fuel is free, the loop stops at a free one -/
theorem pickFrom_spec (cn : Nat → Name) (taken : List Name) (fuel k : Nat)
    (h : ∃ j, k ≤ j ∧ j < k + fuel ∧ cn j ∉ taken) :
    cn (pickFrom cn taken fuel k) ∉ taken ∧
      ∀ i, k ≤ i → i < pickFrom cn taken fuel k → cn i ∈ taken := by
  induction fuel generalizing k with
  | zero => obtain ⟨j, h1, h2, _⟩ := h; omega
  | succ fuel ih =>
    unfold pickFrom
    by_cases hk : taken.contains (cn k) = true
    · rw [if_pos hk]
      have hk' : cn k ∈ taken := by simpa using hk
      obtain ⟨j, h1, h2, h3⟩ := h
      have hj : j ≠ k := fun e => h3 (e ▸ hk')
      obtain ⟨r1, r2⟩ := ih (k + 1) ⟨j, by omega, by omega, h3⟩
      refine ⟨r1, fun i hi1 hi2 => ?_⟩
      by_cases hik : i = k
      · exact hik ▸ hk'
      · exact r2 i (by omega) hi2
    · rw [if_neg hk]
      exact ⟨by simpa using hk, fun i hi1 hi2 => by omega⟩

/-- the loop of `update_wrapper` ends, within `taken.length` rounds, at a name that is not taken -/
theorem pickCall_fresh (cn : Nat → Name) (hinj : ∀ i j, cn i = cn j → i = j) (taken : List Name) :
    pickCall cn taken ∉ taken := by
  have hnodup : ((List.range (taken.length + 1)).map cn).Nodup := by
    unfold List.Nodup
    rw [List.pairwise_map]
    exact (List.nodup_range (n := taken.length + 1)).imp fun {a b} hab hc => hab (hinj a b hc)
  obtain ⟨c, hc, hct⟩ := exists_not_mem_of_length_lt _ hnodup taken (by simp)
  obtain ⟨j, hj, rfl⟩ := List.mem_map.mp hc
  have hj' : j < taken.length + 1 := List.mem_range.mp hj
  by_cases hlast : j = taken.length
  · -- the free candidate is the one just past the fuel: either an earlier one is free, or the loop
    -- runs through all of `0 .. length-1` and returns `length`
    by_cases hex : ∃ i, i < taken.length ∧ cn i ∉ taken
    · obtain ⟨i, hi, hit⟩ := hex
      exact (pickFrom_spec cn taken taken.length 0 ⟨i, by omega, by omega, hit⟩).1
    · have hall : ∀ i, i < taken.length → cn i ∈ taken := by
        intro i hi; exact Classical.byContradiction fun hn => hex ⟨i, hi, hn⟩
      have : ∀ fuel k, k + fuel = taken.length → pickFrom cn taken fuel k = taken.length := by
        intro fuel
        induction fuel with
        | zero => intro k hk; simp only [pickFrom]; omega
        | succ fuel ih =>
          intro k hk
          unfold pickFrom
          have : taken.contains (cn k) = true := by simpa using hall k (by omega)
          rw [if_pos this]
          exact ih (k + 1) (by omega)
      unfold pickCall
      rw [this taken.length 0 (by omega), ← hlast]
      exact hct
  · exact (pickFrom_spec cn taken taken.length 0 ⟨j, by omega, by omega, hct⟩).1

/-- a callee name that is neither a parameter nor the function's name nor `_func` reaches the
    user's wrapper -/
theorem resolve_fresh {params : List Name} {callName funcKey fname : Name}
    (hp : callName ∉ params) (hf : callName ≠ fname) (hk : callName ≠ funcKey) :
    resolve params callName funcKey fname = .userWrapper := by
  unfold resolve execNamespace
  have : params.contains callName = false := by simpa using hp
  rw [this]
  simp only [Bool.false_eq_true, if_false]
  have h1 : dset funcKey Callee.wrappedFunc [(callName, Callee.userWrapper)] =
      [(callName, Callee.userWrapper), (funcKey, Callee.wrappedFunc)] := by
    simp only [dset, if_neg hk]
  rw [h1]
  simp only [dset, if_neg hf]
  by_cases hfk : funcKey = fname
  · simp only [if_pos hfk, get?]; rfl
  · simp only [if_neg hfk, get?]; rfl

end C13
