import BoltonsVerif.C13.Session
import BoltonsVerif.C13.Proofs
/-
C13 — helper lemmas for sessions: the heap telling (`step`) and the pure telling (`pstep`)
of a session agree.  The heart is a frame argument: a builder only ever writes at the address
of the dict `from_func` allocated for it, so nothing that existed before is changed; and the
dicts of distinct functions are distinct objects (`Inv`), so an in-place edit of one function
is invisible in every other.
-/
namespace C13

/-! reading and writing the heap -/

theorem rd_wr_same {h : Heap} {a : Nat} (d : List (Name × Val)) (ha : a < h.length) :
    rd (wr h a d) a = d := by
  simp [rd, wr, ha]

theorem rd_wr_ne {h : Heap} {a b : Nat} (d : List (Name × Val)) (hne : b ≠ a) :
    rd (wr h a d) b = rd h b := by
  simp [rd, wr, List.getElem?_set_ne (Ne.symm hne)]

theorem length_wr (h : Heap) (a : Nat) (d : List (Name × Val)) : (wr h a d).length = h.length := by
  simp [wr]

theorem rd_append_lt (h l : Heap) {a : Nat} (ha : a < h.length) : rd (h ++ l) a = rd h a := by
  simp [rd, List.getElem?_append_left ha]

theorem rd_append_len0 (h : Heap) (x y : List (Name × Val)) : rd (h ++ [x, y]) h.length = x := by
  simp [rd]

theorem rd_append_len1 (h : Heap) (x y : List (Name × Val)) : rd (h ++ [x, y]) (h.length + 1) = y := by
  simp [rd]

/-! builders -/

/-- the builder's two dicts exist and are two objects -/
structure BOk (h : Heap) (b : HFB) : Prop where
  kwd : b.kwd < h.length
  ann : b.ann < h.length
  ne : b.kwd ≠ b.ann

/-- what a mutator may do to the heap: write at the address of the builder's `kwonlydefaults` -/
structure Fr (h : Heap) (b : HFB) (h' : Heap) (b' : HFB) : Prop where
  len : h'.length = h.length
  kwd : b'.kwd = b.kwd
  ann : b'.ann = b.ann
  frame : ∀ a, a ≠ b.kwd → rd h' a = rd h a

theorem Fr.refl (h : Heap) (b : HFB) : Fr h b h b := ⟨rfl, rfl, rfl, fun _ _ => rfl⟩

theorem Fr.trans {h h' h'' : Heap} {b b' b'' : HFB} (x : Fr h b h' b') (y : Fr h' b' h'' b'') :
    Fr h b h'' b'' :=
  ⟨y.len.trans x.len, y.kwd.trans x.kwd, y.ann.trans x.ann,
   fun a ha => (y.frame a (by rw [x.kwd]; exact ha)).trans (x.frame a ha)⟩

theorem Fr.bok {h h' : Heap} {b b' : HFB} (x : Fr h b h' b') (hb : BOk h b) : BOk h' b' :=
  ⟨by rw [x.kwd, x.len]; exact hb.kwd, by rw [x.ann, x.len]; exact hb.ann, by rw [x.kwd, x.ann]; exact hb.ne⟩

theorem removeArg_annotations {fb fb' : FB} {x : Name} (h : fb.removeArg x = .ok fb') :
    fb'.annotations = fb.annotations := by
  unfold FB.removeArg at h
  split at h
  · cases h; rfl
  · split at h
    · cases h; rfl
    · cases h

theorem addArg_annotations {fb fb' : FB} {z : Name} {d : Option Val} {k : Bool}
    (h : fb.addArg z d k = .ok fb') : fb'.annotations = fb.annotations := by
  unfold FB.addArg at h
  split at h
  · cases h
  · split at h
    · cases h
    · split at h
      · cases h; rfl
      · split at h <;> (cases h; rfl)

theorem step_annotations {fb fb' : FB} {op : BOp} (h : fb.step op = .ok fb') :
    fb'.annotations = fb.annotations := by
  cases op with
  | remove x => exact removeArg_annotations h
  | add z d k => exact addArg_annotations h

theorem hApply_ok {g : FB → Except Err FB}
    (hg : ∀ fb fb', g fb = .ok fb' → fb'.annotations = fb.annotations)
    {h : Heap} {b : HFB} (hb : BOk h b) {p : Heap × HFB} (hp : hApply g h b = .ok p) :
    g (b.read h) = .ok (p.2.read p.1) ∧ Fr h b p.1 p.2 := by
  unfold hApply at hp
  cases hgb : g (b.read h) with
  | error e => rw [hgb] at hp; cases hp
  | ok fb' =>
    rw [hgb] at hp
    cases hp
    have hann := hg _ _ hgb
    refine ⟨?_, ⟨length_wr _ _ _, rfl, rfl, fun a ha => rd_wr_ne _ ha⟩⟩
    congr 1
    show fb' = { fb' with kwonlydefaults := rd (wr h b.kwd fb'.kwonlydefaults) b.kwd,
                          annotations := rd (wr h b.kwd fb'.kwonlydefaults) b.ann }
    rw [rd_wr_same _ hb.kwd, rd_wr_ne _ (Ne.symm hb.ne)]
    have : rd h b.ann = fb'.annotations := hann.symm
    rw [this]

theorem hApply_error {g : FB → Except Err FB} {h : Heap} {b : HFB} {e : Err}
    (hp : hApply g h b = .error e) : g (b.read h) = .error e := by
  unfold hApply at hp
  cases hgb : g (b.read h) with
  | error e' => rw [hgb] at hp; cases hp; rfl
  | ok fb' => rw [hgb] at hp; cases hp

theorem hInjectAll_spec (itv : Bool) (xs : List Name) : ∀ {h : Heap} {b : HFB}, BOk h b →
    (∀ p, hInjectAll itv h b xs = .ok p →
      injectAll itv (b.read h) xs = .ok (p.2.read p.1) ∧ Fr h b p.1 p.2) ∧
    (∀ e, hInjectAll itv h b xs = .error e → injectAll itv (b.read h) xs = .error e) := by
  induction xs with
  | nil =>
    intro h b _
    constructor
    · intro p hp; simp only [hInjectAll] at hp; cases hp; exact ⟨rfl, Fr.refl _ _⟩
    · intro e he; simp only [hInjectAll] at he; cases he
  | cons x xs ih =>
    intro h b hb
    simp only [hInjectAll, injectAll]
    cases hap : hApply (fun fb => fb.removeArg x) h b with
    | ok q =>
      obtain ⟨hg, hfr⟩ := hApply_ok (g := fun fb => fb.removeArg x)
        (fun _ _ => removeArg_annotations) hb hap
      rw [hg]
      obtain ⟨ih1, ih2⟩ := ih (hfr.bok hb)
      exact ⟨fun p hp => ⟨(ih1 p hp).1, hfr.trans (ih1 p hp).2⟩, fun e he => ih2 e he⟩
    | error e0 =>
      have hg := hApply_error hap
      rw [hg]
      by_cases hc : (itv && (b.read h).varkw.isSome) = true
      · simp only [hc, if_true]
        exact ih hb
      · simp only [hc]
        constructor
        · intro p hp; cases hp
        · intro e he; cases he; rfl

theorem hExpectAll_spec (zs : List (Name × Option Val)) : ∀ {h : Heap} {b : HFB}, BOk h b →
    (∀ p, hExpectAll h b zs = .ok p →
      expectAll (b.read h) zs = .ok (p.2.read p.1) ∧ Fr h b p.1 p.2) ∧
    (∀ e, hExpectAll h b zs = .error e → expectAll (b.read h) zs = .error e) := by
  induction zs with
  | nil =>
    intro h b _
    constructor
    · intro p hp; simp only [hExpectAll] at hp; cases hp; exact ⟨rfl, Fr.refl _ _⟩
    · intro e he; simp only [hExpectAll] at he; cases he
  | cons zd zs ih =>
    intro h b hb
    obtain ⟨z, d⟩ := zd
    simp only [hExpectAll, expectAll]
    cases hap : hApply (fun fb => fb.addArg z d) h b with
    | ok q =>
      obtain ⟨hg, hfr⟩ := hApply_ok (g := fun fb => fb.addArg z d)
        (fun _ _ => addArg_annotations) hb hap
      rw [hg]
      obtain ⟨ih1, ih2⟩ := ih (hfr.bok hb)
      exact ⟨fun p hp => ⟨(ih1 p hp).1, hfr.trans (ih1 p hp).2⟩, fun e he => ih2 e he⟩
    | error e0 =>
      have hg := hApply_error hap
      rw [hg]
      constructor
      · intro p hp; cases hp
      · intro e he; cases he; rfl

theorem hRun_spec (ops : List BOp) : ∀ {h : Heap} {b : HFB}, BOk h b →
    (∀ p, hRun h b ops = .ok p → (b.read h).run ops = .ok (p.2.read p.1) ∧ Fr h b p.1 p.2) ∧
    (∀ e, hRun h b ops = .error e → (b.read h).run ops = .error e) := by
  induction ops with
  | nil =>
    intro h b _
    constructor
    · intro p hp; simp only [hRun] at hp; cases hp; exact ⟨rfl, Fr.refl _ _⟩
    · intro e he; simp only [hRun] at he; cases he
  | cons op ops ih =>
    intro h b hb
    simp only [hRun, FB.run]
    cases hap : hApply (fun fb => fb.step op) h b with
    | ok q =>
      obtain ⟨hg, hfr⟩ := hApply_ok (g := fun fb => fb.step op)
        (fun _ _ => step_annotations) hb hap
      rw [hg]
      obtain ⟨ih1, ih2⟩ := ih (hfr.bok hb)
      exact ⟨fun p hp => ⟨(ih1 p hp).1, hfr.trans (ih1 p hp).2⟩, fun e he => ih2 e he⟩
    | error e0 =>
      have hg := hApply_error hap
      rw [hg]
      constructor
      · intro p hp; cases hp
      · intro e he; cases he; rfl

/-! `from_func` and `get_func` -/

theorem hFromFunc_read (h : Heap) (x : HFunc) :
    (hFromFunc h x).2.read (hFromFunc h x).1 = FB.fromFunc (x.read h) := by
  show ({ FB.fromFunc (x.read h) with
          kwonlydefaults := rd (h ++ [kwdOf (x.read h), annOf (x.read h)]) h.length,
          annotations := rd (h ++ [kwdOf (x.read h), annOf (x.read h)]) (h.length + 1) } : FB) = _
  rw [rd_append_len0, rd_append_len1]
  rfl

theorem hFromFunc_bok (h : Heap) (x : HFunc) : BOk (hFromFunc h x).1 (hFromFunc h x).2 := by
  refine ⟨?_, ?_, ?_⟩ <;> simp [hFromFunc]

/-- what building a function does to the heap: two new dicts, everything older untouched -/
structure NewFr (h h' : Heap) (w : HFunc) : Prop where
  len : h'.length = h.length + 2
  kwd : w.kwd = h.length
  ann : w.ann = h.length + 1
  frame : ∀ a, a < h.length → rd h' a = rd h a

theorem hFromFunc_newFr {h : Heap} {x : HFunc} {h' : Heap} {b' : HFB}
    (hfr : Fr (hFromFunc h x).1 (hFromFunc h x).2 h' b') :
    h'.length = h.length + 2 ∧ b'.kwd = h.length ∧ b'.ann = h.length + 1 ∧
      ∀ a, a < h.length → rd h' a = rd h a := by
  refine ⟨?_, hfr.kwd, hfr.ann, ?_⟩
  · rw [hfr.len]; simp [hFromFunc]
  · intro a ha
    rw [hfr.frame a (by show a ≠ h.length; omega)]
    exact rd_append_lt _ _ ha

theorem hGetFunc_ok {h : Heap} {b : HFB} {ident : Nat} {wrapped : Option Nat} {body : List Spec}
    {w : HFunc} (hw : hGetFunc h b ident wrapped body = .ok w) :
    (b.read h).getFunc ident wrapped body = .ok (w.read h) ∧ w.kwd = b.kwd ∧ w.ann = b.ann := by
  unfold hGetFunc at hw
  cases hg : (b.read h).getFunc ident wrapped body with
  | error e => rw [hg] at hw; cases hw
  | ok f =>
    rw [hg] at hw
    cases hw
    refine ⟨?_, rfl, rfl⟩
    congr 1
    unfold FB.getFunc at hg
    split at hg
    · cases hg; rfl
    · cases hg

theorem hGetFunc_error {h : Heap} {b : HFB} {ident : Nat} {wrapped : Option Nat} {body : List Spec}
    {e : Err} (hw : hGetFunc h b ident wrapped body = .error e) :
    (b.read h).getFunc ident wrapped body = .error e := by
  unfold hGetFunc at hw
  cases hg : (b.read h).getFunc ident wrapped body with
  | error e' => rw [hg] at hw; cases hw; rfl
  | ok f => rw [hg] at hw; cases hw

theorem hUpdateWrapper_spec (h : Heap) (x : HFunc) (inj : List Name) (exp : List (Name × Option Val))
    (o : Opts) (ident : Nat) :
    (∀ p, hUpdateWrapper h x inj exp o ident = .ok p →
      updateWrapper (x.read h) inj exp o ident = .ok (p.2.read p.1) ∧ NewFr h p.1 p.2) ∧
    (∀ e, hUpdateWrapper h x inj exp o ident = .error e →
      updateWrapper (x.read h) inj exp o ident = .error e) := by
  unfold hUpdateWrapper updateWrapper
  obtain ⟨i1, i2⟩ := hInjectAll_spec o.injectToVarkw inj (hFromFunc_bok h x)
  rw [hFromFunc_read] at i1 i2
  cases h1 : hInjectAll o.injectToVarkw (hFromFunc h x).1 (hFromFunc h x).2 inj with
  | error e1 =>
    rw [i2 e1 h1]
    exact ⟨fun p hp => (by cases hp), fun e he => (by cases he; rfl)⟩
  | ok p1 =>
    obtain ⟨hp1, fr1⟩ := i1 p1 h1
    rw [hp1]
    dsimp only
    obtain ⟨e1, e2⟩ := hExpectAll_spec exp (fr1.bok (hFromFunc_bok h x))
    cases h2 : hExpectAll p1.1 p1.2 exp with
    | error e =>
      simp only [e2 e h2]
      exact ⟨fun p hp => (by cases hp), fun e' he => (by cases he; rfl)⟩
    | ok p2 =>
      obtain ⟨hp2, fr2⟩ := e1 p2 h2
      simp only [hp2]
      have hfr := hFromFunc_newFr (fr1.trans fr2)
      cases h3 : hGetFunc p2.1 p2.2 ident (if o.hideWrapped then none else some x.f.ident)
          (p2.2.read p2.1).invocationSpecs with
      | error e =>
        have := hGetFunc_error h3
        constructor
        · intro p hp; cases hp
        · intro e' he; cases he; exact this
      | ok w =>
        obtain ⟨hg, hk, ha⟩ := hGetFunc_ok h3
        constructor
        · intro p hp
          cases hp
          exact ⟨hg, ⟨hfr.1, hk.trans hfr.2.1, ha.trans hfr.2.2.1, hfr.2.2.2⟩⟩
        · intro e he; cases he

theorem hBuildHistory_spec (h : Heap) (x : HFunc) (ops : List BOp) (ident : Nat) :
    (∀ p, hBuildHistory h x ops ident = .ok p →
      buildHistoryD (x.read h) ops ident = .ok (p.2.read p.1) ∧ NewFr h p.1 p.2) ∧
    (∀ e, hBuildHistory h x ops ident = .error e →
      buildHistoryD (x.read h) ops ident = .error e) := by
  unfold hBuildHistory buildHistoryD
  obtain ⟨i1, i2⟩ := hRun_spec ops (hFromFunc_bok h x)
  rw [hFromFunc_read] at i1 i2
  cases h1 : hRun (hFromFunc h x).1 (hFromFunc h x).2 ops with
  | error e1 =>
    rw [i2 e1 h1]
    exact ⟨fun p hp => (by cases hp), fun e he => (by cases he; rfl)⟩
  | ok p1 =>
    obtain ⟨hp1, fr1⟩ := i1 p1 h1
    rw [hp1]
    dsimp only
    have hfr := hFromFunc_newFr fr1
    cases h3 : hGetFunc p1.1 p1.2 ident x.f.wrapped (p1.2.read p1.1).invocationSpecs with
    | error e =>
      have := hGetFunc_error h3
      constructor
      · intro p hp; cases hp
      · intro e' he; cases he; exact this
    | ok w =>
      obtain ⟨hg, hk, ha⟩ := hGetFunc_ok h3
      constructor
      · intro p hp
        cases hp
        exact ⟨hg, ⟨hfr.1, hk.trans hfr.2.1, ha.trans hfr.2.2.1, hfr.2.2.2⟩⟩
      · intro e he; cases he

/-! sessions -/

/-- the dicts of the functions of a session exist, and no dict object belongs to two
    functions (or serves as both dicts of one) -/
structure Inv (s : St) : Prop where
  lt : ∀ x ∈ s.funcs, x.kwd < s.heap.length ∧ x.ann < s.heap.length
  kwdAnn : ∀ x ∈ s.funcs, ∀ y ∈ s.funcs, x.kwd ≠ y.ann
  sep : ∀ (i j : Nat) (x y : HFunc), s.funcs[i]? = some x → s.funcs[j]? = some y → i ≠ j →
    x.kwd ≠ y.kwd ∧ x.ann ≠ y.ann

theorem read_congr {h h' : Heap} {x : HFunc} (hk : rd h' x.kwd = rd h x.kwd)
    (ha : rd h' x.ann = rd h x.ann) : x.read h' = x.read h := by
  unfold HFunc.read; rw [hk, ha]

/-- a new function whose two dicts are new objects joins the session -/
theorem append_fresh {s : St} (hi : Inv s) {h' : Heap} {w : HFunc} (hn : NewFr s.heap h' w) :
    Inv ⟨h', s.funcs ++ [w]⟩ ∧ (St.view ⟨h', s.funcs ++ [w]⟩) = s.view ++ [w.read h'] := by
  constructor
  · refine ⟨?_, ?_, ?_⟩
    · intro x hx
      simp only [List.mem_append, List.mem_singleton] at hx
      show x.kwd < h'.length ∧ x.ann < h'.length
      rw [hn.len]
      rcases hx with hx | rfl
      · have := hi.lt x hx; omega
      · rw [hn.kwd, hn.ann]; omega
    · intro x hx y hy
      simp only [List.mem_append, List.mem_singleton] at hx hy
      rcases hx with hx | rfl <;> rcases hy with hy | rfl
      · exact hi.kwdAnn x hx y hy
      · have := hi.lt x hx; rw [hn.ann]; omega
      · have := hi.lt y hy; rw [hn.kwd]; omega
      · rw [hn.kwd, hn.ann]; omega
    · intro i j x y hx hy hij
      show x.kwd ≠ y.kwd ∧ x.ann ≠ y.ann
      simp only [List.getElem?_append, List.getElem?_singleton] at hx hy
      split at hx <;> split at hy
      · exact hi.sep i j x y hx hy hij
      · have := hi.lt x (List.mem_of_getElem? hx)
        split at hy
        · cases hy; rw [hn.kwd, hn.ann]; omega
        · cases hy
      · have := hi.lt y (List.mem_of_getElem? hy)
        split at hx
        · cases hx; rw [hn.kwd, hn.ann]; omega
        · cases hx
      · split at hx
        · split at hy
          · omega
          · cases hy
        · cases hx
  · unfold St.view
    simp only [List.map_append, List.map_cons, List.map_nil]
    congr 1
    apply List.map_congr_left
    intro x hx
    have := hi.lt x hx
    exact read_congr (hn.frame _ this.1) (hn.frame _ this.2)

theorem view_getElem? (s : St) (i : Nat) : s.view[i]? = (s.funcs[i]?).map (HFunc.read s.heap) := by
  simp [St.view]

theorem view_length (s : St) : s.view.length = s.funcs.length := by simp [St.view]

/-- an in-place edit of one dict of one function: only that function shows it -/
theorem edit_kwd {s : St} (hi : Inv s) {t : Nat} {x : HFunc} (hx : s.funcs[t]? = some x)
    (d : List (Name × Val)) :
    Inv ⟨wr s.heap x.kwd d, s.funcs⟩ ∧
      St.view ⟨wr s.heap x.kwd d, s.funcs⟩ = s.view.set t { x.read s.heap with kwdefaults := d } := by
  have hxm := List.mem_of_getElem? hx
  constructor
  · exact ⟨fun y hy => by show y.kwd < (wr _ _ _).length ∧ y.ann < (wr _ _ _).length
                          rw [length_wr]; exact hi.lt y hy, hi.kwdAnn, hi.sep⟩
  · apply List.ext_getElem?
    intro j
    rw [view_getElem?, List.getElem?_set, view_length, view_getElem?]
    show (s.funcs[j]?).map (HFunc.read (wr s.heap x.kwd d)) = _
    by_cases hj : t = j
    · subst hj
      have hlt : t < s.funcs.length := by
        rcases Nat.lt_or_ge t s.funcs.length with h | h
        · exact h
        · rw [List.getElem?_eq_none h] at hx; cases hx
      rw [if_pos rfl, if_pos hlt, hx]
      show some (x.read (wr s.heap x.kwd d)) = _
      congr 1
      unfold HFunc.read
      rw [rd_wr_same _ (hi.lt x hxm).1, rd_wr_ne _ (Ne.symm (hi.kwdAnn x hxm x hxm))]
    · rw [if_neg hj]
      cases hy : s.funcs[j]? with
      | none => rfl
      | some y =>
        show some (y.read (wr s.heap x.kwd d)) = some (y.read s.heap)
        congr 1
        have hym := List.mem_of_getElem? hy
        exact read_congr (rd_wr_ne _ (Ne.symm (hi.sep t j x y hx hy hj).1))
          (rd_wr_ne _ (Ne.symm (hi.kwdAnn x hxm y hym)))

theorem edit_ann {s : St} (hi : Inv s) {t : Nat} {x : HFunc} (hx : s.funcs[t]? = some x)
    (d : List (Name × Val)) :
    Inv ⟨wr s.heap x.ann d, s.funcs⟩ ∧
      St.view ⟨wr s.heap x.ann d, s.funcs⟩ = s.view.set t { x.read s.heap with ann := d } := by
  have hxm := List.mem_of_getElem? hx
  constructor
  · exact ⟨fun y hy => by show y.kwd < (wr _ _ _).length ∧ y.ann < (wr _ _ _).length
                          rw [length_wr]; exact hi.lt y hy, hi.kwdAnn, hi.sep⟩
  · apply List.ext_getElem?
    intro j
    rw [view_getElem?, List.getElem?_set, view_length, view_getElem?]
    show (s.funcs[j]?).map (HFunc.read (wr s.heap x.ann d)) = _
    by_cases hj : t = j
    · subst hj
      have hlt : t < s.funcs.length := by
        rcases Nat.lt_or_ge t s.funcs.length with h | h
        · exact h
        · rw [List.getElem?_eq_none h] at hx; cases hx
      rw [if_pos rfl, if_pos hlt, hx]
      show some (x.read (wr s.heap x.ann d)) = _
      congr 1
      unfold HFunc.read
      rw [rd_wr_same _ (hi.lt x hxm).2, rd_wr_ne _ (hi.kwdAnn x hxm x hxm)]
    · rw [if_neg hj]
      cases hy : s.funcs[j]? with
      | none => rfl
      | some y =>
        show some (y.read (wr s.heap x.ann d)) = some (y.read s.heap)
        congr 1
        have hym := List.mem_of_getElem? hy
        exact read_congr (rd_wr_ne _ (hi.kwdAnn y hym x hxm))
          (rd_wr_ne _ (Ne.symm (hi.sep t j x y hx hy hj).2))

/-- one request: the heap telling and the pure telling agree, and the invariant is kept -/
theorem step_refines {s : St} (hi : Inv s) (r : Req) :
    Inv (step s r).1 ∧ ((step s r).1.view, (step s r).2) = pstep s.view r := by
  cases r with
  | wrap t inj exp o =>
    simp only [step, pstep, view_getElem?, view_length]
    cases hx : s.funcs[t]? with
    | none => exact ⟨hi, rfl⟩
    | some x =>
      obtain ⟨s1, s2⟩ := hUpdateWrapper_spec s.heap x inj exp o (s.funcs.length + 1)
      simp only [Option.map_some]
      cases hu : hUpdateWrapper s.heap x inj exp o (s.funcs.length + 1) with
      | error e => rw [s2 e hu]; exact ⟨hi, rfl⟩
      | ok p =>
        obtain ⟨hp, hn⟩ := s1 p hu
        rw [hp]
        obtain ⟨hi', hv⟩ := append_fresh hi hn
        exact ⟨hi', by rw [hv]⟩
  | hist t ops =>
    simp only [step, pstep, view_getElem?, view_length]
    cases hx : s.funcs[t]? with
    | none => exact ⟨hi, rfl⟩
    | some x =>
      obtain ⟨s1, s2⟩ := hBuildHistory_spec s.heap x ops (s.funcs.length + 1)
      simp only [Option.map_some]
      cases hu : hBuildHistory s.heap x ops (s.funcs.length + 1) with
      | error e => rw [s2 e hu]; exact ⟨hi, rfl⟩
      | ok p =>
        obtain ⟨hp, hn⟩ := s1 p hu
        rw [hp]
        obtain ⟨hi', hv⟩ := append_fresh hi hn
        exact ⟨hi', by rw [hv]⟩
  | setKwd t k v =>
    simp only [step, pstep, view_getElem?]
    cases hx : s.funcs[t]? with
    | none => exact ⟨hi, rfl⟩
    | some x =>
      obtain ⟨hi', hv⟩ := edit_kwd hi hx (upd k v (rd s.heap x.kwd))
      exact ⟨hi', by simp only [Option.map_some]; rw [hv]; rfl⟩
  | setAnn t k v =>
    simp only [step, pstep, view_getElem?]
    cases hx : s.funcs[t]? with
    | none => exact ⟨hi, rfl⟩
    | some x =>
      obtain ⟨hi', hv⟩ := edit_ann hi hx (upd k v (rd s.heap x.ann))
      exact ⟨hi', by simp only [Option.map_some]; rw [hv]; rfl⟩

theorem run_refines (rs : List Req) : ∀ {s : St}, Inv s →
    Inv (run s rs).1 ∧ ((run s rs).1.view, (run s rs).2) = prun s.view rs := by
  induction rs with
  | nil => intro s hi; exact ⟨hi, rfl⟩
  | cons r rs ih =>
    intro s hi
    obtain ⟨hi1, h1⟩ := step_refines hi r
    obtain ⟨hi2, h2⟩ := ih hi1
    refine ⟨hi2, ?_⟩
    have h1a : (pstep s.view r).1 = (step s r).1.view := by rw [← h1]
    have h1b : (pstep s.view r).2 = (step s r).2 := by rw [← h1]
    have h2a : (prun (step s r).1.view rs).1 = (run (step s r).1 rs).1.view := by rw [← h2]
    have h2b : (prun (step s r).1.view rs).2 = (run (step s r).1 rs).2 := by rw [← h2]
    simp only [run, prun]
    rw [h1a, h1b, h2a, h2b]

/-- functions defined by the user -/
theorem alloc_spec {s : St} (hi : Inv s) (f : Func) :
    Inv (alloc s f) ∧ (alloc s f).view = s.view ++ [f] := by
  have hn : NewFr s.heap (s.heap ++ [f.kwdefaults, f.ann]) ⟨f, s.heap.length, s.heap.length + 1⟩ :=
    ⟨by simp, rfl, rfl, fun a ha => rd_append_lt _ _ ha⟩
  obtain ⟨hi', hv⟩ := append_fresh hi hn
  refine ⟨hi', ?_⟩
  show St.view ⟨_, _⟩ = _
  rw [hv]
  congr 2
  unfold HFunc.read
  rw [rd_append_len0, rd_append_len1]

theorem inv_empty : Inv ⟨[], []⟩ :=
  ⟨fun x hx => (by cases hx), fun x hx => (by cases hx), fun i j x y hx => (by simp at hx)⟩

theorem foldl_alloc_spec (fs : List Func) : ∀ {s : St}, Inv s →
    Inv (fs.foldl alloc s) ∧ (fs.foldl alloc s).view = s.view ++ fs := by
  induction fs with
  | nil => intro s hi; exact ⟨hi, by simp⟩
  | cons f fs ih =>
    intro s hi
    obtain ⟨hi1, hv1⟩ := alloc_spec hi f
    obtain ⟨hi2, hv2⟩ := ih hi1
    exact ⟨hi2, by rw [List.foldl_cons, hv2, hv1]; simp⟩

theorem init_spec (fs : List Func) : Inv (St.init fs) ∧ (St.init fs).view = fs := by
  obtain ⟨hi, hv⟩ := foldl_alloc_spec fs inv_empty
  exact ⟨hi, by unfold St.init; rw [hv]; rfl⟩

/-! the pure telling: what a request leaves alone -/

theorem pstep_keeps (fs : List Func) (r : Req) (i : Nat) (f : Func) (hf : fs[i]? = some f)
    (hr : r.edits ≠ some i) : (pstep fs r).1[i]? = some f := by
  have hlt : i < fs.length := by
    rcases Nat.lt_or_ge i fs.length with h | h
    · exact h
    · rw [List.getElem?_eq_none h] at hf; cases hf
  cases r with
  | wrap t inj exp o =>
    simp only [pstep]
    split
    · exact hf
    · split
      · simp only [List.getElem?_append_left hlt]; exact hf
      · exact hf
  | hist t ops =>
    simp only [pstep]
    split
    · exact hf
    · split
      · simp only [List.getElem?_append_left hlt]; exact hf
      · exact hf
  | setKwd t k v =>
    have hne : t ≠ i := fun e => hr (by rw [e]; rfl)
    simp only [pstep]
    split
    · exact hf
    · simp only [List.getElem?_set_ne hne]; exact hf
  | setAnn t k v =>
    have hne : t ≠ i := fun e => hr (by rw [e]; rfl)
    simp only [pstep]
    split
    · exact hf
    · simp only [List.getElem?_set_ne hne]; exact hf

theorem prun_keeps (rs : List Req) : ∀ (fs : List Func) (i : Nat) (f : Func), fs[i]? = some f →
    (∀ r ∈ rs, r.edits ≠ some i) → (prun fs rs).1[i]? = some f := by
  induction rs with
  | nil => intro fs i f hf _; exact hf
  | cons r rs ih =>
    intro fs i f hf hr
    simp only [prun]
    exact ih _ i f (pstep_keeps fs r i f hf (hr r (List.mem_cons_self ..)))
      (fun r' hr' => hr r' (List.mem_cons_of_mem _ hr'))

end C13
