/-
C13 — model of `boltons.funcutils.wraps / update_wrapper / FunctionBuilder`
(as of the tree with the two `fix:` commits of branch c13-work: `add_arg` inserts a
required argument in front of the defaulted ones, `from_func` keeps `__doc__ = None`).

What is modelled, and how:
  * a Python function object (`Func`): the parameter names held by its code object,
    `__defaults__` (a tuple attached to the LAST positional parameters),
    `__kwdefaults__`, `__annotations__`, `__name__/__doc__/__module__/__wrapped__`,
    whether it is a coroutine function, and - for functions compiled by the
    builder - the argument list of the generated `return _call(...)` body;
  * `inspect.signature(fn, follow_wrapped=False)` = `sigOf`;
  * CPython's argument binding = `bind` (every failure is a `TypeError` = `none`);
  * `FunctionBuilder`: `from_func`, `get_defaults_dict`, `remove_arg`, `add_arg`,
    `get_sig_str`, `get_invocation_str` (with the `_KWONLY_MARKER` removal) and
    `get_func`.  Source text is modelled at the granularity of the comma-separated
    items of a parameter / argument list (`Spec`); `parseDef` / `parseCall` are the
    part of Python's parser + `compile` that reads those items back (duplicate
    parameter names are a SyntaxError);
  * `update_wrapper` = `updateWrapper`.
`from_func` starts from what `inspect.getfullargspec` reports (`annOf`, `kwdOf`: entries naming
a parameter / a keyword-only parameter), `get_func` installs the builder's dicts as they are.
Several uses in one process, with the dicts as shared heap objects: `Session.lean`.
Names, values (defaults, annotations, call arguments: compared by identity) and
strings are natural numbers.  Core Lean only.
-/
namespace C13

abbrev Name := Nat
abbrev Val := Nat

/-! association lists with Python-dict reading -/

def get? {α : Type} (k : Name) : List (Name × α) → Option α
  | [] => none
  | (k', v) :: r => if k' = k then some v else get? k r

/-- `d[k] = v` -/
def dset {α : Type} (k : Name) (v : α) : List (Name × α) → List (Name × α)
  | [] => [(k, v)]
  | (k', v') :: r => if k' = k then (k, v) :: r else (k', v') :: dset k v r

/-- `d.pop(k, None)` -/
def dpop {α : Type} (k : Name) : List (Name × α) → List (Name × α)
  | [] => []
  | (k', v') :: r => if k' = k then r else (k', v') :: dpop k r

/-- `d.update(other)` -/
def dupdate {α : Type} (d other : List (Name × α)) : List (Name × α) :=
  other.foldl (fun acc kv => dset kv.1 kv.2 acc) d

def keyNe {α : Type} (x : Name) (p : Name × α) : Bool := !(p.1 == x)
def nameNe (x : Name) (n : Name) : Bool := !(n == x)

/-! function objects, signatures -/

/-- one comma-separated item of a parameter list / argument list -/
inductive Spec where
  | plain (n : Name)        -- `a`
  | star (n : Name)         -- `*args`
  | bareStar                -- `*`
  | kw (k v : Name)         -- `k=v`
  | dstar (n : Name)        -- `**kw`
deriving DecidableEq, Repr

structure Func where
  ident : Nat
  name : Nat
  doc : Option Nat
  module : Option Nat
  args : List Name
  varargs : Option Name
  kwonly : List Name
  varkw : Option Name
  defaults : List Val
  kwdefaults : List (Name × Val)
  ann : List (Name × Val)
  retAnn : Option Val
  isAsync : Bool
  wrapped : Option Nat
  body : List Spec
deriving DecidableEq, Repr

/-- what `inspect.signature` reports besides annotations (which are looked up by
    parameter name in `__annotations__`) -/
structure Sig where
  pos : List (Name × Option Val)
  varargs : Option Name
  kwonly : List (Name × Option Val)
  varkw : Option Name
deriving DecidableEq, Repr

/-- `__defaults__` belongs to the last `len(defaults)` positional parameters -/
def attach (args : List Name) (dfl : List Val) : List (Name × Option Val) :=
  (args.take (args.length - dfl.length)).map (fun a => (a, none)) ++
  List.zipWith (fun a d => (a, some d)) (args.drop (args.length - dfl.length)) dfl

def kwAttach (kwonly : List Name) (kwd : List (Name × Val)) : List (Name × Option Val) :=
  kwonly.map (fun k => (k, get? k kwd))

def sigOf (f : Func) : Sig :=
  ⟨attach f.args f.defaults, f.varargs, kwAttach f.kwonly f.kwdefaults, f.varkw⟩

def paramNames (f : Func) : List Name :=
  f.args ++ f.varargs.toList ++ f.kwonly ++ f.varkw.toList

def Sig.names (s : Sig) : List Name := (s.pos ++ s.kwonly).map Prod.fst

/-! calls and CPython's binding algorithm -/

structure Call where
  pos : List Val
  kws : List (Name × Val)
deriving DecidableEq, Repr

/-- the locals a function starts with -/
structure Bound where
  pos : List (Name × Val)
  star : Option (List Val)
  kwo : List (Name × Val)
  dstar : Option (List (Name × Val))
deriving DecidableEq, Repr

/-- fill named parameters: positionally while values last, then by keyword, then by
    default; `none` = TypeError (multiple values / missing argument) -/
def fillPos : List (Name × Option Val) → List Val → List (Name × Val) → Option (List (Name × Val))
  | [], _, _ => some []
  | (p, _) :: ps, v :: vs, kws =>
    if (get? p kws).isSome then none
    else (fillPos ps vs kws).map (fun r => (p, v) :: r)
  | (p, d) :: ps, [], kws =>
    match (get? p kws).or d with
    | some v => (fillPos ps [] kws).map (fun r => (p, v) :: r)
    | none => none

def unknownKw (s : Sig) (kv : Name × Val) : Bool := !(s.names.contains kv.1)

def bind (s : Sig) (c : Call) : Option Bound :=
  if s.varargs.isNone && !(c.pos.drop s.pos.length).isEmpty then none   -- too many positional arguments
  else if s.varkw.isNone && !(c.kws.filter (unknownKw s)).isEmpty then none   -- unexpected keyword argument
  else match fillPos s.pos c.pos c.kws, fillPos s.kwonly [] c.kws with
    | some a, some k =>
      some ⟨a, s.varargs.map (fun _ => c.pos.drop s.pos.length), k,
            s.varkw.map (fun _ => c.kws.filter (unknownKw s))⟩
    | _, _ => none

/-! the items of a `def` header / a call, read back (Python's parser + compile) -/

structure Params where
  args : List Name
  varargs : Option Name
  kwonly : List Name
  varkw : Option Name
deriving DecidableEq, Repr

def Params.names (p : Params) : List Name :=
  p.args ++ p.varargs.toList ++ p.kwonly ++ p.varkw.toList

def takePlain : List Spec → List Name × List Spec
  | .plain n :: r => (n :: (takePlain r).1, (takePlain r).2)
  | r => ([], r)

def takeKw : List Spec → List (Name × Name) × List Spec
  | .kw k v :: r => ((k, v) :: (takeKw r).1, (takeKw r).2)
  | r => ([], r)

/-- optional `**name`, then the closing parenthesis -/
def parseTail : List Spec → Option (Option Name)
  | [] => some none
  | [.dstar k] => some (some k)
  | _ => none

def parseDefShape (l : List Spec) : Option Params :=
  match (takePlain l).2 with
  | .star v :: r => (parseTail (takePlain r).2).map fun vk => ⟨(takePlain l).1, some v, (takePlain r).1, vk⟩
  | .bareStar :: r =>
    if (takePlain r).1.isEmpty then none   -- "named arguments must follow bare *"
    else (parseTail (takePlain r).2).map fun vk => ⟨(takePlain l).1, none, (takePlain r).1, vk⟩
  | r => (parseTail r).map fun vk => ⟨(takePlain l).1, none, [], vk⟩

/-- `def name(<items>):` compiles iff the items have the shape of a parameter list
    and no name occurs twice -/
def parseDef (l : List Spec) : Option Params :=
  match parseDefShape l with
  | some p => if p.names.Nodup then some p else none
  | none => none

structure CallExpr where
  pos : List Name
  star : Option Name
  kws : List (Name × Name)
  dstar : Option Name
deriving DecidableEq, Repr

def takeStar : List Spec → Option Name × List Spec
  | .star v :: r => (some v, r)
  | r => (none, r)

/-- the shapes of call the builder can emit: `a, b, *args, k=k, **kw` -/
def parseCall (l : List Spec) : Option CallExpr :=
  match parseTail (takeKw (takeStar (takePlain l).2).2).2 with
  | some vk =>
    if ((takeKw (takeStar (takePlain l).2).2).1.map Prod.fst).Nodup then
      some ⟨(takePlain l).1, (takeStar (takePlain l).2).1, (takeKw (takeStar (takePlain l).2).2).1, vk⟩
    else none
  | none => none

/-- the values of plain argument expressions `a, b, …` in the wrapper's locals -/
def lookupAll (env : List (Name × Val)) : List Name → Option (List Val)
  | [] => some []
  | n :: r =>
    match get? n env, lookupAll env r with
    | some v, some vs => some (v :: vs)
    | _, _ => none

/-- the values of keyword argument expressions `k=v, …` -/
def lookupKws (env : List (Name × Val)) : List (Name × Name) → Option (List (Name × Val))
  | [] => some []
  | (k, n) :: r =>
    match get? n env, lookupKws env r with
    | some v, some vs => some ((k, v) :: vs)
    | _, _ => none

/-- evaluate the argument list of `_call(...)` in the wrapper's locals;
    `none` = anything but a plain successful evaluation -/
def evalCall (e : CallExpr) (s : Sig) (b : Bound) : Option Call :=
  match lookupAll (b.pos ++ b.kwo) e.pos,
        (match e.star with
          | none => some []
          | some v => if s.varargs = some v then b.star else none),
        lookupKws (b.pos ++ b.kwo) e.kws,
        (match e.dstar with
          | none => some []
          | some v => if s.varkw = some v then b.dstar else none) with
  | some ps, some st, some ks, some ds =>
    if (ds.all (fun kv => (get? kv.1 ks).isNone)) then some ⟨ps ++ st, ks ++ ds⟩ else none
  | _, _, _, _ => none

/-- what the user's wrapper (`_call`) receives when the built function is called -/
def callWrapper (w : Func) (c : Call) : Option Call :=
  match bind (sigOf w) c, parseCall w.body with
  | some b, some e => evalCall e (sigOf w) b
  | _, _ => none

/-! FunctionBuilder -/

structure FB where
  name : Nat
  doc : Option Nat
  module : Option Nat
  args : List Name
  varargs : Option Name
  varkw : Option Name
  defaults : List Val
  kwonlyargs : List Name
  kwonlydefaults : List (Name × Val)
  annotations : List (Name × Val)
  retAnn : Option Val
  isAsync : Bool
deriving DecidableEq, Repr

inductive Err where
  | missingArgument | existingArgument | syntaxError
deriving DecidableEq, Repr

def keyIn {α : Type} (ns : List Name) (p : Name × α) : Bool := ns.contains p.1

/-- `inspect.getfullargspec(f).annotations` / `.kwonlydefaults`: both are built from the
    signature, so an entry of `__annotations__` / `__kwdefaults__` that names no parameter
    (no keyword-only parameter) - the annotation of an injected parameter, something the user
    put there - is not reported -/
def annOf (f : Func) : List (Name × Val) := f.ann.filter (keyIn (paramNames f))
def kwdOf (f : Func) : List (Name × Val) := f.kwdefaults.filter (keyIn f.kwonly)

def FB.fromFunc (f : Func) : FB :=
  ⟨f.name, f.doc, f.module, f.args, f.varargs, f.varkw, f.defaults, f.kwonly, kwdOf f,
   annOf f, f.retAnn, f.isAsync⟩

/-- `reversed(list(zip(reversed(args), reversed(defaults))))` -/
def zipR (args : List Name) (dfl : List Val) : List (Name × Val) :=
  (args.reverse.zip dfl.reverse).reverse

def FB.defaultsDict (fb : FB) : List (Name × Val) :=
  dupdate (zipR fb.args fb.defaults) fb.kwonlydefaults

def FB.removeArg (fb : FB) (x : Name) : Except Err FB :=
  if x ∈ fb.args then
    .ok { fb with
      args := fb.args.erase x
      defaults := (fb.args.erase x).filterMap (fun a => get? a (dpop x fb.defaultsDict)) }
  else if x ∈ fb.kwonlyargs then
    .ok { fb with
      kwonlyargs := fb.kwonlyargs.erase x
      kwonlydefaults := dpop x fb.kwonlydefaults }
  else .error .missingArgument

def FB.addArg (fb : FB) (z : Name) (d : Option Val) (kwonly : Bool := false) : Except Err FB :=
  if z ∈ fb.args then .error .existingArgument
  else if z ∈ fb.kwonlyargs then .error .existingArgument
  else if kwonly then
    .ok { fb with
      kwonlyargs := fb.kwonlyargs ++ [z]
      kwonlydefaults := match d with
        | some v => dset z v fb.kwonlydefaults
        | none => fb.kwonlydefaults }
  else match d with
    | none =>
      .ok { fb with
        args := fb.args.take (fb.args.length - fb.defaults.length) ++ z ::
                fb.args.drop (fb.args.length - fb.defaults.length) }
    | some v => .ok { fb with args := fb.args ++ [z], defaults := fb.defaults ++ [v] }

/-- `inspect_formatargspec` as called by the builder (no defaults, no annotations) -/
def formatArgspec (args : List Name) (varargs varkw : Option Name) (kwonly : List Name)
    (asPairs : Bool) : List Spec :=
  args.map Spec.plain ++
  (match varargs with
    | some v => [Spec.star v]
    | none => if kwonly.isEmpty then [] else [Spec.bareStar]) ++
  kwonly.map (fun k => if asPairs then Spec.kw k k else Spec.plain k) ++
  (match varkw with
    | some v => [Spec.dstar v]
    | none => [])

def notBareStar (s : Spec) : Bool :=
  match s with
  | .bareStar => false
  | _ => true

/-- `get_sig_str(with_annotations=False)` -/
def FB.sigSpecs (fb : FB) : List Spec :=
  formatArgspec fb.args fb.varargs fb.varkw fb.kwonlyargs false

/-- `get_invocation_str()`: keyword-only arguments as `k=k`, the `*, ` marker removed -/
def FB.invocationSpecs (fb : FB) : List Spec :=
  (formatArgspec fb.args fb.varargs fb.varkw fb.kwonlyargs true).filter notBareStar

/-- `get_func` with the body `return _call(<body>)` -/
def FB.getFunc (fb : FB) (ident : Nat) (wrapped : Option Nat) (body : List Spec) : Except Err Func :=
  match parseDef fb.sigSpecs, parseCall body with
  | some p, some _ =>
    .ok ⟨ident, fb.name, fb.doc, fb.module, p.args, p.varargs, p.kwonly, p.varkw, fb.defaults,
         fb.kwonlydefaults, fb.annotations, fb.retAnn, fb.isAsync, wrapped, body⟩
  | _, _ => .error .syntaxError

/-- `get_arg_names(only_required)` -/
def FB.argNames (fb : FB) (onlyRequired : Bool) : List Name :=
  if onlyRequired then (fb.args ++ fb.kwonlyargs).filter (fun a => (get? a fb.defaultsDict).isNone)
  else fb.args ++ fb.kwonlyargs

/-- the builder's public mutators -/
inductive BOp where
  | remove (x : Name)
  | add (z : Name) (d : Option Val) (kwonly : Bool)
deriving DecidableEq, Repr

def BOp.name : BOp → Name
  | .remove x => x
  | .add z _ _ => z

def FB.step (fb : FB) : BOp → Except Err FB
  | .remove x => fb.removeArg x
  | .add z d k => fb.addArg z d k

/-- a history of `remove_arg` / `add_arg` calls (stops at the first exception) -/
def FB.run : FB → List BOp → Except Err FB
  | fb, [] => .ok fb
  | fb, op :: ops =>
    match fb.step op with
    | .ok fb' => fb'.run ops
    | .error e => .error e

/-- `FunctionBuilder.from_func(f)`, a history of mutators, body = `return _call(<invocation>)`,
    `get_func()` -/
def buildHistory (f : Func) (ops : List BOp) (ident : Nat := f.ident + 1) : Except Err Func :=
  match (FB.fromFunc f).run ops with
  | .error e => .error e
  | .ok fb => fb.getFunc ident none fb.invocationSpecs

def injectAll (injectToVarkw : Bool) : FB → List Name → Except Err FB
  | fb, [] => .ok fb
  | fb, x :: xs =>
    match fb.removeArg x with
    | .ok fb' => injectAll injectToVarkw fb' xs
    | .error e => if injectToVarkw && fb.varkw.isSome then injectAll injectToVarkw fb xs else .error e

def expectAll : FB → List (Name × Option Val) → Except Err FB
  | fb, [] => .ok fb
  | fb, (z, d) :: zs =>
    match fb.addArg z d with
    | .ok fb' => expectAll fb' zs
    | .error e => .error e

structure Opts where
  injectToVarkw : Bool := true
  hideWrapped : Bool := false
deriving DecidableEq, Repr

def updateWrapper (f : Func) (injected : List Name) (expected : List (Name × Option Val))
    (o : Opts := {}) (ident : Nat := f.ident + 1) : Except Err Func :=
  match injectAll o.injectToVarkw (FB.fromFunc f) injected with
  | .error e => .error e
  | .ok fb1 =>
    match expectAll fb1 expected with
    | .error e => .error e
    | .ok fb2 => fb2.getFunc ident (if o.hideWrapped then none else some f.ident) fb2.invocationSpecs

/-- `wraps(f)(wrapper)` -/
def wraps (f : Func) : Except Err Func := updateWrapper f [] []

/-! stacks of decorators -/

/-- `wraps` applied again on top of `w` (plain), `n` more times; newest first -/
def stackUp (o : Opts) : Nat → List Func → Except Err (List Func)
  | 0, ws => .ok ws
  | _, [] => .ok []
  | n + 1, w :: ws =>
    match updateWrapper w [] [] o with
    | .ok w' => stackUp o n (w' :: w :: ws)
    | .error e => .error e

/-- a call travelling down a stack of wrappers (each user wrapper calls the next function with
    what it received); result = what the innermost user wrapper receives -/
def travel : List Func → Call → Option Call
  | [], c => some c
  | w :: ws, c => match callWrapper w c with
    | some c' => travel ws c'
    | none => none

/-! names a request removes and then adds again.  The statement says nothing about the annotation
    such a parameter ends up with (the code as it is keeps the annotation the removed parameter
    had, because `remove_arg` leaves `annotations` alone), so the correspondence does not compare
    it: the driver prints `*` for these names (`Driver.showAnns`). -/

def BOp.adds (z : Name) : BOp → Bool
  | .add z' _ _ => z' == z
  | .remove _ => false

/-- the names a builder history removes and adds again later on -/
def readded : List BOp → List Name
  | [] => []
  | .remove x :: ops => if ops.any (BOp.adds x) then x :: readded ops else readded ops
  | .add _ _ _ :: ops => readded ops

/-- the same for `update_wrapper(injected, expected)`: every `injected` name comes before every
    `expected` one -/
def readdedW (injected : List Name) (expected : List (Name × Option Val)) : List Name :=
  injected.filter (fun x => (expected.map Prod.fst).contains x)

end C13
