import BoltonsVerif.Common
import BoltonsVerif.C13.Model
import BoltonsVerif.C13.Session
import BoltonsVerif.C13.Hygiene
/-
C13 line protocol.  One line = one whole case (a function, the injected / expected
lists, the options, and any number of calls):

  <args> <defaults> <varargs> <kwonly> <kwdefaults> <varkw> <ann> <ret> <async> <doc> <module>
  <injected> <expected> <flags> <call>*

  lists `1,2,3` (`-` = empty), pairs `4:21,5:22`, optional numbers `7` / `-`,
  expected `z:-` (no default) / `z:5`, flags = two digits (inject_to_varkw, hide_wrapped),
  call `p1,p2/k:v,k:v` (a dash on either side of the slash = empty).

Output (one line): `err <Error>` or
  `S <signature> ; M <name doc module wrapped async> ; A <annotations of the parameters, return;
   `*` for a parameter the request removed and added again> ;
   D <def items> ; I <invocation items> (source text modulo white space) ; <call outcome>,<call outcome>…`
  call outcome: `E` (TypeError while binding), `?` (body did not evaluate), or
  `R<pos>/<kws>` (what `_call` received) followed, for plain wraps, by `=B<bound of f on that call>`.

Sessions (`Session.lean`, run on the heap model):
  `W <the 11 function fields> <sibling> <step>* <call>*`
  sibling = `-` or `<defaults>;<kwdefaults>;<ann>;<ret>;<doc>;<module>` (a second function with the same
  name and parameter names); F[0] = the function, F[1] = the sibling if any, then whatever the steps build;
  step = `w<t>|<injected>|<expected>|<flags>` (update_wrapper on F[t]) / `b<t>|<ops>` (builder history on F[t]) /
  `k<t>|<name>|<value or ->` (F[t].__kwdefaults__ edited in place: set / pop) / `n<t>|…` (same for __annotations__).
  Output: `<step result>,… || S <sig> ; M <meta> ; A <ann> [; C <call outcomes>] || …` - one block per function
  as it is at the END of the session (C only for functions built in the session).
-/
namespace C13.Driver
open BV C13

def optNat? (s : String) : Option (Option Nat) :=
  if s = "-" then some none else s.toNat?.map some

def pairs? (s : String) : Option (List (Nat × Nat)) :=
  if s = "-" ∨ s = "" then some [] else
  (splitOnChar s ',').foldr (fun w acc =>
    match acc, splitOnChar w ':' with
    | some l, [a, b] => match a.toNat?, b.toNat? with
      | some x, some y => some ((x, y) :: l)
      | _, _ => none
    | _, _ => none) (some [])

def optPairs? (s : String) : Option (List (Nat × Option Nat)) :=
  if s = "-" ∨ s = "" then some [] else
  (splitOnChar s ',').foldr (fun w acc =>
    match acc, splitOnChar w ':' with
    | some l, [a, b] => match a.toNat?, optNat? b with
      | some x, some y => some ((x, y) :: l)
      | _, _ => none
    | _, _ => none) (some [])

def call? (s : String) : Option Call :=
  match splitOnChar s '/' with
  | [p, k] => match natList? p, pairs? k with
    | some ps, some ks => some ⟨ps, ks⟩
    | _, _ => none
  | _ => none

def showOpt : Option Nat → String
  | none => "-"
  | some n => toString n

def showPairs (l : List (Nat × Nat)) : String :=
  if l.isEmpty then "-" else ",".intercalate (l.map fun p => s!"{p.1}:{p.2}")

def showParams (l : List (Name × Option Val)) : String :=
  if l.isEmpty then "-" else ",".intercalate (l.map fun p =>
    match p.2 with
    | none => s!"{p.1}"
    | some d => s!"{p.1}={d}")

def showSig (s : Sig) : String :=
  s!"{showParams s.pos} *{showOpt s.varargs} {showParams s.kwonly} **{showOpt s.varkw}"

def showSpec : Spec → String
  | .plain n => s!"p{n}"
  | .star n => s!"*p{n}"
  | .bareStar => "*"
  | .kw k v => s!"p{k}=p{v}"
  | .dstar n => s!"**p{n}"

def showSpecs (l : List Spec) : String :=
  "(" ++ ",".intercalate (l.map showSpec) ++ ")"

/-- keyword arguments / `**kw` contents are printed sorted by name: the order in which a call
    spells its keywords never matters for binding -/
def insPair (p : Nat × Nat) : List (Nat × Nat) → List (Nat × Nat)
  | [] => [p]
  | q :: r => if p.1 ≤ q.1 then p :: q :: r else q :: insPair p r

def sortPairs (l : List (Nat × Nat)) : List (Nat × Nat) := l.foldr insPair []

def showCall (c : Call) : String := s!"{showNats c.pos}/{showPairs (sortPairs c.kws)}"

/-- the `k=v` items of an invocation, sorted in place -/
def sortKwSpecs (l : List Spec) : List Spec :=
  let kws := sortPairs (l.filterMap fun s => match s with | .kw k v => some (k, v) | _ => none)
  let rec go : List Spec → List (Nat × Nat) → List Spec
    | [], _ => []
    | .kw _ _ :: r, (k, v) :: ks => .kw k v :: go r ks
    | s :: r, ks => s :: go r ks
  go l kws

def showBound (b : Bound) : String :=
  let st := match b.star with
    | none => "~"
    | some l => showNats l
  let ds := match b.dstar with
    | none => "~"
    | some l => showPairs (sortPairs l)
  s!"{showPairs b.pos}|{st}|{showPairs b.kwo}|{ds}"

/-- annotations of the parameters as `inspect.signature` shows them; `*` for a parameter the
    request removed and added again (`readded`): the statement leaves its annotation open -/
def showAnns (w : Func) (mask : List Name) : String :=
  ",".intercalate ((paramNames w).map fun n =>
    if mask.contains n then s!"{n}:*" else s!"{n}:{showOpt (get? n w.ann)}")

/-- the spellings the harness uses: `_call` = 90, `__call` = 92, longer ones are never parameter
    names of a case; `_func` = 91 -/
def cnId : Nat → Name
  | 0 => 90
  | 1 => 92
  | k + 2 => 1000000 + k

def funcKeyId : Name := 91

/-- does the body of a function built by `update_wrapper` reach the user's wrapper (`Hygiene.lean`)?
    `byWrapper = false`: the body was written by the harness itself (builder histories) -/
def reaches (w : Func) (byWrapper : Bool) : Bool :=
  !byWrapper || (FB.fromFunc w).callee cnId funcKeyId == Callee.userWrapper

/-- the function name of a case: `fn`, `_call`, `_func`, `<lambda>` -/
def fnameId : Nat → Name
  | 1 => 90
  | 2 => 91
  | 3 => 85
  | _ => 93

def showName (f w : Func) : String := if w.name = f.name then "1" else s!"?{w.name}"

def outcome (f w : Func) (plain : Bool) (c : Call) (byWrapper : Bool := false) : String :=
  match bind (sigOf w) c with
  | none => "E"
  | some _ =>
    if !reaches w byWrapper then "!shadowed" else
    match callWrapper w c with
    | none => "?"
    | some c' =>
      if plain then
        match bind (sigOf f) c' with
        | none => s!"R{showCall c'}=E"
        | some b => s!"R{showCall c'}=B{showBound b}"
      else s!"R{showCall c'}"

def showErr : Err → String
  | .missingArgument => "MissingArgument"
  | .existingArgument => "ExistingArgument"
  | .syntaxError => "SyntaxError"

/-- two or three digits: inject_to_varkw, hide_wrapped, [how many times wraps is stacked, default 1] -/
def flags? (s : String) : Option (Opts × Nat) :=
  match s.toList with
  | [a, b] =>
    if (a = '0' ∨ a = '1') ∧ (b = '0' ∨ b = '1') then some (⟨a = '1', b = '1'⟩, 1) else none
  | [a, b, c] =>
    if (a = '0' ∨ a = '1') ∧ (b = '0' ∨ b = '1') ∧ '1' ≤ c ∧ c ≤ '9' then
      some (⟨a = '1', b = '1'⟩, c.toNat - '0'.toNat) else none
  | _ => none

def outcomeStack (f : Func) (ws : List Func) (plain : Bool) (c : Call) : String :=
  match ws with
  | [] => "?"
  | top :: _ =>
    match bind (sigOf top) c with
    | none => "E"
    | some _ =>
      if !(ws.all fun w => reaches w true) then "!shadowed" else
      match travel ws c with
      | none => "?"
      | some c' =>
        if plain then
          match bind (sigOf f) c' with
          | none => s!"R{showCall c'}=E"
          | some b => s!"R{showCall c'}=B{showBound b}"
        else s!"R{showCall c'}"

def bop? (s : String) : Option BOp :=
  let rest := (s.drop 1).toString
  match s.front with
  | 'r' => rest.toNat?.map BOp.remove
  | 'a' => match optPairs? rest with
    | some [(z, d)] => some (.add z d false)
    | _ => none
  | 'k' => match optPairs? rest with
    | some [(z, d)] => some (.add z d true)
    | _ => none
  | _ => none

def bops? (s : String) : Option (List BOp) :=
  if s = "-" then some [] else (splitOnChar s ',').mapM bop?

/-- builder histories: `B <the 11 function fields> <ops> <call>*`, ops = `r3,a6:-,a6:41,k6:-,k6:42` -/
def handleB (fn : Name) (toks : List String) : String :=
  match toks with
  | a :: d :: va :: ko :: kd :: vk :: an :: rt :: asy :: doc :: md :: ops :: calls =>
    match natList? a, natList? d, optNat? va, natList? ko, pairs? kd, optNat? vk, pairs? an,
          optNat? rt, asy.toNat?, optNat? doc, optNat? md, bops? ops, calls.mapM call? with
    | some a, some d, some va, some ko, some kd, some vk, some an, some rt, some asy, some doc,
      some md, some ops, some calls =>
      let f : Func := ⟨1, fn, doc, md, a, va, ko, vk, d, kd, an, rt, asy != 0, none, []⟩
      match (FB.fromFunc f).run ops with
      | .error e => s!"err {showErr e}"
      | .ok fb =>
        let dd := ",".intercalate ((fb.argNames false).map fun n => s!"{n}:{showOpt (get? n fb.defaultsDict)}")
        let hdr := s!"N {showNats (fb.argNames false)} ; Q {showNats (fb.argNames true)} ; DD {dd} ; D {showSpecs fb.sigSpecs} ; I {showSpecs (sortKwSpecs fb.invocationSpecs)}"
        match fb.getFunc 2 none fb.invocationSpecs with
        | .error e => s!"{hdr} ; err {showErr e}"
        | .ok w =>
          let anns := showAnns w (readded ops)
          let outs := calls.map (outcome f w false)
          let asyS := if w.isAsync then "1" else "0"
          s!"{hdr} ; S {showSig (sigOf w)} ; M {showName f w} {showOpt w.doc} {showOpt w.module} {showOpt w.wrapped} {asyS} ; A {anns} r:{showOpt w.retAnn} ; {",".intercalate outs}"
    | _, _, _, _, _, _, _, _, _, _, _, _, _ => "bad-op"
  | _ => "bad-op"


/-! sessions -/

def stepReq? (s : String) : Option Req :=
  let rest := (s.drop 1).toString
  match s.front, splitOnChar rest '|' with
  | 'w', [t, inj, exp, fl] =>
    match t.toNat?, natList? inj, optPairs? exp, flags? fl with
    | some t, some inj, some exp, some o => some (.wrap t inj exp o.1)
    | _, _, _, _ => none
  | 'b', [t, ops] =>
    match t.toNat?, bops? ops with
    | some t, some ops => some (.hist t ops)
    | _, _ => none
  | 'k', [t, k, v] =>
    match t.toNat?, k.toNat?, optNat? v with
    | some t, some k, some v => some (.setKwd t k v)
    | _, _, _ => none
  | 'n', [t, k, v] =>
    match t.toNat?, k.toNat?, optNat? v with
    | some t, some k, some v => some (.setAnn t k v)
    | _, _, _ => none
  | _, _ => none

def isStepTok (s : String) : Bool :=
  s.front = 'w' || s.front = 'b' || s.front = 'k' || s.front = 'n'

def showRes : Res → String
  | .built => "b"
  | .err e => s!"e{showErr e}"
  | .skip => "s"
  | .edited => "m"

def showFuncBlock (f w : Func) (mask : List Name) (byWrapper : Bool) (calls : Option (List Call)) : String :=
  let anns := showAnns w mask
  let asyS := if w.isAsync then "1" else "0"
  let base := s!"S {showSig (sigOf w)} ; M {showName f w} {showOpt w.doc} {showOpt w.module} {showOpt w.wrapped} {asyS} ; A {anns} r:{showOpt w.retAnn}"
  match calls with
  | none => base
  | some cs => s!"{base} ; C {",".intercalate (cs.map fun c => outcome w w false c byWrapper)}"

def reqMask : Req → List Name
  | .wrap _ inj exp _ => readdedW inj exp
  | .hist _ ops => readded ops
  | _ => []

def reqTarget : Req → Nat
  | .wrap t _ _ _ => t
  | .hist t _ => t
  | .setKwd t _ _ => t
  | .setAnn t _ _ => t

/-- per function of a session: the names whose annotation is left open - those its own request
    removed and added again, and those left open in the function it was built from -/
def masks : List (List Name) → List Req → List Res → List (List Name)
  | ms, r :: rs, .built :: qs => masks (ms ++ [(ms[reqTarget r]?).getD [] ++ reqMask r]) rs qs
  | ms, _ :: rs, _ :: qs => masks ms rs qs
  | ms, _, _ => ms

/-- per function of a session: was it built by `update_wrapper` (then its body is the one
    `update_wrapper` writes, callee picked by the loop of `Hygiene.lean`)? -/
def byWrap : List Bool → List Req → List Res → List Bool
  | bs, .wrap _ _ _ _ :: rs, .built :: qs => byWrap (bs ++ [true]) rs qs
  | bs, _ :: rs, .built :: qs => byWrap (bs ++ [false]) rs qs
  | bs, _ :: rs, _ :: qs => byWrap bs rs qs
  | bs, _, _ => bs

def sibling? (s : String) (f : Func) : Option (Option Func) :=
  if s = "-" then some none else
  match splitOnChar s ';' with
  | [d, kd, an, rt, doc, md] =>
    match natList? d, pairs? kd, pairs? an, optNat? rt, optNat? doc, optNat? md with
    | some d, some kd, some an, some rt, some doc, some md =>
      some (some { f with ident := 2, defaults := d, kwdefaults := kd, ann := an, retAnn := rt, doc := doc, module := md })
    | _, _, _, _, _, _ => none
  | _ => none

def handleW (fn : Name) (toks : List String) : String :=
  match toks with
  | a :: d :: va :: ko :: kd :: vk :: an :: rt :: asy :: doc :: md :: sib :: rest =>
    match natList? a, natList? d, optNat? va, natList? ko, pairs? kd, optNat? vk, pairs? an,
          optNat? rt, asy.toNat?, optNat? doc, optNat? md, (rest.takeWhile isStepTok).mapM stepReq?,
          (rest.dropWhile isStepTok).mapM call? with
    | some a, some d, some va, some ko, some kd, some vk, some an, some rt, some asy, some doc,
      some md, some reqs, some calls =>
      let f : Func := ⟨1, fn, doc, md, a, va, ko, vk, d, kd, an, rt, asy != 0, none, []⟩
      match sibling? sib f with
      | none => "bad-op"
      | some sb =>
        let base := f :: sb.toList
        let fin := run (St.init base) reqs
        let ms := masks (base.map fun _ => []) reqs fin.2
        let bw := byWrap (base.map fun _ => false) reqs fin.2
        let blocks := fin.1.view.zipIdx.map fun (w, i) =>
          showFuncBlock f w ((ms[i]?).getD []) ((bw[i]?).getD false) (if i < base.length then none else some calls)
        let res := if fin.2.isEmpty then "-" else ",".intercalate (fin.2.map showRes)
        " || ".intercalate (res :: blocks)
    | _, _, _, _, _, _, _, _, _, _, _, _, _ => "bad-op"
  | _ => "bad-op"

def handleP (fn : Name) (toks : List String) : String :=
  match toks with
  | a :: d :: va :: ko :: kd :: vk :: an :: rt :: asy :: doc :: md :: inj :: exp :: fl :: calls =>
    match natList? a, natList? d, optNat? va, natList? ko, pairs? kd, optNat? vk, pairs? an,
          optNat? rt, asy.toNat?, optNat? doc, optNat? md, natList? inj, optPairs? exp, flags? fl,
          calls.mapM call? with
    | some a, some d, some va, some ko, some kd, some vk, some an, some rt, some asy, some doc,
      some md, some inj, some exp, some o, some calls =>
      let f : Func := ⟨1, fn, doc, md, a, va, ko, vk, d, kd, an, rt, asy != 0, none, []⟩
      match updateWrapper f inj exp o.1 with
      | .error e => s!"err {showErr e}"
      | .ok w1 =>
      match stackUp o.1 (o.2 - 1) [w1] with
      | .error e => s!"err {showErr e}"
      | .ok [] => "bad-op"
      | .ok (w :: ws) =>
        let plain := inj.isEmpty && exp.isEmpty
        let anns := showAnns w (readdedW inj exp)
        let fb := FB.fromFunc w
        let outs := calls.map (outcomeStack f (w :: ws) plain)
        let asyS := if w.isAsync then "1" else "0"
        s!"S {showSig (sigOf w)} ; M {showName f w} {showOpt w.doc} {showOpt w.module} {showOpt w.wrapped} {asyS} ; A {anns} r:{showOpt w.retAnn} ; D {showSpecs fb.sigSpecs} ; I {showSpecs (sortKwSpecs w.body)} ; {",".intercalate outs}"
    | _, _, _, _, _, _, _, _, _, _, _, _, _, _, _ => "bad-op"
  | _ => "bad-op"

def dispatch (fn : Name) : List String → String
  | "B" :: toks => handleB fn toks
  | "W" :: toks => handleW fn toks
  | toks => handleP fn toks

/-- an optional first token `F<k>` says what the function is called (`fnameId`; default `fn`) -/
def handle (line : String) : String :=
  match words line with
  | [] => "bad-op"
  | t :: toks =>
    if t.front = 'F' then
      match (t.drop 1).toString.toNat? with
      | some k => dispatch (fnameId k) toks
      | none => "bad-op"
    else dispatch (fnameId 0) (t :: toks)

end C13.Driver
