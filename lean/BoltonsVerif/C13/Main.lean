import BoltonsVerif.C13.Driver
def main : IO Unit := BV.mainLoop C13.Driver.handle
