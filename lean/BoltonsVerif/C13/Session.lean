import BoltonsVerif.C13.Model
/-
C13 — sessions: several `wraps` / `update_wrapper` / `FunctionBuilder` uses in ONE process.

`Model.lean` describes one use as a pure function.  What that description leaves out is the
Python heap: `__kwdefaults__` and `__annotations__` of a function, and `kwonlydefaults` /
`annotations` of a builder, are *dict objects*; `remove_arg` and `add_arg(kwonly=True)` change
the builder's dict IN PLACE, and `get_func` installs the builder's very dicts in the function
it returns.  Whether one use can disturb a function built by another (or the wrapped function
itself) is decided by which of those objects are shared.  This file models exactly that:

  * `Heap`: dict objects by address; `HFunc` / `HFB` = a function / a builder whose two dicts
    are addresses; `read` = what the public API shows (the pure `Func` / `FB`);
  * `hFromFunc`: `inspect.getfullargspec` builds NEW dicts (two allocations, copies);
  * `hApply`: a mutator of the builder; every change of `kwonlydefaults` is a write at the
    address of the builder's dict (never a re-binding), `annotations` is never written;
  * `hGetFunc`: the new function shares the builder's two dicts;
  * a session (`St`, `Req`, `step`, `run`): any sequence of `update_wrapper` requests, builder
    histories and in-place edits by the user of a function's `__kwdefaults__` /
    `__annotations__`, each aimed at any function that exists at that moment (the wrapped
    functions or anything built earlier in the session);
  * `pstep` / `prun`: the same session told without a heap - every request is the pure
    function of `Model.lean` applied to the target as it is at that moment, appended to the
    list; nothing else moves.
`Props.lean` proves that the two tellings agree for every session (`session_refines`).
Core Lean only.
-/
namespace C13

/-- dict objects by address -/
abbrev Heap := List (List (Name × Val))

def rd (h : Heap) (a : Nat) : List (Name × Val) := (h[a]?).getD []

def wr (h : Heap) (a : Nat) (d : List (Name × Val)) : Heap := h.set a d

/-- a function object: `__kwdefaults__` and `__annotations__` are references
    (the fields of the same name inside `f` are not looked at) -/
structure HFunc where
  f : Func
  kwd : Nat
  ann : Nat
deriving DecidableEq, Repr

/-- what the public API shows of a function object -/
def HFunc.read (h : Heap) (x : HFunc) : Func :=
  { x.f with kwdefaults := rd h x.kwd, ann := rd h x.ann }

/-- a builder: `kwonlydefaults` and `annotations` are references -/
structure HFB where
  fb : FB
  kwd : Nat
  ann : Nat
deriving DecidableEq, Repr

def HFB.read (h : Heap) (b : HFB) : FB :=
  { b.fb with kwonlydefaults := rd h b.kwd, annotations := rd h b.ann }

/-- `FunctionBuilder.from_func`: `getfullargspec` hands out two NEW dicts (holding the entries
    of the function's dicts that name a keyword-only parameter / a parameter) -/
def hFromFunc (h : Heap) (x : HFunc) : Heap × HFB :=
  (h ++ [kwdOf (x.read h), annOf (x.read h)], ⟨FB.fromFunc (x.read h), h.length, h.length + 1⟩)

/-- a mutator of the builder (`remove_arg`, `add_arg`): `args`, `kwonlyargs`, `defaults` are
    private to the builder; the new content of `kwonlydefaults` is WRITTEN INTO the dict object
    the builder holds (`.pop`, `[k] = v`) -/
def hApply (g : FB → Except Err FB) (h : Heap) (b : HFB) : Except Err (Heap × HFB) :=
  match g (b.read h) with
  | .ok fb' => .ok (wr h b.kwd fb'.kwonlydefaults, { b with fb := fb' })
  | .error e => .error e

def hInjectAll (itv : Bool) : Heap → HFB → List Name → Except Err (Heap × HFB)
  | h, b, [] => .ok (h, b)
  | h, b, x :: xs =>
    match hApply (fun fb => fb.removeArg x) h b with
    | .ok p => hInjectAll itv p.1 p.2 xs
    | .error e => if itv && (b.read h).varkw.isSome then hInjectAll itv h b xs else .error e

def hExpectAll : Heap → HFB → List (Name × Option Val) → Except Err (Heap × HFB)
  | h, b, [] => .ok (h, b)
  | h, b, zd :: zs =>
    match hApply (fun fb => fb.addArg zd.1 zd.2) h b with
    | .ok p => hExpectAll p.1 p.2 zs
    | .error e => .error e

def hRun : Heap → HFB → List BOp → Except Err (Heap × HFB)
  | h, b, [] => .ok (h, b)
  | h, b, op :: ops =>
    match hApply (fun fb => fb.step op) h b with
    | .ok p => hRun p.1 p.2 ops
    | .error e => .error e

/-- `get_func`: `func.__kwdefaults__ = self.kwonlydefaults; func.__annotations__ = self.annotations`
    - the new function shares the builder's dict objects -/
def hGetFunc (h : Heap) (b : HFB) (ident : Nat) (wrapped : Option Nat) (body : List Spec) :
    Except Err HFunc :=
  match (b.read h).getFunc ident wrapped body with
  | .ok f => .ok ⟨f, b.kwd, b.ann⟩
  | .error e => .error e

def hUpdateWrapper (h : Heap) (x : HFunc) (injected : List Name) (expected : List (Name × Option Val))
    (o : Opts) (ident : Nat) : Except Err (Heap × HFunc) :=
  match hInjectAll o.injectToVarkw (hFromFunc h x).1 (hFromFunc h x).2 injected with
  | .error e => .error e
  | .ok p1 =>
    match hExpectAll p1.1 p1.2 expected with
    | .error e => .error e
    | .ok p2 =>
      match hGetFunc p2.1 p2.2 ident (if o.hideWrapped then none else some x.f.ident)
          (p2.2.read p2.1).invocationSpecs with
      | .ok w => .ok (p2.1, w)
      | .error e => .error e

/-- a bare builder history on a function that may itself be a wrapper: `get_func` copies the
    function's `__dict__`, and with it a `__wrapped__` entry, into the result -/
def buildHistoryD (f : Func) (ops : List BOp) (ident : Nat) : Except Err Func :=
  match (FB.fromFunc f).run ops with
  | .error e => .error e
  | .ok fb => fb.getFunc ident f.wrapped fb.invocationSpecs

def hBuildHistory (h : Heap) (x : HFunc) (ops : List BOp) (ident : Nat) : Except Err (Heap × HFunc) :=
  match hRun (hFromFunc h x).1 (hFromFunc h x).2 ops with
  | .error e => .error e
  | .ok p =>
    match hGetFunc p.1 p.2 ident x.f.wrapped (p.2.read p.1).invocationSpecs with
    | .ok w => .ok (p.1, w)
    | .error e => .error e

/-! sessions -/

inductive Req where
  /-- `update_wrapper(recorder, F[t], injected, expected, **opts)` -/
  | wrap (t : Nat) (inj : List Name) (exp : List (Name × Option Val)) (o : Opts)
  /-- `FunctionBuilder.from_func(F[t])`, a history of mutators, `get_func()` -/
  | hist (t : Nat) (ops : List BOp)
  /-- the user edits `F[t].__kwdefaults__` in place: `[k] = v` / `.pop(k, None)` -/
  | setKwd (t : Nat) (k : Name) (v : Option Val)
  /-- the user edits `F[t].__annotations__` in place -/
  | setAnn (t : Nat) (k : Name) (v : Option Val)
deriving DecidableEq, Repr

inductive Res where
  | built | err (e : Err) | skip | edited
deriving DecidableEq, Repr

def upd (k : Name) (v : Option Val) (d : List (Name × Val)) : List (Name × Val) :=
  match v with
  | some x => dset k x d
  | none => dpop k d

structure St where
  heap : Heap
  funcs : List HFunc
deriving Repr

def St.view (s : St) : List Func := s.funcs.map (HFunc.read s.heap)

/-- one request.  A request that raises leaves only unreachable objects behind (the builder
    and its dicts), so the state is returned as it was. -/
def step (s : St) : Req → St × Res
  | .wrap t inj exp o =>
    match s.funcs[t]? with
    | none => (s, .skip)
    | some x =>
      match hUpdateWrapper s.heap x inj exp o (s.funcs.length + 1) with
      | .ok p => (⟨p.1, s.funcs ++ [p.2]⟩, .built)
      | .error e => (s, .err e)
  | .hist t ops =>
    match s.funcs[t]? with
    | none => (s, .skip)
    | some x =>
      match hBuildHistory s.heap x ops (s.funcs.length + 1) with
      | .ok p => (⟨p.1, s.funcs ++ [p.2]⟩, .built)
      | .error e => (s, .err e)
  | .setKwd t k v =>
    match s.funcs[t]? with
    | none => (s, .skip)
    | some x => (⟨wr s.heap x.kwd (upd k v (rd s.heap x.kwd)), s.funcs⟩, .edited)
  | .setAnn t k v =>
    match s.funcs[t]? with
    | none => (s, .skip)
    | some x => (⟨wr s.heap x.ann (upd k v (rd s.heap x.ann)), s.funcs⟩, .edited)

def run : St → List Req → St × List Res
  | s, [] => (s, [])
  | s, r :: rs => ((run (step s r).1 rs).1, (step s r).2 :: (run (step s r).1 rs).2)

/-- a function defined by the user: its two dicts are new objects -/
def alloc (s : St) (f : Func) : St :=
  ⟨s.heap ++ [f.kwdefaults, f.ann], s.funcs ++ [⟨f, s.heap.length, s.heap.length + 1⟩]⟩

def St.init (fs : List Func) : St := fs.foldl alloc ⟨[], []⟩

/-! the same, without a heap -/

def pstep (fs : List Func) : Req → List Func × Res
  | .wrap t inj exp o =>
    match fs[t]? with
    | none => (fs, .skip)
    | some f =>
      match updateWrapper f inj exp o (fs.length + 1) with
      | .ok w => (fs ++ [w], .built)
      | .error e => (fs, .err e)
  | .hist t ops =>
    match fs[t]? with
    | none => (fs, .skip)
    | some f =>
      match buildHistoryD f ops (fs.length + 1) with
      | .ok w => (fs ++ [w], .built)
      | .error e => (fs, .err e)
  | .setKwd t k v =>
    match fs[t]? with
    | none => (fs, .skip)
    | some f => (fs.set t { f with kwdefaults := upd k v f.kwdefaults }, .edited)
  | .setAnn t k v =>
    match fs[t]? with
    | none => (fs, .skip)
    | some f => (fs.set t { f with ann := upd k v f.ann }, .edited)

def prun : List Func → List Req → List Func × List Res
  | fs, [] => (fs, [])
  | fs, r :: rs => ((prun (pstep fs r).1 rs).1, (pstep fs r).2 :: (prun (pstep fs r).1 rs).2)

/-- the function a request edits in place, if any -/
def Req.edits : Req → Option Nat
  | .setKwd t _ _ => some t
  | .setAnn t _ _ => some t
  | _ => none

end C13
