/-
C11 — executable model of `boltons.setutils.IndexedSet` (core Lean only).

State (the three anchored structures):
  items : item_list, `none` = the `_MISSING` tombstone
  idx   : item_index_map, an insertion-ordered dict modelled as an association list
  dead  : dead_indices, sorted `[start, stop)` runs of tombstones

Every method is transliterated from the code as it is after the `fix:` commits of
branch c11-work (slice bounds, update(*others), n-ary *_update, _cull tail, issuperset,
symmetric_difference_update).  Abstractions (validated by the correspondence):
  * `bisect_left(dints, cand)` = number of leading intervals lexicographically below
    `cand` (what bisection returns on a sorted list);
  * a generator over `self` is the list it yields; one-operand fast paths of
    `intersection`/`difference` are the general loop;
  * thresholds come in through `Cfg` (`_COMPACTION_FACTOR`, the literal 384); the float test
    `dead > len(items) / factor` is `dead * factor > len(items)`;
  * index arguments below `-len` are outside the model (`Err.domain`);
  * `sort(key=…, reverse=…)` is `sort` with the comparison induced by the key; a comparison that
    raises is described by the list of items for which it does (`sortBy`, `Err.cmpError`);
  * several live sets (results kept and worked on, IndexedSet operands that are live sets) are a
    register file of independent `ISet`s (`Mach`); an operation sees another set only through what
    iterating it yields.
-/
namespace C11

/-! ### insertion-ordered dict -/

abbrev IMap (α : Type) := List (α × Nat)

namespace IMap
variable {α : Type} [DecidableEq α]

def lookup : IMap α → α → Option Nat
  | [], _ => none
  | (k, v) :: m, x => if k = x then some v else lookup m x

/-- `d[x] = v`: in place when present, appended when new -/
def set : IMap α → α → Nat → IMap α
  | [], x, v => [(x, v)]
  | (k, w) :: m, x, v => if k = x then (k, v) :: m else (k, w) :: set m x v

/-- `del d[x]` / `d.pop(x)` -/
def erase : IMap α → α → IMap α
  | [], _ => []
  | (k, w) :: m, x => if k = x then m else (k, w) :: erase m x

def keys (m : IMap α) : List α := m.map Prod.fst

end IMap

/-! ### state -/

structure Cfg where
  factor : Nat
  limit : Nat

structure ISet (α : Type) where
  items : List (Option α)
  idx : IMap α
  dead : List (Nat × Nat)

inductive Err | keyError | indexError | valueError | domain | cmpError
  deriving DecidableEq, Repr

/-- the live items of an item list, in order (`__iter__`) -/
def live {α : Type} (l : List (Option α)) : List α := l.filterMap id

def isTomb {α : Type} (o : Option α) : Bool := o.isNone

variable {α : Type} [DecidableEq α]

namespace ISet

def empty : ISet α := ⟨[], [], []⟩

def toList (s : ISet α) : List α := live s.items
def len (s : ISet α) : Nat := s.idx.length
def contains (s : ISet α) (x : α) : Bool := (s.idx.lookup x).isSome
def reversed (s : ISet α) : List α := live s.items.reverse
def count (s : ISet α) (x : α) : Nat := if s.contains x then 1 else 0

end ISet

/-! ### dead-interval bookkeeping -/

/-- Python's list comparison `[a, b] < [c, d]` -/
def lexLt (c : Nat × Nat) (p : Nat × Nat) : Bool := p.1 < c.1 || (p.1 == c.1 && p.2 < c.2)

def bisectLeft (d : List (Nat × Nat)) (c : Nat × Nat) : Nat := (d.takeWhile (lexLt c)).length

/-- `_add_dead(start)` (stop = start + 1) -/
def addDead (d : List (Nat × Nat)) (start : Nat) : List (Nat × Nat) :=
  if d.isEmpty then [(start, start + 1)] else
  let i := bisectLeft d (start, start + 1)
  let j := if i = 0 then d.length - 1 else i - 1     -- dints[int_idx - 1]; index -1 is the last one
  match d[j]? with
  | none => d
  | some (ds, de) =>
    if start ≤ ds ∧ ds ≤ start + 1 then d.set j (start, de)
    else if start ≤ de ∧ de ≤ start + 1 then d.set j (ds, start + 1)
    else d.insertIdx i (start, start + 1)

/-! ### `bisect_left` as the real algorithm (proved equal to `bisectLeft` on reachable tables: `Extras.lean`) -/

/-- the `while lo < hi` loop over an abstract test `p mid` (= `a[mid] < x`); one unit of fuel per round -/
def bsearch (p : Nat → Bool) : Nat → Nat → Nat → Nat
  | 0, lo, _ => lo
  | fuel + 1, lo, hi =>
    if lo < hi then
      (if p ((lo + hi) / 2) then bsearch p fuel ((lo + hi) / 2 + 1) hi
       else bsearch p fuel lo ((lo + hi) / 2))
    else lo

/-- `a[mid] < x` for lists of `[start, stop]` pairs (Python compares them lexicographically) -/
def ltAt (d : List (Nat × Nat)) (c : Nat × Nat) (i : Nat) : Bool :=
  match d[i]? with
  | some q => lexLt c q
  | none => false

/-- `bisect_left(dints, cand)` with the default `lo=0, hi=len(dints)` -/
def bisectLeftPy (d : List (Nat × Nat)) (c : Nat × Nat) : Nat := bsearch (ltAt d c) d.length 0 d.length

/-- `_add_dead(start)` with the binary search in place of the abstraction (same text as `addDead`) -/
def addDeadPy (d : List (Nat × Nat)) (start : Nat) : List (Nat × Nat) :=
  if d.isEmpty then [(start, start + 1)] else
  let i := bisectLeftPy d (start, start + 1)
  let j := if i = 0 then d.length - 1 else i - 1
  match d[j]? with
  | none => d
  | some (ds, de) =>
    if start ≤ ds ∧ ds ≤ start + 1 then d.set j (start, de)
    else if start ≤ de ∧ de ≤ start + 1 then d.set j (ds, start + 1)
    else d.insertIdx i (start, start + 1)

/-- `for i, item in enumerate(xs, i0): index_map[item] = i` -/
def assignIdx : IMap α → List α → Nat → IMap α
  | m, [], _ => m
  | m, x :: xs, i => assignIdx (m.set x i) xs (i + 1)

/-- `_compact()` -/
def compact (s : ISet α) : ISet α :=
  if s.dead.isEmpty then s else
  let lv := live s.items
  let dc := s.items.length - s.idx.length
  let items1 := lv.map some ++ s.items.drop lv.length
  let items2 := if dc = 0 then [] else items1.take (items1.length - dc)   -- del items[-dc:]
  ⟨items2, assignIdx s.idx lv 0, []⟩

def trailingDead (l : List (Option α)) : Nat := (l.reverse.takeWhile isTomb).length

def startsAtOrAfter (n : Nat) (p : Nat × Nat) : Bool := n ≤ p.1

/-- `while ded and ded[-1][0] >= n: del ded[-1]` -/
def popDeadFrom (d : List (Nat × Nat)) (n : Nat) : List (Nat × Nat) :=
  (d.reverse.dropWhile (startsAtOrAfter n)).reverse

/-- `_cull()` -/
def cull (cfg : Cfg) (s : ISet α) : ISet α :=
  if s.dead.isEmpty then s
  else if s.idx.isEmpty then ⟨[], s.idx, []⟩
  else if s.dead.length > cfg.limit then compact s
  else if (s.items.length - s.idx.length) * cfg.factor > s.items.length then compact s
  else if s.items.getLast? = some none then
    let items' := s.items.take (s.items.length - trailingDead s.items)
    ⟨items', s.idx, popDeadFrom s.dead items'.length⟩
  else s

/-- loop of `_get_real_index` -/
def realLoop : Nat → List (Nat × Nat) → Nat
  | r, [] => r
  | r, (a, b) :: ds => if r < a then r else realLoop (r + (b - a)) ds

/-- loop of `_get_apparent_index` -/
def appLoop (index : Nat) : Nat → List (Nat × Nat) → Nat
  | app, [] => app
  | app, (a, b) :: ds => if index < a then app else appLoop index (app - (b - a)) ds

/-! ### set/list methods -/

namespace ISet

def add (s : ISet α) (x : α) : ISet α :=
  if s.contains x then s
  else ⟨s.items ++ [some x], s.idx.set x s.items.length, s.dead⟩

def remove (cfg : Cfg) (s : ISet α) (x : α) : Except Err (ISet α) :=
  match s.idx.lookup x with
  | none => .error .keyError
  | some i => .ok (cull cfg ⟨s.items.set i none, s.idx.erase x, addDead s.dead i⟩)

def discard (cfg : Cfg) (s : ISet α) (x : α) : ISet α :=
  match s.remove cfg x with
  | .ok s' => s'
  | .error _ => s

def clear (_s : ISet α) : ISet α := ⟨[], [], []⟩

/-- `IndexedSet(iterable)` / `from_iterable` -/
def ofList (l : List α) : ISet α := l.foldl add empty

/-- `index += len(self)` for a negative index; `none` = still negative (outside the model) -/
def normIndex (s : ISet α) (i : Int) : Option Nat :=
  if i < 0 then (if i + s.len < 0 then none else some (i + s.len).toNat) else some i.toNat

def getItem (s : ISet α) (i : Int) : Except Err α :=
  match s.normIndex i with
  | none => .error .domain
  | some k =>
    match s.items[realLoop k s.dead]? with
    | some (some x) => .ok x
    | some none => .error .domain      -- a tombstone would be returned: never under the invariant
    | none => .error .indexError

def index (s : ISet α) (x : α) : Except Err Nat :=
  match s.idx.lookup x with
  | none => .error .valueError
  | some r => .ok (appLoop r r s.dead)

def popLast (cfg : Cfg) (s : ISet α) : Except Err (ISet α × α) :=
  match s.items.getLast? with
  | none => .error .indexError
  | some none => .error .keyError
  | some (some x) => .ok (cull cfg ⟨s.items.dropLast, s.idx.erase x, s.dead⟩, x)

def popAt (cfg : Cfg) (s : ISet α) (i : Int) : Except Err (ISet α × α) :=
  if i = -1 ∨ i = (s.len : Int) - 1 then s.popLast cfg else
  match s.normIndex i with
  | none => .error .domain
  | some k =>
    let r := realLoop k s.dead
    match s.items[r]? with
    | none => .error .indexError
    | some none => .error .keyError
    | some (some x) => .ok (cull cfg ⟨s.items.set r none, s.idx.erase x, addDead s.dead r⟩, x)

def reverse (s : ISet α) : ISet α :=
  let l := s.reversed
  ⟨l.map some, assignIdx s.idx l 0, []⟩

/-- `sorted(self, reverse=rev)` -/
def sortedList (le : α → α → Bool) (rev : Bool) (l : List α) : List α :=
  if rev then (l.reverse.mergeSort le).reverse else l.mergeSort le

def sort (le : α → α → Bool) (rev : Bool) (s : ISet α) : ISet α :=
  let l := sortedList le rev s.toList
  if l.map some = s.items then s else ⟨l.map some, assignIdx s.idx l 0, []⟩

/-- does `sorted(self, **kwargs)` raise?  `bad` = the items whose comparison (their own `__lt__`, or
    that of their `key`) raises.  Any comparison sort looks at every element of a list of two or more
    items at least once, so it raises exactly when such an item is live and there is something to
    compare it with. -/
def sortRaises (bad : List α) (s : ISet α) : Bool :=
  decide (2 ≤ s.len) && s.toList.any fun x => bad.contains x

/-- `sort(key=…, reverse=rev)`: `sorted(self, **kwargs)` runs BEFORE anything is written, so a
    comparison that raises leaves the three structures exactly as they were -/
def sortBy (lek : α → α → Bool) (rev : Bool) (bad : List α) (s : ISet α) : Except Err (ISet α) :=
  if s.sortRaises bad then .error .cmpError else .ok (s.sort lek rev)

end ISet

/-! ### slicing -/

/-- every `step`-th element; the counter says how many to skip before the next pick -/
def everyNth (step : Nat) : Nat → List α → List α
  | _, [] => []
  | 0, x :: xs => x :: everyNth step (step - 1) xs
  | k + 1, _ :: xs => everyNth step k xs

/-- `itertools.islice(l, start, stop, step)` -/
def islice (l : List α) (start : Nat) (stop : Option Nat) (step : Nat) : List α :=
  everyNth step 0 ((match stop with | none => l | some e => l.take e).drop start)

/-- `if b < 0: b = max(b + n, 0)` -/
def normBound (n : Nat) : Option Int → Option Nat
  | none => none
  | some v => if v < 0 then some (v + n).toNat else some v.toNat

def ISet.iterSlice (s : ISet α) (a b c : Option Int) : Except Err (List α) :=
  let start := (normBound s.len a).getD 0
  let stop := normBound s.len b
  match c with
  | none => .ok (islice s.toList start stop 1)
  | some v =>
    if v = 0 then .error .valueError
    else if v < 0 then .ok (islice s.reversed start stop v.natAbs)
    else .ok (islice s.toList start stop v.natAbs)

/-- `s[a:b:c]` = `from_iterable(iter_slice(a, b, c))` -/
def ISet.getSlice (s : ISet α) (a b c : Option Int) : Except Err (ISet α) :=
  match s.iterSlice a b c with
  | .ok l => .ok (ISet.ofList l)
  | .error e => .error e

/-! ### set algebra -/

inductive OKind | self | iset | coll
  deriving DecidableEq, Repr

/-- an operand: the receiver itself, another IndexedSet, or a set/frozenset/list/tuple;
    `elems` is what iterating it yields (ignored for `self`) -/
structure Operand (α : Type) where
  kind : OKind
  elems : List α

namespace ISet

def opElems (s : ISet α) (o : Operand α) : List α :=
  match o.kind with
  | .self => s.toList
  | _ => o.elems

def opLen (s : ISet α) (o : Operand α) : Nat :=
  match o.kind with
  | .self => s.len
  | _ => o.elems.length

/-- `k in other` -/
def opMem (s : ISet α) (o : Operand α) (k : α) : Bool :=
  match o.kind with
  | .self => s.contains k
  | _ => o.elems.contains k

def inAll (s : ISet α) (os : List (Operand α)) (k : α) : Bool := os.all fun o => s.opMem o k
def inNone (s : ISet α) (os : List (Operand α)) (k : α) : Bool := os.all fun o => !s.opMem o k

def union (s : ISet α) (os : List (Operand α)) : ISet α :=
  ofList (s.toList ++ os.flatMap s.opElems)

def inter (s : ISet α) (os : List (Operand α)) : ISet α :=
  ofList (s.toList.filter (s.inAll os))

def diff (s : ISet α) (os : List (Operand α)) : ISet α :=
  ofList (s.toList.filter (s.inNone os))

def asOperand (t : ISet α) : Operand α := ⟨.iset, t.toList⟩

def symdiff (s : ISet α) (os : List (Operand α)) : ISet α :=
  (s.union os).diff [(s.inter os).asOperand]

/-- `other - self` (`__rsub__`): the kept values, in `other`'s order -/
def rsub (s : ISet α) (o : Operand α) : List α :=
  (s.opElems o).filter fun x => !s.contains x

def isdisjoint (s : ISet α) (o : Operand α) : Bool := (s.opElems o).all fun k => !s.contains k

def issubset (s : ISet α) (o : Operand α) : Bool :=
  if s.opLen o < s.len then false else s.idx.keys.all (s.opMem o)

def issuperset (s : ISet α) (o : Operand α) : Bool := (s.opElems o).all s.contains

def update (s : ISet α) (os : List (Operand α)) : ISet α :=
  if os.isEmpty then s else (os.flatMap s.opElems).foldl add s

def interUpdate (cfg : Cfg) (s : ISet α) (os : List (Operand α)) : ISet α :=
  (s.diff [(s.inter os).asOperand]).toList.foldl (discard cfg) s

/-- `self == other` as `self in others` evaluates it -/
def eqOperand (s : ISet α) (o : Operand α) : Bool :=
  match o.kind with
  | .self => true
  | .iset => s.len = o.elems.length && s.toList = o.elems
  | .coll => s.toList.all o.elems.contains && o.elems.all s.toList.contains

def diffUpdate (cfg : Cfg) (s : ISet α) (os : List (Operand α)) : ISet α :=
  let s1 := if os.any s.eqOperand then s.clear else s
  (s1.diff [(s1.diff os).asOperand]).toList.foldl (discard cfg) s1

def toggle (cfg : Cfg) (s : ISet α) (v : α) : ISet α :=
  if s.contains v then s.discard cfg v else s.add v

def symUpdate (cfg : Cfg) (s : ISet α) (o : Operand α) : ISet α :=
  match o.kind with
  | .self => s.clear            -- cleared, then iterates the (now empty) receiver
  | _ => (ofList o.elems).toList.foldl (toggle cfg) s

end ISet

/-! ### histories -/

inductive Op (α : Type)
  | add (x : α) | remove (x : α) | discard (x : α) | pop | popAt (i : Int) | clear
  | sort (rev : Bool) | reverse
  | sortBy (lek : α → α → Bool) (rev : Bool) (bad : List α)
  | update (os : List (Operand α)) | interUpdate (os : List (Operand α))
  | diffUpdate (os : List (Operand α)) | symUpdate (o : Operand α)
  | iter | len | contains (x : α) | get (i : Int) | slice (a b c : Option Int)
  | index (x : α) | count (x : α) | reversed
  | union (os : List (Operand α)) | inter (os : List (Operand α)) | diff (os : List (Operand α))
  | symdiff (os : List (Operand α)) | rsub (o : Operand α)
  | issubset (o : Operand α) | issuperset (o : Operand α) | isdisjoint (o : Operand α)

inductive Out (α : Type)
  | unit | nat (n : Nat) | bool (b : Bool) | item (x : α) | list (l : List α) | err (e : Err)
  deriving DecidableEq

open ISet in
def step (cfg : Cfg) (le : α → α → Bool) (s : ISet α) : Op α → ISet α × Out α
  | .add x => (s.add x, .unit)
  | .remove x => match s.remove cfg x with
    | .ok s' => (s', .unit)
    | .error e => (s, .err e)
  | .discard x => (s.discard cfg x, .unit)
  | .pop => match s.popLast cfg with
    | .ok (s', x) => (s', .item x)
    | .error e => (s, .err e)
  | .popAt i => match s.popAt cfg i with
    | .ok (s', x) => (s', .item x)
    | .error e => (s, .err e)
  | .clear => (s.clear, .unit)
  | .sort rev => (s.sort le rev, .unit)
  | .sortBy lek rev bad => match s.sortBy lek rev bad with
    | .ok s' => (s', .unit)
    | .error e => (s, .err e)
  | .reverse => (s.reverse, .unit)
  | .update os => (s.update os, .unit)
  | .interUpdate os => (s.interUpdate cfg os, .unit)
  | .diffUpdate os => (s.diffUpdate cfg os, .unit)
  | .symUpdate o => (s.symUpdate cfg o, .unit)
  | .iter => (s, .list s.toList)
  | .len => (s, .nat s.len)
  | .contains x => (s, .bool (s.contains x))
  | .get i => (s, match s.getItem i with | .ok x => .item x | .error e => .err e)
  | .slice a b c => (s, match s.getSlice a b c with | .ok t => .list t.toList | .error e => .err e)
  | .index x => (s, match s.index x with | .ok n => .nat n | .error e => .err e)
  | .count x => (s, .nat (s.count x))
  | .reversed => (s, .list s.reversed)
  | .union os => (s, .list (s.union os).toList)
  | .inter os => (s, .list (s.inter os).toList)
  | .diff os => (s, .list (s.diff os).toList)
  | .symdiff os => (s, .list (s.symdiff os).toList)
  | .rsub o => (s, .list (s.rsub o))
  | .issubset o => (s, .bool (s.issubset o))
  | .issuperset o => (s, .bool (s.issuperset o))
  | .isdisjoint o => (s, .bool (s.isdisjoint o))

/-- state after a history -/
def runState (cfg : Cfg) (le : α → α → Bool) : ISet α → List (Op α) → ISet α
  | s, [] => s
  | s, op :: ops => runState cfg le (step cfg le s op).1 ops

/-- observations of a history, one per operation -/
def runOuts (cfg : Cfg) (le : α → α → Bool) : ISet α → List (Op α) → List (Out α)
  | _, [] => []
  | s, op :: ops => (step cfg le s op).2 :: runOuts cfg le (step cfg le s op).1 ops

/-! ### several sets at once

Results of `union` / `intersection` / `difference` / `symmetric_difference` / slicing are sets of
their own, and an operand may be another live IndexedSet.  A machine holds a list of registers
(register 0 = the receiver, every `fork` appends the set it produced) and a cursor; an operation
acts on the register under the cursor and may build its operands from what iterating the other
registers yields (`views`).  Nothing else of another register is visible to an operation, and
no operation writes to a register other than the current one. -/

structure Mach (α : Type) where
  regs : List (ISet α)
  cur : Nat

inductive MOp (α : Type)
  /-- the following operations act on register `k` (ignored when there is no such register) -/
  | sel (k : Nat)
  /-- a public operation on the current register; its operands may come from the registers' iteration -/
  | run (f : List (List α) → Op α)
  /-- the same, and the set it returns becomes a new register -/
  | fork (f : List (List α) → Op α)

namespace Mach

def views (m : Mach α) : List (List α) := m.regs.map ISet.toList
def curSet (m : Mach α) : ISet α := (m.regs[m.cur]?).getD ISet.empty

end Mach

/-- the set object a result stands for: `from_iterable(...)` of the listed items -/
def resultSet : Out α → ISet α
  | .list l => ISet.ofList l
  | _ => ISet.empty

def mstep (cfg : Cfg) (le : α → α → Bool) (m : Mach α) : MOp α → Mach α × Out α
  | .sel k => (if k < m.regs.length then ⟨m.regs, k⟩ else m, .unit)
  | .run f => (⟨m.regs.set m.cur (step cfg le m.curSet (f m.views)).1, m.cur⟩,
               (step cfg le m.curSet (f m.views)).2)
  | .fork f => (⟨m.regs.set m.cur (step cfg le m.curSet (f m.views)).1 ++
                   [resultSet (step cfg le m.curSet (f m.views)).2], m.cur⟩,
                (step cfg le m.curSet (f m.views)).2)

def mrunState (cfg : Cfg) (le : α → α → Bool) : Mach α → List (MOp α) → Mach α
  | m, [] => m
  | m, op :: ops => mrunState cfg le (mstep cfg le m op).1 ops

def mrunOuts (cfg : Cfg) (le : α → α → Bool) : Mach α → List (MOp α) → List (Out α)
  | _, [] => []
  | m, op :: ops => (mstep cfg le m op).2 :: mrunOuts cfg le (mstep cfg le m op).1 ops

end C11
