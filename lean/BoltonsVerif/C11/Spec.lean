import BoltonsVerif.C11.Model
/-
C11 — the specification side: a plain list of distinct items with list operations and
set algebra (no tombstones, no dict, no intervals).  `Spec.step` is what the property
statement calls "a plain Python list holding the distinct items in first-insertion order
with the deletions applied" plus "exactly what Python sets would" contain/report, with results
ordered by first appearance in self and then in the other operands.
-/
namespace C11
variable {α : Type} [DecidableEq α]

/-- the plain-list `add`: append when new -/
def specAdd (l : List α) (x : α) : List α := if x ∈ l then l else l ++ [x]

namespace Spec

/-- append the items of `xs` that are new, in order of first appearance -/
def addAll (l xs : List α) : List α := xs.foldl specAdd l

/-- the distinct items of `xs` in order of first appearance -/
def dedup (xs : List α) : List α := addAll [] xs

/-- what iterating an operand yields (`self` = the receiver's own items) -/
def opItems (l : List α) (o : Operand α) : List α :=
  match o.kind with
  | .self => l
  | _ => o.elems

def memOp (l : List α) (o : Operand α) (x : α) : Bool := decide (x ∈ opItems l o)
def inAll (l : List α) (os : List (Operand α)) (x : α) : Bool := os.all fun o => memOp l o x
def inNone (l : List α) (os : List (Operand α)) (x : α) : Bool := os.all fun o => !memOp l o x
def notIn (l : List α) (x : α) : Bool := !decide (x ∈ l)

/-- symmetric difference with one operand: self's items not in the other (self order), then the
    other's distinct items not in self (first-appearance order) -/
def symdiff1 (l : List α) (o : Operand α) : List α :=
  l.filter (notIn (opItems l o)) ++ (dedup (opItems l o)).filter (notIn l)

/-- Python's index normalisation for a sequence of length `n`: `none` = IndexError -/
def pyIndex (n : Nat) (i : Int) : Option Nat :=
  if 0 ≤ i ∧ i < n then some i.toNat
  else if -(n : Int) ≤ i ∧ i < 0 then some (i + n).toNat
  else none

/-- slice bound adjustment for a positive step: a negative bound counts from the end and is
    clamped at 0 (clamping at `n` from above is immaterial: positions only range below `n`) -/
def sliceBound (n : Nat) (v : Int) : Nat := if v < 0 then (v + n).toNat else v.toNat

/-- position `j` belongs to the slice `start:stop:c` -/
def sliceSel (start stop c : Nat) (j : Nat) : Bool :=
  decide (start ≤ j ∧ j < stop ∧ (j - start) % c = 0)

/-- the items of a list whose position (counted from `j`) satisfies `sel`, in order -/
def pickIdx (sel : Nat → Bool) : Nat → List α → List α
  | _, [] => []
  | j, x :: xs => if sel j then x :: pickIdx sel (j + 1) xs else pickIdx sel (j + 1) xs

/-- `l[a:b:c]` for a positive step `c`: the items at positions start, start+c, ... below stop -/
def pySlice (l : List α) (a b : Option Int) (c : Nat) : List α :=
  let start := match a with | none => 0 | some v => sliceBound l.length v
  let stop := match b with | none => l.length | some v => sliceBound l.length v
  pickIdx (sliceSel start stop c) 0 l

/-- one operation on the plain list: new list and the public result -/
def step (le : α → α → Bool) (l : List α) : Op α → List α × Out α
  | .add x => (specAdd l x, .unit)
  | .remove x => if x ∈ l then (l.erase x, .unit) else (l, .err .keyError)
  | .discard x => (l.erase x, .unit)
  | .pop => match l.getLast? with
    | some x => (l.dropLast, .item x)
    | none => (l, .err .indexError)
  | .popAt i => match pyIndex l.length i with
    | some k => (l.eraseIdx k, match l[k]? with | some x => .item x | none => .err .indexError)
    | none => (l, .err .indexError)
  | .clear => ([], .unit)
  | .sort rev => (ISet.sortedList le rev l, .unit)
  | .sortBy lek rev bad =>
    if decide (2 ≤ l.length) && l.any (fun x => bad.contains x) then (l, .err .cmpError)
    else (ISet.sortedList lek rev l, .unit)
  | .reverse => (l.reverse, .unit)
  | .update os => (addAll l (os.flatMap (opItems l)), .unit)
  | .interUpdate os => (l.filter (inAll l os), .unit)
  | .diffUpdate os => (l.filter (inNone l os), .unit)
  | .symUpdate o => (symdiff1 l o, .unit)
  | .iter => (l, .list l)
  | .len => (l, .nat l.length)
  | .contains x => (l, .bool (decide (x ∈ l)))
  | .get i => (l, match pyIndex l.length i with
    | some k => (match l[k]? with | some x => .item x | none => .err .indexError)
    | none => .err .indexError)
  | .slice a b c => (l, match c with
    | none => .list (pySlice l a b 1)
    | some v => if v = 0 then .err .valueError else .list (pySlice l a b v.toNat))
  | .index x => (l, if x ∈ l then .nat (l.idxOf x) else .err .valueError)
  | .count x => (l, .nat (l.count x))
  | .reversed => (l, .list l.reverse)
  | .union os => (l, .list (addAll l (os.flatMap (opItems l))))
  | .inter os => (l, .list (l.filter (inAll l os)))
  | .diff os => (l, .list (l.filter (inNone l os)))
  | .symdiff os => (l, match os with
    | [o] => .list (symdiff1 l o)
    | _ => .list [])
  | .rsub o => (l, .list ((opItems l o).filter (notIn l)))
  | .issubset o => (l, .bool (l.all (memOp l o)))
  | .issuperset o => (l, .bool ((opItems l o).all fun x => decide (x ∈ l)))
  | .isdisjoint o => (l, .bool ((opItems l o).all (notIn l)))

def runState (le : α → α → Bool) : List α → List (Op α) → List α
  | l, [] => l
  | l, op :: ops => runState le (step le l op).1 ops

def runOuts (le : α → α → Bool) : List α → List (Op α) → List (Out α)
  | _, [] => []
  | l, op :: ops => (step le l op).2 :: runOuts le (step le l op).1 ops

/-- arguments inside the property statement: list-valid indexes, positive slice steps,
    symmetric_difference with one operand -/
def ValidOp (l : List α) : Op α → Prop
  | .popAt i => (pyIndex l.length i).isSome
  | .get i => (pyIndex l.length i).isSome
  | .slice _ _ c => c = none ∨ ∃ v : Int, c = some v ∧ 0 < v
  | .symdiff os => os.length = 1
  | _ => True

def ValidRun (le : α → α → Bool) : List α → List (Op α) → Prop
  | _, [] => True
  | l, op :: ops => ValidOp l op ∧ ValidRun le (step le l op).1 ops

/-! ### several plain lists at once (the specification of `Mach`) -/

structure SMach (α : Type) where
  regs : List (List α)
  cur : Nat

def SMach.curList (m : SMach α) : List α := (m.regs[m.cur]?).getD []

/-- the plain list a result stands for -/
def resultList : Out α → List α
  | .list l => dedup l
  | _ => []

def mstep (le : α → α → Bool) (m : SMach α) : MOp α → SMach α × Out α
  | .sel k => (if k < m.regs.length then ⟨m.regs, k⟩ else m, .unit)
  | .run f => (⟨m.regs.set m.cur (step le m.curList (f m.regs)).1, m.cur⟩, (step le m.curList (f m.regs)).2)
  | .fork f => (⟨m.regs.set m.cur (step le m.curList (f m.regs)).1 ++
                   [resultList (step le m.curList (f m.regs)).2], m.cur⟩,
                (step le m.curList (f m.regs)).2)

def mrunState (le : α → α → Bool) : SMach α → List (MOp α) → SMach α
  | m, [] => m
  | m, op :: ops => mrunState le (mstep le m op).1 ops

def mrunOuts (le : α → α → Bool) : SMach α → List (MOp α) → List (Out α)
  | _, [] => []
  | m, op :: ops => (mstep le m op).2 :: mrunOuts le (mstep le m op).1 ops

def MValidOp (m : SMach α) : MOp α → Prop
  | .sel _ => True
  | .run f => ValidOp m.curList (f m.regs)
  | .fork f => ValidOp m.curList (f m.regs)

def MValidRun (le : α → α → Bool) : SMach α → List (MOp α) → Prop
  | _, [] => True
  | m, op :: ops => MValidOp m op ∧ MValidRun le (mstep le m op).1 ops

end Spec
end C11
