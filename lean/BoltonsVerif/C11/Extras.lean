/-
C11 — round-3 additions (helper lemmas for `Props.lean`): (1) `bisect_left` as the real binary search,
(2) slices with a negative step, (3) indexes at or beyond `len`.

(1) `bisect.bisect_left` as the algorithm of CPython's `Lib/bisect.py`

    while lo < hi:
        mid = (lo + hi) // 2
        if a[mid] < x: lo = mid + 1
        else: hi = mid
    return lo

(the C accelerator `_bisect` is the same loop), and the proof that on every list of dead intervals a
reachable IndexedSet can hold (`Chain`) it returns what the model's abstraction `bisectLeft` says: the
number of leading intervals lexicographically below the candidate.  `addDeadPy` is `_add_dead` with the
binary search in place of the abstraction; `addDeadPy_eq` shows the model loses nothing by the abstraction.
-/
import BoltonsVerif.C11.Proofs

namespace C11

set_option linter.unusedSimpArgs false
set_option linter.unusedVariables false
set_option linter.unusedSectionVars false

/-- binary search finds the boundary `t` of a predicate that is true below `t` and false from `t` on -/
theorem bsearch_boundary (p : Nat → Bool) (t : Nat) :
    ∀ (fuel lo hi : Nat), lo ≤ t → t ≤ hi → hi - lo ≤ fuel →
      (∀ i, lo ≤ i → i < t → p i = true) → (∀ i, t ≤ i → i < hi → p i = false) →
      bsearch p fuel lo hi = t := by
  intro fuel
  induction fuel with
  | zero => intro lo hi h1 h2 h3 _ _; simp only [bsearch]; omega
  | succ n ih =>
    intro lo hi h1 h2 h3 hT hF
    simp only [bsearch]
    by_cases hlt : lo < hi
    · rw [if_pos hlt]
      have hm1 : lo ≤ (lo + hi) / 2 := by omega
      have hm2 : (lo + hi) / 2 < hi := by omega
      by_cases hp : p ((lo + hi) / 2) = true
      · rw [if_pos hp]
        have : (lo + hi) / 2 < t := by
          apply Classical.byContradiction
          intro hge
          have := hF ((lo + hi) / 2) (by omega) hm2
          rw [this] at hp; cases hp
        exact ih _ _ (by omega) h2 (by omega) (fun i hi1 hi2 => hT i (by omega) hi2) hF
      · rw [if_neg hp]
        have : t ≤ (lo + hi) / 2 := by
          apply Classical.byContradiction
          intro hge
          exact hp (hT ((lo + hi) / 2) hm1 (by omega))
        exact ih _ _ h1 this (by omega) hT (fun i hi1 hi2 => hF i hi1 (by omega))
    · rw [if_neg hlt]; omega

/-- in a `Chain` the starts increase strictly, so "below the candidate" is downward closed -/
theorem chain_lexLt_antitone (c : Nat × Nat) : ∀ (d : List (Nat × Nat)) (lo hi : Nat), Chain lo d hi →
    ∀ (P Q : List (Nat × Nat)) (q : Nat × Nat), d = P ++ q :: Q → lexLt c q = false →
      ∀ x ∈ Q, lexLt c x = false := by
  intro d lo hi hc P Q q hd hq x hx
  subst hd
  have h2 := (chain_append P (q :: Q) lo hi).1 hc
  obtain ⟨mid, _, hcq⟩ := h2
  obtain ⟨qa, qb⟩ := q
  simp only [Chain] at hcq
  have hxm := chain_mem Q qb hi x hcq.2.2 hx
  simp only [lexLt, Bool.or_eq_false_iff, Bool.and_eq_false_imp, decide_eq_false_iff_not,
    beq_iff_eq] at hq ⊢
  omega

/-- THE ABSTRACTION IS SOUND: on every well-formed dead-interval table the binary search of
    `Lib/bisect.py` returns the model's `bisectLeft` (number of leading intervals below the candidate) -/
theorem bisectLeftPy_eq (d : List (Nat × Nat)) (lo hi : Nat) (hc : Chain lo d hi) (c : Nat × Nat) :
    bisectLeftPy d c = bisectLeft d c := by
  obtain ⟨P, Q, hd, hP, hPall, hQ⟩ := takeWhile_split (lexLt c) d
  have ht : bisectLeft d c = P.length := by simp [bisectLeft, hP]
  rw [ht]
  unfold bisectLeftPy
  apply bsearch_boundary (ltAt d c) P.length d.length 0 d.length (Nat.zero_le _)
    (by rw [hd]; simp) (by omega)
  · intro i _ hi
    have : d[i]? = some P[i] := by rw [hd, List.getElem?_append_left hi, List.getElem?_eq_getElem hi]
    simp only [ltAt, this]
    exact hPall _ (List.getElem_mem hi)
  · intro i h1 h2
    cases Q with
    | nil => rw [hd] at h2; simp at h2; omega
    | cons q Q' =>
      have hq := hQ q Q' rfl
      have hlen : d.length = P.length + (Q'.length + 1) := by rw [hd]; simp
      have hget : d[i]? = (q :: Q')[i - P.length]? := by
        rw [hd, List.getElem?_append_right h1]
      simp only [ltAt, hget]
      by_cases h0 : i - P.length = 0
      · rw [h0]; simpa using hq
      · obtain ⟨j, hj⟩ : ∃ j, i - P.length = j + 1 := ⟨i - P.length - 1, by omega⟩
        rw [hj, List.getElem?_cons_succ]
        have hjl : j < Q'.length := by omega
        rw [List.getElem?_eq_getElem hjl]
        exact chain_lexLt_antitone c d lo hi hc P Q' q hd hq _ (List.getElem_mem hjl)

theorem addDeadPy_eq (d : List (Nat × Nat)) (lo hi : Nat) (hc : Chain lo d hi) (start : Nat) :
    addDeadPy d start = addDead d start := by
  unfold addDeadPy addDead
  rw [bisectLeftPy_eq d lo hi hc]
  try rfl

/-! ### slices with a negative step (outside the property statement; characterised all the same) -/

variable {α : Type} [DecidableEq α]
open Spec

/-- `s[a:b:-c]` is NOT Python's list slicing with a negative step: `iter_slice` reverses the iteration
    and then applies `a`, `b` (normalised against `len`) and the step `c` from the front, i.e.
    `s[a:b:-c] == IndexedSet(list(reversed(s))[a:b:c])` - what `tests/test_setutils.py` pins with
    `x[2:4:-1] == IndexedSet([8, 7])`. -/
theorem getSlice_neg_spec (s : ISet α) (h : Inv s) (a b : Option Int) (c : Nat) (hc : 0 < c) :
    ∃ t, s.getSlice a b (some (-(c : Int))) = .ok t ∧ Inv t ∧
      t.toList = pySlice s.toList.reverse a b c := by
  have hlen := h.toInvC.len_eq
  have hiter : s.iterSlice a b (some (-(c : Int)))
      = .ok (islice s.reversed ((normBound s.len a).getD 0) (normBound s.len b) c) := by
    unfold ISet.iterSlice
    have h0 : ¬ (-(c : Int) = 0) := by omega
    have hneg : (-(c : Int) < 0) := by omega
    simp only [h0, if_false]
    have hneg' : (-(c : Int) < 0) ↔ True := by simp; omega
    simp only [hneg', if_true]
    congr 2
    omega
  unfold ISet.getSlice
  rw [hiter]
  simp only
  refine ⟨_, rfl, (ofList_spec _).1, ?_⟩
  rw [islice_eq_pickIdx _ _ _ _ hc, reversed_eq]
  rw [ofList_nodup _ (((List.reverse_perm s.toList).nodup_iff.2 (toList_nodup h.toInvC)).sublist (pickIdx_sublist _ _ _))]
  unfold pySlice
  rw [hlen, List.length_reverse]
  congr 2
  · cases a with
    | none => rfl
    | some v => rw [normBound_eq]; rfl
  · cases b with
    | none => rfl
    | some v => rw [normBound_eq]; rfl

/-! ### indexes at or beyond `len` (outside the property statement: a list raises IndexError there too) -/

/-- `_get_real_index(k)` for `k` at or beyond the number of live items lands at or beyond the end of
    `item_list` -/
theorem realLoop_beyond (l : List (Option α)) : ∀ (d : List (Nat × Nat)) (lo k : Nat),
    Chain lo d l.length → Tombs l d lo → lc l l.length ≤ lc l lo + k → l.length ≤ realLoop (lo + k) d
  | [], lo, k, hc, ht, hk => by
    simp only [realLoop, Chain] at *
    have hlive : ∀ j, lo ≤ j → j < l.length → l[j]? ≠ some none := by
      intro j h1 h2 h3; exact (ht j h1 h2).1 h3 |> (deadAt_nil j).1
    have h1 := lc_all_live l lo l.length hc (Nat.le_refl _) (fun j a b => hlive j a b)
    omega
  | (a, b) :: ds, lo, k, hc, ht, hk => by
    obtain ⟨hloa, hab, hc'⟩ := hc
    have hb := chain_le ds b l.length hc'
    have hlive : ∀ j, lo ≤ j → j < a → l[j]? ≠ some none := by
      intro j h1 h2 h3
      have := (ht j h1 (by omega)).1 h3
      rw [deadAt_cons] at this
      rcases this with h | h
      · simp at h; omega
      · have := chain_deadAt ds b l.length j hc' h; omega
    have hdead : ∀ j, a ≤ j → j < b → l[j]? = some none := by
      intro j h1 h2
      exact (ht j (by omega) (by omega)).2 (by rw [deadAt_cons]; exact Or.inl ⟨h1, h2⟩)
    have hla := lc_all_live l lo a hloa (by omega) hlive
    have hlb := lc_all_dead l a b (by omega) hb hdead
    have hmono := (lc_mono l (p := b) (q := l.length) hb).1
    simp only [realLoop]
    split
    · next hlt => omega
    · next hge =>
      have ht' : Tombs l ds b := by
        intro j h1 h2
        rw [ht j (by omega) h2, deadAt_cons]
        constructor
        · rintro (h | h)
          · simp at h; omega
          · exact h
        · exact Or.inr
      have heq : lo + k + (b - a) = b + (k - (a - lo)) := by omega
      rw [heq]
      exact realLoop_beyond l ds b (k - (a - lo)) hc' ht' (by omega)

/-- `s[k]` with `k ≥ len(s)` raises IndexError, whatever tombstones there are -/
theorem getItem_beyond (s : ISet α) (h : Inv s) (k : Nat) (hk : s.toList.length ≤ k) :
    s.getItem (k : Int) = .error .indexError := by
  have hb := realLoop_beyond s.items s.dead 0 k h.chain h.tombs (by
    rw [lc_zero, lc_length]; simpa [ISet.toList] using hk)
  rw [Nat.zero_add] at hb
  unfold ISet.getItem
  rw [normIndex_nonneg]
  simp only [List.getElem?_eq_none hb]

/-- `s.pop(k)` with `k ≥ len(s)` raises IndexError and the set is unchanged (a `step` keeps the state
    on an error) -/
theorem popAt_beyond (cfg : Cfg) (s : ISet α) (h : Inv s) (k : Nat) (hk : s.toList.length ≤ k) :
    s.popAt cfg (k : Int) = .error .indexError := by
  have hb := realLoop_beyond s.items s.dead 0 k h.chain h.tombs (by
    rw [lc_zero, lc_length]; simpa [ISet.toList] using hk)
  rw [Nat.zero_add] at hb
  have hlen := h.toInvC.len_eq
  unfold ISet.popAt
  have h1 : ¬ ((k : Int) = -1 ∨ (k : Int) = (s.len : Int) - 1) := by omega
  rw [if_neg h1, normIndex_nonneg]
  simp only [List.getElem?_eq_none hb]

/-! ### the compaction thresholds really bound the garbage -/

/-- at most `limit` dead intervals, and the tombstones are at most a `1/factor` share of the slots -/
def Bounded (cfg : Cfg) (s : ISet α) : Prop :=
  s.dead.length ≤ cfg.limit ∧ (s.items.length - s.idx.length) * cfg.factor ≤ s.items.length

theorem slots_eq_of_noDead (s : ISet α) (h : InvC s) (hd : s.dead = []) : s.items.length = s.idx.length := by
  have hlive : ∀ j, 0 ≤ j → j < s.items.length → s.items[j]? ≠ some none := by
    intro j h1 h2 h3
    have := (h.tombs j h1 h2).1 h3
    rw [hd] at this; exact (deadAt_nil j).1 this
  have h1 := lc_all_live s.items 0 s.items.length (Nat.zero_le _) (Nat.le_refl _) hlive
  rw [lc_zero, lc_length] at h1
  have h2 := h.perm.length_eq
  rw [IMap.length_keys] at h2
  omega

theorem bounded_noDead (cfg : Cfg) (s : ISet α) (h : InvC s) (hd : s.dead = []) : Bounded cfg s := by
  have := slots_eq_of_noDead s h hd
  unfold Bounded
  rw [hd, this]
  simp

/-- whatever `_cull` is given, what it leaves is within both thresholds -/
theorem cull_bounded (cfg : Cfg) (s : ISet α) (hres : InvC (cull cfg s)) : Bounded cfg (cull cfg s) := by
  unfold cull at hres ⊢
  by_cases h1 : s.dead.isEmpty = true
  · simp only [h1, if_true] at hres ⊢
    exact bounded_noDead cfg s hres (by simpa using h1)
  simp only [h1, Bool.false_eq_true, if_false] at hres ⊢
  by_cases h2 : s.idx.isEmpty = true
  · simp only [h2, if_true] at hres ⊢
    exact bounded_noDead cfg _ hres rfl
  simp only [h2, Bool.false_eq_true, if_false] at hres ⊢
  have hcd : ∀ t : ISet α, (compact t).dead = [] := by
    intro t; unfold compact
    cases hd : t.dead with
    | nil => simp [hd]
    | cons p ps => simp
  by_cases h3 : s.dead.length > cfg.limit
  · simp only [h3, if_true] at hres ⊢
    exact bounded_noDead cfg _ hres (hcd s)
  simp only [h3, if_false] at hres ⊢
  by_cases h4 : (s.items.length - s.idx.length) * cfg.factor > s.items.length
  · simp only [h4, if_true] at hres ⊢
    exact bounded_noDead cfg _ hres (hcd s)
  simp only [h4, if_false] at hres ⊢
  by_cases h5 : s.items.getLast? = some none
  · simp only [h5, if_true] at hres ⊢
    unfold Bounded
    simp only
    constructor
    · have : (popDeadFrom s.dead (List.take (s.items.length - trailingDead s.items) s.items).length).length
          ≤ s.dead.length := by
        unfold popDeadFrom
        rw [List.length_reverse]
        have := (List.dropWhile_sublist (l := s.dead.reverse) (startsAtOrAfter
          (List.take (s.items.length - trailingDead s.items) s.items).length)).length_le
        rw [List.length_reverse] at this
        exact this
      omega
    · rw [List.length_take]
      generalize trailingDead s.items = t
      generalize s.items.length = L at *
      generalize s.idx.length = I at *
      by_cases hf : cfg.factor = 0
      · rw [hf]; simp
      · by_cases hle : L - t ≤ I
        · have : min (L - t) L - I = 0 := by omega
          rw [this]; simp
        · have e : min (L - t) L - I = (L - I) - t := by omega
          rw [e, Nat.sub_mul]
          have : t ≤ t * cfg.factor := Nat.le_mul_of_pos_right t (by omega)
          have hm : min (L - t) L = L - t := by omega
          rw [hm]
          omega
  · simp only [h5, if_false] at hres ⊢
    exact ⟨by omega, by omega⟩

theorem add_bounded (cfg : Cfg) (s : ISet α) (h : InvC s) (hb : Bounded cfg s) (x : α) :
    Bounded cfg (s.add x) := by
  unfold ISet.add
  by_cases hc : s.contains x = true
  · simp only [hc, if_true]; exact hb
  · simp only [hc, Bool.false_eq_true, if_false]
    have hx : x ∉ IMap.keys s.idx := by
      intro hm
      apply hc
      unfold ISet.contains
      exact (IMap.lookup_isSome_iff s.idx x).2 hm
    have hl : (IMap.set s.idx x s.items.length).length = s.idx.length + 1 := by
      rw [← IMap.length_keys, IMap.keys_set_not_mem _ _ _ hx, List.length_append, IMap.length_keys]; rfl
    unfold Bounded at hb ⊢
    simp only [List.length_append, List.length_singleton, hl]
    refine ⟨hb.1, ?_⟩
    have e : s.items.length + 1 - (s.idx.length + 1) = s.items.length - s.idx.length := by omega
    rw [e]; omega

theorem discard_bounded (cfg : Cfg) (s : ISet α) (h : Inv s) (hb : Bounded cfg s) (x : α) :
    Bounded cfg (s.discard cfg x) := by
  have hinv := (discard_spec cfg s h x).1
  unfold ISet.discard at hinv ⊢
  unfold ISet.remove at hinv ⊢
  cases hl : s.idx.lookup x with
  | none => simp only [hl]; exact hb
  | some i =>
    simp only [hl] at hinv ⊢
    exact cull_bounded cfg _ hinv.toInvC

theorem foldl_discard_bounded (cfg : Cfg) : ∀ (xs : List α) (s : ISet α), Inv s → Bounded cfg s →
    Bounded cfg (xs.foldl (ISet.discard cfg) s)
  | [], _, _, hb => hb
  | x :: xs, s, h, hb => by
    simp only [List.foldl_cons]
    exact foldl_discard_bounded cfg xs _ (discard_spec cfg s h x).1 (discard_bounded cfg s h hb x)

theorem foldl_add_bounded (cfg : Cfg) : ∀ (xs : List α) (s : ISet α), Inv s → Bounded cfg s →
    Bounded cfg (xs.foldl ISet.add s)
  | [], _, _, hb => hb
  | x :: xs, s, h, hb => by
    simp only [List.foldl_cons]
    exact foldl_add_bounded cfg xs _ (inv_add s h x) (add_bounded cfg s h.toInvC hb x)

theorem foldl_toggle_bounded (cfg : Cfg) : ∀ (xs : List α) (s : ISet α), Inv s → Bounded cfg s →
    Bounded cfg (xs.foldl (ISet.toggle cfg) s)
  | [], _, _, hb => hb
  | x :: xs, s, h, hb => by
    simp only [List.foldl_cons]
    have hi : Inv (s.toggle cfg x) := by
      unfold ISet.toggle; split
      · exact (discard_spec cfg s h x).1
      · exact inv_add s h x
    have hb' : Bounded cfg (s.toggle cfg x) := by
      unfold ISet.toggle; split
      · exact discard_bounded cfg s h hb x
      · exact add_bounded cfg s h.toInvC hb x
    exact foldl_toggle_bounded cfg xs _ hi hb'

theorem clear_bounded (cfg : Cfg) (s : ISet α) : Bounded cfg s.clear := by
  simp [Bounded, ISet.clear]

theorem remove_bounded (cfg : Cfg) (s : ISet α) (x : α) :
    ∀ r, s.remove cfg x = .ok r → Inv r → Bounded cfg r := by
  intro r hr hi
  unfold ISet.remove at hr
  split at hr
  · cases hr
  · cases hr; exact cull_bounded cfg _ hi.toInvC

theorem popLast_bounded (cfg : Cfg) (s : ISet α) :
    ∀ r, s.popLast cfg = .ok r → Inv r.1 → Bounded cfg r.1 := by
  intro r hr hi
  unfold ISet.popLast at hr
  split at hr
  · cases hr
  · cases hr
  · cases hr; exact cull_bounded cfg _ hi.toInvC

theorem popAt_bounded (cfg : Cfg) (s : ISet α) (i : Int) :
    ∀ r, s.popAt cfg i = .ok r → Inv r.1 → Bounded cfg r.1 := by
  intro r hr hi
  unfold ISet.popAt at hr
  split at hr
  · exact popLast_bounded cfg s r hr hi
  · split at hr
    · cases hr
    · simp only at hr
      split at hr
      · cases hr
      · cases hr
      · cases hr; exact cull_bounded cfg _ hi.toInvC

theorem sort_bounded (cfg : Cfg) (le : α → α → Bool) (rev : Bool) (s : ISet α) (hb : Bounded cfg s)
    (hi : Inv (s.sort le rev)) : Bounded cfg (s.sort le rev) := by
  unfold ISet.sort at hi ⊢
  simp only at hi ⊢
  split
  · exact hb
  · rename_i hc
    rw [if_neg hc] at hi
    exact bounded_noDead cfg _ hi.toInvC rfl

/-- every public operation keeps the garbage within the thresholds -/
theorem step_bounded (cfg : Cfg) (le : α → α → Bool) (s : ISet α) (h : Inv s) (hb : Bounded cfg s)
    (op : Op α) : Bounded cfg (step cfg le s op).1 := by
  have hinv := step_inv cfg le s h op
  cases op with
  | add x => exact add_bounded cfg s h.toInvC hb x
  | remove x =>
    simp only [step] at hinv ⊢
    cases hr : s.remove cfg x with
    | error e => simp only [hr]; exact hb
    | ok r => simp only [hr] at hinv ⊢; exact remove_bounded cfg s x r hr hinv
  | discard x => exact discard_bounded cfg s h hb x
  | pop =>
    simp only [step] at hinv ⊢
    cases hr : s.popLast cfg with
    | error e => simp only [hr]; exact hb
    | ok r => obtain ⟨s', y⟩ := r; simp only [hr] at hinv ⊢; exact popLast_bounded cfg s _ hr hinv
  | popAt i =>
    simp only [step] at hinv ⊢
    cases hr : s.popAt cfg i with
    | error e => simp only [hr]; exact hb
    | ok r => obtain ⟨s', y⟩ := r; simp only [hr] at hinv ⊢; exact popAt_bounded cfg s i _ hr hinv
  | clear => exact clear_bounded cfg s
  | sort rev => exact sort_bounded cfg le rev s hb hinv
  | sortBy lek rev bad =>
    simp only [step] at hinv ⊢
    cases hr : s.sortBy lek rev bad with
    | error e => simp only [hr]; exact hb
    | ok r =>
      simp only [hr] at hinv ⊢
      unfold ISet.sortBy at hr
      split at hr
      · cases hr
      · cases hr; exact sort_bounded cfg lek rev s hb hinv
  | reverse => exact bounded_noDead cfg _ hinv.toInvC rfl
  | update os =>
    simp only [step, ISet.update]
    split
    · exact hb
    · exact foldl_add_bounded cfg _ s h hb
  | interUpdate os =>
    simp only [step, ISet.interUpdate]
    exact foldl_discard_bounded cfg _ s h hb
  | diffUpdate os =>
    simp only [step, ISet.diffUpdate]
    split
    · exact foldl_discard_bounded cfg _ _ (step_inv cfg le s h .clear) (clear_bounded cfg s)
    · exact foldl_discard_bounded cfg _ s h hb
  | symUpdate o =>
    simp only [step, ISet.symUpdate]
    split
    · exact clear_bounded cfg s
    · exact foldl_toggle_bounded cfg _ s h hb
  | get i => exact hb
  | slice a b c => exact hb
  | symdiff os => exact hb
  | iter => exact hb
  | len => exact hb
  | contains x => exact hb
  | index x => exact hb
  | count x => exact hb
  | reversed => exact hb
  | union os => exact hb
  | inter os => exact hb
  | diff os => exact hb
  | rsub o => exact hb
  | issubset o => exact hb
  | issuperset o => exact hb
  | isdisjoint o => exact hb

theorem runState_bounded (cfg : Cfg) (le : α → α → Bool) : ∀ (ops : List (Op α)) (s : ISet α), Inv s →
    Bounded cfg s → Bounded cfg (runState cfg le s ops)
  | [], _, _, hb => hb
  | op :: ops, s, h, hb =>
    runState_bounded cfg le ops _ (step_inv cfg le s h op) (step_bounded cfg le s h hb op)

theorem ofList_bounded (cfg : Cfg) (l : List α) : Bounded cfg (ISet.ofList l) :=
  foldl_add_bounded cfg l _ inv_empty (bounded_noDead cfg _ inv_empty.toInvC rfl)

theorem resultSet_bounded (cfg : Cfg) (o : Out α) : Bounded cfg (resultSet o) := by
  cases o <;> first | exact ofList_bounded cfg _ | exact bounded_noDead cfg _ inv_empty.toInvC rfl

/-- with several live sets: every set of the register file stays within the thresholds -/
theorem mstep_bounded (cfg : Cfg) (le : α → α → Bool) (m : Mach α) (h : ∀ s ∈ m.regs, Inv s)
    (hB : ∀ s ∈ m.regs, Bounded cfg s) (hb : m.cur < m.regs.length) (op : MOp α) :
    ∀ s ∈ (mstep cfg le m op).1.regs, Bounded cfg s := by
  have hc : Inv m.curSet ∧ Bounded cfg m.curSet := by
    unfold Mach.curSet
    rw [List.getElem?_eq_getElem hb]
    exact ⟨h _ (List.getElem_mem _), hB _ (List.getElem_mem _)⟩
  cases op with
  | sel k =>
    simp only [mstep]
    by_cases hk : k < m.regs.length
    · rw [if_pos hk]; exact hB
    · rw [if_neg hk]; exact hB
  | run f =>
    simp only [mstep]
    intro s hs
    rcases List.mem_or_eq_of_mem_set hs with hs | hs
    · exact hB s hs
    · rw [hs]; exact step_bounded cfg le _ hc.1 hc.2 _
  | fork f =>
    simp only [mstep]
    intro s hs
    rcases List.mem_append.1 hs with hs | hs
    · rcases List.mem_or_eq_of_mem_set hs with hs | hs
      · exact hB s hs
      · rw [hs]; exact step_bounded cfg le _ hc.1 hc.2 _
    · rw [List.mem_singleton.1 hs]; exact resultSet_bounded cfg _

theorem mrunState_bounded (cfg : Cfg) (le : α → α → Bool) : ∀ (ops : List (MOp α)) (m : Mach α),
    (∀ s ∈ m.regs, Inv s) → (∀ s ∈ m.regs, Bounded cfg s) → m.cur < m.regs.length →
    (∀ s ∈ (mrunState cfg le m ops).regs, Bounded cfg s)
  | [], _, _, hB, _ => hB
  | op :: ops, m, h, hB, hb =>
    mrunState_bounded cfg le ops _ (mstep_inv cfg le m h hb op).1 (mstep_bounded cfg le m h hB hb op)
      (mstep_inv cfg le m h hb op).2

end C11
