/-
C11 — round-3 additions (helper lemmas for `Props.lean`): (1) `bisect_left` as the real binary search,
(2) slices with a negative step, (3) indexes at or beyond `len`.

(1) `bisect.bisect_left` as the algorithm of CPython's `Lib/bisect.py`

    while lo < hi:
        mid = (lo + hi) // 2
        if a[mid] < x: lo = mid + 1
        else: hi = mid
    return lo

(the C accelerator `_bisect` is the same loop), and the proof that on every list of dead intervals a
reachable IndexedSet can hold (`Chain`) it returns what the model's abstraction `bisectLeft` says: the
number of leading intervals lexicographically below the candidate.  `addDeadPy` is `_add_dead` with the
binary search in place of the abstraction; `addDeadPy_eq` shows the model loses nothing by the abstraction.
-/
import BoltonsVerif.C11.Proofs

namespace C11

/-- binary search finds the boundary `t` of a predicate that is true below `t` and false from `t` on -/
theorem bsearch_boundary (p : Nat → Bool) (t : Nat) :
    ∀ (fuel lo hi : Nat), lo ≤ t → t ≤ hi → hi - lo ≤ fuel →
      (∀ i, lo ≤ i → i < t → p i = true) → (∀ i, t ≤ i → i < hi → p i = false) →
      bsearch p fuel lo hi = t := by
  intro fuel
  induction fuel with
  | zero => intro lo hi h1 h2 h3 _ _; simp only [bsearch]; omega
  | succ n ih =>
    intro lo hi h1 h2 h3 hT hF
    simp only [bsearch]
    by_cases hlt : lo < hi
    · rw [if_pos hlt]
      have hm1 : lo ≤ (lo + hi) / 2 := by omega
      have hm2 : (lo + hi) / 2 < hi := by omega
      by_cases hp : p ((lo + hi) / 2) = true
      · rw [if_pos hp]
        have : (lo + hi) / 2 < t := by
          apply Classical.byContradiction
          intro hge
          have := hF ((lo + hi) / 2) (by omega) hm2
          rw [this] at hp; cases hp
        exact ih _ _ (by omega) h2 (by omega) (fun i hi1 hi2 => hT i (by omega) hi2) hF
      · rw [if_neg hp]
        have : t ≤ (lo + hi) / 2 := by
          apply Classical.byContradiction
          intro hge
          exact hp (hT ((lo + hi) / 2) hm1 (by omega))
        exact ih _ _ h1 this (by omega) hT (fun i hi1 hi2 => hF i hi1 (by omega))
    · rw [if_neg hlt]; omega

/-- in a `Chain` the starts increase strictly, so "below the candidate" is downward closed -/
theorem chain_lexLt_antitone (c : Nat × Nat) : ∀ (d : List (Nat × Nat)) (lo hi : Nat), Chain lo d hi →
    ∀ (P Q : List (Nat × Nat)) (q : Nat × Nat), d = P ++ q :: Q → lexLt c q = false →
      ∀ x ∈ Q, lexLt c x = false := by
  intro d lo hi hc P Q q hd hq x hx
  subst hd
  have h2 := (chain_append P (q :: Q) lo hi).1 hc
  obtain ⟨mid, _, hcq⟩ := h2
  obtain ⟨qa, qb⟩ := q
  simp only [Chain] at hcq
  have hxm := chain_mem Q qb hi x hcq.2.2 hx
  simp only [lexLt, Bool.or_eq_false_iff, Bool.and_eq_false_imp, decide_eq_false_iff_not,
    beq_iff_eq] at hq ⊢
  omega

/-- THE ABSTRACTION IS SOUND: on every well-formed dead-interval table the binary search of
    `Lib/bisect.py` returns the model's `bisectLeft` (number of leading intervals below the candidate) -/
theorem bisectLeftPy_eq (d : List (Nat × Nat)) (lo hi : Nat) (hc : Chain lo d hi) (c : Nat × Nat) :
    bisectLeftPy d c = bisectLeft d c := by
  obtain ⟨P, Q, hd, hP, hPall, hQ⟩ := takeWhile_split (lexLt c) d
  have ht : bisectLeft d c = P.length := by simp [bisectLeft, hP]
  rw [ht]
  unfold bisectLeftPy
  apply bsearch_boundary (ltAt d c) P.length d.length 0 d.length (Nat.zero_le _)
    (by rw [hd]; simp) (by omega)
  · intro i _ hi
    have : d[i]? = some P[i] := by rw [hd, List.getElem?_append_left hi, List.getElem?_eq_getElem hi]
    simp only [ltAt, this]
    exact hPall _ (List.getElem_mem hi)
  · intro i h1 h2
    cases Q with
    | nil => rw [hd] at h2; simp at h2; omega
    | cons q Q' =>
      have hq := hQ q Q' rfl
      have hlen : d.length = P.length + (Q'.length + 1) := by rw [hd]; simp
      have hget : d[i]? = (q :: Q')[i - P.length]? := by
        rw [hd, List.getElem?_append_right h1]
      simp only [ltAt, hget]
      by_cases h0 : i - P.length = 0
      · rw [h0]; simpa using hq
      · obtain ⟨j, hj⟩ : ∃ j, i - P.length = j + 1 := ⟨i - P.length - 1, by omega⟩
        rw [hj, List.getElem?_cons_succ]
        have hjl : j < Q'.length := by omega
        rw [List.getElem?_eq_getElem hjl]
        exact chain_lexLt_antitone c d lo hi hc P Q' q hd hq _ (List.getElem_mem hjl)

theorem addDeadPy_eq (d : List (Nat × Nat)) (lo hi : Nat) (hc : Chain lo d hi) (start : Nat) :
    addDeadPy d start = addDead d start := by
  unfold addDeadPy addDead
  rw [bisectLeftPy_eq d lo hi hc]
  try rfl

/-! ### slices with a negative step (outside the property statement; characterised all the same) -/

variable {α : Type} [DecidableEq α]
open Spec

/-- `s[a:b:-c]` is NOT Python's list slicing with a negative step: `iter_slice` reverses the iteration
    and then applies `a`, `b` (normalised against `len`) and the step `c` from the front, i.e.
    `s[a:b:-c] == IndexedSet(list(reversed(s))[a:b:c])` - what `tests/test_setutils.py` pins with
    `x[2:4:-1] == IndexedSet([8, 7])`. -/
theorem getSlice_neg_spec (s : ISet α) (h : Inv s) (a b : Option Int) (c : Nat) (hc : 0 < c) :
    ∃ t, s.getSlice a b (some (-(c : Int))) = .ok t ∧ Inv t ∧
      t.toList = pySlice s.toList.reverse a b c := by
  have hlen := h.toInvC.len_eq
  have hiter : s.iterSlice a b (some (-(c : Int)))
      = .ok (islice s.reversed ((normBound s.len a).getD 0) (normBound s.len b) c) := by
    unfold ISet.iterSlice
    have h0 : ¬ (-(c : Int) = 0) := by omega
    have hneg : (-(c : Int) < 0) := by omega
    simp only [h0, if_false]
    have hneg' : (-(c : Int) < 0) ↔ True := by simp; omega
    simp only [hneg', if_true]
    congr 2
    omega
  unfold ISet.getSlice
  rw [hiter]
  simp only
  refine ⟨_, rfl, (ofList_spec _).1, ?_⟩
  rw [islice_eq_pickIdx _ _ _ _ hc, reversed_eq]
  rw [ofList_nodup _ (((List.reverse_perm s.toList).nodup_iff.2 (toList_nodup h.toInvC)).sublist (pickIdx_sublist _ _ _))]
  unfold pySlice
  rw [hlen, List.length_reverse]
  congr 2
  · cases a with
    | none => rfl
    | some v => rw [normBound_eq]; rfl
  · cases b with
    | none => rfl
    | some v => rw [normBound_eq]; rfl

/-! ### indexes at or beyond `len` (outside the property statement: a list raises IndexError there too) -/

/-- `_get_real_index(k)` for `k` at or beyond the number of live items lands at or beyond the end of
    `item_list` -/
theorem realLoop_beyond (l : List (Option α)) : ∀ (d : List (Nat × Nat)) (lo k : Nat),
    Chain lo d l.length → Tombs l d lo → lc l l.length ≤ lc l lo + k → l.length ≤ realLoop (lo + k) d
  | [], lo, k, hc, ht, hk => by
    simp only [realLoop, Chain] at *
    have hlive : ∀ j, lo ≤ j → j < l.length → l[j]? ≠ some none := by
      intro j h1 h2 h3; exact (ht j h1 h2).1 h3 |> (deadAt_nil j).1
    have h1 := lc_all_live l lo l.length hc (Nat.le_refl _) (fun j a b => hlive j a b)
    omega
  | (a, b) :: ds, lo, k, hc, ht, hk => by
    obtain ⟨hloa, hab, hc'⟩ := hc
    have hb := chain_le ds b l.length hc'
    have hlive : ∀ j, lo ≤ j → j < a → l[j]? ≠ some none := by
      intro j h1 h2 h3
      have := (ht j h1 (by omega)).1 h3
      rw [deadAt_cons] at this
      rcases this with h | h
      · simp at h; omega
      · have := chain_deadAt ds b l.length j hc' h; omega
    have hdead : ∀ j, a ≤ j → j < b → l[j]? = some none := by
      intro j h1 h2
      exact (ht j (by omega) (by omega)).2 (by rw [deadAt_cons]; exact Or.inl ⟨h1, h2⟩)
    have hla := lc_all_live l lo a hloa (by omega) hlive
    have hlb := lc_all_dead l a b (by omega) hb hdead
    have hmono := (lc_mono l (p := b) (q := l.length) hb).1
    simp only [realLoop]
    split
    · next hlt => omega
    · next hge =>
      have ht' : Tombs l ds b := by
        intro j h1 h2
        rw [ht j (by omega) h2, deadAt_cons]
        constructor
        · rintro (h | h)
          · simp at h; omega
          · exact h
        · exact Or.inr
      have heq : lo + k + (b - a) = b + (k - (a - lo)) := by omega
      rw [heq]
      exact realLoop_beyond l ds b (k - (a - lo)) hc' ht' (by omega)

/-- `s[k]` with `k ≥ len(s)` raises IndexError, whatever tombstones there are -/
theorem getItem_beyond (s : ISet α) (h : Inv s) (k : Nat) (hk : s.toList.length ≤ k) :
    s.getItem (k : Int) = .error .indexError := by
  have hb := realLoop_beyond s.items s.dead 0 k h.chain h.tombs (by
    rw [lc_zero, lc_length]; simpa [ISet.toList] using hk)
  rw [Nat.zero_add] at hb
  unfold ISet.getItem
  rw [normIndex_nonneg]
  simp only [List.getElem?_eq_none hb]

/-- `s.pop(k)` with `k ≥ len(s)` raises IndexError and the set is unchanged (a `step` keeps the state
    on an error) -/
theorem popAt_beyond (cfg : Cfg) (s : ISet α) (h : Inv s) (k : Nat) (hk : s.toList.length ≤ k) :
    s.popAt cfg (k : Int) = .error .indexError := by
  have hb := realLoop_beyond s.items s.dead 0 k h.chain h.tombs (by
    rw [lc_zero, lc_length]; simpa [ISet.toList] using hk)
  rw [Nat.zero_add] at hb
  have hlen := h.toInvC.len_eq
  unfold ISet.popAt
  have h1 : ¬ ((k : Int) = -1 ∨ (k : Int) = (s.len : Int) - 1) := by omega
  rw [if_neg h1, normIndex_nonneg]
  simp only [List.getElem?_eq_none hb]

end C11
