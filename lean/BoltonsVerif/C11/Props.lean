import BoltonsVerif.C11.Proofs
import BoltonsVerif.C11.Extras
/-
C11 — property theorems for the IndexedSet model (statements, their short derivations from
`Proofs.lean`, and non-vacuity examples; nothing else).

Reading guide.  `ISet` is the model of the anchored state (item_list with tombstones,
item_index_map, dead_indices); `step cfg le` executes one public operation on it and returns the
public result; `Spec.step le` does the same on a plain `List α` of distinct items (`Spec.lean`:
append-if-new, `List.erase`, `List.eraseIdx`, `l[k]`, `List.idxOf`, filters for the set algebra).
`cfg` carries the two compaction thresholds: every theorem holds for ALL threshold values, so no
proof depends on `_COMPACTION_FACTOR` or on the literal 384.  `le` is the order used by `sort`.
Histories are arbitrary lists of operations; `Spec.ValidRun` restricts arguments exactly as the
property statement does (indexes valid for a list of the current length, slice step positive or
omitted, symmetric_difference with one operand).
-/
namespace C11
open Spec
variable {α : Type} [DecidableEq α]

/-- the receiver `IndexedSet(init)` -/
abbrev start (init : List α) : ISet α := ISet.ofList init

/-- `IndexedSet(init)` holds the distinct items of `init` in first-appearance order -/
theorem start_refines (init : List α) : Inv (start init) ∧ (start init).toList = dedup init :=
  ofList_spec init

/-- **representation invariant**: after ANY history (any operations, any arguments, valid or not)
    the three structures agree: live items are distinct, the dict maps exactly each live item to its
    slot, the dead intervals form a sorted disjoint chain inside the item list covering exactly the
    tombstones, and the last slot is live. -/
theorem inv_reachable (cfg : Cfg) (le : α → α → Bool) (init : List α) (ops : List (Op α)) :
    Inv (runState cfg le (start init) ops) :=
  runState_inv cfg le ops _ (start_refines init).1

/-- **refinement**: every observation of every valid history (iteration, len, membership, s[i],
    slices, index, count, reversed, pop results, raised KeyError/IndexError/ValueError, results of
    union/intersection/difference/symmetric_difference/`other - s`, issubset/issuperset/isdisjoint) and
    the final contents equal those of the plain list / set specification. -/
theorem refines_list (cfg : Cfg) (le : α → α → Bool) (init : List α) (ops : List (Op α))
    (hv : ValidRun le (dedup init) ops) :
    runOuts cfg le (start init) ops = Spec.runOuts le (dedup init) ops ∧
      (runState cfg le (start init) ops).toList = Spec.runState le (dedup init) ops := by
  have h := start_refines init
  rw [← h.2] at hv ⊢
  exact run_refines cfg le ops _ h.1 hv

/-- one step, from any state satisfying the invariant (the inductive core of `refines_list`) -/
theorem step_refines_list (cfg : Cfg) (le : α → α → Bool) (s : ISet α) (h : Inv s) (op : Op α)
    (hv : ValidOp s.toList op) :
    Inv (step cfg le s op).1 ∧ (step cfg le s op).1.toList = (Spec.step le s.toList op).1 ∧
      (step cfg le s op).2 = (Spec.step le s.toList op).2 :=
  step_refines cfg le s h op hv

/-! ### the list view, clause by clause (for any reachable state `s`) -/

/-- index translation is list indexing: `_get_real_index(k)` is the slot of the `k`-th item -/
theorem real_index_is_list_index (s : ISet α) (h : Inv s) (k : Nat) (hk : k < s.toList.length) :
    s.items[realLoop k s.dead]? = some (some s.toList[k]) :=
  slot_of_index s h.toInvC k hk

/-- ... and `_get_apparent_index` is its inverse: the slot of item `x` maps back to `x`'s position -/
theorem apparent_index_is_list_position (s : ISet α) (h : Inv s) (r : Nat) (x : α)
    (hr : s.items[r]? = some (some x)) : appLoop r r s.dead = s.toList.idxOf x :=
  index_of_slot s h.toInvC r x hr

/-- `len(s)` and `x in s` -/
theorem len_and_membership (s : ISet α) (h : Inv s) :
    s.len = s.toList.length ∧ ∀ x, (s.contains x = true ↔ x ∈ s.toList) :=
  ⟨h.toInvC.len_eq, h.toInvC.contains_iff⟩

/-- iteration yields distinct items; `reversed()` is the reverse iteration; `count` is 0 or 1 -/
theorem iteration_views (s : ISet α) (h : Inv s) :
    s.toList.Nodup ∧ s.reversed = s.toList.reverse ∧ ∀ x, s.count x = s.toList.count x := by
  refine ⟨toList_nodup h.toInvC, reversed_eq s, fun x => ?_⟩
  have := (step_refines cfg0 (fun _ _ => true) s h (.count x) trivial).2.2
  simpa [step, Spec.step] using this
where cfg0 : Cfg := ⟨8, 384⟩

/-- `s[i]` for every valid index, negative included -/
theorem getitem_valid (s : ISet α) (h : Inv s) (k : Nat) (hk : k < s.toList.length) :
    s.getItem (k : Int) = .ok s.toList[k] ∧
      s.getItem ((k : Int) - (s.toList.length : Int)) = .ok s.toList[k] :=
  ⟨getItem_spec s h k hk _ (Or.inl rfl), getItem_spec s h k hk _ (Or.inr rfl)⟩

/-- `s[a:b:c]` with a positive step is Python list slicing of the iteration -/
theorem slice_positive_step (s : ISet α) (h : Inv s) (a b : Option Int) (c : Nat) (hc : 0 < c) :
    ∃ t, s.getSlice a b (some (c : Int)) = .ok t ∧ Inv t ∧ t.toList = pySlice s.toList a b c :=
  getSlice_spec s h a b c hc _ (Or.inr rfl)

/-- `s[a:b]` (step omitted) -/
theorem slice_no_step (s : ISet α) (h : Inv s) (a b : Option Int) :
    ∃ t, s.getSlice a b none = .ok t ∧ Inv t ∧ t.toList = pySlice s.toList a b 1 :=
  getSlice_spec s h a b 1 (by omega) _ (Or.inl ⟨rfl, rfl⟩)

/-- `index(x)` is the list position, ValueError when absent -/
theorem index_is_list_index (s : ISet α) (h : Inv s) (x : α) :
    (x ∈ s.toList → s.index x = .ok (s.toList.idxOf x)) ∧
    (x ∉ s.toList → s.index x = .error .valueError) :=
  index_spec s h x

/-- `pop(i)` for every valid index returns `l[i]` and leaves `l` without position `i` -/
theorem pop_index_valid (cfg : Cfg) (s : ISet α) (h : Inv s) (k : Nat) (hk : k < s.toList.length) (i : Int)
    (hi : i = (k : Int) ∨ i = (k : Int) - (s.toList.length : Int)) :
    ∃ s', s.popAt cfg i = .ok (s', s.toList[k]) ∧ Inv s' ∧ s'.toList = s.toList.eraseIdx k :=
  popAt_spec cfg s h k hk i hi

/-- `remove(x)`: the item disappears from its position, everything else keeps its order; KeyError when absent -/
theorem remove_is_list_remove (cfg : Cfg) (s : ISet α) (h : Inv s) (x : α) :
    (x ∈ s.toList → ∃ s', s.remove cfg x = .ok s' ∧ Inv s' ∧ s'.toList = s.toList.erase x) ∧
    (x ∉ s.toList → s.remove cfg x = .error .keyError) :=
  remove_spec cfg s h x

/-- `add(x)` appends when `x` is new and changes nothing otherwise; `discard(x)` never raises -/
theorem add_discard (cfg : Cfg) (s : ISet α) (h : Inv s) (x : α) :
    (s.add x).toList = (if x ∈ s.toList then s.toList else s.toList ++ [x]) ∧
      (s.discard cfg x).toList = s.toList.erase x :=
  ⟨toList_add s h.toInvC x, (discard_spec cfg s h x).2⟩

/-- `pop()` returns the last item and drops it; IndexError on an empty set -/
theorem pop_default (cfg : Cfg) (s : ISet α) (h : Inv s) :
    (∀ hne : s.toList ≠ [], ∃ s', s.popLast cfg = .ok (s', s.toList.getLast hne) ∧ Inv s' ∧
        s'.toList = s.toList.dropLast) ∧
    (s.toList = [] → s.popLast cfg = .error .indexError) :=
  popLast_spec cfg s h

/-- compaction and culling never change what the set contains (whatever the thresholds) -/
theorem cull_is_invisible (cfg : Cfg) (s : ISet α) (h : InvC s) :
    Inv (cull cfg s) ∧ (cull cfg s).toList = s.toList :=
  cull_spec cfg s h

/-- `sort` / `reverse` / `clear` -/
theorem sort_reverse_clear (le : α → α → Bool) (rev : Bool) (s : ISet α) (h : Inv s) :
    (s.sort le rev).toList = ISet.sortedList le rev s.toList ∧ s.reverse.toList = s.toList.reverse ∧
      s.clear.toList = [] :=
  ⟨(sort_spec le rev s h).2, (reverse_spec s h).2, rfl⟩

/-- `sort(key=…, reverse=…)` with any comparison `lek`; `bad` = the items whose comparison raises.
    A sort that raises (a live item of `bad` and at least two items) reports the error and leaves
    the set exactly as it was - same structures, hence the same iteration, `s[i]`, `index`, ... as
    before, all still those of ONE list; a sort that does not raise is the stable sort of the list. -/
theorem sort_failure_atomic (cfg : Cfg) (le lek : α → α → Bool) (rev : Bool) (bad : List α) (s : ISet α)
    (h : Inv s) :
    ((2 ≤ s.toList.length ∧ ∃ x ∈ s.toList, x ∈ bad) →
        step cfg le s (.sortBy lek rev bad) = (s, .err .cmpError)) ∧
    (¬ (2 ≤ s.toList.length ∧ ∃ x ∈ s.toList, x ∈ bad) →
        (step cfg le s (.sortBy lek rev bad)).2 = .unit ∧ Inv (step cfg le s (.sortBy lek rev bad)).1 ∧
        (step cfg le s (.sortBy lek rev bad)).1.toList = ISet.sortedList lek rev s.toList) := by
  have hc : s.sortRaises bad = true ↔ (2 ≤ s.toList.length ∧ ∃ x ∈ s.toList, x ∈ bad) := by
    simp [ISet.sortRaises, h.toInvC.len_eq]
  constructor
  · intro hb
    simp [step, ISet.sortBy, hc.2 hb]
  · intro hb
    have hb' : s.sortRaises bad = false := by
      cases hs : s.sortRaises bad
      · rfl
      · exact absurd (hc.1 hs) hb
    have := sort_spec lek rev s h
    simp [step, ISet.sortBy, hb', this.1, this.2]

/-! ### the set view: results contain exactly what Python sets would, ordered by first appearance -/

/-- union (any number of operands; also `update`, `|`, `|=`): the receiver's items in order, then
    the operands' new distinct items in order of first appearance; no duplicates; membership = ∪ -/
theorem union_exact (s : ISet α) (h : Inv s) (os : List (Operand α)) :
    (s.union os).toList = s.toList ++ (dedup (os.flatMap (opItems s.toList))).filter (notIn s.toList) ∧
    (s.union os).toList.Nodup ∧
    ∀ x, x ∈ (s.union os).toList ↔ x ∈ s.toList ∨ ∃ o ∈ os, x ∈ opItems s.toList o := by
  have hu := (union_spec s h os).2
  refine ⟨by rw [hu, addAll_eq], by rw [hu]; exact nodup_addAll _ _ (toList_nodup h.toInvC), fun x => ?_⟩
  rw [hu, mem_addAll]; simp [List.mem_flatMap]

/-- intersection (any number of operands; also `intersection_update`, `&`, `&=`): exactly the
    receiver's items that are in every operand, in the receiver's order -/
theorem intersection_exact (cfg : Cfg) (s : ISet α) (h : Inv s) (os : List (Operand α)) :
    (s.inter os).toList = s.toList.filter (Spec.inAll s.toList os) ∧
    (s.interUpdate cfg os).toList = s.toList.filter (Spec.inAll s.toList os) ∧
    ∀ x, x ∈ (s.inter os).toList ↔ x ∈ s.toList ∧ ∀ o ∈ os, x ∈ opItems s.toList o := by
  refine ⟨(inter_spec s h os).2, (interUpdate_spec cfg s h os).2, fun x => ?_⟩
  rw [(inter_spec s h os).2]; simp [Spec.inAll, memOp]

/-- difference (any number of operands; also `difference_update`, `-`, `-=`): exactly the
    receiver's items that are in no operand, in the receiver's order -/
theorem difference_exact (cfg : Cfg) (s : ISet α) (h : Inv s) (os : List (Operand α)) :
    (s.diff os).toList = s.toList.filter (Spec.inNone s.toList os) ∧
    (s.diffUpdate cfg os).toList = s.toList.filter (Spec.inNone s.toList os) ∧
    ∀ x, x ∈ (s.diff os).toList ↔ x ∈ s.toList ∧ ∀ o ∈ os, x ∉ opItems s.toList o := by
  refine ⟨(diff_spec s h os).2, (diffUpdate_spec cfg s h os).2, fun x => ?_⟩
  rw [(diff_spec s h os).2]; simp [Spec.inNone, memOp]

/-- symmetric difference with one operand (also `symmetric_difference_update`, `^`, `^=`): the
    receiver's items not in the operand, then the operand's distinct items not in the receiver;
    membership = exclusive or -/
theorem symmetric_difference_exact (cfg : Cfg) (s : ISet α) (h : Inv s) (o : Operand α) :
    (s.symdiff [o]).toList = symdiff1 s.toList o ∧ (s.symUpdate cfg o).toList = symdiff1 s.toList o ∧
    ∀ x, x ∈ symdiff1 s.toList o ↔ (x ∈ s.toList ∧ x ∉ opItems s.toList o) ∨
                                     (x ∈ opItems s.toList o ∧ x ∉ s.toList) := by
  refine ⟨(symdiff_spec s h o).2, (symUpdate_spec cfg s h o).2, fun x => ?_⟩
  simp [symdiff1, mem_dedup]

/-- `update` with any number of operands = union in place -/
theorem update_exact (s : ISet α) (h : Inv s) (os : List (Operand α)) :
    (s.update os).toList = (s.union os).toList := by
  rw [(update_spec s h os).2, (union_spec s h os).2]

/-- issubset / issuperset / isdisjoint report exactly the set-theoretic facts -/
theorem predicates_exact (s : ISet α) (h : Inv s) (o : Operand α) :
    (s.issubset o = true ↔ ∀ x ∈ s.toList, x ∈ opItems s.toList o) ∧
    (s.issuperset o = true ↔ ∀ x ∈ opItems s.toList o, x ∈ s.toList) ∧
    (s.isdisjoint o = true ↔ ∀ x ∈ opItems s.toList o, x ∉ s.toList) := by
  rw [issubset_spec s h o, issuperset_spec s h o, isdisjoint_spec s h o]
  simp [memOp, List.all_eq_true]

/-- `other - s` keeps exactly the operand's items that are not in the receiver -/
theorem rsub_exact (s : ISet α) (h : Inv s) (o : Operand α) :
    ∀ x, x ∈ s.rsub o ↔ x ∈ opItems s.toList o ∧ x ∉ s.toList := by
  intro x; rw [rsub_spec s h o]; simp

/-! ### several sets at once: results and IndexedSet operands are sets of their own -/

/-- the receiver alone in register 0 -/
abbrev mstart (init : List α) : Mach α := ⟨[start init], 0⟩
abbrev mstartSpec (init : List α) : SMach α := ⟨[dedup init], 0⟩

/-- **refinement for any number of sets**: in every valid history over a register file - operations
    on whichever set is selected, results of union / intersection / difference / symmetric_difference /
    slicing kept as further sets and worked on later, operands taken from the other sets - every
    observation equals that of independent plain lists, one per set. -/
theorem machine_refines (cfg : Cfg) (le : α → α → Bool) (init : List α) (ops : List (MOp α))
    (hv : MValidRun le (mstartSpec init) ops) :
    mrunOuts cfg le (mstart init) ops = Spec.mrunOuts le (mstartSpec init) ops ∧
      (mrunState cfg le (mstart init) ops).views = (Spec.mrunState le (mstartSpec init) ops).regs ∧
      (mrunState cfg le (mstart init) ops).cur = (Spec.mrunState le (mstartSpec init) ops).cur := by
  have h0 : MRel (mstart init) (mstartSpec init) :=
    ⟨rfl, by simp, by simp [Mach.views, (start_refines init).2], by simp [(start_refines init).1]⟩
  have := mrun_refines cfg le ops _ _ h0 hv
  exact ⟨this.1, this.2.views, this.2.cur⟩

/-- every set of the register file satisfies the representation invariant after ANY history -/
theorem machine_inv (cfg : Cfg) (le : α → α → Bool) (init : List α) (ops : List (MOp α)) :
    ∀ s ∈ (mrunState cfg le (mstart init) ops).regs, Inv s :=
  mrunState_inv cfg le ops _ (by simp [(start_refines init).1]) (by simp)

/-- an operation on one set leaves every other set untouched (not only its iteration: its three
    structures), so nothing done to a result can be seen through the set it came from, or vice versa -/
theorem other_sets_untouched (cfg : Cfg) (le : α → α → Bool) (m : Mach α) (op : MOp α) (j : Nat)
    (hj : j < m.regs.length) (hne : j ≠ m.cur) : (mstep cfg le m op).1.regs[j]? = m.regs[j]? :=
  mstep_frame cfg le m op j hj hne


/-! ### round 3: formerly trusted / outside-the-model items -/

/-- **`bisect_left` is no longer an assumption**: in every state satisfying the invariant, the binary
    search of `Lib/bisect.py` (`bisectLeftPy`: `while lo < hi: mid = (lo+hi)//2; if a[mid] < x: lo = mid+1
    else: hi = mid`) run on `dead_indices` returns exactly what the model's `bisectLeft` abstracts it to,
    for every candidate interval; hence `_add_dead` written with the real search (`addDeadPy`) is the
    model's `addDead`. -/
theorem bisect_left_is_binary_search (s : ISet α) (h : Inv s) :
    (∀ c, bisectLeftPy s.dead c = bisectLeft s.dead c) ∧
    (∀ start, addDeadPy s.dead start = addDead s.dead start) :=
  ⟨fun c => bisectLeftPy_eq s.dead 0 _ h.chain c, fun st => addDeadPy_eq s.dead 0 _ h.chain st⟩

/-- ... and so it is after ANY history -/
theorem bisect_left_reachable (cfg : Cfg) (le : α → α → Bool) (init : List α) (ops : List (Op α)) (c : Nat × Nat) :
    bisectLeftPy (runState cfg le (start init) ops).dead c = bisectLeft (runState cfg le (start init) ops).dead c :=
  (bisect_left_is_binary_search _ (inv_reachable cfg le init ops)).1 c

/-- `s[a:b:-c]` (outside the statement, which speaks of positive steps): NOT list slicing with a negative
    step but `IndexedSet(list(reversed(s))[a:b:c])` - bounds and step applied to the reversed iteration
    from its front; this is what the test-suite pins (`x[2:4:-1] == IndexedSet([8, 7])`). -/
theorem slice_negative_step (s : ISet α) (h : Inv s) (a b : Option Int) (c : Nat) (hc : 0 < c) :
    ∃ t, s.getSlice a b (some (-(c : Int))) = .ok t ∧ Inv t ∧ t.toList = pySlice s.toList.reverse a b c :=
  getSlice_neg_spec s h a b c hc

/-- `s[k]` and `s.pop(k)` for `k ≥ len(s)` raise IndexError as a list does, whatever the tombstones
    (outside the statement, which speaks of valid indexes) -/
theorem index_beyond_len_raises (cfg : Cfg) (s : ISet α) (h : Inv s) (k : Nat) (hk : s.toList.length ≤ k) :
    s.getItem (k : Int) = .error .indexError ∧ s.popAt cfg (k : Int) = .error .indexError :=
  ⟨getItem_beyond s h k hk, popAt_beyond cfg s h k hk⟩

/-- **the thresholds bound the garbage**: after ANY history (any arguments, valid or not) the dead-interval
    table has at most `limit` (384) entries and the tombstones are at most a `1/factor` (1/8) share of the
    slots of `item_list` - for every value of the two thresholds.  (This is what keeps index translation
    cheap; the statement does not ask for it, the anchored mechanism "culled and compacted at thresholds" does.) -/
theorem garbage_bounded (cfg : Cfg) (le : α → α → Bool) (init : List α) (ops : List (Op α)) :
    (runState cfg le (start init) ops).dead.length ≤ cfg.limit ∧
    ((runState cfg le (start init) ops).items.length - (runState cfg le (start init) ops).idx.length) * cfg.factor
      ≤ (runState cfg le (start init) ops).items.length :=
  runState_bounded cfg le ops _ (start_refines init).1
    (foldl_add_bounded cfg init _ inv_empty (bounded_noDead cfg _ inv_empty.toInvC rfl))

/-- ... and with any number of live sets, for each of them -/
theorem machine_garbage_bounded (cfg : Cfg) (le : α → α → Bool) (init : List α) (ops : List (MOp α)) :
    ∀ s ∈ (mrunState cfg le (mstart init) ops).regs,
      s.dead.length ≤ cfg.limit ∧ (s.items.length - s.idx.length) * cfg.factor ≤ s.items.length :=
  mrunState_bounded cfg le ops _ (by simp [(start_refines init).1])
    (by simp only [List.mem_singleton, forall_eq]; exact ofList_bounded cfg init) (by simp)

/-- one step: `_cull` restores both bounds whatever it is handed -/
theorem cull_restores_bounds (cfg : Cfg) (s : ISet α) (h : InvC s) :
    (cull cfg s).dead.length ≤ cfg.limit ∧
    ((cull cfg s).items.length - (cull cfg s).idx.length) * cfg.factor ≤ (cull cfg s).items.length :=
  cull_bounded cfg s (cull_spec cfg s h).1.toInvC

/-! ### non-vacuity: concrete states and histories that satisfy the hypotheses -/

def natLe (a b : Nat) : Bool := a ≤ b
def cfgReal : Cfg := ⟨8, 384⟩

/-- a reachable state with a tombstone and a dead interval: 10 items, item 3 removed -/
example : (runState cfgReal natLe (start (List.range 10)) [.remove 3]).dead = [(3, 4)] ∧
    (runState cfgReal natLe (start (List.range 10)) [.remove 3]).items.length = 10 := by decide

/-- two adjacent unmerged intervals (the case the invariant has to tolerate) -/
example : (runState cfgReal natLe (start (List.range 40)) [.remove 0, .remove 5, .remove 4]).dead
    = [(0, 1), (4, 5), (5, 6)] := by decide +kernel

/-- index translation through them: s[3] is item 6; s[-1] is 39; index(6) = 3 -/
example : runOuts cfgReal natLe (start (List.range 40))
    [.remove 0, .remove 5, .remove 4, .get 3, .get (-1), .index 6, .slice (some 2) (some 5) none]
    = [.unit, .unit, .unit, .item 6, .item 39, .nat 3, .list [3, 6, 7]] := by decide +kernel

/-- a valid history in the sense of `refines_list` -/
example : ValidRun natLe (dedup (List.range 5))
    [Op.remove 1, .popAt (-2), .get 2, .slice none (some (-1)) (some 2), .symdiff [⟨.coll, [7, 0, 7]⟩]] := by
  simp [ValidRun, ValidOp, pyIndex, Spec.step, dedup, addAll, specAdd, List.range, List.range.loop]

/-- a sort that raises: items 0..5 without 2, the key of item 4 cannot be compared -/
example : runOuts cfgReal natLe (start (List.range 6))
      [.remove 2, .sortBy (fun a b => natLe b a) false [4], .iter, .get 2, .index 5]
    = [.unit, .err .cmpError, .list [0, 1, 3, 4, 5], .item 3, .nat 4] := by decide +kernel

/-- a valid machine history: the union of a set with a dead run is kept, the item after the run is
    removed from the result, and the receiver still indexes as before (the `fork` builds its operand
    from register 0's own iteration) -/
example : mrunOuts cfgReal natLe (mstart (List.range 40))
      [.run fun _ => .remove 10, .fork fun vs => .union [⟨.iset, (vs[0]?.getD []).take 2 ++ [100]⟩], .sel 1,
       .run fun _ => .remove 11, .run fun _ => .get 10, .sel 0, .run fun _ => .get 10, .run fun _ => .index 12]
    = [.unit, .list ((List.range 40).erase 10 ++ [100]), .unit, .unit, .item 12, .unit, .item 11, .nat 11] := by
  decide +kernel

example : MValidRun natLe (mstartSpec (List.range 4))
      [.run fun _ => .remove 1, .fork fun vs => .union [⟨.iset, vs[0]?.getD []⟩], .sel 1, .run fun _ => .get (-1)] := by
  simp [MValidRun, MValidOp, ValidOp, pyIndex, Spec.mstep, Spec.step, SMach.curList, dedup, addAll, specAdd,
    List.range, List.range.loop, resultList, opItems]

/-- the set algebra on a concrete case: {0,1,2,3} ^ [7,0,7] = [1,2,3,7] -/
example : (ISet.symdiff (start [0, 1, 2, 3]) [⟨.coll, [7, 0, 7]⟩]).toList = [1, 2, 3, 7] := by decide

/-- the binary search on a reachable interval table with three runs, against the abstraction -/
example : bisectLeftPy [(0, 1), (4, 5), (5, 6)] (5, 6) = 2 ∧ bisectLeft [(0, 1), (4, 5), (5, 6)] (5, 6) = 2 ∧
    bisectLeftPy [(0, 1), (4, 5), (5, 6)] (2, 3) = 1 ∧ Chain 0 [(0, 1), (4, 5), (5, 6)] 40 := by
  refine ⟨by decide, by decide, by decide, by simp [Chain]⟩

/-- on an UNSORTED table the binary search and the abstraction differ: the hypothesis is needed -/
example : bisectLeftPy [(7, 8), (0, 1), (3, 4)] (5, 6) ≠ bisectLeft [(7, 8), (0, 1), (3, 4)] (5, 6) := by decide

/-- a negative step: range(10) without 3, `s[2:4:-1]` = [7, 6] (= reversed [9,8,7,6,...][2:4]); a plain
    list gives `[]` for `l[2:4:-1]` - the two notions differ, which is why the statement excludes it -/
example : runOuts cfgReal natLe (start (List.range 10)) [.remove 3, .slice (some 2) (some 4) (some (-1))]
    = [.unit, .list [7, 6]] := by decide +kernel

/-- beyond the end with a tombstone inside: 9 live items in 10 slots, `s[9]` and `pop(9)` raise -/
example : runOuts cfgReal natLe (start (List.range 10)) [.remove 3, .get 9, .popAt 9, .get 8]
    = [.unit, .err .indexError, .err .indexError, .item 9] := by decide +kernel

/-- the threshold at work: 16 items, two removals leave 2 tombstones in 16 slots (2*8 = 16, not above),
    the third one (3*8 > 16) compacts: 13 slots, no interval -/
example : (runState cfgReal natLe (start (List.range 16)) [.remove 0, .remove 1]).items.length = 16 ∧
    (runState cfgReal natLe (start (List.range 16)) [.remove 0, .remove 1]).dead = [(0, 2)] ∧
    (runState cfgReal natLe (start (List.range 16)) [.remove 0, .remove 1, .remove 2]).items.length = 13 ∧
    (runState cfgReal natLe (start (List.range 16)) [.remove 0, .remove 1, .remove 2]).dead = [] := by
  decide +kernel

end C11
