import BoltonsVerif.C11.Model
import BoltonsVerif.C11.Spec
/-
C11 — helper lemmas: the association-list dict, live counts, dead-interval chains,
index translation, `_add_dead`, `_cull`/`_compact`, the representation invariant `Inv`
and its preservation by every mutator, and the abstraction `toList`.
-/
set_option linter.unusedSectionVars false
set_option linter.unusedSimpArgs false
set_option linter.unusedVariables false
namespace C11
variable {α : Type} [DecidableEq α]
namespace IMap

@[simp] theorem keys_nil : keys ([] : IMap α) = [] := rfl
@[simp] theorem keys_cons (k : α) (w : Nat) (m : IMap α) : keys ((k, w) :: m) = k :: keys m := rfl

theorem lookup_set (m : IMap α) (x y : α) (v : Nat) :
    lookup (set m x v) y = if x = y then some v else lookup m y := by
  induction m with
  | nil => simp [set, lookup]
  | cons p m ih => obtain ⟨k, w⟩ := p; grind [set, lookup]

theorem lookup_erase_ne (m : IMap α) (x y : α) (h : x ≠ y) :
    lookup (erase m x) y = lookup m y := by
  induction m with
  | nil => simp [erase]
  | cons p m ih => obtain ⟨k, w⟩ := p; grind [erase, lookup]

theorem lookup_isSome_iff (m : IMap α) (x : α) : (lookup m x).isSome ↔ x ∈ keys m := by
  induction m with
  | nil => simp [lookup]
  | cons p m ih => obtain ⟨k, w⟩ := p; grind [lookup, keys_cons]

theorem lookup_eq_none_iff (m : IMap α) (x : α) : lookup m x = none ↔ x ∉ keys m := by
  rw [← lookup_isSome_iff]; cases lookup m x <;> simp

theorem lookup_erase_self (m : IMap α) (x : α) (h : (keys m).Nodup) : lookup (erase m x) x = none := by
  induction m with
  | nil => simp [erase, lookup]
  | cons p m ih =>
    obtain ⟨k, w⟩ := p
    simp only [keys_cons, List.nodup_cons] at h
    by_cases hk : k = x
    · subst hk; simp only [erase, if_true]
      rw [lookup_eq_none_iff]; exact h.1
    · simp only [erase, hk, if_false, lookup]; exact ih h.2

theorem keys_erase (m : IMap α) (x : α) : keys (erase m x) = (keys m).erase x := by
  induction m with
  | nil => simp [erase]
  | cons p m ih => obtain ⟨k, w⟩ := p; grind [erase, keys_cons]

theorem keys_set_mem (m : IMap α) (x : α) (v : Nat) (h : x ∈ keys m) : keys (set m x v) = keys m := by
  induction m with
  | nil => simp at h
  | cons p m ih => obtain ⟨k, w⟩ := p; grind [set, keys_cons]

theorem keys_set_not_mem (m : IMap α) (x : α) (v : Nat) (h : x ∉ keys m) :
    keys (set m x v) = keys m ++ [x] := by
  induction m with
  | nil => simp [set]
  | cons p m ih => obtain ⟨k, w⟩ := p; grind [set, keys_cons]

theorem length_keys (m : IMap α) : (keys m).length = m.length := by simp [keys]

end IMap

/-! ## B. live items and live counts -/

@[simp] theorem live_nil : live ([] : List (Option α)) = [] := rfl
@[simp] theorem live_cons_some (x : α) (l : List (Option α)) : live (some x :: l) = x :: live l := by
  simp [live]
@[simp] theorem live_cons_none (l : List (Option α)) : live (none :: l) = live l := by
  simp [live]
theorem live_append (l l' : List (Option α)) : live (l ++ l') = live l ++ live l' := by
  simp [live, List.filterMap_append]
theorem live_map_some (l : List α) : live (l.map some) = l := by
  induction l with
  | nil => rfl
  | cons x l ih => simp [ih]
theorem live_reverse (l : List (Option α)) : live l.reverse = (live l).reverse := by
  simp [live, List.filterMap_reverse]
theorem mem_live (l : List (Option α)) (x : α) : x ∈ live l ↔ some x ∈ l := by
  simp [live]

/-- number of live slots strictly below position `r` -/
def lc (l : List (Option α)) (r : Nat) : Nat := (live (l.take r)).length

@[simp] theorem lc_zero (l : List (Option α)) : lc l 0 = 0 := by simp [lc]

theorem lc_succ (l : List (Option α)) (r : Nat) (h : r < l.length) :
    lc l (r + 1) = lc l r + (if l[r] = none then 0 else 1) := by
  unfold lc
  rw [List.take_succ_eq_append_getElem h, live_append]
  cases hr : l[r] <;> simp [live]

theorem lc_length (l : List (Option α)) : lc l l.length = (live l).length := by simp [lc]

theorem lc_ge_length (l : List (Option α)) (r : Nat) (h : l.length ≤ r) : lc l r = (live l).length := by
  simp [lc, List.take_of_length_le h]

theorem lc_step_le (l : List (Option α)) (r : Nat) : lc l r ≤ lc l (r + 1) ∧ lc l (r + 1) ≤ lc l r + 1 := by
  by_cases h : r < l.length
  · rw [lc_succ l r h]; split <;> omega
  · rw [lc_ge_length l r (by omega), lc_ge_length l (r + 1) (by omega)]; omega

theorem lc_mono (l : List (Option α)) {p q : Nat} (h : p ≤ q) : lc l p ≤ lc l q ∧ lc l q - lc l p ≤ q - p := by
  induction q with
  | zero => have : p = 0 := by omega
            subst this; simp
  | succ q ih =>
    by_cases hp : p = q + 1
    · subst hp; simp
    · have := ih (by omega); have := lc_step_le l q; omega

/-- a stretch of live slots adds its length -/
theorem lc_all_live (l : List (Option α)) (p q : Nat) (hpq : p ≤ q) (hq : q ≤ l.length)
    (h : ∀ j, p ≤ j → j < q → l[j]? ≠ some none) : lc l q = lc l p + (q - p) := by
  induction q with
  | zero => have : p = 0 := by omega
            subst this; simp
  | succ q ih =>
    by_cases hp : p = q + 1
    · subst hp; simp
    · have h1 := ih (by omega) (by omega) (fun j a b => h j a (by omega))
      have hq' : q < l.length := by omega
      rw [lc_succ l q hq', h1]
      have := h q (by omega) (by omega)
      rw [List.getElem?_eq_getElem hq'] at this
      have : l[q] ≠ none := fun e => this (by rw [e])
      simp [this]; omega

/-- a stretch of tombstones adds nothing -/
theorem lc_all_dead (l : List (Option α)) (p q : Nat) (hpq : p ≤ q) (hq : q ≤ l.length)
    (h : ∀ j, p ≤ j → j < q → l[j]? = some none) : lc l q = lc l p := by
  induction q with
  | zero => have : p = 0 := by omega
            subst this; simp
  | succ q ih =>
    by_cases hp : p = q + 1
    · subst hp; simp
    · have h1 := ih (by omega) (by omega) (fun j a b => h j a (by omega))
      have hq' : q < l.length := by omega
      rw [lc_succ l q hq', h1]
      have := h q (by omega) (by omega)
      rw [List.getElem?_eq_getElem hq'] at this
      have : l[q] = none := by simpa using this
      simp [this]

/-- the item in a live slot `r` is the `lc r`-th item of the iteration -/
theorem live_getElem_lc (l : List (Option α)) (r : Nat) (x : α) (h : l[r]? = some (some x)) :
    (live l)[lc l r]? = some x := by
  have hr : r < l.length := by
    rcases Nat.lt_or_ge r l.length with h' | h'
    · exact h'
    · rw [List.getElem?_eq_none h'] at h; cases h
  have hsplit : l = l.take r ++ (some x :: l.drop (r + 1)) := by
    rw [List.getElem?_eq_getElem hr] at h
    have : l[r] = some x := by simpa using h
    rw [← this, ← List.drop_eq_getElem_cons hr, List.take_append_drop]
  have hl : live l = live (l.take r) ++ x :: live (l.drop (r + 1)) := by
    conv => lhs; rw [hsplit]
    rw [live_append, live_cons_some]
  rw [hl]
  unfold lc
  rw [List.getElem?_append_right (Nat.le_refl _)]
  simp

/-! ## C. dead-interval chains and index translation -/

/-- position `j` lies in one of the intervals -/
def DeadAt (d : List (Nat × Nat)) (j : Nat) : Prop := ∃ p ∈ d, p.1 ≤ j ∧ j < p.2

/-- the intervals are non-empty, ordered, disjoint (adjacency allowed) and lie within `[lo, hi]` -/
def Chain : Nat → List (Nat × Nat) → Nat → Prop
  | lo, [], hi => lo ≤ hi
  | lo, (a, b) :: ds, hi => lo ≤ a ∧ a < b ∧ Chain b ds hi

/-- from position `lo` on, the tombstones are exactly the positions covered by the intervals -/
def Tombs (l : List (Option α)) (d : List (Nat × Nat)) (lo : Nat) : Prop :=
  ∀ j, lo ≤ j → j < l.length → (l[j]? = some none ↔ DeadAt d j)

@[simp] theorem deadAt_nil (j : Nat) : DeadAt [] j ↔ False := by simp [DeadAt]
@[simp] theorem deadAt_cons (p : Nat × Nat) (d : List (Nat × Nat)) (j : Nat) :
    DeadAt (p :: d) j ↔ (p.1 ≤ j ∧ j < p.2) ∨ DeadAt d j := by simp [DeadAt]
@[simp] theorem deadAt_append (d d' : List (Nat × Nat)) (j : Nat) :
    DeadAt (d ++ d') j ↔ DeadAt d j ∨ DeadAt d' j := by
  simp only [DeadAt, List.mem_append]
  constructor
  · rintro ⟨p, hp | hp, h⟩
    · exact Or.inl ⟨p, hp, h⟩
    · exact Or.inr ⟨p, hp, h⟩
  · rintro (⟨p, hp, h⟩ | ⟨p, hp, h⟩)
    · exact ⟨p, Or.inl hp, h⟩
    · exact ⟨p, Or.inr hp, h⟩

theorem chain_le : ∀ (d : List (Nat × Nat)) (lo hi : Nat), Chain lo d hi → lo ≤ hi
  | [], lo, hi, h => h
  | (a, b) :: ds, lo, hi, h => by
    have := chain_le ds b hi h.2.2
    have := h.1; have := h.2.1; omega

theorem chain_weaken_lo : ∀ (d : List (Nat × Nat)) (lo lo' hi : Nat), lo' ≤ lo → Chain lo d hi → Chain lo' d hi
  | [], lo, lo', hi, h, hc => by simp only [Chain] at hc ⊢; omega
  | (a, b) :: ds, lo, lo', hi, h, hc => ⟨by have := hc.1; omega, hc.2.1, hc.2.2⟩

theorem chain_weaken_hi : ∀ (d : List (Nat × Nat)) (lo hi hi' : Nat), hi ≤ hi' → Chain lo d hi → Chain lo d hi'
  | [], lo, hi, hi', h, hc => by simp only [Chain] at hc ⊢; omega
  | (a, b) :: ds, lo, hi, hi', h, hc => ⟨hc.1, hc.2.1, chain_weaken_hi ds b hi hi' h hc.2.2⟩

/-- everything covered by a chain lies within its bounds -/
theorem chain_deadAt : ∀ (d : List (Nat × Nat)) (lo hi j : Nat), Chain lo d hi → DeadAt d j → lo ≤ j ∧ j < hi
  | [], lo, hi, j, _, h => by simp at h
  | (a, b) :: ds, lo, hi, j, hc, h => by
    rw [deadAt_cons] at h
    have hb := chain_le ds b hi hc.2.2
    rcases h with h | h
    · have := hc.1; simp at h; omega
    · have := chain_deadAt ds b hi j hc.2.2 h
      have := hc.1; have := hc.2.1; omega

theorem chain_append : ∀ (p q : List (Nat × Nat)) (lo hi : Nat),
    Chain lo (p ++ q) hi ↔ ∃ m, Chain lo p m ∧ Chain m q hi
  | [], q, lo, hi => by
    simp only [List.nil_append, Chain]
    constructor
    · intro h; exact ⟨lo, Nat.le_refl _, h⟩
    · rintro ⟨m, h1, h2⟩; exact chain_weaken_lo q m lo hi h1 h2
  | (a, b) :: p, q, lo, hi => by
    simp only [List.cons_append, Chain]
    rw [chain_append p q b hi]
    constructor
    · rintro ⟨h1, h2, m, h3, h4⟩; exact ⟨m, ⟨h1, h2, h3⟩, h4⟩
    · rintro ⟨m, ⟨h1, h2, h3⟩, h4⟩; exact ⟨h1, h2, m, h3, h4⟩

theorem realLoop_ge : ∀ (d : List (Nat × Nat)) (r : Nat), r ≤ realLoop r d
  | [], r => by simp [realLoop]
  | (a, b) :: ds, r => by
    simp only [realLoop]; split
    · omega
    · have := realLoop_ge ds (r + (b - a)); omega

/-- `_get_real_index`: the `k`-th live slot at or after `lo` -/
theorem realLoop_spec (l : List (Option α)) : ∀ (d : List (Nat × Nat)) (lo k : Nat),
    Chain lo d l.length → Tombs l d lo → lc l lo + k < lc l l.length →
    realLoop (lo + k) d < l.length ∧ l[realLoop (lo + k) d]? ≠ some none ∧
      lc l (realLoop (lo + k) d) = lc l lo + k
  | [], lo, k, hc, ht, hk => by
    simp only [realLoop, Chain] at *
    have hlive : ∀ j, lo ≤ j → j < l.length → l[j]? ≠ some none := by
      intro j h1 h2 h3; exact (ht j h1 h2).1 h3 |> (deadAt_nil j).1
    have h1 := lc_all_live l lo l.length hc (Nat.le_refl _) (fun j a b => hlive j a b)
    have hlt : lo + k < l.length := by omega
    refine ⟨hlt, hlive _ (by omega) hlt, ?_⟩
    have := lc_all_live l lo (lo + k) (by omega) (by omega) (fun j a b => hlive j a (by omega))
    omega
  | (a, b) :: ds, lo, k, hc, ht, hk => by
    obtain ⟨hloa, hab, hc'⟩ := hc
    have hb := chain_le ds b l.length hc'
    have hlive : ∀ j, lo ≤ j → j < a → l[j]? ≠ some none := by
      intro j h1 h2 h3
      have := (ht j h1 (by omega)).1 h3
      rw [deadAt_cons] at this
      rcases this with h | h
      · simp at h; omega
      · have := chain_deadAt ds b l.length j hc' h; omega
    have hdead : ∀ j, a ≤ j → j < b → l[j]? = some none := by
      intro j h1 h2
      exact (ht j (by omega) (by omega)).2 (by rw [deadAt_cons]; exact Or.inl ⟨h1, h2⟩)
    have hla := lc_all_live l lo a hloa (by omega) hlive
    have hlb := lc_all_dead l a b (by omega) hb hdead
    simp only [realLoop]
    split
    · next hlt =>
      refine ⟨by omega, hlive _ (by omega) hlt, ?_⟩
      have := lc_all_live l lo (lo + k) (by omega) (by omega) (fun j x y => hlive j x (by omega))
      omega
    · next hge =>
      have ht' : Tombs l ds b := by
        intro j h1 h2
        rw [ht j (by omega) h2, deadAt_cons]
        constructor
        · rintro (h | h)
          · simp at h; omega
          · exact h
        · exact Or.inr
      have heq : lo + k + (b - a) = b + (k - (a - lo)) := by omega
      rw [heq]
      have := realLoop_spec l ds b (k - (a - lo)) hc' ht' (by omega)
      refine ⟨this.1, this.2.1, ?_⟩
      rw [this.2.2]; omega

/-- `_get_apparent_index` of a live slot `r`: subtract the tombstones between `lo` and `r` -/
theorem appLoop_spec (l : List (Option α)) : ∀ (d : List (Nat × Nat)) (lo r app : Nat),
    Chain lo d l.length → Tombs l d lo → lo ≤ r → r < l.length → l[r]? ≠ some none →
    appLoop r app d = app - ((r - lo) - (lc l r - lc l lo))
  | [], lo, r, app, hc, ht, hlo, hr, hlive => by
    simp only [appLoop]
    have hl : ∀ j, lo ≤ j → j < r → l[j]? ≠ some none := by
      intro j h1 h2 h3; exact (ht j h1 (by omega)).1 h3 |> (deadAt_nil j).1
    have := lc_all_live l lo r hlo (by omega) hl
    omega
  | (a, b) :: ds, lo, r, app, hc, ht, hlo, hr, hlive => by
    obtain ⟨hloa, hab, hc'⟩ := hc
    have hb := chain_le ds b l.length hc'
    have hlv : ∀ j, lo ≤ j → j < a → l[j]? ≠ some none := by
      intro j h1 h2 h3
      have := (ht j h1 (by omega)).1 h3
      rw [deadAt_cons] at this
      rcases this with h | h
      · simp at h; omega
      · have := chain_deadAt ds b l.length j hc' h; omega
    have hdead : ∀ j, a ≤ j → j < b → l[j]? = some none := by
      intro j h1 h2
      exact (ht j (by omega) (by omega)).2 (by rw [deadAt_cons]; exact Or.inl ⟨h1, h2⟩)
    simp only [appLoop]
    split
    · next hlt =>
      have := lc_all_live l lo r hlo (by omega) (fun j x y => hlv j x (by omega))
      omega
    · next hge =>
      have hrb : b ≤ r := by
        rcases Nat.lt_or_ge r b with h | h
        · exact absurd (hdead r (by omega) h) hlive
        · exact h
      have ht' : Tombs l ds b := by
        intro j h1 h2
        rw [ht j (by omega) h2, deadAt_cons]
        constructor
        · rintro (h | h)
          · simp at h; omega
          · exact h
        · exact Or.inr
      rw [appLoop_spec l ds b r (app - (b - a)) hc' ht' hrb hr hlive]
      have hla := lc_all_live l lo a hloa (by omega) hlv
      have hlb := lc_all_dead l a b (by omega) hb hdead
      have h1 := lc_mono l hrb
      have h2 := lc_mono l hlo
      omega

/-! ## D. `_add_dead` -/

theorem takeWhile_split {β : Type} (p : β → Bool) : ∀ (l : List β),
    ∃ P Q, l = P ++ Q ∧ l.takeWhile p = P ∧ (∀ x ∈ P, p x = true) ∧ (∀ q Q', Q = q :: Q' → p q = false)
  | [] => ⟨[], [], rfl, rfl, by simp, by simp⟩
  | a :: l => by
    by_cases ha : p a = true
    · obtain ⟨P, Q, h1, h2, h3, h4⟩ := takeWhile_split p l
      refine ⟨a :: P, Q, by simp [h1], by simp [List.takeWhile_cons, ha, h2], ?_, h4⟩
      intro x hx; rcases List.mem_cons.1 hx with h | h
      · exact h ▸ ha
      · exact h3 x h
    · refine ⟨[], a :: l, rfl, by simp [List.takeWhile_cons, ha], by simp, ?_⟩
      intro q Q' h; cases h; simpa using ha

theorem chain_raise_lo : ∀ (d : List (Nat × Nat)) (lo lo' hi : Nat), Chain lo d hi → lo' ≤ hi →
    (∀ q Q', d = q :: Q' → lo' ≤ q.1) → Chain lo' d hi
  | [], lo, lo', hi, hc, h, _ => h
  | (a, b) :: ds, lo, lo', hi, hc, h, hq => ⟨hq (a, b) ds rfl, hc.2.1, hc.2.2⟩

theorem chain_mem : ∀ (d : List (Nat × Nat)) (lo hi : Nat) (p : Nat × Nat), Chain lo d hi → p ∈ d →
    lo ≤ p.1 ∧ p.1 < p.2 ∧ p.2 ≤ hi
  | [], _, _, _, _, h => by simp at h
  | (a, b) :: ds, lo, hi, p, hc, h => by
    have hb := chain_le ds b hi hc.2.2
    rcases List.mem_cons.1 h with h | h
    · subst h; exact ⟨hc.1, hc.2.1, hb⟩
    · have := chain_mem ds b hi p hc.2.2 h
      have := hc.1; have := hc.2.1; omega

theorem insertIdx_append_length {β : Type} (P Q : List β) (c : β) :
    (P ++ Q).insertIdx P.length c = P ++ c :: Q := by
  induction P with
  | nil => simp
  | cons a P ih => simp [List.insertIdx_succ_cons, ih]

theorem deadAt_cons_new (d : List (Nat × Nat)) (x j : Nat) :
    DeadAt ((x, x + 1) :: d) j ↔ (DeadAt d j ∨ j = x) := by
  rw [deadAt_cons]
  have e : ((x, x + 1).1 ≤ j ∧ j < (x, x + 1).2) ↔ j = x := by simp; omega
  rw [e]; exact or_comm

theorem deadAt_insert_new (P Q : List (Nat × Nat)) (x j : Nat) :
    DeadAt (P ++ (x, x + 1) :: Q) j ↔ (DeadAt (P ++ Q) j ∨ j = x) := by
  simp only [deadAt_append, deadAt_cons_new]
  grind

theorem deadAt_extend (P Q : List (Nat × Nat)) (a x j : Nat) (h : a ≤ x) :
    DeadAt (P ++ (a, x + 1) :: Q) j ↔ (DeadAt (P ++ (a, x) :: Q) j ∨ j = x) := by
  simp only [deadAt_append, deadAt_cons]
  have e : (a ≤ j ∧ j < x + 1) ↔ ((a ≤ j ∧ j < x) ∨ j = x) := by omega
  simp only [e]
  grind

/-- `_add_dead(x)` for a live slot `x`: the chain stays a chain and covers exactly one more position -/
theorem addDead_spec (d : List (Nat × Nat)) (x len : Nat) (hc : Chain 0 d len) (hx : x < len)
    (hnd : ¬ DeadAt d x) :
    Chain 0 (addDead d x) len ∧ ∀ j, DeadAt (addDead d x) j ↔ (DeadAt d j ∨ j = x) := by
  obtain ⟨P, Q, hd, hP, hPall, hQ⟩ := takeWhile_split (lexLt (x, x + 1)) d
  have hPlt : ∀ p ∈ P, p.1 < p.2 ∧ p.2 ≤ x := by
    intro p hp
    have h1 := hPall p hp
    have hmem : p ∈ d := by rw [hd]; exact List.mem_append_left _ hp
    have hcp := chain_mem d 0 len p hc hmem
    have hnd' : ¬ (p.1 ≤ x ∧ x < p.2) := fun h => hnd ⟨p, hmem, h⟩
    simp [lexLt] at h1
    omega
  have hQgt : ∀ q Q', Q = q :: Q' → x < q.1 := by
    intro q Q' h
    have h1 := hQ q Q' h
    have hmem : q ∈ d := by rw [hd, h]; simp
    have hcp := chain_mem d 0 len q hc hmem
    have hnd' : ¬ (q.1 ≤ x ∧ x < q.2) := fun h => hnd ⟨q, hmem, h⟩
    simp [lexLt] at h1
    omega
  have hi : bisectLeft d (x, x + 1) = P.length := by simp [bisectLeft, hP]
  rcases List.eq_nil_or_concat P with hPn | ⟨P', p, hPc⟩
  · -- nothing below the candidate: the predecessor index wraps around to the last interval
    subst hPn
    simp only [List.nil_append] at hd
    subst hd
    cases d with
    | nil => simp [addDead, Chain]; exact ⟨by omega, fun j => by omega⟩
    | cons q Q' =>
      have hq := hQgt q Q' rfl
      rcases List.eq_nil_or_concat Q' with hQn | ⟨Q'', z, hQc⟩
      · subst hQn
        obtain ⟨q1, q2⟩ := q
        simp only [Chain] at hc
        simp at hq
        simp only [addDead, hi]
        simp
        split
        · simp [Chain]; exact ⟨by omega, fun j => by omega⟩
        · split
          · omega
          · simp [Chain]; exact ⟨by omega, fun j => by omega⟩
      · rw [List.concat_eq_append] at hQc
        subst hQc
        obtain ⟨q1, q2⟩ := q
        obtain ⟨z1, z2⟩ := z
        have hcq : Chain q2 (Q'' ++ [(z1, z2)]) len := hc.2.2
        have hz' := chain_mem _ q2 len (z1, z2) hcq (by simp)
        have hq12 : q1 < q2 := hc.2.1
        simp at hq hz'
        have hget : (((q1, q2) :: (Q'' ++ [(z1, z2)])))[((q1, q2) :: (Q'' ++ [(z1, z2)])).length - 1]? = some (z1, z2) := by
          simp
        have c1 : ¬ (x ≤ z1 ∧ z1 ≤ x + 1) := by omega
        have c2 : ¬ (x ≤ z2 ∧ z2 ≤ x + 1) := by omega
        have hval : addDead ((q1, q2) :: (Q'' ++ [(z1, z2)])) x = (x, x + 1) :: (q1, q2) :: (Q'' ++ [(z1, z2)]) := by
          simp only [addDead, hi]
          simp only [List.isEmpty_cons, List.length_nil, if_true, hget]
          simp [c1, c2]
        rw [hval]
        refine ⟨⟨by omega, by omega, by omega, hq12, hcq⟩, fun j => deadAt_cons_new _ x j⟩
  · -- the predecessor is the last interval below the candidate
    rw [List.concat_eq_append] at hPc
    subst hPc
    obtain ⟨p1, p2⟩ := p
    have hp := hPlt (p1, p2) (by simp)
    simp at hp
    have hne : d.isEmpty = false := by rw [hd]; simp
    have hlen : (P' ++ [(p1, p2)]).length = P'.length + 1 := by simp
    have hget : d[P'.length]? = some (p1, p2) := by rw [hd]; simp
    have c1 : ¬ (x ≤ p1 ∧ p1 ≤ x + 1) := by omega
    rw [hd, List.append_assoc, chain_append] at hc
    obtain ⟨m, hcP, hcQ⟩ := hc
    simp only [List.singleton_append, Chain] at hcQ
    have hm := chain_le P' 0 m hcP
    have hQlo : Chain (x + 1) Q len := by
      refine chain_raise_lo Q p2 (x + 1) len hcQ.2.2 (by omega) ?_
      intro q Q' h; have := hQgt q Q' h; omega
    by_cases c2 : x ≤ p2 ∧ p2 ≤ x + 1
    · have hp2 : p2 = x := by omega
      have hval : addDead d x = P' ++ (p1, x + 1) :: Q := by
        simp only [addDead, hi, hne, hlen]
        simp only [Bool.false_eq_true, if_false, Nat.add_one_ne_zero, Nat.add_sub_cancel, hget, c1, c2, if_true]
        rw [hd]; simp
      rw [hval]
      constructor
      · rw [chain_append]
        exact ⟨m, hcP, hcQ.1, by omega, hQlo⟩
      · intro j
        rw [deadAt_extend P' Q p1 x j (by omega), hd, ← hp2]; simp
    · have hval : addDead d x = (P' ++ [(p1, p2)]) ++ (x, x + 1) :: Q := by
        simp only [addDead, hi, hne, hlen]
        simp only [Bool.false_eq_true, if_false, Nat.add_one_ne_zero, Nat.add_sub_cancel, hget, c1, c2]
        rw [hd, ← hlen]; exact insertIdx_append_length _ _ _
      rw [hval]
      constructor
      · rw [List.append_assoc, chain_append]
        exact ⟨m, hcP, hcQ.1, hcQ.2.1, by omega, by omega, hQlo⟩
      · intro j
        rw [deadAt_insert_new, hd]


/-! ## E. the representation invariant -/

/-- what holds between the three structures at every point (also between `_add_dead` and `_cull`) -/
structure InvC (s : ISet α) : Prop where
  nodup : (live s.items).Nodup
  perm : (IMap.keys s.idx).Perm (live s.items)
  look : ∀ x i, IMap.lookup s.idx x = some i → s.items[i]? = some (some x)
  chain : Chain 0 s.dead s.items.length
  tombs : Tombs s.items s.dead 0

/-- the invariant of the public states: additionally the last slot is never a tombstone -/
structure Inv (s : ISet α) : Prop extends InvC s where
  lastLive : s.items.getLast? ≠ some none

theorem getElem?_lt {β : Type} {l : List β} {i : Nat} {v : β} (h : l[i]? = some v) : i < l.length := by
  rcases Nat.lt_or_ge i l.length with h' | h'
  · exact h'
  · rw [List.getElem?_eq_none h'] at h; cases h

/-- two live slots holding the same item are the same slot -/
theorem live_slot_inj (l : List (Option α)) (hn : (live l).Nodup) (i j : Nat) (x : α)
    (hi : l[i]? = some (some x)) (hj : l[j]? = some (some x)) : i = j := by
  have h1 := live_getElem_lc l i x hi
  have h2 := live_getElem_lc l j x hj
  have hlt : lc l i < (live l).length := getElem?_lt h1
  have heq : lc l i = lc l j := (List.getElem?_inj hlt hn).1 (h1.trans h2.symm)
  have key : ∀ a b : Nat, a < b → l[a]? = some (some x) → lc l a < lc l b := by
    intro a b hab ha
    have hal := getElem?_lt ha
    have := lc_succ l a hal
    rw [List.getElem?_eq_getElem hal] at ha
    have hne : l[a] ≠ none := by intro e; rw [e] at ha; cases ha
    simp [hne] at this
    have := (lc_mono l (show a + 1 ≤ b by omega)).1
    omega
  rcases Nat.lt_trichotomy i j with h | h | h
  · have := key i j h hi; omega
  · exact h
  · have := key j i h hj; omega

namespace InvC
variable {s : ISet α}

theorem keys_nodup (h : InvC s) : (IMap.keys s.idx).Nodup := (h.perm.nodup_iff).2 h.nodup

theorem len_eq (h : InvC s) : s.len = s.toList.length := by
  unfold ISet.len ISet.toList
  rw [← IMap.length_keys, h.perm.length_eq]

theorem contains_iff (h : InvC s) (x : α) : s.contains x = true ↔ x ∈ s.toList := by
  unfold ISet.contains ISet.toList
  rw [IMap.lookup_isSome_iff, h.perm.mem_iff]

theorem lookup_of_slot (h : InvC s) (x : α) (i : Nat) (hi : s.items[i]? = some (some x)) :
    IMap.lookup s.idx x = some i := by
  have hx : x ∈ live s.items := by
    rw [mem_live]; exact List.mem_of_getElem? hi
  have hk : x ∈ IMap.keys s.idx := (h.perm.mem_iff).2 hx
  rw [← IMap.lookup_isSome_iff] at hk
  cases hl : IMap.lookup s.idx x with
  | none => rw [hl] at hk; cases hk
  | some j =>
    have := h.look x j hl
    rw [live_slot_inj s.items h.nodup i j x hi this]

theorem not_dead_of_slot (h : InvC s) (x : α) (i : Nat) (hi : s.items[i]? = some (some x)) :
    ¬ DeadAt s.dead i := by
  intro hd
  have := (h.tombs i (Nat.zero_le _) (getElem?_lt hi)).2 hd
  rw [hi] at this; cases this

end InvC

theorem inv_empty : Inv (ISet.empty : ISet α) where
  nodup := by simp [ISet.empty]
  perm := by simp [ISet.empty]
  look := by intro x i h; simp [ISet.empty, IMap.lookup] at h
  chain := by simp [ISet.empty, Chain]
  tombs := by intro j _ h; simp [ISet.empty] at h
  lastLive := by simp [ISet.empty]

/-- `add`: append when new -/
theorem toList_add (s : ISet α) (h : InvC s) (x : α) :
    (s.add x).toList = if x ∈ s.toList then s.toList else s.toList ++ [x] := by
  unfold ISet.add
  by_cases hc : s.contains x = true
  · simp [hc, (h.contains_iff x).1 hc]
  · have : x ∉ s.toList := fun hm => hc ((h.contains_iff x).2 hm)
    unfold ISet.toList at this ⊢
    simp [hc, this, live_append]

theorem inv_add (s : ISet α) (h : Inv s) (x : α) : Inv (s.add x) := by
  unfold ISet.add
  by_cases hc : s.contains x = true
  · simp [hc]; exact h
  · have hx : x ∉ live s.items := fun hm => hc ((h.toInvC.contains_iff x).2 hm)
    have hk : x ∉ IMap.keys s.idx := fun hm => hx ((h.perm.mem_iff).1 hm)
    simp only [hc, Bool.false_eq_true, if_false]
    refine { nodup := ?_, perm := ?_, look := ?_, chain := ?_, tombs := ?_, lastLive := ?_ }
    · simp only [live_append, live_cons_some, live_nil]
      rw [List.nodup_append]
      refine ⟨h.nodup, by simp, ?_⟩
      intro a ha b hb e; simp at hb; subst hb; subst e; exact hx ha
    · simp only [live_append, live_cons_some, live_nil]
      rw [IMap.keys_set_not_mem _ _ _ hk]
      exact h.perm.append_right _
    · intro y i hl
      rw [IMap.lookup_set] at hl
      by_cases hxy : x = y
      · subst hxy; simp at hl; subst hl; simp
      · simp [hxy] at hl
        have := h.look y i hl
        rw [List.getElem?_append_left (getElem?_lt this)]; exact this
    · simp only [List.length_append, List.length_singleton]
      exact chain_weaken_hi _ _ _ _ (Nat.le_succ _) h.chain
    · intro j _ hj
      simp only [List.length_append, List.length_singleton] at hj
      by_cases hjl : j < s.items.length
      · rw [List.getElem?_append_left hjl]; exact h.tombs j (Nat.zero_le _) hjl
      · have hje : j = s.items.length := by omega
        subst hje
        simp
        intro hd
        have := chain_deadAt _ _ _ _ h.chain hd
        omega
    · simp [List.getLast?_append]


/-! ### removing one item (before `_cull`) -/

theorem split_at_slot (l : List (Option α)) (r : Nat) (v : Option α) (h : l[r]? = some v) :
    l = l.take r ++ v :: l.drop (r + 1) := by
  have hr := getElem?_lt h
  rw [List.getElem?_eq_getElem hr] at h
  have : l[r] = v := by simpa using h
  rw [← this, ← List.drop_eq_getElem_cons hr, List.take_append_drop]

theorem set_at_slot (l : List (Option α)) (r : Nat) (v w : Option α) (h : l[r]? = some v) :
    l.set r w = l.take r ++ w :: l.drop (r + 1) := by
  have hr := getElem?_lt h
  conv => lhs; rw [split_at_slot l r v h]
  rw [List.set_append_right _ _ (by simp; omega)]
  simp [Nat.min_eq_left (Nat.le_of_lt hr)]

theorem live_set_none (l : List (Option α)) (r : Nat) (x : α) (h : l[r]? = some (some x))
    (hn : (live l).Nodup) : live (l.set r none) = (live l).erase x := by
  have hs := split_at_slot l r _ h
  rw [set_at_slot l r _ none h, live_append, live_cons_none]
  have hl : live l = live (l.take r) ++ x :: live (l.drop (r + 1)) := by
    conv => lhs; rw [hs]
    rw [live_append, live_cons_some]
  rw [hl] at hn ⊢
  have hx : x ∉ live (l.take r) := by
    intro hm
    rw [List.nodup_append] at hn
    exact hn.2.2 x hm x (by simp) rfl
  rw [List.erase_append_right _ hx]
  simp

/-- tombstoning the live slot `r` (the body of `remove`/`pop(i)` up to `_cull`) -/
theorem invC_kill (s : ISet α) (h : InvC s) (r : Nat) (x : α) (hr : s.items[r]? = some (some x)) :
    InvC ⟨s.items.set r none, IMap.erase s.idx x, addDead s.dead r⟩ ∧
      live (s.items.set r none) = (live s.items).erase x := by
  have hlive := live_set_none s.items r x hr h.nodup
  have hrl := getElem?_lt hr
  have had := addDead_spec s.dead r s.items.length h.chain hrl (h.not_dead_of_slot x r hr)
  refine ⟨{ nodup := ?_, perm := ?_, look := ?_, chain := ?_, tombs := ?_ }, hlive⟩
  · show (live (s.items.set r none)).Nodup
    rw [hlive]; exact h.nodup.erase x
  · show (IMap.keys (IMap.erase s.idx x)).Perm (live (s.items.set r none))
    rw [hlive, IMap.keys_erase]; exact h.perm.erase x
  · intro y j hl
    show (s.items.set r none)[j]? = some (some y)
    have hyx : x ≠ y := by
      intro e; subst e
      rw [IMap.lookup_erase_self _ _ h.keys_nodup] at hl; cases hl
    rw [IMap.lookup_erase_ne _ _ _ hyx] at hl
    have hj := h.look y j hl
    have hjr : r ≠ j := by
      intro e; subst e; rw [hr] at hj; simp at hj; exact hyx hj
    rw [List.getElem?_set]; simp [hjr]; exact hj
  · show Chain 0 (addDead s.dead r) (s.items.set r none).length
    rw [List.length_set]; exact had.1
  · intro j _ hj
    show (s.items.set r none)[j]? = some none ↔ DeadAt (addDead s.dead r) j
    rw [List.length_set] at hj
    rw [had.2 j, List.getElem?_set]
    by_cases hjr : r = j
    · subst hjr; simp [hrl]
    · simp only [hjr, if_false]
      rw [h.tombs j (Nat.zero_le _) hj]
      constructor
      · exact Or.inl
      · rintro (h' | h')
        · exact h'
        · exact absurd h'.symm hjr


/-! ### rebuilding the dict (`_compact`, `sort`, `reverse`) -/

theorem lookup_assignIdx : ∀ (l : List α) (m : IMap α) (k : Nat) (x : α), l.Nodup →
    IMap.lookup (assignIdx m l k) x = if x ∈ l then some (k + l.idxOf x) else IMap.lookup m x
  | [], m, k, x, _ => by simp [assignIdx]
  | y :: ys, m, k, x, hn => by
    rw [List.nodup_cons] at hn
    simp only [assignIdx]
    rw [lookup_assignIdx ys (IMap.set m y k) (k + 1) x hn.2, IMap.lookup_set]
    by_cases hxy : y = x
    · subst hxy; simp [hn.1, List.idxOf_cons]
    · have hxy' : ¬ x = y := fun e => hxy e.symm
      by_cases hx : x ∈ ys
      · have hb : (y == x) = false := by simp [hxy]
        simp [hx, hxy, List.idxOf_cons, hb]; omega
      · simp [hx, hxy, hxy']

theorem keys_assignIdx : ∀ (l : List α) (m : IMap α) (k : Nat), (∀ x ∈ l, x ∈ IMap.keys m) →
    IMap.keys (assignIdx m l k) = IMap.keys m
  | [], m, k, _ => by simp [assignIdx]
  | y :: ys, m, k, h => by
    simp only [assignIdx]
    have hy := h y (by simp)
    rw [keys_assignIdx ys _ (k + 1) (by
      intro x hx; rw [IMap.keys_set_mem _ _ _ hy]; exact h x (by simp [hx])),
      IMap.keys_set_mem _ _ _ hy]

/-- any duplicate-free re-listing of the live items, with the dict re-pointed, is a valid state -/
theorem inv_rebuild (s : ISet α) (h : InvC s) (l : List α) (hp : l.Perm (live s.items)) :
    Inv ⟨l.map some, assignIdx s.idx l 0, []⟩ := by
  have hln : l.Nodup := (hp.nodup_iff).2 h.nodup
  have hkeys : IMap.keys (assignIdx s.idx l 0) = IMap.keys s.idx :=
    keys_assignIdx l s.idx 0 (fun x hx => (h.perm.mem_iff).2 ((hp.mem_iff).1 hx))
  refine { nodup := ?_, perm := ?_, look := ?_, chain := ?_, tombs := ?_, lastLive := ?_ }
  · show (live (l.map some)).Nodup
    rw [live_map_some]; exact hln
  · show (IMap.keys (assignIdx s.idx l 0)).Perm (live (l.map some))
    rw [live_map_some, hkeys]; exact h.perm.trans hp.symm
  · intro x i hl
    show (l.map some)[i]? = some (some x)
    rw [lookup_assignIdx l s.idx 0 x hln] at hl
    by_cases hx : x ∈ l
    · simp [hx] at hl
      subst hl
      have hlt := List.idxOf_lt_length_of_mem hx
      rw [List.getElem?_map, List.getElem?_eq_getElem hlt, List.getElem_idxOf hlt]; rfl
    · simp [hx] at hl
      have : x ∈ IMap.keys s.idx := by
        rw [← IMap.lookup_isSome_iff, hl]; rfl
      exact absurd ((hp.mem_iff).2 ((h.perm.mem_iff).1 this)) hx
  · show Chain 0 [] _
    simp [Chain]
  · intro j _ hj
    show (l.map some)[j]? = some none ↔ DeadAt [] j
    simp [List.getElem?_map]
  · show (l.map some).getLast? ≠ some none
    rw [List.getLast?_map]; cases l.getLast? <;> simp

/-- a tombstone means fewer live items than slots -/
theorem live_length_lt (l : List (Option α)) (a : Nat) (h : l[a]? = some none) : (live l).length < l.length := by
  have ha := getElem?_lt h
  have h1 := lc_succ l a ha
  rw [List.getElem?_eq_getElem ha] at h
  have : l[a] = none := by simpa using h
  simp [this] at h1
  have h2 := lc_mono l (show a + 1 ≤ l.length by omega)
  have h3 := lc_mono l (Nat.zero_le a)
  rw [lc_length] at h2
  simp at h3
  omega

theorem toList_compact (s : ISet α) (h : InvC s) : Inv (compact s) ∧ (compact s).toList = s.toList := by
  unfold compact
  cases hd : s.dead with
  | nil =>
    simp only [List.isEmpty_nil, if_true]
    refine ⟨{ toInvC := h, lastLive := ?_ }, trivial⟩
    intro hl
    rw [List.getLast?_eq_getElem?] at hl
    have hlt := getElem?_lt hl
    have := (h.tombs _ (Nat.zero_le _) hlt).1 hl
    rw [hd] at this; simp at this
  | cons p ds =>
    obtain ⟨a, b⟩ := p
    simp only [List.isEmpty_cons, Bool.false_eq_true, if_false]
    have hc := h.chain
    rw [hd] at hc
    have hb := chain_le ds b _ hc.2.2
    have hdead : s.items[a]? = some none :=
      (h.tombs a (Nat.zero_le _) (by have := hc.2.1; omega)).2 (by rw [hd, deadAt_cons]; left; exact ⟨Nat.le_refl _, hc.2.1⟩)
    have hlt := live_length_lt s.items a hdead
    have hlen : s.idx.length = (live s.items).length := by
      rw [← IMap.length_keys, h.perm.length_eq]
    have hdc : s.items.length - s.idx.length ≠ 0 := by omega
    have hitems : (List.map some (live s.items) ++ List.drop (live s.items).length s.items).take
        ((List.map some (live s.items) ++ List.drop (live s.items).length s.items).length -
          (s.items.length - s.idx.length)) = List.map some (live s.items) := by
      apply List.take_left'
      simp; omega
    simp only [hdc, if_false, hitems]
    have := inv_rebuild s h (live s.items) (List.Perm.refl _)
    exact ⟨this, by simp [ISet.toList, live_map_some]⟩


/-! ### `_cull` -/

/-- split a list at the end of its longest `p`-suffix -/
theorem rev_split {β : Type} (p : β → Bool) (l : List β) :
    ∃ A T, l = A ++ T ∧ (l.reverse.takeWhile p).length = T.length ∧
      (l.reverse.dropWhile p).reverse = A ∧ (∀ x ∈ T, p x = true) ∧
      (∀ A' a, A = A' ++ [a] → p a = false) := by
  obtain ⟨P, Q, h1, h2, h3, h4⟩ := takeWhile_split p l.reverse
  have hdw : l.reverse.dropWhile p = Q := by
    have := @List.takeWhile_append_dropWhile _ p l.reverse
    rw [h2] at this
    conv at this => rhs; rw [h1]
    exact List.append_cancel_left this
  refine ⟨Q.reverse, P.reverse, ?_, by simp [h2], by rw [hdw], ?_, ?_⟩
  · have := congrArg List.reverse h1
    simpa using this
  · intro x hx; exact h3 x (by simpa using hx)
  · intro A' a hA
    have : Q = a :: A'.reverse := by
      have := congrArg List.reverse hA
      simpa using this
    exact h4 a _ this

theorem chain_tighten_hi : ∀ (d : List (Nat × Nat)) (lo hi n : Nat), Chain lo d hi → lo ≤ n →
    (∀ p ∈ d, p.2 ≤ n) → Chain lo d n
  | [], lo, hi, n, _, h, _ => h
  | (a, b) :: ds, lo, hi, n, hc, h, hp =>
    ⟨hc.1, hc.2.1, chain_tighten_hi ds b hi n hc.2.2 (hp (a, b) (by simp)) (fun p hm => hp p (by simp [hm]))⟩

theorem lastLive_of_no_dead (s : ISet α) (h : InvC s) (hd : s.dead = []) : s.items.getLast? ≠ some none := by
  intro hl
  rw [List.getLast?_eq_getElem?] at hl
  have hlt := getElem?_lt hl
  have := (h.tombs _ (Nat.zero_le _) hlt).1 hl
  rw [hd] at this; simp at this

theorem cull_spec (cfg : Cfg) (s : ISet α) (h : InvC s) :
    Inv (cull cfg s) ∧ (cull cfg s).toList = s.toList := by
  unfold cull
  by_cases h1 : s.dead.isEmpty = true
  · simp only [h1, if_true]
    exact ⟨{ toInvC := h, lastLive := lastLive_of_no_dead s h (by simpa using h1) }, trivial⟩
  simp only [h1, Bool.false_eq_true, if_false]
  by_cases h2 : s.idx.isEmpty = true
  · simp only [h2, if_true]
    have hidx : s.idx = [] := by simpa using h2
    have hlive : live s.items = [] := by
      have := h.perm
      rw [hidx] at this
      simpa using this.symm.eq_nil
    refine ⟨{ nodup := by simp, perm := by simp [hidx], look := ?_, chain := by simp [Chain],
              tombs := ?_, lastLive := by simp }, by simp [ISet.toList, hlive]⟩
    · intro x i hl; simp [hidx, IMap.lookup] at hl
    · intro j _ hj; simp at hj
  simp only [h2, Bool.false_eq_true, if_false]
  by_cases h3 : s.dead.length > cfg.limit
  · simp only [h3, if_true]; exact toList_compact s h
  simp only [h3, if_false]
  by_cases h4 : (s.items.length - s.idx.length) * cfg.factor > s.items.length
  · simp only [h4, if_true]; exact toList_compact s h
  simp only [h4, if_false]
  by_cases h5 : s.items.getLast? = some none
  · simp only [h5, if_true]
    obtain ⟨A, T, hAT, hTlen, _, hT, hA⟩ := rev_split isTomb s.items
    have hTnone : ∀ o ∈ T, o = none := by
      intro o ho; have := hT o ho; cases o <;> simp [isTomb] at this ⊢
    have hliveT : live T = [] := by
      have : ∀ (T : List (Option α)), (∀ o ∈ T, o = none) → live T = [] := by
        intro T; induction T with
        | nil => intro _; rfl
        | cons o T ih =>
          intro h
          have := h o (by simp); subst this
          rw [live_cons_none]; exact ih (fun o ho => h o (by simp [ho]))
      exact this T hTnone
    have htake : s.items.take (s.items.length - trailingDead s.items) = A := by
      unfold trailingDead
      rw [hTlen]
      have hl : s.items.length - T.length = A.length := by rw [hAT]; simp
      rw [hl]
      conv => lhs; rw [hAT]
      exact List.take_left
    rw [htake]
    have hliveA : live A = live s.items := by
      conv => rhs; rw [hAT]
      rw [live_append, hliveT]; simp
    obtain ⟨D, R, hDR, _, hpop, hR, hD⟩ := rev_split (startsAtOrAfter A.length) s.dead
    have hpop' : popDeadFrom s.dead A.length = D := by unfold popDeadFrom; exact hpop
    rw [hpop']
    have hAget : ∀ j, j < A.length → A[j]? = s.items[j]? := by
      intro j hj
      conv => rhs; rw [hAT]
      rw [List.getElem?_append_left hj]
    have hTget : ∀ j, A.length ≤ j → j < s.items.length → s.items[j]? = some none := by
      intro j h1 h2
      have hmem : s.items[j]? = T[j - A.length]? := by
        conv => lhs; rw [hAT]
        rw [List.getElem?_append_right h1]
      have hlt : j - A.length < T.length := by
        have : s.items.length = A.length + T.length := by conv => lhs; rw [hAT]; simp
        omega
      rw [hmem, List.getElem?_eq_getElem hlt, hTnone _ (List.getElem_mem hlt)]
    have hlastA : A.getLast? ≠ some none := by
      intro hl
      rcases List.eq_nil_or_concat A with hn | ⟨A', a, hc⟩
      · subst hn; simp at hl
      · rw [List.concat_eq_append] at hc
        have := hA A' a hc
        subst hc
        simp at hl; subst hl; simp [isTomb] at this
    have hRnot : ∀ j, j < A.length → ¬ DeadAt R j := by
      rintro j hj ⟨p, hp, hp1, _⟩
      have := hR p hp
      simp [startsAtOrAfter] at this
      omega
    have hlen : A.length ≤ s.items.length := by
      have : s.items.length = A.length + T.length := by conv => lhs; rw [hAT]; simp
      omega
    refine ⟨{ nodup := ?_, perm := ?_, look := ?_, chain := ?_, tombs := ?_, lastLive := hlastA }, ?_⟩
    · show (live A).Nodup
      rw [hliveA]; exact h.nodup
    · show (IMap.keys s.idx).Perm (live A)
      rw [hliveA]; exact h.perm
    · intro x i hl
      show A[i]? = some (some x)
      have hi := h.look x i hl
      have hlt : i < A.length := by
        rcases Nat.lt_or_ge i A.length with h' | h'
        · exact h'
        · have := hTget i h' (getElem?_lt hi)
          rw [hi] at this; simp at this
      rw [hAget i hlt]; exact hi
    · show Chain 0 D A.length
      have hc := h.chain
      rw [hDR, chain_append] at hc
      obtain ⟨m, hcD, _⟩ := hc
      apply chain_tighten_hi D 0 m A.length hcD (Nat.zero_le _)
      intro p hp
      -- an interval reaching beyond `A` would cover either `A`'s last slot or start at/after `A.length`
      have hpm : p ∈ s.dead := by rw [hDR]; exact List.mem_append_left _ hp
      have hcp := chain_mem s.dead 0 s.items.length p h.chain hpm
      rcases Nat.lt_or_ge A.length p.2 with hgt | hle
      · exfalso
        rcases Nat.lt_or_ge p.1 A.length with hlt | hge
        · -- covers slot A.length - 1, which is live
          have hpos : 0 < A.length := by omega
          have hdead : s.items[A.length - 1]? = some none :=
            (h.tombs _ (Nat.zero_le _) (by omega)).2 ⟨p, hpm, by omega, by omega⟩
          rw [← hAget _ (by omega), ← List.getLast?_eq_getElem?] at hdead
          exact hlastA hdead
        · -- starts at or after A.length: then so does every later interval, and D's last one does not
          rcases List.eq_nil_or_concat D with hn | ⟨D', z, hc⟩
          · subst hn; simp at hp
          · rw [List.concat_eq_append] at hc
            have hz := hD D' z hc
            simp [startsAtOrAfter] at hz
            subst hc
            rcases List.mem_append.1 hp with hp' | hp'
            · rw [chain_append] at hcD
              obtain ⟨m', hc1, hc2⟩ := hcD
              have := chain_mem D' 0 m' p hc1 hp'
              simp only [Chain] at hc2
              omega
            · simp at hp'; subst hp'; omega
      · exact hle
    · intro j _ hj
      show A[j]? = some none ↔ DeadAt D j
      have hj : j < A.length := hj
      rw [hAget j hj, h.tombs j (Nat.zero_le _) (by omega), hDR, deadAt_append]
      constructor
      · rintro (h' | h')
        · exact h'
        · exact absurd h' (hRnot j hj)
      · exact Or.inl
    · show live A = live s.items
      exact hliveA
  · simp only [h5, if_false]
    exact ⟨{ toInvC := h, lastLive := h5 }, trivial⟩


/-! ## F. every method refines the plain-list operation -/

theorem remove_spec (cfg : Cfg) (s : ISet α) (h : Inv s) (x : α) :
    (x ∈ s.toList → ∃ s', s.remove cfg x = .ok s' ∧ Inv s' ∧ s'.toList = s.toList.erase x) ∧
    (x ∉ s.toList → s.remove cfg x = .error .keyError) := by
  unfold ISet.remove
  constructor
  · intro hx
    have hc := (h.toInvC.contains_iff x).2 hx
    unfold ISet.contains at hc
    cases hl : IMap.lookup s.idx x with
    | none => rw [hl] at hc; cases hc
    | some i =>
      have hk := invC_kill s h.toInvC i x (h.look x i hl)
      have hcull := cull_spec cfg _ hk.1
      refine ⟨_, rfl, hcull.1, ?_⟩
      rw [hcull.2]; exact hk.2
  · intro hx
    have : IMap.lookup s.idx x = none := by
      cases hl : IMap.lookup s.idx x with
      | none => rfl
      | some i =>
        exfalso; apply hx
        apply (h.toInvC.contains_iff x).1
        unfold ISet.contains; rw [hl]; rfl
    rw [this]

theorem discard_spec (cfg : Cfg) (s : ISet α) (h : Inv s) (x : α) :
    Inv (s.discard cfg x) ∧ (s.discard cfg x).toList = s.toList.erase x := by
  unfold ISet.discard
  by_cases hx : x ∈ s.toList
  · obtain ⟨s', h1, h2, h3⟩ := (remove_spec cfg s h x).1 hx
    rw [h1]; exact ⟨h2, h3⟩
  · rw [(remove_spec cfg s h x).2 hx]
    exact ⟨h, (List.erase_of_not_mem hx).symm⟩

theorem live_dropLast_some (l : List (Option α)) (x : α) (h : l.getLast? = some (some x)) :
    live l = live l.dropLast ++ [x] := by
  rcases List.eq_nil_or_concat l with hn | ⟨A, a, hc⟩
  · subst hn; simp at h
  · rw [List.concat_eq_append] at hc; subst hc
    simp at h; subst h
    simp [live_append]

theorem popLast_spec (cfg : Cfg) (s : ISet α) (h : Inv s) :
    (∀ hne : s.toList ≠ [], ∃ s', s.popLast cfg = .ok (s', s.toList.getLast hne) ∧ Inv s' ∧
        s'.toList = s.toList.dropLast) ∧
    (s.toList = [] → s.popLast cfg = .error .indexError) := by
  unfold ISet.popLast
  cases hl : s.items.getLast? with
  | none =>
    have : s.items = [] := by simpa using hl
    constructor
    · intro hne; exfalso; apply hne; simp [ISet.toList, this]
    · intro _; rfl
  | some o =>
    cases o with
    | none => exact absurd hl h.lastLive
    | some x =>
      have hlive := live_dropLast_some s.items x hl
      have hxnot : x ∉ live s.items.dropLast := by
        intro hm
        have := h.nodup
        rw [hlive, List.nodup_append] at this
        exact this.2.2 x hm x (by simp) rfl
      have hne' : s.items ≠ [] := by intro e; rw [e] at hl; simp at hl
      have hlen : 0 < s.items.length := by cases hi : s.items with | nil => exact absurd hi hne' | cons a b => simp
      have hslot : s.items[s.items.length - 1]? = some (some x) := by
        rw [← List.getLast?_eq_getElem?]; exact hl
      have hpre : InvC (⟨s.items.dropLast, IMap.erase s.idx x, s.dead⟩ : ISet α) := by
        have hget : ∀ j, j < s.items.length - 1 → s.items.dropLast[j]? = s.items[j]? := by
          intro j hj
          rw [List.dropLast_eq_take, List.getElem?_take]; simp [hj]
        refine { nodup := ?_, perm := ?_, look := ?_, chain := ?_, tombs := ?_ }
        · show (live s.items.dropLast).Nodup
          have := h.nodup
          rw [hlive, List.nodup_append] at this
          exact this.1
        · show (IMap.keys (IMap.erase s.idx x)).Perm (live s.items.dropLast)
          rw [IMap.keys_erase]
          have := h.perm.erase x
          rw [hlive, List.erase_append_right _ hxnot] at this
          simpa using this
        · intro y j hly
          show s.items.dropLast[j]? = some (some y)
          have hyx : x ≠ y := by
            intro e; subst e
            rw [IMap.lookup_erase_self _ _ h.toInvC.keys_nodup] at hly; cases hly
          rw [IMap.lookup_erase_ne _ _ _ hyx] at hly
          have hj := h.look y j hly
          have hjl := getElem?_lt hj
          have : j ≠ s.items.length - 1 := by
            intro e; subst e; rw [hslot] at hj; simp at hj; exact hyx hj
          rw [hget j (by omega)]; exact hj
        · show Chain 0 s.dead s.items.dropLast.length
          rw [List.length_dropLast]
          apply chain_tighten_hi s.dead 0 _ _ h.chain (Nat.zero_le _)
          intro p hp
          have hcp := chain_mem s.dead 0 _ p h.chain hp
          rcases Nat.lt_or_ge (s.items.length - 1) p.2 with hgt | hle
          · exfalso
            have := (h.tombs (s.items.length - 1) (Nat.zero_le _) (by omega)).2 ⟨p, hp, by omega, by omega⟩
            rw [hslot] at this; simp at this
          · exact hle
        · intro j _ hj
          show s.items.dropLast[j]? = some none ↔ DeadAt s.dead j
          have hj : j < s.items.dropLast.length := hj
          rw [List.length_dropLast] at hj
          rw [hget j hj]; exact h.tombs j (Nat.zero_le _) (by omega)
      have hcull := cull_spec cfg _ hpre
      constructor
      · intro hne
        refine ⟨_, ?_, hcull.1, ?_⟩
        · have : s.toList.getLast hne = x := by
            have e : s.toList = live s.items.dropLast ++ [x] := hlive
            simp [e]
          rw [this]
        · rw [hcull.2]
          show live s.items.dropLast = (live s.items).dropLast
          rw [hlive]; simp
      · intro he
        exfalso
        have : live s.items = [] := he
        rw [hlive] at this; simp at this


/-- index translation = list indexing: the real slot of apparent index `k` holds the `k`-th item -/
theorem slot_of_index (s : ISet α) (h : InvC s) (k : Nat) (hk : k < s.toList.length) :
    s.items[realLoop k s.dead]? = some (some s.toList[k]) := by
  have hspec := realLoop_spec s.items s.dead 0 k h.chain h.tombs (by
    rw [lc_zero, lc_length]; simpa [ISet.toList] using hk)
  rw [Nat.zero_add, lc_zero, Nat.zero_add] at hspec
  obtain ⟨hr, hlive, hlc⟩ := hspec
  rw [List.getElem?_eq_getElem hr] at hlive ⊢
  cases ho : s.items[realLoop k s.dead] with
  | none => rw [ho] at hlive; exact absurd rfl hlive
  | some x =>
    have := live_getElem_lc s.items (realLoop k s.dead) x (by rw [List.getElem?_eq_getElem hr, ho])
    rw [hlc] at this
    have hx : s.toList[k] = x := by
      have h2 : s.toList[k]? = some x := this
      rw [List.getElem?_eq_getElem hk] at h2
      simpa using h2
    rw [hx]

/-- the apparent index of a live slot is the position of its item in the iteration -/
theorem index_of_slot (s : ISet α) (h : InvC s) (r : Nat) (x : α) (hr : s.items[r]? = some (some x)) :
    appLoop r r s.dead = s.toList.idxOf x := by
  have hrl := getElem?_lt hr
  have hlive : s.items[r]? ≠ some none := by rw [hr]; simp
  rw [appLoop_spec s.items s.dead 0 r r h.chain h.tombs (Nat.zero_le _) hrl hlive]
  have hget := live_getElem_lc s.items r x hr
  have hlt := getElem?_lt hget
  have hle := (lc_mono s.items (Nat.zero_le r))
  simp only [lc_zero, Nat.sub_zero] at hle ⊢
  have : (live s.items).idxOf x = lc s.items r := by
    rw [List.getElem?_eq_getElem hlt] at hget
    have hx : (live s.items)[lc s.items r] = x := by simpa using hget
    rw [← hx]; exact h.nodup.idxOf_getElem _ hlt
  show r - (r - lc s.items r) = (live s.items).idxOf x
  rw [this]; omega

theorem normIndex_nonneg (s : ISet α) (k : Nat) : s.normIndex (k : Int) = some k := by
  unfold ISet.normIndex
  have : ¬ ((k : Int) < 0) := by omega
  simp [this]

theorem normIndex_neg (s : ISet α) (k : Nat) (hk : k < s.len) :
    s.normIndex ((k : Int) - (s.len : Int)) = some k := by
  unfold ISet.normIndex
  have h1 : (k : Int) - (s.len : Int) < 0 := by omega
  have h2 : ¬ ((k : Int) - (s.len : Int) + (s.len : Int) < 0) := by omega
  simp only [h1, h2, if_true, if_false]
  congr 1
  omega

/-- `s[i]` for every valid index, negative included -/
theorem getItem_spec (s : ISet α) (h : Inv s) (k : Nat) (hk : k < s.toList.length) (i : Int)
    (hi : i = (k : Int) ∨ i = (k : Int) - (s.toList.length : Int)) :
    s.getItem i = .ok s.toList[k] := by
  have hn : s.normIndex i = some k := by
    rcases hi with hi | hi
    · rw [hi]; exact normIndex_nonneg s k
    · rw [hi, ← h.toInvC.len_eq]; exact normIndex_neg s k (by rw [h.toInvC.len_eq]; exact hk)
  unfold ISet.getItem
  rw [hn]
  simp only [slot_of_index s h.toInvC k hk]

/-- `index(x)` -/
theorem index_spec (s : ISet α) (h : Inv s) (x : α) :
    (x ∈ s.toList → s.index x = .ok (s.toList.idxOf x)) ∧
    (x ∉ s.toList → s.index x = .error .valueError) := by
  unfold ISet.index
  constructor
  · intro hx
    have hc := (h.toInvC.contains_iff x).2 hx
    unfold ISet.contains at hc
    cases hl : IMap.lookup s.idx x with
    | none => rw [hl] at hc; cases hc
    | some r =>
      simp only
      rw [index_of_slot s h.toInvC r x (h.look x r hl)]
  · intro hx
    cases hl : IMap.lookup s.idx x with
    | none => rfl
    | some r =>
      exfalso; apply hx
      apply (h.toInvC.contains_iff x).1
      unfold ISet.contains; rw [hl]; rfl

/-- `pop(i)` for every valid index, negative included -/
theorem popAt_spec (cfg : Cfg) (s : ISet α) (h : Inv s) (k : Nat) (hk : k < s.toList.length) (i : Int)
    (hi : i = (k : Int) ∨ i = (k : Int) - (s.toList.length : Int)) :
    ∃ s', s.popAt cfg i = .ok (s', s.toList[k]) ∧ Inv s' ∧ s'.toList = s.toList.eraseIdx k := by
  have hlen := h.toInvC.len_eq
  unfold ISet.popAt
  by_cases hlast : i = -1 ∨ i = (s.len : Int) - 1
  · -- the last item: `item_list.pop()`
    simp only [hlast, if_true]
    have hkl : k = s.toList.length - 1 := by
      rw [hlen] at hlast
      rcases hi with hi | hi <;> rcases hlast with hl | hl <;> omega
    have hne : s.toList ≠ [] := by intro e; rw [e] at hk; simp at hk
    obtain ⟨s', h1, h2, h3⟩ := (popLast_spec cfg s h).1 hne
    refine ⟨s', ?_, h2, ?_⟩
    · rw [h1]
      have : s.toList.getLast hne = s.toList[k] := by
        rw [List.getLast_eq_getElem]; simp [hkl]
      rw [this]
    · rw [h3, hkl, List.dropLast_eq_take, List.eraseIdx_eq_take_drop_succ]
      have : s.toList.length - 1 + 1 = s.toList.length := by omega
      rw [this]; simp
  · simp only [hlast, if_false]
    have hn : s.normIndex i = some k := by
      rcases hi with hi | hi
      · rw [hi]; exact normIndex_nonneg s k
      · rw [hi, ← hlen]; exact normIndex_neg s k (by rw [hlen]; exact hk)
    rw [hn]
    simp only
    have hslot := slot_of_index s h.toInvC k hk
    simp only [hslot]
    have hkill := invC_kill s h.toInvC _ _ hslot
    have hcull := cull_spec cfg _ hkill.1
    refine ⟨_, rfl, hcull.1, ?_⟩
    rw [hcull.2]
    show live (s.items.set (realLoop k s.dead) none) = s.toList.eraseIdx k
    rw [hkill.2]
    show s.toList.erase s.toList[k] = s.toList.eraseIdx k
    exact List.erase_eq_eraseIdx_of_idxOf (h.nodup.idxOf_getElem k hk)


theorem reversed_eq (s : ISet α) : s.reversed = s.toList.reverse := live_reverse s.items

theorem reverse_spec (s : ISet α) (h : Inv s) : Inv s.reverse ∧ s.reverse.toList = s.toList.reverse := by
  unfold ISet.reverse
  have hp : s.reversed.Perm (live s.items) := by rw [reversed_eq]; exact List.reverse_perm _
  refine ⟨inv_rebuild s h.toInvC _ hp, ?_⟩
  show live (s.reversed.map some) = s.toList.reverse
  rw [live_map_some, reversed_eq]

theorem sortedList_perm (le : α → α → Bool) (rev : Bool) (l : List α) : (ISet.sortedList le rev l).Perm l := by
  unfold ISet.sortedList
  cases rev
  · simp; exact List.mergeSort_perm l le
  · simp
    exact (List.reverse_perm _).trans ((List.mergeSort_perm _ le).trans (List.reverse_perm l))

theorem sort_spec (le : α → α → Bool) (rev : Bool) (s : ISet α) (h : Inv s) :
    Inv (s.sort le rev) ∧ (s.sort le rev).toList = ISet.sortedList le rev s.toList := by
  unfold ISet.sort
  by_cases he : (ISet.sortedList le rev s.toList).map some = s.items
  · simp only [he, if_true]
    refine ⟨h, ?_⟩
    conv => lhs; unfold ISet.toList; rw [← he, live_map_some]
  · simp only [he, if_false]
    exact ⟨inv_rebuild s h.toInvC _ (sortedList_perm le rev _), by simp [ISet.toList, live_map_some]⟩

theorem clear_spec (s : ISet α) : Inv s.clear ∧ s.clear.toList = [] := ⟨inv_empty, rfl⟩

/-! ### folds of `add` / `discard`, `from_iterable` -/

theorem foldl_add_spec : ∀ (xs : List α) (s : ISet α), Inv s →
    Inv (xs.foldl ISet.add s) ∧ (xs.foldl ISet.add s).toList = xs.foldl specAdd s.toList
  | [], s, h => ⟨h, rfl⟩
  | x :: xs, s, h => by
    simp only [List.foldl_cons]
    have := foldl_add_spec xs (s.add x) (inv_add s h x)
    rw [toList_add s h.toInvC x] at this
    exact this

theorem ofList_spec (l : List α) : Inv (ISet.ofList l) ∧ (ISet.ofList l).toList = l.foldl specAdd [] :=
  foldl_add_spec l ISet.empty inv_empty

theorem foldl_discard_spec (cfg : Cfg) : ∀ (xs : List α) (s : ISet α), Inv s →
    Inv (xs.foldl (ISet.discard cfg) s) ∧
      (xs.foldl (ISet.discard cfg) s).toList = xs.foldl List.erase s.toList
  | [], s, h => ⟨h, rfl⟩
  | x :: xs, s, h => by
    simp only [List.foldl_cons]
    have hd := discard_spec cfg s h x
    have := foldl_discard_spec cfg xs _ hd.1
    rw [hd.2] at this
    exact this


/-! ## G. set algebra on plain lists -/
namespace Spec

@[simp] theorem notIn_eq_true (l : List α) (x : α) : notIn l x = true ↔ x ∉ l := by simp [notIn]
@[simp] theorem notIn_eq_false (l : List α) (x : α) : notIn l x = false ↔ x ∈ l := by simp [notIn]

theorem mem_specAdd (l : List α) (x y : α) : y ∈ specAdd l x ↔ y ∈ l ∨ y = x := by
  unfold specAdd; split
  · constructor
    · exact Or.inl
    · rintro (h | h)
      · exact h
      · subst h; assumption
  · simp

theorem nodup_specAdd (l : List α) (x : α) (h : l.Nodup) : (specAdd l x).Nodup := by
  unfold specAdd; split
  · exact h
  · rw [List.nodup_append]; refine ⟨h, by simp, ?_⟩
    intro a ha b hb e; simp at hb; subst hb; subst e; contradiction

theorem mem_addAll : ∀ (xs l : List α) (y : α), y ∈ addAll l xs ↔ y ∈ l ∨ y ∈ xs
  | [], l, y => by simp [addAll]
  | x :: xs, l, y => by
    have := mem_addAll xs (specAdd l x) y
    simp only [addAll, List.foldl_cons] at this ⊢
    rw [this, mem_specAdd]; simp only [List.mem_cons]
    constructor
    · rintro ((h | h) | h)
      · exact Or.inl h
      · exact Or.inr (Or.inl h)
      · exact Or.inr (Or.inr h)
    · rintro (h | h | h)
      · exact Or.inl (Or.inl h)
      · exact Or.inl (Or.inr h)
      · exact Or.inr h

theorem nodup_addAll : ∀ (xs l : List α), l.Nodup → (addAll l xs).Nodup
  | [], l, h => h
  | x :: xs, l, h => by
    have := nodup_addAll xs (specAdd l x) (nodup_specAdd l x h)
    simpa [addAll] using this

/-- the old items stay in front, in their order -/
theorem addAll_prefix : ∀ (xs l : List α), l <+: addAll l xs
  | [], l => by simp [addAll]
  | x :: xs, l => by
    have h1 := addAll_prefix xs (specAdd l x)
    have h2 : l <+: specAdd l x := by unfold specAdd; split <;> simp
    simpa [addAll] using h2.trans h1

/-- adding items that are all new and distinct is plain concatenation -/
theorem addAll_nodup : ∀ (xs l : List α), (l ++ xs).Nodup → addAll l xs = l ++ xs
  | [], l, _ => by simp [addAll]
  | x :: xs, l, h => by
    have hx : x ∉ l := by
      intro hm
      rw [List.nodup_append] at h
      exact h.2.2 x hm x (by simp) rfl
    have : specAdd l x = l ++ [x] := by simp [specAdd, hx]
    simp only [addAll, List.foldl_cons, this]
    have := addAll_nodup xs (l ++ [x]) (by simpa using h)
    simpa [addAll] using this

theorem dedup_nodup_eq (l : List α) (h : l.Nodup) : dedup l = l := by
  have := addAll_nodup l [] (by simpa using h)
  simpa [dedup] using this

theorem specAdd_shift (l a : List α) (x : α) :
    specAdd (l ++ a.filter (notIn l)) x = l ++ (specAdd a x).filter (notIn l) := by
  unfold specAdd
  by_cases hl : x ∈ l
  · have h1 : x ∈ l ++ a.filter (notIn l) := List.mem_append_left _ hl
    simp only [h1, if_true]
    split
    · rfl
    · simp [List.filter_append, hl]
  · by_cases ha : x ∈ a
    · have h1 : x ∈ l ++ a.filter (notIn l) := List.mem_append_right _ (by simp [ha, hl])
      simp [h1, ha]
    · have h1 : x ∉ l ++ a.filter (notIn l) := by simp [hl, ha]
      simp [h1, ha, hl, List.filter_append]

theorem addAll_shift : ∀ (xs l a : List α),
    addAll (l ++ a.filter (notIn l)) xs = l ++ (addAll a xs).filter (notIn l)
  | [], l, a => by simp [addAll]
  | x :: xs, l, a => by
    simp only [addAll, List.foldl_cons]
    rw [specAdd_shift]
    exact addAll_shift xs l (specAdd a x)

/-- union order: the receiver's items, then the operands' distinct new items by first appearance -/
theorem addAll_eq (l xs : List α) : addAll l xs = l ++ (dedup xs).filter (notIn l) := by
  have := addAll_shift xs l []
  simpa [dedup] using this

theorem mem_dedup (xs : List α) (y : α) : y ∈ dedup xs ↔ y ∈ xs := by
  simp [dedup, mem_addAll]

theorem nodup_dedup (xs : List α) : (dedup xs).Nodup := nodup_addAll xs [] (by simp)

/-- erasing a batch of items from a duplicate-free list = filtering them out -/
theorem foldl_erase : ∀ (xs l : List α), l.Nodup → xs.foldl List.erase l = l.filter (notIn xs)
  | [], l, _ => by
    have : ∀ y ∈ l, notIn [] y = true := by intro y _; simp [notIn]
    simp [List.filter_eq_self.2 this]
  | x :: xs, l, h => by
    simp only [List.foldl_cons]
    rw [foldl_erase xs (l.erase x) (h.erase x), h.erase_eq_filter x, List.filter_filter]
    apply List.filter_congr
    intro y _
    by_cases hyx : y = x <;> simp [notIn, hyx]

/-- the plain-list toggle of `symmetric_difference_update` -/
def specToggle (c : List α) (v : α) : List α := if v ∈ c then c.erase v else c ++ [v]

theorem foldl_toggle : ∀ (d c : List α), d.Nodup → c.Nodup →
    d.foldl specToggle c = c.filter (notIn d) ++ d.filter (notIn c)
  | [], c, _, _ => by
    have : ∀ y ∈ c, notIn [] y = true := by intro y _; simp [notIn]
    simp [List.filter_eq_self.2 this]
  | v :: d, c, hd, hc => by
    rw [List.nodup_cons] at hd
    simp only [List.foldl_cons]
    by_cases hv : v ∈ c
    · have ht : specToggle c v = c.erase v := by simp [specToggle, hv]
      rw [ht, foldl_toggle d (c.erase v) hd.2 (hc.erase v), hc.erase_eq_filter v, List.filter_filter]
      have e1 : List.filter (fun a => notIn d a && (a != v)) c = c.filter (notIn (v :: d)) := by
        apply List.filter_congr; intro y _
        by_cases hyv : y = v <;> simp [notIn, hyv]
      have e2 : d.filter (notIn (List.filter (fun x => x != v) c)) = (v :: d).filter (notIn c) := by
        rw [List.filter_cons]
        have : notIn c v = false := by simp [hv]
        simp only [this, Bool.false_eq_true, if_false]
        apply List.filter_congr; intro y hy
        have hyv : y ≠ v := fun e => hd.1 (e ▸ hy)
        simp [notIn, hyv]
      rw [e1, e2]
    · have ht : specToggle c v = c ++ [v] := by simp [specToggle, hv]
      have hcn : (c ++ [v]).Nodup := by
        rw [List.nodup_append]; refine ⟨hc, by simp, ?_⟩
        intro a ha b hb e; simp at hb; subst hb; subst e; exact hv ha
      rw [ht, foldl_toggle d (c ++ [v]) hd.2 hcn, List.filter_append]
      have e1 : c.filter (notIn d) = c.filter (notIn (v :: d)) := by
        apply List.filter_congr; intro y hy
        have hyv : y ≠ v := fun e => hv (e ▸ hy)
        simp [notIn, hyv]
      have e2 : [v].filter (notIn d) = [v] := by simp [hd.1]
      have e3 : d.filter (notIn (c ++ [v])) = d.filter (notIn c) := by
        apply List.filter_congr; intro y hy
        have hyv : y ≠ v := fun e => hd.1 (e ▸ hy)
        simp [notIn, hyv]
      have e4 : (v :: d).filter (notIn c) = v :: d.filter (notIn c) := by
        rw [List.filter_cons]; simp [hv]
      rw [e1, e2, e3, e4]; simp

end Spec

open Spec

/-! ### the model's set methods against the plain-list ones -/

theorem toList_nodup {s : ISet α} (h : InvC s) : s.toList.Nodup := h.nodup

theorem opElems_eq (s : ISet α) (o : Operand α) : s.opElems o = opItems s.toList o := by
  unfold ISet.opElems opItems; cases o.kind <;> rfl

theorem opMem_eq (s : ISet α) (h : InvC s) (o : Operand α) (k : α) : s.opMem o k = memOp s.toList o k := by
  unfold ISet.opMem memOp opItems
  cases o.kind with
  | self =>
    simp only
    by_cases hk : k ∈ s.toList
    · simp [hk, (h.contains_iff k).2 hk]
    · have : s.contains k = false := by
        cases hc : s.contains k with
        | false => rfl
        | true => exact absurd ((h.contains_iff k).1 hc) hk
      simp [hk, this]
  | iset => simp [List.contains_iff_mem]
  | coll => simp [List.contains_iff_mem]

theorem inAll_eq (s : ISet α) (h : InvC s) (os : List (Operand α)) (k : α) :
    s.inAll os k = Spec.inAll s.toList os k := by
  unfold ISet.inAll Spec.inAll
  induction os with
  | nil => rfl
  | cons o os ih => simp [List.all_cons, opMem_eq s h, ih]

theorem inNone_eq (s : ISet α) (h : InvC s) (os : List (Operand α)) (k : α) :
    s.inNone os k = Spec.inNone s.toList os k := by
  unfold ISet.inNone Spec.inNone
  induction os with
  | nil => rfl
  | cons o os ih => simp [List.all_cons, opMem_eq s h, ih]

theorem flatMap_opElems (s : ISet α) (os : List (Operand α)) :
    os.flatMap s.opElems = os.flatMap (opItems s.toList) := by
  induction os with
  | nil => rfl
  | cons o os ih => simp [List.flatMap_cons, opElems_eq, ih]

theorem ofList_nodup (l : List α) (h : l.Nodup) : (ISet.ofList l).toList = l := by
  rw [(ofList_spec l).2]
  exact dedup_nodup_eq l h

theorem union_spec (s : ISet α) (h : Inv s) (os : List (Operand α)) :
    Inv (s.union os) ∧ (s.union os).toList = addAll s.toList (os.flatMap (opItems s.toList)) := by
  unfold ISet.union
  refine ⟨(ofList_spec _).1, ?_⟩
  rw [(ofList_spec _).2, List.foldl_append, flatMap_opElems]
  have : s.toList.foldl specAdd [] = s.toList := dedup_nodup_eq _ h.nodup
  rw [this]; rfl

theorem inter_spec (s : ISet α) (h : Inv s) (os : List (Operand α)) :
    Inv (s.inter os) ∧ (s.inter os).toList = s.toList.filter (Spec.inAll s.toList os) := by
  unfold ISet.inter
  refine ⟨(ofList_spec _).1, ?_⟩
  rw [ofList_nodup _ ((toList_nodup h.toInvC).sublist List.filter_sublist)]
  exact List.filter_congr (fun k _ => inAll_eq s h.toInvC os k)

theorem diff_spec (s : ISet α) (h : Inv s) (os : List (Operand α)) :
    Inv (s.diff os) ∧ (s.diff os).toList = s.toList.filter (Spec.inNone s.toList os) := by
  unfold ISet.diff
  refine ⟨(ofList_spec _).1, ?_⟩
  rw [ofList_nodup _ ((toList_nodup h.toInvC).sublist List.filter_sublist)]
  exact List.filter_congr (fun k _ => inNone_eq s h.toInvC os k)

/-- `difference` against one IndexedSet operand `t` -/
theorem diff_iset (s t : ISet α) (h : Inv s) :
    (s.diff [t.asOperand]).toList = s.toList.filter (notIn t.toList) := by
  rw [(diff_spec s h _).2]
  apply List.filter_congr
  intro k _
  by_cases hk : k ∈ t.toList <;> simp [Spec.inNone, memOp, opItems, ISet.asOperand, notIn, hk]

theorem update_spec (s : ISet α) (h : Inv s) (os : List (Operand α)) :
    Inv (s.update os) ∧ (s.update os).toList = addAll s.toList (os.flatMap (opItems s.toList)) := by
  unfold ISet.update
  cases os with
  | nil => simp [addAll]; exact h
  | cons o os =>
    simp only [List.isEmpty_cons, Bool.false_eq_true, if_false]
    have := foldl_add_spec ((o :: os).flatMap s.opElems) s h
    rw [flatMap_opElems] at this
    exact this

theorem filter_notIn_filter (l : List α) (p : α → Bool) :
    l.filter (notIn (l.filter fun k => !p k)) = l.filter p := by
  apply List.filter_congr
  intro k hk
  cases hp : p k <;> simp [notIn, hk, hp]

theorem interUpdate_spec (cfg : Cfg) (s : ISet α) (h : Inv s) (os : List (Operand α)) :
    Inv (s.interUpdate cfg os) ∧ (s.interUpdate cfg os).toList = s.toList.filter (Spec.inAll s.toList os) := by
  unfold ISet.interUpdate
  have hf := foldl_discard_spec cfg (s.diff [(s.inter os).asOperand]).toList s h
  refine ⟨hf.1, ?_⟩
  rw [hf.2, foldl_erase _ _ (toList_nodup h.toInvC), diff_iset s _ h, (inter_spec s h os).2]
  have := filter_notIn_filter s.toList (Spec.inAll s.toList os)
  rw [← this]
  congr 2
  apply List.filter_congr
  intro k hk
  cases hp : Spec.inAll s.toList os k <;> simp [notIn, hk, hp]

theorem eqOperand_imp (s : ISet α) (o : Operand α) (he : s.eqOperand o = true) :
    ∀ k ∈ s.toList, k ∈ opItems s.toList o := by
  unfold ISet.eqOperand at he
  unfold opItems
  intro k hk
  cases hkind : o.kind with
  | self => simpa using hk
  | iset =>
    rw [hkind] at he; simp at he
    simp only; rw [← he.2]; exact hk
  | coll =>
    rw [hkind] at he; simp at he
    simp only; exact he.1 k hk

theorem diffUpdate_spec (cfg : Cfg) (s : ISet α) (h : Inv s) (os : List (Operand α)) :
    Inv (s.diffUpdate cfg os) ∧ (s.diffUpdate cfg os).toList = s.toList.filter (Spec.inNone s.toList os) := by
  have core : ∀ t : ISet α, Inv t →
      Inv ((t.diff [(t.diff os).asOperand]).toList.foldl (ISet.discard cfg) t) ∧
      ((t.diff [(t.diff os).asOperand]).toList.foldl (ISet.discard cfg) t).toList =
        t.toList.filter (Spec.inNone t.toList os) := by
    intro t ht
    have hf := foldl_discard_spec cfg (t.diff [(t.diff os).asOperand]).toList t ht
    refine ⟨hf.1, ?_⟩
    rw [hf.2, foldl_erase _ _ (toList_nodup ht.toInvC), diff_iset t _ ht, (diff_spec t ht os).2]
    have := filter_notIn_filter t.toList (Spec.inNone t.toList os)
    rw [← this]
    congr 2
    apply List.filter_congr
    intro k hk
    cases hp : Spec.inNone t.toList os k <;> simp [notIn, hk, hp]
  unfold ISet.diffUpdate
  by_cases he : os.any s.eqOperand = true
  · simp only [he, if_true]
    have hc := core s.clear inv_empty
    refine ⟨hc.1, ?_⟩
    rw [hc.2]
    have hclear : (s.clear).toList = [] := rfl
    rw [hclear]
    simp only [List.filter_nil]
    -- some operand contains every item of the receiver: nothing survives the difference
    obtain ⟨o, ho, heq⟩ := List.any_eq_true.1 he
    symm
    rw [List.filter_eq_nil_iff]
    intro k hk hall
    have hm := eqOperand_imp s o heq k hk
    unfold Spec.inNone at hall
    have := (List.all_eq_true.1 hall) o ho
    simp [memOp, hm] at this
  · simp only [he, if_false]
    exact core s h


theorem symdiff_spec (s : ISet α) (h : Inv s) (o : Operand α) :
    Inv (s.symdiff [o]) ∧ (s.symdiff [o]).toList = symdiff1 s.toList o := by
  unfold ISet.symdiff
  have hU := union_spec s h [o]
  have hI := inter_spec s h [o]
  refine ⟨(diff_spec _ hU.1 _).1, ?_⟩
  rw [diff_iset _ _ hU.1, hU.2, hI.2]
  simp only [List.flatMap_cons, List.flatMap_nil, List.append_nil]
  rw [addAll_eq, List.filter_append]
  unfold symdiff1
  congr 1
  · apply List.filter_congr
    intro k hk
    by_cases hm : k ∈ opItems s.toList o <;> simp [notIn, Spec.inAll, memOp, hk, hm]
  · rw [List.filter_eq_self]
    intro k hk
    have hkl : k ∉ s.toList := by
      have := (List.mem_filter.1 hk).2
      simpa using this
    simp [notIn, hkl]

theorem toggle_spec (cfg : Cfg) (s : ISet α) (h : Inv s) (v : α) :
    Inv (s.toggle cfg v) ∧ (s.toggle cfg v).toList = specToggle s.toList v := by
  unfold ISet.toggle specToggle
  by_cases hv : v ∈ s.toList
  · have := (h.toInvC.contains_iff v).2 hv
    simp only [this, if_true, hv]
    exact discard_spec cfg s h v
  · have hc : s.contains v = false := by
      cases hc : s.contains v with
      | false => rfl
      | true => exact absurd ((h.toInvC.contains_iff v).1 hc) hv
    simp only [hc, Bool.false_eq_true, if_false, hv]
    refine ⟨inv_add s h v, ?_⟩
    rw [toList_add s h.toInvC v]; simp [hv]

theorem foldl_toggle_spec (cfg : Cfg) : ∀ (d : List α) (s : ISet α), Inv s →
    Inv (d.foldl (ISet.toggle cfg) s) ∧ (d.foldl (ISet.toggle cfg) s).toList = d.foldl specToggle s.toList
  | [], s, h => ⟨h, rfl⟩
  | v :: d, s, h => by
    simp only [List.foldl_cons]
    have ht := toggle_spec cfg s h v
    have := foldl_toggle_spec cfg d _ ht.1
    rw [ht.2] at this
    exact this

theorem symUpdate_spec (cfg : Cfg) (s : ISet α) (h : Inv s) (o : Operand α) :
    Inv (s.symUpdate cfg o) ∧ (s.symUpdate cfg o).toList = symdiff1 s.toList o := by
  unfold ISet.symUpdate symdiff1 opItems
  cases hk : o.kind with
  | self =>
    simp only
    refine ⟨inv_empty, ?_⟩
    have e1 : s.toList.filter (notIn s.toList) = [] := by
      rw [List.filter_eq_nil_iff]; intro k hk; simp [notIn, hk]
    have e2 : (dedup s.toList).filter (notIn s.toList) = [] := by
      rw [List.filter_eq_nil_iff]; intro k hk
      have := (mem_dedup s.toList k).1 hk
      simp [notIn, this]
    rw [e1, e2]; rfl
  | iset =>
    simp only
    have hd : (ISet.ofList o.elems).toList = dedup o.elems := (ofList_spec o.elems).2
    have hf := foldl_toggle_spec cfg (ISet.ofList o.elems).toList s h
    refine ⟨hf.1, ?_⟩
    rw [hf.2, hd, foldl_toggle _ _ (nodup_dedup _) (toList_nodup h.toInvC)]
    congr 1
    apply List.filter_congr
    intro k _
    by_cases hm : k ∈ o.elems <;> simp [notIn, mem_dedup, hm]
  | coll =>
    simp only
    have hd : (ISet.ofList o.elems).toList = dedup o.elems := (ofList_spec o.elems).2
    have hf := foldl_toggle_spec cfg (ISet.ofList o.elems).toList s h
    refine ⟨hf.1, ?_⟩
    rw [hf.2, hd, foldl_toggle _ _ (nodup_dedup _) (toList_nodup h.toInvC)]
    congr 1
    apply List.filter_congr
    intro k _
    by_cases hm : k ∈ o.elems <;> simp [notIn, mem_dedup, hm]

theorem contains_eq (s : ISet α) (h : InvC s) (k : α) : s.contains k = decide (k ∈ s.toList) := by
  by_cases hk : k ∈ s.toList
  · simp [hk, (h.contains_iff k).2 hk]
  · cases hc : s.contains k with
    | false => simp [hk]
    | true => exact absurd ((h.contains_iff k).1 hc) hk

theorem rsub_spec (s : ISet α) (h : Inv s) (o : Operand α) :
    s.rsub o = (opItems s.toList o).filter (notIn s.toList) := by
  unfold ISet.rsub
  rw [opElems_eq]
  apply List.filter_congr
  intro k _
  simp [contains_eq s h.toInvC, notIn]

theorem issuperset_spec (s : ISet α) (h : Inv s) (o : Operand α) :
    s.issuperset o = (opItems s.toList o).all fun x => decide (x ∈ s.toList) := by
  unfold ISet.issuperset
  rw [opElems_eq]
  congr 1
  funext k
  exact contains_eq s h.toInvC k

theorem isdisjoint_spec (s : ISet α) (h : Inv s) (o : Operand α) :
    s.isdisjoint o = (opItems s.toList o).all (notIn s.toList) := by
  unfold ISet.isdisjoint
  rw [opElems_eq]
  congr 1
  funext k
  simp [contains_eq s h.toInvC, notIn]

theorem issubset_spec (s : ISet α) (h : Inv s) (o : Operand α) :
    s.issubset o = s.toList.all (memOp s.toList o) := by
  unfold ISet.issubset
  have hall : (IMap.keys s.idx).all (s.opMem o) = s.toList.all (memOp s.toList o) := by
    rw [h.perm.all_eq]
    show s.toList.all (s.opMem o) = s.toList.all (memOp s.toList o)
    congr 1
    funext k
    exact opMem_eq s h.toInvC o k
  by_cases hlt : s.opLen o < s.len
  · simp only [hlt, if_true]
    symm
    cases hc : s.toList.all (memOp s.toList o) with
    | false => rfl
    | true =>
      exfalso
      have hsub : s.toList ⊆ opItems s.toList o := by
        intro k hk
        have := (List.all_eq_true.1 hc) k hk
        simpa [memOp] using this
      have hle := (toList_nodup h.toInvC).length_le_of_subset hsub
      rw [h.toInvC.len_eq] at hlt
      unfold ISet.opLen at hlt
      unfold opItems at hle
      cases hk : o.kind <;> simp only [hk] at hlt hle
      · rw [h.toInvC.len_eq] at hlt; omega
      · omega
      · omega
  · simp only [hlt, if_false]
    exact hall


/-! ## H. slices -/

theorem pickIdx_sublist (sel : Nat → Bool) : ∀ (l : List α) (j : Nat), (pickIdx sel j l).Sublist l
  | [], _ => by simp [pickIdx]
  | x :: xs, j => by
    simp only [pickIdx]; split
    · exact (pickIdx_sublist sel xs (j + 1)).cons_cons x
    · exact (pickIdx_sublist sel xs (j + 1)).cons x

/-- positions below `start` are never selected: skip them -/
theorem pickIdx_drop (start stop c : Nat) : ∀ (l : List α) (j : Nat), j ≤ start →
    pickIdx (sliceSel start stop c) j l = pickIdx (sliceSel start stop c) start (l.drop (start - j))
  | [], j, _ => by simp [pickIdx]
  | x :: xs, j, hj => by
    by_cases he : j = start
    · subst he; simp
    · have hlt : j < start := by omega
      have hsel : sliceSel start stop c j = false := by simp [sliceSel]; omega
      have hd : start - j = (start - (j + 1)) + 1 := by omega
      simp only [pickIdx, hsel, Bool.false_eq_true, if_false]
      rw [pickIdx_drop start stop c xs (j + 1) (by omega), hd, List.drop_succ_cons]

/-- positions at or beyond `stop` are never selected: cut them -/
theorem pickIdx_take (start stop c : Nat) : ∀ (l : List α) (j : Nat),
    pickIdx (sliceSel start stop c) j l = pickIdx (sliceSel start stop c) j (l.take (stop - j))
  | [], j => by simp [pickIdx]
  | x :: xs, j => by
    by_cases hlt : j < stop
    · have hd : stop - j = (stop - (j + 1)) + 1 := by omega
      rw [hd, List.take_succ_cons]
      simp only [pickIdx]
      rw [← pickIdx_take start stop c xs (j + 1)]
    · have h0 : stop - j = 0 := by omega
      have hsel : sliceSel start stop c j = false := by simp [sliceSel]; omega
      simp only [h0, List.take_zero, pickIdx, hsel, Bool.false_eq_true, if_false]
      have : ∀ (l : List α) (j : Nat), stop ≤ j → pickIdx (sliceSel start stop c) j l = [] := by
        intro l; induction l with
        | nil => intro j _; rfl
        | cons y ys ih =>
          intro j hj
          have hsel : sliceSel start stop c j = false := by simp [sliceSel]; omega
          simp only [pickIdx, hsel, Bool.false_eq_true, if_false]
          exact ih (j + 1) (by omega)
      exact this xs (j + 1) (by omega)

/-- within the bounds the selection is "every c-th"; `t` counts down to the next pick -/
theorem pickIdx_stride (start stop c : Nat) (hc : 0 < c) : ∀ (l : List α) (j t : Nat),
    start ≤ j → j + l.length ≤ stop → t < c → (j - start + t) % c = 0 →
    pickIdx (sliceSel start stop c) j l = everyNth c t l
  | [], j, t, _, _, _, _ => by cases t <;> simp [pickIdx, everyNth]
  | x :: xs, j, t, hj, hl, ht, hm => by
    simp only [List.length_cons] at hl
    cases t with
    | zero =>
      have hsel : sliceSel start stop c j = true := by
        simp [sliceSel]; refine ⟨hj, by omega, ?_⟩; simpa using hm
      simp only [pickIdx, hsel, if_true, everyNth]
      rw [pickIdx_stride start stop c hc xs (j + 1) (c - 1) (by omega) (by omega) (by omega) ?_]
      have e : j + 1 - start + (c - 1) = (j - start) + c := by omega
      rw [e, Nat.add_mod_right]; simpa using hm
    | succ k =>
      have hsel : sliceSel start stop c j = false := by
        simp only [sliceSel, decide_eq_false_iff_not]
        rintro ⟨_, _, h0⟩
        have : (j - start + (k + 1)) % c = k + 1 := by
          rw [Nat.add_mod, h0, Nat.zero_add, Nat.mod_mod, Nat.mod_eq_of_lt ht]
        omega
      simp only [pickIdx, hsel, Bool.false_eq_true, if_false, everyNth]
      apply pickIdx_stride start stop c hc xs (j + 1) k (by omega) (by omega) (by omega)
      have e : j + 1 - start + k = j - start + (k + 1) := by omega
      rw [e]; exact hm

/-- `islice` over the plain iteration is Python's list slicing (positive step) -/
theorem islice_eq_pickIdx (l : List α) (start : Nat) (stop : Option Nat) (c : Nat) (hc : 0 < c) :
    islice l start stop c = pickIdx (sliceSel start (stop.getD l.length) c) 0 l := by
  unfold islice
  rw [pickIdx_drop start _ c l 0 (Nat.zero_le _), pickIdx_take, Nat.sub_zero]
  have key : ∀ e : Nat, pickIdx (sliceSel start e c) start (List.take (e - start) (List.drop start l))
      = everyNth c 0 ((l.take e).drop start) := by
    intro e
    rw [List.drop_take]
    by_cases hes : e < start
    · have h0 : e - start = 0 := by omega
      simp [h0, pickIdx, everyNth]
    · apply pickIdx_stride start e c hc _ start 0 (Nat.le_refl _) ?_ hc (by simp)
      rw [List.length_take]; omega
  cases stop with
  | none =>
    simp only [Option.getD_none]
    rw [key l.length, List.take_length]
  | some e => simp only [Option.getD_some]; exact (key e).symm


theorem normBound_eq (n : Nat) (v : Int) : normBound n (some v) = some (sliceBound n v) := by
  simp only [normBound, sliceBound]; split <;> rfl

/-- `s[a:b:c]`, `c` positive or omitted -/
theorem getSlice_spec (s : ISet α) (h : Inv s) (a b : Option Int) (c : Nat) (hc : 0 < c)
    (co : Option Int) (hco : (co = none ∧ c = 1) ∨ co = some (c : Int)) :
    ∃ t, s.getSlice a b co = .ok t ∧ Inv t ∧ t.toList = pySlice s.toList a b c := by
  have hlen := h.toInvC.len_eq
  have hiter : s.iterSlice a b co = .ok (islice s.toList ((normBound s.len a).getD 0) (normBound s.len b) c) := by
    unfold ISet.iterSlice
    rcases hco with ⟨h1, h2⟩ | h1
    · subst h1; subst h2; rfl
    · subst h1
      have h0 : ¬ ((c : Int) = 0) := by omega
      have hneg : ¬ ((c : Int) < 0) := by omega
      simp [h0, hneg]; omega
  unfold ISet.getSlice
  rw [hiter]
  simp only
  refine ⟨_, rfl, (ofList_spec _).1, ?_⟩
  rw [islice_eq_pickIdx _ _ _ _ hc]
  rw [ofList_nodup _ ((toList_nodup h.toInvC).sublist (pickIdx_sublist _ _ _))]
  unfold pySlice
  rw [hlen]
  congr 2
  · cases a with
    | none => rfl
    | some v => rw [normBound_eq]; rfl
  · cases b with
    | none => rfl
    | some v => rw [normBound_eq]; rfl


/-! ## I. one step of a history -/

theorem pyIndex_some (n : Nat) (i : Int) (k : Nat) (h : pyIndex n i = some k) :
    k < n ∧ (i = (k : Int) ∨ i = (k : Int) - (n : Int)) := by
  unfold pyIndex at h
  split at h
  · simp at h; omega
  · split at h
    · simp at h; omega
    · cases h

theorem step_refines (cfg : Cfg) (le : α → α → Bool) (s : ISet α) (h : Inv s) (op : Op α)
    (hv : ValidOp s.toList op) :
    Inv (step cfg le s op).1 ∧ (step cfg le s op).1.toList = (Spec.step le s.toList op).1 ∧
      (step cfg le s op).2 = (Spec.step le s.toList op).2 := by
  cases op with
  | add x => exact ⟨inv_add s h x, by simp [step, Spec.step, toList_add s h.toInvC x, specAdd], rfl⟩
  | remove x =>
    simp only [step, Spec.step]
    by_cases hx : x ∈ s.toList
    · obtain ⟨s', h1, h2, h3⟩ := (remove_spec cfg s h x).1 hx
      simp [h1, hx, h2, h3]
    · simp [(remove_spec cfg s h x).2 hx, hx, h]
  | discard x =>
    have := discard_spec cfg s h x
    exact ⟨this.1, this.2, rfl⟩
  | pop =>
    simp only [step, Spec.step]
    by_cases hne : s.toList = []
    · simp [(popLast_spec cfg s h).2 hne, hne, h]
    · obtain ⟨s', h1, h2, h3⟩ := (popLast_spec cfg s h).1 hne
      have hl : s.toList.getLast? = some (s.toList.getLast hne) := List.getLast?_eq_some_getLast hne
      simp [h1, hl, h2, h3]
  | popAt i =>
    simp only [step, Spec.step]
    simp only [ValidOp] at hv
    cases hp : pyIndex s.toList.length i with
    | none => rw [hp] at hv; cases hv
    | some k =>
      obtain ⟨hk, hi⟩ := pyIndex_some _ _ _ hp
      obtain ⟨s', h1, h2, h3⟩ := popAt_spec cfg s h k hk i hi
      simp [h1, h2, h3, List.getElem?_eq_getElem hk]
  | clear => exact ⟨inv_empty, rfl, rfl⟩
  | sort rev =>
    have := sort_spec le rev s h
    exact ⟨this.1, this.2, rfl⟩
  | sortBy lek rev bad =>
    simp only [step, Spec.step, ISet.sortBy, ISet.sortRaises, h.toInvC.len_eq]
    by_cases hb : (decide (2 ≤ s.toList.length) && s.toList.any fun x => bad.contains x) = true
    · simp only [hb, if_true]
      refine ⟨h, ?_, ?_⟩ <;> first | rfl | trivial
    · simp only [hb]
      have := sort_spec lek rev s h
      exact ⟨this.1, this.2, rfl⟩
  | reverse =>
    have := reverse_spec s h
    exact ⟨this.1, this.2, rfl⟩
  | update os =>
    have := update_spec s h os
    exact ⟨this.1, this.2, rfl⟩
  | interUpdate os =>
    have := interUpdate_spec cfg s h os
    exact ⟨this.1, this.2, rfl⟩
  | diffUpdate os =>
    have := diffUpdate_spec cfg s h os
    exact ⟨this.1, this.2, rfl⟩
  | symUpdate o =>
    have := symUpdate_spec cfg s h o
    exact ⟨this.1, this.2, rfl⟩
  | iter => exact ⟨h, rfl, rfl⟩
  | len => exact ⟨h, rfl, by simp [step, Spec.step, h.toInvC.len_eq]⟩
  | contains x => exact ⟨h, rfl, by simp [step, Spec.step, contains_eq s h.toInvC x]⟩
  | get i =>
    refine ⟨h, rfl, ?_⟩
    simp only [step, Spec.step]
    simp only [ValidOp] at hv
    cases hp : pyIndex s.toList.length i with
    | none => rw [hp] at hv; cases hv
    | some k =>
      obtain ⟨hk, hi⟩ := pyIndex_some _ _ _ hp
      simp [getItem_spec s h k hk i hi, List.getElem?_eq_getElem hk]
  | slice a b c =>
    refine ⟨h, rfl, ?_⟩
    simp only [step, Spec.step]
    simp only [ValidOp] at hv
    rcases hv with hv | ⟨v, hv, hpos⟩
    · subst hv
      obtain ⟨t, h1, _, h3⟩ := getSlice_spec s h a b 1 (by omega) none (Or.inl ⟨rfl, rfl⟩)
      simp [h1, h3]
    · subst hv
      have hv0 : ¬ v = 0 := by omega
      have hvn : (v.toNat : Int) = v := Int.toNat_of_nonneg (by omega)
      obtain ⟨t, h1, _, h3⟩ := getSlice_spec s h a b v.toNat (by omega) (some v) (Or.inr (by rw [hvn]))
      simp [h1, h3, hv0]
  | index x =>
    refine ⟨h, rfl, ?_⟩
    simp only [step, Spec.step]
    by_cases hx : x ∈ s.toList
    · simp [(index_spec s h x).1 hx, hx]
    · simp [(index_spec s h x).2 hx, hx]
  | count x =>
    refine ⟨h, rfl, ?_⟩
    simp only [step, Spec.step, ISet.count, contains_eq s h.toInvC x]
    rw [(toList_nodup h.toInvC).count]
    by_cases hx : x ∈ s.toList <;> simp [hx]
  | reversed => exact ⟨h, rfl, by simp [step, Spec.step, reversed_eq]⟩
  | union os => exact ⟨h, rfl, by simp [step, Spec.step, (union_spec s h os).2]⟩
  | inter os => exact ⟨h, rfl, by simp [step, Spec.step, (inter_spec s h os).2]⟩
  | diff os => exact ⟨h, rfl, by simp [step, Spec.step, (diff_spec s h os).2]⟩
  | symdiff os =>
    refine ⟨h, rfl, ?_⟩
    simp only [ValidOp] at hv
    match os, hv with
    | [o], _ => simp [step, Spec.step, (symdiff_spec s h o).2]
  | rsub o => exact ⟨h, rfl, by simp [step, Spec.step, rsub_spec s h o]⟩
  | issubset o => exact ⟨h, rfl, by simp [step, Spec.step, issubset_spec s h o]⟩
  | issuperset o => exact ⟨h, rfl, by simp [step, Spec.step, issuperset_spec s h o]⟩
  | isdisjoint o => exact ⟨h, rfl, by simp [step, Spec.step, isdisjoint_spec s h o]⟩


theorem popLast_inv (cfg : Cfg) (s : ISet α) (h : Inv s) :
    ∀ r, s.popLast cfg = .ok r → Inv r.1 := by
  intro r hr
  by_cases hne : s.toList = []
  · rw [(popLast_spec cfg s h).2 hne] at hr; cases hr
  · obtain ⟨s', h1, h2, _⟩ := (popLast_spec cfg s h).1 hne
    rw [h1] at hr; cases hr; exact h2

theorem popAt_inv (cfg : Cfg) (s : ISet α) (h : Inv s) (i : Int) :
    ∀ r, s.popAt cfg i = .ok r → Inv r.1 := by
  intro r hr
  unfold ISet.popAt at hr
  split at hr
  · exact popLast_inv cfg s h r hr
  · split at hr
    · cases hr
    · next k _ =>
      simp only at hr
      split at hr
      · cases hr
      · cases hr
      · next x hx =>
        cases hr
        exact (cull_spec cfg _ (invC_kill s h.toInvC _ x hx).1).1

/-- every operation, with any argument whatsoever, preserves the representation invariant -/
theorem step_inv (cfg : Cfg) (le : α → α → Bool) (s : ISet α) (h : Inv s) (op : Op α) :
    Inv (step cfg le s op).1 := by
  cases op with
  | popAt i =>
    simp only [step]
    cases hr : s.popAt cfg i with
    | error e => exact h
    | ok r => exact popAt_inv cfg s h i r hr
  | get i => exact h
  | slice a b c => exact h
  | symdiff os => exact h
  | add x => exact (step_refines cfg le s h (.add x) trivial).1
  | remove x => exact (step_refines cfg le s h (.remove x) trivial).1
  | discard x => exact (step_refines cfg le s h (.discard x) trivial).1
  | pop => exact (step_refines cfg le s h .pop trivial).1
  | clear => exact (step_refines cfg le s h .clear trivial).1
  | sort rev => exact (step_refines cfg le s h (.sort rev) trivial).1
  | sortBy lek rev bad => exact (step_refines cfg le s h (.sortBy lek rev bad) trivial).1
  | reverse => exact (step_refines cfg le s h .reverse trivial).1
  | update os => exact (step_refines cfg le s h (.update os) trivial).1
  | interUpdate os => exact (step_refines cfg le s h (.interUpdate os) trivial).1
  | diffUpdate os => exact (step_refines cfg le s h (.diffUpdate os) trivial).1
  | symUpdate o => exact (step_refines cfg le s h (.symUpdate o) trivial).1
  | iter => exact h
  | len => exact h
  | contains x => exact h
  | index x => exact h
  | count x => exact h
  | reversed => exact h
  | union os => exact h
  | inter os => exact h
  | diff os => exact h
  | rsub o => exact h
  | issubset o => exact h
  | issuperset o => exact h
  | isdisjoint o => exact h

theorem runState_inv (cfg : Cfg) (le : α → α → Bool) : ∀ (ops : List (Op α)) (s : ISet α), Inv s →
    Inv (runState cfg le s ops)
  | [], s, h => h
  | op :: ops, s, h => runState_inv cfg le ops _ (step_inv cfg le s h op)

theorem run_refines (cfg : Cfg) (le : α → α → Bool) : ∀ (ops : List (Op α)) (s : ISet α), Inv s →
    ValidRun le s.toList ops →
    runOuts cfg le s ops = Spec.runOuts le s.toList ops ∧
      (runState cfg le s ops).toList = Spec.runState le s.toList ops
  | [], s, h, _ => ⟨rfl, rfl⟩
  | op :: ops, s, h, hv => by
    obtain ⟨hv1, hv2⟩ := hv
    obtain ⟨h1, h2, h3⟩ := step_refines cfg le s h op hv1
    rw [← h2] at hv2
    have ih := run_refines cfg le ops _ h1 hv2
    simp only [runOuts, runState, Spec.runOuts, Spec.runState]
    rw [h3, ih.1, ih.2, h2]
    exact ⟨rfl, rfl⟩

/-! ### several sets at once -/

/-- a machine and its specification are in step: same cursor (inside the register file), every
    register satisfies the invariant and iterates as the corresponding plain list -/
structure MRel (m : Mach α) (sm : SMach α) : Prop where
  cur : m.cur = sm.cur
  bound : m.cur < m.regs.length
  views : m.views = sm.regs
  inv : ∀ s ∈ m.regs, Inv s

theorem MRel.curSet_inv {m : Mach α} {sm : SMach α} (h : MRel m sm) : Inv m.curSet := by
  unfold Mach.curSet
  rw [List.getElem?_eq_getElem h.bound]
  exact h.inv _ (List.getElem_mem _)

theorem MRel.curSet_toList {m : Mach α} {sm : SMach α} (h : MRel m sm) : m.curSet.toList = sm.curList := by
  unfold Mach.curSet SMach.curList
  rw [← h.views, ← h.cur, Mach.views, List.getElem?_map, List.getElem?_eq_getElem h.bound]
  rfl

theorem resultSet_spec (o : Out α) : Inv (resultSet o) ∧ (resultSet o).toList = resultList o := by
  cases o <;> first | exact ⟨inv_empty, rfl⟩ | exact ofList_spec _

theorem mstep_refines (cfg : Cfg) (le : α → α → Bool) (m : Mach α) (sm : SMach α) (h : MRel m sm)
    (op : MOp α) (hv : MValidOp sm op) :
    MRel (mstep cfg le m op).1 (Spec.mstep le sm op).1 ∧ (mstep cfg le m op).2 = (Spec.mstep le sm op).2 := by
  have hlen : sm.regs.length = m.regs.length := by rw [← h.views]; simp [Mach.views]
  cases op with
  | sel k =>
    simp only [mstep, Spec.mstep, hlen]
    by_cases hk : k < m.regs.length
    · simp only [hk, if_true]
      refine ⟨⟨rfl, hk, h.views, h.inv⟩, ?_⟩ <;> first | rfl | trivial
    · simp only [hk, if_false]
      refine ⟨h, ?_⟩ <;> first | rfl | trivial
  | run f =>
    simp only [MValidOp] at hv
    rw [← h.curSet_toList, ← h.views] at hv
    obtain ⟨h1, h2, h3⟩ := step_refines cfg le m.curSet h.curSet_inv (f m.views) hv
    simp only [mstep, Spec.mstep]
    rw [← h.views, ← h.curSet_toList, ← h.cur]
    refine ⟨⟨rfl, by simpa using h.bound, ?_, ?_⟩, h3⟩
    · show (m.regs.set m.cur _).map ISet.toList = _
      rw [List.map_set, h2]; rfl
    · intro s hs
      rcases List.mem_or_eq_of_mem_set hs with hs | hs
      · exact h.inv s hs
      · rw [hs]; exact h1
  | fork f =>
    simp only [MValidOp] at hv
    rw [← h.curSet_toList, ← h.views] at hv
    obtain ⟨h1, h2, h3⟩ := step_refines cfg le m.curSet h.curSet_inv (f m.views) hv
    simp only [mstep, Spec.mstep]
    rw [← h.views, ← h.curSet_toList, ← h.cur]
    refine ⟨⟨rfl, ?_, ?_, ?_⟩, h3⟩
    · have := h.bound
      simp; omega
    · show (m.regs.set m.cur _ ++ [_]).map ISet.toList = _
      rw [List.map_append, List.map_set, h2, h3]
      simp [Mach.views, (resultSet_spec _).2]
    · intro s hs
      rcases List.mem_append.1 hs with hs | hs
      · rcases List.mem_or_eq_of_mem_set hs with hs | hs
        · exact h.inv s hs
        · rw [hs]; exact h1
      · rw [List.mem_singleton.1 hs]; exact (resultSet_spec _).1

theorem mrun_refines (cfg : Cfg) (le : α → α → Bool) : ∀ (ops : List (MOp α)) (m : Mach α) (sm : SMach α),
    MRel m sm → MValidRun le sm ops →
    mrunOuts cfg le m ops = Spec.mrunOuts le sm ops ∧
      MRel (mrunState cfg le m ops) (Spec.mrunState le sm ops)
  | [], _, _, h, _ => ⟨rfl, h⟩
  | op :: ops, m, sm, h, hv => by
    obtain ⟨hv1, hv2⟩ := hv
    obtain ⟨h1, h2⟩ := mstep_refines cfg le m sm h op hv1
    have ih := mrun_refines cfg le ops _ _ h1 hv2
    simp only [mrunOuts, mrunState, Spec.mrunOuts, Spec.mrunState]
    exact ⟨by rw [h2, ih.1], ih.2⟩

/-- registers stay inside the invariant whatever the operations and their arguments -/
theorem mstep_inv (cfg : Cfg) (le : α → α → Bool) (m : Mach α) (h : ∀ s ∈ m.regs, Inv s)
    (hb : m.cur < m.regs.length) (op : MOp α) :
    (∀ s ∈ (mstep cfg le m op).1.regs, Inv s) ∧ (mstep cfg le m op).1.cur < (mstep cfg le m op).1.regs.length := by
  have hc : Inv m.curSet := by
    unfold Mach.curSet
    rw [List.getElem?_eq_getElem hb]
    exact h _ (List.getElem_mem _)
  cases op with
  | sel k =>
    simp only [mstep]
    by_cases hk : k < m.regs.length
    · rw [if_pos hk]; exact ⟨h, hk⟩
    · rw [if_neg hk]; exact ⟨h, hb⟩
  | run f =>
    simp only [mstep]
    refine ⟨fun s hs => ?_, by simpa using hb⟩
    rcases List.mem_or_eq_of_mem_set hs with hs | hs
    · exact h s hs
    · rw [hs]; exact step_inv cfg le _ hc _
  | fork f =>
    simp only [mstep]
    refine ⟨fun s hs => ?_, by simp; omega⟩
    rcases List.mem_append.1 hs with hs | hs
    · rcases List.mem_or_eq_of_mem_set hs with hs | hs
      · exact h s hs
      · rw [hs]; exact step_inv cfg le _ hc _
    · rw [List.mem_singleton.1 hs]; exact (resultSet_spec _).1

theorem mrunState_inv (cfg : Cfg) (le : α → α → Bool) : ∀ (ops : List (MOp α)) (m : Mach α),
    (∀ s ∈ m.regs, Inv s) → m.cur < m.regs.length →
    (∀ s ∈ (mrunState cfg le m ops).regs, Inv s)
  | [], _, h, _ => h
  | op :: ops, m, h, hb =>
    mrunState_inv cfg le ops _ (mstep_inv cfg le m h hb op).1 (mstep_inv cfg le m h hb op).2

/-- an operation writes to the current register only (and `fork` appends one) -/
theorem mstep_frame (cfg : Cfg) (le : α → α → Bool) (m : Mach α) (op : MOp α) (j : Nat)
    (hj : j < m.regs.length) (hne : j ≠ m.cur) :
    (mstep cfg le m op).1.regs[j]? = m.regs[j]? := by
  cases op with
  | sel k => simp only [mstep]; split <;> rfl
  | run f => simp only [mstep]; rw [List.getElem?_set_ne (Ne.symm hne)]
  | fork f =>
    simp only [mstep]
    rw [List.getElem?_append_left (by simpa using hj), List.getElem?_set_ne (Ne.symm hne)]

end C11
