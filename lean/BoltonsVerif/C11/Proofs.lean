import BoltonsVerif.C11.Model
/-
C11 — helper lemmas: the association-list dict, live counts, dead-interval chains,
index translation, `_add_dead`, `_cull`/`_compact`, the representation invariant `Inv`
and its preservation by every mutator, and the abstraction `toList`.
-/
set_option linter.unusedSectionVars false
set_option linter.unusedSimpArgs false
set_option linter.unusedVariables false
namespace C11
variable {α : Type} [DecidableEq α]
namespace IMap

@[simp] theorem keys_nil : keys ([] : IMap α) = [] := rfl
@[simp] theorem keys_cons (k : α) (w : Nat) (m : IMap α) : keys ((k, w) :: m) = k :: keys m := rfl

theorem lookup_set (m : IMap α) (x y : α) (v : Nat) :
    lookup (set m x v) y = if x = y then some v else lookup m y := by
  induction m with
  | nil => simp [set, lookup]
  | cons p m ih => obtain ⟨k, w⟩ := p; grind [set, lookup]

theorem lookup_erase_ne (m : IMap α) (x y : α) (h : x ≠ y) :
    lookup (erase m x) y = lookup m y := by
  induction m with
  | nil => simp [erase]
  | cons p m ih => obtain ⟨k, w⟩ := p; grind [erase, lookup]

theorem lookup_isSome_iff (m : IMap α) (x : α) : (lookup m x).isSome ↔ x ∈ keys m := by
  induction m with
  | nil => simp [lookup]
  | cons p m ih => obtain ⟨k, w⟩ := p; grind [lookup, keys_cons]

theorem lookup_eq_none_iff (m : IMap α) (x : α) : lookup m x = none ↔ x ∉ keys m := by
  rw [← lookup_isSome_iff]; cases lookup m x <;> simp

theorem lookup_erase_self (m : IMap α) (x : α) (h : (keys m).Nodup) : lookup (erase m x) x = none := by
  induction m with
  | nil => simp [erase, lookup]
  | cons p m ih =>
    obtain ⟨k, w⟩ := p
    simp only [keys_cons, List.nodup_cons] at h
    by_cases hk : k = x
    · subst hk; simp only [erase, if_true]
      rw [lookup_eq_none_iff]; exact h.1
    · simp only [erase, hk, if_false, lookup]; exact ih h.2

theorem keys_erase (m : IMap α) (x : α) : keys (erase m x) = (keys m).erase x := by
  induction m with
  | nil => simp [erase]
  | cons p m ih => obtain ⟨k, w⟩ := p; grind [erase, keys_cons]

theorem keys_set_mem (m : IMap α) (x : α) (v : Nat) (h : x ∈ keys m) : keys (set m x v) = keys m := by
  induction m with
  | nil => simp at h
  | cons p m ih => obtain ⟨k, w⟩ := p; grind [set, keys_cons]

theorem keys_set_not_mem (m : IMap α) (x : α) (v : Nat) (h : x ∉ keys m) :
    keys (set m x v) = keys m ++ [x] := by
  induction m with
  | nil => simp [set]
  | cons p m ih => obtain ⟨k, w⟩ := p; grind [set, keys_cons]

theorem length_keys (m : IMap α) : (keys m).length = m.length := by simp [keys]

end IMap

/-! ## B. live items and live counts -/

@[simp] theorem live_nil : live ([] : List (Option α)) = [] := rfl
@[simp] theorem live_cons_some (x : α) (l : List (Option α)) : live (some x :: l) = x :: live l := by
  simp [live]
@[simp] theorem live_cons_none (l : List (Option α)) : live (none :: l) = live l := by
  simp [live]
theorem live_append (l l' : List (Option α)) : live (l ++ l') = live l ++ live l' := by
  simp [live, List.filterMap_append]
theorem live_map_some (l : List α) : live (l.map some) = l := by
  induction l with
  | nil => rfl
  | cons x l ih => simp [ih]
theorem live_reverse (l : List (Option α)) : live l.reverse = (live l).reverse := by
  simp [live, List.filterMap_reverse]
theorem mem_live (l : List (Option α)) (x : α) : x ∈ live l ↔ some x ∈ l := by
  simp [live]

/-- number of live slots strictly below position `r` -/
def lc (l : List (Option α)) (r : Nat) : Nat := (live (l.take r)).length

@[simp] theorem lc_zero (l : List (Option α)) : lc l 0 = 0 := by simp [lc]

theorem lc_succ (l : List (Option α)) (r : Nat) (h : r < l.length) :
    lc l (r + 1) = lc l r + (if l[r] = none then 0 else 1) := by
  unfold lc
  rw [List.take_succ_eq_append_getElem h, live_append]
  cases hr : l[r] <;> simp [live]

theorem lc_length (l : List (Option α)) : lc l l.length = (live l).length := by simp [lc]

theorem lc_ge_length (l : List (Option α)) (r : Nat) (h : l.length ≤ r) : lc l r = (live l).length := by
  simp [lc, List.take_of_length_le h]

theorem lc_step_le (l : List (Option α)) (r : Nat) : lc l r ≤ lc l (r + 1) ∧ lc l (r + 1) ≤ lc l r + 1 := by
  by_cases h : r < l.length
  · rw [lc_succ l r h]; split <;> omega
  · rw [lc_ge_length l r (by omega), lc_ge_length l (r + 1) (by omega)]; omega

theorem lc_mono (l : List (Option α)) {p q : Nat} (h : p ≤ q) : lc l p ≤ lc l q ∧ lc l q - lc l p ≤ q - p := by
  induction q with
  | zero => have : p = 0 := by omega
            subst this; simp
  | succ q ih =>
    by_cases hp : p = q + 1
    · subst hp; simp
    · have := ih (by omega); have := lc_step_le l q; omega

/-- a stretch of live slots adds its length -/
theorem lc_all_live (l : List (Option α)) (p q : Nat) (hpq : p ≤ q) (hq : q ≤ l.length)
    (h : ∀ j, p ≤ j → j < q → l[j]? ≠ some none) : lc l q = lc l p + (q - p) := by
  induction q with
  | zero => have : p = 0 := by omega
            subst this; simp
  | succ q ih =>
    by_cases hp : p = q + 1
    · subst hp; simp
    · have h1 := ih (by omega) (by omega) (fun j a b => h j a (by omega))
      have hq' : q < l.length := by omega
      rw [lc_succ l q hq', h1]
      have := h q (by omega) (by omega)
      rw [List.getElem?_eq_getElem hq'] at this
      have : l[q] ≠ none := fun e => this (by rw [e])
      simp [this]; omega

/-- a stretch of tombstones adds nothing -/
theorem lc_all_dead (l : List (Option α)) (p q : Nat) (hpq : p ≤ q) (hq : q ≤ l.length)
    (h : ∀ j, p ≤ j → j < q → l[j]? = some none) : lc l q = lc l p := by
  induction q with
  | zero => have : p = 0 := by omega
            subst this; simp
  | succ q ih =>
    by_cases hp : p = q + 1
    · subst hp; simp
    · have h1 := ih (by omega) (by omega) (fun j a b => h j a (by omega))
      have hq' : q < l.length := by omega
      rw [lc_succ l q hq', h1]
      have := h q (by omega) (by omega)
      rw [List.getElem?_eq_getElem hq'] at this
      have : l[q] = none := by simpa using this
      simp [this]

/-- the item in a live slot `r` is the `lc r`-th item of the iteration -/
theorem live_getElem_lc (l : List (Option α)) (r : Nat) (x : α) (h : l[r]? = some (some x)) :
    (live l)[lc l r]? = some x := by
  have hr : r < l.length := by
    rcases Nat.lt_or_ge r l.length with h' | h'
    · exact h'
    · rw [List.getElem?_eq_none h'] at h; cases h
  have hsplit : l = l.take r ++ (some x :: l.drop (r + 1)) := by
    rw [List.getElem?_eq_getElem hr] at h
    have : l[r] = some x := by simpa using h
    rw [← this, ← List.drop_eq_getElem_cons hr, List.take_append_drop]
  have hl : live l = live (l.take r) ++ x :: live (l.drop (r + 1)) := by
    conv => lhs; rw [hsplit]
    rw [live_append, live_cons_some]
  rw [hl]
  unfold lc
  rw [List.getElem?_append_right (Nat.le_refl _)]
  simp

/-! ## C. dead-interval chains and index translation -/

/-- position `j` lies in one of the intervals -/
def DeadAt (d : List (Nat × Nat)) (j : Nat) : Prop := ∃ p ∈ d, p.1 ≤ j ∧ j < p.2

/-- the intervals are non-empty, ordered, disjoint (adjacency allowed) and lie within `[lo, hi]` -/
def Chain : Nat → List (Nat × Nat) → Nat → Prop
  | lo, [], hi => lo ≤ hi
  | lo, (a, b) :: ds, hi => lo ≤ a ∧ a < b ∧ Chain b ds hi

/-- from position `lo` on, the tombstones are exactly the positions covered by the intervals -/
def Tombs (l : List (Option α)) (d : List (Nat × Nat)) (lo : Nat) : Prop :=
  ∀ j, lo ≤ j → j < l.length → (l[j]? = some none ↔ DeadAt d j)

@[simp] theorem deadAt_nil (j : Nat) : DeadAt [] j ↔ False := by simp [DeadAt]
@[simp] theorem deadAt_cons (p : Nat × Nat) (d : List (Nat × Nat)) (j : Nat) :
    DeadAt (p :: d) j ↔ (p.1 ≤ j ∧ j < p.2) ∨ DeadAt d j := by simp [DeadAt]
@[simp] theorem deadAt_append (d d' : List (Nat × Nat)) (j : Nat) :
    DeadAt (d ++ d') j ↔ DeadAt d j ∨ DeadAt d' j := by
  simp only [DeadAt, List.mem_append]
  constructor
  · rintro ⟨p, hp | hp, h⟩
    · exact Or.inl ⟨p, hp, h⟩
    · exact Or.inr ⟨p, hp, h⟩
  · rintro (⟨p, hp, h⟩ | ⟨p, hp, h⟩)
    · exact ⟨p, Or.inl hp, h⟩
    · exact ⟨p, Or.inr hp, h⟩

theorem chain_le : ∀ (d : List (Nat × Nat)) (lo hi : Nat), Chain lo d hi → lo ≤ hi
  | [], lo, hi, h => h
  | (a, b) :: ds, lo, hi, h => by
    have := chain_le ds b hi h.2.2
    have := h.1; have := h.2.1; omega

theorem chain_weaken_lo : ∀ (d : List (Nat × Nat)) (lo lo' hi : Nat), lo' ≤ lo → Chain lo d hi → Chain lo' d hi
  | [], lo, lo', hi, h, hc => by simp only [Chain] at hc ⊢; omega
  | (a, b) :: ds, lo, lo', hi, h, hc => ⟨by have := hc.1; omega, hc.2.1, hc.2.2⟩

theorem chain_weaken_hi : ∀ (d : List (Nat × Nat)) (lo hi hi' : Nat), hi ≤ hi' → Chain lo d hi → Chain lo d hi'
  | [], lo, hi, hi', h, hc => by simp only [Chain] at hc ⊢; omega
  | (a, b) :: ds, lo, hi, hi', h, hc => ⟨hc.1, hc.2.1, chain_weaken_hi ds b hi hi' h hc.2.2⟩

/-- everything covered by a chain lies within its bounds -/
theorem chain_deadAt : ∀ (d : List (Nat × Nat)) (lo hi j : Nat), Chain lo d hi → DeadAt d j → lo ≤ j ∧ j < hi
  | [], lo, hi, j, _, h => by simp at h
  | (a, b) :: ds, lo, hi, j, hc, h => by
    rw [deadAt_cons] at h
    have hb := chain_le ds b hi hc.2.2
    rcases h with h | h
    · have := hc.1; simp at h; omega
    · have := chain_deadAt ds b hi j hc.2.2 h
      have := hc.1; have := hc.2.1; omega

theorem chain_append : ∀ (p q : List (Nat × Nat)) (lo hi : Nat),
    Chain lo (p ++ q) hi ↔ ∃ m, Chain lo p m ∧ Chain m q hi
  | [], q, lo, hi => by
    simp only [List.nil_append, Chain]
    constructor
    · intro h; exact ⟨lo, Nat.le_refl _, h⟩
    · rintro ⟨m, h1, h2⟩; exact chain_weaken_lo q m lo hi h1 h2
  | (a, b) :: p, q, lo, hi => by
    simp only [List.cons_append, Chain]
    rw [chain_append p q b hi]
    constructor
    · rintro ⟨h1, h2, m, h3, h4⟩; exact ⟨m, ⟨h1, h2, h3⟩, h4⟩
    · rintro ⟨m, ⟨h1, h2, h3⟩, h4⟩; exact ⟨h1, h2, m, h3, h4⟩

theorem realLoop_ge : ∀ (d : List (Nat × Nat)) (r : Nat), r ≤ realLoop r d
  | [], r => by simp [realLoop]
  | (a, b) :: ds, r => by
    simp only [realLoop]; split
    · omega
    · have := realLoop_ge ds (r + (b - a)); omega

/-- `_get_real_index`: the `k`-th live slot at or after `lo` -/
theorem realLoop_spec (l : List (Option α)) : ∀ (d : List (Nat × Nat)) (lo k : Nat),
    Chain lo d l.length → Tombs l d lo → lc l lo + k < lc l l.length →
    realLoop (lo + k) d < l.length ∧ l[realLoop (lo + k) d]? ≠ some none ∧
      lc l (realLoop (lo + k) d) = lc l lo + k
  | [], lo, k, hc, ht, hk => by
    simp only [realLoop, Chain] at *
    have hlive : ∀ j, lo ≤ j → j < l.length → l[j]? ≠ some none := by
      intro j h1 h2 h3; exact (ht j h1 h2).1 h3 |> (deadAt_nil j).1
    have h1 := lc_all_live l lo l.length hc (Nat.le_refl _) (fun j a b => hlive j a b)
    have hlt : lo + k < l.length := by omega
    refine ⟨hlt, hlive _ (by omega) hlt, ?_⟩
    have := lc_all_live l lo (lo + k) (by omega) (by omega) (fun j a b => hlive j a (by omega))
    omega
  | (a, b) :: ds, lo, k, hc, ht, hk => by
    obtain ⟨hloa, hab, hc'⟩ := hc
    have hb := chain_le ds b l.length hc'
    have hlive : ∀ j, lo ≤ j → j < a → l[j]? ≠ some none := by
      intro j h1 h2 h3
      have := (ht j h1 (by omega)).1 h3
      rw [deadAt_cons] at this
      rcases this with h | h
      · simp at h; omega
      · have := chain_deadAt ds b l.length j hc' h; omega
    have hdead : ∀ j, a ≤ j → j < b → l[j]? = some none := by
      intro j h1 h2
      exact (ht j (by omega) (by omega)).2 (by rw [deadAt_cons]; exact Or.inl ⟨h1, h2⟩)
    have hla := lc_all_live l lo a hloa (by omega) hlive
    have hlb := lc_all_dead l a b (by omega) hb hdead
    simp only [realLoop]
    split
    · next hlt =>
      refine ⟨by omega, hlive _ (by omega) hlt, ?_⟩
      have := lc_all_live l lo (lo + k) (by omega) (by omega) (fun j x y => hlive j x (by omega))
      omega
    · next hge =>
      have ht' : Tombs l ds b := by
        intro j h1 h2
        rw [ht j (by omega) h2, deadAt_cons]
        constructor
        · rintro (h | h)
          · simp at h; omega
          · exact h
        · exact Or.inr
      have heq : lo + k + (b - a) = b + (k - (a - lo)) := by omega
      rw [heq]
      have := realLoop_spec l ds b (k - (a - lo)) hc' ht' (by omega)
      refine ⟨this.1, this.2.1, ?_⟩
      rw [this.2.2]; omega

/-- `_get_apparent_index` of a live slot `r`: subtract the tombstones between `lo` and `r` -/
theorem appLoop_spec (l : List (Option α)) : ∀ (d : List (Nat × Nat)) (lo r app : Nat),
    Chain lo d l.length → Tombs l d lo → lo ≤ r → r < l.length → l[r]? ≠ some none →
    appLoop r app d = app - ((r - lo) - (lc l r - lc l lo))
  | [], lo, r, app, hc, ht, hlo, hr, hlive => by
    simp only [appLoop]
    have hl : ∀ j, lo ≤ j → j < r → l[j]? ≠ some none := by
      intro j h1 h2 h3; exact (ht j h1 (by omega)).1 h3 |> (deadAt_nil j).1
    have := lc_all_live l lo r hlo (by omega) hl
    omega
  | (a, b) :: ds, lo, r, app, hc, ht, hlo, hr, hlive => by
    obtain ⟨hloa, hab, hc'⟩ := hc
    have hb := chain_le ds b l.length hc'
    have hlv : ∀ j, lo ≤ j → j < a → l[j]? ≠ some none := by
      intro j h1 h2 h3
      have := (ht j h1 (by omega)).1 h3
      rw [deadAt_cons] at this
      rcases this with h | h
      · simp at h; omega
      · have := chain_deadAt ds b l.length j hc' h; omega
    have hdead : ∀ j, a ≤ j → j < b → l[j]? = some none := by
      intro j h1 h2
      exact (ht j (by omega) (by omega)).2 (by rw [deadAt_cons]; exact Or.inl ⟨h1, h2⟩)
    simp only [appLoop]
    split
    · next hlt =>
      have := lc_all_live l lo r hlo (by omega) (fun j x y => hlv j x (by omega))
      omega
    · next hge =>
      have hrb : b ≤ r := by
        rcases Nat.lt_or_ge r b with h | h
        · exact absurd (hdead r (by omega) h) hlive
        · exact h
      have ht' : Tombs l ds b := by
        intro j h1 h2
        rw [ht j (by omega) h2, deadAt_cons]
        constructor
        · rintro (h | h)
          · simp at h; omega
          · exact h
        · exact Or.inr
      rw [appLoop_spec l ds b r (app - (b - a)) hc' ht' hrb hr hlive]
      have hla := lc_all_live l lo a hloa (by omega) hlv
      have hlb := lc_all_dead l a b (by omega) hb hdead
      have h1 := lc_mono l hrb
      have h2 := lc_mono l hlo
      omega
