import BoltonsVerif.C11.Model
/-
C11 — helper lemmas: the association-list dict, live counts, dead-interval chains,
index translation, `_add_dead`, `_cull`/`_compact`, the representation invariant `Inv`
and its preservation by every mutator, and the abstraction `toList`.
-/
set_option linter.unusedSectionVars false
set_option linter.unusedSimpArgs false
set_option linter.unusedVariables false
namespace C11
variable {α : Type} [DecidableEq α]
namespace IMap

@[simp] theorem keys_nil : keys ([] : IMap α) = [] := rfl
@[simp] theorem keys_cons (k : α) (w : Nat) (m : IMap α) : keys ((k, w) :: m) = k :: keys m := rfl

theorem lookup_set (m : IMap α) (x y : α) (v : Nat) :
    lookup (set m x v) y = if x = y then some v else lookup m y := by
  induction m with
  | nil => simp [set, lookup]
  | cons p m ih => obtain ⟨k, w⟩ := p; grind [set, lookup]

theorem lookup_erase_ne (m : IMap α) (x y : α) (h : x ≠ y) :
    lookup (erase m x) y = lookup m y := by
  induction m with
  | nil => simp [erase]
  | cons p m ih => obtain ⟨k, w⟩ := p; grind [erase, lookup]

theorem lookup_isSome_iff (m : IMap α) (x : α) : (lookup m x).isSome ↔ x ∈ keys m := by
  induction m with
  | nil => simp [lookup]
  | cons p m ih => obtain ⟨k, w⟩ := p; grind [lookup, keys_cons]

theorem lookup_eq_none_iff (m : IMap α) (x : α) : lookup m x = none ↔ x ∉ keys m := by
  rw [← lookup_isSome_iff]; cases lookup m x <;> simp

theorem lookup_erase_self (m : IMap α) (x : α) (h : (keys m).Nodup) : lookup (erase m x) x = none := by
  induction m with
  | nil => simp [erase, lookup]
  | cons p m ih =>
    obtain ⟨k, w⟩ := p
    simp only [keys_cons, List.nodup_cons] at h
    by_cases hk : k = x
    · subst hk; simp only [erase, if_true]
      rw [lookup_eq_none_iff]; exact h.1
    · simp only [erase, hk, if_false, lookup]; exact ih h.2

theorem keys_erase (m : IMap α) (x : α) : keys (erase m x) = (keys m).erase x := by
  induction m with
  | nil => simp [erase]
  | cons p m ih => obtain ⟨k, w⟩ := p; grind [erase, keys_cons]

theorem keys_set_mem (m : IMap α) (x : α) (v : Nat) (h : x ∈ keys m) : keys (set m x v) = keys m := by
  induction m with
  | nil => simp at h
  | cons p m ih => obtain ⟨k, w⟩ := p; grind [set, keys_cons]

theorem keys_set_not_mem (m : IMap α) (x : α) (v : Nat) (h : x ∉ keys m) :
    keys (set m x v) = keys m ++ [x] := by
  induction m with
  | nil => simp [set]
  | cons p m ih => obtain ⟨k, w⟩ := p; grind [set, keys_cons]

theorem length_keys (m : IMap α) : (keys m).length = m.length := by simp [keys]

end IMap

/-! ## B. live items and live counts -/

@[simp] theorem live_nil : live ([] : List (Option α)) = [] := rfl
@[simp] theorem live_cons_some (x : α) (l : List (Option α)) : live (some x :: l) = x :: live l := by
  simp [live]
@[simp] theorem live_cons_none (l : List (Option α)) : live (none :: l) = live l := by
  simp [live]
theorem live_append (l l' : List (Option α)) : live (l ++ l') = live l ++ live l' := by
  simp [live, List.filterMap_append]
theorem live_map_some (l : List α) : live (l.map some) = l := by
  induction l with
  | nil => rfl
  | cons x l ih => simp [ih]
theorem live_reverse (l : List (Option α)) : live l.reverse = (live l).reverse := by
  simp [live, List.filterMap_reverse]
theorem mem_live (l : List (Option α)) (x : α) : x ∈ live l ↔ some x ∈ l := by
  simp [live]

/-- number of live slots strictly below position `r` -/
def lc (l : List (Option α)) (r : Nat) : Nat := (live (l.take r)).length

@[simp] theorem lc_zero (l : List (Option α)) : lc l 0 = 0 := by simp [lc]

theorem lc_succ (l : List (Option α)) (r : Nat) (h : r < l.length) :
    lc l (r + 1) = lc l r + (if l[r] = none then 0 else 1) := by
  unfold lc
  rw [List.take_succ_eq_append_getElem h, live_append]
  cases hr : l[r] <;> simp [live]

theorem lc_length (l : List (Option α)) : lc l l.length = (live l).length := by simp [lc]

theorem lc_ge_length (l : List (Option α)) (r : Nat) (h : l.length ≤ r) : lc l r = (live l).length := by
  simp [lc, List.take_of_length_le h]

theorem lc_step_le (l : List (Option α)) (r : Nat) : lc l r ≤ lc l (r + 1) ∧ lc l (r + 1) ≤ lc l r + 1 := by
  by_cases h : r < l.length
  · rw [lc_succ l r h]; split <;> omega
  · rw [lc_ge_length l r (by omega), lc_ge_length l (r + 1) (by omega)]; omega

theorem lc_mono (l : List (Option α)) {p q : Nat} (h : p ≤ q) : lc l p ≤ lc l q ∧ lc l q - lc l p ≤ q - p := by
  induction q with
  | zero => have : p = 0 := by omega
            subst this; simp
  | succ q ih =>
    by_cases hp : p = q + 1
    · subst hp; simp
    · have := ih (by omega); have := lc_step_le l q; omega

/-- a stretch of live slots adds its length -/
theorem lc_all_live (l : List (Option α)) (p q : Nat) (hpq : p ≤ q) (hq : q ≤ l.length)
    (h : ∀ j, p ≤ j → j < q → l[j]? ≠ some none) : lc l q = lc l p + (q - p) := by
  induction q with
  | zero => have : p = 0 := by omega
            subst this; simp
  | succ q ih =>
    by_cases hp : p = q + 1
    · subst hp; simp
    · have h1 := ih (by omega) (by omega) (fun j a b => h j a (by omega))
      have hq' : q < l.length := by omega
      rw [lc_succ l q hq', h1]
      have := h q (by omega) (by omega)
      rw [List.getElem?_eq_getElem hq'] at this
      have : l[q] ≠ none := fun e => this (by rw [e])
      simp [this]; omega

/-- a stretch of tombstones adds nothing -/
theorem lc_all_dead (l : List (Option α)) (p q : Nat) (hpq : p ≤ q) (hq : q ≤ l.length)
    (h : ∀ j, p ≤ j → j < q → l[j]? = some none) : lc l q = lc l p := by
  induction q with
  | zero => have : p = 0 := by omega
            subst this; simp
  | succ q ih =>
    by_cases hp : p = q + 1
    · subst hp; simp
    · have h1 := ih (by omega) (by omega) (fun j a b => h j a (by omega))
      have hq' : q < l.length := by omega
      rw [lc_succ l q hq', h1]
      have := h q (by omega) (by omega)
      rw [List.getElem?_eq_getElem hq'] at this
      have : l[q] = none := by simpa using this
      simp [this]

/-- the item in a live slot `r` is the `lc r`-th item of the iteration -/
theorem live_getElem_lc (l : List (Option α)) (r : Nat) (x : α) (h : l[r]? = some (some x)) :
    (live l)[lc l r]? = some x := by
  have hr : r < l.length := by
    rcases Nat.lt_or_ge r l.length with h' | h'
    · exact h'
    · rw [List.getElem?_eq_none h'] at h; cases h
  have hsplit : l = l.take r ++ (some x :: l.drop (r + 1)) := by
    rw [List.getElem?_eq_getElem hr] at h
    have : l[r] = some x := by simpa using h
    rw [← this, ← List.drop_eq_getElem_cons hr, List.take_append_drop]
  have hl : live l = live (l.take r) ++ x :: live (l.drop (r + 1)) := by
    conv => lhs; rw [hsplit]
    rw [live_append, live_cons_some]
  rw [hl]
  unfold lc
  rw [List.getElem?_append_right (Nat.le_refl _)]
  simp

/-! ## C. dead-interval chains and index translation -/

/-- position `j` lies in one of the intervals -/
def DeadAt (d : List (Nat × Nat)) (j : Nat) : Prop := ∃ p ∈ d, p.1 ≤ j ∧ j < p.2

/-- the intervals are non-empty, ordered, disjoint (adjacency allowed) and lie within `[lo, hi]` -/
def Chain : Nat → List (Nat × Nat) → Nat → Prop
  | lo, [], hi => lo ≤ hi
  | lo, (a, b) :: ds, hi => lo ≤ a ∧ a < b ∧ Chain b ds hi

/-- from position `lo` on, the tombstones are exactly the positions covered by the intervals -/
def Tombs (l : List (Option α)) (d : List (Nat × Nat)) (lo : Nat) : Prop :=
  ∀ j, lo ≤ j → j < l.length → (l[j]? = some none ↔ DeadAt d j)

@[simp] theorem deadAt_nil (j : Nat) : DeadAt [] j ↔ False := by simp [DeadAt]
@[simp] theorem deadAt_cons (p : Nat × Nat) (d : List (Nat × Nat)) (j : Nat) :
    DeadAt (p :: d) j ↔ (p.1 ≤ j ∧ j < p.2) ∨ DeadAt d j := by simp [DeadAt]
@[simp] theorem deadAt_append (d d' : List (Nat × Nat)) (j : Nat) :
    DeadAt (d ++ d') j ↔ DeadAt d j ∨ DeadAt d' j := by
  simp only [DeadAt, List.mem_append]
  constructor
  · rintro ⟨p, hp | hp, h⟩
    · exact Or.inl ⟨p, hp, h⟩
    · exact Or.inr ⟨p, hp, h⟩
  · rintro (⟨p, hp, h⟩ | ⟨p, hp, h⟩)
    · exact ⟨p, Or.inl hp, h⟩
    · exact ⟨p, Or.inr hp, h⟩

theorem chain_le : ∀ (d : List (Nat × Nat)) (lo hi : Nat), Chain lo d hi → lo ≤ hi
  | [], lo, hi, h => h
  | (a, b) :: ds, lo, hi, h => by
    have := chain_le ds b hi h.2.2
    have := h.1; have := h.2.1; omega

theorem chain_weaken_lo : ∀ (d : List (Nat × Nat)) (lo lo' hi : Nat), lo' ≤ lo → Chain lo d hi → Chain lo' d hi
  | [], lo, lo', hi, h, hc => by simp only [Chain] at hc ⊢; omega
  | (a, b) :: ds, lo, lo', hi, h, hc => ⟨by have := hc.1; omega, hc.2.1, hc.2.2⟩

theorem chain_weaken_hi : ∀ (d : List (Nat × Nat)) (lo hi hi' : Nat), hi ≤ hi' → Chain lo d hi → Chain lo d hi'
  | [], lo, hi, hi', h, hc => by simp only [Chain] at hc ⊢; omega
  | (a, b) :: ds, lo, hi, hi', h, hc => ⟨hc.1, hc.2.1, chain_weaken_hi ds b hi hi' h hc.2.2⟩

/-- everything covered by a chain lies within its bounds -/
theorem chain_deadAt : ∀ (d : List (Nat × Nat)) (lo hi j : Nat), Chain lo d hi → DeadAt d j → lo ≤ j ∧ j < hi
  | [], lo, hi, j, _, h => by simp at h
  | (a, b) :: ds, lo, hi, j, hc, h => by
    rw [deadAt_cons] at h
    have hb := chain_le ds b hi hc.2.2
    rcases h with h | h
    · have := hc.1; simp at h; omega
    · have := chain_deadAt ds b hi j hc.2.2 h
      have := hc.1; have := hc.2.1; omega

theorem chain_append : ∀ (p q : List (Nat × Nat)) (lo hi : Nat),
    Chain lo (p ++ q) hi ↔ ∃ m, Chain lo p m ∧ Chain m q hi
  | [], q, lo, hi => by
    simp only [List.nil_append, Chain]
    constructor
    · intro h; exact ⟨lo, Nat.le_refl _, h⟩
    · rintro ⟨m, h1, h2⟩; exact chain_weaken_lo q m lo hi h1 h2
  | (a, b) :: p, q, lo, hi => by
    simp only [List.cons_append, Chain]
    rw [chain_append p q b hi]
    constructor
    · rintro ⟨h1, h2, m, h3, h4⟩; exact ⟨m, ⟨h1, h2, h3⟩, h4⟩
    · rintro ⟨m, ⟨h1, h2, h3⟩, h4⟩; exact ⟨h1, h2, m, h3, h4⟩

theorem realLoop_ge : ∀ (d : List (Nat × Nat)) (r : Nat), r ≤ realLoop r d
  | [], r => by simp [realLoop]
  | (a, b) :: ds, r => by
    simp only [realLoop]; split
    · omega
    · have := realLoop_ge ds (r + (b - a)); omega

/-- `_get_real_index`: the `k`-th live slot at or after `lo` -/
theorem realLoop_spec (l : List (Option α)) : ∀ (d : List (Nat × Nat)) (lo k : Nat),
    Chain lo d l.length → Tombs l d lo → lc l lo + k < lc l l.length →
    realLoop (lo + k) d < l.length ∧ l[realLoop (lo + k) d]? ≠ some none ∧
      lc l (realLoop (lo + k) d) = lc l lo + k
  | [], lo, k, hc, ht, hk => by
    simp only [realLoop, Chain] at *
    have hlive : ∀ j, lo ≤ j → j < l.length → l[j]? ≠ some none := by
      intro j h1 h2 h3; exact (ht j h1 h2).1 h3 |> (deadAt_nil j).1
    have h1 := lc_all_live l lo l.length hc (Nat.le_refl _) (fun j a b => hlive j a b)
    have hlt : lo + k < l.length := by omega
    refine ⟨hlt, hlive _ (by omega) hlt, ?_⟩
    have := lc_all_live l lo (lo + k) (by omega) (by omega) (fun j a b => hlive j a (by omega))
    omega
  | (a, b) :: ds, lo, k, hc, ht, hk => by
    obtain ⟨hloa, hab, hc'⟩ := hc
    have hb := chain_le ds b l.length hc'
    have hlive : ∀ j, lo ≤ j → j < a → l[j]? ≠ some none := by
      intro j h1 h2 h3
      have := (ht j h1 (by omega)).1 h3
      rw [deadAt_cons] at this
      rcases this with h | h
      · simp at h; omega
      · have := chain_deadAt ds b l.length j hc' h; omega
    have hdead : ∀ j, a ≤ j → j < b → l[j]? = some none := by
      intro j h1 h2
      exact (ht j (by omega) (by omega)).2 (by rw [deadAt_cons]; exact Or.inl ⟨h1, h2⟩)
    have hla := lc_all_live l lo a hloa (by omega) hlive
    have hlb := lc_all_dead l a b (by omega) hb hdead
    simp only [realLoop]
    split
    · next hlt =>
      refine ⟨by omega, hlive _ (by omega) hlt, ?_⟩
      have := lc_all_live l lo (lo + k) (by omega) (by omega) (fun j x y => hlive j x (by omega))
      omega
    · next hge =>
      have ht' : Tombs l ds b := by
        intro j h1 h2
        rw [ht j (by omega) h2, deadAt_cons]
        constructor
        · rintro (h | h)
          · simp at h; omega
          · exact h
        · exact Or.inr
      have heq : lo + k + (b - a) = b + (k - (a - lo)) := by omega
      rw [heq]
      have := realLoop_spec l ds b (k - (a - lo)) hc' ht' (by omega)
      refine ⟨this.1, this.2.1, ?_⟩
      rw [this.2.2]; omega

/-- `_get_apparent_index` of a live slot `r`: subtract the tombstones between `lo` and `r` -/
theorem appLoop_spec (l : List (Option α)) : ∀ (d : List (Nat × Nat)) (lo r app : Nat),
    Chain lo d l.length → Tombs l d lo → lo ≤ r → r < l.length → l[r]? ≠ some none →
    appLoop r app d = app - ((r - lo) - (lc l r - lc l lo))
  | [], lo, r, app, hc, ht, hlo, hr, hlive => by
    simp only [appLoop]
    have hl : ∀ j, lo ≤ j → j < r → l[j]? ≠ some none := by
      intro j h1 h2 h3; exact (ht j h1 (by omega)).1 h3 |> (deadAt_nil j).1
    have := lc_all_live l lo r hlo (by omega) hl
    omega
  | (a, b) :: ds, lo, r, app, hc, ht, hlo, hr, hlive => by
    obtain ⟨hloa, hab, hc'⟩ := hc
    have hb := chain_le ds b l.length hc'
    have hlv : ∀ j, lo ≤ j → j < a → l[j]? ≠ some none := by
      intro j h1 h2 h3
      have := (ht j h1 (by omega)).1 h3
      rw [deadAt_cons] at this
      rcases this with h | h
      · simp at h; omega
      · have := chain_deadAt ds b l.length j hc' h; omega
    have hdead : ∀ j, a ≤ j → j < b → l[j]? = some none := by
      intro j h1 h2
      exact (ht j (by omega) (by omega)).2 (by rw [deadAt_cons]; exact Or.inl ⟨h1, h2⟩)
    simp only [appLoop]
    split
    · next hlt =>
      have := lc_all_live l lo r hlo (by omega) (fun j x y => hlv j x (by omega))
      omega
    · next hge =>
      have hrb : b ≤ r := by
        rcases Nat.lt_or_ge r b with h | h
        · exact absurd (hdead r (by omega) h) hlive
        · exact h
      have ht' : Tombs l ds b := by
        intro j h1 h2
        rw [ht j (by omega) h2, deadAt_cons]
        constructor
        · rintro (h | h)
          · simp at h; omega
          · exact h
        · exact Or.inr
      rw [appLoop_spec l ds b r (app - (b - a)) hc' ht' hrb hr hlive]
      have hla := lc_all_live l lo a hloa (by omega) hlv
      have hlb := lc_all_dead l a b (by omega) hb hdead
      have h1 := lc_mono l hrb
      have h2 := lc_mono l hlo
      omega

/-! ## D. `_add_dead` -/

theorem takeWhile_split {β : Type} (p : β → Bool) : ∀ (l : List β),
    ∃ P Q, l = P ++ Q ∧ l.takeWhile p = P ∧ (∀ x ∈ P, p x = true) ∧ (∀ q Q', Q = q :: Q' → p q = false)
  | [] => ⟨[], [], rfl, rfl, by simp, by simp⟩
  | a :: l => by
    by_cases ha : p a = true
    · obtain ⟨P, Q, h1, h2, h3, h4⟩ := takeWhile_split p l
      refine ⟨a :: P, Q, by simp [h1], by simp [List.takeWhile_cons, ha, h2], ?_, h4⟩
      intro x hx; rcases List.mem_cons.1 hx with h | h
      · exact h ▸ ha
      · exact h3 x h
    · refine ⟨[], a :: l, rfl, by simp [List.takeWhile_cons, ha], by simp, ?_⟩
      intro q Q' h; cases h; simpa using ha

theorem chain_raise_lo : ∀ (d : List (Nat × Nat)) (lo lo' hi : Nat), Chain lo d hi → lo' ≤ hi →
    (∀ q Q', d = q :: Q' → lo' ≤ q.1) → Chain lo' d hi
  | [], lo, lo', hi, hc, h, _ => h
  | (a, b) :: ds, lo, lo', hi, hc, h, hq => ⟨hq (a, b) ds rfl, hc.2.1, hc.2.2⟩

theorem chain_mem : ∀ (d : List (Nat × Nat)) (lo hi : Nat) (p : Nat × Nat), Chain lo d hi → p ∈ d →
    lo ≤ p.1 ∧ p.1 < p.2 ∧ p.2 ≤ hi
  | [], _, _, _, _, h => by simp at h
  | (a, b) :: ds, lo, hi, p, hc, h => by
    have hb := chain_le ds b hi hc.2.2
    rcases List.mem_cons.1 h with h | h
    · subst h; exact ⟨hc.1, hc.2.1, hb⟩
    · have := chain_mem ds b hi p hc.2.2 h
      have := hc.1; have := hc.2.1; omega

theorem insertIdx_append_length {β : Type} (P Q : List β) (c : β) :
    (P ++ Q).insertIdx P.length c = P ++ c :: Q := by
  induction P with
  | nil => simp
  | cons a P ih => simp [List.insertIdx_succ_cons, ih]

theorem deadAt_cons_new (d : List (Nat × Nat)) (x j : Nat) :
    DeadAt ((x, x + 1) :: d) j ↔ (DeadAt d j ∨ j = x) := by
  rw [deadAt_cons]
  have e : ((x, x + 1).1 ≤ j ∧ j < (x, x + 1).2) ↔ j = x := by simp; omega
  rw [e]; exact or_comm

theorem deadAt_insert_new (P Q : List (Nat × Nat)) (x j : Nat) :
    DeadAt (P ++ (x, x + 1) :: Q) j ↔ (DeadAt (P ++ Q) j ∨ j = x) := by
  simp only [deadAt_append, deadAt_cons_new]
  grind

theorem deadAt_extend (P Q : List (Nat × Nat)) (a x j : Nat) (h : a ≤ x) :
    DeadAt (P ++ (a, x + 1) :: Q) j ↔ (DeadAt (P ++ (a, x) :: Q) j ∨ j = x) := by
  simp only [deadAt_append, deadAt_cons]
  have e : (a ≤ j ∧ j < x + 1) ↔ ((a ≤ j ∧ j < x) ∨ j = x) := by omega
  simp only [e]
  grind

/-- `_add_dead(x)` for a live slot `x`: the chain stays a chain and covers exactly one more position -/
theorem addDead_spec (d : List (Nat × Nat)) (x len : Nat) (hc : Chain 0 d len) (hx : x < len)
    (hnd : ¬ DeadAt d x) :
    Chain 0 (addDead d x) len ∧ ∀ j, DeadAt (addDead d x) j ↔ (DeadAt d j ∨ j = x) := by
  obtain ⟨P, Q, hd, hP, hPall, hQ⟩ := takeWhile_split (lexLt (x, x + 1)) d
  have hPlt : ∀ p ∈ P, p.1 < p.2 ∧ p.2 ≤ x := by
    intro p hp
    have h1 := hPall p hp
    have hmem : p ∈ d := by rw [hd]; exact List.mem_append_left _ hp
    have hcp := chain_mem d 0 len p hc hmem
    have hnd' : ¬ (p.1 ≤ x ∧ x < p.2) := fun h => hnd ⟨p, hmem, h⟩
    simp [lexLt] at h1
    omega
  have hQgt : ∀ q Q', Q = q :: Q' → x < q.1 := by
    intro q Q' h
    have h1 := hQ q Q' h
    have hmem : q ∈ d := by rw [hd, h]; simp
    have hcp := chain_mem d 0 len q hc hmem
    have hnd' : ¬ (q.1 ≤ x ∧ x < q.2) := fun h => hnd ⟨q, hmem, h⟩
    simp [lexLt] at h1
    omega
  have hi : bisectLeft d (x, x + 1) = P.length := by simp [bisectLeft, hP]
  rcases List.eq_nil_or_concat P with hPn | ⟨P', p, hPc⟩
  · -- nothing below the candidate: the predecessor index wraps around to the last interval
    subst hPn
    simp only [List.nil_append] at hd
    subst hd
    cases d with
    | nil => simp [addDead, Chain]; exact ⟨by omega, fun j => by omega⟩
    | cons q Q' =>
      have hq := hQgt q Q' rfl
      rcases List.eq_nil_or_concat Q' with hQn | ⟨Q'', z, hQc⟩
      · subst hQn
        obtain ⟨q1, q2⟩ := q
        simp only [Chain] at hc
        simp at hq
        simp only [addDead, hi]
        simp
        split
        · simp [Chain]; exact ⟨by omega, fun j => by omega⟩
        · split
          · omega
          · simp [Chain]; exact ⟨by omega, fun j => by omega⟩
      · rw [List.concat_eq_append] at hQc
        subst hQc
        obtain ⟨q1, q2⟩ := q
        obtain ⟨z1, z2⟩ := z
        have hcq : Chain q2 (Q'' ++ [(z1, z2)]) len := hc.2.2
        have hz' := chain_mem _ q2 len (z1, z2) hcq (by simp)
        have hq12 : q1 < q2 := hc.2.1
        simp at hq hz'
        have hget : (((q1, q2) :: (Q'' ++ [(z1, z2)])))[((q1, q2) :: (Q'' ++ [(z1, z2)])).length - 1]? = some (z1, z2) := by
          simp
        have c1 : ¬ (x ≤ z1 ∧ z1 ≤ x + 1) := by omega
        have c2 : ¬ (x ≤ z2 ∧ z2 ≤ x + 1) := by omega
        have hval : addDead ((q1, q2) :: (Q'' ++ [(z1, z2)])) x = (x, x + 1) :: (q1, q2) :: (Q'' ++ [(z1, z2)]) := by
          simp only [addDead, hi]
          simp only [List.isEmpty_cons, List.length_nil, if_true, hget]
          simp [c1, c2]
        rw [hval]
        refine ⟨⟨by omega, by omega, by omega, hq12, hcq⟩, fun j => deadAt_cons_new _ x j⟩
  · -- the predecessor is the last interval below the candidate
    rw [List.concat_eq_append] at hPc
    subst hPc
    obtain ⟨p1, p2⟩ := p
    have hp := hPlt (p1, p2) (by simp)
    simp at hp
    have hne : d.isEmpty = false := by rw [hd]; simp
    have hlen : (P' ++ [(p1, p2)]).length = P'.length + 1 := by simp
    have hget : d[P'.length]? = some (p1, p2) := by rw [hd]; simp
    have c1 : ¬ (x ≤ p1 ∧ p1 ≤ x + 1) := by omega
    rw [hd, List.append_assoc, chain_append] at hc
    obtain ⟨m, hcP, hcQ⟩ := hc
    simp only [List.singleton_append, Chain] at hcQ
    have hm := chain_le P' 0 m hcP
    have hQlo : Chain (x + 1) Q len := by
      refine chain_raise_lo Q p2 (x + 1) len hcQ.2.2 (by omega) ?_
      intro q Q' h; have := hQgt q Q' h; omega
    by_cases c2 : x ≤ p2 ∧ p2 ≤ x + 1
    · have hp2 : p2 = x := by omega
      have hval : addDead d x = P' ++ (p1, x + 1) :: Q := by
        simp only [addDead, hi, hne, hlen]
        simp only [Bool.false_eq_true, if_false, Nat.add_one_ne_zero, Nat.add_sub_cancel, hget, c1, c2, if_true]
        rw [hd]; simp
      rw [hval]
      constructor
      · rw [chain_append]
        exact ⟨m, hcP, hcQ.1, by omega, hQlo⟩
      · intro j
        rw [deadAt_extend P' Q p1 x j (by omega), hd, ← hp2]; simp
    · have hval : addDead d x = (P' ++ [(p1, p2)]) ++ (x, x + 1) :: Q := by
        simp only [addDead, hi, hne, hlen]
        simp only [Bool.false_eq_true, if_false, Nat.add_one_ne_zero, Nat.add_sub_cancel, hget, c1, c2]
        rw [hd, ← hlen]; exact insertIdx_append_length _ _ _
      rw [hval]
      constructor
      · rw [List.append_assoc, chain_append]
        exact ⟨m, hcP, hcQ.1, hcQ.2.1, by omega, by omega, hQlo⟩
      · intro j
        rw [deadAt_insert_new, hd]


/-! ## E. the representation invariant -/

/-- what holds between the three structures at every point (also between `_add_dead` and `_cull`) -/
structure InvC (s : ISet α) : Prop where
  nodup : (live s.items).Nodup
  perm : (IMap.keys s.idx).Perm (live s.items)
  look : ∀ x i, IMap.lookup s.idx x = some i → s.items[i]? = some (some x)
  chain : Chain 0 s.dead s.items.length
  tombs : Tombs s.items s.dead 0

/-- the invariant of the public states: additionally the last slot is never a tombstone -/
structure Inv (s : ISet α) : Prop extends InvC s where
  lastLive : s.items.getLast? ≠ some none

theorem getElem?_lt {β : Type} {l : List β} {i : Nat} {v : β} (h : l[i]? = some v) : i < l.length := by
  rcases Nat.lt_or_ge i l.length with h' | h'
  · exact h'
  · rw [List.getElem?_eq_none h'] at h; cases h

/-- two live slots holding the same item are the same slot -/
theorem live_slot_inj (l : List (Option α)) (hn : (live l).Nodup) (i j : Nat) (x : α)
    (hi : l[i]? = some (some x)) (hj : l[j]? = some (some x)) : i = j := by
  have h1 := live_getElem_lc l i x hi
  have h2 := live_getElem_lc l j x hj
  have hlt : lc l i < (live l).length := getElem?_lt h1
  have heq : lc l i = lc l j := (List.getElem?_inj hlt hn).1 (h1.trans h2.symm)
  have key : ∀ a b : Nat, a < b → l[a]? = some (some x) → lc l a < lc l b := by
    intro a b hab ha
    have hal := getElem?_lt ha
    have := lc_succ l a hal
    rw [List.getElem?_eq_getElem hal] at ha
    have hne : l[a] ≠ none := by intro e; rw [e] at ha; cases ha
    simp [hne] at this
    have := (lc_mono l (show a + 1 ≤ b by omega)).1
    omega
  rcases Nat.lt_trichotomy i j with h | h | h
  · have := key i j h hi; omega
  · exact h
  · have := key j i h hj; omega

namespace InvC
variable {s : ISet α}

theorem keys_nodup (h : InvC s) : (IMap.keys s.idx).Nodup := (h.perm.nodup_iff).2 h.nodup

theorem len_eq (h : InvC s) : s.len = s.toList.length := by
  unfold ISet.len ISet.toList
  rw [← IMap.length_keys, h.perm.length_eq]

theorem contains_iff (h : InvC s) (x : α) : s.contains x = true ↔ x ∈ s.toList := by
  unfold ISet.contains ISet.toList
  rw [IMap.lookup_isSome_iff, h.perm.mem_iff]

theorem lookup_of_slot (h : InvC s) (x : α) (i : Nat) (hi : s.items[i]? = some (some x)) :
    IMap.lookup s.idx x = some i := by
  have hx : x ∈ live s.items := by
    rw [mem_live]; exact List.mem_of_getElem? hi
  have hk : x ∈ IMap.keys s.idx := (h.perm.mem_iff).2 hx
  rw [← IMap.lookup_isSome_iff] at hk
  cases hl : IMap.lookup s.idx x with
  | none => rw [hl] at hk; cases hk
  | some j =>
    have := h.look x j hl
    rw [live_slot_inj s.items h.nodup i j x hi this]

theorem not_dead_of_slot (h : InvC s) (x : α) (i : Nat) (hi : s.items[i]? = some (some x)) :
    ¬ DeadAt s.dead i := by
  intro hd
  have := (h.tombs i (Nat.zero_le _) (getElem?_lt hi)).2 hd
  rw [hi] at this; cases this

end InvC

theorem inv_empty : Inv (ISet.empty : ISet α) where
  nodup := by simp [ISet.empty]
  perm := by simp [ISet.empty]
  look := by intro x i h; simp [ISet.empty, IMap.lookup] at h
  chain := by simp [ISet.empty, Chain]
  tombs := by intro j _ h; simp [ISet.empty] at h
  lastLive := by simp [ISet.empty]

/-- `add`: append when new -/
theorem toList_add (s : ISet α) (h : InvC s) (x : α) :
    (s.add x).toList = if x ∈ s.toList then s.toList else s.toList ++ [x] := by
  unfold ISet.add
  by_cases hc : s.contains x = true
  · simp [hc, (h.contains_iff x).1 hc]
  · have : x ∉ s.toList := fun hm => hc ((h.contains_iff x).2 hm)
    unfold ISet.toList at this ⊢
    simp [hc, this, live_append]

theorem inv_add (s : ISet α) (h : Inv s) (x : α) : Inv (s.add x) := by
  unfold ISet.add
  by_cases hc : s.contains x = true
  · simp [hc]; exact h
  · have hx : x ∉ live s.items := fun hm => hc ((h.toInvC.contains_iff x).2 hm)
    have hk : x ∉ IMap.keys s.idx := fun hm => hx ((h.perm.mem_iff).1 hm)
    simp only [hc, Bool.false_eq_true, if_false]
    refine { nodup := ?_, perm := ?_, look := ?_, chain := ?_, tombs := ?_, lastLive := ?_ }
    · simp only [live_append, live_cons_some, live_nil]
      rw [List.nodup_append]
      refine ⟨h.nodup, by simp, ?_⟩
      intro a ha b hb e; simp at hb; subst hb; subst e; exact hx ha
    · simp only [live_append, live_cons_some, live_nil]
      rw [IMap.keys_set_not_mem _ _ _ hk]
      exact h.perm.append_right _
    · intro y i hl
      rw [IMap.lookup_set] at hl
      by_cases hxy : x = y
      · subst hxy; simp at hl; subst hl; simp
      · simp [hxy] at hl
        have := h.look y i hl
        rw [List.getElem?_append_left (getElem?_lt this)]; exact this
    · simp only [List.length_append, List.length_singleton]
      exact chain_weaken_hi _ _ _ _ (Nat.le_succ _) h.chain
    · intro j _ hj
      simp only [List.length_append, List.length_singleton] at hj
      by_cases hjl : j < s.items.length
      · rw [List.getElem?_append_left hjl]; exact h.tombs j (Nat.zero_le _) hjl
      · have hje : j = s.items.length := by omega
        subst hje
        simp
        intro hd
        have := chain_deadAt _ _ _ _ h.chain hd
        omega
    · simp [List.getLast?_append]


/-! ### removing one item (before `_cull`) -/

theorem split_at_slot (l : List (Option α)) (r : Nat) (v : Option α) (h : l[r]? = some v) :
    l = l.take r ++ v :: l.drop (r + 1) := by
  have hr := getElem?_lt h
  rw [List.getElem?_eq_getElem hr] at h
  have : l[r] = v := by simpa using h
  rw [← this, ← List.drop_eq_getElem_cons hr, List.take_append_drop]

theorem set_at_slot (l : List (Option α)) (r : Nat) (v w : Option α) (h : l[r]? = some v) :
    l.set r w = l.take r ++ w :: l.drop (r + 1) := by
  have hr := getElem?_lt h
  conv => lhs; rw [split_at_slot l r v h]
  rw [List.set_append_right _ _ (by simp; omega)]
  simp [Nat.min_eq_left (Nat.le_of_lt hr)]

theorem live_set_none (l : List (Option α)) (r : Nat) (x : α) (h : l[r]? = some (some x))
    (hn : (live l).Nodup) : live (l.set r none) = (live l).erase x := by
  have hs := split_at_slot l r _ h
  rw [set_at_slot l r _ none h, live_append, live_cons_none]
  have hl : live l = live (l.take r) ++ x :: live (l.drop (r + 1)) := by
    conv => lhs; rw [hs]
    rw [live_append, live_cons_some]
  rw [hl] at hn ⊢
  have hx : x ∉ live (l.take r) := by
    intro hm
    rw [List.nodup_append] at hn
    exact hn.2.2 x hm x (by simp) rfl
  rw [List.erase_append_right _ hx]
  simp

/-- tombstoning the live slot `r` (the body of `remove`/`pop(i)` up to `_cull`) -/
theorem invC_kill (s : ISet α) (h : InvC s) (r : Nat) (x : α) (hr : s.items[r]? = some (some x)) :
    InvC ⟨s.items.set r none, IMap.erase s.idx x, addDead s.dead r⟩ ∧
      live (s.items.set r none) = (live s.items).erase x := by
  have hlive := live_set_none s.items r x hr h.nodup
  have hrl := getElem?_lt hr
  have had := addDead_spec s.dead r s.items.length h.chain hrl (h.not_dead_of_slot x r hr)
  refine ⟨{ nodup := ?_, perm := ?_, look := ?_, chain := ?_, tombs := ?_ }, hlive⟩
  · show (live (s.items.set r none)).Nodup
    rw [hlive]; exact h.nodup.erase x
  · show (IMap.keys (IMap.erase s.idx x)).Perm (live (s.items.set r none))
    rw [hlive, IMap.keys_erase]; exact h.perm.erase x
  · intro y j hl
    show (s.items.set r none)[j]? = some (some y)
    have hyx : x ≠ y := by
      intro e; subst e
      rw [IMap.lookup_erase_self _ _ h.keys_nodup] at hl; cases hl
    rw [IMap.lookup_erase_ne _ _ _ hyx] at hl
    have hj := h.look y j hl
    have hjr : r ≠ j := by
      intro e; subst e; rw [hr] at hj; simp at hj; exact hyx hj
    rw [List.getElem?_set]; simp [hjr]; exact hj
  · show Chain 0 (addDead s.dead r) (s.items.set r none).length
    rw [List.length_set]; exact had.1
  · intro j _ hj
    show (s.items.set r none)[j]? = some none ↔ DeadAt (addDead s.dead r) j
    rw [List.length_set] at hj
    rw [had.2 j, List.getElem?_set]
    by_cases hjr : r = j
    · subst hjr; simp [hrl]
    · simp only [hjr, if_false]
      rw [h.tombs j (Nat.zero_le _) hj]
      constructor
      · exact Or.inl
      · rintro (h' | h')
        · exact h'
        · exact absurd h'.symm hjr


/-! ### rebuilding the dict (`_compact`, `sort`, `reverse`) -/

theorem lookup_assignIdx : ∀ (l : List α) (m : IMap α) (k : Nat) (x : α), l.Nodup →
    IMap.lookup (assignIdx m l k) x = if x ∈ l then some (k + l.idxOf x) else IMap.lookup m x
  | [], m, k, x, _ => by simp [assignIdx]
  | y :: ys, m, k, x, hn => by
    rw [List.nodup_cons] at hn
    simp only [assignIdx]
    rw [lookup_assignIdx ys (IMap.set m y k) (k + 1) x hn.2, IMap.lookup_set]
    by_cases hxy : y = x
    · subst hxy; simp [hn.1, List.idxOf_cons]
    · have hxy' : ¬ x = y := fun e => hxy e.symm
      by_cases hx : x ∈ ys
      · have hb : (y == x) = false := by simp [hxy]
        simp [hx, hxy, List.idxOf_cons, hb]; omega
      · simp [hx, hxy, hxy']

theorem keys_assignIdx : ∀ (l : List α) (m : IMap α) (k : Nat), (∀ x ∈ l, x ∈ IMap.keys m) →
    IMap.keys (assignIdx m l k) = IMap.keys m
  | [], m, k, _ => by simp [assignIdx]
  | y :: ys, m, k, h => by
    simp only [assignIdx]
    have hy := h y (by simp)
    rw [keys_assignIdx ys _ (k + 1) (by
      intro x hx; rw [IMap.keys_set_mem _ _ _ hy]; exact h x (by simp [hx])),
      IMap.keys_set_mem _ _ _ hy]

/-- any duplicate-free re-listing of the live items, with the dict re-pointed, is a valid state -/
theorem inv_rebuild (s : ISet α) (h : InvC s) (l : List α) (hp : l.Perm (live s.items)) :
    Inv ⟨l.map some, assignIdx s.idx l 0, []⟩ := by
  have hln : l.Nodup := (hp.nodup_iff).2 h.nodup
  have hkeys : IMap.keys (assignIdx s.idx l 0) = IMap.keys s.idx :=
    keys_assignIdx l s.idx 0 (fun x hx => (h.perm.mem_iff).2 ((hp.mem_iff).1 hx))
  refine { nodup := ?_, perm := ?_, look := ?_, chain := ?_, tombs := ?_, lastLive := ?_ }
  · show (live (l.map some)).Nodup
    rw [live_map_some]; exact hln
  · show (IMap.keys (assignIdx s.idx l 0)).Perm (live (l.map some))
    rw [live_map_some, hkeys]; exact h.perm.trans hp.symm
  · intro x i hl
    show (l.map some)[i]? = some (some x)
    rw [lookup_assignIdx l s.idx 0 x hln] at hl
    by_cases hx : x ∈ l
    · simp [hx] at hl
      subst hl
      have hlt := List.idxOf_lt_length_of_mem hx
      rw [List.getElem?_map, List.getElem?_eq_getElem hlt, List.getElem_idxOf hlt]; rfl
    · simp [hx] at hl
      have : x ∈ IMap.keys s.idx := by
        rw [← IMap.lookup_isSome_iff, hl]; rfl
      exact absurd ((hp.mem_iff).2 ((h.perm.mem_iff).1 this)) hx
  · show Chain 0 [] _
    simp [Chain]
  · intro j _ hj
    show (l.map some)[j]? = some none ↔ DeadAt [] j
    simp [List.getElem?_map]
  · show (l.map some).getLast? ≠ some none
    rw [List.getLast?_map]; cases l.getLast? <;> simp

/-- a tombstone means fewer live items than slots -/
theorem live_length_lt (l : List (Option α)) (a : Nat) (h : l[a]? = some none) : (live l).length < l.length := by
  have ha := getElem?_lt h
  have h1 := lc_succ l a ha
  rw [List.getElem?_eq_getElem ha] at h
  have : l[a] = none := by simpa using h
  simp [this] at h1
  have h2 := lc_mono l (show a + 1 ≤ l.length by omega)
  have h3 := lc_mono l (Nat.zero_le a)
  rw [lc_length] at h2
  simp at h3
  omega

theorem toList_compact (s : ISet α) (h : InvC s) : Inv (compact s) ∧ (compact s).toList = s.toList := by
  unfold compact
  cases hd : s.dead with
  | nil =>
    simp only [List.isEmpty_nil, if_true]
    refine ⟨{ toInvC := h, lastLive := ?_ }, trivial⟩
    intro hl
    rw [List.getLast?_eq_getElem?] at hl
    have hlt := getElem?_lt hl
    have := (h.tombs _ (Nat.zero_le _) hlt).1 hl
    rw [hd] at this; simp at this
  | cons p ds =>
    obtain ⟨a, b⟩ := p
    simp only [List.isEmpty_cons, Bool.false_eq_true, if_false]
    have hc := h.chain
    rw [hd] at hc
    have hb := chain_le ds b _ hc.2.2
    have hdead : s.items[a]? = some none :=
      (h.tombs a (Nat.zero_le _) (by have := hc.2.1; omega)).2 (by rw [hd, deadAt_cons]; left; exact ⟨Nat.le_refl _, hc.2.1⟩)
    have hlt := live_length_lt s.items a hdead
    have hlen : s.idx.length = (live s.items).length := by
      rw [← IMap.length_keys, h.perm.length_eq]
    have hdc : s.items.length - s.idx.length ≠ 0 := by omega
    have hitems : (List.map some (live s.items) ++ List.drop (live s.items).length s.items).take
        ((List.map some (live s.items) ++ List.drop (live s.items).length s.items).length -
          (s.items.length - s.idx.length)) = List.map some (live s.items) := by
      apply List.take_left'
      simp; omega
    simp only [hdc, if_false, hitems]
    have := inv_rebuild s h (live s.items) (List.Perm.refl _)
    exact ⟨this, by simp [ISet.toList, live_map_some]⟩

