import BoltonsVerif.C11.Driver
def main : IO Unit := BV.mainLoop C11.Driver.handle
